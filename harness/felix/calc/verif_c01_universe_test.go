package calc_test

// C01 / C02 — generated datastore universe for the Felix calculation graph.
//
// A universe is a fixed catalogue of datastore keys ("slots": workload endpoints on the local
// and two remote hosts, host endpoints, profile rules + profile labels (incl. namespace /
// service-account profiles), tiers, policies of several kinds in several tiers, network sets,
// IP pools, IPAM blocks, node resources and per-host VXLAN config).  For every slot the case
// draws a few candidate *versions* of the value through rapid; every version is a closure that
// builds a fresh object on each delivery (the real syncer never hands Felix the same pointer
// twice).  Some versions are deliberately invalid (they must be nil-ed by the
// ValidationFilter, i.e. behave exactly like "absent").
//
// Value generators only produce what real callers can produce: the shapes the libcalico-go
// update processors emit (canonical CIDRs, ports only with tcp/udp/sctp, pre-DNAT/untracked
// policies with applyOnForward and without egress, node addresses that parse, ...), plus invalid
// variants that the ValidationFilter is documented to drop.

import (
	"fmt"
	"net/netip"
	"sort"
	"strings"

	v3 "github.com/projectcalico/api/pkg/apis/projectcalico/v3"
	"github.com/projectcalico/api/pkg/lib/numorstring"
	metav1 "k8s.io/apimachinery/pkg/apis/meta/v1"
	"pgregory.net/rapid"

	"github.com/projectcalico/calico/lib/std/uniquelabels"
	"github.com/projectcalico/calico/libcalico-go/lib/apis/internalapi"
	"github.com/projectcalico/calico/libcalico-go/lib/backend/encap"
	"github.com/projectcalico/calico/libcalico-go/lib/backend/model"
	calinet "github.com/projectcalico/calico/libcalico-go/lib/net"
)

const (
	c01Local   = "lhost"
	c01Remote  = "rhost"
	c01Remote2 = "rhost2"
)

var c01Hosts = []string{c01Local, c01Remote, c01Remote2}

// c01Ver is one candidate value of a slot.
type c01Ver struct {
	Desc    string     // human-readable rendering (goes into failure output and samples)
	Mk      func() any // builds a fresh value
	Invalid bool       // generated as an invalid variant (must be dropped by the ValidationFilter)
	// Neutral, when set, returns the variant of this version used to steer away from a known
	// finding (see c01SigTierStale).
	Neutral func() c01Ver
	// Profiles is the ordered ProfileIDs list of an endpoint version; Reorder returns the same
	// endpoint value with only that list replaced (used for the "reorder ProfileIDs only" move).
	Profiles []string
	Reorder  func(profiles []string) c01Ver
	// IPs: a workload endpoint's addresses; TunnelAddrs: a node's tunnel addresses (VXLAN v4/v6, IPIP,
	// WireGuard v4/v6) -- for class accounting only.
	IPs         []string
	TunnelAddrs []string
	// Labels: the endpoint's own labels / a profile's labelsToApply (for class accounting only).
	Labels map[string]string
}

type c01Slot struct {
	Name  string
	Class string
	Key   model.Key
	Gen   func(t *rapid.T, u *c01Universe, label string) c01Ver
	// Refs: for "teardown with live referrer" construction; names of slots this class refers to
	// are resolved at history-generation time from the class.
}

type c01Universe struct {
	Slots []c01Slot
	// Knobs for validity decisions that depend on Felix config.
	SpoofingAllowed bool
	// SteerBlocks is set when the known finding c01SigBlockStale is listed: the generator then
	// avoids, by construction, routes nested inside an IPAM block (local workload addresses inside
	// block CIDRs, non-affine "borrowed" allocations), which is the only way to reach that finding.
	SteerBlocks bool
	// SteerLocalNode is set when c01SigSameSubnetStale is listed.
	SteerLocalNode bool
	// PreferVXLAN biases pools towards VXLAN modes and nodes towards having a BGP IPv4 address, so
	// that VTEPs and routes that need them coexist often ("vxlan" focus).
	PreferVXLAN bool
	// HostWEPIPs collects, per host, the addresses drawn so far for workload endpoints on that host; a
	// node's tunnel addresses are drawn from the same vocabulary and, in TunnelCollide cases, mostly
	// from this list, so that one address is both a tunnel address and a workload IP on the same node
	// (the IPAM-leak situation the route resolver documents it must tolerate).
	HostWEPIPs    map[string][]string
	TunnelCollide bool
	// VTEP scenario: pool 10.0.0.0/16 is a VXLAN pool, node rhost has a BGP IPv4 address and block
	// 10.0.1.0/29 is affine to rhost, so that a VXLAN block route via rhost and rhost's VTEP coexist
	// and the history can then modify the VTEP.
	VTEPScenario bool
	// Reorder scenario: profiles p1 and p2 apply conflicting values for label ReorderKey, the slots
	// wep/l1 and hep/lh1 list both, and policy/g1's selector usually tests that label.
	ReorderOn                        bool
	ReorderKey, ReorderV1, ReorderV2 string
	Steered                          map[string]bool // signature -> steering actually changed a drawn value in this case
}

// c01SigBlockStale: L3RouteResolver does not recompute routes nested inside an IPAM block when
// the block is added / removed / changes node (RouteTrie.UpdateBlockRoute/RemoveBlockRoute do not
// mark contained CIDRs dirty, unlike UpdatePool), so borrowed / types / dst_node_name of the nested
// route depend on delivery order.
const c01SigBlockStale = "l3rr-block-update-leaves-contained-routes-stale"

// c01SigTierStale: PolicySorter.OnUpdate clears Valid and Order but not DefaultAction when a Tier
// is deleted while active policies still name it, so endpoints keep the deleted tier's default
// action until Felix restarts (a fresh Felix reports "" for the absent tier).
const c01SigTierStale = "policysorter-deleted-tier-keeps-default-action"

// c01SigSameSubnetStale: L3RouteResolver.onNodeUpdate decides which routes to recompute with
// myNewV4CIDR.ContainsV4(...) / myNewV6CIDR.ContainsV6(...) even when the local node's new CIDR of
// that family is the zero value (node still exists but lost that address family); the zero CIDR
// "contains" everything, so routes whose same_subnet must flip to false are not marked dirty
// (nodeInOurSubnet itself does guard against the zero CIDR).
const c01SigSameSubnetStale = "l3rr-local-node-loses-address-family-same-subnet-stale"

var c01AllSigs = []string{c01SigBlockStale, c01SigTierStale, c01SigSameSubnetStale}

// Addresses outside every block CIDR of the universe (used instead of in-block ones when steering).
var c01V4AddrsOutsideBlocks = []string{
	"10.0.3.1", "10.0.3.2", "10.0.3.3", "10.0.4.1", "10.0.4.2", "10.0.5.1", "10.0.5.2", "10.1.0.1", "192.168.0.9",
}

// ---- small vocabularies -------------------------------------------------------------------

var (
	c01LabelNames  = []string{"a", "b", "role"}
	c01LabelValues = []string{"x", "y", "z"}
	c01ProfileIDs  = []string{"p1", "p2", "p3", "kns.ns1", "ksa.ns1.sa1", "pmissing"}
	c01BaseSels    = []string{
		"all()", "a == 'x'", "a == 'y'", "b == 'x'", "has(a)", "has(role)", "!has(b)", "a != 'x'",
		"a in {'x', 'y'}", "role not in {'z'}", "prof == 'p1'", "has(prof)", "prof == 'p2'",
		"pcol == 'blue'", "a == 'x' && b == 'x'", "global()",
	}
	c01V4Addrs = []string{
		"10.0.0.1", "10.0.0.2", "10.0.0.3", "10.0.1.1", "10.0.1.2", "10.0.2.1", "10.0.2.2", "10.1.0.1", "192.168.0.9",
	}
	c01V6Addrs = []string{"fd00:10::1", "fd00:10::2", "fd00:10:0:1::1"}
	c01CIDRs   = []string{
		"0.0.0.0/0", "10.0.0.0/8", "10.0.0.0/24", "10.0.0.0/28", "10.0.0.1/32", "10.0.0.2/32", "10.0.1.0/29",
		"10.0.1.1/32", "12.0.0.0/24", "12.0.0.0/25", "fd00:10::/64", "fd00:10::1/128", "::/0",
	}
	c01NamedPorts = []struct {
		Name  string
		Proto string
		Port  uint16
	}{{"http", "tcp", 80}, {"http", "tcp", 8080}, {"dns", "udp", 53}, {"http", "udp", 80}, {"dns", "tcp", 53}}
	c01NumPorts = []uint16{1, 53, 80, 81, 8080, 65535}
)

func c01Labels(t *rapid.T, label string) map[string]string {
	m := map[string]string{}
	for _, n := range c01LabelNames {
		i := rapid.IntRange(0, len(c01LabelValues)).Draw(t, label+".label."+n)
		if i > 0 {
			m[n] = c01LabelValues[i-1]
		}
	}
	return m
}

func c01LabelsDesc(m map[string]string) string {
	ks := make([]string, 0, len(m))
	for k := range m {
		ks = append(ks, k)
	}
	sort.Strings(ks)
	var sb strings.Builder
	sb.WriteString("{")
	for i, k := range ks {
		if i > 0 {
			sb.WriteString(",")
		}
		sb.WriteString(k + "=" + m[k])
	}
	sb.WriteString("}")
	return sb.String()
}

func c01CloneMap(m map[string]string) map[string]string {
	if m == nil {
		return nil
	}
	out := make(map[string]string, len(m))
	for k, v := range m {
		out[k] = v
	}
	return out
}

// Selectors of the grammar that tell the two conflicting values of each reorder key apart.
var c01ReorderChoices = []struct {
	Key, V1, V2 string
	Sels        []string
}{
	{"a", "x", "y", []string{"a == 'x'", "a == 'y'", "a != 'x'", "(a == 'x') && (has(a))", "!(a == 'y')"}},
	{"b", "x", "y", []string{"b == 'x'", "!(b == 'x')", "a == 'x' && b == 'x'"}},
	{"role", "z", "x", []string{"role not in {'z'}", "!(role not in {'z'})", "(has(role)) && (role not in {'z'})"}},
	{"pcol", "blue", "red", []string{"pcol == 'blue'", "!(pcol == 'blue')"}},
}

func (u *c01Universe) reorderEndpoint(label string) bool {
	return u.ReorderOn && (strings.HasPrefix(label, "wep/l1.") || strings.HasPrefix(label, "hep/lh1."))
}

// reorderProfiles forces p1 and p2 (in a drawn relative order) to the front of the list.
func (u *c01Universe) reorderProfiles(t *rapid.T, label string, profiles []string, max int) []string {
	out := []string{"p1", "p2"}
	if rapid.Bool().Draw(t, label+".p2first") {
		out = []string{"p2", "p1"}
	}
	for _, p := range profiles {
		if p != "p1" && p != "p2" && len(out) < max {
			out = append(out, p)
		}
	}
	return out
}

// c01OneIn draws a rare event with probability 1/n; the drawn value 0 (what rapid shrinks to) is
// always the benign "did not happen" outcome.
func c01OneIn(t *rapid.T, label string, n int) bool {
	return rapid.IntRange(0, n-1).Draw(t, label) == n-1
}

func c01Selector(t *rapid.T, label string) string {
	base := func(l string) string {
		return rapid.SampledFrom(c01BaseSels).Draw(t, l)
	}
	switch rapid.IntRange(0, 7).Draw(t, label+".selform") {
	case 0:
		return "(" + base(label+".l") + ") && (" + base(label+".r") + ")"
	case 1:
		return "(" + base(label+".l") + ") || (" + base(label+".r") + ")"
	case 2:
		return "!(" + base(label+".n") + ")"
	default:
		return base(label + ".sel")
	}
}

func c01SubsetOrdered(t *rapid.T, label string, from []string, max int) []string {
	n := rapid.IntRange(0, max).Draw(t, label+".n")
	var out []string
	seen := map[string]bool{}
	for i := 0; i < n; i++ {
		s := rapid.SampledFrom(from).Draw(t, fmt.Sprintf("%s[%d]", label, i))
		if seen[s] {
			continue
		}
		seen[s] = true
		out = append(out, s)
	}
	return out
}

// c01ProfileList draws an endpoint's ProfileIDs list: up to max entries, NOT de-duplicated (nothing
// upstream de-duplicates that list), with an explicit bias towards naming the same ID twice.
func c01ProfileList(t *rapid.T, label string, from []string, max int) []string {
	n := rapid.IntRange(0, max).Draw(t, label+".n")
	var out []string
	for i := 0; i < n; i++ {
		l := fmt.Sprintf("%s[%d]", label, i)
		if i > 0 && rapid.IntRange(0, 3).Draw(t, l+".repeat") == 3 {
			out = append(out, out[rapid.IntRange(0, i-1).Draw(t, l+".repeatOf")])
			continue
		}
		out = append(out, rapid.SampledFrom(from).Draw(t, l))
	}
	return out
}

func c01HasRepeat(list []string) bool {
	seen := map[string]bool{}
	for _, s := range list {
		if seen[s] {
			return true
		}
		seen[s] = true
	}
	return false
}

func c01Nets(strs []string, bits string) []calinet.IPNet {
	var out []calinet.IPNet
	for _, s := range strs {
		if !strings.Contains(s, "/") {
			s += bits
		}
		out = append(out, calinet.MustParseNetwork(s))
	}
	return out
}

func c01NetPtrs(strs []string) []*calinet.IPNet {
	var out []*calinet.IPNet
	for _, s := range strs {
		n := calinet.MustParseNetwork(s)
		out = append(out, &n)
	}
	return out
}

func c01IPs(strs []string) []calinet.IP {
	var out []calinet.IP
	for _, s := range strs {
		out = append(out, calinet.MustParseIP(s))
	}
	return out
}

type c01PortSpec struct {
	Name     string
	Proto    string
	Port     uint16
	BadProto bool
}

func c01EndpointPorts(t *rapid.T, label string, allowInvalid bool) (specs []c01PortSpec, invalid bool) {
	n := rapid.IntRange(0, 2).Draw(t, label+".nports")
	for i := 0; i < n; i++ {
		p := rapid.SampledFrom(c01NamedPorts).Draw(t, fmt.Sprintf("%s.port[%d]", label, i))
		specs = append(specs, c01PortSpec{Name: p.Name, Proto: p.Proto, Port: p.Port})
	}
	if allowInvalid && c01OneIn(t, label+".badport", 20) {
		specs = append(specs, c01PortSpec{Name: "http", Proto: "icmp", Port: 80, BadProto: true})
		invalid = true
	}
	return
}

func c01MkPorts(specs []c01PortSpec) []model.EndpointPort {
	var out []model.EndpointPort
	for _, s := range specs {
		out = append(out, model.EndpointPort{Name: s.Name, Protocol: numorstring.ProtocolFromStringV1(s.Proto), Port: s.Port})
	}
	return out
}

// ---- rules ----------------------------------------------------------------------------------

type c01RuleSpec struct {
	Action                                   string
	Proto                                    string // "", tcp, udp, icmp, sctp
	IPVersion                                int    // 0 = unset
	SrcSel, DstSel, NotSrcSel, NotDstSel     string
	SrcNets, DstNets, NotSrcNets, NotDstNets []string
	SrcNet                                   string
	DstPorts, SrcPorts, NotDstPorts          []string // "80", "80:81", "http"
	ICMPType                                 int      // -1 unset
	OrigSrcSel                               string
	Invalid                                  bool
}

func (r c01RuleSpec) String() string {
	var parts []string
	add := func(k, v string) {
		if v != "" {
			parts = append(parts, k+"="+v)
		}
	}
	add("act", r.Action)
	add("proto", r.Proto)
	if r.IPVersion != 0 {
		add("ipv", fmt.Sprint(r.IPVersion))
	}
	add("src", r.SrcSel)
	add("dst", r.DstSel)
	add("!src", r.NotSrcSel)
	add("!dst", r.NotDstSel)
	add("srcNets", strings.Join(r.SrcNets, ","))
	add("srcNet", r.SrcNet)
	add("dstNets", strings.Join(r.DstNets, ","))
	add("!srcNets", strings.Join(r.NotSrcNets, ","))
	add("!dstNets", strings.Join(r.NotDstNets, ","))
	add("dports", strings.Join(r.DstPorts, ","))
	add("sports", strings.Join(r.SrcPorts, ","))
	add("!dports", strings.Join(r.NotDstPorts, ","))
	if r.ICMPType >= 0 {
		add("icmp", fmt.Sprint(r.ICMPType))
	}
	if r.Invalid {
		parts = append(parts, "INVALID")
	}
	return "{" + strings.Join(parts, " ") + "}"
}

func c01PortList(t *rapid.T, label string, numericOK bool) []string {
	n := rapid.IntRange(0, 2).Draw(t, label+".n")
	var out []string
	for i := 0; i < n; i++ {
		l := fmt.Sprintf("%s[%d]", label, i)
		kind := rapid.IntRange(0, 2).Draw(t, l+".kind")
		if !numericOK {
			kind = 2
		}
		switch kind {
		case 0:
			out = append(out, fmt.Sprint(rapid.SampledFrom(c01NumPorts).Draw(t, l+".p")))
		case 1:
			lo := rapid.SampledFrom(c01NumPorts).Draw(t, l+".lo")
			hi := rapid.SampledFrom(c01NumPorts).Draw(t, l+".hi")
			if lo > hi {
				lo, hi = hi, lo
			}
			out = append(out, fmt.Sprintf("%d:%d", lo, hi))
		default:
			out = append(out, rapid.SampledFrom([]string{"http", "dns", "nosuchport"}).Draw(t, l+".named"))
		}
	}
	return out
}

func c01OptSel(t *rapid.T, label string, oneIn int) string {
	if c01OneIn(t, label+".present", oneIn) {
		return c01Selector(t, label)
	}
	return ""
}

func c01OptNets(t *rapid.T, label string, oneIn int) []string {
	if !c01OneIn(t, label+".present", oneIn) {
		return nil
	}
	n := rapid.IntRange(1, 2).Draw(t, label+".n")
	var out []string
	for i := 0; i < n; i++ {
		out = append(out, rapid.SampledFrom(c01CIDRs).Draw(t, fmt.Sprintf("%s[%d]", label, i)))
	}
	return out
}

func c01Rule(t *rapid.T, label string, allowInvalid bool) c01RuleSpec {
	r := c01RuleSpec{ICMPType: -1}
	r.Action = rapid.SampledFrom([]string{"allow", "deny", "next-tier", "log", ""}).Draw(t, label+".action")
	r.Proto = rapid.SampledFrom([]string{"", "", "tcp", "tcp", "udp", "icmp", "sctp"}).Draw(t, label+".proto")
	if c01OneIn(t, label+".ipv", 6) {
		r.IPVersion = rapid.SampledFrom([]int{4, 6}).Draw(t, label+".ipversion")
	}
	r.SrcSel = c01OptSel(t, label+".srcSel", 2)
	r.DstSel = c01OptSel(t, label+".dstSel", 4)
	r.NotSrcSel = c01OptSel(t, label+".notSrcSel", 5)
	r.NotDstSel = c01OptSel(t, label+".notDstSel", 7)
	r.SrcNets = c01OptNets(t, label+".srcNets", 5)
	r.DstNets = c01OptNets(t, label+".dstNets", 6)
	r.NotSrcNets = c01OptNets(t, label+".notSrcNets", 8)
	r.NotDstNets = c01OptNets(t, label+".notDstNets", 10)
	if c01OneIn(t, label+".srcNet", 10) {
		r.SrcNet = rapid.SampledFrom(c01CIDRs).Draw(t, label+".srcNetVal")
	}
	portsOK := r.Proto == "tcp" || r.Proto == "udp" || r.Proto == "sctp"
	if portsOK || r.Proto == "" {
		if c01OneIn(t, label+".hasDstPorts", 2) {
			r.DstPorts = c01PortList(t, label+".dstPorts", portsOK)
		}
		if c01OneIn(t, label+".hasSrcPorts", 4) {
			r.SrcPorts = c01PortList(t, label+".srcPorts", portsOK)
		}
		if c01OneIn(t, label+".hasNotDstPorts", 5) {
			r.NotDstPorts = c01PortList(t, label+".notDstPorts", portsOK)
		}
	}
	if r.Proto == "icmp" && c01OneIn(t, label+".hasICMP", 2) {
		r.ICMPType = rapid.SampledFrom([]int{0, 8, 254}).Draw(t, label+".icmpType")
	}
	if c01OneIn(t, label+".origSel", 8) {
		r.OrigSrcSel = r.SrcSel
	}
	if allowInvalid && c01OneIn(t, label+".invalidRule", 25) {
		r.Invalid = true
		switch rapid.IntRange(0, 2).Draw(t, label+".invalidKind") {
		case 0:
			r.SrcSel = "a =="
		case 1:
			r.Proto = ""
			r.DstPorts = []string{"80"}
		default:
			r.Proto = "icmp"
			r.DstPorts = []string{"80"}
			r.ICMPType = -1
		}
	}
	return r
}

func c01MkPortsNS(strs []string) []numorstring.Port {
	var out []numorstring.Port
	for _, s := range strs {
		p, err := numorstring.PortFromString(s)
		if err != nil {
			panic(fmt.Sprintf("HARNESS-GAP: bad generated port %q: %v", s, err))
		}
		out = append(out, p)
	}
	return out
}

func c01MkRule(r c01RuleSpec) model.Rule {
	out := model.Rule{
		Action:              r.Action,
		SrcSelector:         r.SrcSel,
		DstSelector:         r.DstSel,
		NotSrcSelector:      r.NotSrcSel,
		NotDstSelector:      r.NotDstSel,
		SrcNets:             c01NetPtrs(r.SrcNets),
		DstNets:             c01NetPtrs(r.DstNets),
		NotSrcNets:          c01NetPtrs(r.NotSrcNets),
		NotDstNets:          c01NetPtrs(r.NotDstNets),
		SrcPorts:            c01MkPortsNS(r.SrcPorts),
		DstPorts:            c01MkPortsNS(r.DstPorts),
		NotDstPorts:         c01MkPortsNS(r.NotDstPorts),
		OriginalSrcSelector: r.OrigSrcSel,
	}
	if r.Proto != "" {
		p := numorstring.ProtocolFromStringV1(r.Proto)
		out.Protocol = &p
	}
	if r.IPVersion != 0 {
		v := r.IPVersion
		out.IPVersion = &v
	}
	if r.SrcNet != "" {
		n := calinet.MustParseNetwork(r.SrcNet)
		out.SrcNet = &n
	}
	if r.ICMPType >= 0 {
		v := r.ICMPType
		out.ICMPType = &v
	}
	return out
}

func c01Rules(t *rapid.T, label string, max int, allowInvalid bool) (specs []c01RuleSpec, invalid bool) {
	n := rapid.IntRange(0, max).Draw(t, label+".n")
	for i := 0; i < n; i++ {
		r := c01Rule(t, fmt.Sprintf("%s[%d]", label, i), allowInvalid)
		invalid = invalid || r.Invalid
		specs = append(specs, r)
	}
	return
}

func c01MkRules(specs []c01RuleSpec) []model.Rule {
	var out []model.Rule
	for _, s := range specs {
		out = append(out, c01MkRule(s))
	}
	return out
}

func c01RulesDesc(specs []c01RuleSpec) string {
	var parts []string
	for _, s := range specs {
		parts = append(parts, s.String())
	}
	return "[" + strings.Join(parts, " ") + "]"
}

// ---- slot value generators --------------------------------------------------------------------

func c01GenWEP(ifacePrefix string, host string) func(t *rapid.T, u *c01Universe, label string) c01Ver {
	return func(t *rapid.T, u *c01Universe, label string) c01Ver {
		local := host == c01Local
		name := ifacePrefix
		profiles := c01ProfileList(t, label+".profiles", c01ProfileIDs, 3)
		v4 := c01SubsetOrdered(t, label+".v4", c01V4Addrs, 2)
		if local && u.SteerBlocks {
			// Same draws, remapped position-wise to addresses outside the block CIDRs.
			for i, a := range v4 {
				for j, b := range c01V4Addrs {
					if a == b && c01V4AddrsOutsideBlocks[j] != a {
						v4[i] = c01V4AddrsOutsideBlocks[j]
						u.Steered[c01SigBlockStale] = true
						break
					}
				}
			}
		}
		v6 := c01SubsetOrdered(t, label+".v6", c01V6Addrs, 1)
		if u.HostWEPIPs != nil {
			u.HostWEPIPs[host] = append(append(u.HostWEPIPs[host], v4...), v6...)
		}
		labels := c01Labels(t, label)
		ports, invalid := c01EndpointPorts(t, label, true)
		var spoof []string
		switch rapid.IntRange(0, 29).Draw(t, label+".variant") {
		case 29:
			name = "" // fails validateWorkloadEndpoint
			invalid = true
		case 28:
			spoof = []string{"10.9.0.0/24"}
			if !u.SpoofingAllowed {
				invalid = true
			}
		}
		if u.reorderEndpoint(label) {
			profiles = u.reorderProfiles(t, label, profiles, 3)
			delete(labels, u.ReorderKey)
			name, spoof, invalid = ifacePrefix, nil, false
			var good []c01PortSpec
			for _, p := range ports {
				if !p.BadProto {
					good = append(good, p)
				}
			}
			ports = good
		}
		withMAC := rapid.Bool().Draw(t, label+".mac")
		var mk func(profiles []string) c01Ver
		mk = func(profiles []string) c01Ver {
			profiles = append([]string(nil), profiles...)
			desc := fmt.Sprintf("WEP{name=%q profiles=%v v4=%v v6=%v labels=%s ports=%v spoof=%v mac=%v}",
				name, profiles, v4, v6, c01LabelsDesc(labels), ports, spoof, withMAC)
			return c01Ver{Desc: desc, Invalid: invalid, Profiles: profiles, Labels: labels, Reorder: mk,
				IPs: append(append([]string(nil), v4...), v6...), Mk: func() any {
					w := &model.WorkloadEndpoint{
						State:                      "active",
						Name:                       name,
						ProfileIDs:                 append([]string(nil), profiles...),
						IPv4Nets:                   c01Nets(v4, "/32"),
						IPv6Nets:                   c01Nets(v6, "/128"),
						Labels:                     uniquelabels.Make(c01CloneMap(labels)),
						Ports:                      c01MkPorts(ports),
						AllowSpoofedSourcePrefixes: c01Nets(spoof, ""),
					}
					if withMAC {
						var mac calinet.MAC
						if err := mac.UnmarshalJSON([]byte(`"01:02:03:04:05:06"`)); err != nil {
							panic("HARNESS-GAP: mac parse: " + err.Error())
						}
						w.Mac = &mac
					}
					return w
				}}
		}
		return mk(profiles)
	}
}

func c01GenHEP(t *rapid.T, u *c01Universe, label string) c01Ver {
	name := rapid.SampledFrom([]string{"eth0", "eth1", "", "*"}).Draw(t, label+".iface")
	profiles := c01ProfileList(t, label+".profiles", c01ProfileIDs, 3)
	v4 := c01SubsetOrdered(t, label+".v4", c01V4Addrs, 2)
	v6 := c01SubsetOrdered(t, label+".v6", c01V6Addrs, 1)
	labels := c01Labels(t, label)
	ports, invalid := c01EndpointPorts(t, label, true)
	if c01OneIn(t, label+".badiface", 25) {
		name = "bad iface name!"
		invalid = true
	}
	if u.reorderEndpoint(label) {
		profiles = u.reorderProfiles(t, label, profiles, 3)
		delete(labels, u.ReorderKey)
		if name == "bad iface name!" {
			name = "eth0"
		}
		invalid = false
		var good []c01PortSpec
		for _, p := range ports {
			if !p.BadProto {
				good = append(good, p)
			}
		}
		ports = good
	}
	var mk func(profiles []string) c01Ver
	mk = func(profiles []string) c01Ver {
		profiles = append([]string(nil), profiles...)
		desc := fmt.Sprintf("HEP{name=%q profiles=%v v4=%v v6=%v labels=%s ports=%v}", name, profiles, v4, v6, c01LabelsDesc(labels), ports)
		return c01Ver{Desc: desc, Invalid: invalid, Profiles: profiles, Labels: labels, Reorder: mk, Mk: func() any {
			return &model.HostEndpoint{
				Name:              name,
				ProfileIDs:        append([]string(nil), profiles...),
				ExpectedIPv4Addrs: c01IPs(v4),
				ExpectedIPv6Addrs: c01IPs(v6),
				Labels:            uniquelabels.Make(c01CloneMap(labels)),
				Ports:             c01MkPorts(ports),
			}
		}}
	}
	return mk(profiles)
}

func c01GenProfileRules(t *rapid.T, u *c01Universe, label string) c01Ver {
	in, inv1 := c01Rules(t, label+".in", 2, true)
	out, inv2 := c01Rules(t, label+".out", 2, true)
	desc := fmt.Sprintf("ProfileRules{in=%s out=%s}", c01RulesDesc(in), c01RulesDesc(out))
	return c01Ver{Desc: desc, Invalid: inv1 || inv2, Mk: func() any {
		return &model.ProfileRules{InboundRules: c01MkRules(in), OutboundRules: c01MkRules(out)}
	}}
}

func c01GenProfileLabels(name string) func(t *rapid.T, u *c01Universe, label string) c01Ver {
	return func(t *rapid.T, u *c01Universe, label string) c01Ver {
		labels := c01Labels(t, label)
		if rapid.Bool().Draw(t, label+".profLabel") {
			labels["prof"] = name
		}
		if c01OneIn(t, label+".pcol", 3) {
			labels["pcol"] = rapid.SampledFrom([]string{"blue", "red"}).Draw(t, label+".pcolVal")
		}
		invalid := false
		if c01OneIn(t, label+".badlabel", 25) {
			labels["bad key!"] = "v"
			invalid = true
		}
		if u.ReorderOn && (name == "p1" || name == "p2") {
			// Conflicting values for the same key in p1 and p2.
			labels[u.ReorderKey] = map[string]string{"p1": u.ReorderV1, "p2": u.ReorderV2}[name]
			delete(labels, "bad key!")
			invalid = false
		}
		desc := fmt.Sprintf("Profile{labelsToApply=%s}", c01LabelsDesc(labels))
		return c01Ver{Desc: desc, Invalid: invalid, Labels: labels, Mk: func() any {
			return &v3.Profile{
				TypeMeta:   metav1.TypeMeta{Kind: v3.KindProfile, APIVersion: v3.GroupVersionCurrent},
				ObjectMeta: metav1.ObjectMeta{Name: name},
				Spec:       v3.ProfileSpec{LabelsToApply: c01CloneMap(labels)},
			}
		}}
	}
}

func c01GenTier(t *rapid.T, u *c01Universe, label string) c01Ver {
	orderIdx := rapid.IntRange(0, 4).Draw(t, label+".order")
	action := rapid.SampledFrom([]v3.Action{"", v3.Deny, v3.Pass}).Draw(t, label+".defaultAction")
	return c01MkTierVer(orderIdx, action)
}

func c01MkTierVer(orderIdx int, action v3.Action) c01Ver {
	orders := []float64{0, 1, 2, 2, 10}
	desc := fmt.Sprintf("Tier{order=%v defaultAction=%q}", map[bool]any{true: "nil", false: orders[orderIdx]}[orderIdx == 0], action)
	v := c01Ver{Desc: desc, Mk: func() any {
		tier := &model.Tier{DefaultAction: action}
		if orderIdx > 0 {
			o := orders[orderIdx]
			tier.Order = &o
		}
		return tier
	}}
	if action != "" {
		v.Neutral = func() c01Ver { return c01MkTierVer(orderIdx, "") }
	}
	return v
}

func c01GenPolicy(kind, namespace string) func(t *rapid.T, u *c01Universe, label string) c01Ver {
	return func(t *rapid.T, u *c01Universe, label string) c01Ver {
		tier := rapid.SampledFrom([]string{"default", "default", "t1", "t1", "t2", "tmissing"}).Draw(t, label+".tier")
		orderIdx := rapid.IntRange(0, 4).Draw(t, label+".order")
		orders := []float64{0, 1, 2, 2, 3}
		sel := c01Selector(t, label+".selector")
		reorderPolicy := u.ReorderOn && strings.HasPrefix(label, "policy/g1.") && rapid.IntRange(0, 3).Draw(t, label+".reorderSel") > 0
		if reorderPolicy {
			for _, ch := range c01ReorderChoices {
				if ch.Key == u.ReorderKey {
					sel = rapid.SampledFrom(ch.Sels).Draw(t, label+".reorderSelector")
				}
			}
		}
		in, inv1 := c01Rules(t, label+".in", 2, true)
		out, inv2 := c01Rules(t, label+".out", 2, true)
		invalid := inv1 || inv2
		types := rapid.SampledFrom([][]string{{"ingress"}, {"egress"}, {"ingress", "egress"}, {"ingress", "egress"}, nil}).Draw(t, label+".types")
		flavour := rapid.SampledFrom([]string{"normal", "normal", "normal", "normal", "normal", "forward", "untracked", "prednat"}).Draw(t, label+".flavour")
		always := c01OneIn(t, label+".always", 6)
		var untracked, prednat, aof bool
		switch flavour {
		case "forward":
			aof = true
		case "untracked":
			untracked, aof = true, true
		case "prednat":
			prednat, aof = true, true
			out = nil
			inv2 = false
			invalid = inv1
			types = []string{"ingress"}
		}
		staged := strings.HasPrefix(kind, "Staged")
		var hints []v3.PolicyPerformanceHint
		if always {
			hints = []v3.PolicyPerformanceHint{v3.PerfHintAssumeNeededOnEveryNode}
		}
		switch rapid.IntRange(0, 29).Draw(t, label+".variant") {
		case 29:
			sel = "a == " // invalid selector
			invalid = true
		case 28:
			hints = []v3.PolicyPerformanceHint{"BogusHint"}
			invalid = true
		}
		desc := fmt.Sprintf("Policy{tier=%s order=%v sel=%q types=%v flavour=%s always=%v in=%s out=%s}",
			tier, map[bool]any{true: "nil", false: orders[orderIdx]}[orderIdx == 0], sel, types, flavour, always, c01RulesDesc(in), c01RulesDesc(out))
		return c01Ver{Desc: desc, Invalid: invalid, Mk: func() any {
			p := &model.Policy{
				Namespace:        namespace,
				Tier:             tier,
				Selector:         sel,
				InboundRules:     c01MkRules(in),
				OutboundRules:    c01MkRules(out),
				Types:            append([]string(nil), types...),
				DoNotTrack:       untracked,
				PreDNAT:          prednat,
				ApplyOnForward:   aof,
				PerformanceHints: append([]v3.PolicyPerformanceHint(nil), hints...),
			}
			if orderIdx > 0 {
				o := orders[orderIdx]
				p.Order = &o
			}
			if staged {
				a := v3.StagedActionSet
				p.StagedAction = &a
			}
			return p
		}}
	}
}

func c01GenNetSet(t *rapid.T, u *c01Universe, label string) c01Ver {
	n := rapid.IntRange(0, 3).Draw(t, label+".nnets")
	var nets []string
	for i := 0; i < n; i++ {
		nets = append(nets, rapid.SampledFrom(c01CIDRs).Draw(t, fmt.Sprintf("%s.net[%d]", label, i)))
	}
	labels := c01Labels(t, label)
	profiles := c01SubsetOrdered(t, label+".profiles", []string{"p1", "p2", "kns.ns1"}, 1)
	invalid := false
	if c01OneIn(t, label+".badprofile", 25) {
		profiles = []string{"bad name!"}
		invalid = true
	}
	desc := fmt.Sprintf("NetworkSet{nets=%v labels=%s profiles=%v}", nets, c01LabelsDesc(labels), profiles)
	return c01Ver{Desc: desc, Invalid: invalid, Mk: func() any {
		return &model.NetworkSet{
			Nets:       c01Nets(nets, ""),
			Labels:     uniquelabels.Make(c01CloneMap(labels)),
			ProfileIDs: append([]string(nil), profiles...),
		}
	}}
}

func c01GenPool(cidr string) func(t *rapid.T, u *c01Universe, label string) c01Ver {
	return func(t *rapid.T, u *c01Universe, label string) c01Ver {
		mode := rapid.SampledFrom([]string{"vxlan", "vxlan", "vxlan", "vxlan-cross", "vxlan-cross", "ipip", "ipip-cross", "none"}).Draw(t, label+".encap")
		if u.PreferVXLAN && mode != "vxlan" && mode != "vxlan-cross" && rapid.IntRange(0, 3).Draw(t, label+".preferVXLAN") > 0 {
			mode = "vxlan"
		}
		masq := rapid.Bool().Draw(t, label+".masq")
		disabled := c01OneIn(t, label+".disabled", 6)
		if u.VTEPScenario && strings.HasPrefix(label, "pool/10.0.0.0-16.") {
			if mode != "vxlan" && mode != "vxlan-cross" {
				mode = "vxlan"
			}
			disabled = false
		}
		uses := rapid.SampledFrom([][]v3.IPPoolAllowedUse{nil, {v3.IPPoolAllowedUseWorkload}, {v3.IPPoolAllowedUseWorkload, v3.IPPoolAllowedUseTunnel}}).Draw(t, label+".uses")
		desc := fmt.Sprintf("IPPool{cidr=%s encap=%s masq=%v disabled=%v uses=%v}", cidr, mode, masq, disabled, uses)
		return c01Ver{Desc: desc, Mk: func() any {
			p := &model.IPPool{
				CIDR:        calinet.MustParseNetwork(cidr),
				Masquerade:  masq,
				Disabled:    disabled,
				AllowedUses: append([]v3.IPPoolAllowedUse(nil), uses...),
			}
			switch mode {
			case "vxlan":
				p.VXLANMode = encap.Always
			case "vxlan-cross":
				p.VXLANMode = encap.CrossSubnet
			case "ipip":
				p.IPIPMode = encap.Always
			case "ipip-cross":
				p.IPIPMode = encap.CrossSubnet
			}
			return p
		}}
	}
}

func c01GenBlock(cidr string) func(t *rapid.T, u *c01Universe, label string) c01Ver {
	return func(t *rapid.T, u *c01Universe, label string) c01Ver {
		aff := rapid.SampledFrom([]string{c01Local, c01Remote, c01Remote, c01Remote2, ""}).Draw(t, label+".affinity")
		if u.VTEPScenario && strings.HasPrefix(label, "block/10.0.1.0-29.") {
			aff = c01Remote
		}
		// Up to three allocated ordinals, each owned by some node (possibly not the affine one:
		// a borrowed IP) or with no node recorded.
		nalloc := rapid.IntRange(0, 3).Draw(t, label+".nalloc")
		type alloc struct {
			Ord  int
			Node string
		}
		var allocs []alloc
		seen := map[int]bool{}
		for i := 0; i < nalloc; i++ {
			ord := rapid.IntRange(0, 7).Draw(t, fmt.Sprintf("%s.alloc[%d].ord", label, i))
			if seen[ord] {
				continue
			}
			seen[ord] = true
			node := rapid.SampledFrom([]string{c01Local, c01Remote, c01Remote2, ""}).Draw(t, fmt.Sprintf("%s.alloc[%d].node", label, i))
			if u.SteerBlocks && node != aff {
				node = aff // no borrowed (non-affine) allocation: it would be a /32 route nested in the block
				u.Steered[c01SigBlockStale] = true
			}
			allocs = append(allocs, alloc{ord, node})
		}
		desc := fmt.Sprintf("Block{cidr=%s affinity=%q allocs=%v}", cidr, aff, allocs)
		return c01Ver{Desc: desc, Mk: func() any {
			b := &model.AllocationBlock{
				CIDR:        calinet.MustParseNetwork(cidr),
				Allocations: make([]*int, 8),
			}
			if aff != "" {
				a := "host:" + aff
				b.Affinity = &a
			}
			for i, al := range allocs {
				idx := i
				b.Allocations[al.Ord] = &idx
				attr := model.AllocationAttribute{}
				if al.Node != "" {
					attr.ActiveOwnerAttrs = map[string]string{model.IPAMBlockAttributeNode: al.Node}
				}
				b.Attributes = append(b.Attributes, attr)
			}
			for ord := 0; ord < 8; ord++ {
				if b.Allocations[ord] == nil {
					b.Unallocated = append(b.Unallocated, ord)
				}
			}
			return b
		}}
	}
}

func c01GenNode(name string) func(t *rapid.T, u *c01Universe, label string) c01Ver {
	return func(t *rapid.T, u *c01Universe, label string) c01Ver {
		// Host addresses: overlapping on purpose between nodes (the FV suite covers dup node IPs).
		v4 := rapid.SampledFrom([]string{"192.168.0.1/24", "192.168.0.2/24", "192.168.0.3/24", "192.168.0.2/32", "172.16.0.2/24", "192.168.0.3/24", "192.168.0.1/24", ""}).Draw(t, label+".bgpV4")
		v6 := rapid.SampledFrom([]string{"", "", "fd00:1::1/64", "fd00:1::2/64"}).Draw(t, label+".bgpV6")
		bgpForm := rapid.SampledFrom([]string{"bgp", "bgp", "bgp", "bgp", "bgp", "nil", "addresses"}).Draw(t, label+".form")
		labels := map[string]string{}
		if rapid.Bool().Draw(t, label+".hasLabel") {
			labels["rack"] = rapid.SampledFrom([]string{"r1", "r2"}).Draw(t, label+".rack")
		}
		// Tunnel addresses come from the workload address vocabulary (plus one address nobody else
		// uses), so that a tunnel address can coincide with a workload IP; in TunnelCollide cases they
		// are mostly taken from the addresses already drawn for workloads on this very node.
		tunnel := func(l string, v6fam bool, oneIn int) string {
			if !c01OneIn(t, label+"."+l, oneIn) {
				return ""
			}
			vocab := append([]string{"10.0.9.1"}, c01V4Addrs...)
			if v6fam {
				vocab = append([]string{"fd00:10::99"}, c01V6Addrs...)
			}
			a := rapid.SampledFrom(vocab).Draw(t, label+"."+l+".addr")
			if u.TunnelCollide {
				var same []string
				for _, ip := range u.HostWEPIPs[name] {
					if strings.Contains(ip, ":") == v6fam {
						same = append(same, ip)
					}
				}
				if len(same) > 0 && rapid.IntRange(0, 7).Draw(t, label+"."+l+".sameNode") > 0 {
					a = rapid.SampledFrom(same).Draw(t, label+"."+l+".wepAddr")
				}
			}
			return a
		}
		rate := 4
		if u.TunnelCollide {
			rate = 2
		}
		vxlanRate := rate
		if u.TunnelCollide && name == c01Local {
			vxlanRate = 1
		}
		vxlanAddr := tunnel("specVXLAN", false, vxlanRate)
		vxlanAddrV6 := tunnel("specVXLANv6", true, rate+2)
		ipipAddr := tunnel("ipipTunnel", false, rate+1)
		wgAddr := tunnel("wireguardV4", false, rate+2)
		wgAddrV6 := tunnel("wireguardV6", true, rate+3)
		invalid := false
		if u.PreferVXLAN && rapid.IntRange(0, 3).Draw(t, label+".preferBGPv4") > 0 {
			bgpForm = "bgp"
			if v4 == "" {
				v4 = "192.168.0.2/24"
			}
		}
		if u.VTEPScenario && name == c01Remote {
			bgpForm = "bgp"
			if v4 == "" || v4 == "not-an-ip" {
				v4 = "192.168.0.2/24"
			}
		}
		if name == c01Local && u.SteerLocalNode {
			// The local node never changes its set of address families while it exists: v4-only.
			if v6 != "" {
				v6 = ""
				u.Steered[c01SigSameSubnetStale] = true
			}
			if v4 == "" && bgpForm != "nil" {
				bgpForm = "nil"
				u.Steered[c01SigSameSubnetStale] = true
			}
		}
		if bgpForm == "bgp" && v4 == "" && v6 == "" {
			bgpForm = "nil"
		}
		if c01OneIn(t, label+".badaddr", 25) {
			bgpForm, v4, invalid = "bgp", "not-an-ip", true
		}
		if bgpForm != "bgp" {
			ipipAddr = "" // the IPIP tunnel address lives in the BGP spec
		}
		desc := fmt.Sprintf("Node{form=%s v4=%q v6=%q labels=%s specVXLAN=%q specVXLANv6=%q ipip=%q wg=%q wg6=%q}",
			bgpForm, v4, v6, c01LabelsDesc(labels), vxlanAddr, vxlanAddrV6, ipipAddr, wgAddr, wgAddrV6)
		var tunnels []string
		for _, a := range []string{vxlanAddr, vxlanAddrV6, ipipAddr, wgAddr, wgAddrV6} {
			if a != "" {
				tunnels = append(tunnels, a)
			}
		}
		return c01Ver{Desc: desc, Invalid: invalid, TunnelAddrs: tunnels, Mk: func() any {
			n := &internalapi.Node{
				TypeMeta:   metav1.TypeMeta{Kind: internalapi.KindNode, APIVersion: v3.GroupVersionCurrent},
				ObjectMeta: metav1.ObjectMeta{Name: name, Labels: c01CloneMap(labels)},
			}
			n.Spec.IPv4VXLANTunnelAddr = vxlanAddr
			n.Spec.IPv6VXLANTunnelAddr = vxlanAddrV6
			if wgAddr != "" || wgAddrV6 != "" {
				n.Spec.Wireguard = &internalapi.NodeWireguardSpec{InterfaceIPv4Address: wgAddr, InterfaceIPv6Address: wgAddrV6}
			}
			switch bgpForm {
			case "bgp":
				n.Spec.BGP = &internalapi.NodeBGPSpec{IPv4Address: v4, IPv6Address: v6, IPv4IPIPTunnelAddr: ipipAddr}
			case "addresses":
				if v4 != "" {
					n.Spec.Addresses = append(n.Spec.Addresses, internalapi.NodeAddress{Address: v4, Type: internalapi.InternalIP})
				}
				if v6 != "" {
					n.Spec.Addresses = append(n.Spec.Addresses, internalapi.NodeAddress{Address: v6, Type: internalapi.InternalIP})
				}
			}
			return n
		}}
	}
}

func c01GenHostCfg(values []string) func(t *rapid.T, u *c01Universe, label string) c01Ver {
	return func(t *rapid.T, u *c01Universe, label string) c01Ver {
		v := rapid.SampledFrom(values).Draw(t, label+".value")
		return c01Ver{Desc: fmt.Sprintf("%q", v), Mk: func() any { return v }}
	}
}

// ---- the catalogue ------------------------------------------------------------------------------

func c01NewUniverse(spoofingAllowed, steerBlocks, steerLocalNode bool) *c01Universe {
	u := &c01Universe{SpoofingAllowed: spoofingAllowed, SteerBlocks: steerBlocks, SteerLocalNode: steerLocalNode, Steered: map[string]bool{}, HostWEPIPs: map[string][]string{}}
	add := func(name, class string, key model.Key, gen func(t *rapid.T, u *c01Universe, label string) c01Ver) {
		u.Slots = append(u.Slots, c01Slot{Name: name, Class: class, Key: key, Gen: gen})
	}
	wep := func(host, wl string) model.WorkloadEndpointKey {
		return model.WorkloadEndpointKey{Hostname: host, OrchestratorID: "k8s", WorkloadID: "ns1/" + wl, EndpointID: "eth0"}
	}
	add("wep/l1", "wep-local", wep(c01Local, "l1"), c01GenWEP("cali1", c01Local))
	add("wep/l2", "wep-local", wep(c01Local, "l2"), c01GenWEP("cali2", c01Local))
	add("wep/l3", "wep-local", wep(c01Local, "l3"), c01GenWEP("cali3", c01Local))
	add("wep/r1", "wep-remote", wep(c01Remote, "r1"), c01GenWEP("calir1", c01Remote))
	add("wep/r2", "wep-remote", wep(c01Remote, "r2"), c01GenWEP("calir2", c01Remote))
	add("wep/q1", "wep-remote", wep(c01Remote2, "q1"), c01GenWEP("caliq1", c01Remote2))
	add("hep/lh1", "hep-local", model.HostEndpointKey{Hostname: c01Local, EndpointID: "lh1"}, c01GenHEP)
	add("hep/lh2", "hep-local", model.HostEndpointKey{Hostname: c01Local, EndpointID: "lh2"}, c01GenHEP)
	add("hep/rh1", "hep-remote", model.HostEndpointKey{Hostname: c01Remote, EndpointID: "rh1"}, c01GenHEP)
	for _, p := range []string{"p1", "p2", "p3"} {
		add("profrules/"+p, "profile-rules", model.ProfileRulesKey{ProfileKey: model.ProfileKey{Name: p}}, c01GenProfileRules)
	}
	for _, p := range []string{"p1", "p2", "kns.ns1", "ksa.ns1.sa1"} {
		add("proflabels/"+p, "profile-labels", model.ResourceKey{Kind: v3.KindProfile, Name: p}, c01GenProfileLabels(p))
	}
	for _, tn := range []string{"default", "t1", "t2"} {
		add("tier/"+tn, "tier", model.TierKey{Name: tn}, c01GenTier)
	}
	add("policy/g1", "policy", model.PolicyKey{Kind: v3.KindGlobalNetworkPolicy, Name: "g1"}, c01GenPolicy(v3.KindGlobalNetworkPolicy, ""))
	add("policy/g2", "policy", model.PolicyKey{Kind: v3.KindGlobalNetworkPolicy, Name: "g2"}, c01GenPolicy(v3.KindGlobalNetworkPolicy, ""))
	add("policy/t1.g3", "policy", model.PolicyKey{Kind: v3.KindGlobalNetworkPolicy, Name: "t1.g3"}, c01GenPolicy(v3.KindGlobalNetworkPolicy, ""))
	add("policy/ns1/n1", "policy", model.PolicyKey{Kind: v3.KindNetworkPolicy, Namespace: "ns1", Name: "n1"}, c01GenPolicy(v3.KindNetworkPolicy, "ns1"))
	add("policy/sg1", "policy", model.PolicyKey{Kind: v3.KindStagedGlobalNetworkPolicy, Name: "sg1"}, c01GenPolicy(v3.KindStagedGlobalNetworkPolicy, ""))
	add("netset/s1", "netset", model.NetworkSetKey{Name: "s1"}, c01GenNetSet)
	add("netset/ns1/s2", "netset", model.NetworkSetKey{Name: "ns1/s2"}, c01GenNetSet)
	add("pool/10.0.0.0-16", "pool", model.IPPoolKey{CIDR: netip.MustParsePrefix("10.0.0.0/16")}, c01GenPool("10.0.0.0/16"))
	add("pool/fd00:10::-64", "pool", model.IPPoolKey{CIDR: netip.MustParsePrefix("fd00:10::/64")}, c01GenPool("fd00:10::/64"))
	add("pool/10.0.1.0-24", "pool", model.IPPoolKey{CIDR: netip.MustParsePrefix("10.0.1.0/24")}, c01GenPool("10.0.1.0/24"))
	add("block/10.0.1.0-29", "block", model.BlockKey{CIDR: netip.MustParsePrefix("10.0.1.0/29")}, c01GenBlock("10.0.1.0/29"))
	add("block/10.0.2.0-29", "block", model.BlockKey{CIDR: netip.MustParsePrefix("10.0.2.0/29")}, c01GenBlock("10.0.2.0/29"))
	add("block/10.0.0.0-29", "block", model.BlockKey{CIDR: netip.MustParsePrefix("10.0.0.0/29")}, c01GenBlock("10.0.0.0/29"))
	for _, h := range c01Hosts {
		add("node/"+h, "node", model.ResourceKey{Kind: internalapi.KindNode, Name: h}, c01GenNode(h))
	}
	tunnelAddrs := map[string][]string{
		c01Local:   {"10.0.0.0", "10.0.0.0", "10.0.0.8"},
		c01Remote:  {"10.0.1.0", "10.0.1.0", "10.0.1.8"},
		c01Remote2: {"10.0.2.0", "10.0.2.0", "10.0.1.0"},
	}
	for _, h := range c01Hosts {
		add("hostcfg/"+h+"/IPv4VXLANTunnelAddr", "hostcfg", model.HostConfigKey{Hostname: h, Name: "IPv4VXLANTunnelAddr"}, c01GenHostCfg(tunnelAddrs[h]))
	}
	add("hostcfg/"+c01Remote+"/VXLANTunnelMACAddr", "hostcfg", model.HostConfigKey{Hostname: c01Remote, Name: "VXLANTunnelMACAddr"},
		c01GenHostCfg([]string{"66:74:c5:72:3f:01", "66:74:c5:72:3f:02"}))
	add("hostcfg/"+c01Remote+"/IPv6VXLANTunnelAddr", "hostcfg", model.HostConfigKey{Hostname: c01Remote, Name: "IPv6VXLANTunnelAddr"},
		c01GenHostCfg([]string{"fd00:10::100", "fd00:10::101"}))
	return u
}
