package calc_test

// C04 (unit "graph") — IP set contents equal the addresses selected by the rule, checked through the
// whole calculation graph: ValidationFilter -> CalcGraph (ActiveRulesCalculator, RuleScanner,
// SelectorAndNamedPortIndex) -> EventSequencer -> kit/dpmon fold.
//
// A generated history of datastore updates (local and remote workload / host endpoints, network
// sets, profile labelsToApply, profile rules, policies) is fed with generated flush points.  After
// every flush, for every active policy / profile and every rule, the IP sets that the emitted
// proto.Rule references are compared with a reference computed directly from the datastore model:
// each endpoint's / network set's effective labels are evaluated against the rule's ORIGINAL
// SrcSelector / NotSrcSelector / DstSelector / NotDstSelector (parsed separately; the selector text
// that the rule scanner builds is never used), and the expected members are the addresses (or
// "ip,proto:port" of matching named ports) of the matching resources, each once.
//
// The oracle accepts both ways a scanner may legally render "selector AND NOT notSelector": one
// combined set (what the code does today when a positive selector exists) or a positive set plus a
// negated set.  Named-port sets may be filtered by the side's selector criteria, by the positive
// selector only, or not at all, except where the selector set itself was optimised away, in which
// case the named-port set must carry the full criteria.  Any other shape is reported as
// HARNESS-GAP (inconclusive), never as a violation.
//
// Under nftables overlap suppression the emitted members must be a subset of the reference, cover
// every reference member, and form an antichain (the statement's second sentence).

import (
	"fmt"
	"net/netip"
	"sort"
	"strings"
	"testing"

	v3 "github.com/projectcalico/api/pkg/apis/projectcalico/v3"
	"github.com/projectcalico/api/pkg/lib/numorstring"
	metav1 "k8s.io/apimachinery/pkg/apis/meta/v1"
	"pgregory.net/rapid"

	"github.com/projectcalico/calico/felix/proto"
	"github.com/projectcalico/calico/lib/std/uniquelabels"
	"github.com/projectcalico/calico/libcalico-go/lib/backend/api"
	"github.com/projectcalico/calico/libcalico-go/lib/backend/model"
	"github.com/projectcalico/calico/libcalico-go/lib/selector"
	"github.com/projectcalico/calico/verifkit/ev"
)

// ---- model ----------------------------------------------------------------------------------------

type c04gEP struct {
	Kind     string // "wep", "hep", "netset"
	Labels   map[string]string
	Profiles []string
	IPs      []string // endpoint addresses
	Nets     []string // network set CIDRs
	Ports    []c01PortSpec
}

type c04gRule struct {
	Action                   string
	Proto                    string
	Src, NotSrc, Dst, NotDst string
	SrcFirst, DstFirst       string // first disjunct of a top-level "A || B" positive selector
	SrcPorts, DstPorts       []string
	NotSrcPorts, NotDstPorts []string
	SrcNets                  []string
}

func (r c04gRule) String() string {
	var parts []string
	add := func(k, v string) {
		if v != "" {
			parts = append(parts, k+"="+v)
		}
	}
	add("proto", r.Proto)
	add("src", r.Src)
	add("!src", r.NotSrc)
	add("dst", r.Dst)
	add("!dst", r.NotDst)
	add("sports", strings.Join(r.SrcPorts, ","))
	add("dports", strings.Join(r.DstPorts, ","))
	add("!sports", strings.Join(r.NotSrcPorts, ","))
	add("!dports", strings.Join(r.NotDstPorts, ","))
	add("srcNets", strings.Join(r.SrcNets, ","))
	return "{" + strings.Join(parts, " ") + "}"
}

type c04gRuleSet struct {
	Selector string // policies only
	In, Out  []c04gRule
}

type c04gState struct {
	EPs        map[string]*c04gEP           // slot name -> value
	ProfLabels map[string]map[string]string // profile name -> labelsToApply
	Rules      map[string]*c04gRuleSet      // "policy/g1", "profrules/p1", ...
}

var (
	c04gEPSlots = []struct {
		Name, Kind, Host string
	}{
		{"wep/l1", "wep", c01Local}, {"wep/l2", "wep", c01Local}, {"wep/r1", "wep", c01Remote}, {"wep/r2", "wep", c01Remote2},
		{"hep/lh1", "hep", c01Local}, {"hep/rh1", "hep", c01Remote}, {"netset/s1", "netset", ""}, {"netset/s2", "netset", ""},
	}
	c04gProfiles  = []string{"p1", "p2"}
	c04gRuleSlots = []string{"policy/g1", "policy/g2", "profrules/p1", "profrules/p2"}
	// Own labels use keys a, b, role; profile p1 applies key pa, p2 applies key pb, so no precedence
	// between own and inherited (or between two inherited) values ever has to be assumed.
	c04gAtoms = []string{
		"a == 'x'", "a == 'y'", "b == 'x'", "has(role)", "role in {'x', 'y'}", "!has(a)", "a != 'x'",
		"pa == 'one'", "has(pb)", "pb == 'two'", "has(b)", "role == 'x'",
	}
	c04gIPs  = []string{"10.0.0.1", "10.0.0.2", "10.0.0.3", "10.0.0.4", "fd00:10::1", "fd00:10::2"}
	c04gNets = []string{"12.0.0.0/24", "12.0.0.0/25", "12.0.1.0/24", "10.0.0.1/32", "10.0.0.0/30", "fd00:12::/64", "fd00:10::1/128", "0.0.0.0/0"}
)

func c04gKey(slot string) model.Key {
	parts := strings.SplitN(slot, "/", 2)
	switch parts[0] {
	case "wep", "hep", "netset":
		for _, s := range c04gEPSlots {
			if s.Name == slot {
				switch s.Kind {
				case "wep":
					return model.WorkloadEndpointKey{Hostname: s.Host, OrchestratorID: "k8s", WorkloadID: "ns1/" + parts[1], EndpointID: "eth0"}
				case "hep":
					return model.HostEndpointKey{Hostname: s.Host, EndpointID: parts[1]}
				default:
					return model.NetworkSetKey{Name: parts[1]}
				}
			}
		}
	case "proflabels":
		return model.ResourceKey{Kind: v3.KindProfile, Name: parts[1]}
	case "profrules":
		return model.ProfileRulesKey{ProfileKey: model.ProfileKey{Name: parts[1]}}
	case "policy":
		return model.PolicyKey{Kind: v3.KindGlobalNetworkPolicy, Name: parts[1]}
	}
	panic("HARNESS-GAP: unknown slot " + slot)
}

// ---- generators -------------------------------------------------------------------------------------

func c04gSelector(t *rapid.T, label string) (sel, first string) {
	atom := func(l string) string { return rapid.SampledFrom(c04gAtoms).Draw(t, l) }
	switch rapid.SampledFrom([]string{"or", "or", "atom", "atom", "and", "not", "or3", "orand"}).Draw(t, label+".form") {
	case "or":
		a, b := atom(label+".a"), atom(label+".b")
		return a + " || " + b, a
	case "or3":
		a, b, c := atom(label+".a"), atom(label+".b"), atom(label+".c")
		return a + " || " + b + " || " + c, a
	case "orand":
		a, b, c := atom(label+".a"), atom(label+".b"), atom(label+".c")
		return a + " || " + b + " && " + c, a
	case "and":
		return atom(label+".a") + " && " + atom(label+".b"), ""
	case "not":
		return "!(" + atom(label+".a") + ")", ""
	default:
		return atom(label + ".a"), ""
	}
}

func c04gPorts(t *rapid.T, label string, numericOK bool) []string {
	n := rapid.IntRange(0, 2).Draw(t, label+".n")
	var out []string
	for i := 0; i < n; i++ {
		l := fmt.Sprintf("%s[%d]", label, i)
		if numericOK && rapid.IntRange(0, 2).Draw(t, l+".numeric") == 2 {
			out = append(out, rapid.SampledFrom([]string{"80", "53", "1:100"}).Draw(t, l+".num"))
		} else {
			out = append(out, rapid.SampledFrom([]string{"http", "dns", "nosuch"}).Draw(t, l+".name"))
		}
	}
	return out
}

func c04gGenRule(t *rapid.T, label string) c04gRule {
	r := c04gRule{Action: rapid.SampledFrom([]string{"allow", "deny"}).Draw(t, label+".action")}
	r.Proto = rapid.SampledFrom([]string{"", "", "tcp", "udp"}).Draw(t, label+".proto")
	side := func(l string) (pos, first, neg string) {
		switch rapid.SampledFrom([]string{"pos+not", "pos+not", "pos", "not", "none"}).Draw(t, l+".shape") {
		case "pos+not":
			pos, first = c04gSelector(t, l+".pos")
			neg, _ = c04gSelector(t, l+".neg")
		case "pos":
			pos, first = c04gSelector(t, l+".pos")
		case "not":
			neg, _ = c04gSelector(t, l+".neg")
		}
		return
	}
	r.Src, r.SrcFirst, r.NotSrc = side(label + ".src")
	if rapid.Bool().Draw(t, label+".hasDst") {
		r.Dst, r.DstFirst, r.NotDst = side(label + ".dst")
	}
	numericOK := r.Proto != ""
	if rapid.IntRange(0, 2).Draw(t, label+".hasDstPorts") > 0 {
		r.DstPorts = c04gPorts(t, label+".dstPorts", numericOK)
	}
	if c01OneIn(t, label+".hasSrcPorts", 3) {
		r.SrcPorts = c04gPorts(t, label+".srcPorts", numericOK)
	}
	if c01OneIn(t, label+".hasNotDstPorts", 4) {
		r.NotDstPorts = c04gPorts(t, label+".notDstPorts", numericOK)
	}
	if c01OneIn(t, label+".hasNotSrcPorts", 6) {
		r.NotSrcPorts = c04gPorts(t, label+".notSrcPorts", numericOK)
	}
	if c01OneIn(t, label+".hasSrcNets", 5) {
		r.SrcNets = []string{rapid.SampledFrom(c04gNets).Draw(t, label+".srcNet")}
	}
	return r
}

func c04gGenRuleSet(t *rapid.T, label string, policy bool) *c04gRuleSet {
	rs := &c04gRuleSet{}
	if policy {
		rs.Selector = rapid.SampledFrom([]string{"all()", "all()", "has(a)", "a == 'x' || has(role)"}).Draw(t, label+".selector")
	}
	nin := rapid.IntRange(0, 2).Draw(t, label+".nin")
	for i := 0; i < nin; i++ {
		rs.In = append(rs.In, c04gGenRule(t, fmt.Sprintf("%s.in[%d]", label, i)))
	}
	nout := rapid.IntRange(0, 1).Draw(t, label+".nout")
	for i := 0; i < nout; i++ {
		rs.Out = append(rs.Out, c04gGenRule(t, fmt.Sprintf("%s.out[%d]", label, i)))
	}
	return rs
}

func c04gGenEP(t *rapid.T, label, kind string) *c04gEP {
	ep := &c04gEP{Kind: kind, Labels: map[string]string{}}
	for _, k := range []string{"a", "b", "role"} {
		if v := rapid.SampledFrom([]string{"", "x", "x", "y"}).Draw(t, label+".label."+k); v != "" {
			ep.Labels[k] = v
		}
	}
	ep.Profiles = c01SubsetOrdered(t, label+".profiles", []string{"p1", "p2", "pmissing"}, 2)
	if kind == "netset" {
		n := rapid.IntRange(0, 3).Draw(t, label+".nnets")
		for i := 0; i < n; i++ {
			ep.Nets = append(ep.Nets, rapid.SampledFrom(c04gNets).Draw(t, fmt.Sprintf("%s.net[%d]", label, i)))
		}
		return ep
	}
	ep.IPs = c01SubsetOrdered(t, label+".ips", c04gIPs, 2)
	n := rapid.IntRange(0, 2).Draw(t, label+".nports")
	for i := 0; i < n; i++ {
		p := rapid.SampledFrom(c01NamedPorts).Draw(t, fmt.Sprintf("%s.port[%d]", label, i))
		ep.Ports = append(ep.Ports, c01PortSpec{Name: p.Name, Proto: p.Proto, Port: p.Port})
	}
	return ep
}

func c04gGenProfLabels(t *rapid.T, label, name string) map[string]string {
	key, val := "pa", "one"
	if name == "p2" {
		key, val = "pb", "two"
	}
	m := map[string]string{}
	switch rapid.IntRange(0, 3).Draw(t, label+".variant") {
	case 0:
	case 1:
		m[key] = "other"
	default:
		m[key] = val
	}
	return m
}

// ---- model -> datastore values ---------------------------------------------------------------------

func c04gMkPorts(strs []string) []numorstring.Port { return c01MkPortsNS(strs) }

func c04gMkRule(r c04gRule) model.Rule {
	out := model.Rule{
		Action: r.Action, SrcSelector: r.Src, NotSrcSelector: r.NotSrc, DstSelector: r.Dst, NotDstSelector: r.NotDst,
		SrcPorts: c04gMkPorts(r.SrcPorts), DstPorts: c04gMkPorts(r.DstPorts),
		NotSrcPorts: c04gMkPorts(r.NotSrcPorts), NotDstPorts: c04gMkPorts(r.NotDstPorts),
		SrcNets: c01NetPtrs(r.SrcNets),
	}
	if r.Proto != "" {
		p := numorstring.ProtocolFromStringV1(r.Proto)
		out.Protocol = &p
	}
	return out
}

func c04gMkRules(rs []c04gRule) []model.Rule {
	var out []model.Rule
	for _, r := range rs {
		out = append(out, c04gMkRule(r))
	}
	return out
}

func (st *c04gState) value(slot string) any {
	parts := strings.SplitN(slot, "/", 2)
	switch parts[0] {
	case "wep":
		ep := st.EPs[slot]
		if ep == nil {
			return nil
		}
		return &model.WorkloadEndpoint{State: "active", Name: "cali" + parts[1], ProfileIDs: append([]string(nil), ep.Profiles...),
			IPv4Nets: c01Nets(c04gFamily(ep.IPs, false), "/32"), IPv6Nets: c01Nets(c04gFamily(ep.IPs, true), "/128"),
			Labels: uniquelabels.Make(c01CloneMap(ep.Labels)), Ports: c01MkPorts(ep.Ports)}
	case "hep":
		ep := st.EPs[slot]
		if ep == nil {
			return nil
		}
		return &model.HostEndpoint{Name: "eth0", ProfileIDs: append([]string(nil), ep.Profiles...),
			ExpectedIPv4Addrs: c01IPs(c04gFamily(ep.IPs, false)), ExpectedIPv6Addrs: c01IPs(c04gFamily(ep.IPs, true)),
			Labels: uniquelabels.Make(c01CloneMap(ep.Labels)), Ports: c01MkPorts(ep.Ports)}
	case "netset":
		ep := st.EPs[slot]
		if ep == nil {
			return nil
		}
		return &model.NetworkSet{Nets: c01Nets(ep.Nets, ""), Labels: uniquelabels.Make(c01CloneMap(ep.Labels)), ProfileIDs: append([]string(nil), ep.Profiles...)}
	case "proflabels":
		l, ok := st.ProfLabels[parts[1]]
		if !ok {
			return nil
		}
		return &v3.Profile{TypeMeta: metav1.TypeMeta{Kind: v3.KindProfile, APIVersion: v3.GroupVersionCurrent},
			ObjectMeta: metav1.ObjectMeta{Name: parts[1]}, Spec: v3.ProfileSpec{LabelsToApply: c01CloneMap(l)}}
	case "profrules":
		rs := st.Rules[slot]
		if rs == nil {
			return nil
		}
		return &model.ProfileRules{InboundRules: c04gMkRules(rs.In), OutboundRules: c04gMkRules(rs.Out)}
	case "policy":
		rs := st.Rules[slot]
		if rs == nil {
			return nil
		}
		o := 1.0
		return &model.Policy{Tier: "default", Order: &o, Selector: rs.Selector, InboundRules: c04gMkRules(rs.In), OutboundRules: c04gMkRules(rs.Out),
			Types: []string{"ingress", "egress"}, PerformanceHints: []v3.PolicyPerformanceHint{v3.PerfHintAssumeNeededOnEveryNode}}
	}
	panic("HARNESS-GAP: unknown slot " + slot)
}

func c04gFamily(ips []string, v6 bool) []string {
	var out []string
	for _, s := range ips {
		if strings.Contains(s, ":") == v6 {
			out = append(out, s)
		}
	}
	return out
}

// ---- reference ----------------------------------------------------------------------------------------

func (st *c04gState) effectiveLabels(ep *c04gEP) map[string]string {
	m := map[string]string{}
	for _, p := range ep.Profiles {
		for k, v := range st.ProfLabels[p] {
			m[k] = v // keys of different profiles are disjoint by construction
		}
	}
	for k, v := range ep.Labels {
		m[k] = v // own keys are disjoint from inherited keys by construction
	}
	return m
}

func c04gEval(selStr string, labels map[string]string) bool {
	if selStr == "" {
		return true
	}
	sel, err := selector.Parse(selStr)
	if err != nil {
		panic(fmt.Sprintf("HARNESS-GAP: generated selector %q does not parse: %v", selStr, err))
	}
	return sel.Evaluate(labels)
}

// refNetSet: addresses / CIDRs of all resources for which pred holds.
func (st *c04gState) refNetSet(pred func(labels map[string]string) bool) map[netip.Prefix]bool {
	out := map[netip.Prefix]bool{}
	for _, name := range c04gSortedEPs(st.EPs) {
		ep := st.EPs[name]
		if !pred(st.effectiveLabels(ep)) {
			continue
		}
		for _, ipStr := range ep.IPs {
			a := netip.MustParseAddr(ipStr)
			out[netip.PrefixFrom(a, a.BitLen())] = true
		}
		for _, n := range ep.Nets {
			pfx := netip.MustParsePrefix(n).Masked()
			if pfx.Bits() == 0 {
				// A /0 cannot be stored in an IP set; Felix emits the two covering /1s instead (same
				// address coverage, which is what the statement requires).
				lo := netip.PrefixFrom(pfx.Addr(), 1)
				hiAddr := netip.MustParseAddr("128.0.0.0")
				if pfx.Addr().Is6() {
					hiAddr = netip.MustParseAddr("8000::")
				}
				out[lo] = true
				out[netip.PrefixFrom(hiAddr, 1)] = true
				continue
			}
			out[pfx] = true
		}
	}
	return out
}

// refNamedSet: "ip,proto:port" of every matching endpoint's ports called name with a protocol the
// rule's protocol admits (no rule protocol = any).
func (st *c04gState) refNamedSet(name, ruleProto string, pred func(labels map[string]string) bool) map[string]bool {
	out := map[string]bool{}
	for _, n := range c04gSortedEPs(st.EPs) {
		ep := st.EPs[n]
		if ep.Kind == "netset" || !pred(st.effectiveLabels(ep)) {
			continue
		}
		for _, p := range ep.Ports {
			if p.Name != name || (ruleProto != "" && ruleProto != p.Proto) {
				continue
			}
			for _, ipStr := range ep.IPs {
				out[fmt.Sprintf("%s,%s:%d", netip.MustParseAddr(ipStr), p.Proto, p.Port)] = true
			}
		}
	}
	return out
}

func c04gSortedEPs(m map[string]*c04gEP) []string {
	var ks []string
	for k, v := range m {
		if v != nil {
			ks = append(ks, k)
		}
	}
	sort.Strings(ks)
	return ks
}

func c04gSplitPorts(ports []string) (named []string, numeric int) {
	for _, p := range ports {
		if p[0] >= '0' && p[0] <= '9' {
			numeric++
		} else {
			named = append(named, p)
		}
	}
	return
}

// ---- the oracle -----------------------------------------------------------------------------------------

type c04gChecker struct {
	st       *c04gState
	sets     map[string]map[string]struct{} // folded IP sets: id -> members
	suppress bool                           // nftables overlap suppression on
}

func (c *c04gChecker) members(id string) (map[string]struct{}, error) {
	m, ok := c.sets[id]
	if !ok {
		return nil, fmt.Errorf("referenced IP set %q is not present in the dataplane", id)
	}
	return m, nil
}

func c04gFmtPrefixes(m map[netip.Prefix]bool) string {
	var s []string
	for p := range m {
		s = append(s, p.String())
	}
	sort.Strings(s)
	return "[" + strings.Join(s, " ") + "]"
}

// netSetEquals compares an emitted NET set with the reference.
func (c *c04gChecker) netSetEquals(id string, ref map[netip.Prefix]bool) error {
	mem, err := c.members(id)
	if err != nil {
		return err
	}
	got := map[netip.Prefix]bool{}
	for s := range mem {
		p, perr := netip.ParsePrefix(s)
		if perr != nil {
			return fmt.Errorf("IP set %q has member %q which is not a CIDR", id, s)
		}
		got[p] = true
	}
	bad := func(why string) error {
		return fmt.Errorf("IP set %q %s: emitted %s, reference %s", id, why, c04gFmtPrefixes(got), c04gFmtPrefixes(ref))
	}
	for p := range got {
		if !ref[p] {
			return bad(fmt.Sprintf("contains %v which no selected resource contributes", p))
		}
	}
	if !c.suppress {
		for p := range ref {
			if !got[p] {
				return bad(fmt.Sprintf("lacks %v", p))
			}
		}
		return nil
	}
	for p := range ref { // coverage
		covered := false
		for q := range got {
			if q.Bits() <= p.Bits() && q.Contains(p.Addr()) {
				covered = true
			}
		}
		if !covered {
			return bad(fmt.Sprintf("does not cover %v", p))
		}
	}
	for p := range got { // antichain
		for q := range got {
			if p != q && q.Bits() <= p.Bits() && q.Contains(p.Addr()) {
				return bad(fmt.Sprintf("member %v lies inside member %v", p, q))
			}
		}
	}
	return nil
}

func (c *c04gChecker) namedSetEqualsAny(id string, cands []map[string]bool) error {
	mem, err := c.members(id)
	if err != nil {
		return err
	}
	var lastDiff string
	for _, ref := range cands {
		ok := len(ref) == len(mem)
		for s := range mem {
			if !ref[s] {
				ok = false
			}
		}
		if ok {
			return nil
		}
		var g, r []string
		for s := range mem {
			g = append(g, s)
		}
		for s := range ref {
			r = append(r, s)
		}
		sort.Strings(g)
		sort.Strings(r)
		if lastDiff == "" {
			lastDiff = fmt.Sprintf("emitted %v, reference %v", g, r)
		}
	}
	return fmt.Errorf("named-port IP set %q differs: %s", id, lastDiff)
}

// checkSide checks one side (source or destination) of one rule.
func (c *c04gChecker) checkSide(side, pos, neg, ruleProto string, ports, notPorts []string, posIDs, negIDs, npIDs, nnpIDs []string) error {
	P := func(l map[string]string) bool { return c04gEval(pos, l) }
	N := func(l map[string]string) bool { return c04gEval(neg, l) }
	full := func(l map[string]string) bool { return P(l) && (neg == "" || !N(l)) }
	all := func(map[string]string) bool { return true }
	named, numeric := c04gSplitPorts(ports)
	notNamed, _ := c04gSplitPorts(notPorts)
	gap := func(why string) error {
		return fmt.Errorf("HARNESS-GAP: %s side: unrecognised rendering (%s): selector=%q notSelector=%q ports=%v -> posIDs=%v negIDs=%v namedIDs=%v notNamedIDs=%v",
			side, why, pos, neg, ports, posIDs, negIDs, npIDs, nnpIDs)
	}
	optimisedAway := false // positive selector set omitted because named-port sets carry the criteria
	var namedFilters []func(map[string]string) bool
	switch {
	case pos != "" && neg != "" && len(negIDs) == 0: // combined rendering
		switch len(posIDs) {
		case 1:
			if err := c.netSetEquals(posIDs[0], c.st.refNetSet(full)); err != nil {
				return fmt.Errorf("%s selector %q AND NOT %q: %v", side, pos, neg, err)
			}
			namedFilters = []func(map[string]string) bool{full, P, all}
		case 0:
			if len(named) == 0 || numeric > 0 {
				return gap("no selector set although it cannot be folded into named-port sets")
			}
			optimisedAway = true
			namedFilters = []func(map[string]string) bool{full}
		default:
			return gap("more than one positive set")
		}
	case neg != "" && len(negIDs) == 1: // separate negated set
		if err := c.netSetEquals(negIDs[0], c.st.refNetSet(N)); err != nil {
			return fmt.Errorf("%s notSelector %q: %v", side, neg, err)
		}
		switch {
		case pos == "" && len(posIDs) == 0:
			namedFilters = []func(map[string]string) bool{all}
		case pos != "" && len(posIDs) == 1:
			if err := c.netSetEquals(posIDs[0], c.st.refNetSet(P)); err != nil {
				return fmt.Errorf("%s selector %q: %v", side, pos, err)
			}
			namedFilters = []func(map[string]string) bool{P, all}
		case pos != "" && len(posIDs) == 0 && len(named) > 0 && numeric == 0:
			optimisedAway = true
			namedFilters = []func(map[string]string) bool{P}
		default:
			return gap("positive part")
		}
	case neg == "" && len(negIDs) == 0:
		switch {
		case pos == "" && len(posIDs) == 0:
			namedFilters = []func(map[string]string) bool{all}
		case pos != "" && len(posIDs) == 1:
			if err := c.netSetEquals(posIDs[0], c.st.refNetSet(P)); err != nil {
				return fmt.Errorf("%s selector %q: %v", side, pos, err)
			}
			namedFilters = []func(map[string]string) bool{P, all}
		case pos != "" && len(posIDs) == 0 && len(named) > 0 && numeric == 0:
			optimisedAway = true
			namedFilters = []func(map[string]string) bool{P}
		default:
			return gap("positive part")
		}
	default:
		return gap("negated part")
	}
	_ = optimisedAway
	if len(npIDs) != len(named) || len(nnpIDs) != len(notNamed) {
		return gap("number of named-port sets")
	}
	for i, id := range npIDs {
		var cands []map[string]bool
		for _, f := range namedFilters {
			cands = append(cands, c.st.refNamedSet(named[i], ruleProto, f))
		}
		if err := c.namedSetEqualsAny(id, cands); err != nil {
			return fmt.Errorf("%s named port %q (selector %q notSelector %q protocol %q): %v", side, named[i], pos, neg, ruleProto, err)
		}
	}
	for i, id := range nnpIDs {
		var cands []map[string]bool
		for _, f := range namedFilters {
			cands = append(cands, c.st.refNamedSet(notNamed[i], ruleProto, f))
		}
		if !optimisedAway {
			cands = append(cands, c.st.refNamedSet(notNamed[i], ruleProto, all))
		}
		if err := c.namedSetEqualsAny(id, cands); err != nil {
			return fmt.Errorf("%s negated named port %q (selector %q notSelector %q protocol %q): %v", side, notNamed[i], pos, neg, ruleProto, err)
		}
	}
	return nil
}

func (c *c04gChecker) checkRules(what string, model []c04gRule, emitted []*proto.Rule) error {
	if len(model) != len(emitted) {
		return fmt.Errorf("HARNESS-GAP: %s: %d rules in the datastore, %d emitted", what, len(model), len(emitted))
	}
	for i, mr := range model {
		pr := emitted[i]
		if err := c.checkSide("source", mr.Src, mr.NotSrc, mr.Proto, mr.SrcPorts, mr.NotSrcPorts,
			pr.SrcIpSetIds, pr.NotSrcIpSetIds, pr.SrcNamedPortIpSetIds, pr.NotSrcNamedPortIpSetIds); err != nil {
			return fmt.Errorf("%s rule %d %v: %v", what, i, mr, err)
		}
		if err := c.checkSide("destination", mr.Dst, mr.NotDst, mr.Proto, mr.DstPorts, mr.NotDstPorts,
			pr.DstIpSetIds, pr.NotDstIpSetIds, pr.DstNamedPortIpSetIds, pr.NotDstNamedPortIpSetIds); err != nil {
			return fmt.Errorf("%s rule %d %v: %v", what, i, mr, err)
		}
	}
	return nil
}

// ---- the property -------------------------------------------------------------------------------------

func (st *c04gState) describe() string {
	var sb strings.Builder
	for _, n := range c04gSortedEPs(st.EPs) {
		ep := st.EPs[n]
		fmt.Fprintf(&sb, "  %-14s labels=%s profiles=%v ips=%v nets=%v ports=%v effective=%s\n", n, c01LabelsDesc(ep.Labels), ep.Profiles, ep.IPs, ep.Nets, ep.Ports, c01LabelsDesc(st.effectiveLabels(ep)))
	}
	for _, p := range c04gProfiles {
		if l, ok := st.ProfLabels[p]; ok {
			fmt.Fprintf(&sb, "  proflabels/%-3s labelsToApply=%s\n", p, c01LabelsDesc(l))
		}
	}
	for _, n := range c04gRuleSlots {
		if rs := st.Rules[n]; rs != nil {
			fmt.Fprintf(&sb, "  %-14s selector=%q in=%v out=%v\n", n, rs.Selector, rs.In, rs.Out)
		}
	}
	return sb.String()
}

// orNotWitness: some rule has a positive selector with a top-level "||" and a notSelector on the same
// side, and some resource matches the first disjunct and the notSelector.
func (st *c04gState) orNotWitness() bool {
	check := func(first, neg string) bool {
		if first == "" || neg == "" {
			return false
		}
		for _, n := range c04gSortedEPs(st.EPs) {
			l := st.effectiveLabels(st.EPs[n])
			if c04gEval(first, l) && c04gEval(neg, l) && (len(st.EPs[n].IPs)+len(st.EPs[n].Nets) > 0) {
				return true
			}
		}
		return false
	}
	for _, n := range c04gRuleSlots {
		rs := st.Rules[n]
		if rs == nil {
			continue
		}
		for _, r := range append(append([]c04gRule{}, rs.In...), rs.Out...) {
			if check(r.SrcFirst, r.NotSrc) || check(r.DstFirst, r.NotDst) {
				return true
			}
		}
	}
	return false
}

func TestVerifC04GraphIPSetContents(t *testing.T) {
	ev.Quiet()
	rec := ev.New("C04", "graph",
		"generated histories of endpoint / network set / profile-label / profile-rule / policy updates and deletes (shared IPs, nested and duplicate CIDRs, named ports, selectors with top-level ||, &&, !, has(), in; notSelectors; named ports with and without protocol) through the real ValidationFilter->CalcGraph->EventSequencer; after every flush each IP set referenced by each emitted rule is compared with direct evaluation of the rule's original selector / notSelector on every resource's effective labels. Non-trivial = at a checked flush some active rule has a positive selector with a top-level || plus a notSelector on the same side and some resource with addresses matches the first disjunct and the notSelector. Distinct = (config, op-kind sequence, checked-rule shape classes).",
		"selector.Parse/Evaluate of the original expressions is trusted (checked by C06/C07)",
		"own and inherited label keys are disjoint by construction, so no label precedence is assumed",
		"policies carry AssumeNeededOnEveryNode so that they are active regardless of endpoint matching (policy activation is C03)",
	)
	defer rec.Write()
	confs := []c01ConfVariant{c01ConfVariants[5], c01ConfVariants[5], c01ConfVariants[1], c01ConfVariants[0]}
	rapid.Check(t, func(t *rapid.T) {
		conf := rapid.SampledFrom(confs).Draw(t, "conf")
		p := c01NewPipeline("G", conf, false)
		p.inSync()
		st := &c04gState{EPs: map[string]*c04gEP{}, ProfLabels: map[string]map[string]string{}, Rules: map[string]*c04gRuleSet{}}
		var allSlots []string
		for _, s := range c04gEPSlots {
			allSlots = append(allSlots, s.Name)
		}
		for _, pn := range c04gProfiles {
			allSlots = append(allSlots, "proflabels/"+pn)
		}
		allSlots = append(allSlots, c04gRuleSlots...)
		kindOf := map[string]string{}
		for _, s := range c04gEPSlots {
			kindOf[s.Name] = s.Kind
		}
		set := func(slot, label string, del bool) api.Update {
			parts := strings.SplitN(slot, "/", 2)
			switch parts[0] {
			case "wep", "hep", "netset":
				if del {
					delete(st.EPs, slot)
				} else {
					st.EPs[slot] = c04gGenEP(t, label, kindOf[slot])
				}
			case "proflabels":
				if del {
					delete(st.ProfLabels, parts[1])
				} else {
					st.ProfLabels[parts[1]] = c04gGenProfLabels(t, label, parts[1])
				}
			default:
				if del {
					delete(st.Rules, slot)
				} else {
					st.Rules[slot] = c04gGenRuleSet(t, label, parts[0] == "policy")
				}
			}
			u := api.Update{KVPair: model.KVPair{Key: c04gKey(slot), Value: st.value(slot), Revision: "r"}, UpdateType: api.UpdateTypeKVUpdated}
			if del {
				u.UpdateType = api.UpdateTypeKVDeleted
			}
			return u
		}
		var opKinds []string
		classes := map[string]bool{"conf-" + conf.Name: true}
		nontrivial := false
		checkedRules := 0
		check := func(stage string) {
			p.flush()
			if len(p.violations) > 0 {
				classes["c02-violation-seen"] = true // reported by C02, not here
			}
			ch := &c04gChecker{st: st, sets: map[string]map[string]struct{}{}, suppress: conf.NFTables != "Disabled"}
			for id, s := range p.mon.IPSets {
				ch.sets[id] = s.Members
			}
			fail := func(err error) {
				t.Fatalf("C04 violated (%s): %v\ndatastore state:\n%s", stage, err, st.describe())
			}
			for _, name := range []string{"g1", "g2"} {
				pol, active := p.mon.Policies[v3.KindGlobalNetworkPolicy+"||"+name]
				rs := st.Rules["policy/"+name]
				if !active {
					continue
				}
				if rs == nil {
					t.Fatalf("HARNESS-GAP: policy %s is active in the dataplane but absent from the datastore model (%s)", name, stage)
				}
				if err := ch.checkRules("policy "+name+" inbound", rs.In, pol.InboundRules); err != nil {
					fail(err)
				}
				if err := ch.checkRules("policy "+name+" outbound", rs.Out, pol.OutboundRules); err != nil {
					fail(err)
				}
				checkedRules += len(rs.In) + len(rs.Out)
			}
			for _, name := range c04gProfiles {
				prof, active := p.mon.Profiles[name]
				rs := st.Rules["profrules/"+name]
				if !active || rs == nil {
					continue // inactive, or a missing profile rendered as the fail-safe drop rules
				}
				if err := ch.checkRules("profile "+name+" inbound", rs.In, prof.InboundRules); err != nil {
					fail(err)
				}
				if err := ch.checkRules("profile "+name+" outbound", rs.Out, prof.OutboundRules); err != nil {
					fail(err)
				}
				checkedRules += len(rs.In) + len(rs.Out)
				classes["profile-rules-checked"] = true
			}
			if st.orNotWitness() {
				nontrivial = true
			}
		}
		// Initial population.
		var batch []api.Update
		for _, slot := range allSlots {
			if rapid.IntRange(0, 3).Draw(t, "initial."+slot) > 0 {
				batch = append(batch, set(slot, "init."+slot, false))
			}
		}
		if len(batch) > 1 {
			order := rapid.Permutation(batch).Draw(t, "initialOrder")
			batch = order
		}
		if len(batch) > 0 {
			p.vf.OnUpdates(batch)
		}
		opKinds = append(opKinds, fmt.Sprintf("init%d", len(batch)))
		check("after the initial snapshot")
		nops := rapid.IntRange(0, ev.Scale(8, 16)).Draw(t, "nops")
		for i := 0; i < nops; i++ {
			l := fmt.Sprintf("op[%d]", i)
			slot := rapid.SampledFrom(allSlots).Draw(t, l+".slot")
			del := c01OneIn(t, l+".delete", 5)
			u := set(slot, l, del)
			p.vf.OnUpdates([]api.Update{u})
			k := strings.SplitN(slot, "/", 2)[0]
			if del {
				k = "del-" + k
			}
			opKinds = append(opKinds, k)
			if rapid.IntRange(0, 2).Draw(t, l+".flush") > 0 || i == nops-1 {
				check(fmt.Sprintf("after op %d (%s %s)", i, k, slot))
			}
		}
		if checkedRules > 0 {
			classes["rules-checked"] = true
		}
		if p.mon.NumDeltas > 0 {
			classes["ipset-deltas"] = true
		}
		if p.mon.NumIPSetReplaced > 0 {
			classes["ipset-replaced"] = true
		}
		if nontrivial {
			classes["or-with-not-selector-witness"] = true
		}
		var cl []string
		for k := range classes {
			cl = append(cl, k)
		}
		sort.Strings(cl)
		rec.SizedCase(nontrivial, conf.Name+";"+strings.Join(opKinds, ","), len(opKinds), func() any {
			return map[string]any{"conf": conf.Name, "ops": opKinds, "final_state": strings.Split(strings.TrimSpace(st.describe()), "\n")}
		}, cl...)
	})
}
