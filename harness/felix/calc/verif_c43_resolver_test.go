package calc_test

// C43 (a) — cluster routes take the path the pool's encapsulation requires (resolver side).
//
// Generated histories of Node / IPPool / IPAM block / local workload endpoint updates and
// deletions (any arrival order, flushes at arbitrary points) are fed through the real
// calculation graph + event sequencer.  The RouteUpdate/RouteRemove stream is folded into a
// route map which is compared (1) per remote/local block, borrowed address and local
// workload address with a reference computed from the final datastore state only (pool type,
// REMOTE/LOCAL workload flags, owning node and its address, SameSubnet = pool cross-subnet
// and owner in the local node's subnet, Borrowed, LocalWorkload, NatOutgoing) and (2) in full
// with two fresh pipelines that receive only the final state in two different orders.

import (
	"fmt"
	"net/netip"
	"sort"
	"strings"
	"testing"

	"google.golang.org/protobuf/proto"
	metav1 "k8s.io/apimachinery/pkg/apis/meta/v1"
	"pgregory.net/rapid"

	"github.com/projectcalico/calico/felix/calc"
	"github.com/projectcalico/calico/felix/config"
	felixproto "github.com/projectcalico/calico/felix/proto"
	"github.com/projectcalico/calico/libcalico-go/lib/apis/internalapi"
	"github.com/projectcalico/calico/libcalico-go/lib/backend/api"
	"github.com/projectcalico/calico/libcalico-go/lib/backend/encap"
	"github.com/projectcalico/calico/libcalico-go/lib/backend/model"
	cnet "github.com/projectcalico/calico/libcalico-go/lib/net"
	"github.com/projectcalico/calico/verifkit/ev"
)

const c43Local = "node-0"

// ---------------------------------------------------------------------------------------
// Pipeline: calc graph -> event sequencer -> route map.

type c43SeqConfig struct{}

func (c43SeqConfig) UpdateFrom(map[string]string, config.Source) (bool, error) { return false, nil }
func (c43SeqConfig) RawValues() map[string]string                              { return map[string]string{} }
func (c43SeqConfig) ToConfigUpdate() *felixproto.ConfigUpdate                  { return &felixproto.ConfigUpdate{} }

type c43Pipe struct {
	cg     *calc.CalcGraph
	es     *calc.EventSequencer
	routes map[string]*felixproto.RouteUpdate
	seen   map[string]bool
	nUpd   int
	nRem   int
}

func c43NewPipe() *c43Pipe {
	conf := config.New()
	conf.FelixHostname = c43Local
	conf.RouteSource = "CalicoIPAM"
	conf.ProgramClusterRoutes = "Enabled"
	conf.Encapsulation = config.Encapsulation{VXLANEnabled: true, VXLANEnabledV6: true, IPIPEnabled: true, NoEncapNeeded: true}
	p := &c43Pipe{routes: map[string]*felixproto.RouteUpdate{}, seen: map[string]bool{}}
	p.es = calc.NewEventSequencer(c43SeqConfig{})
	p.es.Callback = func(msg any) {
		switch m := msg.(type) {
		case *felixproto.RouteUpdate:
			p.routes[m.Dst] = m
			p.nUpd++
		case *felixproto.RouteRemove:
			delete(p.routes, m.Dst)
			p.nRem++
		}
	}
	p.cg = calc.NewCalculationGraph(p.es, calc.NewLookupsCache(), conf, func() {})
	return p
}

func (p *c43Pipe) send(u api.Update) {
	k := fmt.Sprint(u.Key)
	switch {
	case u.Value == nil:
		u.UpdateType = api.UpdateTypeKVDeleted
		delete(p.seen, k)
	case p.seen[k]:
		u.UpdateType = api.UpdateTypeKVUpdated
	default:
		u.UpdateType = api.UpdateTypeKVNew
		p.seen[k] = true
	}
	p.cg.OnUpdates([]api.Update{u})
}
func (p *c43Pipe) flush() {
	p.cg.Flush()
	p.es.Flush()
}

// ---------------------------------------------------------------------------------------
// Datastore model.

type c43Node struct {
	Subnet int   // 0 or 1
	NoAddr bool  // node resource without any address
	Only   uint8 // 0: addresses of both families; 4 / 6: only that family
	// Src: where the node resource carries its host address(es).  The node's address is the one
	// in the BGP spec if that supplies one, otherwise the InternalIP, otherwise the ExternalIP of
	// the node's address list.
	//   bgp               BGP.IPv4Address/IPv6Address
	//   bgp+list          the same, and the address list repeats the addresses as InternalIP
	//   list              no BGP spec; InternalIP in the address list
	//   tunnelbgp+list    BGP spec carries only a tunnel address; InternalIP in the address list
	//   emptybgp+external empty BGP spec; ExternalIP in the address list
	//   list-ext+int      no BGP spec; an unrelated ExternalIP listed before the InternalIP
	Src    string
	NoMask bool // address-list entries are bare IPs (the node's network is then just that address)
}

var c43NodeSrcs = []string{"bgp", "bgp", "bgp+list", "list", "tunnelbgp+list", "emptybgp+external", "list-ext+int"}

func (n c43Node) fromList() bool { return n.Src != "bgp" && n.Src != "bgp+list" }

func (n c43Node) has(v uint8) bool { return !n.NoAddr && (n.Only == 0 || n.Only == v) }

type c43Pool struct {
	Mode string // ipip-always | ipip-cross | vxlan-always | vxlan-cross | none
	Masq bool
}

func (p c43Pool) poolType() felixproto.IPPoolType {
	switch {
	case strings.HasPrefix(p.Mode, "vxlan"):
		return felixproto.IPPoolType_VXLAN
	case strings.HasPrefix(p.Mode, "ipip"):
		return felixproto.IPPoolType_IPIP
	}
	return felixproto.IPPoolType_NO_ENCAP
}
func (p c43Pool) cross() bool { return strings.HasSuffix(p.Mode, "-cross") }

type c43Block struct {
	Owner  int         // -1: no affinity
	Allocs map[int]int // ordinal (1..3) -> node index holding the address
}

type c43World struct {
	V      uint8
	Nodes  map[int]c43Node
	Pools  map[int]c43Pool
	Blocks map[[2]int]c43Block // (pool, block index)
	WEPs   map[int][3]int      // wep index -> (pool, block, ordinal)
}

func c43Name(k int) string { return fmt.Sprintf("node-%d", k) }

func (w *c43World) nodeAddr(k int, v uint8) (ip string, cidr string) {
	n := w.Nodes[k]
	if v == 6 {
		ip, cidr = fmt.Sprintf("fd16:%d::%x", n.Subnet+1, 16+k), fmt.Sprintf("fd16:%d::%x/64", n.Subnet+1, 16+k)
	} else {
		ip, cidr = fmt.Sprintf("172.16.%d.%d", n.Subnet, 16+k), fmt.Sprintf("172.16.%d.%d/24", n.Subnet, 16+k)
	}
	if n.fromList() && n.NoMask {
		cidr = ip
	}
	return
}

// inLocalSubnet: is node k's address (family under test) inside the local node's network?
func (w *c43World) inLocalSubnet(k int) bool {
	if !w.known(0) || !w.known(k) {
		return false
	}
	if k == 0 {
		return true
	}
	l := w.Nodes[0]
	if l.fromList() && l.NoMask {
		return false // the local network is the single local address
	}
	return l.Subnet == w.Nodes[k].Subnet
}

func (w *c43World) poolCIDR(p int) string {
	if w.V == 6 {
		return fmt.Sprintf("fd10:%d::/120", p+1)
	}
	return fmt.Sprintf("10.%d.0.0/24", p)
}

// c43BlockOff: the two blocks of each pool sit in different quarters of the pool's range, so that
// over the three pools every quarter (lower/upper half, at two depths) holds a block.
var c43BlockOff = [3][2]int{{0, 128}, {64, 192}, {128, 192}}

// c43Ord maps the three logical allocation slots to ordinals in both halves of the block.
var c43Ord = map[int]int{1: 1, 2: 33, 3: 62}

func (w *c43World) blockCIDR(p, b int) string {
	if w.V == 6 {
		return fmt.Sprintf("fd10:%d::%x/122", p+1, c43BlockOff[p][b])
	}
	return fmt.Sprintf("10.%d.0.%d/26", p, c43BlockOff[p][b])
}
func (w *c43World) addr(p, b, o int) string {
	if w.V == 6 {
		return fmt.Sprintf("fd10:%d::%x", p+1, c43BlockOff[p][b]+c43Ord[o])
	}
	return fmt.Sprintf("10.%d.0.%d", p, c43BlockOff[p][b]+c43Ord[o])
}
func (w *c43World) full() string {
	if w.V == 6 {
		return "/128"
	}
	return "/32"
}

func c43Norm(cidr string) string { return netip.MustParsePrefix(cidr).Masked().String() }

// --- updates for the real graph -----------------------------------------------------------

func (w *c43World) nodeUpdate(k int) api.Update {
	key := model.ResourceKey{Kind: internalapi.KindNode, Name: c43Name(k)}
	n, ok := w.Nodes[k]
	if !ok {
		return api.Update{KVPair: model.KVPair{Key: key}, UpdateType: api.UpdateTypeKVDeleted}
	}
	node := &internalapi.Node{ObjectMeta: metav1.ObjectMeta{Name: c43Name(k)}}
	if !n.NoAddr {
		ip4, c4 := w.nodeAddr(k, 4)
		ip6, c6 := w.nodeAddr(k, 6)
		list := func(typ string, bare bool) {
			if n.has(4) {
				a := c4
				if bare {
					a = ip4
				}
				node.Spec.Addresses = append(node.Spec.Addresses, internalapi.NodeAddress{Address: a, Type: typ})
			}
			if n.has(6) {
				a := c6
				if bare {
					a = ip6
				}
				node.Spec.Addresses = append(node.Spec.Addresses, internalapi.NodeAddress{Address: a, Type: typ})
			}
		}
		switch n.Src {
		case "bgp", "bgp+list":
			node.Spec.BGP = &internalapi.NodeBGPSpec{}
			if n.has(4) {
				node.Spec.BGP.IPv4Address = c4
			}
			if n.has(6) {
				node.Spec.BGP.IPv6Address = c6
			}
			if n.Src == "bgp+list" {
				list(internalapi.InternalIP, true)
			}
		case "list":
			list(internalapi.InternalIP, false)
		case "tunnelbgp+list":
			node.Spec.BGP = &internalapi.NodeBGPSpec{IPv4IPIPTunnelAddr: fmt.Sprintf("10.250.0.%d", 16+k)}
			list(internalapi.InternalIP, false)
		case "emptybgp+external":
			node.Spec.BGP = &internalapi.NodeBGPSpec{}
			list(internalapi.ExternalIP, false)
		case "list-ext+int":
			if n.has(4) {
				node.Spec.Addresses = append(node.Spec.Addresses,
					internalapi.NodeAddress{Address: fmt.Sprintf("192.0.2.%d", 16+k), Type: internalapi.ExternalIP})
			}
			if n.has(6) {
				node.Spec.Addresses = append(node.Spec.Addresses,
					internalapi.NodeAddress{Address: fmt.Sprintf("2001:db8::%x", 16+k), Type: internalapi.ExternalIP})
			}
			list(internalapi.InternalIP, false)
		default:
			panic("unknown node address source " + n.Src)
		}
	}
	return api.Update{KVPair: model.KVPair{Key: key, Value: node}, UpdateType: api.UpdateTypeKVUpdated}
}

func (w *c43World) poolUpdate(p int) api.Update {
	pfx := netip.MustParsePrefix(w.poolCIDR(p))
	key := model.IPPoolKey{CIDR: pfx}
	pool, ok := w.Pools[p]
	if !ok {
		return api.Update{KVPair: model.KVPair{Key: key}, UpdateType: api.UpdateTypeKVDeleted}
	}
	v := &model.IPPool{CIDR: cnet.MustParseCIDR(w.poolCIDR(p)), Masquerade: pool.Masq, IPAM: true}
	switch pool.Mode {
	case "ipip-always":
		v.IPIPMode = encap.Always
	case "ipip-cross":
		v.IPIPMode = encap.CrossSubnet
	case "vxlan-always":
		v.VXLANMode = encap.Always
	case "vxlan-cross":
		v.VXLANMode = encap.CrossSubnet
	}
	return api.Update{KVPair: model.KVPair{Key: key, Value: v}, UpdateType: api.UpdateTypeKVUpdated}
}

func (w *c43World) blockUpdate(p, b int) api.Update {
	key := model.BlockKey{CIDR: netip.MustParsePrefix(w.blockCIDR(p, b))}
	blk, ok := w.Blocks[[2]int{p, b}]
	if !ok {
		return api.Update{KVPair: model.KVPair{Key: key}, UpdateType: api.UpdateTypeKVDeleted}
	}
	v := &model.AllocationBlock{CIDR: cnet.MustParseCIDR(w.blockCIDR(p, b)), Allocations: make([]*int, 64)}
	if blk.Owner >= 0 {
		aff := "host:" + c43Name(blk.Owner)
		v.Affinity = &aff
	}
	slotAt := map[int]int{}
	for slot, ord := range c43Ord {
		slotAt[ord] = slot
	}
	for o := 0; o < 64; o++ {
		g, ok := blk.Allocs[slotAt[o]]
		if _, isSlot := slotAt[o]; !isSlot {
			ok = false
		}
		if !ok {
			v.Unallocated = append(v.Unallocated, o)
			continue
		}
		idx := len(v.Attributes)
		v.Attributes = append(v.Attributes, model.AllocationAttribute{
			ActiveOwnerAttrs: map[string]string{model.IPAMBlockAttributeNode: c43Name(g)}})
		v.Allocations[o] = &idx
	}
	return api.Update{KVPair: model.KVPair{Key: key, Value: v}, UpdateType: api.UpdateTypeKVUpdated}
}

func (w *c43World) wepUpdate(i int) api.Update {
	key := model.WorkloadEndpointKey{Hostname: c43Local, OrchestratorID: "k8s", WorkloadID: fmt.Sprintf("ns/pod-%d", i), EndpointID: "eth0"}
	at, ok := w.WEPs[i]
	if !ok {
		return api.Update{KVPair: model.KVPair{Key: key}, UpdateType: api.UpdateTypeKVDeleted}
	}
	v := &model.WorkloadEndpoint{State: "active", Name: fmt.Sprintf("cali%d", i)}
	n := cnet.MustParseCIDR(w.addr(at[0], at[1], at[2]) + w.full())
	if w.V == 6 {
		v.IPv6Nets = []cnet.IPNet{n}
	} else {
		v.IPv4Nets = []cnet.IPNet{n}
	}
	return api.Update{KVPair: model.KVPair{Key: key, Value: v}, UpdateType: api.UpdateTypeKVUpdated}
}

// --- reference ------------------------------------------------------------------------------

type c43Want struct {
	Dst           string
	What          string
	PoolType      felixproto.IPPoolType
	Nat           bool
	Node          string
	NodeIP        string
	SameSubnet    bool
	MustRemote    bool // REMOTE_WORKLOAD must be set
	MustNotRemote bool
	MustLocal     bool // LOCAL_WORKLOAD must be set
	MustNotLocal  bool
	Borrowed      *bool
	LocalWorkload bool
}

// known: node k exists and has an address of the family under test.
func (w *c43World) known(k int) bool {
	n, ok := w.Nodes[k]
	return ok && n.has(w.V)
}

// fill sets the pool- and node-derived fields of the statement.
func (w *c43World) fill(x *c43Want, p int, holder int) {
	x.PoolType = felixproto.IPPoolType_NONE
	cross := false
	if pool, ok := w.Pools[p]; ok {
		x.PoolType = pool.poolType()
		x.Nat = pool.Masq
		cross = pool.cross()
	}
	x.Node = c43Name(holder)
	if w.known(holder) {
		x.NodeIP, _ = w.nodeAddr(holder, w.V)
	}
	// SameSubnet <=> pool allows cross-subnet AND the holder's address is in the local node's subnet.
	x.SameSubnet = cross && w.inLocalSubnet(holder)
}

func (w *c43World) reference() map[string]*c43Want {
	out := map[string]*c43Want{}
	wepAt := map[[3]int]bool{}
	for _, at := range w.WEPs {
		wepAt[at] = true
	}
	for pb, blk := range w.Blocks {
		p, b := pb[0], pb[1]
		if blk.Owner >= 0 {
			x := &c43Want{Dst: c43Norm(w.blockCIDR(p, b)), What: "block"}
			w.fill(x, p, blk.Owner)
			x.MustRemote, x.MustNotRemote = blk.Owner != 0, blk.Owner == 0
			x.MustLocal, x.MustNotLocal = blk.Owner == 0, blk.Owner != 0
			f := false
			x.Borrowed = &f
			out[x.Dst] = x
		}
		for o, g := range blk.Allocs {
			if g == blk.Owner {
				continue // affine allocation: covered by the block route
			}
			at := [3]int{p, b, o}
			x := &c43Want{Dst: c43Norm(w.addr(p, b, o) + w.full()), What: "borrowed address"}
			holder := g
			if wepAt[at] {
				holder = 0 // a live local workload on the address wins
				x.LocalWorkload = true
				x.What = "borrowed address with local workload"
			}
			w.fill(x, p, holder)
			x.MustRemote = holder != 0
			x.MustLocal = holder == 0
			out[x.Dst] = x
		}
	}
	for _, at := range w.WEPs {
		dst := c43Norm(w.addr(at[0], at[1], at[2]) + w.full())
		if _, done := out[dst]; done {
			continue
		}
		x := &c43Want{Dst: dst, What: "local workload address", LocalWorkload: true, MustLocal: true}
		w.fill(x, at[0], 0)
		out[dst] = x
	}
	return out
}

func c43Describe(r *felixproto.RouteUpdate) string {
	if r == nil {
		return "<no route>"
	}
	return fmt.Sprintf("{dst=%s types=%v pool=%v node=%s nodeIP=%q sameSubnet=%v nat=%v borrowed=%v localWorkload=%v}",
		r.Dst, r.Types, r.IpPoolType, r.DstNodeName, r.DstNodeIp, r.SameSubnet, r.NatOutgoing, r.Borrowed, r.LocalWorkload)
}

func (w *c43World) describe() string {
	var sb strings.Builder
	for k := 0; k < 4; k++ {
		if n, ok := w.Nodes[k]; ok {
			ip, cidr := w.nodeAddr(k, w.V)
			if !n.has(w.V) {
				ip, cidr = "-", "-"
			}
			fmt.Fprintf(&sb, "\n   node-%d addr=%s net=%s carried-by=%s", k, ip, cidr, n.Src)
		}
	}
	for p := 0; p < 3; p++ {
		if pool, ok := w.Pools[p]; ok {
			fmt.Fprintf(&sb, "\n   pool %s %+v", w.poolCIDR(p), pool)
		}
		for b := 0; b < 2; b++ {
			if blk, ok := w.Blocks[[2]int{p, b}]; ok {
				fmt.Fprintf(&sb, "\n   block %s owner=%d allocs(ordinal->node)=%v", w.blockCIDR(p, b), blk.Owner, blk.Allocs)
			}
		}
	}
	for i := 0; i < 2; i++ {
		if at, ok := w.WEPs[i]; ok {
			fmt.Fprintf(&sb, "\n   local wep %d at %s", i, w.addr(at[0], at[1], at[2]))
		}
	}
	return sb.String()
}

func (w *c43World) checkReference(t *rapid.T, routes map[string]*felixproto.RouteUpdate) (classes map[string]bool) {
	classes = map[string]bool{}
	ref := w.reference()
	var dsts []string
	for d := range ref {
		dsts = append(dsts, d)
	}
	sort.Strings(dsts)
	for _, d := range dsts {
		x := ref[d]
		r := routes[d]
		var bad []string
		if r == nil {
			bad = append(bad, "no RouteUpdate in force")
		} else {
			if r.IpPoolType != x.PoolType {
				bad = append(bad, fmt.Sprintf("pool type %v, want %v", r.IpPoolType, x.PoolType))
			}
			remote := r.Types&felixproto.RouteType_REMOTE_WORKLOAD != 0
			local := r.Types&felixproto.RouteType_LOCAL_WORKLOAD != 0
			if (x.MustRemote && !remote) || (x.MustNotRemote && remote) {
				bad = append(bad, fmt.Sprintf("REMOTE_WORKLOAD=%v", remote))
			}
			if (x.MustLocal && !local) || (x.MustNotLocal && local) {
				bad = append(bad, fmt.Sprintf("LOCAL_WORKLOAD=%v", local))
			}
			if r.DstNodeName != x.Node {
				bad = append(bad, fmt.Sprintf("owning node %q, want %q", r.DstNodeName, x.Node))
			}
			if r.DstNodeIp != x.NodeIP {
				bad = append(bad, fmt.Sprintf("node address %q, want %q", r.DstNodeIp, x.NodeIP))
			}
			if r.SameSubnet != x.SameSubnet {
				bad = append(bad, fmt.Sprintf("SameSubnet=%v, want %v (pool cross-subnet and owner in local subnet)", r.SameSubnet, x.SameSubnet))
			}
			if r.NatOutgoing != x.Nat {
				bad = append(bad, fmt.Sprintf("NatOutgoing=%v, want %v", r.NatOutgoing, x.Nat))
			}
			if x.Borrowed != nil && r.Borrowed != *x.Borrowed {
				bad = append(bad, fmt.Sprintf("Borrowed=%v, want %v", r.Borrowed, *x.Borrowed))
			}
			if r.LocalWorkload != x.LocalWorkload {
				bad = append(bad, fmt.Sprintf("LocalWorkload=%v, want %v", r.LocalWorkload, x.LocalWorkload))
			}
		}
		if len(bad) > 0 {
			t.Fatalf("C43 violated: route for %s %s is %s: %s\n final datastore state:%s", x.What, d, c43Describe(r), strings.Join(bad, "; "), w.describe())
		}
		classes["ref-"+strings.ReplaceAll(x.What, " ", "-")] = true
		if x.SameSubnet {
			classes["same-subnet-true"] = true
		}
		if x.MustRemote && x.PoolType != felixproto.IPPoolType_NONE {
			classes["remote-"+x.PoolType.String()] = true
		}
	}
	return classes
}

// c43Project keeps what the statement talks about.  For full-length routes (single addresses)
// the Borrowed flag and the "other side's" workload type bit are dropped: they describe the
// containing block rather than the route's path, and the resolver does not re-evaluate them
// when only the containing block's affinity changes (see report; outside the statement).
func c43Project(r *felixproto.RouteUpdate) *felixproto.RouteUpdate {
	if !(strings.HasSuffix(r.Dst, "/32") || strings.HasSuffix(r.Dst, "/128")) {
		return r
	}
	out := proto.Clone(r).(*felixproto.RouteUpdate)
	out.Borrowed = false
	if r.DstNodeName == c43Local {
		out.Types &^= felixproto.RouteType_REMOTE_WORKLOAD
	} else if r.DstNodeName != "" {
		out.Types &^= felixproto.RouteType_LOCAL_WORKLOAD
	}
	return out
}

func c43DiffRoutes(a, b map[string]*felixproto.RouteUpdate) string {
	keys := map[string]bool{}
	for k := range a {
		keys[k] = true
	}
	for k := range b {
		keys[k] = true
	}
	var ks []string
	for k := range keys {
		ks = append(ks, k)
	}
	sort.Strings(ks)
	var sb strings.Builder
	for _, k := range ks {
		if a[k] == nil || b[k] == nil || !proto.Equal(c43Project(a[k]), c43Project(b[k])) {
			fmt.Fprintf(&sb, "\n   %s:\n      history: %s\n      fresh:   %s", k, c43Describe(a[k]), c43Describe(b[k]))
		}
	}
	return sb.String()
}

// ---------------------------------------------------------------------------------------

func TestVerifC43Resolver(t *testing.T) {
	ev.Quiet()
	rec := ev.New("C43", "resolver",
		"histories of Node (4 nodes; subnet A/B, both families / one family / no address; address carried by the BGP spec, by InternalIP or ExternalIP entries of the address list with or without prefix length, with absent / empty / tunnel-address-only BGP spec; the way a node carries its address changes in later updates), IPPool (3 pools; IPIP/VXLAN Always/CrossSubnet or no encap; NAT on/off), IPAM block (2 per pool, placed so that every quarter of a pool's range holds a block; allocations in both halves of the block; affinity to any node or none; up to 3 allocations held by any node = borrowed IPs) and local workload endpoint updates/deletions, IPv4 or IPv6, flushes at arbitrary points; each case starts with a populated cluster delivered in a random permutation, followed by changes; non-trivial = final state has a remote block or borrowed address inside a pool AND the history re-ordered or changed something (a node/pool/block was updated or deleted after first being set, or a block arrived before its pool, its owner node or the local node); distinct = distinct op sequence",
		"pools are disjoint, node addresses lie outside all pools, one allocation per address (datastore invariants)",
		"only local workload endpoints are generated (RouteSource=CalicoIPAM registers the resolver for local endpoints only)",
		"a live local workload's address is always allocated to the local node in an existing block (workloads are deleted before their address is released); without this the resolver's /32 flags depend on arrival order, see report")
	defer rec.Write()
	rapid.Check(t, func(t *rapid.T) {
		w := &c43World{V: rapid.SampledFrom([]uint8{4, 4, 6}).Draw(t, "ipVersion"),
			Nodes: map[int]c43Node{}, Pools: map[int]c43Pool{}, Blocks: map[[2]int]c43Block{}, WEPs: map[int][3]int{}}
		a := c43NewPipe()
		var shape []string
		classes := map[string]bool{}
		reordered := false
		inSync := false

		// dropOrphans deletes (datastore and graph) the local workloads of block pb whose address
		// is not allocated to the local node in newAllocs.
		dropOrphans := func(pb [2]int, newAllocs map[int]int) {
			for i := 0; i < 2; i++ {
				at, ok := w.WEPs[i]
				if !ok || at[0] != pb[0] || at[1] != pb[1] {
					continue
				}
				if g, still := newAllocs[at[2]]; still && g == 0 {
					continue
				}
				delete(w.WEPs, i)
				a.send(w.wepUpdate(i))
				shape = append(shape, fmt.Sprintf("w%d", i))
			}
		}
		drawNode := func() c43Node {
			return c43Node{Subnet: rapid.SampledFrom([]int{0, 0, 1}).Draw(t, "subnet"), NoAddr: rapid.IntRange(0, 7).Draw(t, "noAddr") == 0,
				Only:   rapid.SampledFrom([]uint8{0, 0, 0, 0, 4, 6}).Draw(t, "onlyFamily"),
				Src:    rapid.SampledFrom(c43NodeSrcs).Draw(t, "addressSource"),
				NoMask: rapid.IntRange(0, 3).Draw(t, "bareListAddress") == 0}
		}
		noteNode := func(k int) {
			n := w.Nodes[k]
			if n.NoAddr {
				return
			}
			classes["node-src-"+n.Src] = true
			if n.fromList() && n.NoMask {
				classes["node-bare-list-address"] = true
			}
			if k == 0 && n.fromList() {
				classes["local-node-address-from-list"] = true
			}
		}
		drawPool := func() c43Pool {
			return c43Pool{
				Mode: rapid.SampledFrom([]string{"ipip-always", "ipip-cross", "vxlan-always", "vxlan-cross", "none"}).Draw(t, "mode"),
				Masq: rapid.Bool().Draw(t, "natOutgoing")}
		}
		drawBlock := func() c43Block {
			blk := c43Block{Owner: rapid.IntRange(-1, 3).Draw(t, "affinityNode"), Allocs: map[int]int{}}
			for o := 1; o <= 3; o++ {
				if rapid.IntRange(0, 2).Draw(t, fmt.Sprintf("alloc%d", o)) == 0 {
					blk.Allocs[o] = rapid.IntRange(0, 3).Draw(t, "allocNode")
				}
			}
			return blk
		}
		// Phase 1: a populated cluster whose resources arrive in an arbitrary order.
		type c43Item struct {
			kind string
			a, b int
		}
		var items []c43Item
		for k := 0; k < 4; k++ {
			if rapid.IntRange(0, 5).Draw(t, "nodePresent") > 0 {
				w.Nodes[k] = drawNode()
				items = append(items, c43Item{"node", k, 0})
			}
		}
		for p := 0; p < 3; p++ {
			if rapid.IntRange(0, 4).Draw(t, "poolPresent") > 0 {
				w.Pools[p] = drawPool()
				items = append(items, c43Item{"pool", p, 0})
			}
			for b := 0; b < 2; b++ {
				if rapid.IntRange(0, 1).Draw(t, "blockPresent") > 0 {
					w.Blocks[[2]int{p, b}] = drawBlock()
					items = append(items, c43Item{"block", p, b})
				}
			}
		}
		if len(items) > 1 {
			items = rapid.Permutation(items).Draw(t, "arrivalOrder")
		}
		seenNode, seenPool := map[int]bool{}, map[int]bool{}
		for _, it := range items {
			switch it.kind {
			case "node":
				seenNode[it.a] = true
				noteNode(it.a)
				a.send(w.nodeUpdate(it.a))
				shape = append(shape, fmt.Sprintf("N%d:%v", it.a, w.Nodes[it.a]))
			case "pool":
				seenPool[it.a] = true
				a.send(w.poolUpdate(it.a))
				shape = append(shape, fmt.Sprintf("P%d:%s", it.a, w.Pools[it.a].Mode))
			case "block":
				blk := w.Blocks[[2]int{it.a, it.b}]
				_, poolExists := w.Pools[it.a]
				_, ownerExists := w.Nodes[blk.Owner]
				_, localExists := w.Nodes[0]
				if (poolExists && !seenPool[it.a]) || (ownerExists && !seenNode[blk.Owner]) || (localExists && !seenNode[0]) {
					reordered = true
					classes["block-before-its-pool-or-node"] = true
				}
				a.send(w.blockUpdate(it.a, it.b))
				shape = append(shape, fmt.Sprintf("B[%d %d]:%d:%v", it.a, it.b, blk.Owner, blk.Allocs))
			}
			if rapid.IntRange(0, 3).Draw(t, "flushNow") == 0 {
				a.flush()
				shape = append(shape, "|")
			}
		}
		// Phase 2: changes.
		nOps := rapid.IntRange(0, ev.Scale(10, 24)).Draw(t, "nOps")
		for i := 0; i < nOps; i++ {
			switch rapid.SampledFrom([]string{"node", "node", "nodeShape", "nodeShape", "pool", "pool", "block", "block", "block", "wep", "delNode", "delPool", "delBlock", "delWep", "flush", "flush", "insync"}).Draw(t, "op") {
			case "node":
				k := rapid.IntRange(0, 3).Draw(t, "node")
				if _, ok := w.Nodes[k]; ok {
					reordered = true
					classes["node-changed"] = true
				}
				if len(w.Blocks) > 0 {
					reordered = true
					classes["node-after-block"] = true
				}
				w.Nodes[k] = drawNode()
				noteNode(k)
				a.send(w.nodeUpdate(k))
				shape = append(shape, fmt.Sprintf("N%d:%v", k, w.Nodes[k]))
			case "nodeShape":
				// The node keeps its address but the resource carries it differently (e.g. the BGP
				// address is withdrawn while the InternalIP stays).
				var have []int
				for k := 0; k < 4; k++ {
					if n, ok := w.Nodes[k]; ok && !n.NoAddr {
						have = append(have, k)
					}
				}
				if len(have) == 0 {
					shape = append(shape, "-")
					continue
				}
				k := rapid.SampledFrom(have).Draw(t, "node")
				n := w.Nodes[k]
				n.Src = rapid.SampledFrom(c43NodeSrcs).Draw(t, "addressSource")
				n.NoMask = rapid.IntRange(0, 3).Draw(t, "bareListAddress") == 0
				if n != w.Nodes[k] {
					reordered = true
					classes["node-address-source-changed"] = true
				}
				w.Nodes[k] = n
				noteNode(k)
				a.send(w.nodeUpdate(k))
				shape = append(shape, fmt.Sprintf("S%d:%v", k, n))
			case "delNode":
				k := rapid.IntRange(0, 3).Draw(t, "node")
				if _, ok := w.Nodes[k]; !ok {
					shape = append(shape, "-")
					continue
				}
				delete(w.Nodes, k)
				a.send(w.nodeUpdate(k))
				reordered = true
				shape = append(shape, fmt.Sprintf("n%d", k))
			case "pool":
				p := rapid.IntRange(0, 2).Draw(t, "pool")
				if _, ok := w.Pools[p]; ok {
					reordered = true
					classes["pool-changed"] = true
				}
				for pb := range w.Blocks {
					if pb[0] == p {
						reordered = true
						classes["pool-after-block"] = true
						if c43BlockOff[pb[0]][pb[1]] >= 128 {
							classes["pool-change-after-upper-half-block"] = true
						}
					}
				}
				w.Pools[p] = drawPool()
				a.send(w.poolUpdate(p))
				shape = append(shape, fmt.Sprintf("P%d:%s", p, w.Pools[p].Mode))
			case "delPool":
				p := rapid.IntRange(0, 2).Draw(t, "pool")
				if _, ok := w.Pools[p]; !ok {
					shape = append(shape, "-")
					continue
				}
				for pb := range w.Blocks {
					if pb[0] == p && c43BlockOff[pb[0]][pb[1]] >= 128 {
						classes["pool-delete-after-upper-half-block"] = true
					}
				}
				delete(w.Pools, p)
				a.send(w.poolUpdate(p))
				reordered = true
				shape = append(shape, fmt.Sprintf("p%d", p))
			case "block":
				pb := [2]int{rapid.IntRange(0, 2).Draw(t, "pool"), rapid.IntRange(0, 1).Draw(t, "block")}
				if _, ok := w.Blocks[pb]; ok {
					reordered = true
					classes["block-changed"] = true
				}
				blk := drawBlock()
				if old, ok := w.Blocks[pb]; ok && blk.Owner != old.Owner {
					// IPAM can release a block's affinity (host -> none) but never re-assigns an
					// existing block: claiming creates the block.
					blk.Owner = -1
				}
				// A workload is deleted before its address is released (IPAM invariant: a live
				// local workload's address is allocated to this node in its block).
				dropOrphans(pb, blk.Allocs)
				w.Blocks[pb] = blk
				a.send(w.blockUpdate(pb[0], pb[1]))
				shape = append(shape, fmt.Sprintf("B%v:%d:%v", pb, blk.Owner, blk.Allocs))
			case "delBlock":
				pb := [2]int{rapid.IntRange(0, 2).Draw(t, "pool"), rapid.IntRange(0, 1).Draw(t, "block")}
				if _, ok := w.Blocks[pb]; !ok {
					shape = append(shape, "-")
					continue
				}
				dropOrphans(pb, nil)
				delete(w.Blocks, pb)
				a.send(w.blockUpdate(pb[0], pb[1]))
				reordered = true
				shape = append(shape, fmt.Sprintf("b%v", pb))
			case "wep":
				i := rapid.IntRange(0, 1).Draw(t, "wep")
				// Candidates: addresses currently allocated to the local node that no other workload uses.
				var cands [][3]int
				for pb, blk := range w.Blocks {
					for o, g := range blk.Allocs {
						at := [3]int{pb[0], pb[1], o}
						used := false
						for j, other := range w.WEPs {
							used = used || (j != i && other == at)
						}
						if g == 0 && !used {
							cands = append(cands, at)
						}
					}
				}
				if len(cands) == 0 {
					shape = append(shape, "-")
					continue
				}
				sort.Slice(cands, func(x, y int) bool { return fmt.Sprint(cands[x]) < fmt.Sprint(cands[y]) })
				at := rapid.SampledFrom(cands).Draw(t, "wepAddress")
				w.WEPs[i] = at
				a.send(w.wepUpdate(i))
				shape = append(shape, fmt.Sprintf("W%d:%v", i, at))
			case "delWep":
				i := rapid.IntRange(0, 1).Draw(t, "wep")
				if _, ok := w.WEPs[i]; !ok {
					shape = append(shape, "-")
					continue
				}
				delete(w.WEPs, i)
				a.send(w.wepUpdate(i))
				shape = append(shape, fmt.Sprintf("w%d", i))
			case "flush":
				a.flush()
				shape = append(shape, "|")
			case "insync":
				if !inSync {
					inSync = true
					a.cg.OnStatusUpdated(api.InSync)
				}
				shape = append(shape, "S")
			}
		}
		if !inSync {
			a.cg.OnStatusUpdated(api.InSync)
		}
		a.flush()

		cl := w.checkReference(t, a.routes)
		for c := range cl {
			classes[c] = true
		}

		// Fresh pipelines that only see the final state.
		type upd struct {
			kind string
			u    api.Update
		}
		var final []upd
		for k := 0; k < 4; k++ {
			if _, ok := w.Nodes[k]; ok {
				final = append(final, upd{"node", w.nodeUpdate(k)})
			}
		}
		for p := 0; p < 3; p++ {
			if _, ok := w.Pools[p]; ok {
				final = append(final, upd{"pool", w.poolUpdate(p)})
			}
		}
		for p := 0; p < 3; p++ {
			for b := 0; b < 2; b++ {
				if _, ok := w.Blocks[[2]int{p, b}]; ok {
					final = append(final, upd{"block", w.blockUpdate(p, b)})
				}
			}
		}
		for i := 0; i < 2; i++ {
			if _, ok := w.WEPs[i]; ok {
				final = append(final, upd{"wep", w.wepUpdate(i)})
			}
		}
		fwd := c43NewPipe()
		for _, u := range final {
			fwd.send(u.u)
		}
		fwd.cg.OnStatusUpdated(api.InSync)
		fwd.flush()
		rev := c43NewPipe()
		rev.cg.OnStatusUpdated(api.InSync)
		for i := len(final) - 1; i >= 0; i-- {
			rev.send(final[i].u)
			rev.flush()
		}
		for which, fr := range []*c43Pipe{fwd, rev} {
			name := []string{"nodes, pools, blocks, workloads in one batch", "workloads, blocks, pools, nodes with a flush after each"}[which]
			w.checkReference(t, fr.routes)
			if d := c43DiffRoutes(a.routes, fr.routes); d != "" {
				t.Fatalf("C43 violated: routes in force after the history differ from a fresh calculation graph given only the final state (%s):%s\n final datastore state:%s", name, d, w.describe())
			}
		}

		interesting := false
		for c := range classes {
			if strings.HasPrefix(c, "remote-") {
				interesting = true
			}
		}
		var cls []string
		for c := range classes {
			cls = append(cls, c)
		}
		sort.Strings(cls)
		cls = append(cls, fmt.Sprintf("ipv%d", w.V))
		key := fmt.Sprintf("v%d:", w.V) + strings.Join(shape, ",")
		rec.SizedCase(interesting && reordered, key, len(shape), func() any {
			var rs []string
			for _, r := range a.routes {
				rs = append(rs, c43Describe(r))
			}
			sort.Strings(rs)
			return map[string]any{"ops": key, "finalRoutes": rs}
		}, cls...)
	})
}
