package calc_test

// C03 — each local endpoint gets exactly its matching policies, correctly ordered.
//
// Generated histories of datastore updates (tiers, policies of all kinds incl. staged, profile
// labels and rules, local and remote workload/host endpoints) are fed through
// ValidationFilter -> CalcGraph -> EventSequencer.  After every flush (once in-sync was
// delivered) the folded WorkloadEndpointUpdate/HostEndpointUpdate tier lists and the set of
// ActivePolicyUpdates in effect are compared with a reference model computed from the current
// datastore content only (c03CheckFold in the driver file).

import (
	"strings"
	"testing"

	"pgregory.net/rapid"

	"github.com/projectcalico/calico/verifkit/ev"
)

var c03Weights = []string{
	"pol", "pol", "pol", "pol", "pol", "move", "move",
	"tier", "tier", "tier",
	"plbl", "plbl", "prul",
	"wep", "wep", "wep", "hep", "hep",
	"del", "del", "del", "redeliver",
	"tdel", "tdel", "restore", "restore", "restore", "eprof", "eprof", "eprof",
}

func TestVerifC03PolicyMatchOrder(t *testing.T) {
	ev.Quiet()
	rec := ev.New("C03", "calc",
		"rapid-generated histories over a small universe (3 tiers incl. default, 3-6 policy keys over 2-3 names x 6 kinds x 2 namespaces, 3 profiles, 2 local + 1 remote workload endpoint, 1 local + 1 remote host endpoint): a bootstrap batch of sets followed by 1-14 steps of set / policy move / delete / tier delete / restore-a-deleted-key-unchanged / endpoint profile-list-only update (repeats, drops, permutations of listed IDs) / same-revision redelivery in batches of 1-3 updates with flushes and the in-sync status at drawn positions; checked after every flush. Non-trivial = at some checked flush a local endpoint had >=2 applicable policies tying on order in one tier, or an own label overriding a different inherited value, or >=2 applicable existing tiers one of which has no order. Distinct = distinct op-kind sequence + classes hit",
		"selector semantics are those of libcalico-go/lib/selector Parse+Evaluate (trusted)",
		"profiles of one endpoint never apply different values for the same label (undocumented precedence; not generated)",
		"policies whose Tier resource is absent are constrained in membership and in-tier order only, not in tier position",
		"doNotTrack/preDNAT policies: for host endpoints they must appear in one of the endpoint's lists; for workload endpoints they are neither demanded nor forbidden",
		"policy names in the universe are not prefixes of one another, so 'then name' and the documented name/namespace/kind string order coincide")
	defer rec.Write()

	rapid.Check(t, func(t *rapid.T) {
		h := c03NewHist(t)
		g := c03NewGraph()
		stats := &c03CheckStats{}
		checks := 0

		flushAndCheck := func() {
			g.flush()
			h.log = append(h.log, "flush")
			h.kinds = append(h.kinds, "F")
			if !g.inSync {
				return
			}
			checks++
			if msg := c03CheckFold(t, h.valid, g.fold, stats); msg != "" {
				t.Fatalf("C03 violated after flush #%d:\n%s\ndatastore now:\n%shistory:\n%s", checks, msg, h.valid.describe(), h.history())
			}
		}
		inSync := func() {
			if !g.inSync {
				g.setInSync()
				h.log = append(h.log, "in-sync")
				h.kinds = append(h.kinds, "Y")
			}
		}

		// In-sync position: before anything (common), or after a drawn step.
		nSteps := rapid.IntRange(1, ev.Scale(14, 30)).Draw(t, "numSteps")
		syncAt := rapid.IntRange(-3, nSteps).Draw(t, "inSyncAfterStep")
		if syncAt <= 0 {
			inSync()
		}

		// Bootstrap: a few sets so that most cases start from a populated datastore.
		nBoot := rapid.IntRange(0, 16).Draw(t, "numBootstrapSets")
		bootWeights := []string{"pol", "pol", "pol", "pol", "pol", "tier", "tier", "tier", "plbl", "plbl", "plbl", "wep", "wep", "wep", "hep", "hep", "prul"}
		if rapid.Bool().Draw(t, "bootstrapAllTiers") {
			as, _ := h.genBatch(3, []string{"tier3"}, 0)
			g.send(as)
		}
		for nBoot > 0 {
			n := rapid.IntRange(1, nBoot).Draw(t, "bootBatchSize")
			as, _ := h.genBatch(n, bootWeights, 0)
			g.send(as)
			nBoot -= n
		}
		if rapid.Bool().Draw(t, "flushAfterBootstrap") {
			flushAndCheck()
		}

		for i := 1; i <= nSteps; i++ {
			if rapid.IntRange(0, 6).Draw(t, "tierBounce") == 0 {
				// A tier disappears while its policies stay, the result is flushed, then the tier
				// comes back exactly as it was.
				as, _ := h.genBatch(1, []string{"tdel"}, 0)
				g.send(as)
				flushAndCheck()
				as, _ = h.genBatch(1, []string{"trestore"}, 0)
				g.send(as)
				flushAndCheck()
				h.classes["tier-bounce-with-flushes"] = true
				if i == syncAt {
					inSync()
				}
				continue
			}
			n := rapid.IntRange(1, 3).Draw(t, "batchSize")
			as, _ := h.genBatch(n, c03Weights, 0)
			g.send(as)
			if i == syncAt {
				inSync()
			}
			if rapid.IntRange(0, 9).Draw(t, "flushRoll") < 5 {
				flushAndCheck()
			}
		}
		inSync()
		flushAndCheck()

		nontrivial := stats.classes["order-tie"] || stats.classes["label-override"] || stats.classes["nil-tier-order"]
		classes := make([]string, 0, len(stats.classes))
		for c := range stats.classes {
			classes = append(classes, c)
		}
		for c := range h.classes {
			classes = append(classes, c)
		}
		shape := strings.Join(h.kinds, "") + "|" + c03SortedJoin(classes)
		rec.SizedCase(nontrivial, shape, len(h.kinds), func() any {
			return map[string]any{"history": h.log, "classes": c03SortedJoin(classes), "checked_flushes": checks}
		}, classes...)
	})
}
