package calc_test

// Shared driver for the C03 and C05 checks (listed in both units).
//
// It drives the real pipeline  ValidationFilter -> CalcGraph -> EventSequencer  with generated
// api.Update batches, folds the emitted proto messages into a plain state (c03Fold), keeps a
// plain model of the *valid* datastore content (c03Store) and contains the reference model for
// "which policies apply to which local endpoint, in which order" (c03CheckFold).
//
// Everything the oracle knows is derived from the property statements and from API
// documentation (profile labelsToApply: "the endpoint's own label value takes precedence";
// policy types; performance hint "AssumeNeededOnEveryNode"; PolKVLess comment on the
// name/namespace/kind tie-break).  Selector semantics are taken from
// libcalico-go/lib/selector Parse+Evaluate (trusted, checked by C06/C07).

import (
	"fmt"
	"sort"
	"strings"

	v3 "github.com/projectcalico/api/pkg/apis/projectcalico/v3"
	"github.com/projectcalico/api/pkg/lib/numorstring"
	googleproto "google.golang.org/protobuf/proto"
	metav1 "k8s.io/apimachinery/pkg/apis/meta/v1"
	"pgregory.net/rapid"

	"github.com/projectcalico/calico/felix/calc"
	"github.com/projectcalico/calico/felix/config"
	"github.com/projectcalico/calico/felix/proto"
	"github.com/projectcalico/calico/lib/std/uniquelabels"
	"github.com/projectcalico/calico/libcalico-go/lib/backend/api"
	"github.com/projectcalico/calico/libcalico-go/lib/backend/model"
	calinet "github.com/projectcalico/calico/libcalico-go/lib/net"
	"github.com/projectcalico/calico/libcalico-go/lib/selector"
)

const (
	c03LocalHost  = "local-node"
	c03RemoteHost = "remote-node"
	c03NSLabel    = "projectcalico.org/namespace"
)

var (
	c03LabelNames  = []string{"a", "b", "c"}
	c03LabelValues = []string{"x", "y", "z"}
	c03TierNames   = []string{"default", "t1", "t2"}
	c03ProfileIDs  = []string{"prof1", "prof2", "prof3"}
	c03Namespaces  = []string{"ns1", "ns2"}
)

// ---------------------------------------------------------------------------------------------
// Folded output state.

type c03PolID struct{ Name, Namespace, Kind string }

func (p c03PolID) String() string { return p.Kind + ":" + p.Namespace + "/" + p.Name }

func c03PolIDOfKey(k model.PolicyKey) c03PolID {
	return c03PolID{Name: k.Name, Namespace: k.Namespace, Kind: k.Kind}
}

func c03PolIDOfProto(p *proto.PolicyID) c03PolID {
	return c03PolID{Name: p.GetName(), Namespace: p.GetNamespace(), Kind: p.GetKind()}
}

type c03Fold struct {
	weps   map[string]*proto.WorkloadEndpoint
	heps   map[string]*proto.HostEndpoint
	pols   map[c03PolID]*proto.Policy
	profs  map[string]*proto.Profile
	ipsets map[string]map[string]bool
	msgs   int
}

func c03NewFold() *c03Fold {
	return &c03Fold{
		weps:   map[string]*proto.WorkloadEndpoint{},
		heps:   map[string]*proto.HostEndpoint{},
		pols:   map[c03PolID]*proto.Policy{},
		profs:  map[string]*proto.Profile{},
		ipsets: map[string]map[string]bool{},
	}
}

func c03WepID(id *proto.WorkloadEndpointID) string {
	return id.GetOrchestratorId() + "/" + id.GetWorkloadId() + "/" + id.GetEndpointId()
}

func c03WepIDOfKey(k model.WorkloadEndpointKey) string {
	return k.OrchestratorID + "/" + k.WorkloadID + "/" + k.EndpointID
}

func (f *c03Fold) onMsg(m any) {
	f.msgs++
	switch msg := m.(type) {
	case *proto.WorkloadEndpointUpdate:
		f.weps[c03WepID(msg.Id)] = msg.Endpoint
	case *proto.WorkloadEndpointRemove:
		delete(f.weps, c03WepID(msg.Id))
	case *proto.HostEndpointUpdate:
		f.heps[msg.Id.GetEndpointId()] = msg.Endpoint
	case *proto.HostEndpointRemove:
		delete(f.heps, msg.Id.GetEndpointId())
	case *proto.ActivePolicyUpdate:
		f.pols[c03PolIDOfProto(msg.Id)] = msg.Policy
	case *proto.ActivePolicyRemove:
		delete(f.pols, c03PolIDOfProto(msg.Id))
	case *proto.ActiveProfileUpdate:
		f.profs[msg.Id.GetName()] = msg.Profile
	case *proto.ActiveProfileRemove:
		delete(f.profs, msg.Id.GetName())
	case *proto.IPSetUpdate:
		s := map[string]bool{}
		for _, mem := range msg.Members {
			s[mem] = true
		}
		f.ipsets[msg.Id] = s
	case *proto.IPSetDeltaUpdate:
		s := f.ipsets[msg.Id]
		if s == nil {
			s = map[string]bool{}
			f.ipsets[msg.Id] = s
		}
		for _, mem := range msg.RemovedMembers {
			delete(s, mem)
		}
		for _, mem := range msg.AddedMembers {
			s[mem] = true
		}
	case *proto.IPSetRemove:
		delete(f.ipsets, msg.Id)
	}
}

// c03FoldDiff returns "" when the two folds are equal, else a description of the first
// difference (keys are visited in sorted order so the text is deterministic).
func c03FoldDiff(a, b *c03Fold) string {
	var out []string
	diffMsgs := func(kind string, ka, kb []string, get func(f *c03Fold, k string) googleproto.Message) {
		all := map[string]bool{}
		for _, k := range ka {
			all[k] = true
		}
		for _, k := range kb {
			all[k] = true
		}
		keys := make([]string, 0, len(all))
		for k := range all {
			keys = append(keys, k)
		}
		sort.Strings(keys)
		for _, k := range keys {
			ma, mb := get(a, k), get(b, k)
			switch {
			case ma == nil && mb != nil:
				out = append(out, fmt.Sprintf("%s %q: absent in A, present in B: %v", kind, k, mb))
			case ma != nil && mb == nil:
				out = append(out, fmt.Sprintf("%s %q: present in A: %v, absent in B", kind, k, ma))
			case !googleproto.Equal(ma, mb):
				out = append(out, fmt.Sprintf("%s %q differs:\n   A: %v\n   B: %v", kind, k, ma, mb))
			}
		}
	}
	keysOf := func(n int, each func(func(string))) []string {
		ks := make([]string, 0, n)
		each(func(k string) { ks = append(ks, k) })
		return ks
	}
	diffMsgs("workload endpoint",
		keysOf(len(a.weps), func(f func(string)) {
			for k := range a.weps {
				f(k)
			}
		}),
		keysOf(len(b.weps), func(f func(string)) {
			for k := range b.weps {
				f(k)
			}
		}),
		func(f *c03Fold, k string) googleproto.Message {
			if v, ok := f.weps[k]; ok {
				return v
			}
			return nil
		})
	diffMsgs("host endpoint",
		keysOf(len(a.heps), func(f func(string)) {
			for k := range a.heps {
				f(k)
			}
		}),
		keysOf(len(b.heps), func(f func(string)) {
			for k := range b.heps {
				f(k)
			}
		}),
		func(f *c03Fold, k string) googleproto.Message {
			if v, ok := f.heps[k]; ok {
				return v
			}
			return nil
		})
	polKeys := func(f *c03Fold) []string {
		ks := make([]string, 0, len(f.pols))
		for k := range f.pols {
			ks = append(ks, k.String())
		}
		return ks
	}
	diffMsgs("active policy", polKeys(a), polKeys(b),
		func(f *c03Fold, k string) googleproto.Message {
			for id, v := range f.pols {
				if id.String() == k {
					return v
				}
			}
			return nil
		})
	diffMsgs("active profile",
		keysOf(len(a.profs), func(f func(string)) {
			for k := range a.profs {
				f(k)
			}
		}),
		keysOf(len(b.profs), func(f func(string)) {
			for k := range b.profs {
				f(k)
			}
		}),
		func(f *c03Fold, k string) googleproto.Message {
			if v, ok := f.profs[k]; ok {
				return v
			}
			return nil
		})
	// IP sets.
	all := map[string]bool{}
	for k := range a.ipsets {
		all[k] = true
	}
	for k := range b.ipsets {
		all[k] = true
	}
	ids := make([]string, 0, len(all))
	for k := range all {
		ids = append(ids, k)
	}
	sort.Strings(ids)
	for _, id := range ids {
		sa, oka := a.ipsets[id]
		sb, okb := b.ipsets[id]
		if oka != okb {
			out = append(out, fmt.Sprintf("IP set %q: present in A=%v, in B=%v", id, oka, okb))
			continue
		}
		if c03SetString(sa) != c03SetString(sb) {
			out = append(out, fmt.Sprintf("IP set %q members differ: A=%s B=%s", id, c03SetString(sa), c03SetString(sb)))
		}
	}
	return strings.Join(out, "\n")
}

func c03SetString(s map[string]bool) string {
	ks := make([]string, 0, len(s))
	for k := range s {
		ks = append(ks, k)
	}
	sort.Strings(ks)
	return "{" + strings.Join(ks, ",") + "}"
}

// ---------------------------------------------------------------------------------------------
// The real pipeline.

type c03Graph struct {
	vf     *calc.ValidationFilter
	cg     *calc.CalcGraph
	es     *calc.EventSequencer
	fold   *c03Fold
	inSync bool
}

func c03NewGraph() *c03Graph {
	conf := config.New()
	conf.FelixHostname = c03LocalHost
	g := &c03Graph{fold: c03NewFold()}
	g.es = calc.NewEventSequencer(conf)
	g.es.Callback = g.fold.onMsg
	g.cg = calc.NewCalculationGraph(g.es, calc.NewLookupsCache(), conf, func() {})
	g.vf = calc.NewValidationFilter(g.cg, conf)
	return g
}

func (g *c03Graph) send(upds []api.Update) {
	if len(upds) == 0 {
		return
	}
	// The filter writes into a fresh slice but nils values in its by-value copies only; give it
	// its own slice anyway so that two graphs never share a batch.
	cp := make([]api.Update, len(upds))
	copy(cp, upds)
	g.vf.OnUpdates(cp)
}

func (g *c03Graph) setInSync() {
	if !g.inSync {
		g.vf.OnStatusUpdated(api.InSync)
		g.inSync = true
	}
}

func (g *c03Graph) flush() {
	g.cg.Flush()
	g.es.Flush()
}

// ---------------------------------------------------------------------------------------------
// Model of the valid datastore content.

type c03Store struct {
	tiers      map[string]*model.Tier
	pols       map[model.PolicyKey]*model.Policy
	profLabels map[string]map[string]string // v3 Profile resource present -> its labelsToApply
	profRules  map[string]*model.ProfileRules
	weps       map[model.WorkloadEndpointKey]*model.WorkloadEndpoint
	heps       map[model.HostEndpointKey]*model.HostEndpoint
}

func c03NewStore() *c03Store {
	return &c03Store{
		tiers:      map[string]*model.Tier{},
		pols:       map[model.PolicyKey]*model.Policy{},
		profLabels: map[string]map[string]string{},
		profRules:  map[string]*model.ProfileRules{},
		weps:       map[model.WorkloadEndpointKey]*model.WorkloadEndpoint{},
		heps:       map[model.HostEndpointKey]*model.HostEndpoint{},
	}
}

func c03KeyString(k model.Key) string { return fmt.Sprintf("%T%v", k, k) }

func (s *c03Store) get(k model.Key) any {
	switch key := k.(type) {
	case model.TierKey:
		if v, ok := s.tiers[key.Name]; ok {
			return v
		}
	case model.PolicyKey:
		if v, ok := s.pols[key]; ok {
			return v
		}
	case model.ResourceKey:
		if v, ok := s.profLabels[key.Name]; ok {
			return c03ProfileResource(key.Name, v)
		}
	case model.ProfileRulesKey:
		if v, ok := s.profRules[key.Name]; ok {
			return v
		}
	case model.WorkloadEndpointKey:
		if v, ok := s.weps[key]; ok {
			return v
		}
	case model.HostEndpointKey:
		if v, ok := s.heps[key]; ok {
			return v
		}
	default:
		panic(fmt.Sprintf("HARNESS-GAP: unknown key type %T", k))
	}
	return nil
}

func (s *c03Store) has(k model.Key) bool { return s.get(k) != nil }

// apply stores val (nil = delete) under k.
func (s *c03Store) apply(k model.Key, val any) {
	switch key := k.(type) {
	case model.TierKey:
		if val == nil {
			delete(s.tiers, key.Name)
		} else {
			s.tiers[key.Name] = val.(*model.Tier)
		}
	case model.PolicyKey:
		if val == nil {
			delete(s.pols, key)
		} else {
			s.pols[key] = val.(*model.Policy)
		}
	case model.ResourceKey:
		if val == nil {
			delete(s.profLabels, key.Name)
		} else {
			lbls := val.(*v3.Profile).Spec.LabelsToApply
			if lbls == nil {
				lbls = map[string]string{}
			}
			s.profLabels[key.Name] = lbls
		}
	case model.ProfileRulesKey:
		if val == nil {
			delete(s.profRules, key.Name)
		} else {
			s.profRules[key.Name] = val.(*model.ProfileRules)
		}
	case model.WorkloadEndpointKey:
		if val == nil {
			delete(s.weps, key)
		} else {
			s.weps[key] = val.(*model.WorkloadEndpoint)
		}
	case model.HostEndpointKey:
		if val == nil {
			delete(s.heps, key)
		} else {
			s.heps[key] = val.(*model.HostEndpoint)
		}
	default:
		panic(fmt.Sprintf("HARNESS-GAP: unknown key type %T", k))
	}
}

// presentKeys lists every key with a value, in a deterministic order.
func (s *c03Store) presentKeys() []model.Key {
	var ks []model.Key
	for n := range s.tiers {
		ks = append(ks, model.TierKey{Name: n})
	}
	for k := range s.pols {
		ks = append(ks, k)
	}
	for n := range s.profLabels {
		ks = append(ks, c03ProfileResKey(n))
	}
	for n := range s.profRules {
		ks = append(ks, c03ProfileRulesKey(n))
	}
	for k := range s.weps {
		ks = append(ks, k)
	}
	for k := range s.heps {
		ks = append(ks, k)
	}
	sort.Slice(ks, func(i, j int) bool { return c03KeyString(ks[i]) < c03KeyString(ks[j]) })
	return ks
}

func (s *c03Store) sortedPolKeys() []model.PolicyKey {
	ks := make([]model.PolicyKey, 0, len(s.pols))
	for k := range s.pols {
		ks = append(ks, k)
	}
	sort.Slice(ks, func(i, j int) bool { return c03PolIDOfKey(ks[i]).String() < c03PolIDOfKey(ks[j]).String() })
	return ks
}

func (s *c03Store) describe() string {
	var b strings.Builder
	tn := make([]string, 0, len(s.tiers))
	for n := range s.tiers {
		tn = append(tn, n)
	}
	sort.Strings(tn)
	for _, n := range tn {
		fmt.Fprintf(&b, "  tier %s order=%s\n", n, c03OrderString(s.tiers[n].Order))
	}
	for _, k := range s.sortedPolKeys() {
		fmt.Fprintf(&b, "  policy %s: %s\n", c03PolIDOfKey(k), c03DescribePolicy(s.pols[k]))
	}
	pn := make([]string, 0, len(s.profLabels))
	for n := range s.profLabels {
		pn = append(pn, n)
	}
	sort.Strings(pn)
	for _, n := range pn {
		fmt.Fprintf(&b, "  profile %s labelsToApply=%v\n", n, s.profLabels[n])
	}
	pn = pn[:0]
	for n := range s.profRules {
		pn = append(pn, n)
	}
	sort.Strings(pn)
	for _, n := range pn {
		fmt.Fprintf(&b, "  profile rules %s: in=%d out=%d\n", n, len(s.profRules[n].InboundRules), len(s.profRules[n].OutboundRules))
	}
	for _, k := range s.presentKeys() {
		switch key := k.(type) {
		case model.WorkloadEndpointKey:
			e := s.weps[key]
			fmt.Fprintf(&b, "  wep %s/%s labels=%v profiles=%v\n", key.Hostname, c03WepIDOfKey(key), e.Labels, e.ProfileIDs)
		case model.HostEndpointKey:
			e := s.heps[key]
			fmt.Fprintf(&b, "  hep %s/%s labels=%v profiles=%v\n", key.Hostname, key.EndpointID, e.Labels, e.ProfileIDs)
		}
	}
	return b.String()
}

func c03OrderString(o *float64) string {
	if o == nil {
		return "nil"
	}
	return fmt.Sprint(*o)
}

func c03DescribePolicy(p *model.Policy) string {
	flags := ""
	if p.DoNotTrack {
		flags += " doNotTrack"
	}
	if p.PreDNAT {
		flags += " preDNAT"
	}
	if p.ApplyOnForward {
		flags += " applyOnForward"
	}
	if len(p.PerformanceHints) > 0 {
		flags += fmt.Sprintf(" hints=%v", p.PerformanceHints)
	}
	return fmt.Sprintf("tier=%s order=%s types=%v sel=%q in=%d out=%d%s", p.Tier, c03OrderString(p.Order), p.Types,
		p.Selector, len(p.InboundRules), len(p.OutboundRules), flags)
}

// ---------------------------------------------------------------------------------------------
// Keys and value constructors.

func c03ProfileResKey(name string) model.ResourceKey {
	return model.ResourceKey{Kind: v3.KindProfile, Name: name}
}

func c03ProfileRulesKey(name string) model.ProfileRulesKey {
	return model.ProfileRulesKey{ProfileKey: model.ProfileKey{Name: name}}
}

func c03ProfileResource(name string, labels map[string]string) *v3.Profile {
	return &v3.Profile{
		ObjectMeta: metav1.ObjectMeta{Name: name},
		Spec:       v3.ProfileSpec{LabelsToApply: labels},
	}
}

var (
	c03WepKeys = []model.WorkloadEndpointKey{
		{Hostname: c03LocalHost, OrchestratorID: "k8s", WorkloadID: "ns1/pod-a", EndpointID: "eth0"},
		{Hostname: c03LocalHost, OrchestratorID: "k8s", WorkloadID: "ns2/pod-b", EndpointID: "eth0"},
		{Hostname: c03RemoteHost, OrchestratorID: "k8s", WorkloadID: "ns1/pod-r", EndpointID: "eth0"},
	}
	c03HepKeys = []model.HostEndpointKey{
		{Hostname: c03LocalHost, EndpointID: "hep-eth0"},
		{Hostname: c03RemoteHost, EndpointID: "hep-eth0"},
	}
)

// Policy kinds with the namespace they need ("" = cluster-scoped).
type c03KindNS struct {
	kind       string
	namespaced bool
}

var c03PolicyKinds = []c03KindNS{
	{v3.KindGlobalNetworkPolicy, false},
	{v3.KindGlobalNetworkPolicy, false},
	{v3.KindStagedGlobalNetworkPolicy, false},
	{v3.KindNetworkPolicy, true},
	{v3.KindNetworkPolicy, true},
	{v3.KindStagedNetworkPolicy, true},
	{model.KindKubernetesNetworkPolicy, true},
	{v3.KindStagedKubernetesNetworkPolicy, true},
}

// ---------------------------------------------------------------------------------------------
// Generators (all randomness through rapid).

// c03World is the per-case vocabulary: the policy key pool and, per label name, the single value
// that every profile applies for that name.  (Two profiles of one endpoint giving *different*
// values for the same label is something neither the statement nor the API documentation
// orders, so the generator never produces it.)
type c03World struct {
	profVal map[string]string
	polKeys []model.PolicyKey
	// tiersOrderless: every tier of this case has no order, so tier position is decided by name.
	tiersOrderless bool
}

func c03GenWorld(t *rapid.T) *c03World {
	w := &c03World{profVal: map[string]string{}}
	for _, n := range c03LabelNames {
		w.profVal[n] = rapid.SampledFrom(c03LabelValues).Draw(t, "profileValueFor_"+n)
	}
	w.tiersOrderless = rapid.IntRange(0, 2).Draw(t, "allTiersOrderless") == 0
	n := rapid.IntRange(3, 6).Draw(t, "numPolicyKeys")
	seen := map[model.PolicyKey]bool{}
	for len(w.polKeys) < n {
		// Two names only, so that equal names with different namespace/kind are common.  The
		// names are not prefixes of each other, so "by name" and the documented
		// "name/namespace/kind" string order agree.
		name := rapid.SampledFrom([]string{"pa", "pa", "pb", "pc"}).Draw(t, "polName")
		kn := rapid.SampledFrom(c03PolicyKinds).Draw(t, "polKind")
		k := model.PolicyKey{Name: name, Kind: kn.kind}
		if kn.namespaced {
			k.Namespace = rapid.SampledFrom(c03Namespaces).Draw(t, "polNamespace")
		}
		if seen[k] {
			// Deterministic fallback instead of rejection: walk the (finite) key space.
			for _, nm := range []string{"pa", "pb", "pc", "pd"} {
				k.Name = nm
				if !seen[k] {
					break
				}
			}
			if seen[k] {
				continue
			}
		}
		seen[k] = true
		w.polKeys = append(w.polKeys, k)
	}
	return w
}

func c03GenSelector(t *rapid.T) string {
	atom := func(lbl string) string {
		name := rapid.SampledFrom(c03LabelNames).Draw(t, lbl+"Label")
		val := rapid.SampledFrom(c03LabelValues).Draw(t, lbl+"Value")
		switch rapid.IntRange(0, 7).Draw(t, lbl+"Form") {
		case 0:
			return "all()"
		case 1:
			return fmt.Sprintf("has(%s)", name)
		case 2:
			return fmt.Sprintf("!has(%s)", name)
		case 3, 4:
			return fmt.Sprintf("%s == '%s'", name, val)
		case 5:
			return fmt.Sprintf("%s != '%s'", name, val)
		case 6:
			val2 := rapid.SampledFrom(c03LabelValues).Draw(t, lbl+"Value2")
			return fmt.Sprintf("%s in {'%s', '%s'}", name, val, val2)
		default:
			return fmt.Sprintf("%s not in {'%s'}", name, val)
		}
	}
	switch rapid.IntRange(0, 9).Draw(t, "selShape") {
	case 0, 1, 2:
		return "all()"
	case 3, 4, 5, 6:
		return atom("sel")
	case 7:
		return fmt.Sprintf("(%s) && (%s)", atom("selL"), atom("selR"))
	case 8:
		return fmt.Sprintf("(%s) || (%s)", atom("selL"), atom("selR"))
	default:
		return fmt.Sprintf("!(%s)", atom("selN"))
	}
}

func c03GenOrder(t *rapid.T, label string) *float64 {
	var o float64
	switch rapid.IntRange(0, 19).Draw(t, label) {
	case 0, 1, 2, 3, 4, 5:
		return nil
	case 6, 7, 8, 9, 10, 11, 12, 13:
		o = 1
	case 14, 15, 16, 17, 18:
		o = 2
	default:
		o = rapid.SampledFrom([]float64{-1, 0, 1.5, 1e6}).Draw(t, label+"Odd")
	}
	return &o
}

// c03GenRule draws a small valid backend rule (validator preconditions honoured: ports only with
// tcp/udp).  marker > 0 adds "protocol tcp, dst port marker" so that a rule set can be recognised.
func c03GenRule(t *rapid.T, lbl string, marker int) model.Rule {
	r := model.Rule{Action: rapid.SampledFrom([]string{"allow", "deny", "next-tier", "log"}).Draw(t, lbl+"Action")}
	if marker > 0 {
		p := numorstring.ProtocolFromStringV1("tcp")
		r.Protocol = &p
		r.DstPorts = []numorstring.Port{numorstring.SinglePort(uint16(marker))}
	}
	switch rapid.IntRange(0, 4).Draw(t, lbl+"Match") {
	case 0:
		r.SrcSelector = c03GenSelector(t)
	case 1:
		n := calinet.MustParseNetwork("10.0.0.0/24")
		r.SrcNets = []*calinet.IPNet{&n}
	}
	return r
}

func c03GenRules(t *rapid.T, lbl string, marker int) []model.Rule {
	n := rapid.IntRange(0, 2).Draw(t, lbl+"Count")
	var rs []model.Rule
	for i := 0; i < n; i++ {
		rs = append(rs, c03GenRule(t, fmt.Sprintf("%s%d", lbl, i), marker))
	}
	return rs
}

func c03GenPolicy(t *rapid.T, key model.PolicyKey) *model.Policy {
	p := &model.Policy{
		Namespace: key.Namespace,
		Tier:      rapid.SampledFrom([]string{"default", "default", "t1", "t1", "t2"}).Draw(t, "polTier"),
		Order:     c03GenOrder(t, "polOrder"),
		Selector:  c03GenSelector(t),
	}
	if key.Namespace != "" {
		// As ConvertNetworkPolicyV3ToV1Value does for namespaced policies.
		p.Selector = fmt.Sprintf("(%s) && %s == '%s'", p.Selector, c03NSLabel, key.Namespace)
	}
	p.Types = rapid.SampledFrom([][]string{nil, {"ingress"}, {"egress"}, {"ingress", "egress"}, {"egress", "ingress"}}).Draw(t, "polTypes")
	p.InboundRules = c03GenRules(t, "polIn", 0)
	p.OutboundRules = c03GenRules(t, "polOut", 0)
	if model.KindIsStaged(key.Kind) {
		a := v3.StagedActionSet
		p.StagedAction = &a
	}
	if key.Namespace == "" {
		// Host-endpoint style flags only exist on (staged) global policies.
		switch rapid.IntRange(0, 11).Draw(t, "polFlags") {
		case 0:
			p.DoNotTrack, p.ApplyOnForward = true, true
		case 1:
			p.PreDNAT, p.ApplyOnForward = true, true
			p.Types = []string{"ingress"}
			p.OutboundRules = nil
		case 2:
			p.ApplyOnForward = true
		}
	}
	if rapid.IntRange(0, 9).Draw(t, "polHint") == 0 {
		p.PerformanceHints = []v3.PolicyPerformanceHint{v3.PerfHintAssumeNeededOnEveryNode}
	}
	return p
}

// c03GenTier: DefaultAction is Deny or Pass as the current ConvertTierV3ToV1Value produces, or
// empty as a Typha older than the field sends it ("defaultAction,omitempty"; Felix accepts older
// Typha data, cf. model.LegacyPolicyKey) and as the package's own tests use (&model.Tier{}).
func c03GenTier(t *rapid.T, orderless bool) *model.Tier {
	tier := &model.Tier{
		DefaultAction: rapid.SampledFrom([]v3.Action{"", v3.Deny, v3.Pass}).Draw(t, "tierDefaultAction"),
	}
	if !orderless {
		tier.Order = c03GenOrder(t, "tierOrder")
	}
	return tier
}

func c03GenOwnLabels(t *rapid.T, ns string) map[string]string {
	m := map[string]string{}
	for _, n := range c03LabelNames {
		if v := rapid.SampledFrom([]string{"", "", "x", "y", "z"}).Draw(t, "ownLabel_"+n); v != "" {
			m[n] = v
		}
	}
	if ns != "" {
		m[c03NSLabel] = ns
	}
	return m
}

// c03GenProfileIDs: ProfileIDs is a plain list; nothing de-duplicates it, so repeated IDs occur.
func c03GenProfileIDs(t *rapid.T) []string {
	n := rapid.SampledFrom([]int{0, 1, 1, 2, 2, 2, 3}).Draw(t, "numProfiles")
	var ids []string
	for i := 0; i < n; i++ {
		ids = append(ids, rapid.SampledFrom(c03ProfileIDs).Draw(t, "profileID"))
	}
	return ids
}

func c03HasDuplicate(ids []string) bool {
	seen := map[string]bool{}
	for _, id := range ids {
		if seen[id] {
			return true
		}
		seen[id] = true
	}
	return false
}

func c03GenWep(t *rapid.T, key model.WorkloadEndpointKey, idx int) *model.WorkloadEndpoint {
	ns := strings.SplitN(key.WorkloadID, "/", 2)[0]
	ipn := rapid.IntRange(1, 4).Draw(t, "wepIP")
	return &model.WorkloadEndpoint{
		State:      "active",
		Name:       fmt.Sprintf("cali%d", idx),
		ProfileIDs: c03GenProfileIDs(t),
		IPv4Nets:   []calinet.IPNet{calinet.MustParseNetwork(fmt.Sprintf("10.0.0.%d/32", ipn))},
		Labels:     uniquelabels.Make(c03GenOwnLabels(t, ns)),
	}
}

func c03GenHep(t *rapid.T) *model.HostEndpoint {
	ipn := rapid.IntRange(1, 4).Draw(t, "hepIP")
	return &model.HostEndpoint{
		Name:              "eth0",
		ExpectedIPv4Addrs: []calinet.IP{calinet.MustParseIP(fmt.Sprintf("10.0.1.%d", ipn))},
		ProfileIDs:        c03GenProfileIDs(t),
		Labels:            uniquelabels.Make(c03GenOwnLabels(t, "")),
	}
}

func c03GenProfileLabels(t *rapid.T, w *c03World) map[string]string {
	m := map[string]string{}
	for _, n := range c03LabelNames {
		if rapid.Bool().Draw(t, "profileApplies_"+n) {
			m[n] = w.profVal[n]
		}
	}
	return m
}

// ---------------------------------------------------------------------------------------------
// Reference model: which policies apply to an endpoint, in which order.

type c03PolRef struct {
	id  c03PolID
	pol *model.Policy
}

type c03TierExp struct {
	present bool        // the Tier resource exists in the datastore
	in, out []c03PolRef // every matching policy of that tier governing ingress / egress, in order
}

// c03OwnLabels returns an endpoint's own labels as a plain map.
func c03OwnLabels(l uniquelabels.Map) map[string]string {
	m := map[string]string{}
	for k, v := range l.AllStrings() {
		m[k] = v
	}
	return m
}

// c03EffectiveLabels: labels inherited from the endpoint's profiles (labelsToApply of each
// existing profile, in profile order) overlaid by the endpoint's own labels.
func c03EffectiveLabels(st *c03Store, own map[string]string, profileIDs []string) (eff map[string]string, overridden bool, conflict string) {
	eff = map[string]string{}
	for _, id := range profileIDs {
		lbls, ok := st.profLabels[id]
		if !ok {
			continue
		}
		for k, v := range lbls {
			if old, dup := eff[k]; dup && old != v {
				conflict = fmt.Sprintf("profiles give %s=%s and %s=%s", k, old, k, v)
				continue
			}
			eff[k] = v
		}
	}
	for k, v := range own {
		if old, inherited := eff[k]; inherited && old != v {
			overridden = true
		}
		eff[k] = v
	}
	return
}

func c03GovernsIngress(p *model.Policy) bool {
	if len(p.Types) == 0 {
		return true
	}
	for _, ty := range p.Types {
		if strings.EqualFold(ty, "ingress") {
			return true
		}
	}
	return false
}

func c03GovernsEgress(p *model.Policy) bool {
	if len(p.Types) == 0 {
		return true
	}
	for _, ty := range p.Types {
		if strings.EqualFold(ty, "egress") {
			return true
		}
	}
	return false
}

// c03PolBefore: ascending order, unset order last, then name, then (documented in PolKVLess)
// namespace and kind.
func c03PolBefore(a, b c03PolRef) bool {
	ao, bo := a.pol.Order, b.pol.Order
	switch {
	case ao == nil && bo != nil:
		return false
	case ao != nil && bo == nil:
		return true
	case ao != nil && bo != nil && *ao != *bo:
		return *ao < *bo
	}
	if a.id.Name != b.id.Name {
		return a.id.Name < b.id.Name
	}
	if a.id.Namespace != b.id.Namespace {
		return a.id.Namespace < b.id.Namespace
	}
	return a.id.Kind < b.id.Kind
}

func c03SameOrder(a, b *model.Policy) bool {
	if a.Order == nil || b.Order == nil {
		return a.Order == nil && b.Order == nil
	}
	return *a.Order == *b.Order
}

// c03TierBefore: ascending order, unset order last, then name (both tiers exist).
func c03TierBefore(st *c03Store, a, b string) bool {
	ao, bo := st.tiers[a].Order, st.tiers[b].Order
	switch {
	case ao == nil && bo != nil:
		return false
	case ao != nil && bo == nil:
		return true
	case ao != nil && bo != nil && *ao != *bo:
		return *ao < *bo
	}
	return a < b
}

func c03Flagged(p *model.Policy) bool { return p.DoNotTrack || p.PreDNAT }

// c03Expected computes, for one endpoint's effective labels, the matching policies per tier.
func c03Expected(t *rapid.T, st *c03Store, eff map[string]string) (map[string]*c03TierExp, []c03PolRef) {
	exp := map[string]*c03TierExp{}
	var matching []c03PolRef
	for _, k := range st.sortedPolKeys() {
		p := st.pols[k]
		sel, err := selector.Parse(p.Selector)
		if err != nil {
			t.Fatalf("HARNESS-GAP: generated policy selector %q does not parse: %v", p.Selector, err)
		}
		if !sel.Evaluate(eff) {
			continue
		}
		ref := c03PolRef{id: c03PolIDOfKey(k), pol: p}
		matching = append(matching, ref)
		te := exp[p.Tier]
		if te == nil {
			_, present := st.tiers[p.Tier]
			te = &c03TierExp{present: present}
			exp[p.Tier] = te
		}
		if c03GovernsIngress(p) {
			te.in = append(te.in, ref)
		}
		if c03GovernsEgress(p) {
			te.out = append(te.out, ref)
		}
	}
	for _, te := range exp {
		sort.SliceStable(te.in, func(i, j int) bool { return c03PolBefore(te.in[i], te.in[j]) })
		sort.SliceStable(te.out, func(i, j int) bool { return c03PolBefore(te.out[i], te.out[j]) })
	}
	return exp, matching
}

func c03RefsString(rs []c03PolRef) string {
	ss := make([]string, len(rs))
	for i, r := range rs {
		ss[i] = fmt.Sprintf("%s(order %s)", r.id, c03OrderString(r.pol.Order))
	}
	return "[" + strings.Join(ss, " ") + "]"
}

func c03IDsString(ids []*proto.PolicyID) string {
	ss := make([]string, len(ids))
	for i, id := range ids {
		ss[i] = c03PolIDOfProto(id).String()
	}
	return "[" + strings.Join(ss, " ") + "]"
}

func c03TiersString(tis []*proto.TierInfo) string {
	var ss []string
	for _, ti := range tis {
		ss = append(ss, fmt.Sprintf("%s{in:%s out:%s}", ti.Name, c03IDsString(ti.IngressPolicies), c03IDsString(ti.EgressPolicies)))
	}
	return "[" + strings.Join(ss, " ") + "]"
}

// c03CheckSubsequence: emitted must list, without repeats, only policies of want and in want's
// relative order.  Returns "" or a description.
func c03CheckSubsequence(emitted []*proto.PolicyID, want []c03PolRef) string {
	pos := map[c03PolID]int{}
	for i, r := range want {
		pos[r.id] = i
	}
	last := -1
	seen := map[c03PolID]bool{}
	for _, e := range emitted {
		id := c03PolIDOfProto(e)
		if seen[id] {
			return fmt.Sprintf("policy %s listed twice", id)
		}
		seen[id] = true
		p, ok := pos[id]
		if !ok {
			return fmt.Sprintf("policy %s is listed but does not apply here (not matching, wrong tier or wrong direction)", id)
		}
		if p < last {
			return fmt.Sprintf("policy %s is out of order", id)
		}
		last = p
	}
	return ""
}

type c03CheckStats struct {
	classes map[string]bool
}

func (s *c03CheckStats) hit(c string) {
	if s.classes == nil {
		s.classes = map[string]bool{}
	}
	s.classes[c] = true
}

// c03CheckTierList checks one emitted tier list of one endpoint against the expectation.
// mustContain selects the policies whose presence the statement demands in *this* list.
func c03CheckTierList(st *c03Store, exp map[string]*c03TierExp, emitted []*proto.TierInfo, mustContain func(c03PolRef) bool) string {
	seen := map[string]*proto.TierInfo{}
	var presentSeq []string
	for _, ti := range emitted {
		if seen[ti.Name] != nil {
			return fmt.Sprintf("tier %q appears twice", ti.Name)
		}
		seen[ti.Name] = ti
		te := exp[ti.Name]
		if te == nil {
			if len(ti.IngressPolicies)+len(ti.EgressPolicies) > 0 {
				return fmt.Sprintf("tier %q lists policies in=%s out=%s but no policy of that tier matches the endpoint",
					ti.Name, c03IDsString(ti.IngressPolicies), c03IDsString(ti.EgressPolicies))
			}
			continue
		}
		if msg := c03CheckSubsequence(ti.IngressPolicies, te.in); msg != "" {
			return fmt.Sprintf("tier %q ingress: %s; emitted %s, all matching ingress policies in required order %s",
				ti.Name, msg, c03IDsString(ti.IngressPolicies), c03RefsString(te.in))
		}
		if msg := c03CheckSubsequence(ti.EgressPolicies, te.out); msg != "" {
			return fmt.Sprintf("tier %q egress: %s; emitted %s, all matching egress policies in required order %s",
				ti.Name, msg, c03IDsString(ti.EgressPolicies), c03RefsString(te.out))
		}
		if te.present {
			presentSeq = append(presentSeq, ti.Name)
		}
	}
	// Tiers whose resource exists must come in (order asc, unset last, name) order.  Tiers whose
	// resource is absent are not constrained in position (statement silent, DESIGN §7-a).
	for i := 1; i < len(presentSeq); i++ {
		if !c03TierBefore(st, presentSeq[i-1], presentSeq[i]) {
			return fmt.Sprintf("tier %q (order %s) is emitted before tier %q (order %s)",
				presentSeq[i-1], c03OrderString(st.tiers[presentSeq[i-1]].Order),
				presentSeq[i], c03OrderString(st.tiers[presentSeq[i]].Order))
		}
	}
	if mustContain == nil {
		return ""
	}
	names := make([]string, 0, len(exp))
	for n := range exp {
		names = append(names, n)
	}
	sort.Strings(names)
	has := func(ids []*proto.PolicyID, id c03PolID) bool {
		for _, e := range ids {
			if c03PolIDOfProto(e) == id {
				return true
			}
		}
		return false
	}
	for _, n := range names {
		te := exp[n]
		ti := seen[n]
		for _, r := range te.in {
			if mustContain(r) && (ti == nil || !has(ti.IngressPolicies, r.id)) {
				return fmt.Sprintf("matching policy %s (tier %q, governs ingress) is missing from the ingress list", r.id, n)
			}
		}
		for _, r := range te.out {
			if mustContain(r) && (ti == nil || !has(ti.EgressPolicies, r.id)) {
				return fmt.Sprintf("matching policy %s (tier %q, governs egress) is missing from the egress list", r.id, n)
			}
		}
	}
	return ""
}

func c03ListHas(tis []*proto.TierInfo, tier string, id c03PolID, ingress bool) bool {
	for _, ti := range tis {
		if ti.Name != tier {
			continue
		}
		ids := ti.EgressPolicies
		if ingress {
			ids = ti.IngressPolicies
		}
		for _, e := range ids {
			if c03PolIDOfProto(e) == id {
				return true
			}
		}
	}
	return false
}

// c03CheckFold compares the folded output with the reference model for the valid datastore
// content st.  It must only be called after in-sync was delivered and both flushes ran.
// It returns "" or a description of the first discrepancy.
func c03CheckFold(t *rapid.T, st *c03Store, fold *c03Fold, stats *c03CheckStats) string {
	required := map[c03PolID]string{} // policy that must be sent -> why
	allowed := map[c03PolID]bool{}    // policy that may be sent

	noteClasses := func(exp map[string]*c03TierExp) {
		nPresent, nilOrder := 0, false
		for n, te := range exp {
			if te.present {
				nPresent++
				if st.tiers[n].Order == nil {
					nilOrder = true
				}
			} else {
				stats.hit("absent-tier-policy")
			}
			for _, lst := range [][]c03PolRef{te.in, te.out} {
				for i := 1; i < len(lst); i++ {
					if c03SameOrder(lst[i-1].pol, lst[i].pol) {
						stats.hit("order-tie")
						if lst[i-1].id.Name == lst[i].id.Name {
							stats.hit("order-and-name-tie")
						}
					}
				}
				for _, r := range lst {
					if model.KindIsStaged(r.id.Kind) {
						stats.hit("staged-policy-applies")
					}
					if len(r.pol.Types) == 0 {
						stats.hit("types-empty")
					}
				}
			}
		}
		if nPresent >= 2 {
			stats.hit("multi-tier")
			if nilOrder {
				stats.hit("nil-tier-order")
			}
			nNil := 0
			for n, te := range exp {
				if te.present && st.tiers[n].Order == nil {
					nNil++
				}
			}
			if nNil >= 2 {
				stats.hit("orderless-tiers-ordered-by-name")
			}
		}
	}

	// Workload endpoints.
	for _, key := range c03WepKeys {
		ep, ok := st.weps[key]
		if !ok {
			continue
		}
		if key.Hostname != c03LocalHost {
			stats.hit("remote-wep-present")
			continue
		}
		id := c03WepIDOfKey(key)
		eff, overridden, conflict := c03EffectiveLabels(st, c03OwnLabels(ep.Labels), ep.ProfileIDs)
		if conflict != "" {
			t.Fatalf("HARNESS-GAP: generator produced conflicting profile labels: %s", conflict)
		}
		if overridden {
			stats.hit("label-override")
		}
		if c03HasDuplicate(ep.ProfileIDs) {
			stats.hit("endpoint-lists-a-profile-twice")
		}
		exp, matching := c03Expected(t, st, eff)
		noteClasses(exp)
		for _, r := range matching {
			allowed[r.id] = true
			if !c03Flagged(r.pol) {
				required[r.id] = "matches local workload endpoint " + id
			}
		}
		em, ok := fold.weps[id]
		if !ok {
			return fmt.Sprintf("local workload endpoint %s exists but no WorkloadEndpointUpdate is in effect", id)
		}
		stats.hit("wep-checked")
		if len(matching) > 0 {
			stats.hit("wep-with-policies")
		}
		// doNotTrack / preDNAT policies are host-endpoint features; for workload endpoints the
		// oracle neither demands nor forbids them.
		msg := c03CheckTierList(st, exp, em.Tiers, func(r c03PolRef) bool { return !c03Flagged(r.pol) })
		if msg != "" {
			return fmt.Sprintf("workload endpoint %s (effective labels %v): %s\n  emitted tiers: %s", id, eff, msg, c03TiersString(em.Tiers))
		}
	}

	// Host endpoints.
	for _, key := range c03HepKeys {
		ep, ok := st.heps[key]
		if !ok {
			continue
		}
		if key.Hostname != c03LocalHost {
			stats.hit("remote-hep-present")
			continue
		}
		id := key.EndpointID
		eff, overridden, conflict := c03EffectiveLabels(st, c03OwnLabels(ep.Labels), ep.ProfileIDs)
		if conflict != "" {
			t.Fatalf("HARNESS-GAP: generator produced conflicting profile labels: %s", conflict)
		}
		if overridden {
			stats.hit("label-override")
		}
		if c03HasDuplicate(ep.ProfileIDs) {
			stats.hit("endpoint-lists-a-profile-twice")
		}
		exp, matching := c03Expected(t, st, eff)
		noteClasses(exp)
		for _, r := range matching {
			allowed[r.id] = true
			required[r.id] = "matches local host endpoint " + id
		}
		em, ok := fold.heps[id]
		if !ok {
			return fmt.Sprintf("local host endpoint %s exists but no HostEndpointUpdate is in effect", id)
		}
		stats.hit("hep-checked")
		if len(matching) > 0 {
			stats.hit("hep-with-policies")
		}
		lists := []struct {
			name string
			tis  []*proto.TierInfo
			must func(c03PolRef) bool
		}{
			{"tiers", em.Tiers, func(r c03PolRef) bool { return !c03Flagged(r.pol) }},
			{"untracked_tiers", em.UntrackedTiers, nil},
			{"pre_dnat_tiers", em.PreDnatTiers, nil},
			{"forward_tiers", em.ForwardTiers, nil},
		}
		for _, l := range lists {
			if msg := c03CheckTierList(st, exp, l.tis, l.must); msg != "" {
				return fmt.Sprintf("host endpoint %s (effective labels %v) list %s: %s\n  emitted: %s", id, eff, l.name, msg, c03TiersString(l.tis))
			}
		}
		// Every matching policy must be in *some* list of the host endpoint, in each direction
		// it governs (pre-DNAT policies are ingress-only by validation).
		for _, r := range matching {
			if !c03Flagged(r.pol) {
				continue
			}
			stats.hit("hep-flagged-policy")
			anyList := func(ingress bool) bool {
				return c03ListHas(em.Tiers, r.pol.Tier, r.id, ingress) ||
					c03ListHas(em.UntrackedTiers, r.pol.Tier, r.id, ingress) ||
					c03ListHas(em.PreDnatTiers, r.pol.Tier, r.id, ingress)
			}
			if c03GovernsIngress(r.pol) && !anyList(true) {
				return fmt.Sprintf("host endpoint %s: matching policy %s governs ingress but is in none of tiers/untracked_tiers/pre_dnat_tiers", id, r.id)
			}
			if c03GovernsEgress(r.pol) && !r.pol.PreDNAT && !anyList(false) {
				return fmt.Sprintf("host endpoint %s: matching policy %s governs egress but is in none of tiers/untracked_tiers", id, r.id)
			}
		}
	}

	// "Only policies that apply to some local endpoint are sent" (+ the documented
	// AssumeNeededOnEveryNode hint: "Felix will act as if the policy matches a local endpoint").
	for _, k := range st.sortedPolKeys() {
		p := st.pols[k]
		for _, h := range p.PerformanceHints {
			if h == v3.PerfHintAssumeNeededOnEveryNode {
				id := c03PolIDOfKey(k)
				allowed[id] = true
				required[id] = "carries AssumeNeededOnEveryNode"
				stats.hit("hint-policy")
			}
		}
	}
	sent := make([]c03PolID, 0, len(fold.pols))
	for id := range fold.pols {
		sent = append(sent, id)
	}
	sort.Slice(sent, func(i, j int) bool { return sent[i].String() < sent[j].String() })
	for _, id := range sent {
		if !allowed[id] {
			return fmt.Sprintf("ActivePolicyUpdate for %s is in effect but the policy applies to no local endpoint", id)
		}
	}
	req := make([]c03PolID, 0, len(required))
	for id := range required {
		req = append(req, id)
	}
	sort.Slice(req, func(i, j int) bool { return req[i].String() < req[j].String() })
	for _, id := range req {
		if _, ok := fold.pols[id]; !ok {
			return fmt.Sprintf("policy %s %s but no ActivePolicyUpdate for it is in effect", id, required[id])
		}
	}
	if len(st.pols) > len(allowed) {
		stats.hit("inactive-policy-present")
	}
	return ""
}

// ---------------------------------------------------------------------------------------------
// History generation shared by C03 and C05.

type c03Step struct {
	kind string // short op name for the shape key
	desc string
	key  model.Key
	val  any  // value as delivered (may be an invalid variant in C05)
	ok   bool // val passes validation (always true for deletes)
	// redeliver: the key's current value (valid or not) is sent again unchanged, with the SAME
	// revision, as a Typha snapshot re-send / resync does; newType: sent as KVNew instead of
	// KVUpdated.
	redeliver bool
	newType   bool
}

// c03RawVal is what the syncer currently holds for a key (valid or not).
type c03RawVal struct {
	val any
	ok  bool
	rev string
}

// c03Hist owns the case: world, datastore models and the generated history log.
type c03Hist struct {
	t     *rapid.T
	world *c03World
	// valid: what the datastore holds after validation (invalid = absent).
	valid *c03Store
	// raw: keys the syncer believes present (valid or not) -> UpdateType New/Updated.
	raw map[string]bool
	// lastValid: per key, whether the last delivered value was valid (C05 NT rule).
	log     []string
	kinds   []string
	version int
	// C05 only: probability knob and invalid-value generator.
	invalidGen func(h *c03Hist, key model.Key) (any, string)
	// lastDeleted: the valid value a key held when it was last deleted (for "restore").
	lastDeleted map[string]any
	// classes noted by the generator itself (merged into the evidence by the tests).
	classes map[string]bool
	// rawVal: current raw value and revision per key (for same-revision redelivery).
	rawVal map[string]c03RawVal
	revSeq int
	// counters
	invalidAfterValid  bool
	nInvalid           int
	invalidRedelivered int // redeliveries of an invalid current value with unchanged revision
	validRedelivered   int
}

func c03NewHist(t *rapid.T) *c03Hist {
	return &c03Hist{t: t, world: c03GenWorld(t), valid: c03NewStore(), raw: map[string]bool{}, rawVal: map[string]c03RawVal{},
		lastDeleted: map[string]any{}, classes: map[string]bool{}}
}

func (h *c03Hist) nextVersion() int {
	h.version++
	return h.version
}

// genValue draws a valid value for key.
func (h *c03Hist) genValue(key model.Key) (any, string) {
	t := h.t
	switch k := key.(type) {
	case model.TierKey:
		v := c03GenTier(t, h.world.tiersOrderless)
		return v, fmt.Sprintf("order=%s default=%s", c03OrderString(v.Order), v.DefaultAction)
	case model.PolicyKey:
		v := c03GenPolicy(t, k)
		return v, c03DescribePolicy(v)
	case model.ResourceKey:
		l := c03GenProfileLabels(t, h.world)
		return c03ProfileResource(k.Name, l), fmt.Sprintf("labelsToApply=%v", l)
	case model.ProfileRulesKey:
		ver := 1000 + h.nextVersion()
		v := &model.ProfileRules{
			InboundRules:  c03GenRules(t, "profIn", ver),
			OutboundRules: c03GenRules(t, "profOut", ver),
		}
		return v, fmt.Sprintf("version-port=%d in=%d out=%d", ver, len(v.InboundRules), len(v.OutboundRules))
	case model.WorkloadEndpointKey:
		idx := 0
		for i, wk := range c03WepKeys {
			if wk == k {
				idx = i
			}
		}
		v := c03GenWep(t, k, idx)
		return v, fmt.Sprintf("labels=%v profiles=%v nets=%v", v.Labels, v.ProfileIDs, v.IPv4Nets)
	case model.HostEndpointKey:
		v := c03GenHep(t)
		return v, fmt.Sprintf("labels=%v profiles=%v", v.Labels, v.ProfileIDs)
	}
	panic(fmt.Sprintf("HARNESS-GAP: unknown key type %T", key))
}

func (h *c03Hist) pickKey(kind string) model.Key {
	t := h.t
	switch kind {
	case "tier":
		return model.TierKey{Name: rapid.SampledFrom(c03TierNames).Draw(t, "tierName")}
	case "pol":
		return rapid.SampledFrom(h.world.polKeys).Draw(t, "policyKey")
	case "plbl":
		return c03ProfileResKey(rapid.SampledFrom(c03ProfileIDs).Draw(t, "profileName"))
	case "prul":
		return c03ProfileRulesKey(rapid.SampledFrom(c03ProfileIDs).Draw(t, "profileName"))
	case "wep":
		// local endpoints twice as likely as the remote one
		return rapid.SampledFrom([]model.WorkloadEndpointKey{c03WepKeys[0], c03WepKeys[1], c03WepKeys[0], c03WepKeys[1], c03WepKeys[2]}).Draw(t, "wepKey")
	case "hep":
		return rapid.SampledFrom([]model.HostEndpointKey{c03HepKeys[0], c03HepKeys[0], c03HepKeys[1]}).Draw(t, "hepKey")
	}
	panic("HARNESS-GAP: unknown kind " + kind)
}

// genStep draws one datastore change against the current model.  weights: relative frequency
// of the op families (set per check).
func (h *c03Hist) genStep(weights []string, pInvalid int) c03Step {
	t := h.t
	op := rapid.SampledFrom(weights).Draw(t, "op")
	switch op {
	case "del":
		keys := h.rawPresentKeys()
		if len(keys) == 0 {
			op = "pol"
			break
		}
		k := keys[rapid.IntRange(0, len(keys)-1).Draw(t, "delKeyIdx")]
		return c03Step{kind: "D" + c03KindLetter(k), desc: "delete " + c03KeyString(k), key: k, val: nil, ok: true}
	case "redeliver", "reinv":
		// "reinv" prefers keys whose current value is invalid.
		keys := h.rawPresentKeys()
		if op == "reinv" {
			var inv []model.Key
			for _, k := range keys {
				if !h.rawVal[c03KeyString(k)].ok {
					inv = append(inv, k)
				}
			}
			if len(inv) > 0 {
				keys = inv
			}
		}
		if len(keys) == 0 {
			op = "pol"
			break
		}
		k := keys[rapid.IntRange(0, len(keys)-1).Draw(t, "redeliverKeyIdx")]
		rv := h.rawVal[c03KeyString(k)]
		what := "valid"
		if !rv.ok {
			what = "INVALID"
		}
		newType := rapid.IntRange(0, 3).Draw(t, "redeliverAsNew") == 0
		return c03Step{kind: "R" + c03KindLetter(k), desc: fmt.Sprintf("redeliver %s (current %s value, same revision %s, asNew=%v)", c03KeyString(k), what, rv.rev, newType),
			key: k, val: rv.val, ok: rv.ok, redeliver: true, newType: newType}
	case "tier3":
		// Set a tier that does not exist yet (used to start a case with all tiers present).
		for _, n := range c03TierNames {
			if _, ok := h.valid.tiers[n]; !ok {
				k := model.TierKey{Name: n}
				v, d := h.genValue(k)
				return c03Step{kind: "St", desc: fmt.Sprintf("set %s %s", c03KeyString(k), d), key: k, val: v, ok: true}
			}
		}
		op = "tier"
	case "tdel":
		// Delete an existing tier (its policies stay).
		var tks []model.Key
		for _, n := range c03TierNames {
			if _, ok := h.valid.tiers[n]; ok {
				tks = append(tks, model.TierKey{Name: n})
			}
		}
		if len(tks) == 0 {
			op = "tier"
			break
		}
		k := tks[rapid.IntRange(0, len(tks)-1).Draw(t, "tierDelIdx")]
		return c03Step{kind: "Dt", desc: "delete " + c03KeyString(k), key: k, val: nil, ok: true}
	case "restore", "trestore":
		// Re-create a deleted key with exactly the value it had before the delete.
		cands := h.restorable(op == "trestore" || rapid.Bool().Draw(t, "restorePreferTier"))
		if len(cands) == 0 {
			op = "tier"
			break
		}
		k := cands[rapid.IntRange(0, len(cands)-1).Draw(t, "restoreIdx")]
		v := h.lastDeleted[c03KeyString(k)]
		if tk, ok := k.(model.TierKey); ok {
			for _, p := range h.valid.pols {
				if p.Tier == tk.Name {
					h.classes["tier-restored-while-policies-remain"] = true
				}
			}
			if v.(*model.Tier).Order == nil && h.tierPositionMatters(tk.Name) {
				h.classes["orderless-tier-restored-ahead-of-later-orderless-tier-on-same-endpoint"] = true
			}
		}
		return c03Step{kind: "U" + c03KindLetter(k), desc: "restore " + c03KeyString(k) + " to its value before the delete", key: k, val: v, ok: true}
	case "eprof":
		// Update an existing endpoint changing nothing but its profile list.
		var eks []model.Key
		for _, k := range c03WepKeys {
			if _, ok := h.valid.weps[k]; ok {
				eks = append(eks, k)
			}
		}
		for _, k := range c03HepKeys {
			if _, ok := h.valid.heps[k]; ok {
				eks = append(eks, k)
			}
		}
		if len(eks) == 0 {
			op = "wep"
			break
		}
		k := eks[rapid.IntRange(0, len(eks)-1).Draw(t, "eprofKeyIdx")]
		var old []string
		if wk, ok := k.(model.WorkloadEndpointKey); ok {
			old = h.valid.weps[wk].ProfileIDs
		} else {
			old = h.valid.heps[k.(model.HostEndpointKey)].ProfileIDs
		}
		var ids []string
		mode := rapid.IntRange(0, 3).Draw(t, "eprofMode")
		switch {
		case mode <= 1 && len(old) > 0:
			// same length, only IDs that are already listed (repeats / drops / permutations)
			for range old {
				ids = append(ids, rapid.SampledFrom(old).Draw(t, "eprofFromOld"))
			}
		case mode == 2 && len(old) > 1:
			for i := len(old) - 1; i >= 0; i-- {
				ids = append(ids, old[i])
			}
		default:
			ids = c03GenProfileIDs(t)
		}
		h.classes["endpoint-profile-list-only-update"] = true
		if len(ids) == len(old) && fmt.Sprint(ids) != fmt.Sprint(old) {
			subset := true
			for _, id := range ids {
				found := false
				for _, o := range old {
					found = found || o == id
				}
				subset = subset && found
			}
			if subset {
				h.classes["profile-list-same-length-same-ids-different-list"] = true
			}
		}
		var nv any
		if wk, ok := k.(model.WorkloadEndpointKey); ok {
			cp := *h.valid.weps[wk]
			cp.ProfileIDs = ids
			nv = &cp
		} else {
			cp := *h.valid.heps[k.(model.HostEndpointKey)]
			cp.ProfileIDs = ids
			nv = &cp
		}
		return c03Step{kind: "P" + c03KindLetter(k), desc: fmt.Sprintf("set %s profiles %v -> %v (nothing else changed)", c03KeyString(k), old, ids), key: k, val: nv, ok: true}
	case "move":
		// Change only tier and/or order of an existing policy (tier move / re-order).
		pks := h.valid.sortedPolKeys()
		if len(pks) == 0 {
			op = "pol"
			break
		}
		k := pks[rapid.IntRange(0, len(pks)-1).Draw(t, "moveKeyIdx")]
		cp := *h.valid.pols[k]
		if rapid.Bool().Draw(t, "moveTier") {
			cp.Tier = rapid.SampledFrom(c03TierNames).Draw(t, "moveToTier")
		} else {
			cp.Order = c03GenOrder(t, "moveOrder")
		}
		return c03Step{kind: "Mp", desc: fmt.Sprintf("move %s -> %s", c03KeyString(k), c03DescribePolicy(&cp)), key: k, val: &cp, ok: true}
	}
	key := h.pickKey(op)
	if h.invalidGen != nil && rapid.IntRange(0, 99).Draw(t, "invalidRoll") < pInvalid {
		if v, d := h.invalidGen(h, key); v != nil {
			return c03Step{kind: "I" + c03KindLetter(key), desc: fmt.Sprintf("set %s INVALID(%s)", c03KeyString(key), d), key: key, val: v, ok: false}
		}
	}
	v, d := h.genValue(key)
	return c03Step{kind: "S" + c03KindLetter(key), desc: fmt.Sprintf("set %s %s", c03KeyString(key), d), key: key, val: v, ok: true}
}

func c03KindLetter(k model.Key) string {
	switch key := k.(type) {
	case model.TierKey:
		return "t"
	case model.PolicyKey:
		return "p"
	case model.ResourceKey:
		return "l"
	case model.ProfileRulesKey:
		return "r"
	case model.WorkloadEndpointKey:
		if key.Hostname == c03LocalHost {
			return "w"
		}
		return "v"
	case model.HostEndpointKey:
		if key.Hostname == c03LocalHost {
			return "h"
		}
		return "g"
	}
	return "?"
}

// tierPositionMatters: some local endpoint has applicable policies both in tier name (absent
// now) and in an existing order-less tier that sorts after it by name.
func (h *c03Hist) tierPositionMatters(name string) bool {
	check := func(own map[string]string, ids []string) bool {
		eff, _, _ := c03EffectiveLabels(h.valid, own, ids)
		exp, _ := c03Expected(h.t, h.valid, eff)
		if exp[name] == nil {
			return false
		}
		for n, te := range exp {
			if te.present && n > name && h.valid.tiers[n].Order == nil {
				return true
			}
		}
		return false
	}
	for _, k := range c03WepKeys {
		if e, ok := h.valid.weps[k]; ok && k.Hostname == c03LocalHost && check(c03OwnLabels(e.Labels), e.ProfileIDs) {
			return true
		}
	}
	for _, k := range c03HepKeys {
		if e, ok := h.valid.heps[k]; ok && k.Hostname == c03LocalHost && check(c03OwnLabels(e.Labels), e.ProfileIDs) {
			return true
		}
	}
	return false
}

// restorable: keys that hold no value now and held a valid one when last deleted.
func (h *c03Hist) restorable(preferTier bool) []model.Key {
	var all, tiers []model.Key
	add := func(k model.Key) {
		ks := c03KeyString(k)
		if _, ok := h.lastDeleted[ks]; ok && !h.raw[ks] {
			all = append(all, k)
			if _, isTier := k.(model.TierKey); isTier {
				tiers = append(tiers, k)
			}
		}
	}
	for _, n := range c03TierNames {
		add(model.TierKey{Name: n})
	}
	for _, k := range h.world.polKeys {
		add(k)
	}
	for _, n := range c03ProfileIDs {
		add(c03ProfileResKey(n))
		add(c03ProfileRulesKey(n))
	}
	for _, k := range c03WepKeys {
		add(k)
	}
	for _, k := range c03HepKeys {
		add(k)
	}
	if preferTier && len(tiers) > 0 {
		return tiers
	}
	return all
}

// rawPresentKeys: keys the syncer holds a value for (valid or not), deterministic order.
func (h *c03Hist) rawPresentKeys() []model.Key {
	var ks []model.Key
	add := func(k model.Key) {
		if h.raw[c03KeyString(k)] {
			ks = append(ks, k)
		}
	}
	for _, n := range c03TierNames {
		add(model.TierKey{Name: n})
	}
	for _, k := range h.world.polKeys {
		add(k)
	}
	for _, n := range c03ProfileIDs {
		add(c03ProfileResKey(n))
		add(c03ProfileRulesKey(n))
	}
	for _, k := range c03WepKeys {
		add(k)
	}
	for _, k := range c03HepKeys {
		add(k)
	}
	return ks
}

// record applies a step to the models and returns the update as the syncer would deliver it to
// the graph under test (A) and the equivalent "invalid means absent" delivery (B): nothing if the
// key holds no valid value, else a delete.  For valid steps A and B deliveries are the same
// value.
func (h *c03Hist) record(s c03Step) (a api.Update, b *api.Update) {
	ks := c03KeyString(s.key)
	rawHad := h.raw[ks]
	validHad := h.valid.has(s.key)
	// Every KV version gets its own non-empty revision; a redelivery re-uses the current one.
	rev := h.rawVal[ks].rev
	if !s.redeliver {
		h.revSeq++
		rev = fmt.Sprintf("%d", 1000+h.revSeq)
	}
	mk := func(val any, had bool) api.Update {
		ut := api.UpdateTypeKVNew
		if val == nil {
			ut = api.UpdateTypeKVDeleted
		} else if had && !s.newType {
			ut = api.UpdateTypeKVUpdated
		}
		return api.Update{KVPair: model.KVPair{Key: s.key, Value: val, Revision: rev}, UpdateType: ut}
	}
	a = mk(s.val, rawHad)
	switch {
	case s.redeliver:
		// Nothing changes in either model.  The "invalid means absent" graph sees the valid
		// value again, and no event at all for an invalid one.
		if s.ok {
			u := mk(s.val, validHad)
			b = &u
			h.validRedelivered++
		} else {
			h.invalidRedelivered++
		}
	case s.val == nil:
		if validHad {
			u := mk(nil, true)
			b = &u
			h.lastDeleted[ks] = h.valid.get(s.key)
		}
		delete(h.raw, ks)
		delete(h.rawVal, ks)
		h.valid.apply(s.key, nil)
	case s.ok:
		u := mk(s.val, validHad)
		b = &u
		h.raw[ks] = true
		h.rawVal[ks] = c03RawVal{val: s.val, ok: true, rev: rev}
		h.valid.apply(s.key, s.val)
	default: // invalid value
		h.nInvalid++
		if validHad {
			h.invalidAfterValid = true
			u := mk(nil, true)
			b = &u
		}
		h.raw[ks] = true
		h.rawVal[ks] = c03RawVal{val: s.val, ok: false, rev: rev}
		h.valid.apply(s.key, nil)
	}
	h.log = append(h.log, s.desc)
	h.kinds = append(h.kinds, s.kind)
	return
}

// genBatch draws n steps, applying each to the models as it is drawn, and returns the batch for
// the graph under test (as) and the "invalid means absent" batch (bs).
func (h *c03Hist) genBatch(n int, weights []string, pInvalid int) (as, bs []api.Update) {
	for i := 0; i < n; i++ {
		a, b := h.record(h.genStep(weights, pInvalid))
		as = append(as, a)
		if b != nil {
			bs = append(bs, *b)
		}
	}
	return
}

func c03SortedJoin(ss []string) string {
	cp := append([]string{}, ss...)
	sort.Strings(cp)
	return strings.Join(cp, ",")
}

func (h *c03Hist) history() string {
	var b strings.Builder
	for i, l := range h.log {
		fmt.Fprintf(&b, "  %2d. %s\n", i+1, l)
	}
	return b.String()
}
