package cachingmap_test

// C18 (cachingmap layer) — a CachingMap over a fault-injecting dataplane map: after any
// sequence of desired changes, out-of-band dataplane changes, cache loads and Apply calls
// with failures, the cached dataplane view equals what the harness knows the map saw
// succeed, and after an Apply that returned nil the real map equals the desired state.

import (
	"errors"
	"fmt"
	"strings"
	"testing"

	"pgregory.net/rapid"

	"github.com/projectcalico/calico/felix/cachingmap"
	"github.com/projectcalico/calico/verifkit/ev"
)

var errC18NotExist = errors.New("not exists")

type c18Map struct {
	kv        map[int]string
	failPlan  []bool // consumed one per write op; true = fail
	loadFails int
	batched   bool
	writes    int
	failed    int
}

func (m *c18Map) next() bool {
	if len(m.failPlan) == 0 {
		return false
	}
	f := m.failPlan[0]
	m.failPlan = m.failPlan[1:]
	return f
}
func (m *c18Map) Update(k int, v string) error {
	if m.next() {
		m.failed++
		return errors.New("injected update failure")
	}
	m.kv[k] = v
	m.writes++
	return nil
}
func (m *c18Map) Get(k int) (string, error) {
	v, ok := m.kv[k]
	if !ok {
		return "", errC18NotExist
	}
	return v, nil
}
func (m *c18Map) Delete(k int) error {
	if m.next() {
		m.failed++
		return errors.New("injected delete failure")
	}
	if _, ok := m.kv[k]; !ok {
		return errC18NotExist
	}
	delete(m.kv, k)
	m.writes++
	return nil
}
func (m *c18Map) Load() (map[int]string, error) {
	if m.loadFails > 0 {
		m.loadFails--
		return nil, errors.New("injected load failure")
	}
	cp := map[int]string{}
	for k, v := range m.kv {
		cp[k] = v
	}
	return cp, nil
}
func (m *c18Map) ErrIsNotExists(err error) bool { return errors.Is(err, errC18NotExist) }

type c18BatchMap struct{ *c18Map }

func (m c18BatchMap) BatchUpdate(ks []int, vs []string) (int, error) {
	for i := range ks {
		if err := m.Update(ks[i], vs[i]); err != nil {
			return i, err
		}
	}
	return len(ks), nil
}
func (m c18BatchMap) BatchDelete(ks []int) (int, error) {
	for i := range ks {
		if err := m.Delete(ks[i]); err != nil {
			return i, err
		}
	}
	return len(ks), nil
}

func TestVerifC18CachingMap(t *testing.T) {
	ev.Quiet()
	rec := ev.New("C18", "cachingmap",
		"rapid state machine over cachingmap.New(map double with per-write fault plan, batched and unbatched): desired set/delete/deleteAll, out-of-band map edits followed by LoadCacheFromDataplane, ApplyAllChanges/UpdatesOnly/DeletionsOnly with injected failures and missing keys. Non-trivial = an Apply saw >=1 injected failure and a later Apply succeeded; distinct = op-kind sequence")
	defer rec.Write()
	rapid.Check(t, func(t *rapid.T) {
		base := &c18Map{kv: map[int]string{}}
		n0 := rapid.IntRange(0, 4).Draw(t, "initialKeys")
		for i := 0; i < n0; i++ {
			base.kv[rapid.IntRange(0, 5).Draw(t, "k0")] = rapid.SampledFrom([]string{"a", "b", "c"}).Draw(t, "v0")
		}
		batched := rapid.Bool().Draw(t, "batched")
		var cm *cachingmap.CachingMap[int, string]
		if batched {
			cm = cachingmap.New[int, string]("verif", c18BatchMap{base})
		} else {
			cm = cachingmap.New[int, string]("verif", base)
		}
		des := map[int]string{}
		cacheStale := false // out-of-band edit not yet reloaded
		sawFailure, okAfterFailure := false, false
		var ops []string
		t.Repeat(map[string]func(*rapid.T){
			"set": func(t *rapid.T) {
				k := rapid.IntRange(0, 5).Draw(t, "k")
				v := rapid.SampledFrom([]string{"a", "b", "c"}).Draw(t, "v")
				cm.Desired().Set(k, v)
				des[k] = v
				ops = append(ops, "S")
			},
			"del": func(t *rapid.T) {
				k := rapid.IntRange(0, 5).Draw(t, "k")
				cm.Desired().Delete(k)
				delete(des, k)
				ops = append(ops, "D")
			},
			"delAll": func(t *rapid.T) {
				cm.Desired().DeleteAll()
				des = map[int]string{}
				ops = append(ops, "X")
			},
			"oobEditThenLoad": func(t *rapid.T) {
				k := rapid.IntRange(0, 5).Draw(t, "k")
				if rapid.Bool().Draw(t, "oobDelete") {
					delete(base.kv, k)
				} else {
					base.kv[k] = rapid.SampledFrom([]string{"a", "b", "z"}).Draw(t, "v")
				}
				base.loadFails = rapid.IntRange(0, 1).Draw(t, "loadFails")
				err := cm.LoadCacheFromDataplane()
				if base.loadFails == 0 && err != nil && !cacheStale {
					// loadFails was consumed => err expected; otherwise not
				}
				if err != nil {
					cacheStale = true
					// retry must succeed
					if err2 := cm.LoadCacheFromDataplane(); err2 != nil {
						t.Fatalf("second load failed: %v", err2)
					}
				}
				cacheStale = false
				ops = append(ops, "O")
			},
			"apply": func(t *rapid.T) {
				base.failPlan = rapid.SliceOfN(rapid.Bool(), 0, 8).Draw(t, "failPlan")
				base.loadFails = rapid.IntRange(0, 1).Draw(t, "loadFails")
				mode := rapid.IntRange(0, 2).Draw(t, "mode")
				failedBefore := base.failed
				var err error
				switch mode {
				case 0:
					err = cm.ApplyAllChanges()
				case 1:
					err = cm.ApplyUpdatesOnly()
				case 2:
					err = cm.ApplyDeletionsOnly()
				}
				base.failPlan = nil
				base.loadFails = 0
				injected := base.failed > failedBefore
				if injected {
					sawFailure = true
					if err == nil {
						t.Fatalf("Apply hid %d injected write failures", base.failed-failedBefore)
					}
				}
				if err == nil {
					if sawFailure {
						okAfterFailure = true
					}
					// after success the real map agrees with desired for the part applied
					for k, v := range des {
						if mode != 2 && base.kv[k] != v {
							t.Fatalf("after successful apply(mode %d) map[%d]=%q desired %q", mode, k, base.kv[k], v)
						}
					}
					if mode != 1 {
						for k := range base.kv {
							if _, ok := des[k]; !ok {
								t.Fatalf("after successful apply(mode %d) map still has undesired key %d", mode, k)
							}
						}
					}
				}
				ops = append(ops, fmt.Sprintf("A%d%v", mode, err != nil))
			},
			"": func(t *rapid.T) {
				// Desired view == model.
				got := map[int]string{}
				cm.Desired().Iter(func(k int, v string) { got[k] = v })
				if fmt.Sprint(got) != fmt.Sprint(des) {
					t.Fatalf("Desired view %v model %v", got, des)
				}
				// Once the cache was loaded, the cached dataplane view must equal the real map
				// (all writes go through the cache; failures must not be recorded as applied).
				gotDP := map[int]string{}
				cm.Dataplane().Iter(func(k int, v string) { gotDP[k] = v })
				if len(gotDP) > 0 || len(ops) > 0 && strings.ContainsAny(strings.Join(ops, ""), "OA") {
					loaded := false
					for _, o := range ops {
						if o == "O" || (strings.HasPrefix(o, "A") && !strings.HasSuffix(o, "true")) {
							loaded = true
						}
					}
					if loaded && fmt.Sprint(gotDP) != fmt.Sprint(base.kv) {
						t.Fatalf("cached dataplane view %v but real map %v (ops %v)", gotDP, base.kv, ops)
					}
				}
			},
		})
		key := strings.Join(ops, "")
		rec.SizedCase(sawFailure && okAfterFailure, key, len(ops), func() any {
			return map[string]any{"ops": key, "batched": batched}
		})
	})
}
