package cachingmap_test

// C18 (cachingmap layer) — a CachingMap over a fault-injecting dataplane map: after any
// sequence of desired changes, out-of-band dataplane changes, cache loads and Apply calls
// with failures, the cached dataplane view equals what the harness knows the map saw
// succeed, and after an Apply that returned nil the real map equals the desired state.
//
// The real map can also lose keys behind the cache's back (kernel expiry, LRU eviction, another
// writer) without a reload; the harness only takes keys that are not desired at that moment (a lost
// desired key is the caller's responsibility, see the Dataplane() doc comment).  The cache then
// legitimately still believes in the key until it touches it: the Delete of such a key returns the
// map's not-exists error (batched and unbatched maps), and from then on the cached view must again
// equal the real map - also when the key is re-added later with the value the cache remembered.

import (
	"errors"
	"fmt"
	"strings"
	"testing"

	"pgregory.net/rapid"

	"github.com/projectcalico/calico/felix/cachingmap"
	"github.com/projectcalico/calico/verifkit/ev"
)

var errC18NotExist = errors.New("not exists")

type c18Map struct {
	kv        map[int]string
	failPlan  []bool // consumed one per write op; true = fail
	loadFails int
	batched   bool
	writes    int
	failed    int
	// stale: keys that vanished from kv behind the cache's back, with the value the cache still
	// remembers; an entry is dropped as soon as the cache had the chance to learn the truth (a
	// Delete that answered not-exists, a successful Update, a Load).
	stale map[int]string
	// learned: lost keys for which Delete answered not-exists (value the cache used to hold).
	learned        map[int]string
	notExistDelete int
}

func (m *c18Map) next() bool {
	if len(m.failPlan) == 0 {
		return false
	}
	f := m.failPlan[0]
	m.failPlan = m.failPlan[1:]
	return f
}
func (m *c18Map) Update(k int, v string) error {
	if m.next() {
		m.failed++
		return errors.New("injected update failure")
	}
	m.kv[k] = v
	delete(m.stale, k)
	m.writes++
	return nil
}
func (m *c18Map) Get(k int) (string, error) {
	v, ok := m.kv[k]
	if !ok {
		return "", errC18NotExist
	}
	return v, nil
}
func (m *c18Map) Delete(k int) error {
	if m.next() {
		m.failed++
		return errors.New("injected delete failure")
	}
	if _, ok := m.kv[k]; !ok {
		if old, wasStale := m.stale[k]; wasStale {
			delete(m.stale, k)
			m.learned[k] = old
		}
		m.notExistDelete++
		return errC18NotExist
	}
	delete(m.kv, k)
	m.writes++
	return nil
}
func (m *c18Map) Load() (map[int]string, error) {
	if m.loadFails > 0 {
		m.loadFails--
		return nil, errors.New("injected load failure")
	}
	cp := map[int]string{}
	for k, v := range m.kv {
		cp[k] = v
	}
	m.stale = map[int]string{}
	return cp, nil
}
func (m *c18Map) ErrIsNotExists(err error) bool { return errors.Is(err, errC18NotExist) }

type c18BatchMap struct{ *c18Map }

func (m c18BatchMap) BatchUpdate(ks []int, vs []string) (int, error) {
	for i := range ks {
		if err := m.Update(ks[i], vs[i]); err != nil {
			return i, err
		}
	}
	return len(ks), nil
}
func (m c18BatchMap) BatchDelete(ks []int) (int, error) {
	for i := range ks {
		if err := m.Delete(ks[i]); err != nil {
			return i, err
		}
	}
	return len(ks), nil
}

func TestVerifC18CachingMap(t *testing.T) {
	ev.Quiet()
	rec := ev.New("C18", "cachingmap",
		"rapid state machine over cachingmap.New(map double with per-write fault plan, batched and unbatched): desired set/delete/deleteAll, out-of-band map edits followed by LoadCacheFromDataplane, ApplyAllChanges/UpdatesOnly/DeletionsOnly with injected failures and missing keys; undesired keys lost from the real map behind the cache's back (no reload) so that their Delete answers the map's not-exists error, and lost keys re-added with the value the cache used to hold. Non-trivial = an Apply saw >=1 injected failure and a later Apply succeeded, or the Delete of a lost key answered not-exists; distinct = op-kind sequence",
		"only keys that are not desired are lost behind the cache's back (keeping desired keys in sync after out-of-band changes is documented as the caller's responsibility)")
	defer rec.Write()
	rapid.Check(t, func(t *rapid.T) {
		base := &c18Map{kv: map[int]string{}, stale: map[int]string{}, learned: map[int]string{}}
		n0 := rapid.IntRange(0, 4).Draw(t, "initialKeys")
		for i := 0; i < n0; i++ {
			base.kv[rapid.IntRange(0, 5).Draw(t, "k0")] = rapid.SampledFrom([]string{"a", "b", "c"}).Draw(t, "v0")
		}
		batched := rapid.Bool().Draw(t, "batched")
		var cm *cachingmap.CachingMap[int, string]
		if batched {
			cm = cachingmap.New[int, string]("verif", c18BatchMap{base})
		} else {
			cm = cachingmap.New[int, string]("verif", base)
		}
		des := map[int]string{}
		cacheStale := false // out-of-band edit not yet reloaded
		sawFailure, okAfterFailure := false, false
		var ops []string
		// cacheKnownLoaded: the harness knows that the cache was loaded (explicit load or an Apply
		// that returned nil); only then can a key be "lost behind the cache's back".
		cacheKnownLoaded := false
		lostKeys, lostDeleted, readdPending, readdApplied, staleReadd := 0, 0, map[int]bool{}, false, false
		sortedKeys := func(m map[int]string) []int {
			var ks []int
			for k := 0; k <= 5; k++ {
				if _, ok := m[k]; ok {
					ks = append(ks, k)
				}
			}
			return ks
		}
		t.Repeat(map[string]func(*rapid.T){
			"set": func(t *rapid.T) {
				k := rapid.IntRange(0, 5).Draw(t, "k")
				v := rapid.SampledFrom([]string{"a", "b", "c"}).Draw(t, "v")
				cm.Desired().Set(k, v)
				des[k] = v
				if old, ok := base.learned[k]; ok && old == v {
					readdPending[k] = true
				}
				ops = append(ops, "S")
			},
			"readdLostKey": func(t *rapid.T) {
				// Make a key desired again that was lost from the real map and whose deletion
				// answered not-exists - with the value the cache used to hold for it.
				ks := sortedKeys(base.learned)
				if len(ks) == 0 {
					t.Skip("no lost key yet")
				}
				k := rapid.SampledFrom(ks).Draw(t, "lostKey")
				v := base.learned[k]
				cm.Desired().Set(k, v)
				des[k] = v
				readdPending[k] = true
				ops = append(ops, "R")
			},
			"loseBehindCache": func(t *rapid.T) {
				// The real map loses keys that are not desired (pending deletion), without a reload.
				if !cacheKnownLoaded {
					t.Skip("cache not known to be loaded")
				}
				var cands []int
				for _, k := range sortedKeys(base.kv) {
					if _, desired := des[k]; !desired {
						cands = append(cands, k)
					}
				}
				if len(cands) == 0 {
					t.Skip("no undesired key in the map")
				}
				n := rapid.IntRange(1, 2).Draw(t, "nLost")
				for i := 0; i < n && len(cands) > 0; i++ {
					j := rapid.IntRange(0, len(cands)-1).Draw(t, "lostIdx")
					k := cands[j]
					cands = append(cands[:j], cands[j+1:]...)
					base.stale[k] = base.kv[k]
					delete(base.kv, k)
					lostKeys++
				}
				ops = append(ops, "L")
			},
			"del": func(t *rapid.T) {
				k := rapid.IntRange(0, 5).Draw(t, "k")
				cm.Desired().Delete(k)
				delete(des, k)
				ops = append(ops, "D")
			},
			"delAll": func(t *rapid.T) {
				cm.Desired().DeleteAll()
				des = map[int]string{}
				ops = append(ops, "X")
			},
			"oobEditThenLoad": func(t *rapid.T) {
				k := rapid.IntRange(0, 5).Draw(t, "k")
				if rapid.Bool().Draw(t, "oobDelete") {
					delete(base.kv, k)
				} else {
					base.kv[k] = rapid.SampledFrom([]string{"a", "b", "z"}).Draw(t, "v")
				}
				base.loadFails = rapid.IntRange(0, 1).Draw(t, "loadFails")
				err := cm.LoadCacheFromDataplane()
				if base.loadFails == 0 && err != nil && !cacheStale {
					// loadFails was consumed => err expected; otherwise not
				}
				if err != nil {
					cacheStale = true
					// retry must succeed
					if err2 := cm.LoadCacheFromDataplane(); err2 != nil {
						t.Fatalf("second load failed: %v", err2)
					}
				}
				cacheStale = false
				cacheKnownLoaded = true
				ops = append(ops, "O")
			},
			"apply": func(t *rapid.T) {
				base.failPlan = rapid.SliceOfN(rapid.Bool(), 0, 8).Draw(t, "failPlan")
				base.loadFails = rapid.IntRange(0, 1).Draw(t, "loadFails")
				mode := rapid.IntRange(0, 2).Draw(t, "mode")
				failedBefore := base.failed
				notExistBefore := base.notExistDelete
				var err error
				switch mode {
				case 0:
					err = cm.ApplyAllChanges()
				case 1:
					err = cm.ApplyUpdatesOnly()
				case 2:
					err = cm.ApplyDeletionsOnly()
				}
				base.failPlan = nil
				base.loadFails = 0
				injected := base.failed > failedBefore
				if injected {
					sawFailure = true
					if err == nil {
						t.Fatalf("Apply hid %d injected write failures", base.failed-failedBefore)
					}
				}
				if base.notExistDelete > notExistBefore && len(base.learned) > 0 {
					lostDeleted++
				}
				if err == nil {
					cacheKnownLoaded = true
					if sawFailure {
						okAfterFailure = true
					}
					// after success the real map agrees with desired for the part applied
					for k, v := range des {
						if rem, stillStale := base.stale[k]; stillStale {
							// Lost behind the cache's back and made desired again before the cache
							// touched it: only possible with the remembered value (no pending
							// operation) - the caller's responsibility, not asserted.
							if mode == 0 && rem != v {
								t.Fatalf("after successful ApplyAllChanges key %d (desired %q, cache remembered %q, lost from the real map) was never written", k, v, rem)
							}
							staleReadd = true
							continue
						}
						if mode != 2 && base.kv[k] != v {
							t.Fatalf("after successful apply(mode %d) map[%d]=%q desired %q (real map %v, desired %v, ops %v)", mode, k, base.kv[k], v, base.kv, des, ops)
						}
						if mode != 2 && readdPending[k] {
							readdApplied = true
						}
					}
					if mode != 2 {
						readdPending = map[int]bool{}
					}
					if mode != 1 {
						for k := range base.kv {
							if _, ok := des[k]; !ok {
								t.Fatalf("after successful apply(mode %d) map still has undesired key %d", mode, k)
							}
						}
					}
				}
				ops = append(ops, fmt.Sprintf("A%d%v", mode, err != nil))
			},
			"": func(t *rapid.T) {
				// Desired view == model.
				got := map[int]string{}
				cm.Desired().Iter(func(k int, v string) { got[k] = v })
				if fmt.Sprint(got) != fmt.Sprint(des) {
					t.Fatalf("Desired view %v model %v", got, des)
				}
				// Once the cache was loaded, the cached dataplane view must equal the real map
				// (all writes go through the cache; failures must not be recorded as applied).
				gotDP := map[int]string{}
				cm.Dataplane().Iter(func(k int, v string) { gotDP[k] = v })
				if len(gotDP) > 0 || len(ops) > 0 && strings.ContainsAny(strings.Join(ops, ""), "OA") {
					loaded := false
					for _, o := range ops {
						if o == "O" || (strings.HasPrefix(o, "A") && !strings.HasSuffix(o, "true")) {
							loaded = true
						}
					}
					// What the cache may believe: the real map, plus the keys that vanished behind
					// its back and that it has not touched since.
					expect := map[int]string{}
					for k, v := range base.kv {
						expect[k] = v
					}
					for k, v := range base.stale {
						expect[k] = v
					}
					if loaded && fmt.Sprint(gotDP) != fmt.Sprint(expect) {
						t.Fatalf("cached dataplane view %v but real map %v (keys lost behind the cache's back and not yet touched: %v; lost keys whose Delete answered not-exists: %v; desired %v; ops %v)",
							gotDP, base.kv, base.stale, base.learned, des, ops)
					}
				}
			},
		})
		key := strings.Join(ops, "")
		var classes []string
		if batched {
			classes = append(classes, "batched-map")
		} else {
			classes = append(classes, "unbatched-map")
		}
		if lostKeys > 0 {
			classes = append(classes, "key-lost-behind-cache")
		}
		if lostDeleted > 0 {
			classes = append(classes, "delete-of-lost-key-answers-not-exists")
			if batched {
				classes = append(classes, "delete-of-lost-key-answers-not-exists(batched)")
			} else {
				classes = append(classes, "delete-of-lost-key-answers-not-exists(unbatched)")
			}
		}
		if readdApplied {
			classes = append(classes, "lost-key-readded-with-old-value-and-applied")
		}
		if staleReadd {
			classes = append(classes, "lost-key-readded-before-cache-touched-it(not-asserted)")
		}
		rec.SizedCase((sawFailure && okAfterFailure) || lostDeleted > 0, key, len(ops), func() any {
			return map[string]any{"ops": key, "batched": batched}
		}, classes...)
	})
}

// TestVerifC18LostKeyDeleteIsLearned: deterministic companion of the generated search.  A key that
// is pending deletion vanishes from the real map; its Delete answers the map's not-exists error.
// After ApplyAllChanges returned nil the cached view must equal the real map, and re-adding the key
// with the value the cache used to hold must reach the real map.
func TestVerifC18LostKeyDeleteIsLearned(t *testing.T) {
	ev.Quiet()
	for _, batched := range []bool{false, true} {
		base := &c18Map{kv: map[int]string{1: "a", 2: "b"}, stale: map[int]string{}, learned: map[int]string{}}
		var cm *cachingmap.CachingMap[int, string]
		if batched {
			cm = cachingmap.New[int, string]("verif", c18BatchMap{base})
		} else {
			cm = cachingmap.New[int, string]("verif", base)
		}
		cm.Desired().Set(1, "a")
		if err := cm.LoadCacheFromDataplane(); err != nil {
			t.Fatal(err)
		}
		delete(base.kv, 2) // expires behind the cache's back while pending deletion
		if err := cm.ApplyAllChanges(); err != nil {
			t.Fatalf("batched=%v: ApplyAllChanges: %v", batched, err)
		}
		view := map[int]string{}
		cm.Dataplane().Iter(func(k int, v string) { view[k] = v })
		if fmt.Sprint(view) != fmt.Sprint(base.kv) {
			t.Fatalf("batched=%v: after ApplyAllChanges returned nil the cached view is %v but the real map is %v", batched, view, base.kv)
		}
		cm.Desired().Set(2, "b")
		if err := cm.ApplyAllChanges(); err != nil {
			t.Fatalf("batched=%v: ApplyAllChanges: %v", batched, err)
		}
		if base.kv[2] != "b" {
			t.Fatalf("batched=%v: key 2 re-added with its old value never reached the real map: %v", batched, base.kv)
		}
	}
}
