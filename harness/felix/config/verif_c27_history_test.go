package config_test

// C27, histories — the effective configuration depends only on the *current* assignment of values
// to sources, not on how a long-lived Config object got there.
//
// Felix keeps long-lived Config objects: the calculation graph's copy is updated by UpdateFrom
// whenever a datastore source changes (global, per-selector, per-node: each call replaces that
// source's whole content, an empty map when the resource was deleted), and the dataplane
// connector's copy is updated only by ConfigUpdate messages produced by ToConfigUpdate on the
// first and applied by UpdateFromConfigUpdate.  Oracle, after every step of a generated history
// (sources emptied, refilled, partially changed): both long-lived objects equal a fresh Config
// resolved from the final state only, a fresh Config built from the last message alone, and —
// for the table parameters — the statement's direct rule (highest-priority source that currently
// sets the parameter; default when none does).

import (
	"fmt"
	"reflect"
	"sort"
	"strings"
	"testing"

	googleproto "google.golang.org/protobuf/proto"
	"pgregory.net/rapid"

	"github.com/projectcalico/calico/felix/config"
	"github.com/projectcalico/calico/felix/proto"
	"github.com/projectcalico/calico/verifkit/ev"
)

type c27HEntry struct {
	c27Entry
	Want any
	Cls  c27Class
}

type c27HState [c27NumSrc][]c27HEntry

func (st c27HState) maps(s c27Src) map[string]string {
	m := map[string]string{}
	for _, e := range st[s] {
		m[e.Key] = e.Raw
	}
	return m
}

func (st c27HState) dump() string {
	var a c27Assign
	for s := range st {
		for _, e := range st[s] {
			a[s] = append(a[s], e.c27Entry)
		}
	}
	d := c27Dump(a)
	if d == "" {
		return "  (no source sets anything)\n"
	}
	return d
}

// c27HDrawSource draws the content of one source: a subset of the case's parameters, each with a
// non-fatal raw value (after start-up Felix treats a fatal datastore value as a bug and exits, so
// long-lived objects never see one).
func c27HDrawSource(t *rapid.T, s c27Src, params []string, infos map[string]c27Info, label string) []c27HEntry {
	var out []c27HEntry
	for _, n := range params {
		if rapid.IntRange(0, 2).Draw(t, label+"-sets") == 0 {
			continue
		}
		info := infos[n]
		raw, want, cls := c27DrawRaw(t, info, label+"-raw")
		if info.fatal(cls) {
			v := info.Tab.Valid[0]
			raw, want, cls = v.Raw, v.Want, c27ClsValid
		}
		out = append(out, c27HEntry{c27Entry{Param: n, Key: c27VaryCase(t, n, label+"-key"), Raw: raw}, want, cls})
	}
	return out
}

// c27HModel: expected canonical value of every table parameter in the case.
func c27HModel(st c27HState, params []string, infos map[string]c27Info, defaults map[string]string) map[string]string {
	out := map[string]string{}
	for _, n := range params {
		out[n] = defaults[n]
		found := false
		for s := c27Src(0); s < c27NumSrc && !found; s++ {
			if infos[n].Local && s.datastore() {
				continue
			}
			for _, e := range st[s] {
				if e.Param != n {
					continue
				}
				found = true
				switch e.Cls {
				case c27ClsNone:
					f, _ := reflect.TypeOf(config.Config{}).FieldByName(n)
					out[n] = c27Canon(reflect.Zero(f.Type).Interface())
				case c27ClsValid:
					out[n] = c27Canon(e.Want)
				}
			}
		}
	}
	return out
}

func c27HDiff(a, b map[string]string) string {
	for _, n := range c27FieldNames {
		if a[n] != b[n] {
			return fmt.Sprintf("%s: %s vs %s", n, a[n], b[n])
		}
	}
	return ""
}

func TestVerifC27History(t *testing.T) {
	ev.Quiet()
	infos := c27CheckTable(t)
	defaults := c27Fields(config.New())
	rec := ev.New("C27", "history",
		"2-4 table parameters; start-up state over all six sources, then 2-5 steps each replacing the content of some of the three datastore sources (emptied / refilled / changed), applied to the calculation graph's long-lived Config by UpdateFrom and forwarded to the dataplane connector's long-lived Config (one started as a Copy of the start-up Config, one started empty) by ToConfigUpdate -> wire encoding -> UpdateFromConfigUpdate; non-trivial = some source goes from non-empty to empty while a lower-priority source still sets one of its parameters; distinct = per-step (source, size) shape",
		"only non-fatal values (Felix exits on a fatal datastore value after start-up)",
		"local sources (environment, file, internal override) are loaded once at start-up, as in the daemon")
	defer rec.Write()

	rapid.Check(t, func(t *rapid.T) {
		// parameters: non-local table parameters mostly (datastore values for local ones are ignored anyway)
		nPar := rapid.IntRange(2, 4).Draw(t, "nParams")
		seen := map[string]bool{}
		var params []string
		for len(params) < nPar {
			n := c27Table[rapid.IntRange(0, len(c27Table)-1).Draw(t, "param")].Name
			if !seen[n] {
				seen[n] = true
				params = append(params, n)
			}
		}
		var st c27HState
		for s := c27Src(0); s < c27NumSrc; s++ {
			if !s.datastore() && rapid.IntRange(0, 1).Draw(t, "localSourceUsed") == 0 {
				continue
			}
			st[s] = c27HDrawSource(t, s, params, infos, "start-"+c27SrcName[s])
		}
		// start-up: one Config loaded from every source, then copied to its users (daemon.go)
		boot := config.New()
		for _, s := range []c27Src{c27Env, c27File, c27Global, c27PerSelector, c27PerHost, c27Internal} {
			if _, err := boot.UpdateFrom(st.maps(s), s.real()); err != nil {
				t.Fatalf("start-up UpdateFrom(%s) failed on non-fatal values: %v\n%s", c27SrcName[s], err, st.dump())
			}
		}
		calcCfg := boot.Copy()
		dpCopy := boot.Copy()
		dpEmpty := config.New()

		var shape []string
		classes := map[string]bool{}
		nontrivial := false
		check := func(step int, history string, last bool) {
			want := c27HModel(st, params, infos, defaults)
			fresh := config.New()
			for _, s := range []c27Src{c27Internal, c27Env, c27File, c27PerHost, c27PerSelector, c27Global} {
				if len(st[s]) == 0 {
					continue // a source that sets nothing
				}
				if _, err := fresh.UpdateFrom(st.maps(s), s.real()); err != nil {
					t.Fatalf("fresh UpdateFrom failed: %v", err)
				}
			}
			msg := calcCfg.ToConfigUpdate()
			bs, err := googleproto.Marshal(msg)
			if err != nil {
				t.Fatalf("marshal ConfigUpdate: %v", err)
			}
			objs := map[string]*config.Config{"calc-graph Config (UpdateFrom history)": calcCfg, "fresh Config resolved from the final state": fresh}
			for name, c := range map[string]*config.Config{
				"connector Config (Copy of start-up Config + ConfigUpdate history)": dpCopy,
				"connector Config (empty + ConfigUpdate history)":                   dpEmpty,
				"fresh Config built from the last ConfigUpdate alone":               config.New(),
			} {
				var rcvd proto.ConfigUpdate
				if err := googleproto.Unmarshal(bs, &rcvd); err != nil {
					t.Fatalf("unmarshal ConfigUpdate: %v", err)
				}
				if _, err := c.UpdateFromConfigUpdate(&rcvd); err != nil {
					t.Fatalf("UpdateFromConfigUpdate failed on %s: %v\nhistory:\n%s", name, err, history)
				}
				objs[name] = c
			}
			names := make([]string, 0, len(objs))
			for n := range objs {
				names = append(names, n)
			}
			sort.Strings(names)
			// every tagged field at the last step, the case's parameters at every step
			fieldsOf := func(c *config.Config) map[string]string {
				if last {
					return c27Fields(c)
				}
				out := map[string]string{}
				rv := reflect.ValueOf(c).Elem()
				for _, p := range params {
					out[p] = c27Canon(rv.FieldByName(p).Interface())
				}
				return out
			}
			ref := fieldsOf(fresh)
			for _, n := range names {
				got := fieldsOf(objs[n])
				for _, p := range params {
					if got[p] != want[p] {
						t.Fatalf("step %d: %s has %s = %s, but the highest-priority source that currently sets it gives %s\ncurrent state:\n%shistory:\n%s",
							step, n, p, got[p], want[p], st.dump(), history)
					}
				}
				if d := c27HDiff(got, ref); d != "" {
					t.Fatalf("step %d: %s differs from a fresh Config resolved from the same final state: %s\ncurrent state:\n%shistory:\n%s",
						step, n, d, st.dump(), history)
				}
			}
		}
		history := "start-up:\n" + st.dump()
		check(0, history, false)

		nSteps := rapid.IntRange(2, 5).Draw(t, "nSteps")
		for step := 1; step <= nSteps; step++ {
			var stepShape []string
			for _, s := range []c27Src{c27Global, c27PerSelector, c27PerHost} {
				var next []c27HEntry
				switch rapid.IntRange(0, 3).Draw(t, "change-"+c27SrcName[s]) {
				case 0:
					continue // unchanged
				case 1:
					next = nil // resource deleted / all fields unset
				default:
					next = c27HDrawSource(t, s, params, infos, "step-"+c27SrcName[s])
				}
				if len(st[s]) > 0 && len(next) == 0 {
					classes["source-emptied"] = true
					// does a lower-priority source still set one of the parameters it used to set?
					for _, e := range st[s] {
						for lower := s + 1; lower < c27NumSrc; lower++ {
							for _, le := range st[lower] {
								if le.Param == e.Param && !infos[e.Param].Local {
									classes["emptied-source-uncovers-lower-value"] = true
									nontrivial = true
								}
							}
						}
					}
				}
				if len(st[s]) == 0 && len(next) > 0 {
					classes["source-refilled"] = true
				}
				st[s] = next
				stepShape = append(stepShape, fmt.Sprintf("%s%d", c27SrcName[s][:4], len(next)))
			}
			// the event sequencer applies all three datastore sources on every flush
			for _, s := range []c27Src{c27Global, c27PerSelector, c27PerHost} {
				if _, err := calcCfg.UpdateFrom(st.maps(s), s.real()); err != nil {
					t.Fatalf("UpdateFrom(%s) failed on non-fatal values: %v\n%s", c27SrcName[s], err, st.dump())
				}
			}
			history += fmt.Sprintf("step %d:\n%s", step, st.dump())
			shape = append(shape, strings.Join(stepShape, "+"))
			check(step, history, step == nSteps)
		}
		var cl []string
		for c := range classes {
			cl = append(cl, c)
		}
		sort.Strings(cl)
		rec.SizedCase(nontrivial, strings.Join(shape, "/"), nSteps, func() any {
			return map[string]any{"history": strings.Split(strings.TrimSpace(history), "\n")}
		}, cl...)
	})
}

// TestVerifC27Copies — several Config objects derived from one another by Copy() (Felix hands a
// copy to the calculation graph, the dataplane connector, the policy syncer...), each then
// receiving its own OverrideParam calls (internal overrides, the highest-priority source) and its
// own datastore updates, in a generated order.  Oracle: every object's result is decided by *its
// own* sources only — it equals a fresh Config given that object's sources/overrides and, for the
// table parameters, the direct rule.
func TestVerifC27Copies(t *testing.T) {
	ev.Quiet()
	infos := c27CheckTable(t)
	defaults := c27Fields(config.New())
	rec := ev.New("C27", "copies",
		"2-3 table parameters; one Config loaded from all six sources, then 3-7 operations on a growing set of objects: Copy() of an object, OverrideParam on an object, replacement of one datastore source of an object; non-trivial = after a Copy, OverrideParam is called on one object and later on another object derived from / parent of it; distinct = operation sequence",
		"only non-fatal values; OverrideParam is called with the canonical parameter name, as Felix does")
	defer rec.Write()

	rapid.Check(t, func(t *rapid.T) {
		nPar := rapid.IntRange(2, 3).Draw(t, "nParams")
		seen := map[string]bool{}
		var params []string
		for len(params) < nPar {
			n := c27Table[rapid.IntRange(0, len(c27Table)-1).Draw(t, "param")].Name
			if !seen[n] {
				seen[n] = true
				params = append(params, n)
			}
		}
		var st0 c27HState
		for s := c27Env; s < c27NumSrc; s++ { // no internal overrides yet
			if rapid.IntRange(0, 1).Draw(t, "sourceUsed") == 0 {
				continue
			}
			st0[s] = c27HDrawSource(t, s, params, infos, "start-"+c27SrcName[s])
		}
		boot := config.New()
		for _, s := range []c27Src{c27Env, c27File, c27Global, c27PerSelector, c27PerHost} {
			if _, err := boot.UpdateFrom(st0.maps(s), s.real()); err != nil {
				t.Fatalf("start-up UpdateFrom(%s) failed on non-fatal values: %v", c27SrcName[s], err)
			}
		}
		objs := []*config.Config{boot}
		states := []c27HState{st0}
		parent := []int{-1}
		overridden := map[int]bool{}
		history := "object 0:\n" + st0.dump()
		var shape []string
		classes := map[string]bool{}
		nontrivial := false

		verify := func(i int, when string) {
			fresh := config.New()
			for _, s := range []c27Src{c27Global, c27PerSelector, c27PerHost, c27File, c27Env, c27Internal} {
				if len(states[i][s]) == 0 {
					continue
				}
				if _, err := fresh.UpdateFrom(states[i].maps(s), s.real()); err != nil {
					t.Fatalf("fresh UpdateFrom failed: %v", err)
				}
			}
			want := c27HModel(states[i], params, infos, defaults)
			fieldsOf := func(c *config.Config) map[string]string {
				if when == "at the end" {
					return c27Fields(c) // every tagged field
				}
				out := map[string]string{}
				rv := reflect.ValueOf(c).Elem()
				for _, p := range params {
					out[p] = c27Canon(rv.FieldByName(p).Interface())
				}
				return out
			}
			got, ref := fieldsOf(objs[i]), fieldsOf(fresh)
			for _, p := range params {
				if got[p] != want[p] {
					t.Fatalf("%s: object %d has %s = %s, but the highest-priority source that sets it on this object gives %s\nobject %d's own sources:\n%shistory:\n%s",
						when, i, p, got[p], want[p], i, states[i].dump(), history)
				}
			}
			if d := c27HDiff(got, ref); d != "" {
				t.Fatalf("%s: object %d differs from a fresh Config given the same sources: %s\nobject %d's own sources:\n%shistory:\n%s",
					when, i, d, i, states[i].dump(), history)
			}
		}

		nOps := rapid.IntRange(3, 7).Draw(t, "nOps")
		for op := 1; op <= nOps; op++ {
			kind := rapid.SampledFrom([]string{"copy", "override", "override", "override", "datastore"}).Draw(t, "op")
			if op == 1 {
				kind = "copy"
			}
			i := rapid.IntRange(0, len(objs)-1).Draw(t, "object")
			switch kind {
			case "copy":
				if len(objs) >= 4 {
					continue
				}
				objs = append(objs, objs[i].Copy())
				var cp c27HState
				for s := range states[i] {
					cp[s] = append([]c27HEntry(nil), states[i][s]...)
				}
				states = append(states, cp)
				parent = append(parent, i)
				history += fmt.Sprintf("op %d: object %d = object %d.Copy()\n", op, len(objs)-1, i)
			case "override":
				n := rapid.SampledFrom(params).Draw(t, "overriddenParam")
				info := infos[n]
				raw, want, cls := c27DrawRaw(t, info, "overrideRaw")
				if info.fatal(cls) {
					v := info.Tab.Valid[0]
					raw, want, cls = v.Raw, v.Want, c27ClsValid
				}
				if _, err := objs[i].OverrideParam(n, raw); err != nil {
					t.Fatalf("OverrideParam(%s, %q) failed on a non-fatal value: %v\nhistory:\n%s", n, raw, err, history)
				}
				var kept []c27HEntry
				for _, e := range states[i][c27Internal] {
					if e.Param != n {
						kept = append(kept, e)
					}
				}
				states[i][c27Internal] = append(kept, c27HEntry{c27Entry{Param: n, Key: n, Raw: raw}, want, cls})
				history += fmt.Sprintf("op %d: object %d.OverrideParam(%s, %q)\n", op, i, n, raw)
				// related objects (parent / children / siblings) that were overridden before?
				for j := range objs {
					if j != i && overridden[j] && (parent[i] == j || parent[j] == i || (parent[i] >= 0 && parent[i] == parent[j])) {
						nontrivial = true
						classes["override-on-related-objects"] = true
					}
				}
				overridden[i] = true
			default:
				s := c27Src(rapid.IntRange(int(c27PerHost), int(c27Global)).Draw(t, "datastoreSource"))
				states[i][s] = c27HDrawSource(t, s, params, infos, "ds")
				if _, err := objs[i].UpdateFrom(states[i].maps(s), s.real()); err != nil {
					t.Fatalf("UpdateFrom(%s) failed on non-fatal values: %v", c27SrcName[s], err)
				}
				history += fmt.Sprintf("op %d: object %d.UpdateFrom(%s):\n%s", op, i, c27SrcName[s], states[i].dump())
				classes["datastore-update-after-copy"] = true
			}
			shape = append(shape, fmt.Sprintf("%s%d", kind[:2], i))
			verify(i, fmt.Sprintf("after op %d", op))
		}
		for i := range objs {
			verify(i, "at the end")
		}
		var cl []string
		for c := range classes {
			cl = append(cl, c)
		}
		sort.Strings(cl)
		cl = append(cl, fmt.Sprintf("objects-%d", len(objs)))
		rec.SizedCase(nontrivial, strings.Join(shape, ","), len(shape), func() any {
			return map[string]any{"history": strings.Split(strings.TrimSpace(history), "\n")}
		}, cl...)
	})
}
