package config_test

// C27 — Felix configuration resolves by source priority, deterministically.
//
// Oracle (from the property statement only):
//   * direct: for a hand-written table of parameters of every param_types kind, the effective
//     value is decided by the highest-priority source that sets the parameter (datastore
//     sources never count for local-only parameters): parsed value / zero value for 'none' /
//     config.New()'s default when invalid and not fatal; UpdateFrom reports an error iff a
//     *winning* value is fatal; every parameter nobody set keeps config.New()'s value;
//   * metamorphic (all ~300 parameters, any raw value): same result when (1) only the winning
//     source of each parameter is given, (2) shadowed values are replaced by anything,
//     (3) datastore values for local-only parameters are added, (4) UpdateFrom calls are
//     made in another order and keys are listed in another order (plus repeats, because Go
//     randomises map iteration inside resolve()).
//
// "Result" = nil-ness of the error returned by the last UpdateFrom call (and Config.Err being
// set when that is non-nil) and, when nil, the canonical rendering of every tagged Config field.
// Field values after a fatal error are not compared (callers discard the Config).

import (
	"fmt"
	"net"
	"reflect"
	"regexp"
	"sort"
	"strings"
	"testing"
	"time"

	v3 "github.com/projectcalico/api/pkg/apis/projectcalico/v3"
	"github.com/projectcalico/api/pkg/lib/numorstring"
	"pgregory.net/rapid"

	"github.com/projectcalico/calico/felix/config"
	"github.com/projectcalico/calico/felix/idalloc"
	"github.com/projectcalico/calico/verifkit/ev"
)

// ---- sources, in the statement's priority order (highest first) ----

type c27Src int

const (
	c27Internal c27Src = iota
	c27Env
	c27File
	c27PerHost
	c27PerSelector
	c27Global
	c27NumSrc
)

var c27SrcName = []string{"override", "env", "file", "perhost", "persel", "global"}

func (s c27Src) real() config.Source {
	switch s {
	case c27Internal:
		return config.InternalOverride
	case c27Env:
		return config.EnvironmentVariable
	case c27File:
		return config.ConfigFile
	case c27PerHost:
		return config.DatastorePerHost
	case c27PerSelector:
		return config.DatastorePerSelector
	}
	return config.DatastoreGlobal
}

func (s c27Src) datastore() bool { return s >= c27PerHost }

// ---- parameter table (expected values written by hand from the documentation of each kind) ----

type c27Valid struct {
	Raw  string
	Want any
	CI   bool // value is documented as case-insensitive: the generator varies its case
}

type c27Param struct {
	Name                string
	Local, NonZero, Die bool
	Valid               []c27Valid
	Invalid             []string
}

func c27BoolPtr(b bool) *bool { return &b }

func c27Port(min, max uint16) numorstring.Port {
	return numorstring.Port{MinPort: min, MaxPort: max}
}

var c27Table = []c27Param{
	{Name: "HealthPort", Valid: []c27Valid{{"1234", 1234, false}, {"0x10", 16, false}, {"0", 0, false}}, Invalid: []string{"65536", "-1", "abc", "12.5"}},
	{Name: "MetadataPort", Die: true, Valid: []c27Valid{{"8080", 8080, false}}, Invalid: []string{"70000", "x"}},
	{Name: "BPFMapSizeRoute", NonZero: true, Valid: []c27Valid{{"1000", 1000, false}, {"77", 77, false}}, Invalid: []string{"zz"}},
	{Name: "GoGCThreshold", Valid: []c27Valid{{"-1", -1, false}, {"100", 100, false}}, Invalid: []string{"-2", "x"}},
	{Name: "LogActionRateLimitBurst", Valid: []c27Valid{{"7", 7, false}}, Invalid: []string{"-1"}},
	{Name: "IPv4NormalRoutePriority", Valid: []c27Valid{{"100", 100, false}}, Invalid: []string{"0", "2147483647"}},
	{Name: "BPFMaglevMaxEndpointsPerService", Valid: []c27Valid{{"1", 1, false}, {"3000", 3000, false}}, Invalid: []string{"0", "3001"}},
	{Name: "HealthEnabled", Valid: []c27Valid{{"true", true, true}, {"yes", true, true}, {"1", true, false}, {"f", false, true}, {"no", false, true}}, Invalid: []string{"maybe", "2"}},
	{Name: "VXLANEnabled", Valid: []c27Valid{{"true", c27BoolPtr(true), true}, {"0", c27BoolPtr(false), false}}, Invalid: []string{"maybe"}},
	{Name: "DataplaneWatchdogTimeout", Valid: []c27Valid{{"12.5", 12500 * time.Millisecond, false}, {"30", 30 * time.Second, false}}, Invalid: []string{"abc", "1s"}},
	{Name: "IptablesLockProbeIntervalMillis", Valid: []c27Valid{{"100", 100 * time.Millisecond, false}, {"2.5", 2500 * time.Microsecond, false}}, Invalid: []string{"fast"}},
	{Name: "TyphaReadTimeout", Local: true, Valid: []c27Valid{{"45", 45 * time.Second, false}}, Invalid: []string{"soon"}},
	{Name: "InterfacePrefix", NonZero: true, Die: true, Valid: []c27Valid{{"tap", "tap", false}, {"cali,tap", "cali,tap", false}}, Invalid: []string{"bad name", "cali,"}},
	{Name: "InterfaceExclude", Valid: []c27Valid{{"kube-ipvs0,/^veth.*/", []*regexp.Regexp{regexp.MustCompile("^kube-ipvs0$"), regexp.MustCompile("^veth.*")}, false}}, Invalid: []string{"bad name", "/(/"}},
	{Name: "LogActionRateLimit", Valid: []c27Valid{{"10/minute", "10/minute", false}}, Invalid: []string{"0/minute", "10/week"}},
	{Name: "BPFDataIfacePattern", Valid: []c27Valid{{"^eth.*", regexp.MustCompile("^eth.*"), false}}, Invalid: []string{"(", "[a"}},
	{Name: "LogDebugFilenameRegex", Valid: []c27Valid{{".*foo", regexp.MustCompile(".*foo"), false}}, Invalid: []string{"("}},
	{Name: "WireguardInterfaceName", NonZero: true, Valid: []c27Valid{{"wg0", "wg0", false}}, Invalid: []string{"waytoolonginterfacename", "bad name"}},
	{Name: "LogFilePath", Die: true, Valid: []c27Valid{{"/tmp/felix.log", "/tmp/felix.log", false}, {"/x/y", "/x/y", false}}},
	{Name: "EtcdKeyFile", Local: true, Valid: []c27Valid{{"/dev/null", "/dev/null", false}}, Invalid: []string{"/nonexistent/verif-c27"}},
	{Name: "EtcdAddr", Local: true, Valid: []c27Valid{{"10.0.0.1:2379", "10.0.0.1:2379", false}}, Invalid: []string{"nocolon", "a:b"}},
	{Name: "DeviceRouteSourceAddress", Valid: []c27Valid{{"10.0.0.1", net.ParseIP("10.0.0.1"), false}}, Invalid: []string{"fe80::1", "x"}},
	{Name: "DeviceRouteSourceAddressIPv6", Valid: []c27Valid{{"fe80::1", net.ParseIP("fe80::1"), false}}, Invalid: []string{"10.0.0.1", "x"}},
	{Name: "EtcdEndpoints", Local: true, Valid: []c27Valid{{"http://a:2379,http://b:2379", []string{"http://a:2379/", "http://b:2379/"}, false}}, Invalid: []string{"http://a:1/path", "http://u@a:1"}},
	{Name: "FailsafeInboundHostPorts", Die: true, Valid: []c27Valid{
		{"tcp:22,udp:68", []v3.ProtoPort{{Protocol: "tcp", Port: 22}, {Protocol: "udp", Port: 68}}, false},
		{"80", []v3.ProtoPort{{Protocol: "tcp", Port: 80}}, false}}, Invalid: []string{"sctp:1", "tcp:70000", "tcp:x"}},
	{Name: "BPFPSNATPorts", Valid: []c27Valid{{"1000:2000", c27Port(1000, 2000), false}, {"4000", c27Port(4000, 4000), false}}, Invalid: []string{"abc", "70000"}},
	{Name: "KubeNodePortRanges", Valid: []c27Valid{{"30000:31000,32000", []numorstring.Port{c27Port(30000, 31000), c27Port(32000, 32000)}, false}}, Invalid: []string{"http", "1:70000"}},
	{Name: "MetadataAddr", Die: true, Valid: []c27Valid{{"meta.example.org", "meta.example.org", false}}, Invalid: []string{"bad/host"}},
	{Name: "HealthHost", Valid: []c27Valid{{"0.0.0.0", "0.0.0.0", false}, {"::1", "::1", false}}, Invalid: []string{"has space"}},
	{Name: "OpenstackRegion", Die: true, Valid: []c27Valid{{"r1", "r1", false}}, Invalid: []string{"UPPER", "a_b"}},
	{Name: "NFTablesMode", Valid: []c27Valid{{"Enabled", "Enabled", true}, {"Disabled", "Disabled", true}, {"Auto", "Auto", true}}, Invalid: []string{"maybe"}},
	{Name: "ChainInsertMode", NonZero: true, Die: true, Valid: []c27Valid{{"append", "append", true}, {"insert", "insert", true}}, Invalid: []string{"prepend"}},
	{Name: "DatastoreType", NonZero: true, Die: true, Local: true, Valid: []c27Valid{{"kubernetes", "kubernetes", true}, {"etcdv3", "etcdv3", true}}, Invalid: []string{"consul"}},
	{Name: "ProgramClusterRoutes", Valid: []c27Valid{{"Enabled", "Enabled", true}, {"Disabled", "Disabled", true}, {"EnabledIPIPOnly", "EnabledIPIPOnly", true}, {"EnabledNoEncapOnly", "EnabledNoEncapOnly", true}}, Invalid: []string{"Sometimes"}},
	{Name: "LogPrefix", Valid: []c27Valid{{"my-prefix", "my-prefix", false}, {"p2", "p2", false}}},
	{Name: "ExternalNodesCIDRList", Die: true, Valid: []c27Valid{{"10.0.0.0/8, 1.2.3.4", []string{"10.0.0.0/8", "1.2.3.4/32"}, false}}, Invalid: []string{"10.0.0.0/33", "x"}},
	{Name: "BPFForceTrackPacketsFromIfaces", Valid: []c27Valid{{"docker+,eth0", []string{"docker+", "eth0"}, false}}, Invalid: []string{"waytoolonginterfacename"}},
	{Name: "RouteTableRange", Die: true, Valid: []c27Valid{{"1-250", idalloc.IndexRange{Min: 1, Max: 250}, false}}, Invalid: []string{"0-10", "5"}},
	{Name: "RouteTableRanges", Die: true, Valid: []c27Valid{{"1-10,20-30", []idalloc.IndexRange{{Min: 1, Max: 10}, {Min: 20, Max: 30}}, false}}, Invalid: []string{"abc", "10-1"}},
	{Name: "FeatureGates", Valid: []c27Valid{{"a=b,c=d", map[string]string{"a": "b", "c": "d"}, false}}, Invalid: []string{"novalue"}},
	{Name: "HealthTimeoutOverrides", Valid: []c27Valid{{"a=1s,b=2m", map[string]time.Duration{"a": time.Second, "b": 2 * time.Minute}, false}}, Invalid: []string{"a=xyz", "novalue"}},
	{Name: "IstioDSCPMark", Valid: []c27Valid{{"10", numorstring.DSCPFromInt(10), false}, {"AF11", numorstring.DSCPFromString("AF11"), true}}, Invalid: []string{"64", "ZZ"}},
	{Name: "IptablesMarkMask", NonZero: true, Die: true, Valid: []c27Valid{{"0xff000000", uint32(0xff000000), false}, {"3", uint32(3), false}}, Invalid: []string{"0x1", "zz", "0"}},
	{Name: "TyphaK8sNamespace", NonZero: true, Local: true, Valid: []c27Valid{{"calico-system", "calico-system", false}}},
}

// Raw values used for parameters outside the table (metamorphic relations only).
var c27GenericRaws = []string{"none", "NONE", "true", "0", "1234", "-5", "abc", "10.0.0.1", "fe80::1", "tcp:80",
	"1-5", "a=b", "Enabled", "disabled", "/dev/null", "x y", "30000:31000", "http://a:1"}

// ---- canonical rendering of a field value ----

func c27Canon(v any) string {
	switch x := v.(type) {
	case nil:
		return "nil"
	case *regexp.Regexp:
		if x == nil {
			return "re:nil"
		}
		return "re:" + x.String()
	case []*regexp.Regexp:
		parts := []string{}
		for _, r := range x {
			parts = append(parts, c27Canon(r))
		}
		return "res:[" + strings.Join(parts, " | ") + "]"
	case net.IP:
		if x == nil {
			return "ip:nil"
		}
		return "ip:" + x.String()
	case *bool:
		if x == nil {
			return "*bool:nil"
		}
		return fmt.Sprintf("*bool:%v", *x)
	}
	rv := reflect.ValueOf(v)
	if (rv.Kind() == reflect.Slice || rv.Kind() == reflect.Map) && rv.Len() == 0 {
		return fmt.Sprintf("%T:empty", v) // nil and empty are not distinguished by the statement
	}
	return fmt.Sprintf("%T:%#v", v, v) // fmt prints maps in sorted key order
}

var c27FieldNames = func() []string {
	var out []string
	typ := reflect.TypeOf(config.Config{})
	for i := 0; i < typ.NumField(); i++ {
		f := typ.Field(i)
		if f.Tag.Get("config") != "" && f.IsExported() {
			out = append(out, f.Name)
		}
	}
	sort.Strings(out)
	return out
}()

func c27Fields(cfg *config.Config) map[string]string {
	out := make(map[string]string, len(c27FieldNames))
	rv := reflect.ValueOf(cfg).Elem()
	for _, n := range c27FieldNames {
		out[n] = c27Canon(rv.FieldByName(n).Interface())
	}
	return out
}

// ---- an assignment of raw values to (parameter, source) ----

type c27Entry struct {
	Param string // canonical parameter name
	Key   string // key as written in that source (case varies)
	Raw   string
}

type c27Assign [c27NumSrc][]c27Entry

func (a c27Assign) clone() c27Assign {
	var b c27Assign
	for s := range a {
		b[s] = append([]c27Entry(nil), a[s]...)
	}
	return b
}

type c27Result struct {
	ErrNil bool
	Err    string
	Fields map[string]string
}

// c27Run feeds the assignment through the real loaders and UpdateFrom, sources in the given
// order, keys of each source listed in the stored order (reverse=true: reversed).
func c27Run(t *rapid.T, a c27Assign, order []c27Src, reverse, viaOverrideParam bool) c27Result {
	cfg := config.New()
	var lastErr error
	for _, s := range order {
		ents := append([]c27Entry(nil), a[s]...)
		if reverse {
			for i, j := 0, len(ents)-1; i < j; i, j = i+1, j-1 {
				ents[i], ents[j] = ents[j], ents[i]
			}
		}
		var m map[string]string
		switch s {
		case c27Env:
			environ := []string{"PATH=/usr/bin", "NOEQUALS", "FELIXX_HEALTHPORT=1"}
			for _, e := range ents {
				environ = append(environ, e.Key+"="+e.Raw)
			}
			environ = append(environ, "HOME=/root")
			m = config.LoadConfigFromEnvironment(environ)
		case c27File:
			var sb strings.Builder
			sb.WriteString("[global]\n")
			for _, e := range ents {
				sb.WriteString(e.Key + " = " + e.Raw + "\n")
			}
			var err error
			m, err = config.LoadConfigFileData([]byte(sb.String()))
			if err != nil {
				t.Fatalf("LoadConfigFileData failed on %q: %v", sb.String(), err)
			}
		default:
			m = map[string]string{}
			for _, e := range ents {
				m[e.Key] = e.Raw
			}
		}
		if s == c27Internal && viaOverrideParam && len(ents) > 0 {
			for _, e := range ents {
				_, lastErr = cfg.OverrideParam(e.Key, e.Raw)
			}
		} else {
			_, lastErr = cfg.UpdateFrom(m, s.real())
		}
	}
	res := c27Result{ErrNil: lastErr == nil}
	if lastErr != nil {
		res.Err = lastErr.Error()
		if cfg.Err == nil {
			t.Fatalf("UpdateFrom returned error %v but Config.Err is nil (doc.go: the error is also stored in Config.Err)", lastErr)
		}
	} else {
		res.Fields = c27Fields(cfg)
	}
	return res
}

func c27Same(a, b c27Result) string {
	if a.ErrNil != b.ErrNil {
		return fmt.Sprintf("error differs: %q vs %q", a.Err, b.Err)
	}
	if !a.ErrNil {
		return ""
	}
	for _, n := range c27FieldNames {
		if a.Fields[n] != b.Fields[n] {
			return fmt.Sprintf("field %s differs: %s vs %s", n, a.Fields[n], b.Fields[n])
		}
	}
	return ""
}

func c27Dump(a c27Assign) string {
	var sb strings.Builder
	for s := c27Src(0); s < c27NumSrc; s++ {
		if len(a[s]) == 0 {
			continue
		}
		sb.WriteString("  " + c27SrcName[s] + ":")
		for _, e := range a[s] {
			sb.WriteString(fmt.Sprintf(" %s=%q", e.Key, e.Raw))
		}
		sb.WriteString("\n")
	}
	return sb.String()
}

// ---- classification of a raw value for a parameter ----

type c27Class int

const (
	c27ClsValid c27Class = iota
	c27ClsNone
	c27ClsInvalid
)

type c27Info struct {
	Local, NonZero, Die bool
	Tab                 *c27Param // nil for parameters outside the table
}

// fatal: the value aborts resolution if it is the effective one.
func (i c27Info) fatal(c c27Class) bool {
	return (c == c27ClsInvalid && i.Die) || (c == c27ClsNone && i.NonZero)
}

func c27Classify(name, raw string, info c27Info) c27Class {
	if strings.ToLower(raw) == "none" {
		return c27ClsNone
	}
	if info.Tab != nil {
		for _, inv := range info.Tab.Invalid {
			if inv == raw {
				return c27ClsInvalid
			}
		}
		for _, v := range info.Tab.Valid {
			if v.Raw == raw || (v.CI && strings.EqualFold(v.Raw, raw)) {
				return c27ClsValid
			}
		}
	}
	// Outside the table (arbitrary parameters, junk replacement values): classification is
	// used only for the histogram / non-trivial classes and to know whether an effective value of
	// an arbitrary parameter is fatal; it asks the parameter's own parser.
	if _, err := config.Params()[strings.ToLower(name)].Parse(raw); err != nil {
		return c27ClsInvalid
	}
	return c27ClsValid
}

func c27VaryCase(t *rapid.T, s, label string) string {
	switch rapid.IntRange(0, 3).Draw(t, label) {
	case 0:
		return s
	case 1:
		return strings.ToLower(s)
	case 2:
		return strings.ToUpper(s)
	}
	// alternating case
	b := []byte(s)
	for i := range b {
		if i%2 == 0 {
			b[i] = strings.ToUpper(string(b[i]))[0]
		} else {
			b[i] = strings.ToLower(string(b[i]))[0]
		}
	}
	return string(b)
}

func c27DrawRaw(t *rapid.T, info c27Info, label string) (raw string, want any, cls c27Class) {
	if info.Tab == nil {
		r := rapid.SampledFrom(c27GenericRaws).Draw(t, label)
		return r, nil, 0
	}
	p := info.Tab
	k := rapid.IntRange(0, 9).Draw(t, label+"-kind")
	switch {
	case k == 0:
		return rapid.SampledFrom([]string{"none", "NONE", "None", "nOnE"}).Draw(t, label), nil, c27ClsNone
	case k <= 2 && len(p.Invalid) > 0:
		return rapid.SampledFrom(p.Invalid).Draw(t, label), nil, c27ClsInvalid
	}
	v := p.Valid[rapid.IntRange(0, len(p.Valid)-1).Draw(t, label)]
	r := v.Raw
	if v.CI {
		r = c27VaryCase(t, r, label+"-case")
	}
	return r, v.Want, c27ClsValid
}

func c27KeyFor(t *rapid.T, s c27Src, name, label string) string {
	k := c27VaryCase(t, name, label)
	if s == c27Env {
		return rapid.SampledFrom([]string{"FELIX_", "felix_", "Felix_"}).Draw(t, label+"-pfx") + k
	}
	return k
}

var c27AllNames = func() []string {
	var out []string
	for _, n := range c27FieldNames {
		out = append(out, n)
	}
	return out
}()

func c27CheckTable(t *testing.T) map[string]c27Info {
	infos := map[string]c27Info{}
	params := config.Params()
	for _, n := range c27AllNames {
		p, ok := params[strings.ToLower(n)]
		if !ok {
			t.Fatalf("HARNESS-GAP: field %s has a config tag but no entry in config.Params()", n)
		}
		md := p.GetMetadata()
		infos[n] = c27Info{Local: md.Local, NonZero: md.NonZero, Die: md.DieOnParseFailure}
	}
	for i := range c27Table {
		p := &c27Table[i]
		got, ok := infos[p.Name]
		if !ok {
			t.Fatalf("HARNESS-GAP: table parameter %s no longer exists", p.Name)
		}
		if got.Local != p.Local || got.NonZero != p.NonZero || got.Die != p.Die {
			t.Fatalf("HARNESS-GAP: declared flags of %s changed (tree: local=%v non-zero=%v die-on-fail=%v; harness table: %v %v %v)",
				p.Name, got.Local, got.NonZero, got.Die, p.Local, p.NonZero, p.Die)
		}
		got.Tab = p
		infos[p.Name] = got
	}
	return infos
}

func TestVerifC27Priority(t *testing.T) {
	ev.Quiet()
	infos := c27CheckTable(t)
	rec := ev.New("C27", "config",
		"1-6 table parameters (every param_types kind) + 0-2 arbitrary parameters, each set in a random subset of the six sources with valid/invalid/none/case-variant raw values, fed through the real env/file loaders and UpdateFrom; non-trivial = some parameter is set by >=2 effective sources with different raw values; distinct = (parameter, per-source value class) shape",
		"expected parsed values of the table parameters are written by hand in the harness",
		"one key per parameter per source; empty values are not generated (UpdateFrom documents them as 'not set')",
		"field values after a fatal error are not compared (callers discard the Config)")
	defer rec.Write()
	defaults := c27Fields(config.New())

	rapid.Check(t, func(t *rapid.T) {
		// ---- generate ----
		nTab := rapid.IntRange(1, 6).Draw(t, "nTableParams")
		nGen := rapid.IntRange(0, 2).Draw(t, "nOtherParams")
		chosen := map[string]bool{}
		var names []string
		for i := 0; i < nTab; i++ {
			n := c27Table[rapid.IntRange(0, len(c27Table)-1).Draw(t, "tableParam")].Name
			if !chosen[n] {
				chosen[n] = true
				names = append(names, n)
			}
		}
		for i := 0; i < nGen; i++ {
			n := rapid.SampledFrom(c27AllNames).Draw(t, "otherParam")
			if !chosen[n] && infos[n].Tab == nil {
				chosen[n] = true
				names = append(names, n)
			}
		}
		var asg c27Assign
		wantOf := map[string]any{} // key "param/src" -> expected parsed value of that raw
		for _, n := range names {
			info := infos[n]
			nSrc := rapid.SampledFrom([]int{1, 2, 2, 3, 3, 4, 6}).Draw(t, "nSources")
			srcs := rapid.Permutation([]c27Src{0, 1, 2, 3, 4, 5}).Draw(t, "sources")[:nSrc]
			for _, s := range srcs {
				raw, w, _ := c27DrawRaw(t, info, "raw")
				asg[s] = append(asg[s], c27Entry{Param: n, Key: c27KeyFor(t, s, n, "keycase"), Raw: raw})
				wantOf[fmt.Sprintf("%s/%d", n, s)] = w
			}
		}

		// ---- model: effective (winning) source per parameter ----
		effective := func(n string, s c27Src) bool { return !(infos[n].Local && s.datastore()) }
		type win struct {
			src c27Src
			raw string
			cls c27Class
		}
		winners := map[string]win{}
		var shadowed [][2]int // (source, index) of entries that are set but do not decide
		contested := false
		shadowedFatal := false
		for s := c27Src(0); s < c27NumSrc; s++ {
			for i := range asg[s] {
				e := &asg[s][i]
				info := infos[e.Param]
				if !effective(e.Param, s) {
					shadowed = append(shadowed, [2]int{int(s), i})
					continue
				}
				w, have := winners[e.Param]
				if !have {
					winners[e.Param] = win{s, e.Raw, c27Classify(e.Param, e.Raw, info)}
					continue
				}
				// shadowed by a higher-priority source: may hold anything, including values that
				// would be fatal if they were effective
				if info.fatal(c27Classify(e.Param, e.Raw, info)) {
					shadowedFatal = true
				}
				if e.Raw != w.raw {
					contested = true
				}
				shadowed = append(shadowed, [2]int{int(s), i})
			}
		}
		order := rapid.Permutation([]c27Src{0, 1, 2, 3, 4, 5}).Draw(t, "updateOrder")
		viaOverride := rapid.Bool().Draw(t, "viaOverrideParam")
		base := c27Run(t, asg, order, false, viaOverride)

		// ---- direct oracle ----
		expectFatal, silent := false, false
		for _, n := range names {
			w, ok := winners[n]
			if !ok {
				continue
			}
			info := infos[n]
			if info.Tab == nil {
				if info.fatal(w.cls) {
					expectFatal = true
				}
				continue
			}
			if w.cls == c27ClsNone && info.NonZero {
				silent = true // statement does not say what 'none' on a non-zero parameter must do
			} else if info.fatal(w.cls) {
				expectFatal = true
			}
		}
		describe := func() string {
			return fmt.Sprintf("assignment:\n%supdate order %v overrideParam=%v", c27Dump(asg), order, viaOverride)
		}
		if !silent {
			if expectFatal && base.ErrNil {
				t.Fatalf("an effective (highest-priority) value is invalid for a die-on-fail parameter but UpdateFrom returned nil\n%s", describe())
			}
			if !expectFatal && !base.ErrNil {
				t.Fatalf("no effective value is fatal, yet UpdateFrom returned error %q (shadowed or local-only datastore values must not affect the result)\n%s", base.Err, describe())
			}
		}
		if base.ErrNil {
			for _, n := range c27FieldNames {
				w, set := winners[n]
				info := infos[n]
				var exp string
				switch {
				case !set:
					exp = defaults[n]
				case info.Tab == nil:
					continue // arbitrary parameter: metamorphic relations only
				case w.cls == c27ClsNone:
					f, _ := reflect.TypeOf(config.Config{}).FieldByName(n)
					exp = c27Canon(reflect.Zero(f.Type).Interface())
				case w.cls == c27ClsInvalid:
					exp = defaults[n]
				default:
					exp = c27Canon(wantOf[fmt.Sprintf("%s/%d", n, w.src)])
				}
				if base.Fields[n] != exp {
					t.Fatalf("%s = %s, expected %s (winner: %s %q)\n%s", n, base.Fields[n], exp, c27SrcName[w.src], w.raw, describe())
				}
			}
		}

		// ---- (4) order of UpdateFrom calls / key order / map iteration ----
		order2 := rapid.Permutation([]c27Src{0, 1, 2, 3, 4, 5}).Draw(t, "updateOrder2")
		for rep := 0; rep < 2; rep++ {
			r := c27Run(t, asg, order2, rep == 0, !viaOverride)
			if d := c27Same(base, r); d != "" {
				t.Fatalf("result depends on read order (order %v vs %v): %s\n%s", order, order2, d, describe())
			}
		}

		// ---- (1) only the winning source of each parameter ----
		var only c27Assign
		for s := c27Src(0); s < c27NumSrc; s++ {
			for _, e := range asg[s] {
				if w, ok := winners[e.Param]; ok && w.src == s && effective(e.Param, s) {
					only[s] = append(only[s], e)
				}
			}
		}
		if d := c27Same(base, c27Run(t, only, order, false, viaOverride)); d != "" {
			t.Fatalf("result differs from the result with only each parameter's winning source: %s\nfull %swinning-only:\n%s", d, describe(), c27Dump(only))
		}

		// ---- (2) replace shadowed values by anything ----
		if len(shadowed) > 0 {
			mut := asg.clone()
			for _, si := range shadowed {
				e := &mut[si[0]][si[1]]
				info := infos[e.Param]
				raw, _, _ := c27DrawRaw(t, info, "shadowRaw")
				if rapid.IntRange(0, 4).Draw(t, "junk") == 0 {
					raw = rapid.SampledFrom([]string{"junk", "-1", "!!", "NONE", "999999999999"}).Draw(t, "junkRaw")
				}
				if effective(e.Param, c27Src(si[0])) && info.fatal(c27Classify(e.Param, raw, info)) {
					shadowedFatal = true
				}
				e.Raw = raw
			}
			if d := c27Same(base, c27Run(t, mut, order, false, viaOverride)); d != "" {
				t.Fatalf("changing shadowed values changed the result: %s\nbefore %s\nafter:\n%s", d, describe(), c27Dump(mut))
			}
		}

		// ---- (3) datastore values for local-only parameters ----
		{
			mut := asg.clone()
			added := 0
			for i := range c27Table {
				p := &c27Table[i]
				if !p.Local || rapid.IntRange(0, 2).Draw(t, "addLocal") != 0 {
					continue
				}
				s := c27Src(rapid.IntRange(int(c27PerHost), int(c27Global)).Draw(t, "dsSource"))
				dup := false
				for _, e := range mut[s] {
					if e.Param == p.Name {
						dup = true
					}
				}
				if dup {
					continue
				}
				raw, _, _ := c27DrawRaw(t, infos[p.Name], "dsLocalRaw")
				mut[s] = append(mut[s], c27Entry{Param: p.Name, Key: c27KeyFor(t, s, p.Name, "dsKey"), Raw: raw})
				added++
			}
			if added > 0 {
				if d := c27Same(base, c27Run(t, mut, order, false, viaOverride)); d != "" {
					t.Fatalf("datastore values for local-only parameters changed the result: %s\nbefore %s\nafter:\n%s", d, describe(), c27Dump(mut))
				}
			}
		}

		// ---- evidence ----
		var shape []string
		classes := map[string]bool{}
		for _, n := range names {
			var per []string
			for s := c27Src(0); s < c27NumSrc; s++ {
				for _, e := range asg[s] {
					if e.Param == n {
						c := c27Classify(n, e.Raw, infos[n])
						per = append(per, fmt.Sprintf("%s%d", c27SrcName[s][:1], c))
						if w := winners[n]; w.src != s || !effective(n, s) {
							classes[[]string{"shadowed-valid", "shadowed-none", "shadowed-invalid"}[c]] = true
							if !effective(n, s) {
								classes["datastore-value-for-local-param"] = true
							}
						} else {
							classes[[]string{"winner-valid", "winner-none", "winner-invalid"}[c]] = true
							if infos[n].fatal(c) {
								classes["winner-fatal"] = true
							}
						}
					}
				}
			}
			shape = append(shape, n+":"+strings.Join(per, ""))
		}
		sort.Strings(shape)
		var cl []string
		for c := range classes {
			cl = append(cl, c)
		}
		sort.Strings(cl)
		if contested {
			cl = append(cl, "contested")
		}
		if shadowedFatal {
			cl = append(cl, "shadowed-value-would-be-fatal")
		}
		if !base.ErrNil {
			cl = append(cl, "result-error")
		}
		rec.SizedCase(contested, strings.Join(shape, ";"), len(shadowed), func() any {
			return map[string]any{"assignment": strings.Split(strings.TrimSpace(c27Dump(asg)), "\n"), "error": base.Err}
		}, cl...)
	})
}

// TestVerifC27KnownShadowedInvalid is the deterministic regression test for the finding
// "shadowed-invalid-sets-err" (fixed in /repo: resolve() used to parse shadowed values before
// skipping them, so a shadowed invalid value of a die-on-fail parameter, or a shadowed 'none' for
// a non-zero parameter, made UpdateFrom fail).  Inputs are what the real loaders produce from
// FELIX_CHAININSERTMODE=append in the environment and "ChainInsertMode = bogus" in the config
// file, in the order the Felix daemon applies them.
func TestVerifC27KnownShadowedInvalid(t *testing.T) {
	ev.Quiet()
	cfg := config.New()
	env := config.LoadConfigFromEnvironment([]string{"FELIX_CHAININSERTMODE=append"})
	file, err := config.LoadConfigFileData([]byte("[global]\nChainInsertMode = bogus\n"))
	if err != nil {
		t.Fatalf("LoadConfigFileData: %v", err)
	}
	if _, err := cfg.UpdateFrom(env, config.EnvironmentVariable); err != nil {
		t.Fatalf("environment value rejected: %v", err)
	}
	_, err = cfg.UpdateFrom(file, config.ConfigFile)
	if err != nil || cfg.Err != nil {
		t.Errorf("ChainInsertMode is set to the valid value \"append\" by the environment (higher priority); "+
			"the shadowed config-file value \"bogus\" must not affect the result, but UpdateFrom returned %v (Config.Err=%v)", err, cfg.Err)
	}
	if err == nil && cfg.ChainInsertMode != "append" {
		t.Errorf("ChainInsertMode=%q, expected \"append\"", cfg.ChainInsertMode)
	}
	// Same for 'none' on a non-zero parameter shadowed by a valid value.
	cfg = config.New()
	_, _ = cfg.UpdateFrom(map[string]string{"bpfmapsizeroute": "1000"}, config.EnvironmentVariable)
	if _, err := cfg.UpdateFrom(map[string]string{"BPFMapSizeRoute": "none"}, config.DatastoreGlobal); err != nil {
		t.Errorf("shadowed 'none' for non-zero BPFMapSizeRoute (datastore, below environment) made UpdateFrom fail: %v", err)
	}
}
