package polprog

// C13 (shared maps part; exported API of felix/bpf/conntrack/v4, .../cleanupv1 and
// felix/bpf/nat only — it lives in this package so that the whole property needs one test
// binary).  Conntrack key / leg / value (normal, NAT-forward, NAT-reverse variants), the
// cleanup-queue value, NAT frontend / backend / affinity / maglev keys and values:
//
//   (a) table: Vo* constants and Key/Value sizes vs C offsetof/sizeof; for every field the
//       bytes the Go constructor writes and the bytes the Go accessor reads are derived by
//       probing and compared with the C field's offset/size (bit position for bitfields);
//       Go MapParameters key/value sizes vs the C map declarations;
//   (b) generated round trips through typed reads / assignments on the real C structs.

import (
	"encoding/binary"
	"fmt"
	"math/bits"
	"net"
	"sort"
	"strings"
	"testing"
	"time"

	"pgregory.net/rapid"

	"github.com/projectcalico/calico/felix/bpf/conntrack/cleanupv1"
	ct "github.com/projectcalico/calico/felix/bpf/conntrack/v4"
	"github.com/projectcalico/calico/felix/bpf/maps"
	"github.com/projectcalico/calico/felix/bpf/nat"
	"github.com/projectcalico/calico/felix/ip"
	"github.com/projectcalico/calico/verifkit/cnative"
	"github.com/projectcalico/calico/verifkit/ev"
)

// c13V is one field value: numeric (u, w bytes wide on the Go side) or raw bytes.
type c13V struct {
	u uint64
	b []byte
}

type c13F struct {
	name   string
	kind   byte // 'u' unsigned, 'b' raw bytes, 'B' one-bit flag
	w      int  // width in bytes of the Go-side type ('u'), length ('b')
	noEnc  bool // no constructor parameter sets it freely (derived / absent)
	noAcc  bool // no accessor
	narrow bool // Go type deliberately narrower than the C field (value range fits)
}

type c13Codec struct {
	id     string // mapping-file struct id
	name   string // codec name (variant)
	ipver  int
	fields []c13F
	enc    func(v map[string]c13V) []byte
	dec    func(b []byte) map[string]c13V
	fix    func(b []byte, l *cnative.Layout) // make a probe buffer acceptable to accessors
	extra  func(v map[string]c13V) map[string]string
}

func (c *c13Codec) zero() map[string]c13V {
	v := map[string]c13V{}
	for _, f := range c.fields {
		if f.kind == 'b' {
			v[f.name] = c13V{b: make([]byte, f.w)}
		} else {
			v[f.name] = c13V{}
		}
	}
	return v
}

func c13Ones(f c13F) c13V {
	switch f.kind {
	case 'b':
		return c13V{b: c13Fill(0xff, f.w)}
	case 'B':
		return c13V{u: 1}
	default:
		if f.w >= 8 {
			return c13V{u: ^uint64(0)}
		}
		return c13V{u: 1<<(8*uint(f.w)) - 1}
	}
}

func c13CString(f c13F, v c13V) string {
	if f.kind == 'b' {
		return cnative.H(v.b)
	}
	return cnative.U(v.u)
}

func c13B2u(b bool) uint64 {
	if b {
		return 1
	}
	return 0
}

func c13IP(b []byte) net.IP { return net.IP(append([]byte{}, b...)) }

func c13AddrLen(ipver int) int {
	if ipver == 6 {
		return 16
	}
	return 4
}

// ---- codecs ---------------------------------------------------------------------------

func c13LegFields(prefix string) []c13F {
	return []c13F{
		{name: prefix + "bytes", kind: 'u', w: 8}, {name: prefix + "packets", kind: 'u', w: 4},
		{name: prefix + "seqno", kind: 'b', w: 4},
		{name: prefix + "syn_seen", kind: 'B'}, {name: prefix + "ack_seen", kind: 'B'}, {name: prefix + "fin_seen", kind: 'B'},
		{name: prefix + "rst_seen", kind: 'B'}, {name: prefix + "approved", kind: 'B'}, {name: prefix + "opener", kind: 'B'},
		{name: prefix + "workload", kind: 'B'}, {name: prefix + "ifindex", kind: 'u', w: 4},
	}
}

func c13LegFrom(v map[string]c13V, p string) ct.Leg {
	return ct.Leg{
		Bytes: v[p+"bytes"].u, Packets: uint32(v[p+"packets"].u),
		// Leg.AsBytes stores Seqno little endian, readConntrackLeg reads it big endian: the
		// harness works on the four bytes in memory, whatever number each side calls them.
		Seqno:   binary.LittleEndian.Uint32(v[p+"seqno"].b),
		SynSeen: v[p+"syn_seen"].u != 0, AckSeen: v[p+"ack_seen"].u != 0, FinSeen: v[p+"fin_seen"].u != 0,
		RstSeen: v[p+"rst_seen"].u != 0, Approved: v[p+"approved"].u != 0, Opener: v[p+"opener"].u != 0,
		Workload: v[p+"workload"].u != 0, Ifindex: uint32(v[p+"ifindex"].u),
	}
}

func c13LegTo(out map[string]c13V, p string, l ct.Leg) {
	out[p+"bytes"] = c13V{u: l.Bytes}
	out[p+"packets"] = c13V{u: uint64(l.Packets)}
	out[p+"seqno"] = c13V{b: binary.BigEndian.AppendUint32(nil, l.Seqno)}
	out[p+"syn_seen"] = c13V{u: c13B2u(l.SynSeen)}
	out[p+"ack_seen"] = c13V{u: c13B2u(l.AckSeen)}
	out[p+"fin_seen"] = c13V{u: c13B2u(l.FinSeen)}
	out[p+"rst_seen"] = c13V{u: c13B2u(l.RstSeen)}
	out[p+"approved"] = c13V{u: c13B2u(l.Approved)}
	out[p+"opener"] = c13V{u: c13B2u(l.Opener)}
	out[p+"workload"] = c13V{u: c13B2u(l.Workload)}
	out[p+"ifindex"] = c13V{u: uint64(l.Ifindex)}
}

func c13FlagsOf(v map[string]c13V) uint32 {
	return uint32(v["flags"].u) | uint32(v["flags2"].u)<<8 | uint32(v["flags3"].u)<<16 | uint32(v["flags4"].u)<<24
}

func c13ValueCommon(out map[string]c13V, e ct.ValueInterface) {
	out["rst_seen"] = c13V{u: uint64(e.RSTSeen())}
	out["last_seen"] = c13V{u: uint64(e.LastSeen())}
	out["type"] = c13V{u: uint64(e.Type())}
	fl := e.Flags()
	out["flags"] = c13V{u: uint64(fl & 0xff)}
	out["flags2"] = c13V{u: uint64(fl >> 8 & 0xff)}
	out["flags3"] = c13V{u: uint64(fl >> 16 & 0xff)}
	out["flags4"] = c13V{u: uint64(fl >> 24 & 0xff)}
}

var c13ValueCommonFields = []c13F{
	{name: "rst_seen", kind: 'u', w: 8, noEnc: true}, {name: "last_seen", kind: 'u', w: 8},
	{name: "type", kind: 'u', w: 1, noEnc: true},
	{name: "flags", kind: 'u', w: 1}, {name: "flags2", kind: 'u', w: 1}, {name: "flags3", kind: 'u', w: 1}, {name: "flags4", kind: 'u', w: 1},
}

func c13Codecs() []*c13Codec {
	var out []*c13Codec
	for _, ipver := range c13Both {
		ipver := ipver
		al := c13AddrLen(ipver)
		v6 := ipver == 6
		keyLen := ct.KeySize
		if v6 {
			keyLen = ct.KeyV6Size
		}
		keyFrom := func(b []byte) ct.KeyInterface {
			if v6 {
				return ct.KeyV6FromBytes(b)
			}
			return ct.KeyFromBytes(b)
		}
		valFrom := func(b []byte) ct.ValueInterface {
			if v6 {
				return ct.ValueV6FromBytes(b)
			}
			return ct.ValueFromBytes(b)
		}
		mkKey := func(v map[string]c13V) []byte {
			if v6 {
				return ct.NewKeyV6(uint8(v["protocol"].u), c13IP(v["addr_a"].b), uint16(v["port_a"].u), c13IP(v["addr_b"].b), uint16(v["port_b"].u)).AsBytes()
			}
			return ct.NewKey(uint8(v["protocol"].u), c13IP(v["addr_a"].b), uint16(v["port_a"].u), c13IP(v["addr_b"].b), uint16(v["port_b"].u)).AsBytes()
		}
		out = append(out, &c13Codec{id: "ct_key", name: "ct_key", ipver: ipver,
			fields: []c13F{
				// Go API takes the IP protocol number as uint8; the C key stores it in a __u32
				{name: "protocol", kind: 'u', w: 1, narrow: true},
				{name: "addr_a", kind: 'b', w: al}, {name: "addr_b", kind: 'b', w: al},
				{name: "port_a", kind: 'u', w: 2}, {name: "port_b", kind: 'u', w: 2},
			},
			enc: mkKey,
			dec: func(b []byte) map[string]c13V {
				k := keyFrom(b)
				return map[string]c13V{"protocol": {u: uint64(k.Proto())}, "addr_a": {b: []byte(k.AddrA())}, "addr_b": {b: []byte(k.AddrB())},
					"port_a": {u: uint64(k.PortA())}, "port_b": {u: uint64(k.PortB())}}
			}})

		// leg on its own (Leg.AsBytes)
		out = append(out, &c13Codec{id: "ct_leg", name: "ct_leg", ipver: ipver,
			fields: func() []c13F {
				fs := c13LegFields("")
				for i := range fs {
					fs[i].noAcc = true // decoding is only reachable through Value.Data(), see ct_value codecs
				}
				return fs
			}(),
			enc: func(v map[string]c13V) []byte { return c13LegFrom(v, "").AsBytes() },
		})

		// value, TypeNormal
		normalFields := append(append(append([]c13F{}, c13ValueCommonFields...), c13LegFields("ab_")...), c13LegFields("ba_")...)
		out = append(out, &c13Codec{id: "ct_value", name: "ct_value/normal", ipver: ipver, fields: normalFields,
			enc: func(v map[string]c13V) []byte {
				ls, fl, a, b := time.Duration(v["last_seen"].u), c13FlagsOf(v), c13LegFrom(v, "ab_"), c13LegFrom(v, "ba_")
				if v6 {
					return ct.NewValueV6Normal(ls, fl, a, b).AsBytes()
				}
				return ct.NewValueNormal(ls, fl, a, b).AsBytes()
			},
			dec: func(b []byte) map[string]c13V {
				e := valFrom(b)
				o := map[string]c13V{}
				c13ValueCommon(o, e)
				d := e.Data()
				c13LegTo(o, "ab_", d.A2B)
				c13LegTo(o, "ba_", d.B2A)
				return o
			},
			extra: func(v map[string]c13V) map[string]string {
				return map[string]string{"flags_all": cnative.U(uint64(c13FlagsOf(v))), "type": cnative.U(uint64(ct.TypeNormal))}
			}})

		// value, TypeNATForward
		fwdFields := append(append([]c13F{}, c13ValueCommonFields...),
			c13F{name: "nat_rev_key", kind: 'b', w: keyLen}, c13F{name: "nat_sport", kind: 'u', w: 2})
		out = append(out, &c13Codec{id: "ct_value", name: "ct_value/nat_fwd", ipver: ipver, fields: fwdFields,
			enc: func(v map[string]c13V) []byte {
				ls, fl := time.Duration(v["last_seen"].u), c13FlagsOf(v)
				if v6 {
					var k ct.KeyV6
					copy(k[:], v["nat_rev_key"].b)
					e := ct.NewValueV6NATForward(ls, fl, k)
					e.SetNATSport(uint16(v["nat_sport"].u))
					return e.AsBytes()
				}
				var k ct.Key
				copy(k[:], v["nat_rev_key"].b)
				e := ct.NewValueNATForward(ls, fl, k)
				e.SetNATSport(uint16(v["nat_sport"].u))
				return e.AsBytes()
			},
			dec: func(b []byte) map[string]c13V {
				e := valFrom(b)
				o := map[string]c13V{}
				c13ValueCommon(o, e)
				o["nat_rev_key"] = c13V{b: e.ReverseNATKey().AsBytes()}
				o["nat_sport"] = c13V{u: uint64(e.NATSPort())}
				return o
			},
			extra: func(v map[string]c13V) map[string]string {
				return map[string]string{"flags_all": cnative.U(uint64(c13FlagsOf(v))), "type": cnative.U(uint64(ct.TypeNATForward))}
			}})

		// value, TypeNATReverse.  The V6 constructors NewValueV6NATReverse{,SNAT} have no caller
		// anywhere in the tree and convert their address arguments with To4(); their address
		// parameters are therefore not driven here (noEnc) - the accessors are.
		revFields := append(append(append(append([]c13F{}, c13ValueCommonFields...), c13LegFields("ab_")...), c13LegFields("ba_")...),
			c13F{name: "tun_ip", kind: 'b', w: al, noEnc: v6}, c13F{name: "orig_ip", kind: 'b', w: al, noEnc: v6},
			c13F{name: "orig_port", kind: 'u', w: 2}, c13F{name: "orig_sport", kind: 'u', w: 2},
			c13F{name: "orig_sip", kind: 'b', w: al, noEnc: true})
		out = append(out, &c13Codec{id: "ct_value", name: "ct_value/nat_rev", ipver: ipver, fields: revFields,
			enc: func(v map[string]c13V) []byte {
				ls, fl, a, b := time.Duration(v["last_seen"].u), c13FlagsOf(v), c13LegFrom(v, "ab_"), c13LegFrom(v, "ba_")
				if v6 {
					e := ct.NewValueV6NATReverse(ls, fl, a, b, nil, nil, uint16(v["orig_port"].u))
					e.SetOrigSport(uint16(v["orig_sport"].u))
					return e.AsBytes()
				}
				e := ct.NewValueNATReverse(ls, fl, a, b, c13IP(v["tun_ip"].b), c13IP(v["orig_ip"].b), uint16(v["orig_port"].u))
				e.SetOrigSport(uint16(v["orig_sport"].u))
				return e.AsBytes()
			},
			dec: func(b []byte) map[string]c13V {
				e := valFrom(b)
				o := map[string]c13V{}
				c13ValueCommon(o, e)
				d := e.Data()
				c13LegTo(o, "ab_", d.A2B)
				c13LegTo(o, "ba_", d.B2A)
				// both access paths must agree: Value accessors and Data()
				if !d.OrigDst.Equal(e.OrigIP()) || !d.OrigSrc.Equal(e.OrigSrcIP()) || d.OrigPort != e.OrigPort() || d.OrigSPort != e.OrigSPort() {
					o["orig_ip"] = c13V{b: []byte("Data() and accessor methods disagree")}
					return o
				}
				o["tun_ip"] = c13V{b: []byte(d.TunIP)}
				o["orig_ip"] = c13V{b: []byte(e.OrigIP())}
				o["orig_port"] = c13V{u: uint64(e.OrigPort())}
				o["orig_sport"] = c13V{u: uint64(e.OrigSPort())}
				o["orig_sip"] = c13V{b: []byte(e.OrigSrcIP())}
				return o
			},
			extra: func(v map[string]c13V) map[string]string {
				return map[string]string{"flags_all": cnative.U(uint64(c13FlagsOf(v))), "type": cnative.U(uint64(ct.TypeNATReverse))}
			}})

		// cleanup queue value
		out = append(out, &c13Codec{id: "ccq_value", name: "ccq_value", ipver: ipver,
			fields: []c13F{{name: "rev_key", kind: 'b', w: keyLen}, {name: "last_seen", kind: 'u', w: 8}, {name: "rev_last_seen", kind: 'u', w: 8}},
			enc: func(v map[string]c13V) []byte {
				if v6 {
					return cleanupv1.NewValueV6(v["rev_key"].b, v["last_seen"].u, v["rev_last_seen"].u).AsBytes()
				}
				return cleanupv1.NewValue(v["rev_key"].b, v["last_seen"].u, v["rev_last_seen"].u).AsBytes()
			},
			dec: func(b []byte) map[string]c13V {
				var e cleanupv1.ValueInterface
				if v6 {
					var x cleanupv1.ValueV6
					copy(x[:], b)
					e = x
				} else {
					var x cleanupv1.Value
					copy(x[:], b)
					e = x
				}
				return map[string]c13V{"rev_key": {b: e.OtherNATKey().AsBytes()}, "last_seen": {u: e.Timestamp()}, "rev_last_seen": {u: e.RevTimestamp()}}
			}})

		// NAT frontend key
		feFrom := func(b []byte) nat.FrontendKeyInterface {
			if v6 {
				return nat.FrontendKeyV6FromBytes(b)
			}
			return nat.FrontendKeyFromBytes(b)
		}
		mkCIDR := func(addr []byte, prefix int) ip.CIDR {
			if v6 {
				var a ip.V6Addr
				copy(a[:], addr)
				return ip.CIDRFromAddrAndPrefix(a, prefix)
			}
			var a ip.V4Addr
			copy(a[:], addr)
			return ip.CIDRFromAddrAndPrefix(a, prefix)
		}
		mkFE := func(v map[string]c13V) []byte {
			// "src_prefix" is a pseudo input (not a struct field): prefix length of the source CIDR
			prefix := al * 8
			if p, ok := v["src_prefix"]; ok {
				prefix = int(p.u)
			}
			cidr := mkCIDR(v["saddr"].b, prefix)
			if v6 {
				return nat.NewNATKeyV6Src(c13IP(v["addr"].b), uint16(v["port"].u), uint8(v["protocol"].u), cidr).AsBytes()
			}
			return nat.NewNATKeySrc(c13IP(v["addr"].b), uint16(v["port"].u), uint8(v["protocol"].u), cidr).AsBytes()
		}
		zeroPrefix := uint32(nat.ZeroCIDRPrefixLen)
		if v6 {
			zeroPrefix = nat.ZeroCIDRV6PrefixLen
		}
		out = append(out, &c13Codec{id: "nat_fe_key", name: "nat_fe_key", ipver: ipver,
			fields: []c13F{{name: "prefixlen", kind: 'u', w: 4, noEnc: true}, {name: "addr", kind: 'b', w: al}, {name: "port", kind: 'u', w: 2},
				{name: "protocol", kind: 'u', w: 1}, {name: "saddr", kind: 'b', w: al}},
			enc: mkFE,
			dec: func(b []byte) map[string]c13V {
				k := feFrom(b)
				pl := k.(interface{ PrefixLen() uint32 }).PrefixLen()
				o := map[string]c13V{"prefixlen": {u: uint64(pl)}, "addr": {b: []byte(k.Addr())}, "port": {u: uint64(k.Port())}, "protocol": {u: uint64(k.Proto())}}
				// SrcCIDR() is only meaningful for a valid LPM prefix
				if pl >= zeroPrefix && pl <= zeroPrefix+uint32(al*8) {
					a := []byte(k.SrcCIDR().Addr().AsNetIP())
					if !v6 {
						a = []byte(net.IP(a).To4())
					}
					o["saddr"] = c13V{b: a}
				}
				return o
			},
			fix: func(b []byte, l *cnative.Layout) {
				f := l.C.Structs["nat_fe_key"].Fields["prefixlen"]
				binary.LittleEndian.PutUint32(b[f.Off:], zeroPrefix+uint32(al*8))
			}})

		// NAT frontend value
		out = append(out, &c13Codec{id: "nat_fe_val", name: "nat_fe_val", ipver: ipver,
			fields: []c13F{{name: "id", kind: 'u', w: 4}, {name: "count", kind: 'u', w: 4}, {name: "local", kind: 'u', w: 4},
				{name: "affinity_timeo", kind: 'u', w: 4}, {name: "flags", kind: 'u', w: 4}},
			enc: func(v map[string]c13V) []byte {
				if v6 {
					return nat.NewNATValueV6WithFlags(uint32(v["id"].u), uint32(v["count"].u), uint32(v["local"].u), uint32(v["affinity_timeo"].u), uint32(v["flags"].u)).AsBytes()
				}
				return nat.NewNATValueWithFlags(uint32(v["id"].u), uint32(v["count"].u), uint32(v["local"].u), uint32(v["affinity_timeo"].u), uint32(v["flags"].u)).AsBytes()
			},
			dec: func(b []byte) map[string]c13V {
				type fv interface {
					ID() uint32
					Count() uint32
					LocalCount() uint32
					AffinityTimeout() time.Duration
					Flags() uint32
				}
				var e fv
				if v6 {
					e = nat.FrontendValueV6FromBytes(b)
				} else {
					e = nat.FrontendValueFromBytes(b)
				}
				return map[string]c13V{"id": {u: uint64(e.ID())}, "count": {u: uint64(e.Count())}, "local": {u: uint64(e.LocalCount())},
					"affinity_timeo": {u: uint64(e.AffinityTimeout() / time.Second)}, "flags": {u: uint64(e.Flags())}}
			}})

		// NAT backend key
		out = append(out, &c13Codec{id: "nat_be_key", name: "nat_be_key", ipver: ipver,
			fields: []c13F{{name: "id", kind: 'u', w: 4}, {name: "ordinal", kind: 'u', w: 4}},
			enc: func(v map[string]c13V) []byte {
				if v6 {
					return nat.NewNATBackendKeyV6(uint32(v["id"].u), uint32(v["ordinal"].u)).AsBytes()
				}
				return nat.NewNATBackendKey(uint32(v["id"].u), uint32(v["ordinal"].u)).AsBytes()
			},
			dec: func(b []byte) map[string]c13V {
				if v6 {
					k := nat.BackendKeyV6FromBytes(b)
					return map[string]c13V{"id": {u: uint64(k.ID())}, "ordinal": {u: uint64(k.Count())}}
				}
				k := nat.BackendKeyFromBytes(b)
				return map[string]c13V{"id": {u: uint64(k.ID())}, "ordinal": {u: uint64(k.Count())}}
			}})

		// NAT backend value / calico_nat_dest
		mkBE := func(v map[string]c13V) nat.BackendValueInterface {
			if v6 {
				return nat.NewNATBackendValueV6(c13IP(v["addr"].b), uint16(v["port"].u))
			}
			return nat.NewNATBackendValue(c13IP(v["addr"].b), uint16(v["port"].u))
		}
		beFrom := func(b []byte) nat.BackendValueInterface {
			if v6 {
				return nat.BackendValueV6FromBytes(b)
			}
			return nat.BackendValueFromBytes(b)
		}
		out = append(out, &c13Codec{id: "nat_dest", name: "nat_dest", ipver: ipver,
			fields: []c13F{{name: "addr", kind: 'b', w: al}, {name: "port", kind: 'u', w: 2}},
			enc:    func(v map[string]c13V) []byte { return mkBE(v).AsBytes() },
			dec: func(b []byte) map[string]c13V {
				k := beFrom(b)
				return map[string]c13V{"addr": {b: []byte(k.Addr())}, "port": {u: uint64(k.Port())}}
			}})

		// affinity key
		out = append(out, &c13Codec{id: "nat_aff_key", name: "nat_aff_key", ipver: ipver,
			fields: []c13F{{name: "nat_key_addr", kind: 'b', w: al}, {name: "nat_key_port", kind: 'u', w: 2},
				{name: "nat_key_protocol", kind: 'u', w: 1}, {name: "client_ip", kind: 'b', w: al}},
			enc: func(v map[string]c13V) []byte {
				if v6 {
					fe := nat.NewNATKeyV6(c13IP(v["nat_key_addr"].b), uint16(v["nat_key_port"].u), uint8(v["nat_key_protocol"].u))
					return nat.NewAffinityKeyV6(c13IP(v["client_ip"].b), fe).AsBytes()
				}
				fe := nat.NewNATKey(c13IP(v["nat_key_addr"].b), uint16(v["nat_key_port"].u), uint8(v["nat_key_protocol"].u))
				return nat.NewAffinityKey(c13IP(v["client_ip"].b), fe).AsBytes()
			},
			dec: func(b []byte) map[string]c13V {
				var k nat.AffinityKeyInterface
				if v6 {
					k = nat.AffinityKeyV6IntfFromBytes(b)
				} else {
					k = nat.AffinityKeyIntfFromBytes(b)
				}
				f := k.FrontendAffinityKey()
				return map[string]c13V{"nat_key_addr": {b: []byte(f.Addr())}, "nat_key_port": {u: uint64(f.Port())},
					"nat_key_protocol": {u: uint64(f.Proto())}, "client_ip": {b: []byte(k.ClientIP())}}
			}})

		// affinity value
		destLen := 0 // filled from the Go backend value type
		destLen = len(mkBE(map[string]c13V{"addr": {b: make([]byte, al)}, "port": {}}).AsBytes())
		out = append(out, &c13Codec{id: "nat_aff_val", name: "nat_aff_val", ipver: ipver,
			fields: []c13F{{name: "nat_dest", kind: 'b', w: destLen}, {name: "ts", kind: 'u', w: 8}},
			enc: func(v map[string]c13V) []byte {
				if v6 {
					var be nat.BackendValueV6
					copy(be[:], v["nat_dest"].b)
					return nat.NewAffinityValueV6(v["ts"].u, be).AsBytes()
				}
				var be nat.BackendValue
				copy(be[:], v["nat_dest"].b)
				return nat.NewAffinityValue(v["ts"].u, be).AsBytes()
			},
			dec: func(b []byte) map[string]c13V {
				var k nat.AffinityValueInterface
				if v6 {
					k = nat.AffinityValueV6IntfFromBytes(b)
				} else {
					k = nat.AffinityValueIntfFromBytes(b)
				}
				return map[string]c13V{"nat_dest": {b: k.Backend().AsBytes()}, "ts": {u: uint64(k.Timestamp())}}
			}})

		// maglev key
		out = append(out, &c13Codec{id: "maglev_key", name: "maglev_key", ipver: ipver,
			fields: []c13F{{name: "sid", kind: 'u', w: 4}, {name: "ordinal", kind: 'u', w: 4}},
			enc: func(v map[string]c13V) []byte {
				if v6 {
					return nat.NewMaglevBackendKeyV6(uint32(v["sid"].u), uint32(v["ordinal"].u)).AsBytes()
				}
				return nat.NewMaglevBackendKey(uint32(v["sid"].u), uint32(v["ordinal"].u)).AsBytes()
			},
			dec: func(b []byte) map[string]c13V {
				var k nat.MaglevBackendKeyInterface
				if v6 {
					k = nat.MaglevBackendKeyV6FromBytes(b)
				} else {
					k = nat.MaglevBackendKeyFromBytes(b)
				}
				return map[string]c13V{"sid": {u: uint64(k.SvcID())}, "ordinal": {u: uint64(k.Ordinal())}}
			}})
	}
	return out
}

// ---- (a) table ---------------------------------------------------------------------------

func c13ConstViews() []c13GoView {
	v4, v6 := []int{4}, []int{6}
	return []c13GoView{
		{"ct_value", "rst_seen", v4, ct.VoRSTSeen, 0, "conntrack/v4.VoRSTSeen"},
		{"ct_value", "last_seen", v4, ct.VoLastSeen, 0, "VoLastSeen"},
		{"ct_value", "type", v4, ct.VoType, 0, "VoType"},
		{"ct_value", "flags", v4, ct.VoFlags, 0, "VoFlags"},
		{"ct_value", "flags2", v4, ct.VoFlags2, 0, "VoFlags2"},
		{"ct_value", "flags3", v4, ct.VoFlags3, 0, "VoFlags3"},
		{"ct_value", "flags4", v4, ct.VoFlags4, 0, "VoFlags4"},
		{"ct_value", "nat_rev_key", v4, ct.VoRevKey, ct.KeySize, "VoRevKey/KeySize"},
		{"ct_value", "a_to_b", v4, ct.VoLegAB, len(ct.Leg{}.AsBytes()), "VoLegAB/len(Leg.AsBytes())"},
		{"ct_value", "b_to_a", v4, ct.VoLegBA, len(ct.Leg{}.AsBytes()), "VoLegBA/len(Leg.AsBytes())"},
		{"ct_value", "orig_ip", v4, ct.VoOrigIP, 0, "VoOrigIP"},
		{"ct_value", "orig_port", v4, ct.VoOrigPort, 0, "VoOrigPort"},
		{"ct_value", "orig_sport", v4, ct.VoOrigSPort, 0, "VoOrigSPort"},
		{"ct_value", "orig_sip", v4, ct.VoOrigSIP, 0, "VoOrigSIP"},
		{"ct_value", "tun_ip", v4, ct.VoTunIP, 0, "VoTunIP"},
		{"ct_value", "nat_sport", v4, ct.VoNATSPort, 0, "VoNATSPort"},

		{"ct_value", "rst_seen", v6, ct.VoRSTSeenV6, 0, "VoRSTSeenV6"},
		{"ct_value", "last_seen", v6, ct.VoLastSeenV6, 0, "VoLastSeenV6"},
		{"ct_value", "type", v6, ct.VoTypeV6, 0, "VoTypeV6"},
		{"ct_value", "flags", v6, ct.VoFlagsV6, 0, "VoFlagsV6"},
		{"ct_value", "flags2", v6, ct.VoFlags2V6, 0, "VoFlags2V6"},
		{"ct_value", "flags3", v6, ct.VoFlags3V6, 0, "VoFlags3V6"},
		{"ct_value", "flags4", v6, ct.VoFlags4V6, 0, "VoFlags4V6"},
		{"ct_value", "nat_rev_key", v6, ct.VoRevKeyV6, ct.KeyV6Size, "VoRevKeyV6/KeyV6Size"},
		{"ct_value", "a_to_b", v6, ct.VoLegABV6, len(ct.Leg{}.AsBytes()), "VoLegABV6"},
		{"ct_value", "b_to_a", v6, ct.VoLegBAV6, len(ct.Leg{}.AsBytes()), "VoLegBAV6"},
		{"ct_value", "orig_ip", v6, ct.VoOrigIPV6, 0, "VoOrigIPV6"},
		{"ct_value", "orig_port", v6, ct.VoOrigPortV6, 0, "VoOrigPortV6"},
		{"ct_value", "orig_sport", v6, ct.VoOrigSPortV6, 0, "VoOrigSPortV6"},
		{"ct_value", "orig_sip", v6, ct.VoOrigSIPV6, 0, "VoOrigSIPV6"},
		{"ct_value", "tun_ip", v6, ct.VoTunIPV6, 0, "VoTunIPV6"},
		{"ct_value", "nat_sport", v6, ct.VoNATSPortV6, 0, "VoNATSPortV6"},
	}
}

func c13BitIndex(a, b []byte) (idx int, n int) {
	idx = -1
	for i := range a {
		x := a[i] ^ b[i]
		if x != 0 {
			n += bits.OnesCount8(x)
			if idx < 0 {
				idx = i*8 + bits.TrailingZeros8(x)
			}
		}
	}
	return
}

// c13ProbeCodec derives, for every field of the codec, the bytes the Go constructor writes
// and the bytes the Go accessor reads, and compares them with the C field.
func c13ProbeCodec(t *testing.T, tb *cnative.Table, rec *ev.Recorder, c *c13Codec) {
	l := tb.L[c.ipver]
	csize := tb.StructSize(c.id, c.ipver)
	base := c.enc(c.zero())
	if len(base) != csize {
		t.Fatalf("C13 size disagreement (IPv%d): Go %s is %d bytes, sizeof(C %s) is %d", c.ipver, c.name, len(base), c.id, csize)
	}
	for _, f := range c.fields {
		cf, err := tb.Field(c.id, f.name, c.ipver)
		if err != nil {
			t.Fatalf("%v", err)
		}
		sizeOK := func(goSize int) bool { return goSize == cf.Size || (f.narrow && goSize < cf.Size) }
		if !f.noEnc {
			v := c.zero()
			v[f.name] = c13Ones(f)
			probe := c.enc(v)
			what := fmt.Sprintf("bytes written by the Go constructor of %s (IPv%d) for %s", c.name, c.ipver, f.name)
			if f.kind == 'B' {
				idx, n := c13BitIndex(base, probe)
				if !cf.IsBit || n != 1 || idx != cf.BitOff || cf.Bits != 1 {
					t.Fatalf("C13 layout disagreement: %s: Go sets bit index %d (%d bits changed); C bitfield is at bit index %d width %d",
						what, idx, n, cf.BitOff, cf.Bits)
				}
			} else {
				off, size := c13DiffSpan(base, probe)
				if off != cf.Off || !sizeOK(size) {
					t.Fatalf("C13 layout disagreement: %s: Go writes offset %d size %d; C field has offset %d size %d",
						what, off, size, cf.Off, cf.Size)
				}
			}
			key := fmt.Sprintf("%s.%s@v%d<-enc", c.name, f.name, c.ipver)
			rec.Case(true, key, func() any { return map[string]any{"row": key, "c_off": cf.Off, "c_size": cf.Size, "bit": cf.BitOff} },
				"table-row", "enc-probe", "struct:"+c.id)
		}
		if !f.noAcc && c.dec != nil {
			what := fmt.Sprintf("Go accessor of %s (IPv%d) for %s", c.name, c.ipver, f.name)
			setField := func(b []byte, on bool) {
				if cf.IsBit {
					if on {
						b[cf.BitOff/8] |= 1 << uint(cf.BitOff%8)
					} else {
						b[cf.BitOff/8] &^= 1 << uint(cf.BitOff%8)
					}
					return
				}
				for i := cf.Off; i < cf.Off+cf.Size; i++ {
					if on {
						b[i] = 0xff
					} else {
						b[i] = 0
					}
				}
			}
			in := make([]byte, csize)
			setField(in, true)
			if c.fix != nil && f.name != "prefixlen" {
				c.fix(in, l)
			}
			got, ok := c.dec(in)[f.name]
			want := c13Ones(f)
			if !ok || got.u != want.u || string(got.b) != string(want.b) || (f.kind != 'B' && !sizeOK(f.w)) {
				t.Fatalf("C13 layout disagreement: %s: with only the C field (offset %d size %d bit %d) set to all-ones Go reads %v (Go width %d), expected all-ones of the same width",
					what, cf.Off, cf.Size, cf.BitOff, got, f.w)
			}
			outb := c13Fill(0xff, csize)
			setField(outb, false)
			if c.fix != nil && f.name != "prefixlen" {
				c.fix(outb, l)
			}
			got = c.dec(outb)[f.name]
			if got.u != 0 || strings.Trim(string(got.b), "\x00") != "" {
				t.Fatalf("C13 layout disagreement: %s: with every byte except the C field (offset %d size %d bit %d) set, Go reads %v, expected zero",
					what, cf.Off, cf.Size, cf.BitOff, got)
			}
			key := fmt.Sprintf("%s.%s@v%d<-acc", c.name, f.name, c.ipver)
			rec.Case(true, key, func() any { return map[string]any{"row": key, "c_off": cf.Off, "c_size": cf.Size, "bit": cf.BitOff} },
				"table-row", "acc-probe", "struct:"+c.id)
		}
	}
}

func TestVerifC13MapsTable(t *testing.T) {
	ev.Quiet()
	rec := ev.New("C13", "maps-table",
		"exhaustive: every (struct, field, IP version) row of c13_layout.json for conntrack key/leg/value (normal, NAT-fwd, NAT-rev), cleanup-queue "+
			"value, NAT frontend/backend/affinity/maglev keys and values: conntrack Vo* constants and Key/Value sizes vs C offsetof/sizeof, bytes written "+
			"by each Go constructor parameter and bytes read by each Go accessor (derived by probing) vs the C field's offset/size/bit position, "+
			"Go MapParameters key/value sizes vs the C map declarations. Every row is non-trivial; distinct = (row, Go view)",
		"hand-maintained mapping file c13_layout.json lists the shared fields",
		"V6 NAT-reverse address constructor parameters are not driven (constructors unused in the tree, see harness comment)")
	defer rec.Write()
	env := c13Start(t)
	tb := cnative.NewTable(env.spec, env.l, "conntrack")

	for _, v := range c13ConstViews() {
		c13CheckView(t, tb, rec, v)
	}
	for _, c := range c13Codecs() {
		c13ProbeCodec(t, tb, rec, c)
	}
	// struct calico_nat (frontend part of the affinity key): Go FrontEndAffinityKey{,V6} type
	c13CheckView(t, tb, rec, c13GoView{"nat_aff_key", "nat_key", []int{4}, 0,
		len(nat.AffinityKeyFromBytes(make([]byte, 64)).FrontendAffinityKey().AsBytes()), "len(nat.FrontEndAffinityKey)"})
	c13CheckView(t, tb, rec, c13GoView{"nat_aff_key", "nat_key", []int{6}, 0,
		len(nat.AffinityKeyV6FromBytes(make([]byte, 64)).FrontendAffinityKey().AsBytes()), "len(nat.FrontEndAffinityKeyV6)"})
	// the leg struct used inside the value is the leg struct probed on its own
	for _, ipver := range c13Both {
		for _, n := range []string{"bytes", "packets", "seqno", "ifindex"} {
			lf, _ := tb.Field("ct_leg", n, ipver)
			ab, _ := tb.Field("ct_value", "ab_"+n, ipver)
			a, _ := tb.Field("ct_value", "a_to_b", ipver)
			if ab.Off != a.Off+lf.Off {
				t.Fatalf("HARNESS-GAP: nested leg offset inconsistent for %s (IPv%d)", n, ipver)
			}
		}
		if tb.StructSize("ct_leg", ipver) != len(ct.Leg{}.AsBytes()) {
			t.Fatalf("C13 size disagreement (IPv%d): Leg.AsBytes is %d bytes, sizeof(struct calico_ct_leg) is %d", ipver, len(ct.Leg{}.AsBytes()), tb.StructSize("ct_leg", ipver))
		}
	}

	// ---- map parameters ----
	type mp struct {
		id       string
		p        map[int]maps.MapParameters
		keySt    string
		valSt    string
		goKeyLen map[int]int
		goValLen map[int]int
	}
	mps := []mp{
		{"ct", map[int]maps.MapParameters{4: ct.MapParams, 6: ct.MapParamsV6}, "ct_key", "ct_value",
			map[int]int{4: len(ct.Key{}), 6: len(ct.KeyV6{})}, map[int]int{4: len(ct.Value{}), 6: len(ct.ValueV6{})}},
		{"ccq", map[int]maps.MapParameters{4: cleanupv1.MapParams, 6: cleanupv1.MapParamsV6}, "ct_key", "ccq_value",
			map[int]int{4: len(ct.Key{}), 6: len(ct.KeyV6{})}, map[int]int{4: len(cleanupv1.Value{}), 6: len(cleanupv1.ValueV6{})}},
		{"nat_fe", map[int]maps.MapParameters{4: nat.FrontendMapParameters, 6: nat.FrontendMapV6Parameters}, "nat_fe_key", "nat_fe_val",
			map[int]int{4: len(nat.FrontendKey{}), 6: len(nat.FrontendKeyV6{})}, map[int]int{4: len(nat.FrontendValue{}), 6: len(nat.FrontendValueV6{})}},
		{"nat_be", map[int]maps.MapParameters{4: nat.BackendMapParameters, 6: nat.BackendMapV6Parameters}, "nat_be_key", "nat_dest",
			map[int]int{4: len(nat.BackendKey{}), 6: len(nat.BackendKeyV6{})}, map[int]int{4: len(nat.BackendValue{}), 6: len(nat.BackendValueV6{})}},
		{"nat_aff", map[int]maps.MapParameters{4: nat.AffinityMapParameters, 6: nat.AffinityMapV6Parameters}, "nat_aff_key", "nat_aff_val",
			map[int]int{4: len(nat.AffinityKey{}), 6: len(nat.AffinityKeyV6{})}, map[int]int{4: len(nat.AffinityValue{}), 6: len(nat.AffinityValueV6{})}},
		{"mglv", map[int]maps.MapParameters{4: nat.MaglevMapParameters, 6: nat.MaglevMapV6Parameters}, "maglev_key", "nat_dest",
			map[int]int{4: len(nat.MaglevBackendKey{}), 6: len(nat.MaglevBackendKeyV6{})}, map[int]int{4: len(nat.BackendValue{}), 6: len(nat.BackendValueV6{})}},
	}
	for _, m := range mps {
		for _, ipver := range c13Both {
			cm, err := tb.Map(m.id, ipver)
			if err != nil {
				t.Fatalf("%v", err)
			}
			p := m.p[ipver]
			ks, vs := tb.StructSize(m.keySt, ipver), tb.StructSize(m.valSt, ipver)
			if p.KeySize != cm.Key || p.ValueSize != cm.Value || m.goKeyLen[ipver] != cm.Key || m.goValLen[ipver] != cm.Value || ks != cm.Key || vs != cm.Value {
				t.Fatalf("C13 total size disagreement, map %s (IPv%d): Go MapParameters{KeySize:%d ValueSize:%d}, Go key/value types %d/%d bytes; "+
					"C map %s key=%d value=%d (sizeof %s=%d, %s=%d)",
					p.Name, ipver, p.KeySize, p.ValueSize, m.goKeyLen[ipver], m.goValLen[ipver], cm.Sym, cm.Key, cm.Value, m.keySt, ks, m.valSt, vs)
			}
			key := fmt.Sprintf("map:%s@v%d", m.id, ipver)
			rec.Case(true, key, func() any { return map[string]any{"row": key, "key": cm.Key, "value": cm.Value, "c_sym": cm.Sym} }, "table-row", "map")
		}
	}

	if miss := tb.Missing(); len(miss) > 0 {
		t.Fatalf("HARNESS-GAP: rows of c13_layout.json (owner conntrack) never compared: %v", miss)
	}
	rec.Extra("exhaustive", true)
	rec.Extra("rows_compared", tb.Compared())
}

// ---- (b) round trips -----------------------------------------------------------------

func c13DrawValue(t *rapid.T, f c13F, mode string, seq *byte) c13V {
	switch f.kind {
	case 'B':
		if mode == "pattern" {
			return c13V{u: 1}
		}
		return c13V{u: c13B2u(rapid.Bool().Draw(t, f.name))}
	case 'b':
		b := make([]byte, f.w)
		if mode == "pattern" {
			for i := range b {
				*seq++
				if *seq == 0 {
					*seq = 1
				}
				b[i] = *seq
			}
			return c13V{b: b}
		}
		return c13V{b: rapid.SliceOfN(rapid.Byte(), f.w, f.w).Draw(t, f.name)}
	default:
		var u uint64
		if mode == "pattern" {
			for i := 0; i < f.w; i++ {
				*seq++
				if *seq == 0 {
					*seq = 1
				}
				u |= uint64(*seq) << (8 * uint(i))
			}
			return c13V{u: u}
		}
		u = rapid.OneOf(rapid.Uint64(), rapid.SampledFrom([]uint64{0, 1, 0x80, 0xff, 0x100, 0x8000, 0xffff, 0x80000000, 0xffffffff, 1 << 63, ^uint64(0)})).Draw(t, f.name)
		if f.w < 8 {
			u &= 1<<(8*uint(f.w)) - 1
		}
		return c13V{u: u}
	}
}

func TestVerifC13MapsRoundTrip(t *testing.T) {
	ev.Quiet()
	rec := ev.New("C13", "maps-roundtrip",
		"rapid: pick a structure variant (conntrack key, leg, value normal/NAT-fwd/NAT-rev, cleanup-queue value, NAT frontend key/value, backend "+
			"key/value, affinity key/value, maglev key) and IP version; random field values -> Go constructors -> bytes -> typed reads through the real "+
			"C struct (incl. ct_value_get_flags) must return the same values; then C typed assignments -> bytes -> Go accessors must return them. "+
			"Non-trivial = 'pattern' cases: every byte of every field distinct and non-zero (a shifted, swapped, narrowed or byte-swapped field is "+
			"visible); distinct = (variant, ipver, mode, value classes)")
	defer rec.Write()
	env := c13Start(t)
	codecs := c13Codecs()
	sort.Slice(codecs, func(i, j int) bool {
		if codecs[i].name != codecs[j].name {
			return codecs[i].name < codecs[j].name
		}
		return codecs[i].ipver < codecs[j].ipver
	})
	rapid.Check(t, func(t *rapid.T) {
		c := codecs[rapid.IntRange(0, len(codecs)-1).Draw(t, "codec")]
		l := env.l[c.ipver]
		mode := rapid.SampledFrom([]string{"pattern", "random", "random"}).Draw(t, "mode")
		seq := byte(rapid.IntRange(0, 200).Draw(t, "patternStart"))
		v := map[string]c13V{}
		for _, f := range c.fields {
			if f.noEnc {
				if f.kind == 'b' {
					v[f.name] = c13V{b: make([]byte, f.w)}
				} else {
					v[f.name] = c13V{}
				}
				continue
			}
			v[f.name] = c13DrawValue(t, f, mode, &seq)
		}
		if c.id == "nat_fe_key" {
			// source CIDR: the ip package masks the address to the prefix
			pl := rapid.IntRange(0, c13AddrLen(c.ipver)*8).Draw(t, "src_prefix")
			v["src_prefix"] = c13V{u: uint64(pl)}
			a := append([]byte{}, v["saddr"].b...)
			for i := range a {
				bitsLeft := pl - i*8
				switch {
				case bitsLeft <= 0:
					a[i] = 0
				case bitsLeft < 8:
					a[i] &= 0xff << uint(8-bitsLeft)
				}
			}
			v["saddr"] = c13V{b: a}
		}
		gb := c.enc(v)
		got, err := l.Decode(c.id, gb)
		if err != nil {
			t.Fatalf("C13: Go %s (IPv%d, %d bytes) cannot be read as the C struct: %v", c.name, c.ipver, len(gb), err)
		}
		var goSelf map[string]c13V
		if c.dec != nil {
			goSelf = c.dec(gb)
		}
		for _, f := range c.fields {
			want := c13CString(f, v[f.name])
			if f.noEnc {
				if f.noAcc || goSelf == nil {
					continue
				}
				// derived by the constructor: C must read what Go's own accessor reads
				gv, ok := goSelf[f.name]
				if !ok {
					continue
				}
				want = c13CString(f, gv)
			}
			if got[f.name] != want {
				t.Fatalf("C13 round trip Go->C: %s (IPv%d) field %s: Go wrote %s, the C struct reads %s\n values %v\n bytes % x",
					c.name, c.ipver, f.name, want, got[f.name], c13Show(c, v), gb)
			}
		}
		if c.extra != nil {
			for k, want := range c.extra(v) {
				if got[k] != want {
					t.Fatalf("C13 round trip Go->C: %s (IPv%d) %s: expected %s, C reads %s (values %v)", c.name, c.ipver, k, want, got[k], c13Show(c, v))
				}
			}
		}
		// C -> Go
		if c.dec != nil {
			cv := map[string]string{}
			exp := map[string]c13V{}
			for _, f := range c.fields {
				if f.noAcc {
					continue
				}
				val := v[f.name]
				if f.noEnc {
					val = c13DrawValue(t, f, mode, &seq)
					if f.name == "type" {
						val = c13V{u: goSelf["type"].u} // keep the variant
					}
					if f.name == "prefixlen" {
						val = goSelf["prefixlen"]
					}
				}
				exp[f.name] = val
				cv[f.name] = c13CString(f, val)
			}
			cb, err := l.Encode(c.id, nil, cv, nil)
			if err != nil {
				t.Fatalf("HARNESS-GAP: %v", err)
			}
			back := c.dec(cb)
			for _, f := range c.fields {
				if f.noAcc {
					continue
				}
				g, ok := back[f.name]
				if !ok && f.name == "saddr" {
					continue
				}
				if g.u != exp[f.name].u || string(g.b) != string(exp[f.name].b) {
					t.Fatalf("C13 round trip C->Go: %s (IPv%d) field %s: C assigned %s, Go accessor reads %v\n all assignments %v\n bytes % x",
						c.name, c.ipver, f.name, cv[f.name], g, cv, cb)
				}
			}
		}
		shape := fmt.Sprintf("%s v%d %s", c.name, c.ipver, mode)
		if mode != "pattern" {
			var cls []string
			for _, f := range c.fields {
				if f.kind == 'u' {
					cls = append(cls, fmt.Sprint(c13Cls(v[f.name].u)))
				}
			}
			shape += " " + strings.Join(cls, "")
		} else {
			shape += fmt.Sprint(" start=", seq%16)
		}
		rec.SizedCase(mode == "pattern", shape, len(c.fields), func() any {
			return map[string]any{"variant": c.name, "ipver": c.ipver, "mode": mode, "values": c13Show(c, v), "bytes": cnative.H(gb)}
		}, "variant:"+c.name, fmt.Sprintf("ipv%d", c.ipver), "mode:"+mode)
	})
}

func c13Show(c *c13Codec, v map[string]c13V) map[string]string {
	o := map[string]string{}
	for _, f := range c.fields {
		if f.kind == 'b' {
			o[f.name] = "0x" + cnative.H(v[f.name].b)
		} else {
			o[f.name] = fmt.Sprintf("%#x", v[f.name].u)
		}
	}
	return o
}

// TestVerifC13RegressCCQV6Timestamp is the plain regression input of a defect this check found
// and that was fixed in the tree (4a9af25): cleanupv1.ValueV6.Timestamp/RevTimestamp read
// offsets KeySize / KeySize+8 (the IPv4 key size) instead of the IPv6 offsets of
// struct cali_ccq_value.last_seen / rev_last_seen.
func TestVerifC13RegressCCQV6Timestamp(t *testing.T) {
	ev.Quiet()
	env := c13Start(t)
	st := env.l[6].C.Structs["ccq_value"]
	ls, rls := st.Fields["last_seen"], st.Fields["rev_last_seen"]
	key := make([]byte, ct.KeyV6Size)
	for i := range key {
		key[i] = byte(i + 1)
	}
	v := cleanupv1.NewValueV6(key, 0x1111111111111111, 0x2222222222222222)
	b := v.AsBytes()
	if binary.LittleEndian.Uint64(b[ls.Off:]) != 0x1111111111111111 || binary.LittleEndian.Uint64(b[rls.Off:]) != 0x2222222222222222 {
		t.Fatalf("C13 layout disagreement: cleanupv1.NewValueV6 does not write ts/rev_ts at the C offsets %d/%d: % x", ls.Off, rls.Off, b)
	}
	if v.Timestamp() != 0x1111111111111111 || v.RevTimestamp() != 0x2222222222222222 {
		t.Fatalf("C13 layout disagreement (regression of 4a9af25): cleanupv1.NewValueV6(key, ts=0x1111111111111111, rev_ts=0x2222222222222222): Timestamp()=%#x RevTimestamp()=%#x; "+
			"struct cali_ccq_value (IPv6) keeps last_seen at offset %d and rev_last_seen at %d, the accessors do not read them back",
			v.Timestamp(), v.RevTimestamp(), ls.Off, rls.Off)
	}
}
