package polprog

// C11 — BPF policy programs reach the same verdict as the policy semantics.
//
// Every case: generate a polprog.Rules configuration the way bpfEndpointManager builds one
// (workload interface / host interface / XDP), compile it with the real Builder (with a small
// per-program jump limit and a small trampoline stride so that programs are split across chained
// sub-programs and trampolines are emitted even for small configurations), load the generated
// IP sets through the real felix/bpf/ipsets encoders into an LPM-trie model, and execute the
// program on probe packets with the bpfvm interpreter.  The oracle is the small reference below
// (c11Ref*), written from the property statement and the documented semantics; it shares no
// code with the builder (and does not use rules.FilterRuleToIPVersion).

import (
	"fmt"
	"net/netip"
	"sort"
	"strings"
	"testing"

	"pgregory.net/rapid"

	"github.com/projectcalico/calico/felix/bpf/asm"
	"github.com/projectcalico/calico/felix/bpf/jump"
	"github.com/projectcalico/calico/felix/bpf/maps"
	"github.com/projectcalico/calico/felix/idalloc"
	"github.com/projectcalico/calico/felix/proto"
	"github.com/projectcalico/calico/verifkit/bpfvm"
	"github.com/projectcalico/calico/verifkit/ev"
)

// Known-finding signatures (see the final report).  When the driver lists a signature as a known
// open finding, exactly that input class is left out of generation so the search continues behind it.
const (
	c11SigDeadExit = "split-at-unreachable-point-leaves-dead-exit-stub"
)

// ---------------------------------------------------------------------------------------------
// Universe

var c11V4Pool = []string{
	"10.0.0.0", "10.0.0.1", "10.0.0.2", "10.0.0.3", "10.0.0.15", "10.0.0.16", "10.0.0.31", "10.0.0.32",
	"10.0.1.0", "10.0.1.1", "10.0.1.3", "10.0.1.4", "10.1.0.1", "11.0.0.1", "192.168.1.1", "138.0.0.1", "255.255.255.255", "0.0.0.0",
}

var c11V6Pool = []string{
	"fd00::", "fd00::1", "fd00::2", "fd00::1f", "fd00::20", "fd00::1:0:1", "fd00::8000:0:0:1", "fd00:0:0:1::1",
	"fd00:0:1::1", "fd00:1::1", "fd01::1", "fe80::1", "2001:db8::1", "7d00::1", "fd00::ffff:ffff:ffff:ffff", "::",
	"fd00:0:0:8000::1", "ff02::1",
}

var c11V4Lens = []int{0, 1, 8, 24, 25, 26, 27, 28, 29, 30, 31, 32}
var c11V6Lens = []int{0, 1, 8, 16, 31, 32, 33, 48, 63, 64, 65, 95, 96, 97, 120, 123, 126, 127, 128}

var c11Ports = []int{0, 1, 79, 80, 81, 1023, 1024, 8080, 65535}

// Protocol numbers probe packets can carry.
var c11PktProtos = []int{6, 17, 1, 58, 132, 136, 47}

// My own table of the protocol names the v3 API allows ("TCP", "UDP", "ICMP", "ICMPv6", "SCTP",
// "UDPLite"; Felix receives them lower-cased) — IANA numbers.
var c11ProtoNames = map[string]int{"tcp": 6, "udp": 17, "icmp": 1, "icmpv6": 58, "sctp": 132, "udplite": 136}

type c11Set struct {
	Name    string
	Port    bool // members are "ip,proto:port" (named-port / service sets) rather than CIDRs
	Members []string
	ID      uint64
}

func c11Addr(t *rapid.T, v6 bool, label string) netip.Addr {
	pool := c11V4Pool
	if v6 {
		pool = c11V6Pool
	}
	return netip.MustParseAddr(rapid.SampledFrom(pool).Draw(t, label))
}

func c11CIDR(t *rapid.T, v6 bool, allowCatchAll bool, label string) string {
	a := c11Addr(t, v6, label+".addr")
	lens := c11V4Lens
	if v6 {
		lens = c11V6Lens
	}
	l := rapid.SampledFrom(lens).Draw(t, label+".len")
	if l == 0 && !allowCatchAll {
		l = 1
	}
	return netip.PrefixFrom(a, l).Masked().String()
}

func c11PortRange(t *rapid.T, label string) *proto.PortRange {
	a := rapid.SampledFrom(c11Ports).Draw(t, label+".first")
	if rapid.IntRange(0, 2).Draw(t, label+".kind") == 0 {
		return &proto.PortRange{First: int32(a), Last: int32(a)}
	}
	b := rapid.SampledFrom(c11Ports).Draw(t, label+".last")
	if b < a {
		a, b = b, a
	}
	return &proto.PortRange{First: int32(a), Last: int32(b)}
}

func c11PortList(t *rapid.T, label string, long bool) []*proto.PortRange {
	n := rapid.IntRange(1, 3).Draw(t, label+".n")
	if long {
		n = rapid.IntRange(4, 24).Draw(t, label+".nlong")
	}
	var out []*proto.PortRange
	for i := 0; i < n; i++ {
		out = append(out, c11PortRange(t, fmt.Sprintf("%s[%d]", label, i)))
	}
	return out
}

// ---------------------------------------------------------------------------------------------
// Reference semantics (the oracle)

type c11RefPkt struct {
	V6       bool
	Proto    int
	Src      netip.Addr
	DstPre   netip.Addr
	DstPost  netip.Addr
	SPort    int
	DPortPre int
	DPortPst int
	ICMPType int
	ICMPCode int
	SrcHost  bool
	DstHost  bool
}

func (p c11RefPkt) String() string {
	return fmt.Sprintf("{v6=%v proto=%d %v:%d -> pre %v:%d post %v:%d icmp=%d/%d srcHost=%v dstHost=%v}",
		p.V6, p.Proto, p.Src, p.SPort, p.DstPre, p.DPortPre, p.DstPost, p.DPortPst, p.ICMPType, p.ICMPCode, p.SrcHost, p.DstHost)
}

func c11ProtoNum(p *proto.Protocol) (int, bool) {
	switch v := p.NumberOrName.(type) {
	case *proto.Protocol_Number:
		return int(v.Number), true
	case *proto.Protocol_Name:
		n, ok := c11ProtoNames[strings.ToLower(v.Name)]
		return n, ok
	}
	return 0, false
}

// c11NetsOfFamily splits a CIDR list by family.
func c11NetsOfFamily(nets []string, v6 bool) (same []netip.Prefix, other int) {
	for _, n := range nets {
		p := netip.MustParsePrefix(n)
		if p.Addr().Is6() == v6 {
			same = append(same, p)
		} else {
			other++
		}
	}
	return
}

func c11InNets(a netip.Addr, nets []netip.Prefix) bool {
	for _, n := range nets {
		if n.Contains(a) {
			return true
		}
	}
	return false
}

func c11InNetSet(a netip.Addr, s *c11Set) bool {
	for _, m := range s.Members {
		var p netip.Prefix
		if strings.Contains(m, "/") {
			p = netip.MustParsePrefix(m)
		} else {
			ad := netip.MustParseAddr(m)
			p = netip.PrefixFrom(ad, ad.BitLen())
		}
		if p.Addr().Is6() == a.Is6() && p.Contains(a) {
			return true
		}
	}
	return false
}

func c11InPortSet(a netip.Addr, protoNum, port int, s *c11Set) bool {
	for _, m := range s.Members {
		// "ip,proto:port"
		i := strings.Index(m, ",")
		j := strings.LastIndex(m, ":")
		ip := netip.MustParseAddr(m[:i])
		pn := c11ProtoNames[m[i+1:j]]
		var pp int
		fmt.Sscanf(m[j+1:], "%d", &pp)
		if ip == a && pn == protoNum && pp == port {
			return true
		}
	}
	return false
}

type c11Leg struct {
	addr netip.Addr
	port int
}

// c11RuleApplies: a rule with an explicit IP version applies only to that version; a CIDR match
// whose CIDRs are all of the other family makes the rule not apply to this family (documented in
// the comment of rules.FilterRuleToIPVersion and in DESIGN §3.1).
func c11RuleApplies(r *proto.Rule, v6 bool) bool {
	want := proto.IPVersion_IPV4
	if v6 {
		want = proto.IPVersion_IPV6
	}
	if r.IpVersion != proto.IPVersion_ANY && r.IpVersion != want {
		return false
	}
	for _, nets := range [][]string{r.SrcNet, r.NotSrcNet, r.DstNet, r.NotDstNet} {
		if len(nets) == 0 {
			continue
		}
		same, _ := c11NetsOfFamily(nets, v6)
		if len(same) == 0 {
			return false
		}
	}
	return true
}

func c11PortsMatch(port int, ranges []*proto.PortRange) bool {
	for _, r := range ranges {
		if port >= int(r.First) && port <= int(r.Last) {
			return true
		}
	}
	return false
}

// c11RuleMatches: all match criteria of the rule are ANDed; numeric ports and named-port sets of
// one field are ORed; several IP-set ids in one field must all match.
func c11RuleMatches(r *proto.Rule, p c11RefPkt, dst c11Leg, sets map[string]*c11Set) bool {
	if !c11RuleApplies(r, p.V6) {
		return false
	}
	if r.Protocol != nil {
		n, ok := c11ProtoNum(r.Protocol)
		if !ok {
			panic("HARNESS-GAP: unknown protocol name generated")
		}
		if p.Proto != n {
			return false
		}
	}
	if r.NotProtocol != nil {
		n, ok := c11ProtoNum(r.NotProtocol)
		if !ok {
			panic("HARNESS-GAP: unknown protocol name generated")
		}
		if p.Proto == n {
			return false
		}
	}
	if len(r.SrcNet) > 0 {
		same, _ := c11NetsOfFamily(r.SrcNet, p.V6)
		if !c11InNets(p.Src, same) {
			return false
		}
	}
	if len(r.NotSrcNet) > 0 {
		same, _ := c11NetsOfFamily(r.NotSrcNet, p.V6)
		if c11InNets(p.Src, same) {
			return false
		}
	}
	if len(r.DstNet) > 0 {
		same, _ := c11NetsOfFamily(r.DstNet, p.V6)
		if !c11InNets(dst.addr, same) {
			return false
		}
	}
	if len(r.NotDstNet) > 0 {
		same, _ := c11NetsOfFamily(r.NotDstNet, p.V6)
		if c11InNets(dst.addr, same) {
			return false
		}
	}
	for _, id := range r.SrcIpSetIds {
		if !c11InNetSet(p.Src, sets[id]) {
			return false
		}
	}
	for _, id := range r.NotSrcIpSetIds {
		if c11InNetSet(p.Src, sets[id]) {
			return false
		}
	}
	for _, id := range r.DstIpSetIds {
		if !c11InNetSet(dst.addr, sets[id]) {
			return false
		}
	}
	for _, id := range r.NotDstIpSetIds {
		if c11InNetSet(dst.addr, sets[id]) {
			return false
		}
	}
	for _, id := range r.DstIpPortSetIds {
		if !c11InPortSet(dst.addr, p.Proto, dst.port, sets[id]) {
			return false
		}
	}
	anyNamed := func(a netip.Addr, port int, ids []string) bool {
		for _, id := range ids {
			if c11InPortSet(a, p.Proto, port, sets[id]) {
				return true
			}
		}
		return false
	}
	if len(r.SrcPorts) > 0 || len(r.SrcNamedPortIpSetIds) > 0 {
		if !(c11PortsMatch(p.SPort, r.SrcPorts) || anyNamed(p.Src, p.SPort, r.SrcNamedPortIpSetIds)) {
			return false
		}
	}
	if len(r.NotSrcPorts) > 0 || len(r.NotSrcNamedPortIpSetIds) > 0 {
		if c11PortsMatch(p.SPort, r.NotSrcPorts) || anyNamed(p.Src, p.SPort, r.NotSrcNamedPortIpSetIds) {
			return false
		}
	}
	if len(r.DstPorts) > 0 || len(r.DstNamedPortIpSetIds) > 0 {
		if !(c11PortsMatch(dst.port, r.DstPorts) || anyNamed(dst.addr, dst.port, r.DstNamedPortIpSetIds)) {
			return false
		}
	}
	if len(r.NotDstPorts) > 0 || len(r.NotDstNamedPortIpSetIds) > 0 {
		if c11PortsMatch(dst.port, r.NotDstPorts) || anyNamed(dst.addr, dst.port, r.NotDstNamedPortIpSetIds) {
			return false
		}
	}
	switch ic := r.Icmp.(type) {
	case *proto.Rule_IcmpType:
		if p.ICMPType != int(ic.IcmpType) {
			return false
		}
	case *proto.Rule_IcmpTypeCode:
		if p.ICMPType != int(ic.IcmpTypeCode.Type) || p.ICMPCode != int(ic.IcmpTypeCode.Code) {
			return false
		}
	}
	switch ic := r.NotIcmp.(type) {
	case *proto.Rule_NotIcmpType:
		if p.ICMPType == int(ic.NotIcmpType) {
			return false
		}
	case *proto.Rule_NotIcmpTypeCode:
		if p.ICMPType == int(ic.NotIcmpTypeCode.Type) && p.ICMPCode == int(ic.NotIcmpTypeCode.Code) {
			return false
		}
	}
	return true
}

type c11Outcome int

const (
	c11NoMatch c11Outcome = iota
	c11Allow
	c11Deny
	c11Unspecified // the documented semantics do not say (pass rule hit inside a profile)
)

func (o c11Outcome) String() string {
	return [...]string{"no-match", "allow", "deny", "unspecified"}[o]
}

type c11Trace struct {
	decidedBy string
	ruleHits  int
}

// Tiers in order; inside a tier policies and rules in order; the first matching allow/deny rule
// decides; a matching pass rule moves on to the next tier; a matching log rule has no effect on
// the verdict; if no rule of the tier decided, the tier's end action applies (deny, or pass to
// the next tier).
func c11RefTiers(name string, tiers []Tier, p c11RefPkt, dst c11Leg, sets map[string]*c11Set, tr *c11Trace) c11Outcome {
nextTier:
	for ti, tier := range tiers {
		for pi, pol := range tier.Policies {
			for ri, r := range pol.Rules {
				if !c11RuleMatches(r.Rule, p, dst, sets) {
					continue
				}
				tr.ruleHits++
				switch strings.ToLower(r.Action) {
				case "allow":
					tr.decidedBy = fmt.Sprintf("%s[%d].pol[%d].rule[%d] allow", name, ti, pi, ri)
					return c11Allow
				case "deny":
					tr.decidedBy = fmt.Sprintf("%s[%d].pol[%d].rule[%d] deny", name, ti, pi, ri)
					return c11Deny
				case "pass", "next-tier":
					continue nextTier
				case "log":
				default:
					panic("HARNESS-GAP: unknown action generated: " + r.Action)
				}
			}
		}
		switch tier.EndAction {
		case TierEndDeny:
			tr.decidedBy = fmt.Sprintf("%s[%d] end-of-tier deny", name, ti)
			return c11Deny
		case TierEndPass:
		default:
			panic("HARNESS-GAP: tier end action not generated by Felix")
		}
	}
	return c11NoMatch
}

// Profiles in order, first matching allow/deny decides; nothing matched: deny.
func c11RefProfiles(name string, profs []Profile, p c11RefPkt, dst c11Leg, sets map[string]*c11Set, tr *c11Trace) c11Outcome {
	for pi, prof := range profs {
		for ri, r := range prof.Rules {
			if !c11RuleMatches(r.Rule, p, dst, sets) {
				continue
			}
			tr.ruleHits++
			switch strings.ToLower(r.Action) {
			case "allow":
				tr.decidedBy = fmt.Sprintf("%s[%d].rule[%d] allow", name, pi, ri)
				return c11Allow
			case "deny":
				tr.decidedBy = fmt.Sprintf("%s[%d].rule[%d] deny", name, pi, ri)
				return c11Deny
			case "pass", "next-tier":
				tr.decidedBy = fmt.Sprintf("%s[%d].rule[%d] pass-in-profile", name, pi, ri)
				return c11Unspecified
			case "log":
			default:
				panic("HARNESS-GAP: unknown action generated: " + r.Action)
			}
		}
	}
	tr.decidedBy = name + " no profile matched: default deny"
	return c11Deny
}

// c11RefVerdict is the BPF variant of the endpoint verdict, from the documentation of
// polprog.Rules and of Builder.Instructions:
//   - XDP: the (untracked) HostNormalTiers are enforced on the pre-DNAT destination; traffic that
//     is neither allowed nor denied continues (no-match).
//   - pre-DNAT host policy first (pre-DNAT destination); allow skips the rest of host policy,
//     deny drops, otherwise continue;
//   - traffic to or from the host: normal host policy (tiers, then host profiles, default deny),
//     unless SuppressNormalHostPolicy;  forwarded traffic: apply-on-forward tiers, and traffic
//     continues if they do not decide;
//   - then, on a host interface, allow; on a workload interface the workload tiers and profiles,
//     default deny.
func c11RefVerdict(rules Rules, p c11RefPkt, sets map[string]*c11Set, tr *c11Trace) c11Outcome {
	pre := c11Leg{p.DstPre, p.DPortPre}
	post := c11Leg{p.DstPost, p.DPortPst}
	if rules.ForXDP {
		return c11RefTiers("xdp-untracked", rules.HostNormalTiers, p, pre, sets, tr)
	}
	hostDone := false
	switch c11RefTiers("host-prednat", rules.HostPreDnatTiers, p, pre, sets, tr) {
	case c11Deny:
		return c11Deny
	case c11Allow:
		hostDone = true
	}
	if !hostDone {
		if p.SrcHost || p.DstHost {
			if !rules.SuppressNormalHostPolicy {
				switch c11RefTiers("host-normal", rules.HostNormalTiers, p, post, sets, tr) {
				case c11Deny:
					return c11Deny
				case c11Allow:
				default:
					switch o := c11RefProfiles("host-profiles", rules.HostProfiles, p, post, sets, tr); o {
					case c11Deny, c11Unspecified:
						return o
					}
				}
			}
		} else {
			if c11RefTiers("host-forward", rules.HostForwardTiers, p, post, sets, tr) == c11Deny {
				return c11Deny
			}
		}
	}
	if rules.ForHostInterface {
		if tr.decidedBy == "" || !strings.HasSuffix(tr.decidedBy, "allow") {
			tr.decidedBy = "host interface: allowed by host policy"
		}
		return c11Allow
	}
	switch c11RefTiers("tiers", rules.Tiers, p, post, sets, tr) {
	case c11Deny:
		return c11Deny
	case c11Allow:
		return c11Allow
	}
	return c11RefProfiles("profiles", rules.Profiles, p, post, sets, tr)
}

// ---------------------------------------------------------------------------------------------
// Generators

type c11Gen struct {
	t        *rapid.T
	v6       bool
	netSets  []string
	portSets []string
	sets     map[string]*c11Set
	// all generated rules with the destination leg of their section, for witness packets
	allRules  []c11RuleAt
	longLists bool
}

type c11RuleAt struct {
	r      *proto.Rule
	preNAT bool
}

func (g *c11Gen) genSets() {
	t := g.t
	g.sets = map[string]*c11Set{}
	nNet := rapid.IntRange(0, 3).Draw(t, "nNetSets")
	for i := 0; i < nNet; i++ {
		s := &c11Set{Name: fmt.Sprintf("s:netset-%d-abcdefgh", i)}
		n := rapid.IntRange(0, 4).Draw(t, fmt.Sprintf("netset[%d].n", i))
		for j := 0; j < n; j++ {
			// Mostly this family; sometimes a member of the other family (which Felix's encoder
			// leaves out of this family's map).
			fam := g.v6
			if rapid.IntRange(0, 7).Draw(t, fmt.Sprintf("netset[%d][%d].otherfam", i, j)) == 0 {
				fam = !fam
			}
			s.Members = append(s.Members, c11CIDR(t, fam, true, fmt.Sprintf("netset[%d][%d]", i, j)))
		}
		g.sets[s.Name] = s
		g.netSets = append(g.netSets, s.Name)
	}
	nPort := rapid.IntRange(0, 2).Draw(t, "nPortSets")
	for i := 0; i < nPort; i++ {
		s := &c11Set{Name: fmt.Sprintf("n:portset-%d-abcdefgh", i), Port: true}
		n := rapid.IntRange(0, 4).Draw(t, fmt.Sprintf("portset[%d].n", i))
		for j := 0; j < n; j++ {
			a := c11Addr(t, g.v6, fmt.Sprintf("portset[%d][%d].ip", i, j))
			pr := rapid.SampledFrom([]string{"tcp", "udp"}).Draw(t, fmt.Sprintf("portset[%d][%d].proto", i, j))
			po := rapid.SampledFrom(c11Ports).Draw(t, fmt.Sprintf("portset[%d][%d].port", i, j))
			s.Members = append(s.Members, fmt.Sprintf("%s,%s:%d", a, pr, po))
		}
		g.sets[s.Name] = s
		g.portSets = append(g.portSets, s.Name)
	}
}

func (g *c11Gen) genProtocol(label string, wantPorts, wantICMP bool) *proto.Protocol {
	t := g.t
	type cand struct {
		name string
		num  int
	}
	var cands []cand
	switch {
	case wantPorts:
		cands = []cand{{"tcp", 6}, {"udp", 17}, {"sctp", 132}}
	case wantICMP:
		if g.v6 {
			cands = []cand{{"icmpv6", 58}}
		} else {
			cands = []cand{{"icmp", 1}}
		}
	default:
		cands = []cand{{"tcp", 6}, {"udp", 17}, {"sctp", 132}, {"icmp", 1}, {"icmpv6", 58}, {"udplite", 136}, {"", 47}, {"", 255}}
	}
	c := rapid.SampledFrom(cands).Draw(t, label)
	byName := c.name != "" && rapid.Bool().Draw(t, label+".byName")
	if byName {
		return &proto.Protocol{NumberOrName: &proto.Protocol_Name{Name: c.name}}
	}
	return &proto.Protocol{NumberOrName: &proto.Protocol_Number{Number: int32(c.num)}}
}

func (g *c11Gen) pick(label string, from []string, max int) []string {
	if len(from) == 0 || max == 0 {
		return nil
	}
	n := rapid.IntRange(1, max).Draw(g.t, label+".n")
	var out []string
	for i := 0; i < n; i++ {
		out = append(out, rapid.SampledFrom(from).Draw(g.t, fmt.Sprintf("%s[%d]", label, i)))
	}
	return out
}

func (g *c11Gen) maybe(label string, oneIn int) bool {
	return rapid.IntRange(0, oneIn-1).Draw(g.t, label) == 0
}

// genRule builds a proto.Rule the way the calc graph hands it to the dataplane, honouring the v3
// validator's preconditions: numeric ports only with protocol tcp/udp/sctp; ICMP matches only with
// protocol ICMP (v4) / ICMPv6 (v6); CIDRs of one family only, consistent with ip_version; no
// negated catch-all CIDR; at most one dst IP set id; no ports together with a service IP-port set.
func (g *c11Gen) genRule(label string, actions []string) *proto.Rule {
	t := g.t
	r := &proto.Rule{Action: rapid.SampledFrom(actions).Draw(t, label+".action")}
	r.RuleId = "rule-" + label
	shape := rapid.IntRange(0, 9).Draw(t, label+".shape")
	if shape == 0 {
		return r // match-all rule
	}
	oneIn := 4
	if shape >= 8 {
		oneIn = 2 // kitchen-sink rule
	}
	kind := rapid.IntRange(0, 5).Draw(t, label+".l4kind") // 0,1: none; 2,3: ports; 4: icmp; 5: proto only
	switch kind {
	case 2, 3:
		r.Protocol = g.genProtocol(label+".proto", true, false)
		pn, _ := c11ProtoNum(r.Protocol)
		named := pn != 132 // the BPF ipset encoders only represent tcp/udp named ports
		long := g.longLists && g.maybe(label+".longports", 3)
		if g.maybe(label+".hasSrcPorts", oneIn) {
			r.SrcPorts = c11PortList(t, label+".srcPorts", long)
		}
		if named && g.maybe(label+".hasSrcNamed", oneIn+2) {
			r.SrcNamedPortIpSetIds = g.pick(label+".srcNamed", g.portSets, 2)
		}
		if g.maybe(label+".hasNotSrcPorts", oneIn+1) {
			r.NotSrcPorts = c11PortList(t, label+".notSrcPorts", false)
		}
		if named && g.maybe(label+".hasNotSrcNamed", oneIn+3) {
			r.NotSrcNamedPortIpSetIds = g.pick(label+".notSrcNamed", g.portSets, 2)
		}
		if named && g.maybe(label+".hasSvc", 6) {
			r.DstIpPortSetIds = g.pick(label+".dstIpPort", g.portSets, 1)
		} else {
			if g.maybe(label+".hasDstPorts", 2) {
				r.DstPorts = c11PortList(t, label+".dstPorts", long)
			}
			if named && g.maybe(label+".hasDstNamed", oneIn+1) {
				r.DstNamedPortIpSetIds = g.pick(label+".dstNamed", g.portSets, 2)
			}
			if g.maybe(label+".hasNotDstPorts", oneIn+1) {
				r.NotDstPorts = c11PortList(t, label+".notDstPorts", false)
			}
			if named && g.maybe(label+".hasNotDstNamed", oneIn+3) {
				r.NotDstNamedPortIpSetIds = g.pick(label+".notDstNamed", g.portSets, 2)
			}
		}
	case 4:
		r.Protocol = g.genProtocol(label+".proto", false, true)
		ty := int32(rapid.SampledFrom([]int{0, 3, 8, 128, 254}).Draw(t, label+".icmpType"))
		co := int32(rapid.SampledFrom([]int{0, 1, 255}).Draw(t, label+".icmpCode"))
		switch rapid.IntRange(0, 3).Draw(t, label+".icmpKind") {
		case 0:
			r.Icmp = &proto.Rule_IcmpType{IcmpType: ty}
		case 1:
			r.Icmp = &proto.Rule_IcmpTypeCode{IcmpTypeCode: &proto.IcmpTypeAndCode{Type: ty, Code: co}}
		case 2:
			r.NotIcmp = &proto.Rule_NotIcmpType{NotIcmpType: ty}
		case 3:
			r.NotIcmp = &proto.Rule_NotIcmpTypeCode{NotIcmpTypeCode: &proto.IcmpTypeAndCode{Type: ty, Code: co}}
		}
	case 5:
		r.Protocol = g.genProtocol(label+".proto", false, false)
	default:
		// No protocol: named ports alone are allowed by the validator.
		if g.maybe(label+".hasDstNamedNoProto", 6) {
			r.DstNamedPortIpSetIds = g.pick(label+".dstNamed", g.portSets, 2)
		}
		if g.maybe(label+".hasSrcNamedNoProto", 10) {
			r.SrcNamedPortIpSetIds = g.pick(label+".srcNamed", g.portSets, 1)
		}
	}
	if g.maybe(label+".hasNotProto", oneIn+2) {
		r.NotProtocol = g.genProtocol(label+".notProto", false, false)
	}

	// CIDRs: one family per rule.
	fam := g.v6
	if g.maybe(label+".otherFamilyNets", 8) {
		fam = !fam
	}
	nets := func(lbl string, catchAll bool) []string {
		n := rapid.IntRange(1, 3).Draw(t, lbl+".n")
		if g.longLists && g.maybe(lbl+".long", 4) {
			n = rapid.IntRange(4, 16).Draw(t, lbl+".nlong")
		}
		var out []string
		for i := 0; i < n; i++ {
			out = append(out, c11CIDR(t, fam, catchAll, fmt.Sprintf("%s[%d]", lbl, i)))
		}
		return out
	}
	hasNets := false
	if g.maybe(label+".hasSrcNet", oneIn) {
		r.SrcNet = nets(label+".srcNet", true)
		hasNets = true
	}
	if g.maybe(label+".hasDstNet", oneIn) {
		r.DstNet = nets(label+".dstNet", true)
		hasNets = true
	}
	if g.maybe(label+".hasNotSrcNet", oneIn+2) {
		r.NotSrcNet = nets(label+".notSrcNet", false)
		hasNets = true
	}
	if g.maybe(label+".hasNotDstNet", oneIn+2) {
		r.NotDstNet = nets(label+".notDstNet", false)
		hasNets = true
	}

	// IP sets.
	if g.maybe(label+".hasSrcSets", oneIn) {
		r.SrcIpSetIds = g.pick(label+".srcSets", g.netSets, 2)
	}
	if g.maybe(label+".hasDstSets", oneIn) {
		r.DstIpSetIds = g.pick(label+".dstSets", g.netSets, 1)
	}
	if g.maybe(label+".hasNotSrcSets", oneIn+2) {
		r.NotSrcIpSetIds = g.pick(label+".notSrcSets", g.netSets, 2)
	}
	if g.maybe(label+".hasNotDstSets", oneIn+2) {
		r.NotDstIpSetIds = g.pick(label+".notDstSets", g.netSets, 2)
	}

	// ip_version: what calc's ipVersionToProtoIPVersion produces, constrained by the validator:
	// explicit version must equal the CIDR family; protocol ICMP needs 4 (or unset), ICMPv6 needs 6
	// (or unset); with the *names* icmp/icmpv6 and no explicit version calc derives 4/6.
	famVer := proto.IPVersion_IPV4
	if fam {
		famVer = proto.IPVersion_IPV6
	}
	forced := proto.IPVersion_ANY // forced by protocol
	derived := proto.IPVersion_ANY
	need4, need6 := false, false
	for _, pr := range []*proto.Protocol{r.Protocol, r.NotProtocol} {
		if pr == nil {
			continue
		}
		n, _ := c11ProtoNum(pr)
		need4 = need4 || n == 1
		need6 = need6 || n == 58
	}
	switch {
	case need4 && need6:
		forced = -1 // icmp and icmpv6 in one rule: only "no explicit version" validates
	case need4:
		forced = proto.IPVersion_IPV4
	case need6:
		forced = proto.IPVersion_IPV6
	}
	if r.Protocol != nil {
		if nm, ok := r.Protocol.NumberOrName.(*proto.Protocol_Name); ok {
			if nm.Name == "icmp" {
				derived = proto.IPVersion_IPV4
			} else if nm.Name == "icmpv6" {
				derived = proto.IPVersion_IPV6
			}
		}
	}
	explicit := proto.IPVersion_ANY
	if g.maybe(label+".explicitVersion", 3) {
		switch {
		case forced == -1:
		case hasNets && (forced == proto.IPVersion_ANY || forced == famVer):
			explicit = famVer
		case hasNets:
			// CIDR family conflicts with the ICMP flavour: only "no explicit version" validates.
		case forced != proto.IPVersion_ANY:
			explicit = forced
		default:
			explicit = rapid.SampledFrom([]proto.IPVersion{proto.IPVersion_IPV4, proto.IPVersion_IPV6}).Draw(t, label+".version")
		}
	}
	if explicit != proto.IPVersion_ANY {
		r.IpVersion = explicit
	} else {
		r.IpVersion = derived
	}
	return r
}

var c11PolicyActions = []string{"allow", "allow", "deny", "deny", "pass", "next-tier", "log"}

func (g *c11Gen) genTiers(label string, maxTiers int, preNAT bool, endActions []TierEndAction) []Tier {
	t := g.t
	n := rapid.IntRange(0, maxTiers).Draw(t, label+".nTiers")
	var out []Tier
	for ti := 0; ti < n; ti++ {
		tl := fmt.Sprintf("%s[%d]", label, ti)
		tier := Tier{Name: fmt.Sprintf("tier-%s-%d", label, ti), EndRuleID: uint64(0xE000 + len(g.allRules)*16 + ti)}
		np := rapid.IntRange(1, 3).Draw(t, tl+".nPols")
		staged := 0
		for pi := 0; pi < np; pi++ {
			pl := fmt.Sprintf("%s.pol[%d]", tl, pi)
			// A staged policy leaves an empty Policy{} slot in the slice (extractTiers skips it).
			if g.maybe(pl+".staged", 8) {
				tier.Policies = append(tier.Policies, Policy{})
				staged++
				continue
			}
			pol := Policy{Kind: "GlobalNetworkPolicy", Name: fmt.Sprintf("pol-%d-%d", ti, pi)}
			if g.maybe(pl+".namespaced", 3) {
				pol.Kind = "NetworkPolicy"
				pol.Namespace = "ns1"
			}
			nr := rapid.IntRange(0, 4).Draw(t, pl+".nRules")
			for ri := 0; ri < nr; ri++ {
				pr := g.genRule(fmt.Sprintf("%s.rule[%d]", pl, ri), c11PolicyActions)
				g.allRules = append(g.allRules, c11RuleAt{pr, preNAT})
				pol.Rules = append(pol.Rules, Rule{Rule: pr, MatchID: uint64(0x1000 + len(g.allRules))})
			}
			tier.Policies = append(tier.Policies, pol)
		}
		if staged == np {
			tier.EndAction = TierEndPass // a tier with only staged policies passes
		} else {
			tier.EndAction = rapid.SampledFrom(endActions).Draw(t, tl+".endAction")
		}
		out = append(out, tier)
	}
	return out
}

func (g *c11Gen) genProfiles(label string, max int) []Profile {
	t := g.t
	n := rapid.IntRange(0, max).Draw(t, label+".nProfiles")
	actions := []string{"allow", "allow", "allow", "deny", "deny", "log", "pass"}
	var out []Profile
	for pi := 0; pi < n; pi++ {
		pl := fmt.Sprintf("%s[%d]", label, pi)
		prof := Profile{Name: fmt.Sprintf("prof-%s-%d", label, pi)}
		nr := rapid.IntRange(0, 3).Draw(t, pl+".nRules")
		for ri := 0; ri < nr; ri++ {
			pr := g.genRule(fmt.Sprintf("%s.rule[%d]", pl, ri), actions)
			g.allRules = append(g.allRules, c11RuleAt{pr, false})
			prof.Rules = append(prof.Rules, Rule{Rule: pr, MatchID: uint64(0x1000 + len(g.allRules))})
		}
		out = append(out, prof)
	}
	return out
}

// witness builds a packet that tries to satisfy the positive criteria of rule ra (best effort).
func (g *c11Gen) genPacket(label string) c11RefPkt {
	t := g.t
	p := c11RefPkt{V6: g.v6}
	p.Proto = rapid.SampledFrom(c11PktProtos).Draw(t, label+".proto")
	p.Src = c11Addr(t, g.v6, label+".src")
	p.DstPost = c11Addr(t, g.v6, label+".dst")
	p.SPort = rapid.SampledFrom(c11Ports).Draw(t, label+".sport")
	p.DPortPst = rapid.SampledFrom(c11Ports).Draw(t, label+".dport")
	p.ICMPType = rapid.SampledFrom([]int{0, 3, 8, 128, 254, 9}).Draw(t, label+".icmpType")
	p.ICMPCode = rapid.SampledFrom([]int{0, 1, 255}).Draw(t, label+".icmpCode")
	dstLegIsPre := false

	if len(g.allRules) > 0 && rapid.IntRange(0, 3).Draw(t, label+".useWitness") != 0 {
		ra := rapid.SampledFrom(g.allRules).Draw(t, label+".witnessOf")
		r := ra.r
		dstLegIsPre = ra.preNAT
		if r.Protocol != nil {
			p.Proto, _ = c11ProtoNum(r.Protocol)
		}
		inPrefix := func(nets []string, lbl string) (netip.Addr, bool) {
			same, _ := c11NetsOfFamily(nets, g.v6)
			if len(same) == 0 {
				return netip.Addr{}, false
			}
			pf := rapid.SampledFrom(same).Draw(t, lbl+".cidr")
			// candidates: pool addresses inside the prefix, else the prefix's own address
			pool := c11V4Pool
			if g.v6 {
				pool = c11V6Pool
			}
			var in []netip.Addr
			for _, s := range pool {
				a := netip.MustParseAddr(s)
				if pf.Contains(a) {
					in = append(in, a)
				}
			}
			in = append(in, pf.Addr())
			return rapid.SampledFrom(in).Draw(t, lbl+".addr"), true
		}
		fromNetSet := func(ids []string, lbl string) (netip.Addr, bool) {
			if len(ids) == 0 {
				return netip.Addr{}, false
			}
			return inPrefix(g.sets[ids[0]].Members, lbl)
		}
		fromPortSet := func(ids []string, lbl string) (netip.Addr, int, int, bool) {
			if len(ids) == 0 || len(g.sets[ids[0]].Members) == 0 {
				return netip.Addr{}, 0, 0, false
			}
			m := rapid.SampledFrom(g.sets[ids[0]].Members).Draw(t, lbl+".member")
			i := strings.Index(m, ",")
			j := strings.LastIndex(m, ":")
			var port int
			fmt.Sscanf(m[j+1:], "%d", &port)
			return netip.MustParseAddr(m[:i]), c11ProtoNames[m[i+1:j]], port, true
		}
		if a, ok := inPrefix(r.SrcNet, label+".wSrcNet"); ok {
			p.Src = a
		} else if a, ok := fromNetSet(r.SrcIpSetIds, label+".wSrcSet"); ok {
			p.Src = a
		}
		if a, ok := inPrefix(r.DstNet, label+".wDstNet"); ok {
			p.DstPost = a
		} else if a, ok := fromNetSet(r.DstIpSetIds, label+".wDstSet"); ok {
			p.DstPost = a
		}
		if len(r.SrcPorts) > 0 {
			pr := rapid.SampledFrom(r.SrcPorts).Draw(t, label+".wSrcPort")
			p.SPort = int(rapid.SampledFrom([]int32{pr.First, pr.Last}).Draw(t, label+".wSrcPortEnd"))
		} else if a, pn, po, ok := fromPortSet(r.SrcNamedPortIpSetIds, label+".wSrcNamed"); ok {
			p.Src, p.SPort = a, po
			if r.Protocol == nil {
				p.Proto = pn
			}
		}
		if len(r.DstPorts) > 0 {
			pr := rapid.SampledFrom(r.DstPorts).Draw(t, label+".wDstPort")
			p.DPortPst = int(rapid.SampledFrom([]int32{pr.First, pr.Last}).Draw(t, label+".wDstPortEnd"))
		} else if a, pn, po, ok := fromPortSet(r.DstNamedPortIpSetIds, label+".wDstNamed"); ok {
			p.DstPost, p.DPortPst = a, po
			if r.Protocol == nil {
				p.Proto = pn
			}
		}
		if a, pn, po, ok := fromPortSet(r.DstIpPortSetIds, label+".wDstIpPort"); ok {
			p.DstPost, p.DPortPst = a, po
			if r.Protocol == nil {
				p.Proto = pn
			}
		}
		switch ic := r.Icmp.(type) {
		case *proto.Rule_IcmpType:
			p.ICMPType = int(ic.IcmpType)
		case *proto.Rule_IcmpTypeCode:
			p.ICMPType, p.ICMPCode = int(ic.IcmpTypeCode.Type), int(ic.IcmpTypeCode.Code)
		}
		// Perturb one field to sit just outside a boundary.
		switch rapid.IntRange(0, 9).Draw(t, label+".perturb") {
		case 0:
			p.SPort = (p.SPort + 1) & 0xffff
		case 1:
			p.DPortPst = (p.DPortPst + 65535) & 0xffff
		case 2:
			p.DPortPst = (p.DPortPst + 1) & 0xffff
		case 3:
			p.ICMPCode = (p.ICMPCode + 1) & 0xff
		case 4:
			p.Proto = rapid.SampledFrom(c11PktProtos).Draw(t, label+".perturbProto")
		}
	}

	// NAT: pre- and post-DNAT destination differ in about half of the packets.  The witness values
	// computed above sit on the leg the witnessed rule looks at.
	p.DstPre, p.DPortPre = p.DstPost, p.DPortPst
	if rapid.Bool().Draw(t, label+".dnat") {
		oa := c11Addr(t, g.v6, label+".natOtherAddr")
		op := rapid.SampledFrom(c11Ports).Draw(t, label+".natOtherPort")
		if dstLegIsPre {
			p.DstPost, p.DPortPst = oa, op
		} else {
			p.DstPre, p.DPortPre = oa, op
		}
	}
	switch rapid.IntRange(0, 5).Draw(t, label+".hostFlags") {
	case 0:
		p.SrcHost = true
	case 1:
		p.DstHost = true
	case 2:
		p.SrcHost, p.DstHost = true, true
	}
	return p
}

func (p c11RefPkt) toVM(rulesHit uint32) bpfvm.PolicyPacket {
	out := bpfvm.PolicyPacket{
		Proto: uint8(p.Proto), Src: p.Src, DstPreNAT: p.DstPre, DstPostNAT: p.DstPost, IPDst: p.DstPre,
		SPort: uint16(p.SPort), PreNATDPort: uint16(p.DPortPre), PostNATDPort: uint16(p.DPortPst),
		SrcIsHost: p.SrcHost, DstIsHost: p.DstHost, RulesHit: rulesHit,
	}
	if p.Proto == 1 || p.Proto == 58 {
		// For ICMP the kernel program stores type/code in the dport union.
		out.SetICMP(uint8(p.ICMPType), uint8(p.ICMPCode))
	} else {
		out.DPortOrICMP = uint16(p.DPortPre)
	}
	return out
}

// ---------------------------------------------------------------------------------------------
// One case

type c11Config struct {
	V6, XDP, FlowLogs, Debug, UseJumps bool
	SplitEnabled                       bool
	MaxJumps                           int
	TrampStride                        int
	PolIdx, Stride                     int
	AllowIdx, DenyIdx                  int
}

type c11Built struct {
	progs []asm.Insns
	err   error
	pnc   any
}

func c11Compile(cfg c11Config, alloc *idalloc.IDAllocator, rules Rules, trampStride int) (out c11Built) {
	defer func() {
		if r := recover(); r != nil {
			out.pnc = r
		}
	}()
	var opts []Option
	if cfg.UseJumps {
		opts = append(opts, WithAllowDenyJumps(cfg.AllowIdx, cfg.DenyIdx))
	}
	if cfg.V6 {
		opts = append(opts, WithIPv6())
	}
	if cfg.FlowLogs {
		opts = append(opts, WithFlowLogs())
	}
	if cfg.Debug {
		opts = append(opts, WithPolicyDebugEnabled())
	}
	if cfg.SplitEnabled {
		opts = append(opts, WithPolicyMapIndexAndStride(cfg.PolIdx, cfg.Stride))
	}
	if trampStride > 0 {
		opts = append(opts, WithTrampolineStride(trampStride))
	}
	pg := NewBuilder(alloc, maps.FD(bpfvm.FDIPSets), maps.FD(bpfvm.FDState), maps.FD(bpfvm.FDStaticMap), maps.FD(bpfvm.FDPolicyMap), opts...)
	if cfg.MaxJumps > 0 {
		pg.maxJumpsPerProgram = cfg.MaxJumps
	}
	out.progs, out.err = pg.Instructions(rules)
	return
}

func c11CountInsns(progs []asm.Insns) int {
	n := 0
	for _, p := range progs {
		n += len(p)
	}
	return n
}

func c11DescribeRules(rules Rules) string {
	var sb strings.Builder
	fmt.Fprintf(&sb, "ForHostInterface=%v SuppressNormalHostPolicy=%v ForXDP=%v\n", rules.ForHostInterface, rules.SuppressNormalHostPolicy, rules.ForXDP)
	dumpTiers := func(name string, tiers []Tier) {
		for ti, tier := range tiers {
			fmt.Fprintf(&sb, " %s[%d] end=%q\n", name, ti, tier.EndAction)
			for pi, pol := range tier.Policies {
				fmt.Fprintf(&sb, "  pol[%d] %s/%s\n", pi, pol.Kind, pol.Name)
				for ri, r := range pol.Rules {
					fmt.Fprintf(&sb, "   rule[%d] %v\n", ri, r.Rule)
				}
			}
		}
	}
	dumpProfiles := func(name string, ps []Profile) {
		for pi, p := range ps {
			fmt.Fprintf(&sb, " %s[%d] %s\n", name, pi, p.Name)
			for ri, r := range p.Rules {
				fmt.Fprintf(&sb, "   rule[%d] %v\n", ri, r.Rule)
			}
		}
	}
	dumpTiers("HostPreDnatTiers", rules.HostPreDnatTiers)
	dumpTiers("HostForwardTiers", rules.HostForwardTiers)
	dumpTiers("HostNormalTiers", rules.HostNormalTiers)
	dumpProfiles("HostProfiles", rules.HostProfiles)
	dumpTiers("Tiers", rules.Tiers)
	dumpProfiles("Profiles", rules.Profiles)
	return sb.String()
}

func c11DescribeSets(sets map[string]*c11Set) string {
	var names []string
	for n := range sets {
		names = append(names, n)
	}
	sort.Strings(names)
	var sb strings.Builder
	for _, n := range names {
		fmt.Fprintf(&sb, " %s (id %#x) = %v\n", n, sets[n].ID, sets[n].Members)
	}
	return sb.String()
}

// c11StripDeadExitStub returns prog without its last two instructions iff they are a statically
// unreachable "MovImm64 R0, imm; Exit" stub (previous instruction does not fall through and no
// jump targets either of them); nil otherwise.
func c11StripDeadExitStub(prog asm.Insns) asm.Insns {
	n := len(prog)
	if n < 3 || prog[n-1].OpCode() != asm.Exit || prog[n-2].OpCode() != asm.MovImm64 || prog[n-2].Dst() != asm.R0 {
		return nil
	}
	if op := prog[n-3].OpCode(); op != asm.Exit && op != asm.JumpA {
		return nil
	}
	for pc := 0; pc < n; pc++ {
		in := prog[pc]
		if in.OpCode() == asm.LoadImm64 {
			pc++
			continue
		}
		cls := in.OpClass()
		if (cls == asm.OpClassJump64 || cls == asm.OpClassJump32) && in.OpCode() != asm.Call && in.OpCode() != asm.Exit {
			if tgt := pc + 1 + int(in.Off()); tgt >= n-2 {
				return nil
			}
		}
	}
	return prog[:n-2]
}

// c11DisasmAround prints the instructions around the failing pc of an invalid program.
func c11DisasmAround(progs []asm.Insns, chain []bpfvm.TailCall, err error) string {
	ipe, ok := err.(*bpfvm.InvalidProgramError)
	if !ok || ipe.Prog >= len(progs) || ipe.Prog < 0 {
		return ""
	}
	// Sub-programs are entered in order, so position in the chain == index in progs.
	prog := progs[ipe.Prog]
	var sb strings.Builder
	from, to := ipe.PC-25, ipe.PC+6
	if from < 0 {
		from = 0
	}
	if to > len(prog) {
		to = len(prog)
	}
	fmt.Fprintf(&sb, "sub-program %d (%d insns), pc %d..%d:\n", ipe.Prog, len(prog), from, to-1)
	for pc := from; pc < to; pc++ {
		mark := "  "
		if pc == ipe.PC {
			mark = "=>"
		}
		fmt.Fprintf(&sb, " %s %4d: %v   %v %v\n", mark, pc, prog[pc], prog[pc].Labels, prog[pc].Annotation)
	}
	return sb.String()
}

func c11Bucket(n int) string {
	switch {
	case n <= 1:
		return fmt.Sprint(n)
	case n <= 3:
		return "2-3"
	case n <= 8:
		return "4-8"
	case n <= 24:
		return "9-24"
	default:
		return "25+"
	}
}

func c11RunCase(t *rapid.T, rec *ev.Recorder) {
	g := &c11Gen{t: t}
	cfg := c11Config{}
	cfg.V6 = rapid.Bool().Draw(t, "ipv6")
	g.v6 = cfg.V6
	mode := rapid.SampledFrom([]string{"workload", "workload", "workload", "host", "host", "xdp"}).Draw(t, "mode")
	cfg.XDP = mode == "xdp"
	cfg.FlowLogs = rapid.Bool().Draw(t, "flowLogs")
	cfg.Debug = rapid.IntRange(0, 3).Draw(t, "policyDebug") == 0
	// XDP attach points always supply allow/deny jump indexes; TC programs read them from skb->cb
	// in Felix and use explicit indexes in felix/bpf/ut.
	cfg.UseJumps = cfg.XDP || rapid.Bool().Draw(t, "allowDenyJumps")
	cfg.AllowIdx = rapid.IntRange(0, 40).Draw(t, "allowIdx")
	cfg.DenyIdx = cfg.AllowIdx + 1 + rapid.IntRange(0, 40).Draw(t, "denyIdxDelta")
	cfg.Stride = jump.TCMaxEntryPoints
	if cfg.XDP {
		cfg.Stride = jump.XDPMaxEntryPoints
	}
	cfg.PolIdx = rapid.IntRange(0, cfg.Stride-1).Draw(t, "polIdx")
	// Splitting: Felix always passes WithPolicyMapIndexAndStride; the jump limit is the knob this
	// in-package harness turns down so that small configurations split.
	cfg.SplitEnabled = rapid.IntRange(0, 9).Draw(t, "splitEnabled") != 0
	switch rapid.IntRange(0, 9).Draw(t, "jumpLimitClass") {
	case 0: // default limit: never splits at these sizes
	case 1, 2, 3, 4:
		cfg.MaxJumps = rapid.IntRange(12, 40).Draw(t, "maxJumpsSmall")
	case 5, 6, 7:
		cfg.MaxJumps = rapid.IntRange(40, 120).Draw(t, "maxJumpsMid")
	default:
		cfg.MaxJumps = rapid.IntRange(120, 400).Draw(t, "maxJumpsLarge")
	}
	switch rapid.IntRange(0, 2).Draw(t, "trampClass") {
	case 0:
	case 1:
		cfg.TrampStride = rapid.IntRange(24, 120).Draw(t, "trampStrideSmall")
	case 2:
		cfg.TrampStride = rapid.IntRange(120, 1500).Draw(t, "trampStrideMid")
	}
	g.longLists = rapid.IntRange(0, 3).Draw(t, "longLists") == 0

	g.genSets()

	var rules Rules
	manyTiers := false
	denyPass := []TierEndAction{TierEndDeny, TierEndDeny, TierEndPass}
	passOnly := []TierEndAction{TierEndPass}
	switch mode {
	case "xdp":
		rules.ForHostInterface = true
		rules.ForXDP = true
		rules.HostNormalTiers = g.genTiers("untracked", 2, true, passOnly)
	case "host":
		rules.ForHostInterface = true
		rules.SuppressNormalHostPolicy = g.maybe("suppressNormalOnHostIface", 10)
		rules.HostPreDnatTiers = g.genTiers("prednat", 2, true, passOnly)
		rules.HostForwardTiers = g.genTiers("forward", 2, false, denyPass)
		rules.HostNormalTiers = g.genTiers("normal", 2, false, denyPass)
		rules.HostProfiles = g.genProfiles("hostprof", 2)
	default:
		rules.SuppressNormalHostPolicy = !g.maybe("noSuppressOnWorkloadIface", 6)
		if rapid.Bool().Draw(t, "wildcardHEP") {
			rules.HostPreDnatTiers = g.genTiers("prednat", 2, true, passOnly)
			rules.HostForwardTiers = g.genTiers("forward", 2, false, denyPass)
			rules.HostNormalTiers = g.genTiers("normal", 1, false, denyPass)
			rules.HostProfiles = g.genProfiles("hostprof", 1)
		}
		if g.maybe("manyPassTiers", 12) {
			// More than MaxRuleIDs (32) rule hits on one path: a chain of tiers that all pass.
			n := rapid.IntRange(30, 56).Draw(t, "manyPassTiers.n")
			for i := 0; i < n; i++ {
				pr := &proto.Rule{Action: "pass", RuleId: fmt.Sprintf("pass-%d", i)}
				end := TierEndPass
				pol := Policy{Kind: "GlobalNetworkPolicy", Name: fmt.Sprintf("passer-%d", i), Rules: []Rule{{Rule: pr, MatchID: uint64(0x7000 + i)}}}
				if i%3 == 2 {
					pol.Rules = nil // reaches the end-of-tier pass instead
				}
				rules.Tiers = append(rules.Tiers, Tier{Name: fmt.Sprintf("pt-%d", i), EndAction: end, EndRuleID: uint64(0x7100 + i), Policies: []Policy{pol}})
			}
			manyTiers = true
		}
		rules.Tiers = append(rules.Tiers, g.genTiers("tiers", 3, false, denyPass)...)
		rules.Profiles = g.genProfiles("profiles", 2)
	}
	rules.NoProfileMatchID = 0xDEAD

	// IP set ids from the real allocator; contents through the real entry encoders.
	alloc := idalloc.New()
	var setNames []string
	for n := range g.sets {
		setNames = append(setNames, n)
	}
	sort.Strings(setNames)
	for _, n := range setNames {
		g.sets[n].ID = alloc.GetOrAlloc(n)
	}

	describe := func() string {
		return fmt.Sprintf("config %+v\nrules:\n%sipsets:\n%s", cfg, c11DescribeRules(rules), c11DescribeSets(g.sets))
	}

	built := c11Compile(cfg, alloc, rules, cfg.TrampStride)
	if built.pnc != nil {
		t.Fatalf("C11 VIOLATION: Instructions() panicked on a valid configuration: %v\n%s", built.pnc, describe())
	}
	if built.err != nil {
		t.Fatalf("C11 VIOLATION: Instructions() returned an error on a valid configuration: %v\n%s", built.err, describe())
	}
	progs := built.progs
	if len(progs) == 0 {
		t.Fatalf("C11 VIOLATION: Instructions() returned no program\n%s", describe())
	}
	if ev.Known(c11SigDeadExit) {
		// Known finding: tolerate exactly the dead two-instruction exit stub at the end of a
		// sub-program (stripping it does not move any jump target) so the search goes on.
		for i := range progs {
			if st := c11StripDeadExitStub(progs[i]); st != nil {
				progs[i] = st
				rec.Excluded(c11SigDeadExit)
			}
		}
	}
	trampolines := false
	if cfg.TrampStride > 0 {
		ref := c11Compile(cfg, alloc, rules, 0)
		if ref.pnc == nil && ref.err == nil && c11CountInsns(ref.progs) != c11CountInsns(progs) {
			trampolines = true
		}
	}

	polEntries := 0
	if need := cfg.PolIdx + (len(progs)+1)*cfg.Stride; len(progs) > jump.MaxSubPrograms {
		// Only possible because the harness shrank the per-program limit; give the map room.
		polEntries = need
	}
	env := bpfvm.NewPolicyEnv(cfg.V6, cfg.XDP, cfg.AllowIdx, cfg.DenyIdx, polEntries)
	env.VM.MaxTailCalls = len(progs) + 4
	if env.VM.MaxTailCalls < 33 {
		env.VM.MaxTailCalls = 33
	}
	for _, n := range setNames {
		s := g.sets[n]
		for _, m := range s.Members {
			if _, err := env.AddIPSetMember(s.ID, m); err != nil {
				t.Fatalf("HARNESS-GAP: cannot load ip set member %q: %v", m, err)
			}
		}
	}
	entry, err := env.InstallPolicy(progs, cfg.PolIdx, cfg.Stride)
	if err != nil {
		t.Fatalf("HARNESS-GAP: cannot install policy programs: %v", err)
	}

	nPkts := ev.Scale(8, 16)
	maxChain := 0
	decidedByRule := 0
	anyLaterBlock := false
	outcomes := map[string]bool{}
	var samplePkt string
	for i := 0; i < nPkts; i++ {
		pkt := g.genPacket(fmt.Sprintf("pkt[%d]", i))
		tr := &c11Trace{}
		want := c11RefVerdict(rules, pkt, g.sets, tr)
		hit := uint32(0)
		if rapid.IntRange(0, 7).Draw(t, fmt.Sprintf("pkt[%d].rulesHitNearLimit", i)) == 0 {
			hit = uint32(rapid.IntRange(28, 32).Draw(t, fmt.Sprintf("pkt[%d].rulesHit", i)))
		}
		res, err := env.Run(entry, pkt.toVM(hit))
		ctx := func() string {
			return fmt.Sprintf("packet %v\nreference verdict: %v (%s)\nprograms: %d, chain: %+v\n%s", pkt, want, tr.decidedBy, len(progs), res.Raw.Chain, describe())
		}
		if err != nil {
			t.Fatalf("C11 VIOLATION: interpreter rejects the generated program: %v\n%s\n%s", err, c11DisasmAround(progs, res.Raw.Chain, err), ctx())
		}
		for _, f := range res.Raw.FailedTailCalls {
			if f.MapFD == bpfvm.FDPolicyMap {
				t.Fatalf("C11 VIOLATION: program tail-calls policy sub-program index %d which is not among the %d returned programs (entry %d, stride %d)\n%s",
					f.Index, len(progs), cfg.PolIdx, cfg.Stride, ctx())
			}
		}
		var wantV bpfvm.Verdict
		switch want {
		case c11Allow:
			wantV = bpfvm.VerdictAllow
		case c11Deny:
			wantV = bpfvm.VerdictDeny
		case c11NoMatch:
			if !cfg.XDP {
				t.Fatalf("HARNESS-GAP: reference produced no-match outside XDP")
			}
			wantV = bpfvm.VerdictXDPPass
		}
		if want == c11Unspecified {
			// The documented semantics are silent; only require a clean allow/deny outcome.
			if res.Verdict != bpfvm.VerdictAllow && res.Verdict != bpfvm.VerdictDeny {
				t.Fatalf("C11 VIOLATION: program ended without a verdict: %v %s\n%s", res.Verdict, res.Detail, ctx())
			}
		} else if res.Verdict != wantV {
			t.Fatalf("C11 VIOLATION: wrong verdict: program says %v (%s, pol_rc=%d), reference says %v\n%s",
				res.Verdict, res.Detail, res.PolRC, want, ctx())
		}
		if len(res.Raw.Chain) > maxChain {
			maxChain = len(res.Raw.Chain)
		}
		if len(res.Raw.Chain) > 0 {
			anyLaterBlock = true
		}
		if strings.Contains(tr.decidedBy, "rule[") {
			decidedByRule++
		}
		outcomes[want.String()] = true
		if samplePkt == "" || len(res.Raw.Chain) > 0 {
			samplePkt = fmt.Sprintf("%v => %v via %s (chain %d)", pkt, want, tr.decidedBy, len(res.Raw.Chain))
		}
	}

	nontrivial := anyLaterBlock || trampolines
	classes := []string{"mode-" + mode, "progs-" + c11Bucket(len(progs))}
	if cfg.V6 {
		classes = append(classes, "ipv6")
	} else {
		classes = append(classes, "ipv4")
	}
	if len(progs) > 1 {
		classes = append(classes, "split")
	}
	if anyLaterBlock {
		classes = append(classes, "decided-in-later-block")
	}
	if trampolines {
		classes = append(classes, "trampoline")
	}
	if decidedByRule > 0 {
		classes = append(classes, "some-packet-decided-by-explicit-rule")
	}
	if cfg.FlowLogs {
		classes = append(classes, "flowlogs")
	}
	if manyTiers {
		classes = append(classes, "more-than-32-rule-hits")
	}
	if cfg.Debug {
		classes = append(classes, "policy-debug")
	}
	if cfg.UseJumps {
		classes = append(classes, "allow-deny-jumps")
	} else {
		classes = append(classes, "skb-cb-jumps")
	}
	var outs []string
	for o := range outcomes {
		outs = append(outs, o)
		classes = append(classes, "verdict-"+o)
	}
	sort.Strings(outs)
	shape := fmt.Sprintf("%s v6=%v fl=%v dbg=%v jmp=%v progs=%s chain=%s tramp=%v rules=%s outs=%v",
		mode, cfg.V6, cfg.FlowLogs, cfg.Debug, cfg.UseJumps, c11Bucket(len(progs)), c11Bucket(maxChain), trampolines, c11Bucket(len(g.allRules)), outs)
	rec.SizedCase(nontrivial, shape, c11CountInsns(progs), func() any {
		return map[string]any{"config": fmt.Sprintf("%+v", cfg), "rules": strings.Split(c11DescribeRules(rules), "\n"),
			"programs": len(progs), "instructions": c11CountInsns(progs), "packet": samplePkt}
	}, classes...)
}

func TestVerifC11PolicyPrograms(t *testing.T) {
	ev.Quiet()
	rec := ev.New("C11", "polprog",
		"generated polprog.Rules (workload / host interface / XDP; tiers, pre-DNAT, apply-on-forward, normal host policy, profiles, log rules, staged slots) "+
			"compiled by the real Builder with a reduced per-program jump limit and trampoline stride, executed on 8 (thorough: 16) probe packets per configuration by the bpfvm interpreter; "+
			"non-trivial = some packet was decided in a chained sub-program (block >= 2) or a trampoline was emitted; distinct = mode/options/program-count/chain-depth/rule-count/outcome shape",
		"bpfvm interpreter and its LPM-trie / prog-array / state-map models stand in for the kernel verifier and runtime",
		"reference verdict c11RefVerdict written from the property statement and the documented tier/profile/host-policy semantics",
		"rules honour the v3 validator preconditions; IP-set members limited to what felix/bpf/ipsets encoders represent (tcp/udp named ports)",
		"maxJumpsPerProgram (12..400) and trampoline stride (24..1500) are reduced below production values to reach splitting with small inputs")
	defer rec.Write()
	rapid.Check(t, func(t *rapid.T) { c11RunCase(t, rec) })
}

// ---------------------------------------------------------------------------------------------
// Confirmation tests for findings on the unchanged tree.  They are NOT matched by the unit's run
// regex; the driver runs them by name for entries of KNOWN_FINDINGS.json (they FAIL while the
// defect is present and pass once it is repaired).

func c11MustCompile(t *testing.T, cfg c11Config, alloc *idalloc.IDAllocator, rules Rules) []asm.Insns {
	b := c11Compile(cfg, alloc, rules, 0)
	if b.pnc != nil {
		t.Fatalf("Instructions() panicked: %v", b.pnc)
	}
	if b.err != nil {
		t.Fatalf("Instructions() failed: %v", b.err)
	}
	return b.progs
}

// Regression (fixed finding profile-log-rule-panics, /repo 77dd8d7): a profile containing a Log
// rule (valid v3 Profile; iptables renders a LOG rule for it) used to make Instructions() panic
// with "empty action label".  Part of the unit's normal run.
func TestVerifC11RegressionProfileLogRule(t *testing.T) {
	ev.Quiet()
	rules := Rules{Profiles: []Profile{{Name: "prof", Rules: []Rule{
		{Rule: &proto.Rule{Action: "log"}},
		{Rule: &proto.Rule{Action: "allow"}},
	}}}}
	cfg := c11Config{AllowIdx: 1, DenyIdx: 2, SplitEnabled: true, PolIdx: 3, Stride: jump.TCMaxEntryPoints}
	progs := c11MustCompile(t, cfg, idalloc.New(), rules)
	env := bpfvm.NewPolicyEnv(false, false, 1, 2, 0)
	entry, _ := env.InstallPolicy(progs, 3, jump.TCMaxEntryPoints)
	res, err := env.Run(entry, bpfvm.PolicyPacket{Proto: 6, Src: netip.MustParseAddr("10.0.0.1"),
		DstPreNAT: netip.MustParseAddr("10.0.0.2"), DstPostNAT: netip.MustParseAddr("10.0.0.2")})
	if err != nil || res.Verdict != bpfvm.VerdictAllow {
		t.Fatalf("expected allow after the log rule, got %v %s err=%v", res.Verdict, res.Detail, err)
	}
}

// Regression (fixed finding protocol-name-icmpv6-udplite-matches-proto-0, /repo 8118528):
// protocolToNumber mapped the API's protocol names "icmpv6" and "udplite" to 0, so e.g.
// "allow protocol ICMPv6" never matched an ICMPv6 packet.  Part of the unit's normal run.
func TestVerifC11RegressionProtocolNames(t *testing.T) {
	ev.Quiet()
	for _, tc := range []struct {
		name string
		num  uint8
		v6   bool
		ver  proto.IPVersion
	}{{"icmpv6", 58, true, proto.IPVersion_IPV6}, {"udplite", 136, false, proto.IPVersion_ANY}, {"udplite", 136, true, proto.IPVersion_ANY}} {
		rules := Rules{Tiers: []Tier{{Name: "default", EndAction: TierEndDeny, Policies: []Policy{{Name: "p", Rules: []Rule{
			{Rule: &proto.Rule{Action: "allow", IpVersion: tc.ver, Protocol: &proto.Protocol{NumberOrName: &proto.Protocol_Name{Name: tc.name}}}},
		}}}}}}
		cfg := c11Config{V6: tc.v6, AllowIdx: 1, DenyIdx: 2, SplitEnabled: true, PolIdx: 3, Stride: jump.TCMaxEntryPoints}
		progs := c11MustCompile(t, cfg, idalloc.New(), rules)
		env := bpfvm.NewPolicyEnv(tc.v6, false, 1, 2, 0)
		entry, _ := env.InstallPolicy(progs, 3, jump.TCMaxEntryPoints)
		a, b := "10.0.0.1", "10.0.0.2"
		if tc.v6 {
			a, b = "fd00::1", "fd00::2"
		}
		res, err := env.Run(entry, bpfvm.PolicyPacket{Proto: tc.num, Src: netip.MustParseAddr(a),
			DstPreNAT: netip.MustParseAddr(b), DstPostNAT: netip.MustParseAddr(b)})
		if err != nil || res.Verdict != bpfvm.VerdictAllow {
			t.Errorf("rule 'allow protocol %s' (v6=%v) on a packet with IP protocol %d: got %v %s err=%v, want allow",
				tc.name, tc.v6, tc.num, res.Verdict, res.Detail, err)
		}
	}
}

// Production jump limit (maxJumpsPerProgram left at its default): one tier whose policies contain
// only simple "allow tcp" rules (2 jumps each), no pass rule, end-of-tier deny, followed by a profile.
// When the end-of-tier deny's jump is the one that reaches the limit, the next maybeSplitProgram
// call (first profile rule) happens at a point that is not reachable, and the sub-program ends
// with a dead exit stub.  The loop varies the rule count so that the test does not depend on the
// exact number of jumps in the program header.
func TestVerifC11ConfirmDeadExitStub(t *testing.T) {
	ev.Quiet()
	bad := 0
	for mm := 2 * (defaultPerProgramJumpLimit/2 - 8); mm <= 2*(defaultPerProgramJumpLimit/2+2)+1 && bad == 0; mm++ {
		m := mm / 2
		pol := Policy{Kind: "NetworkPolicy", Namespace: "ns", Name: "np"}
		if mm%2 == 1 {
			// one rule with an odd number of jumps (3) so that every jump count is tried
			pol.Rules = append(pol.Rules, Rule{Rule: &proto.Rule{Action: "allow",
				Protocol:    &proto.Protocol{NumberOrName: &proto.Protocol_Name{Name: "tcp"}},
				NotProtocol: &proto.Protocol{NumberOrName: &proto.Protocol_Name{Name: "udp"}}}})
		}
		for j := 0; j < m; j++ {
			pol.Rules = append(pol.Rules, Rule{Rule: &proto.Rule{Action: "allow",
				Protocol: &proto.Protocol{NumberOrName: &proto.Protocol_Name{Name: "tcp"}}}})
		}
		rules := Rules{
			SuppressNormalHostPolicy: true,
			Tiers:                    []Tier{{Name: "default", EndAction: TierEndDeny, Policies: []Policy{pol}}},
			Profiles:                 []Profile{{Name: "kns.ns", Rules: []Rule{{Rule: &proto.Rule{Action: "allow"}}}}},
		}
		cfg := c11Config{AllowIdx: 1, DenyIdx: 2, SplitEnabled: true, PolIdx: 3, Stride: jump.TCMaxEntryPoints}
		progs := c11MustCompile(t, cfg, idalloc.New(), rules)
		for i, p := range progs {
			if err := bpfvm.Verify(p); err != nil {
				bad++
				t.Errorf("%d simple rules (+%d three-jump rule): sub-program %d/%d would be rejected by the kernel verifier: %v\n%s", m, mm%2, i, len(progs), err,
					c11DisasmAround(progs, nil, &bpfvm.InvalidProgramError{Prog: i, PC: err.(*bpfvm.InvalidProgramError).PC}))
			}
		}
	}
	if bad == 0 {
		t.Logf("no sub-program with dead code for any rule count tried")
	}
}

// ---------------------------------------------------------------------------------------------
// Self-test of the bpfvm kit on hand-written programs (deterministic; part of the unit so that a
// broken interpreter cannot silently weaken the check).

func c11vmAsm(t *testing.T, f func(b *asm.Block)) asm.Insns {
	b := asm.NewBlock(false)
	f(b)
	insns, err := b.Assemble()
	if err != nil {
		t.Fatalf("assemble: %v", err)
	}
	return insns
}

func c11vmExpectInvalid(t *testing.T, name string, vm *bpfvm.VM, prog asm.Insns, wantSubstr string) {
	_, err := vm.Run(prog)
	if err == nil {
		t.Errorf("%s: expected program to be rejected (%s), but it ran", name, wantSubstr)
		return
	}
	if _, ok := err.(*bpfvm.InvalidProgramError); !ok || !strings.Contains(err.Error(), wantSubstr) {
		t.Errorf("%s: expected rejection containing %q, got %v", name, wantSubstr, err)
	}
}

func TestVerifC11VMSelfTest(t *testing.T) {
	ev.Quiet()
	fo := func(off int16) asm.FieldOffset { return asm.FieldOffset{Offset: off} }

	// 1. ALU, endianness, 32-bit zero extension, signed/unsigned jumps.
	vm := bpfvm.New()
	prog := c11vmAsm(t, func(b *asm.Block) {
		b.LoadImm64(asm.R1, 0x1122334455667788)
		b.Mov64(asm.R2, asm.R1)
		b.Instr(asm.OpClassALU32|asm.ALUOpEndian|asm.OpEndianToBE, asm.R2, 0, 0, 32, "") // R2 = bswap32(0x55667788) = 0x88776655
		b.Instr(asm.AddImm32, asm.R1, 0, 0, -1, "")                                      // R1 = 0x55667787 (upper half cleared)
		b.Instr(asm.XOR64, asm.R2, asm.R1, 0, 0, "")                                     // 0x88776655 ^ 0x55667787 = 0xdd1111d2
		b.MovImm64(asm.R3, -1)                                                           // 0xffff_ffff_ffff_ffff
		b.Instr(asm.JumpSGTImm64, asm.R3, 0, 1, 0, "")                                   // -1 s> 0 ? no
		b.Instr(asm.JumpGTImm64, asm.R3, 0, 1, 0, "")                                    // unsigned: yes, skip next
		b.MovImm64(asm.R2, 0)
		b.ShiftLImm64(asm.R2, 4)                      // 0xdd1111d20
		b.Instr(asm.JumpLTImm32, asm.R3, 0, 1, 5, "") // 32-bit: 0xffffffff < 5 ? no
		b.AddImm64(asm.R2, 1)
		b.Mov64(asm.R0, asm.R2)
		b.Exit()
	})
	res, err := vm.Run(prog)
	if err != nil || res.R0 != 0xdd1111d21 {
		t.Errorf("ALU self-test: R0=%#x err=%v, want 0xdd1111d21", res.R0, err)
	}

	// 2. Stack: uninitialised read, misaligned, out of bounds; initialised round trip.
	c11vmExpectInvalid(t, "uninit stack", bpfvm.New(), c11vmAsm(t, func(b *asm.Block) {
		b.LoadStack32(asm.R0, fo(-8))
		b.Exit()
	}), "uninitialised stack")
	c11vmExpectInvalid(t, "partial init stack", bpfvm.New(), c11vmAsm(t, func(b *asm.Block) {
		b.MovImm64(asm.R1, 7)
		b.StoreStack32(asm.R1, -8)
		b.LoadStack64(asm.R0, fo(-8))
		b.Exit()
	}), "uninitialised stack")
	c11vmExpectInvalid(t, "misaligned stack", bpfvm.New(), c11vmAsm(t, func(b *asm.Block) {
		b.MovImm64(asm.R1, 7)
		b.StoreStack32(asm.R1, -6)
		b.MovImm64(asm.R0, 0)
		b.Exit()
	}), "misaligned")
	c11vmExpectInvalid(t, "stack overflow", bpfvm.New(), c11vmAsm(t, func(b *asm.Block) {
		b.MovImm64(asm.R1, 7)
		b.StoreStack64(asm.R1, -520)
		b.MovImm64(asm.R0, 0)
		b.Exit()
	}), "out of bounds")
	c11vmExpectInvalid(t, "uninit reg", bpfvm.New(), c11vmAsm(t, func(b *asm.Block) {
		b.Mov64(asm.R0, asm.R3)
		b.Exit()
	}), "uninitialised register")
	c11vmExpectInvalid(t, "exit without R0", bpfvm.New(), c11vmAsm(t, func(b *asm.Block) { b.Exit() }), "uninitialised R0")

	// 3. Map value access: NULL check required, bounds enforced, writes persist, pointer + scalar.
	mkLookup := func(b *asm.Block, fd uint32) {
		b.MovImm64(asm.R1, 0)
		b.StoreStack32(asm.R1, -4)
		b.Mov64(asm.R2, asm.R10)
		b.AddImm64(asm.R2, -4)
		b.LoadMapFD(asm.R1, fd)
		b.Call(asm.HelperMapLookupElem)
	}
	vm = bpfvm.New()
	arr := bpfvm.NewArrayMap("arr", 16, 1)
	vm.AddMap(7, arr)
	c11vmExpectInvalid(t, "no null check", vm, c11vmAsm(t, func(b *asm.Block) {
		mkLookup(b, 7)
		b.Load32(asm.R0, asm.R0, fo(0))
		b.Exit()
	}), "not NULL-checked")
	c11vmExpectInvalid(t, "map value OOB", vm, c11vmAsm(t, func(b *asm.Block) {
		mkLookup(b, 7)
		b.JumpEqImm64(asm.R0, 0, "out")
		b.Load32(asm.R1, asm.R0, fo(13))
		b.LabelNextInsn("out")
		b.MovImm64(asm.R0, 0)
		b.Exit()
	}), "out of bounds")
	c11vmExpectInvalid(t, "caller-saved clobbered", vm, c11vmAsm(t, func(b *asm.Block) {
		mkLookup(b, 7)
		b.Mov64(asm.R0, asm.R2)
		b.Exit()
	}), "uninitialised register R2")
	c11vmExpectInvalid(t, "unknown map fd", vm, c11vmAsm(t, func(b *asm.Block) {
		mkLookup(b, 99)
		b.MovImm64(asm.R0, 0)
		b.Exit()
	}), "unknown map fd")
	prog = c11vmAsm(t, func(b *asm.Block) {
		mkLookup(b, 7)
		b.JumpEqImm64(asm.R0, 0, "out")
		b.Mov64(asm.R9, asm.R0)
		b.MovImm64(asm.R1, 1)
		b.ShiftLImm64(asm.R1, 3)
		b.Add64(asm.R1, asm.R9) // scalar + pointer
		b.LoadImm64(asm.R2, 0x0102030405060708)
		b.Store64(asm.R1, asm.R2, fo(0))
		b.Load8(asm.R0, asm.R9, fo(9))
		b.Exit()
		b.LabelNextInsn("out")
		b.MovImm64(asm.R0, 99)
		b.Exit()
	})
	res, err = vm.Run(prog)
	if err != nil || res.R0 != 7 || arr.Get(0)[8] != 8 || arr.Get(0)[15] != 1 {
		t.Errorf("map value self-test: R0=%d err=%v value=%v", res.R0, err, arr.Get(0))
	}

	// 4. Static checks: unreachable instruction, jump out of range, unknown opcode, unknown helper.
	if err := bpfvm.Verify(asm.Insns{asm.MakeInsn(asm.MovImm64, asm.R0, 0, 0, 0), asm.MakeInsn(asm.Exit, 0, 0, 0, 0),
		asm.MakeInsn(asm.MovImm64, asm.R0, 0, 0, 1), asm.MakeInsn(asm.Exit, 0, 0, 0, 0)}); err == nil || !strings.Contains(err.Error(), "unreachable") {
		t.Errorf("dead code not rejected: %v", err)
	}
	if err := bpfvm.Verify(asm.Insns{asm.MakeInsn(asm.JumpA, 0, 0, 5, 0), asm.MakeInsn(asm.Exit, 0, 0, 0, 0)}); err == nil || !strings.Contains(err.Error(), "out of range") {
		t.Errorf("wild jump not rejected: %v", err)
	}
	if err := bpfvm.Verify(asm.Insns{asm.MakeInsn(asm.MovImm64, asm.R0, 0, 0, 0)}); err == nil || !strings.Contains(err.Error(), "falls off") {
		t.Errorf("fall-off not rejected: %v", err)
	}
	if err := bpfvm.Verify(asm.Insns{asm.MakeInsn(asm.OpCode(0xff), 0, 0, 0, 0), asm.MakeInsn(asm.Exit, 0, 0, 0, 0)}); err == nil {
		t.Errorf("unknown opcode not rejected")
	}
	c11vmExpectInvalid(t, "unknown helper", bpfvm.New(), c11vmAsm(t, func(b *asm.Block) {
		b.Call(asm.HelperGetPrandomU32)
		b.Exit()
	}), "unsupported helper")

	// 5. LPM trie: longest prefix wins, prefix length of the key bounds the match, bit-granular prefixes.
	lpm := bpfvm.NewLPMTrie("lpm", 8, 4) // 4 data bytes
	key := func(plen uint32, a, b, c, d byte) []byte { return []byte{byte(plen), 0, 0, 0, a, b, c, d} }
	must := func(err error) {
		if err != nil {
			t.Fatalf("lpm update: %v", err)
		}
	}
	must(lpm.Update(key(8, 10, 0, 0, 0), []byte{1, 0, 0, 0}))
	must(lpm.Update(key(25, 10, 0, 0, 128), []byte{2, 0, 0, 0}))
	must(lpm.Update(key(32, 10, 0, 0, 129), []byte{3, 0, 0, 0}))
	must(lpm.Update(key(0, 0, 0, 0, 0), []byte{9, 0, 0, 0}))
	if lpm.Update(key(33, 1, 2, 3, 4), []byte{0, 0, 0, 0}) == nil {
		t.Errorf("lpm accepted over-long prefix")
	}
	for _, tc := range []struct {
		k    []byte
		want byte
	}{
		{key(32, 10, 0, 0, 129), 3}, {key(32, 10, 0, 0, 130), 2}, {key(32, 10, 0, 0, 127), 1}, {key(32, 11, 0, 0, 1), 9},
		{key(24, 10, 0, 0, 129), 1}, {key(31, 10, 0, 0, 129), 2}, {key(7, 10, 0, 0, 0), 9},
	} {
		got := lpm.Lookup(tc.k)
		if got == nil || got[0] != tc.want {
			t.Errorf("lpm lookup %v: got %v want %d", tc.k, got, tc.want)
		}
	}
	empty := bpfvm.NewLPMTrie("lpm2", 8, 4)
	if empty.Lookup(key(32, 1, 2, 3, 4)) != nil {
		t.Errorf("lookup in empty trie hit")
	}

	// 6. Tail calls: chain through a sub-program with a fresh stack, terminal stub, empty slot falls through.
	vm = bpfvm.New()
	vm.SetSkbCtx(0, 0)
	pa := bpfvm.NewProgArray("progs", 8)
	vm.AddMap(5, pa)
	stub := &bpfvm.Stub{Name: "end", RC: 77}
	_ = pa.SetStub(2, stub)
	tail := func(b *asm.Block, idx int32) {
		b.Mov64(asm.R1, asm.R6)
		b.LoadMapFD(asm.R2, 5)
		b.MovImm64(asm.R3, idx)
		b.Call(asm.HelperTailCall)
	}
	sub := c11vmAsm(t, func(b *asm.Block) {
		b.Mov64(asm.R6, asm.R1)
		tail(b, 3) // empty slot: falls through
		tail(b, 2)
		b.MovImm64(asm.R0, 5)
		b.Exit()
	})
	_ = pa.SetProgram(1, &bpfvm.SubProgram{Name: "sub", Insns: sub})
	res, err = vm.Run(c11vmAsm(t, func(b *asm.Block) {
		b.Mov64(asm.R6, asm.R1)
		b.MovImm64(asm.R1, 1)
		b.StoreStack64(asm.R1, -8)
		tail(b, 1)
		b.MovImm64(asm.R0, 6)
		b.Exit()
	}))
	if err != nil || res.Exit != bpfvm.ExitTailCall || res.Stub != stub || res.R0 != 77 || len(res.Chain) != 1 || res.Chain[0].Index != 1 ||
		len(res.FailedTailCalls) != 1 || res.FailedTailCalls[0].Index != 3 {
		t.Errorf("tail call self-test: %+v err=%v", res, err)
	}
	_ = pa.SetProgram(1, &bpfvm.SubProgram{Name: "sub-reads-old-stack", Insns: c11vmAsm(t, func(b *asm.Block) {
		b.LoadStack64(asm.R0, fo(-8))
		b.Exit()
	})})
	c11vmExpectInvalid(t, "fresh stack after tail call", vm, c11vmAsm(t, func(b *asm.Block) {
		b.Mov64(asm.R6, asm.R1)
		b.MovImm64(asm.R1, 1)
		b.StoreStack64(asm.R1, -8)
		tail(b, 1)
		b.MovImm64(asm.R0, 6)
		b.Exit()
	}), "uninitialised stack")
	c11vmExpectInvalid(t, "R0 after failed tail call", vm, c11vmAsm(t, func(b *asm.Block) {
		b.Mov64(asm.R6, asm.R1)
		b.MovImm64(asm.R0, 1)
		tail(b, 6)
		b.Exit()
	}), "uninitialised R0")
	// ctx: cb readable and writable, other fields read-only, XDP ctx too small for cb.
	c11vmExpectInvalid(t, "ctx write outside cb", vm, c11vmAsm(t, func(b *asm.Block) {
		b.MovImm64(asm.R2, 1)
		b.Store32(asm.R1, asm.R2, fo(0))
		b.MovImm64(asm.R0, 0)
		b.Exit()
	}), "read-only")
	xvm := bpfvm.New()
	xvm.SetXDPCtx()
	c11vmExpectInvalid(t, "xdp ctx has no cb", xvm, c11vmAsm(t, func(b *asm.Block) {
		b.Load32(asm.R0, asm.R1, fo(48))
		b.Exit()
	}), "out of bounds")
	// step budget
	lvm := bpfvm.New()
	lvm.StepBudget = 1000
	c11vmExpectInvalid(t, "infinite loop", lvm, asm.Insns{asm.MakeInsn(asm.MovImm64, asm.R0, 0, 0, 0),
		asm.MakeInsn(asm.JumpEqImm64, asm.R0, 0, -1, 0), asm.MakeInsn(asm.Exit, 0, 0, 0, 0)}, "step budget")
}

// Once a finding is no longer listed as open (repaired in /repo), its confirmation scenario is
// part of the unit's normal run; while it is listed as open the driver runs the Confirm test by
// name instead and these skip.
func TestVerifC11RegressionDeadExitStub(t *testing.T) {
	if ev.Known(c11SigDeadExit) {
		t.Skip("listed as an open known finding")
	}
	TestVerifC11ConfirmDeadExitStub(t)
}
