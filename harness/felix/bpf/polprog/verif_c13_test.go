package polprog

// C13 (polprog unit, in-package) — Go and kernel-program views of shared BPF data agree.
//
// Covers the per-packet state (struct cali_tc_state vs polprog's stateOff* constants, the
// instructions polprog actually emits, and the Go mirror felix/bpf/state.State) and the IP
// set key (struct ip_set_key vs ipsKey*, the emitted stack stores, felix/bpf/ipsets
// encoders/accessors), plus the state / ip_sets map key+value sizes.
//
// The C side is the CURRENT felix/bpf-gpl headers compiled natively by verifkit/cnative
// (IPv4 and -DIPVER6); the (struct, field) list is c13_layout.json next to this file.

import (
	"encoding/binary"
	"encoding/json"
	"fmt"
	"go/ast"
	"go/parser"
	"go/token"
	"net"
	"os"
	"path/filepath"
	"reflect"
	"sort"
	"strconv"
	"strings"
	"testing"

	"pgregory.net/rapid"

	"github.com/projectcalico/calico/felix/bpf/asm"
	"github.com/projectcalico/calico/felix/bpf/ipsets"
	"github.com/projectcalico/calico/felix/bpf/state"
	"github.com/projectcalico/calico/felix/idalloc"
	"github.com/projectcalico/calico/felix/ip"
	"github.com/projectcalico/calico/felix/proto"
	"github.com/projectcalico/calico/verifkit/cnative"
	"github.com/projectcalico/calico/verifkit/ev"
)

type c13Env struct {
	spec *cnative.LayoutSpec
	l    map[int]*cnative.Layout
}

func c13Start(t *testing.T) *c13Env {
	spec, ls, err := cnative.StartC13()
	if err != nil {
		cnative.Inconclusive(t, err)
	}
	t.Cleanup(func() {
		for _, l := range ls {
			l.Close()
		}
	})
	return &c13Env{spec: spec, l: ls}
}

// c13GoView is one Go-side statement about where a shared field lives.
type c13GoView struct {
	structID, field string
	ipvers          []int
	off             int
	size            int // 0 = the Go source states no width for this view (offset only)
	what            string
}

var c13Both = []int{4, 6}

func c13StateMirrorViews() ([]c13GoView, error) {
	// Go mirror field -> mapping-file field.  Only the IP-version independent prefix of
	// the mirror (through Flags) is compared: the tail of state.State is a v4-shaped copy
	// that no userspace code reads or writes (DESIGN §7-f).
	pairs := [][2]string{
		{"eventHeader", "eventhdr"},
		{"SrcAddr", "ip_src_w0"}, {"SrcAddr1", "ip_src_w1"}, {"SrcAddr2", "ip_src_w2"}, {"SrcAddr3", "ip_src_w3"},
		{"DstAddr", "ip_dst_w0"}, {"DstAddr1", "ip_dst_w1"}, {"DstAddr2", "ip_dst_w2"}, {"DstAddr3", "ip_dst_w3"},
		{"PreNATDstAddr", "pre_nat_ip_dst_w0"}, {"PreNATDstAddr1", "pre_nat_ip_dst_w1"},
		{"PreNATDstAddr2", "pre_nat_ip_dst_w2"}, {"PreNATDstAddr3", "pre_nat_ip_dst_w3"},
		{"PostNATDstAddr", "post_nat_ip_dst_w0"}, {"PostNATDstAddr1", "post_nat_ip_dst_w1"},
		{"PostNATDstAddr2", "post_nat_ip_dst_w2"}, {"PostNATDstAddr3", "post_nat_ip_dst_w3"},
		{"TunIP", "tun_ip_w0"}, {"TunIP1", "tun_ip_w1"}, {"TunIP2", "tun_ip_w2"}, {"TunIP3", "tun_ip_w3"},
		{"ihl", "ihl"}, {"PolicyRC", "pol_rc"}, {"SrcPort", "sport"}, {"DstPort", "dport"},
		{"PreNATDstPort", "pre_nat_dport"}, {"PostNATDstPort", "post_nat_dport"},
		{"IPProto", "ip_proto"}, {"pad", "__pad"}, {"IPSize", "ip_size"},
		{"RulesHit", "rules_hit"}, {"RuleIDs", "rule_ids"}, {"Flags", "flags"},
	}
	typ := reflect.TypeOf(state.State{})
	var out []c13GoView
	// the blank field right behind ihl mirrors the C field "unused"
	if f, ok := typ.FieldByName("ihl"); ok && len(f.Index) == 1 && f.Index[0]+1 < typ.NumField() && typ.Field(f.Index[0]+1).Name == "_" {
		b := typ.Field(f.Index[0] + 1)
		out = append(out, c13GoView{"tc_state", "unused", c13Both, int(b.Offset), int(b.Type.Size()), "state.State blank field after ihl"})
	} else {
		return nil, fmt.Errorf("HARNESS-GAP: state.State no longer has a blank field behind ihl")
	}
	for _, p := range pairs {
		f, ok := typ.FieldByName(p[0])
		if !ok {
			return nil, fmt.Errorf("HARNESS-GAP: state.State has no field %s any more", p[0])
		}
		out = append(out, c13GoView{"tc_state", p[1], c13Both, int(f.Offset), int(f.Type.Size()), "state.State." + p[0]})
	}
	return out, nil
}

func c13PolprogStateViews() []c13GoView {
	o := func(fo asm.FieldOffset) int { return int(fo.Offset) }
	return []c13GoView{
		// v4 programs load 4 bytes, v6 programs 2x8 bytes of each address: sizeof(ip_*)
		{"tc_state", "ip_src", []int{4}, o(stateOffIPSrc), 4, "stateOffIPSrc (Load32)"},
		{"tc_state", "ip_src", []int{6}, o(stateOffIPSrc), 16, "stateOffIPSrc (2xLoad64)"},
		{"tc_state", "ip_dst", []int{4}, o(stateOffIPDst), 4, "stateOffIPDst"},
		{"tc_state", "ip_dst", []int{6}, o(stateOffIPDst), 16, "stateOffIPDst"},
		{"tc_state", "pre_nat_ip_dst", []int{4}, o(stateOffPreNATIPDst), 4, "stateOffPreNATIPDst"},
		{"tc_state", "pre_nat_ip_dst", []int{6}, o(stateOffPreNATIPDst), 16, "stateOffPreNATIPDst"},
		{"tc_state", "post_nat_ip_dst", []int{4}, o(stateOffPostNATIPDst), 4, "stateOffPostNATIPDst"},
		{"tc_state", "post_nat_ip_dst", []int{6}, o(stateOffPostNATIPDst), 16, "stateOffPostNATIPDst"},
		{"tc_state", "pol_rc", c13Both, o(stateOffPolResult), 4, "stateOffPolResult (Store32/Load32)"},
		{"tc_state", "sport", c13Both, o(stateOffSrcPort), 2, "stateOffSrcPort (Load16)"},
		{"tc_state", "dport", c13Both, o(stateOffDstPort), 2, "stateOffDstPort"},
		{"tc_state", "icmp_type", c13Both, o(stateOffICMPType), 1, "stateOffICMPType (Load8)"},
		// writeICMPTypeCodeMatch: Load16 at icmp_type, compares (code<<8)|type
		{"tc_state", "icmp_code", c13Both, o(stateOffICMPType) + 1, 1, "stateOffICMPType+1 (Load16 type|code<<8)"},
		{"tc_state", "pre_nat_dport", c13Both, o(stateOffPreNATDstPort), 2, "stateOffPreNATDstPort (Load16)"},
		{"tc_state", "post_nat_dport", c13Both, o(stateOffPostNATDstPort), 2, "stateOffPostNATDstPort (Load16)"},
		{"tc_state", "ip_proto", c13Both, o(stateOffIPProto), 1, "stateOffIPProto (Load8)"},
		{"tc_state", "ip_size", c13Both, o(stateOffIPSize), 2, "stateOffIPSize"},
		// rules_hit is a __u32 of which polprog reads/writes the low byte (little endian): offset only
		{"tc_state", "rules_hit", c13Both, o(stateOffRulesHit), 0, "stateOffRulesHit (Load8/Store8 of the low byte)"},
		{"tc_state", "rule_ids", c13Both, o(stateOffRuleIDs), 8 * state.MaxRuleIDs, "stateOffRuleIDs (8-byte slots x state.MaxRuleIDs)"},
		{"tc_state", "flags", c13Both, o(stateOffFlags), 8, "stateOffFlags (Load64/Store64)"},
		{"tc_state", "eventhdr", c13Both, 0, int(stateEventHdrSize), "stateEventHdrSize"},
	}
}

// c13KnownStateOffs are the stateOff* variables c13PolprogStateViews compares by name.
var c13KnownStateOffs = map[string]bool{
	"stateOffIPSrc": true, "stateOffIPDst": true, "stateOffPreNATIPDst": true, "stateOffPostNATIPDst": true,
	"stateOffPolResult": true, "stateOffSrcPort": true, "stateOffDstPort": true, "stateOffICMPType": true,
	"stateOffPreNATDstPort": true, "stateOffPostNATDstPort": true, "stateOffIPProto": true, "stateOffIPSize": true,
	"stateOffRulesHit": true, "stateOffRuleIDs": true, "stateOffFlags": true,
}

type c13ParsedOff struct {
	name, field string
	off         int
}

// c13SourcePath resolves a repo file the way the compiler did: through the build overlay
// of this run (so a --mutate'd file is the one that is parsed), else the tree itself.
func c13SourcePath(rel string) string {
	orig := filepath.Join(os.Getenv("VERIF_REPO"), rel)
	ovs, _ := filepath.Glob(filepath.Join(os.Getenv("VERIF_BUILD"), "*", "overlay.json"))
	sort.Strings(ovs)
	for _, ov := range ovs {
		b, err := os.ReadFile(ov)
		if err != nil {
			continue
		}
		var o struct{ Replace map[string]string }
		if json.Unmarshal(b, &o) == nil {
			if alt, ok := o.Replace[orig]; ok && alt != "" {
				return alt
			}
		}
	}
	return orig
}

// c13ParseStateOffsets lists every package-level `stateOff* = asm.FieldOffset{Offset: ..., Field: ...}`
// of the current pol_prog_builder.go, so that an offset this harness has never heard of is noticed.
func c13ParseStateOffsets() ([]c13ParsedOff, error) {
	path := c13SourcePath("felix/bpf/polprog/pol_prog_builder.go")
	fset := token.NewFileSet()
	f, err := parser.ParseFile(fset, path, nil, 0)
	if err != nil {
		return nil, fmt.Errorf("HARNESS-GAP: cannot parse %s: %v", path, err)
	}
	var eval func(e ast.Expr) (int, error)
	eval = func(e ast.Expr) (int, error) {
		switch x := e.(type) {
		case *ast.BasicLit:
			v, err := strconv.ParseInt(x.Value, 0, 64)
			return int(v), err
		case *ast.Ident:
			if x.Name == "stateEventHdrSize" {
				return int(stateEventHdrSize), nil
			}
		case *ast.ParenExpr:
			return eval(x.X)
		case *ast.BinaryExpr:
			a, err := eval(x.X)
			if err != nil {
				return 0, err
			}
			b, err := eval(x.Y)
			if err != nil {
				return 0, err
			}
			switch x.Op {
			case token.ADD:
				return a + b, nil
			case token.SUB:
				return a - b, nil
			case token.MUL:
				return a * b, nil
			}
		}
		return 0, fmt.Errorf("expression not understood")
	}
	var out []c13ParsedOff
	for _, d := range f.Decls {
		gd, ok := d.(*ast.GenDecl)
		if !ok || gd.Tok != token.VAR {
			continue
		}
		for _, sp := range gd.Specs {
			vs := sp.(*ast.ValueSpec)
			for i, n := range vs.Names {
				if !strings.HasPrefix(n.Name, "stateOff") || i >= len(vs.Values) {
					continue
				}
				cl, ok := vs.Values[i].(*ast.CompositeLit)
				if !ok {
					return nil, fmt.Errorf("HARNESS-GAP: %s is not a composite literal any more", n.Name)
				}
				po := c13ParsedOff{name: n.Name, off: -1}
				for _, el := range cl.Elts {
					kv, ok := el.(*ast.KeyValueExpr)
					if !ok {
						continue
					}
					switch fmt.Sprint(kv.Key) {
					case "Offset":
						v, err := eval(kv.Value)
						if err != nil {
							return nil, fmt.Errorf("HARNESS-GAP: offset expression of %s: %v", n.Name, err)
						}
						po.off = v
					case "Field":
						if bl, ok := kv.Value.(*ast.BasicLit); ok {
							po.field, _ = strconv.Unquote(bl.Value)
						}
					}
				}
				if po.off < 0 {
					return nil, fmt.Errorf("HARNESS-GAP: no Offset in %s", n.Name)
				}
				out = append(out, po)
			}
		}
	}
	if len(out) == 0 {
		return nil, fmt.Errorf("HARNESS-GAP: no stateOff* variables found in %s", path)
	}
	return out, nil
}

func c13IPSetKeyConstViews() []c13GoView {
	// ipsKey* are the v4 offsets; for v6 setUpIPSetKey adds 12 to everything behind the
	// address.  The v6 view is taken from the emitted instructions (TestVerifC13Emitted...),
	// not restated here.
	return []c13GoView{
		{"ip_set_key", "mask", c13Both, int(ipsKeyPrefix), 4, "ipsKeyPrefix (StoreStack32)"},
		{"ip_set_key", "set_id", c13Both, int(ipsKeyID), 8, "ipsKeyID (2xStoreStack32)"},
		{"ip_set_key", "addr", []int{4}, int(ipsKeyAddr), 4, "ipsKeyAddr (StoreStack32)"},
		{"ip_set_key", "addr", []int{6}, int(ipsKeyAddr), 16, "ipsKeyAddr (2xStoreStack64)"},
		{"ip_set_key", "port", []int{4}, int(ipsKeyPort), 2, "ipsKeyPort (StoreStack16)"},
		{"ip_set_key", "protocol", []int{4}, int(ipsKeyProto), 1, "ipsKeyProto (StoreStack8)"},
		{"ip_set_key", "pad", []int{4}, int(ipsKeyPad), 1, "ipsKeyPad (StoreStack8)"},
	}
}

func c13CheckView(t *testing.T, tb *cnative.Table, rec *ev.Recorder, v c13GoView) {
	for _, ipver := range v.ipvers {
		cf, err := tb.Field(v.structID, v.field, ipver)
		if err != nil {
			t.Fatalf("%v", err)
		}
		if cf.Off != v.off || (v.size != 0 && cf.Size != v.size) {
			t.Fatalf("C13 layout disagreement (IPv%d build): Go %s says %s.%s is at offset %d size %d, "+
				"the C definition in felix/bpf-gpl has offset %d size %d",
				ipver, v.what, v.structID, v.field, v.off, v.size, cf.Off, cf.Size)
		}
		key := fmt.Sprintf("%s.%s@v%d<-%s", v.structID, v.field, ipver, v.what)
		rec.Case(true, key, func() any {
			return map[string]any{"row": key, "offset": cf.Off, "size": cf.Size, "go_size": v.size}
		}, "table-row", "struct:"+v.structID)
	}
}

// ---------------------------------------------------------------------------------------
// (a) exhaustive table
// ---------------------------------------------------------------------------------------

func TestVerifC13PolprogTable(t *testing.T) {
	ev.Quiet()
	rec := ev.New("C13", "polprog-table",
		"exhaustive: every (struct, field, IP version) row of c13_layout.json owned by this unit is compared: C offsetof/sizeof "+
			"(current felix/bpf-gpl headers compiled natively, v4 and -DIPVER6) vs polprog stateOff*/ipsKey* constants, reflect "+
			"offsets/sizes of state.State, byte-probing of ipsets encoders/accessors, and map key/value sizes. "+
			"Every row is non-trivial; distinct = distinct (row, Go view)",
		"hand-maintained mapping file c13_layout.json lists the shared fields",
		"native x86-64 clang layout equals the BPF target layout for these structs (fixed-width __uN/__beN types, explicit padding, packed attributes; same rules on both little-endian LP64 targets)")
	defer rec.Write()
	env := c13Start(t)
	tb := cnative.NewTable(env.spec, env.l, "polprog")

	mirror, err := c13StateMirrorViews()
	if err != nil {
		t.Fatalf("%v", err)
	}
	for _, v := range mirror {
		c13CheckView(t, tb, rec, v)
	}
	for _, v := range c13PolprogStateViews() {
		c13CheckView(t, tb, rec, v)
	}
	for _, v := range c13IPSetKeyConstViews() {
		c13CheckView(t, tb, rec, v)
	}
	c13IPSetProbe(t, tb, rec)

	// --- every stateOff* variable of the current source, also ones this table has no name for ---
	parsed, err := c13ParseStateOffsets()
	if err != nil {
		t.Fatalf("%v", err)
	}
	seen := map[string]bool{}
	for _, po := range parsed {
		seen[po.name] = true
		if c13KnownStateOffs[po.name] {
			continue // compared by name above
		}
		// a state offset the harness does not know: the variable's own Field label says which
		// C field is meant; it must sit at that field's offset in both builds
		cname := strings.TrimPrefix(po.field, "state->")
		for _, ipver := range c13Both {
			cf, ok := env.l[ipver].C.Structs["tc_state"].Fields[cname]
			if !ok {
				t.Fatalf("HARNESS-GAP: pol_prog_builder.go declares %s (offset %d, %q) but c13_layout.json has no row for struct cali_tc_state.%s; add it",
					po.name, po.off, po.field, cname)
			}
			if cf.Off != po.off {
				t.Fatalf("C13 layout disagreement (IPv%d build): Go %s says %s is at offset %d, the C definition in felix/bpf-gpl has struct cali_tc_state.%s at offset %d (size %d)",
					ipver, po.name, po.field, po.off, cname, cf.Off, cf.Size)
			}
			key := fmt.Sprintf("tc_state.%s@v%d<-parsed %s", cname, ipver, po.name)
			rec.Case(true, key, func() any { return map[string]any{"row": key, "offset": cf.Off} }, "table-row", "stateoff-found-by-parsing")
		}
	}
	for n := range c13KnownStateOffs {
		if !seen[n] {
			t.Fatalf("HARNESS-GAP: %s not found by parsing pol_prog_builder.go (parser and table out of step)", n)
		}
	}
	rec.Extra("stateoff_vars_in_source", len(parsed))

	// --- total sizes: the state lives in a fixed slot of the cali_state map -------------
	for _, ipver := range c13Both {
		m, err := tb.Map("state", ipver)
		if err != nil {
			t.Fatalf("%v", err)
		}
		cs := tb.StructSize("tc_state", ipver)
		goMirror := int(reflect.TypeOf(state.State{}).Size())
		goBytes := len((&state.State{}).AsBytes())
		if state.MapParameters.KeySize != m.Key || state.MapParameters.ValueSize != m.Value {
			t.Fatalf("C13: state map sizes differ (IPv%d): Go MapParameters key=%d value=%d, C map %s key=%d value=%d",
				ipver, state.MapParameters.KeySize, state.MapParameters.ValueSize, m.Sym, m.Key, m.Value)
		}
		if cs > m.Value || goMirror > state.MapParameters.ValueSize || goBytes > state.MapParameters.ValueSize {
			t.Fatalf("C13: state does not fit its map slot (IPv%d): sizeof(struct cali_tc_state)=%d, Go mirror %d (AsBytes %d), slot %d",
				ipver, cs, goMirror, goBytes, m.Value)
		}
		fl, _ := tb.Field("tc_state", "flags", ipver)
		if goBytes < fl.Off+fl.Size {
			t.Fatalf("C13: state.State.AsBytes (%d bytes) does not cover the compared prefix ending at %d", goBytes, fl.Off+fl.Size)
		}
		key := fmt.Sprintf("map:state@v%d", ipver)
		rec.Case(true, key, func() any {
			return map[string]any{"row": key, "c_struct": cs, "go_mirror": goMirror, "slot": m.Value}
		}, "table-row", "map")

		mi, err := tb.Map("ip_sets", ipver)
		if err != nil {
			t.Fatalf("%v", err)
		}
		mp := ipsets.MapParameters
		entry := ipsets.IPSetEntrySize
		if ipver == 6 {
			mp = ipsets.MapV6Parameters
			entry = ipsets.IPSetEntryV6Size
		}
		ks := tb.StructSize("ip_set_key", ipver)
		if mp.KeySize != mi.Key || mp.ValueSize != mi.Value || ks != mi.Key || entry != ks || len(ipsets.DummyValue) != mi.Value {
			t.Fatalf("C13: ip set map sizes differ (IPv%d): Go MapParameters key=%d value=%d entry type %d bytes DummyValue %d bytes; "+
				"C map %s key=%d value=%d sizeof(struct ip_set_key)=%d",
				ipver, mp.KeySize, mp.ValueSize, entry, len(ipsets.DummyValue), mi.Sym, mi.Key, mi.Value, ks)
		}
		key2 := fmt.Sprintf("map:ip_sets@v%d", ipver)
		rec.Case(true, key2, func() any { return map[string]any{"row": key2, "key": mi.Key, "value": mi.Value} }, "table-row", "map")
	}
	// polprog reserves IPSetEntryV6Size bytes of stack for each key, for both versions
	for _, ipver := range c13Both {
		if ks := tb.StructSize("ip_set_key", ipver); ks > ipsets.IPSetEntryV6Size {
			t.Fatalf("C13: struct ip_set_key (IPv%d) is %d bytes but polprog reserves %d bytes of stack per key", ipver, ks, ipsets.IPSetEntryV6Size)
		}
	}

	if miss := tb.Missing(); len(miss) > 0 {
		t.Fatalf("HARNESS-GAP: rows of c13_layout.json (owner polprog) never compared: %v", miss)
	}
	rec.Extra("exhaustive", true)
	rec.Extra("rows_compared", tb.Compared())
}

// c13IPSetProbe derives the felix/bpf/ipsets view of the key by probing: which bytes does
// the encoder write for one field, which bytes does each accessor read.
func c13IPSetProbe(t *testing.T, tb *cnative.Table, rec *ev.Recorder) {
	type enc func(setID uint64, addr []byte, prefix int, port uint16, proto uint8) []byte
	encs := map[int]enc{
		4: func(setID uint64, addr []byte, prefix int, port uint16, proto uint8) []byte {
			var a ip.V4Addr
			copy(a[:], addr)
			return ipsets.MakeBPFIPSetEntry(setID, ip.CIDRFromAddrAndPrefix(a, prefix).(ip.V4CIDR), port, proto).AsBytes()
		},
		6: func(setID uint64, addr []byte, prefix int, port uint16, proto uint8) []byte {
			var a ip.V6Addr
			copy(a[:], addr)
			return ipsets.MakeBPFIPSetEntryV6(setID, ip.CIDRFromAddrAndPrefix(a, prefix).(ip.V6CIDR), port, proto).AsBytes()
		},
	}
	from := map[int]func([]byte) ipsets.IPSetEntryInterface{4: ipsets.IPSetEntryFromBytes, 6: ipsets.IPSetEntryV6FromBytes}
	for _, ipver := range c13Both {
		alen := 4
		if ipver == 6 {
			alen = 16
		}
		zero := make([]byte, alen)
		ones := c13Fill(0xff, alen)
		base := encs[ipver](0, zero, alen*8, 0, 0)
		probes := []struct {
			field string
			b     []byte
		}{
			{"set_id", encs[ipver](^uint64(0), zero, alen*8, 0, 0)},
			{"addr", encs[ipver](0, ones, alen*8, 0, 0)},
			{"port", encs[ipver](0, zero, alen*8, 0xffff, 0)},
		}
		for _, p := range probes {
			off, size := c13DiffSpan(base, p.b)
			c13CheckView(t, tb, rec, c13GoView{"ip_set_key", p.field, []int{ipver}, off, size,
				fmt.Sprintf("bytes written by ipsets.MakeBPFIPSetEntry%s for %s", map[int]string{4: "", 6: "V6"}[ipver], p.field)})
		}
		// protocol: changing it also changes the prefix length (named-port entries use the
		// full key), so compare against a base that already has a protocol.
		b1 := encs[ipver](0, zero, alen*8, 0, 1)
		b2 := encs[ipver](0, zero, alen*8, 0, 0xfe)
		off, size := c13DiffSpan(b1, b2)
		c13CheckView(t, tb, rec, c13GoView{"ip_set_key", "protocol", []int{ipver}, off, size, "bytes written by ipsets.MakeBPFIPSetEntry* for proto"})

		// accessors
		n := tb.StructSize("ip_set_key", ipver)
		acc := []struct {
			field string
			get   func(e ipsets.IPSetEntryInterface) []byte
		}{
			{"mask", func(e ipsets.IPSetEntryInterface) []byte { return binary.LittleEndian.AppendUint32(nil, e.PrefixLen()) }},
			{"set_id", func(e ipsets.IPSetEntryInterface) []byte { return binary.BigEndian.AppendUint64(nil, e.SetID()) }},
			{"addr", func(e ipsets.IPSetEntryInterface) []byte { return []byte(e.Addr()) }},
			{"port", func(e ipsets.IPSetEntryInterface) []byte { return binary.LittleEndian.AppendUint16(nil, e.Port()) }},
			{"protocol", func(e ipsets.IPSetEntryInterface) []byte { return []byte{e.Protocol()} }},
		}
		for _, a := range acc {
			cf, err := tb.Field("ip_set_key", a.field, ipver)
			if err != nil {
				t.Fatalf("%v", err)
			}
			what := fmt.Sprintf("ipsets entry accessor for %s (IPv%d)", a.field, ipver)
			c13AccessorProbe(t, what, n, cf, func(b []byte) []byte { return a.get(from[ipver](b)) })
			key := fmt.Sprintf("ip_set_key.%s@v%d<-accessor", a.field, ipver)
			rec.Case(true, key, func() any { return map[string]any{"row": key, "offset": cf.Off, "size": cf.Size} }, "table-row", "accessor-probe")
		}
		// the pad byte is never written by the Go encoder and must stay zero for LPM lookups
		if cf, err := tb.Field("ip_set_key", "pad", ipver); err != nil {
			t.Fatalf("%v", err)
		} else if cf.Off+cf.Size > len(base) {
			t.Fatalf("C13: ip_set_key.pad (IPv%d) at %d lies outside the %d-byte Go entry", ipver, cf.Off, len(base))
		}
	}
}

func c13Fill(v byte, n int) []byte {
	b := make([]byte, n)
	for i := range b {
		b[i] = v
	}
	return b
}

// c13DiffSpan returns the [first,last] span of bytes that differ.
func c13DiffSpan(a, b []byte) (off, size int) {
	first, last := -1, -1
	for i := range a {
		if i < len(b) && a[i] != b[i] {
			if first < 0 {
				first = i
			}
			last = i
		}
	}
	if first < 0 {
		return -1, 0
	}
	return first, last - first + 1
}

// c13AccessorProbe checks that a Go accessor reads exactly the bytes of the C field: with
// only the field's bytes set it must return all-ones of the field's width, with every other
// byte set it must return zero.
func c13AccessorProbe(t *testing.T, what string, total int, cf cnative.CField, get func([]byte) []byte) {
	in := make([]byte, total)
	for i := cf.Off; i < cf.Off+cf.Size && i < total; i++ {
		in[i] = 0xff
	}
	got := get(in)
	if len(got) != cf.Size || strings.Trim(string(got), "\xff") != "" {
		t.Fatalf("C13 layout disagreement: %s: with only bytes [%d,%d) of the C field set, Go reads % x (width %d); C field is %d bytes wide at offset %d",
			what, cf.Off, cf.Off+cf.Size, got, len(got), cf.Size, cf.Off)
	}
	out := c13Fill(0xff, total)
	for i := cf.Off; i < cf.Off+cf.Size && i < total; i++ {
		out[i] = 0
	}
	got = get(out)
	if strings.Trim(string(got), "\x00") != "" {
		t.Fatalf("C13 layout disagreement: %s: with every byte EXCEPT the C field [%d,%d) set, Go reads % x (expected zero)",
			what, cf.Off, cf.Off+cf.Size, got)
	}
}

// ---------------------------------------------------------------------------------------
// (a') the instructions polprog actually emits
// ---------------------------------------------------------------------------------------

type c13Access struct {
	off, width int
	store      bool
}

func c13MemWidth(op asm.OpCode) int {
	switch op & 0b000_11_000 {
	case asm.MemOpSize8:
		return 1
	case asm.MemOpSize16:
		return 2
	case asm.MemOpSize32:
		return 4
	default:
		return 8
	}
}

// c13Scan collects R9-relative (state) accesses and R10-relative accesses inside the two
// IP set key stack slots.
func c13Scan(progs []asm.Insns) (st []c13Access, keys map[int16][]c13Access) {
	keys = map[int16][]c13Access{offSrcIPSetKey: nil, offDstIPSetKey: nil}
	for _, prog := range progs {
		for _, in := range prog {
			op := in.OpCode()
			cls := op & asm.OpClassMask
			if cls != asm.OpClassLoadReg && cls != asm.OpClassStoreReg && cls != asm.OpClassStoreImm {
				continue
			}
			if op&0b111_00_000 != asm.MemOpModeMem {
				continue
			}
			base := in.Dst()
			if cls == asm.OpClassLoadReg {
				base = in.Src()
			}
			a := c13Access{off: int(in.Off()), width: c13MemWidth(op), store: cls != asm.OpClassLoadReg}
			switch base {
			case asm.R9:
				st = append(st, a)
			case asm.R10:
				for k := range keys {
					if in.Off() >= k && int(in.Off()) < int(k)+ipsets.IPSetEntryV6Size {
						a.off = int(in.Off()) - int(k)
						keys[k] = append(keys[k], a)
					}
				}
			}
		}
	}
	return
}

func c13GenRule(t *rapid.T, ipver int, alloc *idalloc.IDAllocator) *proto.Rule {
	nets := []string{"10.0.0.0/8", "10.1.2.3/32", "192.168.0.0/16", "0.0.0.0/0"}
	if ipver == 6 {
		nets = []string{"fd00::/8", "fd00:1::5/128", "2001:db8::/32", "::/0"}
	}
	netList := func(label string) []string {
		return rapid.SliceOfNDistinct(rapid.SampledFrom(nets), 0, 2, rapid.ID[string]).Draw(t, label)
	}
	setList := func(label string, prefix string, max int) []string {
		ids := rapid.SliceOfNDistinct(rapid.SampledFrom([]string{"a", "b", "c"}), 0, max, rapid.ID[string]).Draw(t, label)
		var out []string
		for _, id := range ids {
			s := prefix + id
			alloc.GetOrAlloc(s)
			out = append(out, s)
		}
		return out
	}
	ports := func(label string) []*proto.PortRange {
		n := rapid.IntRange(0, 2).Draw(t, label+"N")
		var out []*proto.PortRange
		for i := 0; i < n; i++ {
			f := rapid.IntRange(0, 65535).Draw(t, label+"First")
			l := rapid.IntRange(f, 65535).Draw(t, label+"Last")
			out = append(out, &proto.PortRange{First: int32(f), Last: int32(l)})
		}
		return out
	}
	r := &proto.Rule{
		Action:    rapid.SampledFrom([]string{"Allow", "Deny", "Pass", "Log"}).Draw(t, "action"),
		IpVersion: proto.IPVersion(ipver),
	}
	kind := rapid.SampledFrom([]string{"none", "tcp", "udp", "icmp", "notproto"}).Draw(t, "protoKind")
	switch kind {
	case "tcp", "udp":
		r.Protocol = &proto.Protocol{NumberOrName: &proto.Protocol_Name{Name: kind}}
		r.SrcPorts = ports("srcPorts")
		r.DstPorts = ports("dstPorts")
		r.NotSrcPorts = ports("notSrcPorts")
		r.NotDstPorts = ports("notDstPorts")
		r.SrcNamedPortIpSetIds = setList("srcNamed", "n:src", 2)
		r.DstNamedPortIpSetIds = setList("dstNamed", "n:dst", 2)
		r.NotSrcNamedPortIpSetIds = setList("notSrcNamed", "n:nsrc", 2)
		r.NotDstNamedPortIpSetIds = setList("notDstNamed", "n:ndst", 2)
	case "icmp":
		n := int32(1)
		if ipver == 6 {
			n = 58
		}
		r.Protocol = &proto.Protocol{NumberOrName: &proto.Protocol_Number{Number: n}}
		ty := int32(rapid.IntRange(0, 255).Draw(t, "icmpType"))
		co := int32(rapid.IntRange(0, 255).Draw(t, "icmpCode"))
		switch rapid.IntRange(0, 4).Draw(t, "icmpKind") {
		case 0:
			r.Icmp = &proto.Rule_IcmpType{IcmpType: ty}
		case 1:
			r.Icmp = &proto.Rule_IcmpTypeCode{IcmpTypeCode: &proto.IcmpTypeAndCode{Type: ty, Code: co}}
		case 2:
			r.NotIcmp = &proto.Rule_NotIcmpType{NotIcmpType: ty}
		case 3:
			r.NotIcmp = &proto.Rule_NotIcmpTypeCode{NotIcmpTypeCode: &proto.IcmpTypeAndCode{Type: ty, Code: co}}
		}
	case "notproto":
		r.NotProtocol = &proto.Protocol{NumberOrName: &proto.Protocol_Number{Number: int32(rapid.IntRange(1, 254).Draw(t, "notProtoNum"))}}
	}
	r.SrcNet = netList("srcNet")
	r.DstNet = netList("dstNet")
	r.NotSrcNet = netList("notSrcNet")
	r.NotDstNet = netList("notDstNet")
	// positive selector sets are combined into one set by the calc graph (polprog panics on >1 DstIpSetIds)
	r.SrcIpSetIds = setList("srcSets", "s:src", 1)
	r.DstIpSetIds = setList("dstSets", "s:dst", 1)
	r.NotSrcIpSetIds = setList("notSrcSets", "s:nsrc", 2)
	r.NotDstIpSetIds = setList("notDstSets", "s:ndst", 2)
	return r
}

func TestVerifC13EmittedAccesses(t *testing.T) {
	ev.Quiet()
	rec := ev.New("C13", "polprog-emitted",
		"rapid: random policies (1-2 tiers x 1-2 policies + optional profile; protocol/ICMP/ports/nets/IP sets/named ports/negations, "+
			"allow/deny/pass/log, IPv4 and IPv6, flow logs on/off; in 2/3 of the cases with a lowered per-program jump budget so the program is split "+
			"into sub-programs) are compiled by the real polprog.Builder; every emitted load/store relative to R9 (state pointer) must coincide "+
			"EXACTLY (offset and width) with a field of struct cali_tc_state, an array element, a 64-bit half of an IPv6 address or the documented "+
			"low byte of rules_hit; the stores into the two IP-set-key stack slots must tile the C struct ip_set_key fields exactly. Non-trivial = "+
			"program uses an IP set key and >=5 distinct state fields, or is split; distinct = set of (field,width) accessed + split class",
		"R9 holds the state pointer for the whole policy program (documented register convention in pol_prog_builder.go)")
	defer rec.Write()
	env := c13Start(t)

	// allowed[ipver][{off,width}] = name: the accesses that coincide exactly with a field of
	// struct cali_tc_state (or one of its documented parts); span[ipver] = bytes the mapping
	// table knows about at all.
	type acc struct{ off, width int }
	allowed := map[int]map[acc]string{}
	span := map[int]map[int]string{}
	for _, ipver := range c13Both {
		allowed[ipver] = map[acc]string{}
		span[ipver] = map[int]string{}
		st := env.l[ipver].C.Structs["tc_state"]
		var names []string
		for n := range st.Fields {
			names = append(names, n)
		}
		sort.Strings(names)
		for _, n := range names {
			f := st.Fields[n]
			for i := f.Off; i < f.Off+f.Size; i++ {
				span[ipver][i] = n
			}
			switch {
			case n == "rule_ids":
				for o := 0; o+8 <= f.Size; o += 8 { // array of __u64
					allowed[ipver][acc{f.Off + o, 8}] = n
				}
			case n == "eventhdr":
				allowed[ipver][acc{f.Off, 4}] = n + ".type"
				allowed[ipver][acc{f.Off + 4, 4}] = n + ".len"
			case f.Size == 16: // ipv6_addr_t: four __be32 words; polprog moves it as two 64-bit halves
				allowed[ipver][acc{f.Off, 8}] = n
				allowed[ipver][acc{f.Off + 8, 8}] = n
			default:
				allowed[ipver][acc{f.Off, f.Size}] = n
			}
		}
		// documented sub-word: polprog keeps the rule counter in the low byte of the
		// little-endian __u32 rules_hit
		if f, ok := st.Fields["rules_hit"]; ok {
			allowed[ipver][acc{f.Off, 1}] = "rules_hit(low byte)"
		}
	}

	rapid.Check(t, func(t *rapid.T) {
		ipver := rapid.SampledFrom(c13Both).Draw(t, "ipver")
		alloc := idalloc.New()
		opts := []Option{WithAllowDenyJumps(666, 777)}
		if ipver == 6 {
			opts = append(opts, WithIPv6())
		}
		if rapid.Bool().Draw(t, "flowLogs") {
			opts = append(opts, WithFlowLogs())
		}
		// programs that are split into sub-programs hand state over between the parts: lower
		// the per-program jump budget so that ordinary-sized policies split
		split := rapid.IntRange(0, 2).Draw(t, "splitMode") > 0
		maxRules := 3
		if split {
			opts = append(opts, WithPolicyMapIndexAndStride(rapid.IntRange(0, 5).Draw(t, "polIdx"), 1000))
			maxRules = 6
		}
		genRules := func(label string) []Rule {
			n := rapid.IntRange(1, maxRules).Draw(t, label)
			var rules []Rule
			for i := 0; i < n; i++ {
				rules = append(rules, Rule{Rule: c13GenRule(t, ipver, alloc), MatchID: RuleMatchID(rapid.Uint64().Draw(t, "matchID"))})
			}
			return rules
		}
		in := Rules{ForHostInterface: rapid.Bool().Draw(t, "hostIface")}
		nRules := 0
		for ti := 0; ti < rapid.IntRange(1, 2).Draw(t, "nTiers"); ti++ {
			tier := Tier{Name: fmt.Sprintf("t%d", ti), EndAction: rapid.SampledFrom([]TierEndAction{TierEndDeny, TierEndPass}).Draw(t, "tierEnd")}
			for pi := 0; pi < rapid.IntRange(1, 2).Draw(t, "nPolicies"); pi++ {
				rs := genRules("nRules")
				nRules += len(rs)
				tier.Policies = append(tier.Policies, Policy{Name: fmt.Sprintf("p%d", pi), Rules: rs})
			}
			in.Tiers = append(in.Tiers, tier)
		}
		if rapid.Bool().Draw(t, "withProfile") {
			rs := genRules("nProfileRules")
			for _, r := range rs {
				if r.Action == "Pass" { // profiles have no next tier to pass to
					r.Action = "Allow"
				}
			}
			nRules += len(rs)
			in.Profiles = []Profile{{Name: "prof", Rules: rs}}
		}
		pg := NewBuilder(alloc, 1, 2, 3, 4, opts...)
		if split {
			pg.maxJumpsPerProgram = rapid.IntRange(6, 80).Draw(t, "maxJumpsPerProgram")
		}
		progs, err := pg.Instructions(in)
		if err != nil {
			t.Fatalf("HARNESS-GAP: builder rejected generated rules: %v", err)
		}
		stAcc, keyAcc := c13Scan(progs)
		cl := env.l[ipver].C
		used := map[string]bool{}
		for _, a := range stAcc {
			name, ok := allowed[ipver][acc{a.off, a.width}]
			if !ok {
				known := 0
				var touched []string
				for i := a.off; i < a.off+a.width; i++ {
					if n, ok := span[ipver][i]; ok {
						known++
						if len(touched) == 0 || touched[len(touched)-1] != n {
							touched = append(touched, n)
						}
					}
				}
				if known == 0 {
					t.Fatalf("HARNESS-GAP: IPv%d policy program accesses state bytes [%d,%d) (store=%v) that no row of c13_layout.json describes; "+
						"add the field to the mapping file", ipver, a.off, a.off+a.width, a.store)
				}
				t.Fatalf("C13 layout disagreement: the IPv%d policy program emitted by polprog (%d sub-programs) %s %d bytes at state offset %d; "+
					"in struct cali_tc_state these bytes belong to %v and no field (or array element / documented part) starts at %d with size %d",
					ipver, len(progs), map[bool]string{true: "stores", false: "loads"}[a.store], a.width, a.off, touched, a.off, a.width)
			}
			used[fmt.Sprintf("%s/%d", name, a.width)] = true
		}
		usesKey := false
		keyStruct := cl.Structs["ip_set_key"]
		for slot, accs := range keyAcc {
			var stores []c13Access
			for _, a := range accs {
				if a.store {
					stores = append(stores, a)
				}
			}
			if len(stores) == 0 {
				continue
			}
			usesKey = true
			covered := make([]int, keyStruct.Size)
			for _, a := range stores {
				// each store must lie inside one C field of the key
				ok := false
				for _, f := range keyStruct.Fields {
					if a.off >= f.Off && a.off+a.width <= f.Off+f.Size && (a.off-f.Off)%a.width == 0 {
						ok = true
					}
				}
				if !ok {
					t.Fatalf("C13: IPv%d policy program stores %d bytes at offset %d of an IP set key (stack slot %d); that does not match a field of "+
						"struct ip_set_key: %+v", ipver, a.width, a.off, slot, keyStruct.Fields)
				}
				for i := a.off; i < a.off+a.width; i++ {
					covered[i]++
				}
			}
			for i, c := range covered {
				if c == 0 {
					t.Fatalf("C13: IPv%d policy program never initialises byte %d of the %d-byte struct ip_set_key before the map lookup (stores: %+v)",
						ipver, i, keyStruct.Size, stores)
				}
			}
		}
		var keys []string
		for k := range used {
			keys = append(keys, k)
		}
		sort.Strings(keys)
		shape := fmt.Sprintf("v%d key=%v progs=%d %s", ipver, usesKey, c13Cls(uint64(len(progs)-1)), strings.Join(keys, ","))
		classes := []string{fmt.Sprintf("ipv%d", ipver)}
		if usesKey {
			classes = append(classes, "uses-ipset-key")
		}
		if len(progs) > 1 {
			classes = append(classes, "split-into-sub-programs")
		}
		rec.SizedCase((usesKey && len(keys) >= 5) || len(progs) > 1, shape, len(keys), func() any {
			return map[string]any{"ipver": ipver, "state_fields_accessed": keys, "ipset_key_used": usesKey, "rules": nRules, "sub_programs": len(progs)}
		}, classes...)
	})
}

// ---------------------------------------------------------------------------------------
// (b) generated round trips
// ---------------------------------------------------------------------------------------

func c13LE32(v uint32) string { return cnative.H(binary.LittleEndian.AppendUint32(nil, v)) }

func TestVerifC13StateRoundTrip(t *testing.T) {
	ev.Quiet()
	rec := ev.New("C13", "polprog-state-roundtrip",
		"rapid: random values for every compared state.State field -> State.AsBytes -> 512-byte map slot -> typed field reads through the real "+
			"struct cali_tc_state (v4 and v6 builds) must give the same values; reverse: C typed assignments -> slot -> state.StateFromBytes. "+
			"Non-trivial = 'pattern' cases (every byte of every field distinct and non-zero, pol_rc negative) or all scalar fields non-zero and distinct; distinct = value-class vector",
		"state map slot is MapParameters.ValueSize bytes, zero padded")
	defer rec.Write()
	env := c13Start(t)
	slotSize := state.MapParameters.ValueSize

	rapid.Check(t, func(t *rapid.T) {
		ipver := rapid.SampledFrom(c13Both).Draw(t, "ipver")
		l := env.l[ipver]
		csize := l.C.Structs["tc_state"].Size
		// "pattern" cases give every byte of every field a distinct non-zero value, so a
		// shifted, swapped, narrowed or byte-swapped field cannot go unnoticed
		pattern := rapid.Bool().Draw(t, "pattern")
		seq := byte(rapid.IntRange(0, 100).Draw(t, "patternStart"))
		next := func(n int) uint64 {
			var u uint64
			for i := 0; i < n; i++ {
				seq++
				if seq == 0 {
					seq = 1
				}
				u |= uint64(seq) << (8 * uint(i))
			}
			return u
		}
		u32 := func(label string) uint32 {
			if pattern {
				return uint32(next(4))
			}
			return rapid.OneOf(rapid.Uint32(), rapid.SampledFrom([]uint32{0, 1, 0x01020304, 0xffffffff, 0x80000000})).Draw(t, label)
		}
		u16 := func(label string) uint16 {
			if pattern {
				return uint16(next(2))
			}
			return rapid.OneOf(rapid.Uint16(), rapid.SampledFrom([]uint16{0, 1, 0x0102, 0xffff, 0x8000})).Draw(t, label)
		}
		var s state.State
		words := []*uint32{&s.SrcAddr, &s.SrcAddr1, &s.SrcAddr2, &s.SrcAddr3, &s.DstAddr, &s.DstAddr1, &s.DstAddr2, &s.DstAddr3,
			&s.PreNATDstAddr, &s.PreNATDstAddr1, &s.PreNATDstAddr2, &s.PreNATDstAddr3,
			&s.PostNATDstAddr, &s.PostNATDstAddr1, &s.PostNATDstAddr2, &s.PostNATDstAddr3,
			&s.TunIP, &s.TunIP1, &s.TunIP2, &s.TunIP3}
		wordNames := []string{"ip_src_w0", "ip_src_w1", "ip_src_w2", "ip_src_w3", "ip_dst_w0", "ip_dst_w1", "ip_dst_w2", "ip_dst_w3",
			"pre_nat_ip_dst_w0", "pre_nat_ip_dst_w1", "pre_nat_ip_dst_w2", "pre_nat_ip_dst_w3",
			"post_nat_ip_dst_w0", "post_nat_ip_dst_w1", "post_nat_ip_dst_w2", "post_nat_ip_dst_w3",
			"tun_ip_w0", "tun_ip_w1", "tun_ip_w2", "tun_ip_w3"}
		for i, w := range words {
			*w = u32(wordNames[i])
		}
		s.PolicyRC = state.PolicyResult(rapid.OneOf(rapid.Int32(), rapid.SampledFrom([]int32{-1, 0, 1, 2, 10, -2147483648})).Draw(t, "pol_rc"))
		if pattern {
			s.PolicyRC = state.PolicyResult(int32(uint32(next(4))) | -0x80000000) // negative: sign extension visible
		}
		s.SrcPort, s.DstPort = u16("sport"), u16("dport")
		s.PreNATDstPort, s.PostNATDstPort = u16("pre_nat_dport"), u16("post_nat_dport")
		s.IPProto = rapid.Uint8().Draw(t, "ip_proto")
		if pattern {
			s.IPProto = uint8(next(1))
		}
		s.IPSize = u16("ip_size")
		s.RulesHit = u32("rules_hit")
		nIDs := rapid.IntRange(0, state.MaxRuleIDs).Draw(t, "nRuleIDs")
		for i := 0; i < nIDs; i++ {
			s.RuleIDs[i] = rapid.Uint64().Draw(t, "ruleID")
			if pattern {
				s.RuleIDs[i] = next(8)
			}
		}
		s.Flags = rapid.OneOf(rapid.Uint64(), rapid.SampledFrom([]uint64{0, 4, 8, 1 << 10, ^uint64(0)})).Draw(t, "flags")
		if pattern {
			s.Flags = next(8)
		}

		want := map[string]string{
			"pol_rc": cnative.I(int64(s.PolicyRC)), "sport": cnative.U(uint64(s.SrcPort)), "dport": cnative.U(uint64(s.DstPort)),
			"pre_nat_dport": cnative.U(uint64(s.PreNATDstPort)), "post_nat_dport": cnative.U(uint64(s.PostNATDstPort)),
			"ip_proto": cnative.U(uint64(s.IPProto)), "ip_size": cnative.U(uint64(s.IPSize)),
			"rules_hit": cnative.U(uint64(s.RulesHit)), "flags": cnative.U(s.Flags),
			"icmp_type": cnative.U(uint64(s.DstPort & 0xff)), "icmp_code": cnative.U(uint64(s.DstPort >> 8)),
		}
		for i, w := range words {
			want[wordNames[i]] = c13LE32(*w)
		}
		var ids []byte
		for _, id := range s.RuleIDs {
			ids = binary.LittleEndian.AppendUint64(ids, id)
		}
		want["rule_ids"] = cnative.H(ids)

		// Go -> C
		slot := make([]byte, slotSize)
		copy(slot, s.AsBytes())
		got, err := l.Decode("tc_state", slot[:csize])
		if err != nil {
			t.Fatalf("HARNESS-GAP: %v", err)
		}
		var names []string
		for k := range want {
			names = append(names, k)
		}
		sort.Strings(names)
		for _, k := range names {
			if got[k] != want[k] {
				t.Fatalf("C13 round trip Go->C (IPv%d): state.State field for %q written as %s, the C struct cali_tc_state reads %s (whole state %+v)",
					ipver, k, want[k], got[k], s)
			}
		}
		// C -> Go
		cbytes, err := l.Encode("tc_state", nil, want, func() []string {
			// dport and icmp_type/icmp_code overlay each other: assign dport only
			var o []string
			for _, k := range names {
				if k != "icmp_type" && k != "icmp_code" {
					o = append(o, k)
				}
			}
			return o
		}())
		if err != nil {
			t.Fatalf("HARNESS-GAP: %v", err)
		}
		slot2 := make([]byte, slotSize)
		copy(slot2, cbytes)
		back := state.StateFromBytes(slot2)
		if back != s {
			t.Fatalf("C13 round trip C->Go (IPv%d): C struct cali_tc_state written field by field with %v\nGo StateFromBytes reads %+v\nexpected            %+v",
				ipver, want, back, s)
		}

		distinct := pattern || s.SrcPort != 0 && s.DstPort != 0 && s.PreNATDstPort != 0 && s.PostNATDstPort != 0 && s.IPProto != 0 &&
			s.PolicyRC != 0 && s.RulesHit != 0 && s.Flags != 0 && s.SrcAddr != 0 && s.PostNATDstAddr != 0 &&
			s.SrcPort != s.PreNATDstPort && s.PreNATDstPort != s.PostNATDstPort && s.SrcPort != s.DstPort
		shape := fmt.Sprintf("v%d pattern=%v/%d neg=%v ids=%d ports=%d/%d/%d/%d", ipver, pattern, seq%8, s.PolicyRC < 0, nIDs,
			c13Cls(uint64(s.SrcPort)), c13Cls(uint64(s.DstPort)), c13Cls(uint64(s.PreNATDstPort)), c13Cls(uint64(s.PostNATDstPort)))
		rec.SizedCase(distinct, shape, nIDs, func() any {
			return map[string]any{"ipver": ipver, "state": fmt.Sprintf("%+v", s)}
		}, fmt.Sprintf("ipv%d", ipver))
	})
}

func c13Cls(v uint64) int {
	switch {
	case v == 0:
		return 0
	case v < 256:
		return 1
	case v < 65535:
		return 2
	default:
		return 3
	}
}

func TestVerifC13IPSetKeyRoundTrip(t *testing.T) {
	ev.Quiet()
	rec := ev.New("C13", "polprog-ipset-roundtrip",
		"rapid: random set id / CIDR / port / protocol -> ipsets.MakeBPFIPSetEntry{,V6} and ProtoIPSetMemberToBPFEntry{,V6} -> bytes -> typed reads "+
			"through struct ip_set_key must give the same values; reverse: C assignments -> IPSetEntry{,V6}FromBytes accessors. "+
			"Non-trivial = named-port entry or non-zero host-order-sensitive fields; distinct = (ipver, prefix, proto class, port class)")
	defer rec.Write()
	env := c13Start(t)
	rapid.Check(t, func(t *rapid.T) {
		ipver := rapid.SampledFrom(c13Both).Draw(t, "ipver")
		l := env.l[ipver]
		alen := 4
		if ipver == 6 {
			alen = 16
		}
		setID := rapid.OneOf(rapid.Uint64(), rapid.SampledFrom([]uint64{1, 0x0102030405060708, ^uint64(0)})).Draw(t, "setID")
		addr := rapid.SliceOfN(rapid.Byte(), alen, alen).Draw(t, "addr")
		named := rapid.Bool().Draw(t, "namedPort")
		prefix := alen * 8
		var port uint16
		var pr uint8
		if named {
			port = rapid.Uint16().Draw(t, "port")
			pr = rapid.SampledFrom([]uint8{6, 17}).Draw(t, "proto")
		} else {
			prefix = rapid.IntRange(0, alen*8).Draw(t, "prefix")
		}
		var e ipsets.IPSetEntryInterface
		var cidr ip.CIDR
		viaMember := rapid.Bool().Draw(t, "viaProtoMember")
		if ipver == 4 {
			var a ip.V4Addr
			copy(a[:], addr)
			cidr = ip.CIDRFromAddrAndPrefix(a, prefix)
		} else {
			var a ip.V6Addr
			copy(a[:], addr)
			cidr = ip.CIDRFromAddrAndPrefix(a, prefix)
		}
		if viaMember {
			member := cidr.String()
			if named {
				member = fmt.Sprintf("%s,%s:%d", cidr.Addr().String(), map[uint8]string{6: "tcp", 17: "udp"}[pr], port)
			}
			if ipver == 4 {
				e = ipsets.ProtoIPSetMemberToBPFEntry(setID, member)
			} else {
				e = ipsets.ProtoIPSetMemberToBPFEntryV6(setID, member)
			}
			if e == nil {
				t.Fatalf("HARNESS-GAP: member %q not parsed", member)
			}
		} else if ipver == 4 {
			e = ipsets.MakeBPFIPSetEntry(setID, cidr.(ip.V4CIDR), port, pr)
		} else {
			e = ipsets.MakeBPFIPSetEntryV6(setID, cidr.(ip.V6CIDR), port, pr)
		}
		got, err := l.Decode("ip_set_key", e.AsBytes())
		if err != nil {
			t.Fatalf("C13: ipsets entry (IPv%d, %d bytes) is not a struct ip_set_key: %v", ipver, len(e.AsBytes()), err)
		}
		maskedAddr := []byte(cidr.Addr().AsNetIP())
		if ipver == 4 {
			maskedAddr = []byte(net.IP(maskedAddr).To4())
		}
		want := map[string]string{
			"set_id":   cnative.H(binary.BigEndian.AppendUint64(nil, setID)), // __be64: network order in memory
			"addr":     cnative.H(maskedAddr),
			"port":     cnative.U(uint64(port)),
			"protocol": cnative.U(uint64(pr)),
			"pad":      "0",
			"mask":     cnative.U(uint64(e.PrefixLen())),
		}
		for _, k := range []string{"addr", "mask", "pad", "port", "protocol", "set_id"} {
			if got[k] != want[k] {
				t.Fatalf("C13 round trip Go->C (IPv%d): ipsets entry built from setID=%#x cidr=%v port=%d proto=%d: field %s should read %s, struct ip_set_key reads %s (bytes % x)",
					ipver, setID, cidr, port, pr, k, want[k], got[k], e.AsBytes())
			}
		}
		// the LPM prefix must at least cover the set id (64 bits) and never exceed the key
		if pl := int(e.PrefixLen()); pl < 64 || pl > (l.C.Structs["ip_set_key"].Size-4)*8 {
			t.Fatalf("C13: prefix length %d outside the key (IPv%d)", pl, ipver)
		}
		// C -> Go
		cmask := rapid.Uint32().Draw(t, "cMask")
		cb, err := l.Encode("ip_set_key", nil, map[string]string{
			"mask": cnative.U(uint64(cmask)), "set_id": want["set_id"], "addr": cnative.H(addr),
			"port": cnative.U(uint64(port)), "protocol": cnative.U(uint64(pr)),
		}, nil)
		if err != nil {
			t.Fatalf("HARNESS-GAP: %v", err)
		}
		var back ipsets.IPSetEntryInterface
		if ipver == 4 {
			back = ipsets.IPSetEntryFromBytes(cb)
		} else {
			back = ipsets.IPSetEntryV6FromBytes(cb)
		}
		if len(back.AsBytes()) != len(cb) || back.SetID() != setID || !net.IP(addr).Equal(back.Addr()) || back.Port() != port ||
			back.Protocol() != pr || back.PrefixLen() != cmask {
			t.Fatalf("C13 round trip C->Go (IPv%d): struct ip_set_key{mask=%d set_id=%#x addr=% x port=%d proto=%d} = % x; Go accessors read prefix=%d id=%#x addr=%v port=%d proto=%d",
				ipver, cmask, setID, addr, port, pr, cb, back.PrefixLen(), back.SetID(), back.Addr(), back.Port(), back.Protocol())
		}
		shape := fmt.Sprintf("v%d named=%v prefix=%d port=%d member=%v", ipver, named, prefix, c13Cls(uint64(port)), viaMember)
		rec.Case(named || (setID != 0 && prefix > 0), shape, func() any {
			return map[string]any{"ipver": ipver, "setID": setID, "cidr": cidr.String(), "port": port, "proto": pr}
		}, fmt.Sprintf("ipv%d", ipver), fmt.Sprintf("named=%v", named))
	})
}
