package consistenthash_test

// C33 — Maglev lookup tables are complete, balanced and node-independent.
//
//   * TestVerifC33Sizes: exhaustive over every BPFMaglevMaxEndpointsPerService the parameter
//     accepts (1..3000): the table size Felix configures is prime (needed for every backend's
//     preference list to cover the whole table) and not smaller than the setting.
//   * TestVerifC33Tables: generated backend sets (ip:port names as kube-proxy endpoints print
//     them; near-identical names, v4/v6), table sizes drawn from the configurable sizes,
//     insertion-order permutations and duplicate adds.  Oracle: no empty slot, every slot holds
//     an added backend, per-backend share in {floor(m/n), ceil(m/n)}, identical table for every
//     insertion order / duplicate pattern, and equality with an independent Maglev population
//     (Eisenbud et al., Algorithm 1) over hand-computed FNV-1 offsets/skips extracted
//     little-endian, backends taking turns in name order.

import (
	"encoding/binary"
	"fmt"
	"hash/fnv"
	"net"
	"sort"
	"strconv"
	"strings"
	"testing"

	"k8s.io/apimachinery/pkg/util/sets"
	k8sp "k8s.io/kubernetes/pkg/proxy"
	"pgregory.net/rapid"

	"github.com/projectcalico/calico/felix/bpf/consistenthash"
	"github.com/projectcalico/calico/felix/config"
	"github.com/projectcalico/calico/verifkit/ev"
)

type c33Endpoint struct {
	ip   string
	port int
	tag  int // distinguishes duplicate objects with the same name
}

func (e *c33Endpoint) String() string              { return net.JoinHostPort(e.ip, strconv.Itoa(e.port)) }
func (e *c33Endpoint) IP() string                  { return e.ip }
func (e *c33Endpoint) Port() int                   { return e.port }
func (e *c33Endpoint) IsLocal() bool               { return false }
func (e *c33Endpoint) IsReady() bool               { return true }
func (e *c33Endpoint) IsServing() bool             { return true }
func (e *c33Endpoint) IsTerminating() bool         { return false }
func (e *c33Endpoint) ZoneHints() sets.Set[string] { return nil }
func (e *c33Endpoint) NodeHints() sets.Set[string] { return nil }

var _ k8sp.Endpoint = (*c33Endpoint)(nil)

func c33IsPrime(n int) bool {
	if n < 2 {
		return false
	}
	for d := 2; d*d <= n; d++ {
		if n%d == 0 {
			return false
		}
	}
	return true
}

// c33LUTSize asks Felix's configuration for the table size for a given setting, the way the
// dataplane driver does (config value -> Config.BPFLUTSizeMaglev()).
type c33Fataler interface {
	Fatalf(format string, args ...any)
}

func c33LUTSize(tb c33Fataler, maxEndpoints int) int {
	cfg := config.New()
	_, err := cfg.UpdateFrom(map[string]string{"BPFMaglevMaxEndpointsPerService": strconv.Itoa(maxEndpoints)}, config.ConfigFile)
	if err != nil {
		tb.Fatalf("BPFMaglevMaxEndpointsPerService=%d rejected: %v", maxEndpoints, err)
	}
	if cfg.BPFMaglevMaxEndpointsPerService != maxEndpoints {
		tb.Fatalf("HARNESS-GAP: BPFMaglevMaxEndpointsPerService=%d not accepted by the configuration (got %d); the accepted range changed",
			maxEndpoints, cfg.BPFMaglevMaxEndpointsPerService)
	}
	return cfg.BPFLUTSizeMaglev()
}

func TestVerifC33Sizes(t *testing.T) {
	ev.Quiet()
	rec := ev.New("C33", "sizes",
		"every value 1..3000 of BPFMaglevMaxEndpointsPerService (the parameter's whole accepted range), table size read from Config.BPFLUTSizeMaglev(); non-trivial = always; distinct = distinct setting",
		"the parameter's accepted range is 1..3000 (checked: 0 and 3001 fall back to the default)")
	defer rec.Write()
	// The declared range: values just outside must not be accepted (else the enumeration
	// below would not be the whole domain).
	for _, out := range []int{0, 3001} {
		cfg := config.New()
		_, _ = cfg.UpdateFrom(map[string]string{"BPFMaglevMaxEndpointsPerService": strconv.Itoa(out)}, config.ConfigFile)
		if cfg.BPFMaglevMaxEndpointsPerService == out {
			t.Fatalf("HARNESS-GAP: BPFMaglevMaxEndpointsPerService=%d is accepted; the enumerated range 1..3000 is no longer the whole domain", out)
		}
	}
	sizes := map[int]bool{}
	for v := 1; v <= 3000; v++ {
		m := c33LUTSize(t, v)
		if !c33IsPrime(m) {
			t.Fatalf("BPFMaglevMaxEndpointsPerService=%d gives Maglev table size %d, which is not prime: backend preference lists would not cover the table", v, m)
		}
		if m < v {
			t.Fatalf("BPFMaglevMaxEndpointsPerService=%d gives Maglev table size %d < %d: not every backend can get a slot", v, m, v)
		}
		cls := "size>=5x"
		if m < 5*v {
			cls = "size<5x"
		}
		sizes[m] = true
		rec.Case(true, strconv.Itoa(v), func() any { return map[string]int{"maxEndpoints": v, "tableSize": m} }, cls)
	}
	rec.Extra("settings_enumerated_exhaustively", 3000)
	rec.Extra("distinct_table_sizes", len(sizes))
}

// ---- independent reference ----

// c33FNV1 is FNV-1 (32 bit) written out by hand; the digest bytes are the big-endian encoding
// of the state (FNV's published byte order), and Felix's table definition reads the first four
// digest bytes as a little-endian integer.
func c33FNV1LE(seed byte, s string) uint32 {
	h := uint32(2166136261)
	h *= 16777619
	h ^= uint32(seed)
	for i := 0; i < len(s); i++ {
		h *= 16777619
		h ^= uint32(s[i])
	}
	var digest [4]byte
	binary.BigEndian.PutUint32(digest[:], h)
	return binary.LittleEndian.Uint32(digest[:])
}

func c33Reference(m int, names []string) []string {
	names = append([]string(nil), names...)
	sort.Strings(names)
	n := len(names)
	offset := make([]int, n)
	skip := make([]int, n)
	for i, nm := range names {
		offset[i] = int(c33FNV1LE(0x00, nm)) % m
		skip[i] = int(c33FNV1LE(0x0a, nm))%(m-1) + 1
	}
	entry := make([]int, m)
	for j := range entry {
		entry[j] = -1
	}
	next := make([]int, n)
	filled := 0
	for filled < m {
		for i := 0; i < n && filled < m; i++ {
			c := (offset[i] + next[i]*skip[i]) % m
			for entry[c] >= 0 {
				next[i]++
				c = (offset[i] + next[i]*skip[i]) % m
			}
			entry[c] = i
			next[i]++
			filled++
		}
	}
	out := make([]string, m)
	for j, i := range entry {
		out[j] = names[i]
	}
	return out
}

func c33Build(m int, adds []*c33Endpoint) []k8sp.Endpoint {
	ch := consistenthash.New(m, fnv.New32(), fnv.New32()) // as bpf/proxy.Syncer.newConsistentHash does
	for _, e := range adds {
		ch.AddBackend(e)
	}
	return ch.Generate()
}

func c33GenIP(t *rapid.T, v6 bool, label string) string {
	if v6 {
		return fmt.Sprintf("fd00:10:244::%x", rapid.IntRange(1, 40).Draw(t, label))
	}
	switch rapid.IntRange(0, 2).Draw(t, label+"-net") {
	case 0:
		return fmt.Sprintf("10.0.0.%d", rapid.IntRange(1, 40).Draw(t, label))
	case 1:
		return fmt.Sprintf("10.0.%d.1", rapid.IntRange(0, 40).Draw(t, label))
	}
	return fmt.Sprintf("192.168.%d.%d", rapid.IntRange(0, 255).Draw(t, label+"-b"), rapid.IntRange(0, 255).Draw(t, label))
}

func TestVerifC33Tables(t *testing.T) {
	ev.Quiet()
	rec := ev.New("C33", "tables",
		"backend sets of 1..64 ip:port endpoints (clustered addresses/ports so names differ in one character; v4 or v6), table size = Config.BPFLUTSizeMaglev() for a drawn setting (small settings favoured, so that backends can outnumber slots), two further insertion orders with duplicate adds; non-trivial = >=2 backends and an insertion order that differs from the first; distinct = (table size, backend names)",
		"hash functions are fnv.New32() twice, as the only production caller constructs them",
		"reference = Maglev Algorithm 1 with FNV-1 offsets/skips (seed bytes 0x00/0x0a prefixed) read little-endian and turns taken in name order")
	defer rec.Write()
	maxBackends := ev.Scale(48, 64)

	rapid.Check(t, func(t *rapid.T) {
		var setting int
		switch rapid.IntRange(0, 9).Draw(t, "settingClass") {
		case 0, 1, 2, 3:
			setting = rapid.IntRange(1, 12).Draw(t, "maxEndpoints")
		case 4, 5, 6, 7:
			setting = rapid.IntRange(13, 200).Draw(t, "maxEndpoints")
		case 8:
			setting = rapid.IntRange(201, 3000).Draw(t, "maxEndpoints")
		default:
			setting = rapid.SampledFrom([]int{1, 2, 100, 3000}).Draw(t, "maxEndpoints")
		}
		m := c33LUTSize(t, setting)
		v6 := rapid.IntRange(0, 3).Draw(t, "v6") == 0
		n := rapid.IntRange(1, maxBackends).Draw(t, "nBackends")
		if rapid.IntRange(0, 2).Draw(t, "fewBackends") == 0 {
			n = rapid.IntRange(1, 5).Draw(t, "nFew")
		}
		byName := map[string]*c33Endpoint{}
		var eps []*c33Endpoint
		for tries := 0; len(eps) < n && tries < 4*n; tries++ {
			e := &c33Endpoint{ip: c33GenIP(t, v6, "ip"), port: rapid.SampledFrom([]int{80, 8080, 8081, 443, 1, 65535}).Draw(t, "port")}
			if byName[e.String()] == nil {
				byName[e.String()] = e
				eps = append(eps, e)
			}
		}
		n = len(eps)
		names := make([]string, 0, n)
		for _, e := range eps {
			names = append(names, e.String())
		}

		lut := c33Build(m, eps)

		// complete
		if len(lut) != m {
			t.Fatalf("table has %d slots, configured size %d (setting %d, backends %v)", len(lut), m, setting, names)
		}
		share := map[string]int{}
		got := make([]string, m)
		for j, e := range lut {
			if e == nil {
				t.Fatalf("slot %d of %d is empty (setting %d, backends %v)", j, m, setting, names)
			}
			nm := e.String()
			if byName[nm] == nil {
				t.Fatalf("slot %d holds %q, which was never added (backends %v)", j, nm, names)
			}
			got[j] = nm
			share[nm]++
		}
		// balanced: Maglev's bound — every backend gets floor(m/n) or ceil(m/n) slots
		lo, hi := m/n, (m+n-1)/n
		for _, nm := range names {
			if share[nm] < lo || share[nm] > hi {
				t.Fatalf("backend %q owns %d of %d slots with %d backends; Maglev bound is [%d,%d] (setting %d, backends %v)",
					nm, share[nm], m, n, lo, hi, setting, names)
			}
		}
		// independent of learning order and duplicates
		differentOrder := false
		for rep := 0; rep < 2; rep++ {
			perm := rapid.Permutation(eps).Draw(t, "insertionOrder")
			var adds []*c33Endpoint
			for i, e := range perm {
				if e != eps[i] {
					differentOrder = true
				}
				adds = append(adds, e)
				if rapid.IntRange(0, 5).Draw(t, "dup") == 0 {
					// a second object with the same name (same endpoint learned again)
					d := perm[rapid.IntRange(0, i).Draw(t, "dupOf")]
					adds = append(adds, &c33Endpoint{ip: d.ip, port: d.port, tag: 1})
				}
			}
			lut2 := c33Build(m, adds)
			if len(lut2) != m {
				t.Fatalf("table has %d slots after re-ordering, expected %d", len(lut2), m)
			}
			for j := range lut2 {
				if lut2[j] == nil || lut2[j].String() != got[j] {
					var addNames []string
					for _, a := range adds {
						addNames = append(addNames, a.String())
					}
					t.Fatalf("table depends on the order backends were learned in: slot %d is %v vs %q (size %d)\norder A: %v\norder B: %v",
						j, lut2[j], got[j], m, names, addNames)
				}
			}
		}
		// equals the byte-order-explicit reference
		ref := c33Reference(m, names)
		for j := range ref {
			if ref[j] != got[j] {
				t.Fatalf("table differs from the little-endian Maglev reference at slot %d: %q vs reference %q (size %d, backends %v)",
					j, got[j], ref[j], m, names)
			}
		}

		sorted := append([]string(nil), names...)
		sort.Strings(sorted)
		var cl []string
		switch {
		case n == 1:
			cl = append(cl, "single-backend")
		case n > m:
			cl = append(cl, "more-backends-than-slots")
		case n > setting:
			cl = append(cl, "more-backends-than-setting")
		default:
			cl = append(cl, "backends<=setting")
		}
		if m%n != 0 {
			cl = append(cl, "uneven-share")
		}
		if v6 {
			cl = append(cl, "ipv6")
		}
		rec.SizedCase(n >= 2 && differentOrder, fmt.Sprintf("%d|%s", m, strings.Join(sorted, ",")), n*m, func() any {
			return map[string]any{"setting": setting, "tableSize": m, "backends": names}
		}, cl...)
	})
}
