package consistenthash_test

// C33 — Maglev lookup tables are complete, balanced and node-independent.
//
//   * TestVerifC33Sizes: exhaustive over every BPFMaglevMaxEndpointsPerService the parameter
//     accepts (1..3000): the table size Felix configures is prime (needed for every backend's
//     preference list to cover the whole table) and not smaller than the setting.
//   * TestVerifC33Tables: generated backend sets (ip:port names as kube-proxy endpoints print
//     them; near-identical names, v4/v6), table sizes drawn from the configurable sizes,
//     insertion-order permutations and duplicate adds.  Oracle: no empty slot, every slot holds
//     an added backend, per-backend share in {floor(m/n), ceil(m/n)}, identical table for every
//     insertion order / duplicate pattern, and equality with an independent Maglev population
//     (Eisenbud et al., Algorithm 1) over hand-computed FNV-1 offsets/skips extracted
//     little-endian, backends taking turns in name order.

import (
	"encoding/binary"
	"fmt"
	"hash/fnv"
	"net"
	"sort"
	"strconv"
	"strings"
	"testing"

	"k8s.io/apimachinery/pkg/util/sets"
	k8sp "k8s.io/kubernetes/pkg/proxy"
	"pgregory.net/rapid"

	"github.com/projectcalico/calico/felix/bpf/consistenthash"
	"github.com/projectcalico/calico/felix/config"
	"github.com/projectcalico/calico/verifkit/ev"
)

type c33Endpoint struct {
	ip   string
	port int
	tag  int // distinguishes duplicate objects with the same name
}

func (e *c33Endpoint) String() string              { return net.JoinHostPort(e.ip, strconv.Itoa(e.port)) }
func (e *c33Endpoint) IP() string                  { return e.ip }
func (e *c33Endpoint) Port() int                   { return e.port }
func (e *c33Endpoint) IsLocal() bool               { return false }
func (e *c33Endpoint) IsReady() bool               { return true }
func (e *c33Endpoint) IsServing() bool             { return true }
func (e *c33Endpoint) IsTerminating() bool         { return false }
func (e *c33Endpoint) ZoneHints() sets.Set[string] { return nil }
func (e *c33Endpoint) NodeHints() sets.Set[string] { return nil }

var _ k8sp.Endpoint = (*c33Endpoint)(nil)

func c33IsPrime(n int) bool {
	if n < 2 {
		return false
	}
	for d := 2; d*d <= n; d++ {
		if n%d == 0 {
			return false
		}
	}
	return true
}

// c33LUTSize asks Felix's configuration for the table size for a given setting, the way the
// dataplane driver does (config value -> Config.BPFLUTSizeMaglev()).
type c33Fataler interface {
	Fatalf(format string, args ...any)
}

// c33LUTSize: the table size Felix configures for the two Maglev settings, obtained the way the
// dataplane driver does (config values -> Config.BPFLUTSizeMaglev()).
func c33LUTSize(tb c33Fataler, maxEndpoints, maxServices int) int {
	cfg := config.New()
	_, err := cfg.UpdateFrom(map[string]string{
		"BPFMaglevMaxEndpointsPerService": strconv.Itoa(maxEndpoints),
		"BPFMaglevMaxServices":            strconv.Itoa(maxServices),
	}, config.ConfigFile)
	if err != nil {
		tb.Fatalf("BPFMaglevMaxEndpointsPerService=%d BPFMaglevMaxServices=%d rejected: %v", maxEndpoints, maxServices, err)
	}
	if cfg.BPFMaglevMaxEndpointsPerService != maxEndpoints || cfg.BPFMaglevMaxServices != maxServices {
		tb.Fatalf("HARNESS-GAP: BPFMaglevMaxEndpointsPerService=%d / BPFMaglevMaxServices=%d not accepted by the configuration (got %d / %d); the accepted ranges changed",
			maxEndpoints, maxServices, cfg.BPFMaglevMaxEndpointsPerService, cfg.BPFMaglevMaxServices)
	}
	return cfg.BPFLUTSizeMaglev()
}

const c33MaxSetting = 3000 // both Maglev parameters are declared int(1:3000)

func TestVerifC33Sizes(t *testing.T) {
	ev.Quiet()
	rec := ev.New("C33", "sizes",
		"every pair (BPFMaglevMaxEndpointsPerService, BPFMaglevMaxServices) in 1..3000 x 1..3000 (both Maglev parameters' whole accepted ranges: 9,000,000 pairs), table size read from Config.BPFLUTSizeMaglev(); one recorded case per endpoints value; non-trivial = always; distinct = distinct endpoints value",
		"both parameters' accepted range is 1..3000 (checked: every value in range is accepted through UpdateFrom, 0 and 3001 are not)",
		"BPFLUTSizeMaglev() depends on no configuration other than the two BPFMaglev* parameters")
	defer rec.Write()
	// The declared ranges: values just outside must not be accepted (else the enumeration
	// below would not be the whole domain), every value inside must be.
	for _, name := range []string{"BPFMaglevMaxEndpointsPerService", "BPFMaglevMaxServices"} {
		for _, out := range []int{0, c33MaxSetting + 1} {
			cfg := config.New()
			_, _ = cfg.UpdateFrom(map[string]string{name: strconv.Itoa(out)}, config.ConfigFile)
			if cfg.BPFMaglevMaxEndpointsPerService == out || cfg.BPFMaglevMaxServices == out {
				t.Fatalf("HARNESS-GAP: %s=%d is accepted; the enumerated range 1..3000 is no longer the whole domain", name, out)
			}
		}
	}
	for v := 1; v <= c33MaxSetting; v++ {
		// (v, v) through the real parameter parsing: proves every value of both ranges is accepted
		_ = c33LUTSize(t, v, v)
	}
	// The full product, setting the (exported) fields directly — what UpdateFrom leaves there.
	cfg := config.New()
	prime := map[int]bool{}
	sizes := map[int]bool{}
	pairs := 0
	for v := 1; v <= c33MaxSetting; v++ {
		cfg.BPFMaglevMaxEndpointsPerService = v
		perV := map[int]bool{}
		for sv := 1; sv <= c33MaxSetting; sv++ {
			cfg.BPFMaglevMaxServices = sv
			m := cfg.BPFLUTSizeMaglev()
			p, seen := prime[m]
			if !seen {
				p = c33IsPrime(m)
				prime[m] = p
			}
			if !p {
				t.Fatalf("BPFMaglevMaxEndpointsPerService=%d BPFMaglevMaxServices=%d gives Maglev table size %d, which is not prime: backend preference lists would not cover the table", v, sv, m)
			}
			if m < v {
				t.Fatalf("BPFMaglevMaxEndpointsPerService=%d BPFMaglevMaxServices=%d gives Maglev table size %d < %d: not every backend can get a slot", v, sv, m, v)
			}
			perV[m] = true
			sizes[m] = true
			pairs++
		}
		cls := "size-independent-of-services"
		if len(perV) > 1 {
			cls = "size-varies-with-services"
		}
		cls2 := "size>=5x"
		for m := range perV {
			if m < 5*v {
				cls2 = "size<5x"
			}
		}
		rec.Case(true, strconv.Itoa(v), func() any {
			var ms []int
			for m := range perV {
				ms = append(ms, m)
			}
			sort.Ints(ms)
			return map[string]any{"maxEndpoints": v, "tableSizesOverAllServiceSettings": ms}
		}, cls, cls2)
	}
	rec.Extra("setting_pairs_enumerated_exhaustively", pairs)
	rec.Extra("distinct_table_sizes", len(sizes))
}

// ---- independent reference ----

// c33FNV1 is FNV-1 (32 bit) written out by hand; the digest bytes are the big-endian encoding
// of the state (FNV's published byte order), and Felix's table definition reads the first four
// digest bytes as a little-endian integer.
func c33FNV1LE(seed byte, s string) uint32 {
	h := uint32(2166136261)
	h *= 16777619
	h ^= uint32(seed)
	for i := 0; i < len(s); i++ {
		h *= 16777619
		h ^= uint32(s[i])
	}
	var digest [4]byte
	binary.BigEndian.PutUint32(digest[:], h)
	return binary.LittleEndian.Uint32(digest[:])
}

func c33Reference(m int, names []string) []string {
	names = append([]string(nil), names...)
	sort.Strings(names)
	n := len(names)
	offset := make([]int, n)
	skip := make([]int, n)
	for i, nm := range names {
		offset[i] = int(c33FNV1LE(0x00, nm)) % m
		skip[i] = int(c33FNV1LE(0x0a, nm))%(m-1) + 1
	}
	entry := make([]int, m)
	for j := range entry {
		entry[j] = -1
	}
	next := make([]int, n)
	filled := 0
	for filled < m {
		for i := 0; i < n && filled < m; i++ {
			c := (offset[i] + next[i]*skip[i]) % m
			for entry[c] >= 0 {
				next[i]++
				c = (offset[i] + next[i]*skip[i]) % m
			}
			entry[c] = i
			next[i]++
			filled++
		}
	}
	out := make([]string, m)
	for j, i := range entry {
		out[j] = names[i]
	}
	return out
}

func c33Build(m int, adds []*c33Endpoint) []k8sp.Endpoint {
	ch := consistenthash.New(m, fnv.New32(), fnv.New32()) // as bpf/proxy.Syncer.newConsistentHash does
	for _, e := range adds {
		ch.AddBackend(e)
	}
	return ch.Generate()
}

func c33GenIP(t *rapid.T, v6 bool, label string) string {
	if v6 {
		return fmt.Sprintf("fd00:10:244::%x", rapid.IntRange(1, 40).Draw(t, label))
	}
	switch rapid.IntRange(0, 2).Draw(t, label+"-net") {
	case 0:
		return fmt.Sprintf("10.0.0.%d", rapid.IntRange(1, 40).Draw(t, label))
	case 1:
		return fmt.Sprintf("10.0.%d.1", rapid.IntRange(0, 40).Draw(t, label))
	}
	return fmt.Sprintf("192.168.%d.%d", rapid.IntRange(0, 255).Draw(t, label+"-b"), rapid.IntRange(0, 255).Draw(t, label))
}

func TestVerifC33Tables(t *testing.T) {
	ev.Quiet()
	rec := ev.New("C33", "tables",
		"backend sets of 1..64 ip:port endpoints (clustered addresses/ports so names differ in one character; v4 or v6), table size = Config.BPFLUTSizeMaglev() for a drawn (max endpoints, max services) pair (small endpoint settings favoured, so that backends can outnumber slots; 1/6 of the cases have both settings large), two further insertion orders with duplicate adds, plus one object that learns the set incrementally with Generate() calls in between; non-trivial = >=2 backends and an insertion order that differs from the first; distinct = (table size, backend names)",
		"hash functions are fnv.New32() twice, as the only production caller constructs them",
		"reference = Maglev Algorithm 1 with FNV-1 offsets/skips (seed bytes 0x00/0x0a prefixed) read little-endian and turns taken in name order")
	defer rec.Write()
	maxBackends := ev.Scale(48, 64)

	rapid.Check(t, func(t *rapid.T) {
		var setting int
		services := 100 // the default
		switch rapid.IntRange(0, 11).Draw(t, "settingClass") {
		case 0, 1, 2, 3:
			setting = rapid.IntRange(1, 12).Draw(t, "maxEndpoints")
		case 4, 5, 6, 7:
			setting = rapid.IntRange(13, 200).Draw(t, "maxEndpoints")
		case 8:
			setting = rapid.IntRange(201, c33MaxSetting).Draw(t, "maxEndpoints")
		case 9:
			setting = rapid.SampledFrom([]int{1, 2, 100, c33MaxSetting}).Draw(t, "maxEndpoints")
		default:
			// both settings large: the biggest tables / biggest total map sizes Felix can configure
			setting = rapid.IntRange(200, c33MaxSetting).Draw(t, "maxEndpoints")
			services = rapid.SampledFrom([]int{500, 1000, 1500, 2000, 2500, 2999, c33MaxSetting}).Draw(t, "maxServices")
		}
		if rapid.IntRange(0, 3).Draw(t, "otherServices") == 0 {
			services = rapid.IntRange(1, c33MaxSetting).Draw(t, "maxServices")
		}
		m := c33LUTSize(t, setting, services)
		if !c33IsPrime(m) {
			t.Fatalf("BPFMaglevMaxEndpointsPerService=%d BPFMaglevMaxServices=%d gives Maglev table size %d, which is not prime", setting, services, m)
		}
		v6 := rapid.IntRange(0, 3).Draw(t, "v6") == 0
		n := rapid.IntRange(1, maxBackends).Draw(t, "nBackends")
		if rapid.IntRange(0, 2).Draw(t, "fewBackends") == 0 {
			n = rapid.SampledFrom([]int{1, 2, 3, 4, 5, 7}).Draw(t, "nFew")
		}
		byName := map[string]*c33Endpoint{}
		var eps []*c33Endpoint
		for tries := 0; len(eps) < n && tries < 4*n; tries++ {
			e := &c33Endpoint{ip: c33GenIP(t, v6, "ip"), port: rapid.SampledFrom([]int{80, 8080, 8081, 443, 1, 65535}).Draw(t, "port")}
			if byName[e.String()] == nil {
				byName[e.String()] = e
				eps = append(eps, e)
			}
		}
		n = len(eps)
		names := make([]string, 0, n)
		for _, e := range eps {
			names = append(names, e.String())
		}

		lut := c33Build(m, eps)

		// complete
		if len(lut) != m {
			t.Fatalf("table has %d slots, configured size %d (setting %d, backends %v)", len(lut), m, setting, names)
		}
		share := map[string]int{}
		got := make([]string, m)
		for j, e := range lut {
			if e == nil {
				t.Fatalf("slot %d of %d is empty (setting %d, backends %v)", j, m, setting, names)
			}
			nm := e.String()
			if byName[nm] == nil {
				t.Fatalf("slot %d holds %q, which was never added (backends %v)", j, nm, names)
			}
			got[j] = nm
			share[nm]++
		}
		// balanced: Maglev's bound — every backend gets floor(m/n) or ceil(m/n) slots
		lo, hi := m/n, (m+n-1)/n
		for _, nm := range names {
			if share[nm] < lo || share[nm] > hi {
				t.Fatalf("backend %q owns %d of %d slots with %d backends; Maglev bound is [%d,%d] (setting %d, backends %v)",
					nm, share[nm], m, n, lo, hi, setting, names)
			}
		}
		// independent of learning order and duplicates
		differentOrder := false
		for rep := 0; rep < 2; rep++ {
			perm := rapid.Permutation(eps).Draw(t, "insertionOrder")
			var adds []*c33Endpoint
			for i, e := range perm {
				if e != eps[i] {
					differentOrder = true
				}
				adds = append(adds, e)
				if rapid.IntRange(0, 5).Draw(t, "dup") == 0 {
					// a second object with the same name (same endpoint learned again)
					d := perm[rapid.IntRange(0, i).Draw(t, "dupOf")]
					adds = append(adds, &c33Endpoint{ip: d.ip, port: d.port, tag: 1})
				}
			}
			lut2 := c33Build(m, adds)
			if len(lut2) != m {
				t.Fatalf("table has %d slots after re-ordering, expected %d", len(lut2), m)
			}
			for j := range lut2 {
				if lut2[j] == nil || lut2[j].String() != got[j] {
					var addNames []string
					for _, a := range adds {
						addNames = append(addNames, a.String())
					}
					t.Fatalf("table depends on the order backends were learned in: slot %d is %v vs %q (size %d)\norder A: %v\norder B: %v",
						j, lut2[j], got[j], m, names, addNames)
				}
			}
		}
		// equals the byte-order-explicit reference
		ref := c33Reference(m, names)
		for j := range ref {
			if ref[j] != got[j] {
				t.Fatalf("table differs from the little-endian Maglev reference at slot %d: %q vs reference %q (size %d, backends %v)",
					j, got[j], ref[j], m, names)
			}
		}

		// incremental learning: one ConsistentHash object learns the backends in yet another
		// order, generating tables in between (a node that built a table before it knew all the
		// backends).  Every intermediate table must be the table of the set learned so far, the
		// final one the table every other node computes, and re-generating must change nothing.
		incremental := false
		if n >= 2 {
			perm := rapid.Permutation(eps).Draw(t, "incrementalOrder")
			ch := consistenthash.New(m, fnv.New32(), fnv.New32())
			var learned []string
			gens := 0
			for i, e := range perm {
				ch.AddBackend(e)
				learned = append(learned, e.String())
				if i == len(perm)-1 || rapid.IntRange(0, 3).Draw(t, "generateHere") == 0 {
					if i < len(perm)-1 {
						incremental = true
					}
					gens++
					reps := 1
					if rapid.IntRange(0, 3).Draw(t, "generateTwice") == 0 {
						reps = 2
					}
					for r := 0; r < reps; r++ {
						lutI := ch.Generate()
						want := got
						if i < len(perm)-1 {
							want = c33Reference(m, learned)
						}
						if len(lutI) != m {
							t.Fatalf("incremental table has %d slots, expected %d", len(lutI), m)
						}
						for j := range lutI {
							if lutI[j] == nil || lutI[j].String() != want[j] {
								t.Fatalf("a node that learned the backends incrementally (AddBackend/Generate interleaved, table #%d, generated %d time(s)) has %v in slot %d, a node that learned the same %d backends at once has %q (size %d)\nlearning order so far: %v\none-shot order: %v",
									gens, r+1, lutI[j], j, len(learned), want[j], m, learned, names)
							}
						}
					}
				}
			}
		}

		sorted := append([]string(nil), names...)
		sort.Strings(sorted)
		var cl []string
		if incremental {
			cl = append(cl, "incremental-learning")
		}
		switch {
		case n == 1:
			cl = append(cl, "single-backend")
		case n > m:
			cl = append(cl, "more-backends-than-slots")
		case n > setting:
			cl = append(cl, "more-backends-than-setting")
		default:
			cl = append(cl, "backends<=setting")
		}
		if m%n != 0 {
			cl = append(cl, "uneven-share")
		}
		if v6 {
			cl = append(cl, "ipv6")
		}
		if setting >= 200 && services >= 500 {
			cl = append(cl, "both-settings-large")
		}
		rec.SizedCase(n >= 2 && differentOrder, fmt.Sprintf("%d|%s", m, strings.Join(sorted, ",")), n*m, func() any {
			return map[string]any{"maxEndpoints": setting, "maxServices": services, "tableSize": m, "backends": names}
		}, cl...)
	})
}
