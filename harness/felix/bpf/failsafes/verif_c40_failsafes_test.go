package failsafes_test

// C40, unit "bpffailsafes" — sentence 1 of the property in Felix's BPF dataplane mode: the
// configured failsafe ports are accepted whatever host endpoint policy says.  In BPF mode the
// BPF programs consult the failsafe map (cali_v4_fsafes / cali_v6_fsafes); a configured port
// that is missing from that map is subject to host endpoint policy.  The map is written by
// failsafes.Manager.
//
// Real code: the real failsafes.Manager (ResyncFailsafes / CompleteDeferredWork) over the
// package's mock map, wrapped so that individual Update / Delete calls fail transiently at
// generated positions (ENOMEM-style write failures).  The dataplane driver calls
// CompleteDeferredWork on every pass of its loop and schedules another pass while a manager
// reports an error; the harness does the same.  Oracle: whenever a pass returns nil (the
// manager says it is in sync) and, in any case, after the faults have stopped and a few more
// passes have run, every configured failsafe port of the map's IP version is in the map.

import (
	"errors"
	"fmt"
	"sort"
	"strings"
	"testing"

	"pgregory.net/rapid"

	"github.com/projectcalico/calico/felix/bpf/failsafes"
	"github.com/projectcalico/calico/felix/bpf/maps"
	"github.com/projectcalico/calico/felix/bpf/mock"
	"github.com/projectcalico/calico/felix/config"
	"github.com/projectcalico/calico/felix/proto"
	"github.com/projectcalico/calico/verifkit/ev"
)

func c40fsIdx(t *rapid.T, label string, n int) int {
	x := rapid.Uint64().Draw(t, label)
	x ^= x >> 30
	x *= 0xbf58476d1ce4e5b9
	x ^= x >> 27
	x *= 0x94d049bb133111eb
	x ^= x >> 31
	return int(x % uint64(n))
}

func c40fsChance(t *rapid.T, label string, pct int) bool { return c40fsIdx(t, label, 100) >= 100-pct }

func c40fsFrom[T any](t *rapid.T, label string, xs []T) T { return xs[c40fsIdx(t, label, len(xs))] }

// c40fsFlakyMap fails the Update / Delete calls whose per-pass index is scheduled to fail.
type c40fsFlakyMap struct {
	*mock.Map
	failUpdate, failDelete map[int]bool
	nUpdate, nDelete       int
	updateFaults           []int // indices that fired
	deleteFaults           int
}

func (m *c40fsFlakyMap) Update(k, v []byte) error {
	i := m.nUpdate
	m.nUpdate++
	if m.failUpdate[i] {
		m.updateFaults = append(m.updateFaults, i)
		return errors.New("cannot allocate memory")
	}
	return m.Map.Update(k, v)
}

func (m *c40fsFlakyMap) Delete(k []byte) error {
	i := m.nDelete
	m.nDelete++
	if m.failDelete[i] {
		m.deleteFaults++
		return errors.New("device or resource busy")
	}
	return m.Map.Delete(k)
}

func (m *c40fsFlakyMap) newPass(failUpdate, failDelete map[int]bool) {
	m.failUpdate, m.failDelete = failUpdate, failDelete
	m.nUpdate, m.nDelete, m.updateFaults, m.deleteFaults = 0, 0, nil, 0
}

var _ maps.Map = (*c40fsFlakyMap)(nil)

type c40fsOpRec struct{}

func (c40fsOpRec) RecordOperation(string) {}

func c40fsGenPorts(t *rapid.T, label string, ipv int) []config.ProtoPort {
	n := c40fsFrom(t, label+"-count", []int{0, 1, 2, 3, 4, 6})
	nets4 := []string{"10.0.0.0/8", "192.168.1.0/24", "172.16.0.9/32"}
	nets6 := []string{"fd00::/8", "2001:db8::/64", "2001:db8::9/128"}
	var out []config.ProtoPort
	for i := 0; i < n; i++ {
		pp := config.ProtoPort{Protocol: c40fsFrom(t, label+"-proto", []string{"tcp", "tcp", "udp"}),
			Port: c40fsFrom(t, label+"-port", []uint16{22, 53, 68, 179, 2379, 6443})}
		switch c40fsIdx(t, label+"-net-kind", 6) {
		case 0:
			pp.Net = c40fsFrom(t, label+"-net4", nets4)
		case 1:
			pp.Net = c40fsFrom(t, label+"-net6", nets6)
		}
		out = append(out, pp)
	}
	return out
}

type c40fsWant struct {
	key  string
	desc string
}

// c40fsExpected: the keys the statement demands for this IP version (reference: one key per
// configured tcp/udp port whose net is unset or of this version, masked to its prefix).
func c40fsExpected(ipv int, in, out []config.ProtoPort) []c40fsWant {
	var res []c40fsWant
	seen := map[string]bool{}
	add := func(p config.ProtoPort, outbound bool) {
		ipProto := uint8(6)
		if p.Protocol == "udp" {
			ipProto = 17
		}
		addr, mask := "0.0.0.0", 0
		if ipv == 6 {
			addr = "::"
		}
		if p.Net != "" {
			if strings.Contains(p.Net, ":") != (ipv == 6) {
				return
			}
			parts := strings.Split(p.Net, "/")
			addr = parts[0]
			fmt.Sscanf(parts[1], "%d", &mask)
		}
		var k failsafes.KeyInterface
		if ipv == 6 {
			k = failsafes.MakeKeyV6(ipProto, p.Port, outbound, addr, mask)
		} else {
			k = failsafes.MakeKey(ipProto, p.Port, outbound, addr, mask)
		}
		ks := string(k.ToSlice())
		if !seen[ks] {
			seen[ks] = true
			res = append(res, c40fsWant{ks, fmt.Sprintf("%s %s:%d net=%q", map[bool]string{false: "inbound", true: "outbound"}[outbound], p.Protocol, p.Port, p.Net)})
		}
	}
	for _, p := range in {
		add(p, false)
	}
	for _, p := range out {
		add(p, true)
	}
	return res
}

func TestVerifC40BPFFailsafeMap(t *testing.T) {
	ev.Quiet()
	rec := ev.New("C40", "bpffailsafes",
		"each case: IP version of the map, inbound and outbound failsafe lists (0-6 entries each, tcp/udp, no net / net of this version / net of the other version, duplicates possible), pre-existing map content (some configured keys, some stale keys), then 1-4 passes of CompleteDeferredWork (or an explicit ResyncFailsafes) during which generated Update and Delete calls fail transiently, then fault-free passes as the dataplane loop would run them; "+
			"oracle: after a pass that returned nil, and at the end after the fault-free passes, every configured failsafe port of this IP version has its key in the map. "+
			"Non-trivial = a pass in which an Update failed and a LATER Update of the same pass succeeded, or a failed Update together with a failed/pending delete; distinct = version/list sizes/fault positions",
		"expected keys are built with the package's MakeKey/MakeKeyV6 (key layout is C13's subject) from the configured lists, nets are canonical CIDRs as the config parser stores them",
		"Iter failures are not injected (the manager panics on them, i.e. Felix restarts); stale keys left behind are recorded but not judged (the statement speaks about configured ports)")
	defer rec.Write()

	rapid.Check(t, func(t *rapid.T) {
		ipv := rapid.SampledFrom([]int{4, 6}).Draw(t, "ipVersion")
		in := c40fsGenPorts(t, "failsafe-in", ipv)
		out := c40fsGenPorts(t, "failsafe-out", ipv)
		want := c40fsExpected(ipv, in, out)

		params, fam := failsafes.MapParams, proto.IPVersion_IPV4
		keyFromSlice, makeKey := failsafes.KeyFromSlice, failsafes.MakeKey
		if ipv == 6 {
			params, fam = failsafes.MapV6Params, proto.IPVersion_IPV6
			keyFromSlice, makeKey = failsafes.KeyV6FromSlice, failsafes.MakeKeyV6
		}
		fm := &c40fsFlakyMap{Map: mock.NewMockMap(params)}
		// Pre-existing content (left by a previous Felix): some wanted keys, some stale ones.
		nStale := 0
		for _, w := range want {
			if c40fsChance(t, "preexisting-wanted-key", 30) {
				fm.Map.Contents[w.key] = string(failsafes.Value())
			}
		}
		for i := c40fsIdx(t, "stale-keys", 4); i > 0; i-- {
			k := makeKey(6, uint16(40000+i), i%2 == 0, map[bool]string{false: "0.0.0.0", true: "::"}[ipv == 6], 0)
			fm.Map.Contents[string(k.ToSlice())] = string(failsafes.Value())
			nStale++
		}
		mgr := failsafes.NewManager(fm, in, out, c40fsOpRec{}, fam, keyFromSlice, makeKey)

		missing := func() []string {
			var out []string
			for _, w := range want {
				if _, ok := fm.Map.Contents[w.key]; !ok {
					out = append(out, w.desc)
				}
			}
			return out
		}
		classes := map[string]bool{}
		var history []string
		nontrivial := false
		nFaulty := 1 + c40fsIdx(t, "faulty-passes", 4)
		nCalls := len(in) + len(out)
		for pass := 0; pass < nFaulty; pass++ {
			fu, fd := map[int]bool{}, map[int]bool{}
			if nCalls > 0 {
				for i := c40fsFrom(t, "update-faults", []int{0, 1, 1, 1, 2}); i > 0; i-- {
					fu[c40fsIdx(t, "update-fault-at", nCalls)] = true
				}
			}
			if c40fsChance(t, "delete-fault", 25) {
				fd[c40fsIdx(t, "delete-fault-at", 4)] = true
			}
			fm.newPass(fu, fd)
			var err error
			explicit := c40fsChance(t, "explicit-resync", 20)
			if explicit {
				err = mgr.ResyncFailsafes()
			} else {
				err = mgr.CompleteDeferredWork()
			}
			history = append(history, fmt.Sprintf("pass %d (%s): update calls=%d failed at %v, delete calls=%d failed=%d -> err=%v", pass,
				map[bool]string{false: "CompleteDeferredWork", true: "ResyncFailsafes"}[explicit], fm.nUpdate, fm.updateFaults, fm.nDelete, fm.deleteFaults, err))
			for _, f := range fm.updateFaults {
				if f < fm.nUpdate-1 {
					classes["fault:update-failed-then-later-update-succeeded"] = true
					nontrivial = true
				} else {
					classes["fault:last-update-failed"] = true
				}
			}
			if fm.deleteFaults > 0 {
				classes["fault:delete-failed"] = true
			}
			if len(fm.updateFaults) == 0 && fm.deleteFaults == 0 {
				classes["pass:fault-free"] = true
			}
			if err == nil {
				classes["pass:returned-nil"] = true
				if m := missing(); len(m) > 0 {
					t.Fatalf("C40 violated (BPF mode): the failsafe manager reported success (in sync) but configured failsafe ports are missing from the failsafe map, so host endpoint policy can block them: %v\n  IPv%d inbound=%v outbound=%v\n  history: %v", m, ipv, in, out, history)
				}
			} else {
				classes["pass:returned-error"] = true
			}
		}
		// Faults stop.  The dataplane loop keeps calling CompleteDeferredWork (again at once while
		// a manager reports an error).
		fm.newPass(nil, nil)
		for i := 0; i < 3; i++ {
			err := mgr.CompleteDeferredWork()
			history = append(history, fmt.Sprintf("fault-free pass %d: update calls=%d -> err=%v", i, fm.nUpdate, err))
			fm.newPass(nil, nil)
		}
		if m := missing(); len(m) > 0 {
			t.Fatalf("C40 violated (BPF mode): after the map write faults stopped and three more passes of the dataplane loop ran, configured failsafe ports are still missing from the failsafe map (never retried), so host endpoint policy can block them: %v\n  IPv%d inbound=%v outbound=%v\n  history: %v", m, ipv, in, out, history)
		}
		stale := len(fm.Map.Contents) - len(want)
		if stale > 0 {
			classes["end:stale-keys-left"] = true
		} else if nStale > 0 {
			classes["end:stale-keys-removed"] = true
		}
		var cl []string
		for c := range classes {
			cl = append(cl, c)
		}
		sort.Strings(cl)
		cl = append(cl, fmt.Sprintf("v%d", ipv), fmt.Sprintf("wanted-keys-%d", min(len(want), 6)))
		rec.SizedCase(nontrivial, fmt.Sprintf("%d/%d/%d/%s", ipv, len(in), len(out), strings.Join(history, ";")), nCalls, func() any {
			return map[string]any{"ip_version": ipv, "inbound": in, "outbound": out, "history": history}
		}, cl...)
	})
}
