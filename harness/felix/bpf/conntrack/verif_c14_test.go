package conntrack_test

// C14 — BPF conntrack cleanup never removes a live connection.
//
// Real code under test: conntrack.NewScanner + conntrack.NewLivenessScanner (time shim) on
// the userspace side; on the kernel side the REAL process_ccq_entry / conntrack_cleanup of
// the current felix/bpf-gpl/conntrack_cleanup.c, compiled natively by verifkit/cnative and
// run against in-memory maps (stub libbpf helpers).  The harness owns the schedule at
// map-operation granularity: every Iter step, Get and Update on the conntrack / cleanup
// maps and every cleanup-queue callback is a point where the generator may let time pass
// or let a packet refresh a connection.
//
// Oracle (the statement): an entry may be removed by the cleanup only if at some judgement
// (a visit by the scanner) its connection had been idle longer than the timeout for its
// protocol/state AND no packet touched the connection after that judgement.  Bounded
// liveness: with traffic stopped, every connection idle past its timeout is gone after
// two further scans.

import (
	"encoding/binary"
	"encoding/hex"
	"fmt"
	"net"
	"sort"
	"strconv"
	"strings"
	"testing"
	"time"

	"golang.org/x/sys/unix"
	"pgregory.net/rapid"

	"github.com/projectcalico/calico/felix/bpf/conntrack"
	"github.com/projectcalico/calico/felix/bpf/conntrack/timeouts"
	v2 "github.com/projectcalico/calico/felix/bpf/conntrack/v2"
	v3 "github.com/projectcalico/calico/felix/bpf/conntrack/v3"
	v4 "github.com/projectcalico/calico/felix/bpf/conntrack/v4"
	"github.com/projectcalico/calico/felix/bpf/maps"
	"github.com/projectcalico/calico/felix/bpf/mock"
	"github.com/projectcalico/calico/felix/timeshim/mocktime"
	"github.com/projectcalico/calico/verifkit/cnative"
	"github.com/projectcalico/calico/verifkit/ev"
)

// c14KnownFwdEqTS is the signature of the finding "Scanner.handleNATEntries takes
// fwd.last_seen == rev.last_seen (the state the kernel leaves after any packet that hit the
// forward key) for 'reverse entry missing' and queues the forward entry as a standalone
// entry guarded by its own last_seen only; a packet through the reverse key between the
// judgement and the cleaner refreshes only the reverse entry, and the cleaner removes the
// forward entry of the live connection".  When listed as known, exactly that schedule (a
// reverse-key packet, during a scan, on a NAT connection already judged expired whose two
// timestamps are equal) is not generated; it is counted instead.
const c14KnownFwdEqTS = "nat-fwd-ts-equals-rev-ts-queued-standalone"

// ---- native cleaner --------------------------------------------------------------------

func c14StartNative(t *testing.T, ipver int) *cnative.Proc {
	defs := []string{"CALI_COMPILE_FLAGS=512"}
	if ipver == 6 {
		defs = append(defs, "IPVER6")
	}
	p, _, err := cnative.BuildAndStart(cnative.Spec{Tag: fmt.Sprintf("c14cleanup-v%d", ipver), Driver: "c14_cleanup_driver.c", Defines: defs})
	if err != nil {
		cnative.Inconclusive(t, err)
	}
	t.Cleanup(p.Close)
	out, err := p.Call("sizes")
	if err != nil {
		cnative.Inconclusive(t, err)
	}
	wantK, wantV, wantCV := conntrack.KeySize, conntrack.ValueSize, conntrack.MapParamsCleanup.ValueSize
	if ipver == 6 {
		wantK, wantV, wantCV = conntrack.KeyV6Size, conntrack.ValueV6Size, conntrack.MapParamsCleanupV6.ValueSize
	}
	if out != fmt.Sprintf("ok ctk=%d ctv=%d ccqk=%d ccqv=%d", wantK, wantV, wantK, wantCV) {
		// layout disagreement is C13's business; here the two halves cannot be wired together
		t.Fatalf("VERIF-INCONCLUSIVE: native cleanup program and Go maps disagree on key/value sizes: %s (Go %d/%d/%d)", out, wantK, wantV, wantCV)
	}
	return p
}

// ---- model -----------------------------------------------------------------------------

type c14Leg struct{ syn, ack, fin, rst bool }

type c14State struct {
	proto    uint8
	flags    uint32
	a, b     c14Leg
	rstTS    int64 // calico_ct_value.rst_seen
	lastSeen int64
}

type c14Judgement struct {
	seq     int
	expired bool
	orphan  bool // forward entry whose reverse entry did not exist
}

type c14Conn struct {
	id        int
	nat       bool
	key       string // tracking entry (normal or NAT reverse)
	fwdKey    string
	st        c14State // state of the tracking entry
	fwdLast   int64
	lastTouch int // seq of creation / last packet
	judged    []c14Judgement
	touchedBy string
}

// c14Threshold restates timeouts + entryDone: the connection is expired iff idle > result.
func c14Threshold(to timeouts.Timeouts, s c14State) time.Duration {
	switch s.proto {
	case conntrack.ProtoTCP:
		best := time.Duration(1<<63 - 1)
		use := func(d time.Duration) {
			if d < best {
				best = d
			}
		}
		dsr := s.flags&v4.FlagNATFwdDsr != 0
		if s.a.rst || s.b.rst {
			use(to.TCPResetSeen)
		}
		if (s.a.fin && s.b.fin) || (dsr && (s.a.fin || s.b.fin)) {
			use(to.TCPFinsSeen)
		}
		established := s.a.syn && s.a.ack && s.b.syn && s.b.ack
		if established || dsr {
			if s.rstTS != 0 {
				use(2 * 60 * time.Second)
			}
			use(to.TCPEstablished)
		} else {
			use(to.TCPSynSent)
		}
		return best
	case conntrack.ProtoICMP, conntrack.ProtoICMP6:
		return to.ICMPTimeout
	case conntrack.ProtoUDP:
		return to.UDPTimeout
	default:
		return to.GenericTimeout
	}
}

type c14TB interface {
	Fatalf(format string, args ...any)
}

type c14H struct {
	t      *rapid.T // nil in the scripted confirm tests: no draws, sorted orders
	tb     c14TB
	script func(h *c14H, point string)               // scripted hook (confirm tests)
	order  func(name string, keys []string) []string // scripted iteration order
	rec    *ev.Recorder
	ipver  int
	to     timeouts.Timeouts
	clock  *mocktime.MockTime
	ct     *c14Map
	ccq    *c14Map
	native *cnative.Proc
	sc     *conntrack.Scanner

	conns  []*c14Conn
	byKey  map[string]*c14Conn
	seq    int
	nextID int

	hooksOn     bool
	inScan      bool
	dirty       map[string]bool // ct keys changed since last push to native
	pushing     bool
	classes     map[string]bool
	ops         []string
	raceHits    int
	repoints    int
	faultLive   int
	origin      int // 0: entries written by the current dataplane; 2 / 3: initial entries come from an upgraded version-2 / version-3 map
	creatingOld bool
	cfg         map[string]string
	fault       func(h *c14H, mapName, key string) error // scripted lookup fault (scripted tests)
	boundary    int
	cleanerRm   int
}

func (h *c14H) now() int64 { return h.clock.KTimeNanos() }

func (h *c14H) class(c string) { h.classes[c] = true }

// ---- entry encoding (real constructors) ------------------------------------------------

func c14GoLeg(l c14Leg) conntrack.Leg {
	return conntrack.Leg{SynSeen: l.syn, AckSeen: l.ack, FinSeen: l.fin, RstSeen: l.rst, Approved: true}
}

func (h *c14H) mkKey(proto uint8, id int, fwd bool) string {
	pa, pb := uint16(1000+id), uint16(80)
	if h.ipver == 6 {
		a, b := net.ParseIP("fd00::1"), net.ParseIP("fd00::2")
		if fwd {
			b = net.ParseIP("fd00:5e::10") // service address
		}
		return string(conntrack.NewKeyV6(proto, a, pa, b, pb).AsBytes())
	}
	a, b := net.IPv4(10, 0, 0, 1), net.IPv4(10, 0, 0, 2)
	if fwd {
		b = net.IPv4(10, 96, 0, 10)
	}
	return string(conntrack.NewKey(proto, a, pa, b, pb).AsBytes())
}

func (h *c14H) trackingBytes(c *c14Conn) []byte {
	s := c.st
	ls := time.Duration(s.lastSeen)
	var b []byte
	if h.ipver == 6 {
		if c.nat {
			b = conntrack.NewValueV6NATReverse(ls, s.flags, c14GoLeg(s.a), c14GoLeg(s.b), nil, nil, 80).AsBytes()
		} else {
			b = conntrack.NewValueV6Normal(ls, s.flags, c14GoLeg(s.a), c14GoLeg(s.b)).AsBytes()
		}
	} else {
		if c.nat {
			b = conntrack.NewValueNATReverse(ls, s.flags, c14GoLeg(s.a), c14GoLeg(s.b), net.IPv4(0, 0, 0, 0), net.IPv4(10, 96, 0, 10), 80).AsBytes()
		} else {
			b = conntrack.NewValueNormal(ls, s.flags, c14GoLeg(s.a), c14GoLeg(s.b)).AsBytes()
		}
	}
	b = append([]byte{}, b...)
	binary.LittleEndian.PutUint64(b[v4.VoRSTSeen:], uint64(s.rstTS))
	return b
}

func (h *c14H) fwdBytes(c *c14Conn) []byte {
	ls := time.Duration(c.fwdLast)
	if h.ipver == 6 {
		var k conntrack.KeyV6
		copy(k[:], c.key)
		return append([]byte{}, conntrack.NewValueV6NATForward(ls, 0, k).AsBytes()...)
	}
	var k conntrack.Key
	copy(k[:], c.key)
	return append([]byte{}, conntrack.NewValueNATForward(ls, 0, k).AsBytes()...)
}

// upgraded encodes the entry the way an OLDER Felix's dataplane wrote it (conntrack map
// version 2 or 3, real constructors of that version) and runs it through the real per-entry
// upgrade chain to the current version, as maps.Upgrade does for every entry of an old map
// when Felix starts.  What the scanner then judges must still be the connection the old
// entry described (protocol, TCP state, flags, last_seen).
func (h *c14H) upgraded(c *c14Conn, fwd bool) (string, []byte) {
	s := c.st
	ls := time.Duration(s.lastSeen)
	key := c.key
	if fwd {
		key, ls = c.fwdKey, time.Duration(c.fwdLast)
	}
	var uk, uv maps.Upgradable
	switch {
	case h.origin == 2:
		created := ls - time.Duration(1+c.id)*time.Minute // v2 entries carry their creation time
		l2 := func(l c14Leg) v2.Leg {
			return v2.Leg{SynSeen: l.syn, AckSeen: l.ack, FinSeen: l.fin, RstSeen: l.rst, Approved: true}
		}
		var val v2.Value
		switch {
		case fwd:
			var rk v2.Key
			copy(rk[:], c.key)
			val = v2.NewValueNATForward(created, ls, 0, rk)
		case c.nat:
			val = v2.NewValueNATReverse(created, ls, uint16(s.flags), l2(s.a), l2(s.b), net.IPv4(0, 0, 0, 0), net.IPv4(10, 96, 0, 10), 80)
		default:
			val = v2.NewValueNormal(created, ls, uint16(s.flags), l2(s.a), l2(s.b))
		}
		// exactly what maps.Upgrade does with an entry of a version-2 map
		uk, uv = conntrack.GetKeyValueTypeFromVersion(2, []byte(key), val.AsBytes())
		for i := 2; i < conntrack.MapParams.Version; i++ {
			uk, uv = uk.Upgrade(), uv.Upgrade()
		}
	case h.ipver == 4:
		l3 := func(l c14Leg) v3.Leg {
			return v3.Leg{SynSeen: l.syn, AckSeen: l.ack, FinSeen: l.fin, RstSeen: l.rst, Approved: true}
		}
		var val v3.Value
		switch {
		case fwd:
			var rk v3.Key
			copy(rk[:], c.key)
			val = v3.NewValueNATForward(ls, 0, rk)
		case c.nat:
			val = v3.NewValueNATReverse(ls, uint16(s.flags), l3(s.a), l3(s.b), net.IPv4(0, 0, 0, 0), net.IPv4(10, 96, 0, 10), 80)
		default:
			val = v3.NewValueNormal(ls, uint16(s.flags), l3(s.a), l3(s.b))
		}
		if !fwd {
			binary.LittleEndian.PutUint64(val[v3.VoRSTSeen:], uint64(s.rstTS))
		}
		var k3 v3.Key
		copy(k3[:], key)
		uk, uv = k3.Upgrade(), val.Upgrade()
	default:
		l3 := func(l c14Leg) v3.Leg {
			return v3.Leg{SynSeen: l.syn, AckSeen: l.ack, FinSeen: l.fin, RstSeen: l.rst, Approved: true}
		}
		var val v3.ValueV6
		switch {
		case fwd:
			var rk v3.KeyV6
			copy(rk[:], c.key)
			val = v3.NewValueV6NATForward(ls, 0, rk)
			// the legacy constructor copies only the first 16 (IPv4 key size) bytes of the reverse
			// key; the version-3 dataplane wrote the whole key
			copy(val[v3.VoRevKeyV6:v3.VoRevKeyV6+v3.KeyV6Size], rk[:])
		case c.nat:
			val = v3.NewValueV6NATReverse(ls, uint16(s.flags), l3(s.a), l3(s.b), nil, nil, 80)
		default:
			val = v3.NewValueV6Normal(ls, uint16(s.flags), l3(s.a), l3(s.b))
		}
		if !fwd {
			binary.LittleEndian.PutUint64(val[v3.VoRSTSeen:], uint64(s.rstTS))
		}
		var k3 v3.KeyV6
		copy(k3[:], key)
		uk, uv = k3.Upgrade(), val.Upgrade()
	}
	return string(uk.AsBytes()), append([]byte{}, uv.AsBytes()...)
}

func (h *c14H) store(c *c14Conn, tracking, fwd bool) {
	if h.creatingOld {
		put := func(f bool) {
			k, v := h.upgraded(c, f)
			want := c.key
			if f {
				want = c.fwdKey
			}
			if k != want {
				h.tb.Fatalf("C14: the conntrack map upgrade changed the key of an entry: %x -> %x", want, k)
			}
			h.ct.put(k, v)
		}
		if tracking {
			put(false)
		}
		if fwd && c.nat && c.fwdKey != "" {
			put(true)
		}
		return
	}
	if tracking {
		h.ct.put(c.key, h.trackingBytes(c))
	}
	if fwd && c.nat && c.fwdKey != "" {
		h.ct.put(c.fwdKey, h.fwdBytes(c))
	}
}

// ---- the deterministic, hookable map -----------------------------------------------------

type c14Map struct {
	*mock.Map
	h    *c14H
	name string
}

func c14NewMap(h *c14H, name string, p maps.MapParameters) *c14Map {
	return &c14Map{Map: mock.NewMockMap(p), h: h, name: name}
}

func (m *c14Map) put(k string, v []byte) {
	m.Contents[k] = string(v)
	if m.name == "ct" {
		m.h.dirty[k] = true
	}
}

func (m *c14Map) del(k string) {
	delete(m.Contents, k)
	if m.name == "ct" {
		m.h.dirty[k] = true
	}
}

func (m *c14Map) sortedKeys() []string {
	ks := make([]string, 0, len(m.Contents))
	for k := range m.Contents {
		ks = append(ks, k)
	}
	sort.Strings(ks)
	return ks
}

// Iter visits the keys present at the start in a generated order, delivering the value
// current at the time of the visit (like bpf_map_get_next_key + lookup); keys deleted in the
// meantime are skipped.
func (m *c14Map) Iter(f maps.IterCallback) error {
	keys := m.sortedKeys()
	if len(keys) > 1 && m.h.t != nil {
		keys = rapid.Permutation(keys).Draw(m.h.t, "iterOrder:"+m.name)
	} else if m.h.order != nil {
		keys = m.h.order(m.name, keys)
	}
	for _, k := range keys {
		m.h.hook("iter:" + m.name)
		v, ok := m.Contents[k]
		if !ok {
			continue
		}
		if m.name == "ct" {
			m.h.recordVisit(k)
		}
		if f([]byte(k), []byte(v)) == maps.IterDelete {
			if m.name == "ct" {
				m.h.onRemoval(k, "scanner IterDelete")
			}
			m.del(k)
		}
	}
	return nil
}

func (m *c14Map) Get(k []byte) ([]byte, error) {
	m.h.hook("get:" + m.name)
	if err := m.h.lookupFault(m.name, string(k)); err != nil {
		return nil, err
	}
	v, ok := m.Contents[string(k)]
	if !ok {
		return nil, unix.ENOENT
	}
	return []byte(v), nil
}

func (m *c14Map) Update(k, v []byte) error {
	m.h.hook("update:" + m.name)
	if len(k) != m.KeySize || len(v) != m.ValueSize {
		m.h.tb.Fatalf("C14: code under test wrote %d/%d bytes into map %s (key %d value %d)", len(k), len(v), m.name, m.KeySize, m.ValueSize)
	}
	m.put(string(k), v)
	return nil
}

func (m *c14Map) BatchUpdate(ks, vs [][]byte, flags uint64) (int, error) {
	for i := range ks {
		if err := m.Update(ks[i], vs[i]); err != nil {
			return i, err
		}
	}
	return len(ks), nil
}

func (m *c14Map) Delete(k []byte) error {
	m.h.hook("delete:" + m.name)
	if _, ok := m.Contents[string(k)]; !ok {
		return unix.ENOENT
	}
	if m.name == "ct" {
		m.h.onRemoval(string(k), "userspace Delete")
	}
	m.del(string(k))
	return nil
}

func (m *c14Map) DeleteIfExists(k []byte) error {
	err := m.Delete(k)
	if err == unix.ENOENT {
		return nil
	}
	return err
}

// ---- schedule hooks ------------------------------------------------------------------------

func (h *c14H) advance(d time.Duration) {
	h.clock.IncrementTime(d)
	h.seq++
}

// hook is called before every map operation / cleaner callback while a scan runs.
func (h *c14H) hook(point string) {
	if !h.hooksOn || h.pushing {
		return
	}
	if h.t == nil {
		if h.script != nil {
			h.script(h, point)
		}
		return
	}
	switch rapid.IntRange(0, 12).Draw(h.t, "hook@"+point) {
	case 12:
		h.repoint("hook@" + point)
	case 8:
		h.advance(time.Duration(rapid.IntRange(1, 2000).Draw(h.t, "hookAdvanceNs")))
		h.ops = append(h.ops, "h-adv")
	case 9:
		h.advance(time.Duration(rapid.IntRange(1, 3000).Draw(h.t, "hookAdvanceMs")) * time.Millisecond)
		h.ops = append(h.ops, "h-advms")
	case 10, 11:
		h.packet("hook@" + point)
	}
}

// lookupFault lets a map lookup made during a sweep fail transiently (the bpf() syscall can
// return EAGAIN / EINTR / ENOMEM); the entry itself is untouched.  A failed lookup says
// nothing about the connection, so nothing may be removed on the strength of it.
func (h *c14H) lookupFault(mapName, k string) error {
	if !h.hooksOn || h.pushing {
		return nil
	}
	if h.t == nil {
		if h.fault != nil {
			return h.fault(h, mapName, k)
		}
		return nil
	}
	if rapid.IntRange(0, 5).Draw(h.t, "lookupFault:"+mapName) != 0 {
		return nil
	}
	err := rapid.SampledFrom([]unix.Errno{unix.EAGAIN, unix.EINTR, unix.ENOMEM}).Draw(h.t, "lookupErrno")
	h.class("lookup-fault-injected")
	if c := h.byKey[k]; c != nil && mapName == "ct" && h.present(c.key) {
		if time.Duration(h.now()-c.st.lastSeen) <= c14Threshold(h.to, c.st) {
			h.faultLive++
			h.class("lookup-fault-on-live-connection")
		}
	}
	h.ops = append(h.ops, "getfault")
	return err
}

// repoint models a client reusing its source port towards the same service after the forward
// entry of an (idle) NAT pair went away on its own (LRU eviction / the stale-NAT scanner's
// immediate delete): the forward KEY now belongs to a NEW connection whose forward entry
// points at a NEW reverse key (both stamped now); the OLD reverse entry stays untouched.
// If the old pair was already judged and queued, the cleaner must notice that the forward
// entry no longer points at the queued reverse key.
func (h *c14H) repoint(why string) {
	var cands, pend []*c14Conn
	for _, c := range h.conns {
		if c.nat && c.fwdKey != "" && h.present(c.fwdKey) && h.present(c.key) {
			cands = append(cands, c)
			for _, j := range c.judged {
				if j.expired && j.seq > c.lastTouch {
					pend = append(pend, c)
					break
				}
			}
		}
	}
	if len(cands) == 0 || len(h.conns) >= 12 {
		return
	}
	pool := cands
	if len(pend) > 0 && rapid.IntRange(0, 9).Draw(h.t, "repointPreferJudged") < 8 {
		pool = pend
	}
	old := pool[rapid.IntRange(0, len(pool)-1).Draw(h.t, "repointConn")]
	judged := false
	for _, j := range old.judged {
		if j.expired && j.seq > old.lastTouch {
			judged = true
		}
	}
	h.repointConn(old, why)
	h.class("fwd-repointed")
	if judged && h.inScan {
		h.repoints++
		h.class("fwd-repointed-before-clean")
	}
}

func (h *c14H) repointConn(old *c14Conn, why string) *c14Conn {
	fk := old.fwdKey
	h.ct.del(fk) // forward entry of the old pair goes away on its own
	old.fwdKey = ""
	h.seq++
	h.advance(time.Duration(50)) // the new SYN / datagram arrives a little later
	n := &c14Conn{id: h.nextID, nat: true, fwdKey: fk}
	h.nextID++
	n.st.proto = old.st.proto
	if n.st.proto == conntrack.ProtoTCP {
		n.st.a = c14Leg{syn: true}
	}
	n.st.lastSeen = h.now() // tracking entry created first ...
	n.key = h.mkKey(n.st.proto, n.id, false)
	h.advance(time.Duration(20))
	n.fwdLast = h.now() // ... forward entry a few ns later (calico_ct_create_nat_fwd)
	h.seq++
	n.lastTouch = h.seq
	n.touchedBy = "created by re-pointing the forward key (" + why + ")"
	h.conns = append(h.conns, n)
	h.byKey[n.key] = n
	h.byKey[fk] = n
	h.store(n, true, true)
	h.ops = append(h.ops, "repoint")
	return n
}

// pendingExpired lists connections with an "expired" judgement not followed by a packet.
func (h *c14H) pendingExpired() []*c14Conn {
	var out []*c14Conn
	for _, c := range h.conns {
		if !h.present(c.key) {
			continue
		}
		for _, j := range c.judged {
			if j.expired && j.seq > c.lastTouch {
				out = append(out, c)
				break
			}
		}
	}
	return out
}

func (h *c14H) present(k string) bool { _, ok := h.ct.Contents[k]; return ok }

// packet models the kernel's conntrack hit (conntrack.h calico_ct_lookup): the entry that
// was looked up gets last_seen = now; a hit through a NAT forward entry also stamps the
// reverse (tracking) entry with the same now; TCP flags may move.
func (h *c14H) packet(why string) {
	var live []*c14Conn
	for _, c := range h.conns {
		if h.present(c.key) {
			live = append(live, c)
		}
	}
	if len(live) == 0 {
		return
	}
	pool := live
	if pend := h.pendingExpired(); len(pend) > 0 && rapid.IntRange(0, 9).Draw(h.t, "pktPreferJudged") < 7 {
		pool = pend
	}
	c := pool[rapid.IntRange(0, len(pool)-1).Draw(h.t, "pktConn")]
	// time always moves between two events that read the clock
	h.advance(time.Duration(rapid.IntRange(1, 1000).Draw(h.t, "pktGapNs")))
	viaFwd := c.nat && h.present(c.fwdKey) && rapid.Bool().Draw(h.t, "pktViaFwdKey")
	if !viaFwd && c.nat && h.inScan && h.present(c.fwdKey) && c.fwdLast == c.st.lastSeen && ev.Known(c14KnownFwdEqTS) {
		for _, j := range c.judged {
			if j.expired && j.seq > c.lastTouch {
				viaFwd = true // steer away from the known finding: the packet takes the forward key
				h.rec.Excluded(c14KnownFwdEqTS)
				break
			}
		}
	}
	for _, j := range c.judged {
		if j.expired && j.seq > c.lastTouch && h.inScan {
			h.raceHits++
			h.class("refresh-after-expired-judgement")
			if viaFwd {
				h.class("race-refresh-via-fwd")
			} else if c.nat {
				h.class("race-refresh-via-rev")
			}
			break
		}
	}
	flagMove := -1
	if c.st.proto == conntrack.ProtoTCP {
		flagMove = rapid.IntRange(0, 7).Draw(h.t, "pktTCPFlag")
	}
	h.touch(c, viaFwd, flagMove, why)
}

// touch applies one packet to connection c at the current time.
func (h *c14H) touch(c *c14Conn, viaFwd bool, flagMove int, why string) {
	now := h.now()
	c.st.lastSeen = now
	if viaFwd {
		c.fwdLast = now
	}
	switch flagMove {
	case 0:
		c.st.a.fin = true
	case 1:
		c.st.b.fin = true
	case 2:
		c.st.a.rst = true
		c.st.rstTS = now
	case 3:
		c.st.a.rst, c.st.b.rst = false, false // residual traffic after RST
	case 4:
		c.st.a.ack, c.st.b.syn, c.st.b.ack = true, true, true
	}
	h.seq++
	c.lastTouch = h.seq
	c.touchedBy = why
	h.store(c, true, viaFwd)
	h.ops = append(h.ops, "pkt")
}

// recordVisit is the scanner's judgement point for one conntrack key.
func (h *c14H) recordVisit(k string) {
	c := h.byKey[k]
	if c == nil {
		h.tb.Fatalf("HARNESS-GAP: conntrack map contains a key the harness did not create: %x", k)
	}
	h.seq++
	j := c14Judgement{seq: h.seq}
	if c.nat && k == c.fwdKey && !h.present(c.key) {
		j.orphan = true
		j.expired = true // useless on its own; the statement says nothing about it
	} else {
		age := time.Duration(h.now() - c.st.lastSeen)
		th := c14Threshold(h.to, c.st)
		j.expired = age > th
		if d := age - th; d >= -1 && d <= 1 {
			h.boundary++
			h.class("judged-within-1ns-of-timeout")
		}
	}
	c.judged = append(c.judged, j)
}

// onRemoval is the oracle for every removal of a conntrack entry by scanner or cleaner.
func (h *c14H) onRemoval(k string, by string) {
	c := h.byKey[k]
	if c == nil {
		h.tb.Fatalf("C14: %s removed unknown conntrack key %x", by, k)
	}
	h.seq++
	h.cleanerRm++
	if c.nat && k == c.fwdKey && !h.present(c.key) {
		h.class("orphan-fwd-removed")
		return // forward entry without its reverse entry: not a connection any more
	}
	for _, j := range c.judged {
		if j.expired && !j.orphan && j.seq > c.lastTouch {
			if c.nat {
				h.class("nat-entry-removed")
			} else {
				h.class("normal-entry-removed")
			}
			return
		}
	}
	which := "entry"
	if c.nat {
		which = "NAT reverse (tracking) entry"
		if k == c.fwdKey {
			which = "NAT forward entry"
		}
	}
	th := c14Threshold(h.to, c.st)
	h.tb.Fatalf("C14 VIOLATION: %s removed the %s of live connection #%d (IPv%d proto %d).\n"+
		" now=%d last_seen(tracking)=%d idle=%v timeout(proto,state)=%v fwd.last_seen=%d\n"+
		" judgements (seq,expired)=%v; last packet at seq %d (%s); removal at seq %d.\n"+
		" Required: removal only if some judgement found it idle > timeout and no packet touched it afterwards.\n history: %s",
		by, which, c.id, h.ipver, c.st.proto, h.now(), c.st.lastSeen, time.Duration(h.now()-c.st.lastSeen), th, c.fwdLast,
		c.judged, c.lastTouch, c.touchedBy, h.seq, strings.Join(h.ops, " "))
}

// ---- the cleaner: real C code ---------------------------------------------------------------

type c14Cleaner struct{ h *c14H }

func (c *c14Cleaner) Close() error { return nil }

func (h *c14H) call(req string) string {
	out, err := h.native.Call(req)
	if err != nil {
		h.tb.Fatalf("VERIF-INCONCLUSIVE: native cleanup helper failed on %q: %v", strings.SplitN(req, " ", 2)[0], err)
	}
	return out
}

func (h *c14H) pushDirty() {
	h.pushing = true
	defer func() { h.pushing = false }()
	ks := make([]string, 0, len(h.dirty))
	for k := range h.dirty {
		ks = append(ks, k)
	}
	sort.Strings(ks)
	for _, k := range ks {
		if v, ok := h.ct.Contents[k]; ok {
			h.call("put ct " + hex.EncodeToString([]byte(k)) + " " + hex.EncodeToString([]byte(v)))
		} else {
			h.call("del ct " + hex.EncodeToString([]byte(k)))
		}
	}
	h.dirty = map[string]bool{}
}

func (h *c14H) applyOps(resp string) uint64 {
	// "ok cleaned=<n> rc=<n> ops=..."
	parts := strings.SplitN(resp, " ", 4)
	if len(parts) < 4 || parts[0] != "ok" {
		h.tb.Fatalf("HARNESS-GAP: unexpected native response %q", resp)
	}
	cleaned, _ := strconv.ParseUint(strings.TrimPrefix(parts[1], "cleaned="), 10, 64)
	for _, op := range strings.Split(strings.TrimPrefix(parts[3], "ops="), ";") {
		if op == "" {
			continue
		}
		f := strings.Split(op, ":")
		if len(f) != 4 {
			h.tb.Fatalf("HARNESS-GAP: unexpected native op %q", op)
		}
		kb, _ := hex.DecodeString(f[2])
		k := string(kb)
		switch {
		case f[0] == "D" && f[1] == "ct" && f[3] == "ok":
			h.onRemoval(k, "kernel cleanup program (process_ccq_entry)")
			delete(h.ct.Contents, k)
		case f[0] == "D" && f[1] == "ccq" && f[3] == "ok":
			delete(h.ccq.Contents, k)
		case f[0] == "M" && f[1] == "ct":
			vb, _ := hex.DecodeString(f[3])
			if _, ok := h.ct.Contents[k]; ok {
				h.ct.Contents[k] = string(vb)
			}
		case f[0] == "U":
			h.tb.Fatalf("HARNESS-GAP: cleanup program updated map %s; not modelled", f[1])
		}
	}
	return cleaned
}

func (c *c14Cleaner) Run(opts ...conntrack.RunOpt) (*conntrack.CleanupContext, error) {
	h := c.h
	h.hook("cleaner-start")
	h.pushing = true
	h.call("reset")
	for _, k := range h.ct.sortedKeys() {
		h.call("put ct " + hex.EncodeToString([]byte(k)) + " " + hex.EncodeToString([]byte(h.ct.Contents[k])))
	}
	qkeys := h.ccq.sortedKeys()
	if len(qkeys) > 1 && h.t != nil {
		qkeys = rapid.Permutation(qkeys).Draw(h.t, "cleanupQueueOrder")
	}
	for _, k := range qkeys {
		h.call("put ccq " + hex.EncodeToString([]byte(k)) + " " + hex.EncodeToString([]byte(h.ccq.Contents[k])))
	}
	h.pushing = false
	h.dirty = map[string]bool{}
	var cleaned uint64
	if len(qkeys) > 0 && h.t != nil && rapid.IntRange(0, 4).Draw(h.t, "wholeProgram") == 0 {
		// the real program entry point: conntrack_cleanup() walking the queue itself
		h.class("cleaner-whole-program")
		cleaned = h.applyOps(h.call("run " + strconv.FormatInt(h.now(), 10)))
	} else {
		for _, k := range qkeys {
			h.hook("cleaner-callback")
			h.pushDirty()
			h.call("now " + strconv.FormatInt(h.now(), 10))
			cleaned += h.applyOps(h.call("step " + hex.EncodeToString([]byte(k))))
		}
	}
	h.dirty = map[string]bool{}
	h.ops = append(h.ops, fmt.Sprintf("clean(%d/%d)", cleaned, len(qkeys)))
	return &conntrack.CleanupContext{NumKVsCleaned: cleaned}, nil
}

// ---- generators ------------------------------------------------------------------------------

// c14TimeoutKeys are the protocol/state timeouts of timeouts.Timeouts that judge entries.
var c14TimeoutKeys = []string{"TCPSynSent", "TCPEstablished", "TCPFinsSeen", "TCPResetSeen", "UDPTimeout", "GenericTimeout", "ICMPTimeout"}

// c14GenTimeoutConfig generates a BPFConntrackTimeouts key/value list as Felix receives it
// (empty, naming every timeout, or - what an operator overriding one field produces - naming
// only some; values that are durations, or not usable) and the timeouts that must then apply:
// the configured duration where one is given, the documented default
// (timeouts.DefaultTimeouts, "If nil, Calico uses its own default value") otherwise.
func c14GenTimeoutConfig(t *rapid.T) (map[string]string, timeouts.Timeouts, []string) {
	want := timeouts.DefaultTimeouts()
	cfg := map[string]string{}
	shape := rapid.SampledFrom([]string{"empty", "full", "partial", "partial"}).Draw(t, "timeoutsConfigShape")
	classes := []string{"timeouts-config:" + shape}
	set := func(name string, d time.Duration) {
		switch name {
		case "TCPSynSent":
			want.TCPSynSent = d
		case "TCPEstablished":
			want.TCPEstablished = d
		case "TCPFinsSeen":
			want.TCPFinsSeen = d
		case "TCPResetSeen":
			want.TCPResetSeen = d
		case "UDPTimeout":
			want.UDPTimeout = d
		case "GenericTimeout":
			want.GenericTimeout = d
		case "ICMPTimeout":
			want.ICMPTimeout = d
		}
	}
	invalid := false
	for _, k := range c14TimeoutKeys {
		if shape == "empty" || (shape == "partial" && !rapid.Bool().Draw(t, "configNames"+k)) {
			continue
		}
		switch rapid.IntRange(0, 9).Draw(t, "configValueKind"+k) {
		case 0:
			// not a duration ("Auto" is only resolvable for the keys backed by a sysctl; for
			// the others it is just another unusable value): the default applies
			bad := []string{"bogus", "", "30", "-"}
			if k == "UDPTimeout" || k == "TCPResetSeen" {
				bad = append(bad, "Auto")
			}
			cfg[k] = rapid.SampledFrom(bad).Draw(t, "configBadValue"+k)
			invalid = true
		case 1:
			ms := rapid.IntRange(1000, 600000).Draw(t, "configMillis"+k)
			cfg[k] = fmt.Sprintf("%dms", ms)
			set(k, time.Duration(ms)*time.Millisecond)
		default:
			secs := rapid.IntRange(1, 7200).Draw(t, "configSecs"+k)
			cfg[k] = fmt.Sprintf("%ds", secs)
			set(k, time.Duration(secs)*time.Second)
		}
	}
	if shape != "empty" && rapid.IntRange(0, 4).Draw(t, "configGracePeriod") == 0 {
		cfg["CreationGracePeriod"] = "15s"
	}
	if rapid.IntRange(0, 9).Draw(t, "configUnknownKey") == 0 {
		cfg["NoSuchTimeout"] = "1s"
		invalid = true
	}
	if invalid {
		classes = append(classes, "timeouts-config-has-unusable-value")
	}
	if shape == "partial" && len(cfg) == 0 {
		classes[0] = "timeouts-config:empty"
	}
	return cfg, want, classes
}

func (h *c14H) create() {
	t := h.t
	c := &c14Conn{id: h.nextID}
	h.nextID++
	protos := []uint8{conntrack.ProtoTCP, conntrack.ProtoTCP, conntrack.ProtoUDP, conntrack.ProtoICMP, 132}
	if h.ipver == 6 {
		protos[3] = conntrack.ProtoICMP6
	}
	c.st.proto = rapid.SampledFrom(protos).Draw(t, "proto")
	c.nat = c.st.proto != conntrack.ProtoICMP && c.st.proto != conntrack.ProtoICMP6 && rapid.Bool().Draw(t, "nat")
	if c.st.proto == conntrack.ProtoTCP {
		bits := rapid.IntRange(0, 255).Draw(t, "tcpLegBits")
		c.st.a = c14Leg{bits&1 != 0, bits&2 != 0, bits&4 != 0, bits&8 != 0}
		c.st.b = c14Leg{bits&16 != 0, bits&32 != 0, bits&64 != 0, bits&128 != 0}
		if rapid.IntRange(0, 2).Draw(t, "established") > 0 {
			c.st.a.syn, c.st.a.ack, c.st.b.syn, c.st.b.ack = true, true, true, true
		}
		if c.nat && rapid.IntRange(0, 4).Draw(t, "dsr") == 0 {
			c.st.flags |= v4.FlagNATFwdDsr
		}
		if rapid.IntRange(0, 4).Draw(t, "rstTimestamp") == 0 {
			c.st.rstTS = h.now() - int64(rapid.IntRange(1, 1000).Draw(t, "rstAgo"))*int64(time.Second)
		}
	}
	if rapid.IntRange(0, 5).Draw(t, "connlimit") == 0 {
		c.st.flags |= v4.FlagConnLimitIn
	}
	if h.creatingOld {
		c.st.flags &= 0xffff // versions 2 and 3 have 16 flag bits
		if h.origin == 2 {
			c.st.rstTS = 0 // version 2 had no rst_seen; the connection never recorded a RST time
		}
	}
	// idle time relative to the timeout that applies to this protocol/state
	th := c14Threshold(h.to, c.st)
	var age time.Duration
	switch rapid.IntRange(0, 7).Draw(t, "ageClass") {
	case 0:
		age = th - 1
	case 1:
		age = th
	case 2:
		age = th + 1
	case 3:
		age = th + time.Duration(rapid.IntRange(2, 3_000_000_000).Draw(t, "agePastNs"))
	case 4:
		age = th - time.Duration(rapid.IntRange(2, 3_000_000_000).Draw(t, "ageShortNs"))
	case 5:
		age = 0
	default:
		age = th + time.Duration(rapid.IntRange(1, 600).Draw(t, "agePastSecs"))*time.Second
	}
	if age < 0 {
		age = 0
	}
	c.st.lastSeen = h.now() - int64(age)
	c.key = h.mkKey(c.st.proto, c.id, false)
	if c.nat {
		c.fwdKey = h.mkKey(c.st.proto, c.id, true)
		// forward entry timestamps the kernel can produce: created a few ns after the tracking
		// entry; equal to it after a packet through the forward key; older after reverse traffic
		switch rapid.IntRange(0, 2).Draw(t, "fwdTimestamp") {
		case 0:
			c.fwdLast = c.st.lastSeen
			h.class("fwd-ts-equals-rev-ts")
		case 1:
			c.fwdLast = c.st.lastSeen + int64(rapid.IntRange(1, 500).Draw(t, "fwdCreatedAfterNs"))
			if c.fwdLast > h.now() {
				c.fwdLast = h.now()
			}
		default:
			c.fwdLast = c.st.lastSeen - int64(rapid.IntRange(1, 1_000_000_000).Draw(t, "fwdOlderNs"))
		}
	}
	h.seq++
	c.lastTouch = h.seq
	c.touchedBy = "create"
	h.conns = append(h.conns, c)
	h.byKey[c.key] = c
	if c.nat {
		h.byKey[c.fwdKey] = c
	}
	h.store(c, true, true)
	what := "new"
	if h.creatingOld {
		what = fmt.Sprintf("upgraded-from-v%d", h.origin)
	}
	h.ops = append(h.ops, fmt.Sprintf("%s(p%d,nat=%v)", what, c.st.proto, c.nat))
}

func (h *c14H) scan() {
	h.hooksOn, h.inScan = true, true
	h.sc.Scan()
	h.hooksOn, h.inScan = false, false
	h.ops = append(h.ops, "scan")
}

func c14NewH(t *rapid.T, rec *ev.Recorder, ipver int, native *cnative.Proc) *c14H {
	h := &c14H{t: t, tb: t, rec: rec, ipver: ipver, native: native, byKey: map[string]*c14Conn{}, dirty: map[string]bool{}, classes: map[string]bool{}}
	// the oracle judges with the timeouts the configuration asks for; the scanner under test
	// gets whatever the real timeouts.GetTimeouts makes of the same configuration
	cfg, want, cfgClasses := c14GenTimeoutConfig(t)
	h.to = want
	h.cfg = cfg
	for _, c := range cfgClasses {
		h.class(c)
	}
	h.clock = mocktime.New()
	ctP, ccqP := conntrack.MapParams, conntrack.MapParamsCleanup
	kfb, vfb := conntrack.KeyFromBytes, conntrack.ValueFromBytes
	if ipver == 6 {
		ctP, ccqP = conntrack.MapParamsV6, conntrack.MapParamsCleanupV6
		kfb, vfb = conntrack.KeyV6FromBytes, conntrack.ValueV6FromBytes
	}
	h.ct = c14NewMap(h, "ct", ctP)
	h.ccq = c14NewMap(h, "ccq", ccqP)
	lc := conntrack.NewLivenessScanner(timeouts.GetTimeouts(cfg), rapid.Bool().Draw(t, "dsrMode"), conntrack.WithTimeShim(h.clock))
	h.sc = conntrack.NewScanner(h.ct, kfb, vfb, nil, "Disabled", h.ccq, ipver, &c14Cleaner{h}, lc)
	if h.sc == nil {
		t.Fatalf("HARNESS-GAP: NewScanner returned nil")
	}
	// where the map's initial contents come from: written by the current dataplane, or left
	// by an older Felix and converted by the upgrade chain at start-up (version 2 is IPv4 only)
	origins := []int{0, 0, 3}
	if ipver == 4 {
		origins = []int{0, 0, 2, 2, 3}
	}
	h.origin = rapid.SampledFrom(origins).Draw(t, "mapOrigin")
	if h.origin != 0 {
		h.creatingOld = true
		n := rapid.IntRange(1, 4).Draw(t, "nUpgradedEntries")
		for i := 0; i < n; i++ {
			h.create()
		}
		h.creatingOld = false
		h.class(fmt.Sprintf("initial-map-upgraded-from-v%d", h.origin))
	}
	return h
}

// ---- the property ------------------------------------------------------------------------------

func TestVerifC14CleanupNeverRemovesLive(t *testing.T) {
	ev.Quiet()
	rec := ev.New("C14", "scanner-vs-native-cleaner",
		"rapid state machine, IPv4 and IPv6: create connections (normal / NAT fwd+rev pairs; TCP leg-flag combinations, UDP, ICMP, other; idle time at "+
			"timeout-1ns/=/+1ns and far either side; kernel-producible fwd/rev timestamp relations), advance clock, packets (via forward or reverse key, "+
			"TCP flag moves), LRU eviction of one half of a pair, generated timeouts; Scan() of the real Scanner+LivenessScanner with a hook before every map "+
			"operation and before every cleanup-queue callback of the REAL process_ccq_entry (native), where time may pass or a packet may refresh a "+
			"connection. Non-trivial = a packet hit a connection after it was judged expired and before the cleaner ran, or a judgement fell within 1 ns "+
			"of the timeout; distinct = op sequence + classes",
		"kernel side = the real C function compiled for the host and run against in-memory maps through stub helpers (no kernel, no verifier)",
		"interleavings are explored between map operations / queue callbacks, not inside one process_ccq_entry call",
		"expiry reference restates timeouts + entryDone (idle > timeout for protocol/TCP state)",
		"a timeout the BPFConntrackTimeouts list does not name, or names with an unusable value, is the documented default (timeouts.DefaultTimeouts)")
	defer rec.Write()
	natives := map[int]*cnative.Proc{4: c14StartNative(t, 4), 6: c14StartNative(t, 6)}

	rapid.Check(t, func(t *rapid.T) {
		ipver := rapid.SampledFrom([]int{4, 4, 6}).Draw(t, "ipver")
		h := c14NewH(t, rec, ipver, natives[ipver])
		t.Repeat(map[string]func(*rapid.T){
			"create": func(t *rapid.T) {
				h.t, h.tb = t, t
				if len(h.conns) >= 6 {
					t.Skip("enough connections")
				}
				h.create()
			},
			"advance": func(t *rapid.T) {
				h.t, h.tb = t, t
				var d time.Duration
				switch rapid.IntRange(0, 3).Draw(t, "advanceClass") {
				case 0:
					d = time.Duration(rapid.IntRange(1, 10).Draw(t, "advNs"))
				case 1:
					d = time.Duration(rapid.IntRange(1, 5000).Draw(t, "advMs")) * time.Millisecond
				default:
					d = time.Duration(rapid.IntRange(1, 4000).Draw(t, "advSecs")) * time.Second
				}
				h.advance(d)
				h.ops = append(h.ops, "adv")
			},
			"packet": func(t *rapid.T) {
				h.t, h.tb = t, t
				h.packet("packet action")
			},
			"lruEvict": func(t *rapid.T) {
				h.t, h.tb = t, t
				ks := h.ct.sortedKeys()
				if len(ks) == 0 {
					t.Skip("empty")
				}
				k := ks[rapid.IntRange(0, len(ks)-1).Draw(t, "evictKey")]
				h.ct.del(k)
				h.seq++
				h.class("lru-eviction")
				h.ops = append(h.ops, "evict")
			},
			"repoint": func(t *rapid.T) {
				h.t, h.tb = t, t
				h.repoint("repoint action")
			},
			"scan": func(t *rapid.T) {
				h.t, h.tb = t, t
				h.scan()
			},
			"": func(t *rapid.T) {
				h.t, h.tb = t, t
				for _, k := range h.ct.sortedKeys() {
					if h.byKey[k] == nil {
						t.Fatalf("C14: conntrack map contains an entry nobody created: %x", k)
					}
				}
			},
		})
		// ---- bounded liveness: traffic stops; two further scans ----
		h.t, h.tb = t, t
		h.advance(2 * time.Second) // also outdates the scanner's cached kernel time
		final := h.now()
		h.hooksOn = false
		h.sc.Scan()
		h.sc.Scan()
		for _, c := range h.conns {
			if !h.present(c.key) {
				continue
			}
			idle := time.Duration(final - c.st.lastSeen)
			th := c14Threshold(h.to, c.st)
			if idle > th {
				t.Fatalf("C14 VIOLATION (liveness): connection #%d (IPv%d proto %d nat=%v) idle %v > timeout %v, no traffic, still present after 2 further scans "+
					"(forward entry present: %v)\n history: %s", c.id, ipver, c.st.proto, c.nat, idle, th, c.nat && h.present(c.fwdKey), strings.Join(h.ops, " "))
			}
			h.class("kept-not-expired")
		}
		var cls []string
		for k := range h.classes {
			cls = append(cls, k)
		}
		sort.Strings(cls)
		cls = append(cls, fmt.Sprintf("ipv%d", ipver))
		nt := h.raceHits > 0 || h.boundary > 0 || h.repoints > 0 || h.faultLive > 0
		shape := strings.Join(h.ops, " ") + "|" + strings.Join(cls, ",")
		rec.SizedCase(nt, shape, len(h.ops), func() any {
			return map[string]any{"ipver": ipver, "ops": strings.Join(h.ops, " "), "classes": cls, "refresh_between_judgement_and_clean": h.raceHits, "fwd_repointed_between_judgement_and_clean": h.repoints, "lookup_faults_on_live_connections": h.faultLive,
				"timeouts_config":                  fmt.Sprint(h.cfg),
				"judgements_within_1ns_of_timeout": h.boundary, "removals": h.cleanerRm}
		}, cls...)
	})
}

// ---- scripted tests (no rapid): the confirm test of the open known finding (named
// TestVerifC14_..., outside the unit's run pattern) and a regression input of a fixed one ----

func c14NewScripted(t *testing.T, ipver int, cfg map[string]string, want timeouts.Timeouts) *c14H {
	native := c14StartNative(t, ipver)
	h := &c14H{tb: t, rec: ev.New("C14", "confirm", "scripted"), ipver: ipver, native: native,
		byKey: map[string]*c14Conn{}, dirty: map[string]bool{}, classes: map[string]bool{}}
	h.to, h.cfg = want, cfg
	h.clock = mocktime.New()
	ctP, ccqP := conntrack.MapParams, conntrack.MapParamsCleanup
	kfb, vfb := conntrack.KeyFromBytes, conntrack.ValueFromBytes
	if ipver == 6 {
		ctP, ccqP = conntrack.MapParamsV6, conntrack.MapParamsCleanupV6
		kfb, vfb = conntrack.KeyV6FromBytes, conntrack.ValueV6FromBytes
	}
	h.ct = c14NewMap(h, "ct", ctP)
	h.ccq = c14NewMap(h, "ccq", ccqP)
	lc := conntrack.NewLivenessScanner(timeouts.GetTimeouts(cfg), false, conntrack.WithTimeShim(h.clock))
	h.sc = conntrack.NewScanner(h.ct, kfb, vfb, nil, "Disabled", h.ccq, ipver, &c14Cleaner{h}, lc)
	return h
}

func (h *c14H) addConn(proto uint8, nat bool, established bool, idle time.Duration, fwdLast int64) *c14Conn {
	c := &c14Conn{id: h.nextID, nat: nat}
	h.nextID++
	c.st.proto = proto
	if established {
		c.st.a = c14Leg{syn: true, ack: true}
		c.st.b = c14Leg{syn: true, ack: true}
	}
	c.st.lastSeen = h.now() - int64(idle)
	c.key = h.mkKey(proto, c.id, false)
	if nat {
		c.fwdKey = h.mkKey(proto, c.id, true)
		c.fwdLast = fwdLast
		if fwdLast == 0 {
			c.fwdLast = c.st.lastSeen
		}
		h.byKey[c.fwdKey] = c
	}
	h.seq++
	c.lastTouch = h.seq
	c.touchedBy = "create"
	h.conns = append(h.conns, c)
	h.byKey[c.key] = c
	h.store(c, true, true)
	return c
}

// TestVerifC14_ConfirmFwdEqualTS fails exactly when finding c14KnownFwdEqTS reproduces.
func TestVerifC14_ConfirmFwdEqualTS(t *testing.T) {
	ev.Quiet()
	h := c14NewScripted(t, 4, nil, timeouts.DefaultTimeouts())
	// established TCP through a service, last packet came through the forward key two hours ago
	c := h.addConn(conntrack.ProtoTCP, true, true, 2*time.Hour, 0)
	h.order = func(name string, keys []string) []string { // the scanner meets the forward entry first
		if name != "ct" {
			return keys
		}
		return []string{c.fwdKey, c.key}
	}
	visits := 0
	h.script = func(h *c14H, point string) {
		if point == "iter:ct" {
			visits++
			if visits == 2 { // after the forward entry was judged, before the reverse entry is visited:
				h.advance(time.Microsecond)
				h.touch(c, false, -1, "reply packet through the reverse key") // only the tracking entry is stamped
			}
		}
	}
	h.scan() // the oracle in onRemoval reports the violation
	if !h.present(c.fwdKey) || !h.present(c.key) {
		t.Fatalf("C14 finding reproduces (pair split): fwd present=%v rev present=%v", h.present(c.fwdKey), h.present(c.key))
	}
}

// TestVerifC14RegressV6RevOrphan is the plain regression input of a defect this check found and
// that was fixed in the tree (4a9af25, cleanupv1.ValueV6.Timestamp/RevTimestamp offsets): an
// expired IPv6 reverse-NAT entry met without its forward entry was queued with garbage
// timestamps and never cleaned.
func TestVerifC14RegressV6RevOrphan(t *testing.T) {
	ev.Quiet()
	h := c14NewScripted(t, 6, nil, timeouts.DefaultTimeouts())
	c := h.addConn(conntrack.ProtoUDP, true, false, 10*time.Minute, 0)
	h.ct.del(c.fwdKey) // forward entry lost (LRU)
	h.scan()
	h.scan()
	if h.present(c.key) {
		t.Fatalf("C14 VIOLATION (liveness, regression of 4a9af25): IPv6 reverse-NAT entry idle 10m (UDP timeout %v) still present after two scans", h.to.UDPTimeout)
	}
}

// TestVerifC14RegressLookupFaultKeepsLivePair: plain regression input for the fault class added
// to the generator - the lookup of a live NAT pair's reverse entry fails transiently during
// two sweeps; nothing of the pair may be removed.
func TestVerifC14RegressLookupFaultKeepsLivePair(t *testing.T) {
	ev.Quiet()
	h := c14NewScripted(t, 4, nil, timeouts.DefaultTimeouts())
	c := h.addConn(conntrack.ProtoTCP, true, true, time.Second, h.now()-int64(10*time.Minute))
	h.fault = func(h *c14H, mapName, key string) error {
		if mapName == "ct" && key == c.key {
			return unix.EAGAIN
		}
		return nil
	}
	h.scan() // onRemoval reports any removal of the live pair
	h.scan()
	if !h.present(c.key) || !h.present(c.fwdKey) {
		t.Fatalf("C14 VIOLATION: live NAT pair lost an entry after failed lookups: fwd present=%v rev present=%v", h.present(c.fwdKey), h.present(c.key))
	}
}

// TestVerifC14RegressPartialTimeoutConfig: plain regression input for the configuration shapes
// added to the generator - a list naming one timeout leaves the others at their defaults.
func TestVerifC14RegressPartialTimeoutConfig(t *testing.T) {
	ev.Quiet()
	want := timeouts.DefaultTimeouts()
	want.TCPEstablished = 2 * time.Hour
	h := c14NewScripted(t, 4, map[string]string{"TCPEstablished": "2h"}, want)
	udp := h.addConn(conntrack.ProtoUDP, false, false, 2*time.Second, 0)
	icmp := h.addConn(conntrack.ProtoICMP, false, false, time.Second, 0)
	old := h.addConn(conntrack.ProtoUDP, false, false, 61*time.Second, 0)
	h.scan()
	h.scan()
	if !h.present(udp.key) || !h.present(icmp.key) {
		t.Fatalf("C14 VIOLATION: recently used flows removed under a partial timeout configuration")
	}
	if h.present(old.key) {
		t.Fatalf("C14 VIOLATION (liveness): UDP flow idle 61s (default UDP timeout %v) still present after two scans", want.UDPTimeout)
	}
}

// ---- the upgrade chain keeps the meaning of every field -----------------------------------------

type c14OldLeg struct {
	seqno                                uint32
	syn, ack, fin, rst, approved, opener bool
	ifindex                              uint32
}

func c14GenOldLeg(t *rapid.T, label string) c14OldLeg {
	bits := rapid.IntRange(0, 63).Draw(t, label+"Bits")
	return c14OldLeg{
		seqno: rapid.Uint32().Draw(t, label+"Seqno"),
		syn:   bits&1 != 0, ack: bits&2 != 0, fin: bits&4 != 0, rst: bits&8 != 0, approved: bits&16 != 0, opener: bits&32 != 0,
		ifindex: rapid.Uint32().Draw(t, label+"Ifindex"),
	}
}

// TestVerifC14UpgradePreservesFields: entries of an old conntrack map (version 2, version 3 IPv4/IPv6),
// built with that version's constructors from generated field values, are run through the real
// upgrade chain; the current-version entry must describe the same connection: every field that
// exists in both versions reads the same through each version's own accessors, fields that are
// new in the current version are zero (in particular rst_seen for version-2 entries, which is
// what entryDone consults), also when read through the real C struct (cnative).
func TestVerifC14UpgradePreservesFields(t *testing.T) {
	ev.Quiet()
	rec := ev.New("C14", "upgrade-chain",
		"rapid: generated version-2 (IPv4) and version-3 (IPv4/IPv6) conntrack entries of every type (normal, NAT forward, NAT reverse) with random "+
			"timestamps, 16-bit flags, leg seqno/flag bits/ifindex, NAT addresses/ports, reverse key, are converted by the real chain "+
			"(GetKeyValueTypeFromVersion + Upgrade() as maps.Upgrade does for v2; Value/Key.Upgrade() for v3); common fields must read the same through "+
			"the old and the current accessors, new fields must be zero, and the C struct calico_ct_value must read the same rst_seen/last_seen/type/flags. "+
			"Non-trivial = TCP-state-bearing entry (normal / NAT reverse) with non-zero flags and leg bits; distinct = (chain, type, flag/leg classes)",
		"the upgrade from a version-3 map is exercised through the v3 types' Upgrade() methods, not through GetKeyValueTypeFromVersion(3, ...) (see report: that dispatch returns current-version types)")
	defer rec.Write()
	_, layouts, err := cnative.StartC13()
	if err != nil {
		cnative.Inconclusive(t, err)
	}
	t.Cleanup(func() {
		for _, l := range layouts {
			l.Close()
		}
	})
	rapid.Check(t, func(t *rapid.T) {
		chain := rapid.SampledFrom([]string{"v2->v4", "v2->v4", "v3->v4", "v3->v4/ipv6"}).Draw(t, "chain")
		typ := rapid.SampledFrom([]string{"normal", "nat-fwd", "nat-rev"}).Draw(t, "entryType")
		ipver := 4
		if chain == "v3->v4/ipv6" {
			ipver = 6
		}
		lastSeen := time.Duration(rapid.Int64Range(1, 1<<62).Draw(t, "lastSeen"))
		created := time.Duration(rapid.Int64Range(1, int64(lastSeen)).Draw(t, "created"))
		rstSeen := uint64(0)
		if chain != "v2->v4" && rapid.Bool().Draw(t, "hasRstSeen") {
			rstSeen = rapid.Uint64Range(1, 1<<62).Draw(t, "rstSeen")
		}
		flags := uint16(rapid.OneOf(rapid.Uint16(), rapid.SampledFrom([]uint16{0, 1, 2, 0x100, 0x8000, 0xffff})).Draw(t, "flags"))
		la, lb := c14GenOldLeg(t, "legA"), c14GenOldLeg(t, "legB")
		origPort := rapid.Uint16().Draw(t, "origPort")
		origSPort := rapid.Uint16().Draw(t, "origSPort")
		natSPort := rapid.Uint16().Draw(t, "natSPort")
		al := 4
		if ipver == 6 {
			al = 16
		}
		tun := net.IP(rapid.SliceOfN(rapid.Byte(), al, al).Draw(t, "tunIP"))
		orig := net.IP(rapid.SliceOfN(rapid.Byte(), al, al).Draw(t, "origIP"))
		proto := rapid.SampledFrom([]uint8{6, 17, 1, 132}).Draw(t, "proto")
		pa, pb := rapid.Uint16().Draw(t, "portA"), rapid.Uint16().Draw(t, "portB")
		ipA := net.IP(rapid.SliceOfN(rapid.Byte(), al, al).Draw(t, "addrA"))
		ipB := net.IP(rapid.SliceOfN(rapid.Byte(), al, al).Draw(t, "addrB"))

		// what the old entry says, read through the OLD version's accessors
		type view struct {
			typ                    uint8
			flags                  uint32
			lastSeen, rstSeen      int64
			a, b                   c14OldLeg
			origIP, origSIP, tunIP string
			origPort, origSPort    uint16
			revKey                 string
			natSPort               uint16
		}
		var old view
		var oldKey []byte
		var newK, newV maps.Upgradable
		switch chain {
		case "v2->v4":
			mk := func(l c14OldLeg) v2.Leg {
				return v2.Leg{Seqno: l.seqno, SynSeen: l.syn, AckSeen: l.ack, FinSeen: l.fin, RstSeen: l.rst, Approved: l.approved, Opener: l.opener, Ifindex: l.ifindex}
			}
			k := v2.NewKey(proto, ipA, pa, ipB, pb)
			var v v2.Value
			switch typ {
			case "normal":
				v = v2.NewValueNormal(created, lastSeen, flags, mk(la), mk(lb))
			case "nat-fwd":
				v = v2.NewValueNATForward(created, lastSeen, flags, v2.NewKey(proto, ipB, pb, orig, origPort))
				v.SetNATSport(natSPort)
			default:
				v = v2.NewValueNATReverseSNAT(created, lastSeen, flags, mk(la), mk(lb), tun, orig, orig, origPort)
				v.SetOrigSport(origSPort)
			}
			old = view{typ: v.Type(), flags: uint32(v.Flags()), lastSeen: v.LastSeen()}
			if typ == "nat-fwd" {
				old.revKey, old.natSPort = string(v.ReverseNATKey().AsBytes()), v.NATSPort()
			} else {
				d := v.Data()
				cv := func(l v2.Leg) c14OldLeg {
					return c14OldLeg{l.Seqno, l.SynSeen, l.AckSeen, l.FinSeen, l.RstSeen, l.Approved, l.Opener, l.Ifindex}
				}
				old.a, old.b = cv(d.A2B), cv(d.B2A)
				if typ == "nat-rev" {
					old.origIP, old.origSIP, old.tunIP = d.OrigDst.String(), d.OrigSrc.String(), d.TunIP.String()
					old.origPort, old.origSPort = d.OrigPort, d.OrigSPort
				}
			}
			oldKey = k.AsBytes()
			newK, newV = conntrack.GetKeyValueTypeFromVersion(2, k.AsBytes(), v.AsBytes())
			for i := 2; i < conntrack.MapParams.Version; i++ {
				newK, newV = newK.Upgrade(), newV.Upgrade()
			}
		default:
			mk := func(l c14OldLeg) v3.Leg {
				return v3.Leg{Seqno: l.seqno, SynSeen: l.syn, AckSeen: l.ack, FinSeen: l.fin, RstSeen: l.rst, Approved: l.approved, Opener: l.opener, Ifindex: l.ifindex}
			}
			var vi v3.ValueInterface
			if ipver == 4 {
				k := v3.NewKey(proto, ipA, pa, ipB, pb)
				var v v3.Value
				switch typ {
				case "normal":
					v = v3.NewValueNormal(lastSeen, flags, mk(la), mk(lb))
				case "nat-fwd":
					v = v3.NewValueNATForward(lastSeen, flags, v3.NewKey(proto, ipB, pb, orig, origPort))
					v.SetNATSport(natSPort)
				default:
					v = v3.NewValueNATReverseSNAT(lastSeen, flags, mk(la), mk(lb), tun, orig, orig, origPort)
					v.SetOrigSport(origSPort)
				}
				binary.LittleEndian.PutUint64(v[v3.VoRSTSeen:], rstSeen)
				vi, oldKey = v, k.AsBytes()
				newK, newV = k.Upgrade(), v.Upgrade()
			} else {
				k := v3.NewKeyV6(proto, ipA, pa, ipB, pb)
				var v v3.ValueV6
				switch typ {
				case "normal":
					v = v3.NewValueV6Normal(lastSeen, flags, mk(la), mk(lb))
				case "nat-fwd":
					rk := v3.NewKeyV6(proto, ipB, pb, orig, origPort)
					v = v3.NewValueV6NATForward(lastSeen, flags, rk)
					copy(v[v3.VoRevKeyV6:v3.VoRevKeyV6+v3.KeyV6Size], rk[:]) // see upgraded(): constructor copies 16 bytes only
					v.SetNATSport(natSPort)
				default:
					v = v3.NewValueV6NATReverse(lastSeen, flags, mk(la), mk(lb), nil, nil, origPort)
					v.SetOrigSport(origSPort)
				}
				binary.LittleEndian.PutUint64(v[v3.VoRSTSeen:], rstSeen)
				vi, oldKey = v, k.AsBytes()
				newK, newV = k.Upgrade(), v.Upgrade()
			}
			old = view{typ: vi.Type(), flags: uint32(vi.Flags()), lastSeen: vi.LastSeen(), rstSeen: vi.RSTSeen()}
			if typ == "nat-fwd" {
				old.revKey, old.natSPort = string(vi.ReverseNATKey().AsBytes()), vi.NATSPort()
			} else {
				d := vi.Data()
				cv := func(l v3.Leg) c14OldLeg {
					return c14OldLeg{l.Seqno, l.SynSeen, l.AckSeen, l.FinSeen, l.RstSeen, l.Approved, l.Opener, l.Ifindex}
				}
				old.a, old.b = cv(d.A2B), cv(d.B2A)
				if typ == "nat-rev" {
					old.origIP, old.origSIP, old.tunIP = d.OrigDst.String(), d.OrigSrc.String(), d.TunIP.String()
					old.origPort, old.origSPort = d.OrigPort, d.OrigSPort
				}
			}
		}
		// the same connection, read through the CURRENT version's accessors
		if string(newK.AsBytes()) != string(oldKey) {
			t.Fatalf("C14 upgrade %s: key changed: % x -> % x", chain, oldKey, newK.AsBytes())
		}
		var cur conntrack.ValueInterface
		if ipver == 4 {
			cur = conntrack.ValueFromBytes(newV.AsBytes())
		} else {
			cur = conntrack.ValueV6FromBytes(newV.AsBytes())
		}
		got := view{typ: cur.Type(), flags: cur.Flags(), lastSeen: cur.LastSeen(), rstSeen: cur.RSTSeen()}
		if typ == "nat-fwd" {
			got.revKey, got.natSPort = string(cur.ReverseNATKey().AsBytes()), cur.NATSPort()
		} else {
			d := cur.Data()
			cv := func(l conntrack.Leg) c14OldLeg {
				if l.Bytes != 0 || l.Packets != 0 || l.Workload {
					t.Fatalf("C14 upgrade %s (%s): leg fields that did not exist before are not zero: %+v", chain, typ, l)
				}
				return c14OldLeg{l.Seqno, l.SynSeen, l.AckSeen, l.FinSeen, l.RstSeen, l.Approved, l.Opener, l.Ifindex}
			}
			if chain != "v2->v4" { // version 3 already has the counters
				cv = func(l conntrack.Leg) c14OldLeg {
					return c14OldLeg{l.Seqno, l.SynSeen, l.AckSeen, l.FinSeen, l.RstSeen, l.Approved, l.Opener, l.Ifindex}
				}
			}
			got.a, got.b = cv(d.A2B), cv(d.B2A)
			if typ == "nat-rev" {
				got.origIP, got.origSIP, got.tunIP = d.OrigDst.String(), d.OrigSrc.String(), d.TunIP.String()
				got.origPort, got.origSPort = d.OrigPort, d.OrigSPort
			}
		}
		if got != old {
			t.Fatalf("C14 upgrade %s (%s entry): the converted entry does not describe the connection the old entry described\n old (read with the old version's accessors): %+v\n new (read with the current accessors):        %+v\n (rst_seen did not exist in version 2 and must be 0: entryDone treats a non-zero value as 'RST seen, residual traffic' and applies a 2 minute limit)",
				chain, typ, old, got)
		}
		// and through the kernel program's own definition of the value
		c, err := layouts[ipver].Decode("ct_value", newV.AsBytes())
		if err != nil {
			t.Fatalf("C14 upgrade %s: converted value is not a struct calico_ct_value: %v", chain, err)
		}
		if c["rst_seen"] != cnative.U(uint64(old.rstSeen)) || c["last_seen"] != cnative.U(uint64(old.lastSeen)) || c["type"] != cnative.U(uint64(old.typ)) ||
			c["flags_all"] != cnative.U(uint64(old.flags)) {
			t.Fatalf("C14 upgrade %s (%s entry): struct calico_ct_value reads rst_seen=%s last_seen=%s type=%s flags=%s; the old entry said rst_seen=%d last_seen=%d type=%d flags=%d",
				chain, typ, c["rst_seen"], c["last_seen"], c["type"], c["flags_all"], old.rstSeen, old.lastSeen, old.typ, old.flags)
		}
		if typ != "nat-fwd" {
			for n, want := range map[string]bool{"ab_syn_seen": old.a.syn, "ab_ack_seen": old.a.ack, "ab_fin_seen": old.a.fin, "ab_rst_seen": old.a.rst,
				"ba_syn_seen": old.b.syn, "ba_ack_seen": old.b.ack, "ba_fin_seen": old.b.fin, "ba_rst_seen": old.b.rst} {
				if (c[n] == "1") != want {
					t.Fatalf("C14 upgrade %s (%s entry): struct calico_ct_value.%s reads %s, the old entry said %v", chain, typ, n, c[n], want)
				}
			}
		}
		legBits := 0
		for _, b := range []bool{la.syn, la.ack, la.fin, la.rst, lb.syn, lb.ack, lb.fin, lb.rst} {
			if b {
				legBits++
			}
		}
		shape := fmt.Sprintf("%s %s flags=%d legbits=%d rst=%v", chain, typ, c14ClsU(uint64(flags)), legBits, rstSeen != 0)
		rec.Case(typ != "nat-fwd" && flags != 0 && legBits > 0, shape, func() any {
			return map[string]any{"chain": chain, "type": typ, "flags": flags, "last_seen": int64(lastSeen), "created": int64(created), "legA": fmt.Sprintf("%+v", la), "legB": fmt.Sprintf("%+v", lb)}
		}, "chain:"+chain, "type:"+typ)
	})
}

func c14ClsU(v uint64) int {
	switch {
	case v == 0:
		return 0
	case v < 256:
		return 1
	case v < 65535:
		return 2
	default:
		return 3
	}
}
