package proxy

// C42 — BPF service load-balancing state is never inconsistent mid-update.
//
// The real Syncer (NewSyncer + Apply) runs over felix/bpf/mock maps wrapped so that every single
// Update / Delete on the frontend and backend maps is observed.  Histories of service and endpoint
// changes are applied; syncers are restarted over the existing maps, optionally after a simulated
// crash in the middle of an Apply (the process dies at a chosen map write).
//
// Oracle:
//   M  after EVERY single map write: for every frontend entry (id, count) with a real count, the
//      backend entries (id, 0) … (id, count-1) all exist;
//   A  after a completed Apply: the frontend map's keys are exactly the reference expansion of the
//      state (cluster IP, external IPs, load-balancer IPs incl. source ranges, node ports), every
//      frontend of a service carries the count / local count of its ready endpoints and the local
//      traffic-policy flags, the backends (id, 0..count-1) are exactly the ready endpoints with the
//      local ones first, distinct services use distinct ids, and no other backend entry exists.
//
// In-package because the service objects the syncer requires (*servicePort) can only be given an
// external-only / internal-only local traffic policy through unexported fields.

import (
	"fmt"
	"net"
	"sort"
	"strings"
	"testing"

	"golang.org/x/sys/unix"
	v1 "k8s.io/api/core/v1"
	"k8s.io/apimachinery/pkg/types"
	k8sp "k8s.io/kubernetes/pkg/proxy"
	"pgregory.net/rapid"

	"github.com/projectcalico/calico/felix/bpf/maps"
	"github.com/projectcalico/calico/felix/bpf/mock"
	"github.com/projectcalico/calico/felix/bpf/nat"
	"github.com/projectcalico/calico/felix/ip"
	"github.com/projectcalico/calico/verifkit/ev"
)

type c42Ep struct {
	IP          string
	Port        int
	Ready       bool
	Local       bool
	Terminating bool
}

type c42Svc struct {
	Slot      int
	PortIdx   int
	Proto     v1.Protocol
	NodePort  int
	ExtIPs    []string
	LBIPs     []string
	SrcRanges []string
	ExtLocal  bool
	IntLocal  bool
	Sticky    int
	Eps       []c42Ep
}

func (s *c42Svc) name() k8sp.ServicePortName {
	return k8sp.ServicePortName{
		NamespacedName: types.NamespacedName{Namespace: "ns", Name: fmt.Sprintf("svc%d", s.Slot)},
		Port:           []string{"a", "b"}[s.PortIdx],
		Protocol:       s.Proto,
	}
}
func (s *c42Svc) key() string       { return fmt.Sprintf("svc%d/%d", s.Slot, s.PortIdx) }
func (s *c42Svc) clusterIP() string { return fmt.Sprintf("10.96.0.%d", s.Slot+1) }
func (s *c42Svc) port() int         { return []int{80, 443}[s.PortIdx] }

func c42ProtoNum(p v1.Protocol) uint8 { return ProtoV1ToIntPanic(p) }

var c42NodePortIPs = []string{"192.168.0.1", "10.123.0.1", "255.255.255.255"}

type c42Crash struct{}

var c42ErrInjected = fmt.Errorf("injected: cannot allocate memory")

// c42ObsMap observes every single write.
type c42ObsMap struct {
	*mock.Map
	after func(name, op string, k []byte)
	// fail decides the fate of one attempted operation: "" = normal, "fail" = not applied and an
	// error returned, "lost" = applied but the reply is lost (an error is returned all the same).
	fail func(name, op string, k []byte) string
}

func (m *c42ObsMap) Update(k, v []byte) error {
	kind := m.fail(m.Map.GetName(), "update", k)
	if kind == "fail" {
		return c42ErrInjected
	}
	err := m.Map.Update(k, v)
	m.after(m.Map.GetName(), "update", k)
	if kind == "lost" {
		return c42ErrInjected
	}
	return err
}

func (m *c42ObsMap) UpdateWithFlags(k, v []byte, flags int) error {
	return m.Update(k, v)
}

func (m *c42ObsMap) BatchUpdate(ks, vs [][]byte, flags uint64) (int, error) {
	// A kernel batch update is not atomic either: apply entry by entry.
	for i := range ks {
		if err := m.Update(ks[i], vs[i]); err != nil {
			return i, err
		}
	}
	return len(ks), nil
}

func (m *c42ObsMap) Delete(k []byte) error {
	kind := m.fail(m.Map.GetName(), "delete", k)
	if kind == "fail" {
		return c42ErrInjected
	}
	// The kernel answers ENOENT for a key that is not in the map (felix/bpf/mock does not).
	if !m.Map.ContainsKey(k) {
		m.after(m.Map.GetName(), "delete-ENOENT", k)
		return unix.ENOENT
	}
	err := m.Map.Delete(k)
	m.after(m.Map.GetName(), "delete", k)
	if kind == "lost" {
		return c42ErrInjected
	}
	return err
}

func (m *c42ObsMap) DeleteIfExists(k []byte) error { return m.Delete(k) }

var _ maps.MapWithExistsCheck = (*c42ObsMap)(nil)

type c42Env struct {
	fe, be, mg, aff *mock.Map
	feObs, beObs    *c42ObsMap
	syncer          *Syncer
	writes          int
	crashAt         int // crash (panic) when writes reaches this number; 0 = never
	violation       string
	writeLog        []string

	// Write faults for the Apply in progress: the attempts (1-based, counted over both maps)
	// listed in faultAt fail once; faultAll ("frontend-delete", "backend-update", ...) makes every
	// such operation fail for the whole Apply.
	attempts    int
	faultAt     map[int]string // attempt -> "fail" | "lost"
	faultAll    string
	faultsFired []string
	enoents     int
}

func (e *c42Env) shouldFail(name, op string, k []byte) string {
	e.attempts++
	which := "backend"
	if name == e.fe.GetName() {
		which = "frontend"
	}
	kind := e.faultAt[e.attempts]
	if kind == "lost" && op != "delete" {
		// A bpf map update that returns an error has not been applied (one syscall, no reply to
		// lose); only a delete the syncer asked for may take effect behind its back, which is the
		// same as somebody else removing that key.
		kind = "fail"
	}
	if kind == "" && e.faultAll == which+"-"+op {
		kind = "fail"
	}
	if kind != "" {
		verb := "FAILS"
		if kind == "lost" {
			verb = "APPLIED-BUT-REPLY-LOST"
		}
		f := fmt.Sprintf("attempt %d: %s %s %x %s", e.attempts, which, op, k, verb)
		e.faultsFired = append(e.faultsFired, f)
		e.writeLog = append(e.writeLog, f)
	}
	return kind
}

func (e *c42Env) frontends() map[nat.FrontendKey]nat.FrontendValue {
	out := map[nat.FrontendKey]nat.FrontendValue{}
	e.fe.Lock()
	defer e.fe.Unlock()
	for k, v := range e.fe.Contents {
		var fk nat.FrontendKey
		var fv nat.FrontendValue
		copy(fk[:], k)
		copy(fv[:], v)
		out[fk] = fv
	}
	return out
}

func (e *c42Env) backends() map[nat.BackendKey]nat.BackendValue {
	out := map[nat.BackendKey]nat.BackendValue{}
	e.be.Lock()
	defer e.be.Unlock()
	for k, v := range e.be.Contents {
		var bk nat.BackendKey
		var bv nat.BackendValue
		copy(bk[:], k)
		copy(bv[:], v)
		out[bk] = bv
	}
	return out
}

// midUpdateInvariant is clause M.
func (e *c42Env) midUpdateInvariant() string {
	fes := e.frontends()
	bes := e.backends()
	var bad []string
	for k, v := range fes {
		if v.Count() == nat.BlackHoleCount {
			continue
		}
		for i := uint32(0); i < v.Count(); i++ {
			if _, ok := bes[nat.NewNATBackendKey(v.ID(), i)]; !ok {
				bad = append(bad, fmt.Sprintf("frontend %s -> %s refers to missing backend (%d,%d)", k, v, v.ID(), i))
				break
			}
		}
	}
	sort.Strings(bad)
	return strings.Join(bad, "; ")
}

func (e *c42Env) afterWrite(name, op string, k []byte) {
	if op == "delete-ENOENT" {
		e.enoents++
		e.writeLog = append(e.writeLog, fmt.Sprintf("delete of a key that is already gone -> ENOENT (%s %x)", name, k))
		return
	}
	e.writes++
	desc := fmt.Sprintf("#%d %s %s %x", e.writes, name, op, k)
	if name == e.fe.GetName() {
		var fk nat.FrontendKey
		copy(fk[:], k)
		desc = fmt.Sprintf("#%d frontend %s %s", e.writes, op, fk)
	} else if name == e.be.GetName() {
		var bk nat.BackendKey
		copy(bk[:], k)
		desc = fmt.Sprintf("#%d backend %s %s", e.writes, op, bk)
	}
	e.writeLog = append(e.writeLog, desc)
	if e.violation == "" {
		if bad := e.midUpdateInvariant(); bad != "" {
			e.violation = fmt.Sprintf("after write %s: %s", desc, bad)
		}
	}
	if e.crashAt != 0 && e.writes == e.crashAt {
		panic(c42Crash{})
	}
}

func c42NewEnv() *c42Env {
	e := &c42Env{
		fe:  mock.NewMockMap(nat.FrontendMapParameters),
		be:  mock.NewMockMap(nat.BackendMapParameters),
		mg:  mock.NewMockMap(nat.MaglevMapParameters),
		aff: mock.NewMockMap(nat.AffinityMapParameters),
	}
	e.feObs = &c42ObsMap{Map: e.fe, after: e.afterWrite, fail: e.shouldFail}
	e.beObs = &c42ObsMap{Map: e.be, after: e.afterWrite, fail: e.shouldFail}
	return e
}

func (e *c42Env) newSyncer() error {
	if e.syncer != nil {
		e.syncer.Stop()
	}
	var npIPs []net.IP
	for _, s := range c42NodePortIPs {
		npIPs = append(npIPs, net.ParseIP(s))
	}
	s, err := NewSyncer(4, npIPs, e.feObs, e.beObs, e.mg, e.aff, NewRTCache(), nil, 31, 0)
	e.syncer = s
	return err
}

func c42State(svcs map[string]*c42Svc) DPSyncerState {
	st := DPSyncerState{SvcMap: k8sp.ServicePortMap{}, EpsMap: k8sp.EndpointsMap{}, Hostname: "this-node"}
	for _, key := range c42Keys(svcs) {
		s := svcs[key]
		var opts []K8sServicePortOption
		if s.NodePort != 0 {
			opts = append(opts, K8sSvcWithNodePort(s.NodePort))
		}
		if len(s.ExtIPs) > 0 {
			opts = append(opts, K8sSvcWithExternalIPs(c42IPs(s.ExtIPs)))
		}
		if len(s.LBIPs) > 0 {
			opts = append(opts, K8sSvcWithLoadBalancerIPs(c42IPs(s.LBIPs)))
		}
		if len(s.SrcRanges) > 0 {
			var nets []*net.IPNet
			for _, c := range s.SrcRanges {
				_, n, _ := net.ParseCIDR(c)
				nets = append(nets, n)
			}
			opts = append(opts, K8sSvcWithLBSourceRangeIPs(nets))
		}
		if s.Sticky > 0 {
			opts = append(opts, K8sSvcWithStickyClientIP(s.Sticky))
		}
		sp := NewK8sServicePort(net.ParseIP(s.clusterIP()), s.port(), s.Proto, opts...).(*servicePort)
		si := sp.ServicePort.(*serviceInfo)
		si.nodeLocalExternal = s.ExtLocal
		si.nodeLocalInternal = s.IntLocal
		st.SvcMap[s.name()] = sp
		var eps []k8sp.Endpoint
		for _, ep := range s.Eps {
			eps = append(eps, NewEndpointInfo(ep.IP, ep.Port,
				EndpointInfoOptIsReady(ep.Ready), EndpointInfoOptIsLocal(ep.Local),
				EndpointInfoOptIsServing(ep.Ready || ep.Terminating), EndpointInfoOptIsTerminating(ep.Terminating)))
		}
		if eps != nil {
			st.EpsMap[s.name()] = eps
		}
	}
	return st
}

func c42IPs(ss []string) []net.IP {
	var out []net.IP
	for _, s := range ss {
		out = append(out, net.ParseIP(s))
	}
	return out
}

func c42Keys[V any](m map[string]V) []string {
	out := make([]string, 0, len(m))
	for k := range m {
		out = append(out, k)
	}
	sort.Strings(out)
	return out
}

// c42WantFrontendKeys is the set of frontend keys the reference expansion of the state contains.
func c42WantFrontendKeys(svcs map[string]*c42Svc) map[nat.FrontendKey]bool {
	out := map[nat.FrontendKey]bool{}
	for _, key := range c42Keys(svcs) {
		s := svcs[key]
		proto := c42ProtoNum(s.Proto)
		out[nat.NewNATKey(net.ParseIP(s.clusterIP()), uint16(s.port()), proto)] = true
		for _, x := range append(append([]string{}, s.LBIPs...), s.ExtIPs...) {
			out[nat.NewNATKey(net.ParseIP(x), uint16(s.port()), proto)] = true
			for _, c := range s.SrcRanges {
				out[nat.NewNATKeySrc(net.ParseIP(x), uint16(s.port()), proto, ip.MustParseCIDROrIP(c))] = true
			}
		}
		if s.NodePort != 0 {
			for _, x := range c42NodePortIPs {
				out[nat.NewNATKey(net.ParseIP(x), uint16(s.NodePort), proto)] = true
			}
		}
	}
	return out
}

// checkApplied is clause A.
func (e *c42Env) checkApplied(svcs map[string]*c42Svc) string {
	fes := e.frontends()
	bes := e.backends()
	var bad []string
	addf := func(f string, a ...any) { bad = append(bad, fmt.Sprintf(f, a...)) }
	wantKeys := map[nat.FrontendKey]string{}
	idOwner := map[uint32]string{}
	wantBackends := map[nat.BackendKey]nat.BackendValue{}
	for _, key := range c42Keys(svcs) {
		s := svcs[key]
		proto := c42ProtoNum(s.Proto)
		var ready []c42Ep
		local := 0
		for _, ep := range s.Eps {
			if ep.Ready && ep.Local {
				ready = append(ready, ep)
				local++
			}
		}
		for _, ep := range s.Eps {
			if ep.Ready && !ep.Local {
				ready = append(ready, ep)
			}
		}
		primary := nat.NewNATKey(net.ParseIP(s.clusterIP()), uint16(s.port()), proto)
		pv, ok := fes[primary]
		if !ok {
			addf("%s: cluster IP frontend %s missing", key, primary)
			continue
		}
		id := pv.ID()
		if o, dup := idOwner[id]; dup {
			addf("%s and %s share service id %d", o, key, id)
		}
		idOwner[id] = key
		type want struct {
			key      nat.FrontendKey
			what     string
			extFlags bool // node port / load balancer frontends carry the external-local flag
			anyFlags bool // whether policy flags are asserted at all
			blackhole bool
		}
		wants := []want{{key: primary, what: "clusterIP", anyFlags: true}}
		addVIP := func(ipStr, what string, extFlags, flagsAsserted bool) {
			addr := net.ParseIP(ipStr)
			if len(s.SrcRanges) == 0 {
				wants = append(wants, want{key: nat.NewNATKey(addr, uint16(s.port()), proto), what: what, extFlags: extFlags, anyFlags: flagsAsserted})
				return
			}
			for _, c := range s.SrcRanges {
				wants = append(wants, want{key: nat.NewNATKeySrc(addr, uint16(s.port()), proto, ip.MustParseCIDROrIP(c)), what: what + " src " + c, extFlags: extFlags, anyFlags: flagsAsserted})
			}
			wants = append(wants, want{key: nat.NewNATKey(addr, uint16(s.port()), proto), what: what + " blackhole", blackhole: true})
		}
		for _, x := range s.LBIPs {
			addVIP(x, "loadBalancer "+x, true, true)
		}
		for _, x := range s.ExtIPs {
			// The statement does not say which policy flags an external-IP frontend carries.
			addVIP(x, "externalIP "+x, false, false)
		}
		if s.NodePort != 0 {
			for _, x := range c42NodePortIPs {
				wants = append(wants, want{key: nat.NewNATKey(net.ParseIP(x), uint16(s.NodePort), proto), what: "nodePort " + x, extFlags: true, anyFlags: true})
			}
		}
		for _, w := range wants {
			wantKeys[w.key] = key + " " + w.what
			v, ok := fes[w.key]
			if !ok {
				addf("%s: frontend %s (%s) missing", key, w.key, w.what)
				continue
			}
			if v.ID() != id {
				addf("%s: frontend %s (%s) has id %d, cluster IP frontend has %d", key, w.key, w.what, v.ID(), id)
			}
			if w.blackhole {
				if v.Count() != nat.BlackHoleCount {
					addf("%s: frontend %s (%s) should drop traffic outside the source ranges, has count %d", key, w.key, w.what, v.Count())
				}
				continue
			}
			if int(v.Count()) != len(ready) || int(v.LocalCount()) != local {
				addf("%s: frontend %s (%s) has count=%d local=%d, ready endpoints=%d of which local=%d", key, w.key, w.what, v.Count(), v.LocalCount(), len(ready), local)
			}
			if w.anyFlags {
				wantInt := s.IntLocal
				wantExt := w.extFlags && s.ExtLocal
				gotInt := v.Flags()&nat.NATFlgInternalLocal != 0
				gotExt := v.Flags()&nat.NATFlgExternalLocal != 0
				if gotInt != wantInt || gotExt != wantExt {
					addf("%s: frontend %s (%s) flags=%s, want internal-local=%v external-local=%v", key, w.key, w.what, v.FlagsAsString(), wantInt, wantExt)
				}
			}
		}
		for i, ep := range ready {
			bk := nat.NewNATBackendKey(id, uint32(i))
			bv := nat.NewNATBackendValue(net.ParseIP(ep.IP), uint16(ep.Port))
			wantBackends[bk] = bv
			got, ok := bes[bk]
			if !ok {
				addf("%s: backend %s missing (want %s)", key, bk, bv)
			} else if got != bv {
				addf("%s: backend %s = %s, want %s (ready endpoints, local first: %v)", key, bk, got, bv, ready)
			}
		}
	}
	for k, v := range fes {
		if _, ok := wantKeys[k]; !ok {
			addf("stale frontend %s -> %s", k, v)
		}
	}
	for k, v := range bes {
		if _, ok := wantBackends[k]; !ok {
			addf("stale backend %s -> %s", k, v)
		}
	}
	sort.Strings(bad)
	return strings.Join(bad, "\n    ")
}

func c42Describe(svcs map[string]*c42Svc) string {
	var sb strings.Builder
	for _, k := range c42Keys(svcs) {
		s := svcs[k]
		fmt.Fprintf(&sb, "  %s %s:%d/%s nodePort=%d ext=%v lb=%v src=%v extLocal=%v intLocal=%v sticky=%d eps=%+v\n",
			k, s.clusterIP(), s.port(), s.Proto, s.NodePort, s.ExtIPs, s.LBIPs, s.SrcRanges, s.ExtLocal, s.IntLocal, s.Sticky, s.Eps)
	}
	return sb.String()
}

func (e *c42Env) dump() string {
	var lines []string
	for k, v := range e.frontends() {
		lines = append(lines, fmt.Sprintf("  FE %s -> %s", k, v))
	}
	for k, v := range e.backends() {
		lines = append(lines, fmt.Sprintf("  BE %s -> %s", k, v))
	}
	sort.Strings(lines)
	return strings.Join(lines, "\n")
}

// apply runs Apply; returns true if it ran to completion (false: simulated crash).
func (e *c42Env) apply(st DPSyncerState) (completed bool, err error) {
	defer func() {
		if r := recover(); r != nil {
			if _, ok := r.(c42Crash); ok {
				completed, err = false, nil
				return
			}
			panic(r)
		}
	}()
	err = e.syncer.Apply(st)
	return true, err
}

func c42GenEps(t *rapid.T, n int) []c42Ep {
	var eps []c42Ep
	seen := map[string]bool{}
	for i := 0; i < n; i++ {
		ep := c42Ep{
			IP:    fmt.Sprintf("10.1.%d.%d", rapid.IntRange(0, 1).Draw(t, "epNode"), rapid.IntRange(1, 6).Draw(t, "epHost")),
			Port:  rapid.SampledFrom([]int{8080, 9090}).Draw(t, "epPort"),
			Ready: rapid.IntRange(0, 3).Draw(t, "ready") != 0,
		}
		ep.Local = strings.HasPrefix(ep.IP, "10.1.0.")
		if !ep.Ready {
			ep.Terminating = rapid.Bool().Draw(t, "terminating")
		}
		k := fmt.Sprintf("%s:%d", ep.IP, ep.Port)
		if seen[k] {
			continue
		}
		seen[k] = true
		eps = append(eps, ep)
	}
	return eps
}

func c42GenSvc(t *rapid.T, slot, portIdx int) *c42Svc {
	s := &c42Svc{Slot: slot, PortIdx: portIdx, Proto: rapid.SampledFrom([]v1.Protocol{v1.ProtocolTCP, v1.ProtocolTCP, v1.ProtocolUDP}).Draw(t, "proto")}
	if rapid.IntRange(0, 2).Draw(t, "hasNodePort") == 0 {
		s.NodePort = 30000 + slot*2 + portIdx
	}
	for j := 0; j < rapid.IntRange(0, 2).Draw(t, "nExt"); j++ {
		s.ExtIPs = append(s.ExtIPs, fmt.Sprintf("192.0.2.%d", slot*4+j+1))
	}
	for j := 0; j < rapid.SampledFrom([]int{0, 0, 1, 2}).Draw(t, "nLB"); j++ {
		s.LBIPs = append(s.LBIPs, fmt.Sprintf("198.51.100.%d", slot*4+j+1))
	}
	if (len(s.LBIPs) > 0 || len(s.ExtIPs) > 0) && rapid.IntRange(0, 4).Draw(t, "srcRanges") == 0 {
		s.SrcRanges = [][]string{{"203.0.113.0/24"}, {"203.0.113.0/24", "100.64.0.0/16"}}[rapid.IntRange(0, 1).Draw(t, "nRanges")]
	}
	external := s.NodePort != 0 || len(s.ExtIPs) > 0 || len(s.LBIPs) > 0
	if external {
		s.ExtLocal = rapid.IntRange(0, 2).Draw(t, "externalTrafficPolicyLocal") == 0
	}
	// internalTrafficPolicy=Local together with a node port makes the syncer expand per-node
	// frontends from the route table; that expansion is outside this check (see limits).
	if s.NodePort == 0 {
		s.IntLocal = rapid.IntRange(0, 4).Draw(t, "internalTrafficPolicyLocal") == 0
	}
	if rapid.IntRange(0, 5).Draw(t, "sticky") == 0 {
		s.Sticky = 100
	}
	s.Eps = c42GenEps(t, rapid.IntRange(0, 5).Draw(t, "nEps"))
	return s
}

func c42Run(t *rapid.T, rec *ev.Recorder) {
	e := c42NewEnv()
	defer func() {
		if e.syncer != nil {
			e.syncer.Stop()
		}
	}()
	svcs := map[string]*c42Svc{}
	var hist []string
	classes := map[string]bool{}
	fail := func(format string, args ...any) {
		n := len(e.writeLog)
		from := 0
		if n > 40 {
			from = n - 40
		}
		t.Fatalf("%s\nhistory: %s\nstate:\n%slast writes:\n  %s\nmaps:\n%s", fmt.Sprintf(format, args...), strings.Join(hist, " "),
			c42Describe(svcs), strings.Join(e.writeLog[from:], "\n  "), e.dump())
	}
	if err := e.newSyncer(); err != nil {
		t.Fatalf("HARNESS-GAP: NewSyncer: %v", err)
	}
	nSteps := rapid.IntRange(2, ev.Scale(10, 24)).Draw(t, "nSteps")
	applies := 0
	pendingRetry := false
	for step := 0; step < nSteps; step++ {
		// Mutate the desired state.
		nMut := rapid.IntRange(1, 4).Draw(t, "nMutations")
		for m := 0; m < nMut; m++ {
			slot := rapid.IntRange(0, 3).Draw(t, "slot")
			portIdx := rapid.IntRange(0, 1).Draw(t, "portIdx")
			key := fmt.Sprintf("svc%d/%d", slot, portIdx)
			cur := svcs[key]
			switch op := rapid.SampledFrom([]string{"set", "set", "delete", "eps", "eps", "eps", "shrink", "grow", "flipReady", "reorder"}).Draw(t, "mutation"); {
			case cur == nil || op == "set":
				ns := c42GenSvc(t, slot, portIdx)
				if cur != nil && rapid.Bool().Draw(t, "keepEndpoints") {
					ns.Eps = cur.Eps
				}
				svcs[key] = ns
				hist = append(hist, "set("+key+")")
			case op == "delete":
				delete(svcs, key)
				hist = append(hist, "del("+key+")")
			case op == "eps":
				cur.Eps = c42GenEps(t, rapid.IntRange(0, 6).Draw(t, "nEps"))
				hist = append(hist, "eps("+key+")")
			case op == "shrink":
				if len(cur.Eps) > 0 {
					i := rapid.IntRange(0, len(cur.Eps)-1).Draw(t, "idx")
					cur.Eps = append(append([]c42Ep{}, cur.Eps[:i]...), cur.Eps[i+1:]...)
					classes["endpoint-removed"] = true
				}
				hist = append(hist, "shrink("+key+")")
			case op == "grow":
				more := c42GenEps(t, 2)
				have := map[string]bool{}
				for _, ep := range cur.Eps {
					have[fmt.Sprintf("%s:%d", ep.IP, ep.Port)] = true
				}
				for _, ep := range more {
					if !have[fmt.Sprintf("%s:%d", ep.IP, ep.Port)] {
						cur.Eps = append(append([]c42Ep{}, cur.Eps...), ep)
						have[fmt.Sprintf("%s:%d", ep.IP, ep.Port)] = true
					}
				}
				hist = append(hist, "grow("+key+")")
			case op == "flipReady":
				if len(cur.Eps) > 0 {
					i := rapid.IntRange(0, len(cur.Eps)-1).Draw(t, "idx")
					eps := append([]c42Ep{}, cur.Eps...)
					eps[i].Ready = !eps[i].Ready
					eps[i].Terminating = false
					cur.Eps = eps
				}
				hist = append(hist, "flipReady("+key+")")
			case op == "reorder":
				if len(cur.Eps) > 1 {
					eps := append([]c42Ep{}, cur.Eps...)
					i := rapid.IntRange(0, len(eps)-2).Draw(t, "idx")
					eps[i], eps[i+1] = eps[i+1], eps[i]
					cur.Eps = eps
				}
				hist = append(hist, "reorder("+key+")")
			}
		}
		// Restart?
		if applies > 0 && rapid.IntRange(0, 4).Draw(t, "restart") == 0 {
			if err := e.newSyncer(); err != nil {
				t.Fatalf("HARNESS-GAP: NewSyncer: %v", err)
			}
			classes["restart-from-existing-maps"] = true
			hist = append(hist, "restart")
		}
		// Somebody else (an operator's cleanup script, the bootstrap container) removes frontends
		// that are stale with respect to the state about to be applied, behind the syncer's back.
		// Removing a frontend can never break the reference invariant.
		if applies > 0 && rapid.IntRange(0, 3).Draw(t, "outOfBandCleanup") == 0 {
			want := c42WantFrontendKeys(svcs)
			var stale []nat.FrontendKey
			for k := range e.frontends() {
				if !want[k] {
					stale = append(stale, k)
				}
			}
			sort.Slice(stale, func(i, j int) bool { return string(stale[i][:]) < string(stale[j][:]) })
			n := 0
			for _, k := range stale {
				if rapid.Bool().Draw(t, "removeStaleFrontend") {
					_ = e.fe.Delete(k[:])
					n++
				}
			}
			if n > 0 {
				classes["stale-frontend-removed-out-of-band"] = true
				hist = append(hist, fmt.Sprintf("oob-cleanup(%d)", n))
			}
		}
		// Apply, possibly dying at a map write and / or with individual map writes failing.
		e.crashAt = 0
		if rapid.IntRange(0, 4).Draw(t, "crash") == 0 {
			e.crashAt = e.writes + rapid.IntRange(1, 12).Draw(t, "crashAfterWrites")
		}
		e.attempts, e.faultAt, e.faultAll, e.faultsFired = 0, nil, "", nil
		switch rapid.IntRange(0, 5).Draw(t, "writeFaults") {
		case 0, 1:
			e.faultAt = map[int]string{}
			for i := rapid.IntRange(1, 3).Draw(t, "nFaults"); i > 0; i-- {
				e.faultAt[rapid.IntRange(1, 24).Draw(t, "failAttempt")] = rapid.SampledFrom([]string{"fail", "fail", "lost"}).Draw(t, "faultKind")
			}
		case 2:
			e.faultAll = rapid.SampledFrom([]string{"frontend-delete", "frontend-delete", "backend-update", "backend-update", "frontend-update", "backend-delete"}).Draw(t, "failAll")
		}
		before := e.writes
		completed, err := e.apply(c42State(svcs))
		applies++
		fired := e.faultsFired
		e.faultAt, e.faultAll = nil, ""
		if e.violation != "" {
			fail("clause M violated (apply #%d): %s", applies, e.violation)
		}
		if completed && err != nil && len(fired) == 0 {
			fail("HARNESS-GAP: Apply returned an error without any fault injected: %v", err)
		}
		switch {
		case completed && err == nil:
			hist = append(hist, fmt.Sprintf("apply(%dw,%df)", e.writes-before, len(fired)))
			if e.writes-before > 0 {
				classes["apply-with-writes"] = true
			}
			if len(fired) > 0 {
				classes["write-fault-absorbed-apply-ok"] = true
			}
			// "Once a sync completes": Apply reported success, so the maps must be exact.
			if bad := e.checkApplied(svcs); bad != "" {
				fail("clause A violated after apply #%d (returned nil; injected write failures: %v):\n    %s", applies, fired, bad)
			}
			pendingRetry = false
		case completed:
			classes["apply-error-after-write-fault"] = true
			for _, f := range fired {
				parts := strings.Fields(f)
				classes["fault-"+parts[2]+"-"+parts[3]] = true
				if strings.HasSuffix(f, "LOST") {
					classes["fault-applied-but-reply-lost"] = true
				}
			}
			hist = append(hist, fmt.Sprintf("apply-ERR(%dw,%df)", e.writes-before, len(fired)))
			pendingRetry = true
			if rapid.IntRange(0, 2).Draw(t, "retryNow") != 0 {
				// The proxy's runner retries a failed sync with the same state.
				e.crashAt = 0
				before = e.writes
				completed, err = e.apply(c42State(svcs))
				applies++
				if e.violation != "" {
					fail("clause M violated (retry apply #%d after a failed sync): %s", applies, e.violation)
				}
				if !completed || err != nil {
					fail("HARNESS-GAP: fault-free retry of a failed sync did not succeed: %v", err)
				}
				hist = append(hist, fmt.Sprintf("retry(%dw)", e.writes-before))
				classes["retry-after-failed-sync"] = true
				if bad := e.checkApplied(svcs); bad != "" {
					fail("clause A violated after retry apply #%d (previous sync failed on %v):\n    %s", applies, fired, bad)
				}
				pendingRetry = false
			}
		default:
			classes["crash-mid-apply"] = true
			hist = append(hist, fmt.Sprintf("apply-CRASH@%dw", e.writes-before))
			// The process died: a new syncer starts over the maps as they are and applies the same state.
			e.crashAt = 0
			if err := e.newSyncer(); err != nil {
				t.Fatalf("HARNESS-GAP: NewSyncer: %v", err)
			}
			before = e.writes
			completed, err = e.apply(c42State(svcs))
			applies++
			if e.violation != "" {
				fail("clause M violated (recovery apply #%d after crash): %s", applies, e.violation)
			}
			if !completed || err != nil {
				fail("HARNESS-GAP: recovery Apply did not complete: %v", err)
			}
			hist = append(hist, fmt.Sprintf("recover(%dw)", e.writes-before))
			if bad := e.checkApplied(svcs); bad != "" {
				fail("clause A violated after recovery apply #%d:\n    %s", applies, bad)
			}
			pendingRetry = false
		}
		for _, s := range svcs {
			if s.ExtLocal {
				classes["external-local"] = true
			}
			if s.IntLocal {
				classes["internal-local"] = true
			}
			if len(s.SrcRanges) > 0 {
				classes["lb-source-ranges"] = true
			}
			if s.NodePort != 0 {
				classes["node-port"] = true
			}
		}
	}
	if e.enoents > 0 {
		classes["delete-answered-ENOENT"] = true
	}
	if pendingRetry {
		// The last sync failed on an injected write error: the fault-free retry must converge.
		e.crashAt = 0
		completed, err := e.apply(c42State(svcs))
		applies++
		if e.violation != "" {
			fail("clause M violated (closing retry apply #%d): %s", applies, e.violation)
		}
		if !completed || err != nil {
			fail("HARNESS-GAP: closing fault-free Apply did not succeed: %v", err)
		}
		hist = append(hist, "closing-retry")
		classes["retry-after-failed-sync"] = true
		if bad := e.checkApplied(svcs); bad != "" {
			fail("clause A violated after closing retry apply #%d:\n    %s", applies, bad)
		}
	}
	cl := c42Keys(classes)
	nontrivial := classes["endpoint-removed"] || classes["restart-from-existing-maps"] || classes["crash-mid-apply"] ||
		classes["apply-error-after-write-fault"] || classes["write-fault-absorbed-apply-ok"]
	var shape []string
	for _, h := range hist {
		if i := strings.IndexByte(h, '('); i >= 0 {
			h = h[:i]
		}
		shape = append(shape, h)
	}
	rec.SizedCase(nontrivial, strings.Join(shape, ",")+"|"+strings.Join(cl, ","), e.writes, func() any {
		return map[string]any{"history": strings.Join(hist, " "), "writes": e.writes, "classes": cl}
	}, cl...)
}

func TestVerifC42SyncerMidUpdate(t *testing.T) {
	ev.Quiet()
	rec := ev.New("C42", "syncer",
		"random histories over 4 services x 2 ports (cluster IP, 0-2 external IPs, 0-2 load-balancer IPs with optional source ranges, node port, external/internal local policy, session affinity, TCP/UDP) and endpoint sets (ready / not ready / terminating, local / remote, growing, shrinking, reordered); syncer restarts over the existing maps, simulated crashes at a chosen map write followed by a restart, and injected failures of individual map Update/Delete calls; non-trivial when an endpoint set shrinks, a syncer restarts from existing maps, a crash interrupts an Apply or a write failure is injected; distinct by step-kind sequence + classes",
		"every single Update/Delete of the frontend and backend maps is observed through a wrapper of felix/bpf/mock.Map (batch operations are applied entry by entry); the wrapper sits below cachingmap / TypedMap and can make individual Update/Delete calls fail (chosen attempts once - not applied, or applied with the reply lost - or every frontend/backend update/delete of one Apply); Delete of a key that is not in the map answers ENOENT like the kernel; stale frontends may be removed behind the syncer's back between syncs",
		"an Apply that returns nil is judged as a completed sync (maps exact) even when write failures were injected; an Apply that returns an error is followed (at once or later) by a fault-free Apply that must return nil and leave the maps exact; clause M is checked after every successful write throughout",
		"frontend keys of different services never collide (unique cluster IPs, external/LB IPs and node ports, as Kubernetes guarantees for cluster IPs and node ports)",
		"no topology hints, no Maglev, no default/kubernetes service, no internalTrafficPolicy=Local together with a node port (per-node expansion from the route table is not modelled)",
		"policy flags of external-IP frontends are not asserted (the statement does not fix them)",
	)
	defer rec.Write()
	rapid.Check(t, func(t *rapid.T) { c42Run(t, rec) })
}
