package nftables_test

// C10 (unit "nftmaps") — workload dispatch through nftables verdict maps stays exact in the kernel.
//
// The static unit renders the dispatch chains/maps once; this unit keeps the real
// felix/nftables.NftablesTable + Maps (through the "filter" TableLayer, as int_dataplane and the
// endpoint manager use them) running against the knftables.Fake based kernel of the C15 nftables
// unit (c15nKernel: transaction log, Run/List faults, edits by other programs, in-use check) while
// the set of local workload interfaces changes.  Every change is handed over the way
// endpointManager does: per-endpoint chains first (UpdateChains / RemoveChains), then
// rules.DispatchMappings → AddOrReplaceMap for the from/to dispatch maps, then
// rules.WorkloadDispatchChains → UpdateChain.
//
// After every Apply() that returns while Felix's view of its table is current (no edit by another
// program after Felix's last complete read, and that read did not fail to list map elements):
//   - each dispatch verdict map in the kernel holds exactly the desired interface → "goto <own
//     chain>" elements (a known interface reaches its own chain, nothing else is mapped);
//   - every chain such a verdict names exists;
//   - each dispatch chain looks the interface up in its map and ends in the "Unknown interface" drop.

import (
	"fmt"
	"os"
	"sort"
	"strings"
	"testing"
	"time"

	"pgregory.net/rapid"
	"sigs.k8s.io/knftables"

	"github.com/projectcalico/calico/felix/environment"
	"github.com/projectcalico/calico/felix/generictables"
	"github.com/projectcalico/calico/felix/ipsets"
	"github.com/projectcalico/calico/felix/nftables"
	"github.com/projectcalico/calico/felix/proto"
	"github.com/projectcalico/calico/felix/rules"
	"github.com/projectcalico/calico/felix/types"
	"github.com/projectcalico/calico/verifkit/ev"
)

var c10mIfacePool = []string{"cali1", "cali12", "cali2", "calia", "caliab", "cali0123456789a", "tap1"}

const c10mLayer = "filter"

func c10mKernelName(local string) string { return c10mLayer + "-" + local }

type c10mH struct {
	t       c15nT
	k       *c15nKernel
	rr      rules.RuleRenderer
	refresh time.Duration
	root    *nftables.NftablesTable
	filter  generictables.Table
	maps    nftables.MapsDataplane

	// desired state (what the endpoint manager has handed over)
	eps        map[string]int // interface name -> version of its endpoint chains
	dispatchOn bool

	// endpoint-manager side caches, reset on restart
	sentEps    map[string]int
	sentDisp   map[string]*generictables.Chain
	fresh      bool // the current Table has not completed a read of the kernel yet
	sinceFault int

	ops        []string
	classes    map[string]bool
	nontrivial bool
}

func (h *c10mH) epMap() map[types.WorkloadEndpointID]*proto.WorkloadEndpoint {
	out := map[types.WorkloadEndpointID]*proto.WorkloadEndpoint{}
	for n := range h.eps {
		out[types.WorkloadEndpointID{OrchestratorId: "k8s", WorkloadId: "w-" + n, EndpointId: "eth0"}] = &proto.WorkloadEndpoint{Name: n}
	}
	return out
}

func c10mEpChains(name string, version int) []*generictables.Chain {
	rs := []generictables.Rule{{Match: nftables.Match(), Action: nftables.AcceptAction{}}}
	if version%2 == 1 {
		rs = append([]generictables.Rule{{Match: nftables.Match().Protocol("tcp"), Action: nftables.DropAction{}}}, rs...)
	}
	return []*generictables.Chain{
		{Name: rules.EndpointChainName(rules.WorkloadFromEndpointPfx, name, nftables.MaxChainNameLength), Rules: rs},
		{Name: rules.EndpointChainName(rules.WorkloadToEndpointPfx, name, nftables.MaxChainNameLength), Rules: rs},
	}
}

func (h *c10mH) newTable() {
	opts := nftables.TableOptions{
		NewDataplane:           h.k.newDataplane,
		RefreshInterval:        h.refresh,
		SleepOverride:          h.k.Sleep,
		NowOverride:            h.k.Now,
		ListInterfacesOverride: func() ([]string, error) { return []string{"lo"}, nil },
		OpRecorder:             c15nNoopRecorder{},
	}
	h.root = nftables.NewTable(c15nTableName, 4, c15nHashPrefix, &environment.FakeFeatureDetector{}, opts, true)
	h.filter = nftables.NewTableLayer(c10mLayer, h.root)
	h.maps = h.filter.(nftables.MapsDataplane)
	h.sentEps = map[string]int{}
	h.sentDisp = map[string]*generictables.Chain{}
	h.fresh = true
	// The blind first write after a failed ListAll is C15's open finding; keep it out of this unit.
	h.k.listAllFaults = 0
	// The dispatch chains are hooked from the forward chain (via cali-FORWARD in real Felix;
	// directly here).
	if h.dispatchOn {
		h.filter.InsertOrAppendRules("FORWARD", []generictables.Rule{
			{Match: nftables.Match(), Action: nftables.JumpAction{Target: rules.ChainFromWorkloadDispatch}},
			{Match: nftables.Match(), Action: nftables.JumpAction{Target: rules.ChainToWorkloadDispatch}},
		})
	}
}

// sync hands the desired state to the Table the way endpointManager does.
func (h *c10mH) sync() {
	for _, n := range c15nSortedKeys(h.eps) {
		if v, ok := h.sentEps[n]; !ok || v != h.eps[n] {
			h.filter.UpdateChains(c10mEpChains(n, h.eps[n]))
			h.sentEps[n] = h.eps[n]
		}
	}
	for _, n := range c15nSortedKeys(h.sentEps) {
		if _, ok := h.eps[n]; !ok {
			h.filter.RemoveChains(c10mEpChains(n, 0))
			delete(h.sentEps, n)
		}
	}
	if !h.dispatchOn {
		return
	}
	from, to := h.rr.DispatchMappings(h.epMap())
	h.maps.AddOrReplaceMap(nftables.MapMetadata{Name: rules.NftablesFromWorkloadDispatchMap, Type: nftables.MapTypeInterfaceMatch}, from)
	h.maps.AddOrReplaceMap(nftables.MapMetadata{Name: rules.NftablesToWorkloadDispatchMap, Type: nftables.MapTypeInterfaceMatch}, to)
	// updateDispatchChains
	seen := map[string]bool{}
	for _, c := range h.rr.WorkloadDispatchChains(h.epMap()) {
		seen[c.Name] = true
		h.filter.UpdateChain(c)
		h.sentDisp[c.Name] = c
	}
	for _, n := range c15nSortedKeys(h.sentDisp) {
		if !seen[n] {
			h.filter.RemoveChainByName(n)
			delete(h.sentDisp, n)
		}
	}
}

// teardown: dispatch through verdict maps is switched off (unhook, drop the dispatch chains, then
// the maps).  No production caller does this today; the Table/Maps API allows it.
func (h *c10mH) teardown() {
	h.filter.InsertOrAppendRules("FORWARD", nil)
	for _, n := range c15nSortedKeys(h.sentDisp) {
		h.filter.RemoveChainByName(n)
		delete(h.sentDisp, n)
	}
	h.maps.RemoveMap(rules.NftablesFromWorkloadDispatchMap)
	h.maps.RemoveMap(rules.NftablesToWorkloadDispatchMap)
	h.dispatchOn = false
}

func (h *c10mH) setup() {
	h.dispatchOn = true
	h.filter.InsertOrAppendRules("FORWARD", []generictables.Rule{
		{Match: nftables.Match(), Action: nftables.JumpAction{Target: rules.ChainFromWorkloadDispatch}},
		{Match: nftables.Match(), Action: nftables.JumpAction{Target: rules.ChainToWorkloadDispatch}},
	})
	h.sync()
}

func (h *c10mH) trace() string {
	evs := h.k.log
	lo := len(evs) - 80
	if lo < 0 {
		lo = 0
	}
	var b strings.Builder
	for _, e := range evs[lo:] {
		who := fmt.Sprintf("tx#%d", e.Tx)
		if e.Tx == 0 {
			who = "other-program"
		}
		fmt.Fprintf(&b, "\n    %s committed=%v %q", who, e.Committed, e.Line)
		if e.Err != "" {
			fmt.Fprintf(&b, " ERR(%s) %s", e.Cause, e.Err)
		}
	}
	return b.String()
}

func (h *c10mH) fail(format string, a ...any) {
	h.t.Fatalf("%s\nworkload interfaces=%v dispatchOn=%v refresh=%v\nops=%v\nFelix's table now:\n%s\nlast kernel events:%s",
		fmt.Sprintf(format, a...), c15nSortedKeys(h.eps), h.dispatchOn, h.refresh, h.ops, h.k.dump(), h.trace())
}

func c10mElems(m *knftables.FakeMap) []string {
	var out []string
	for _, e := range m.Elements {
		out = append(out, strings.Join(e.Key, ".")+" : "+strings.Join(e.Value, " "))
	}
	sort.Strings(out)
	return out
}

// check: the oracle (only called when Felix's view is current).
func (h *c10mH) check(when string) {
	if !h.dispatchOn {
		return
	}
	ft := h.k.felixTable()
	if ft == nil {
		h.fail("%s: table %s does not exist", when, c15nTableName)
	}
	for _, dir := range []struct{ mapName, pfx, dispatch, key string }{
		{rules.NftablesFromWorkloadDispatchMap, rules.WorkloadFromEndpointPfx, rules.ChainFromWorkloadDispatch, "iifname"},
		{rules.NftablesToWorkloadDispatchMap, rules.WorkloadToEndpointPfx, rules.ChainToWorkloadDispatch, "oifname"},
	} {
		kn := c10mKernelName(dir.mapName)
		m := ft.Maps[kn]
		if m == nil {
			h.fail("%s: dispatch verdict map %s is missing", when, kn)
		}
		var want []string
		for n := range h.eps {
			chain := c10mKernelName(rules.EndpointChainName(dir.pfx, n, nftables.MaxChainNameLength))
			want = append(want, n+" : goto "+chain)
			if ft.Chains[chain] == nil {
				h.fail("%s: chain %s, which interface %s must be dispatched to, does not exist", when, chain, n)
			}
		}
		sort.Strings(want)
		got := c10mElems(m)
		if strings.Join(got, "\n") != strings.Join(want, "\n") {
			h.fail("%s: dispatch verdict map %s does not hold exactly the known workload interfaces:\n kernel:  %q\n desired: %q", when, kn, got, want)
		}
		dc := ft.Chains[c10mKernelName(dir.dispatch)]
		if dc == nil || len(dc.Rules) < 2 {
			h.fail("%s: dispatch chain %s is missing or incomplete", when, c10mKernelName(dir.dispatch))
		}
		if lookup := dir.key + " vmap @" + kn; dc.Rules[0].Rule != lookup {
			h.fail("%s: first rule of dispatch chain %s is %q, want %q", when, c10mKernelName(dir.dispatch), dc.Rules[0].Rule, lookup)
		}
		if last := dc.Rules[len(dc.Rules)-1]; !strings.HasSuffix(last.Rule, " drop") || last.Comment == nil || !strings.Contains(*last.Comment, "Unknown interface") {
			h.fail("%s: dispatch chain %s does not end in the Unknown-interface drop: %q", when, c10mKernelName(dir.dispatch), last.Rule)
		}
	}
}

// apply runs Apply(); returns false if Felix gave up legitimately.
func (h *c10mH) apply(label string) bool {
	h.ops = append(h.ops, label)
	k := h.k
	// C15's open finding (writing from a view known to be unreliable after a failed ListAll) has a
	// second trigger: a transaction killed after commit followed by a failed ListAll.
	if k.listAllFaults > 0 {
		for _, f := range k.runFaults {
			if f == "fail-after-commit" {
				k.listAllFaults = 0
				break
			}
		}
	}
	staleAtStart := k.extDirty || (k.mapViewStale && k.instanceReads > 0)
	readsAtStart := k.reads
	recreatesAtStart := k.recreates
	k.injRunFired, k.injAfterCommit, k.natRunFailed, k.injListRulesFired, k.injListFired, k.raceFired, k.runsOK = 0, 0, 0, 0, 0, 0, 0
	k.freshListAllFails = 0
	var pv any
	func() {
		defer func() { pv = recover() }()
		h.root.Apply()
	}()
	if len(k.gaps) > 0 {
		h.t.Fatalf("HARNESS-GAP: cannot interpret transaction lines: %q", k.gaps)
	}
	h.sinceFault += k.injRunFired + k.injListFired + k.raceFired
	when := "after Apply (" + label + ")"
	if pv != nil {
		msg := c15nPanicMsg(pv)
		envTrouble := staleAtStart || k.raceFired > 0 || k.injListFired > 0 || k.injAfterCommit > 0
		allowedNatural := 0
		if envTrouble {
			allowedNatural = 6
		}
		switch {
		case strings.Contains(msg, "giving up after retries"):
			if k.injRunFired+k.freshListAllFails+allowedNatural < 11 {
				h.fail("Apply gave up (%s) although only %d transaction failures were injected (%d more failed on their own; interference: %v)", msg, k.injRunFired, k.natRunFailed, envTrouble)
			}
		case strings.Contains(msg, "command failed after retries"):
			if k.injListRulesFired < 4 {
				h.fail("Apply gave up (%s) although only %d list failures were injected", msg, k.injListRulesFired)
			}
		default:
			panic(pv)
		}
		h.classes["gave-up-panic"] = true
		h.newTable()
		h.sync()
		h.ops = append(h.ops, "PANIC")
		return false
	}
	if k.reads > readsAtStart {
		h.fresh = false
	}
	if k.extDirty || k.mapViewStale {
		h.classes["apply-with-stale-view"] = true
		return true
	}
	h.check(when)
	h.classes["verified-apply"] = true
	if k.natRunFailed > 0 {
		h.classes["verified-apply-after-own-transaction-was-refused"] = true
	}
	if k.recreates > recreatesAtStart {
		h.classes["verified-apply-after-table-rebuild"] = true
		if k.injListFired > 0 && h.dispatchOn && len(h.eps) > 0 {
			h.classes["verified-apply-after-rebuild-with-failed-listings"] = true
		}
	}
	if h.dispatchOn && len(h.eps) > 0 {
		h.classes["verified-apply-with-endpoints"] = true
		if h.sinceFault > 0 {
			h.nontrivial = true
		}
	}
	h.sinceFault = 0
	return true
}

func c10mConfig() rules.Config {
	return rules.Config{
		IPSetConfigV4:         ipsets.NewIPVersionConfig(ipsets.IPFamilyV4, "cali", nil, nil),
		IPSetConfigV6:         ipsets.NewIPVersionConfig(ipsets.IPFamilyV6, "cali", nil, nil),
		WorkloadIfacePrefixes: []string{"cali", "tap"},
		MarkAccept:            0x10, MarkPass: 0x20, MarkDrop: 0x40, MarkScratch0: 0x80, MarkScratch1: 0x100,
		MarkEndpoint: 0xff000, MarkNonCaliEndpoint: 0x1000,
		FilterDenyAction: "DROP",
	}
}

// TestVerifC10NftMapsRebuildAfterBrownout: deterministic companion of the state machine — a
// workload arrives while six transactions in a row and the element listings in between fail;
// Felix falls back to rebuilding its table; afterwards every known interface must still be
// dispatched to its own chain.
func TestVerifC10NftMapsRebuildAfterBrownout(t *testing.T) {
	ev.Quiet()
	oldPath := os.Getenv("PATH")
	_ = os.Setenv("PATH", "/nonexistent-c10m")
	defer func() { _ = os.Setenv("PATH", oldPath) }()
	h := &c10mH{t: t, classes: map[string]bool{}, eps: map[string]int{"cali1": 0, "cali12": 0}, dispatchOn: true}
	h.rr = rules.NewRenderer(c10mConfig(), true)
	h.k = c15nNewKernel(knftables.IPv4Family)
	h.newTable()
	h.sync()
	h.apply("A")
	h.eps["cali2"] = 0
	h.sync()
	for i := 0; i < 6; i++ {
		h.k.runFaults = append(h.k.runFaults, "fail")
	}
	h.k.brownout = true
	if !h.apply("A") || !h.classes["verified-apply-after-rebuild-with-failed-listings"] {
		t.Fatalf("HARNESS-GAP: script did not end in a verified Apply after a table rebuild with failed listings; classes=%v", h.classes)
	}
}

func TestVerifC10NftMapsSync(t *testing.T) {
	ev.Quiet()
	oldPath := os.Getenv("PATH")
	_ = os.Setenv("PATH", "/nonexistent-c10m") // table.go's failure path execs the real nft for diagnostics
	defer func() { _ = os.Setenv("PATH", oldPath) }()

	rec := ev.New("C10", "nftmaps",
		"rapid state machine: the real nftables Table (filter TableLayer) + Maps on the knftables.Fake based kernel of C15's nftables unit; the set of workload interfaces (7 names incl. names that are prefixes of others, a 15-character name and a second prefix) changes over time and is handed over like endpointManager does (endpoint chains, rules.DispatchMappings -> AddOrReplaceMap, rules.WorkloadDispatchChains); ops: change endpoints, re-render an endpoint's chains, Apply, clock advance, InvalidateDataplaneCache, forced resync+Apply, restart (same or changed endpoints), dispatch teardown/setup (RemoveMap), edits by another program (delete/add/re-point map elements, flush a map, delete a map together with its users, delete an endpoint chain with its elements, delete the whole table; between ops or racing before Felix's write), injected transaction and list failures, workload removals applied through a resync in which one or two map-element listings fail on their own, brownouts (n transactions in a row fail and, while they do, the map-element listings of the resyncs in between fail too; n>=6 makes Felix rebuild its table). Non-trivial = a verified Apply with >=1 endpoint that follows >=1 fault or foreign edit; distinct = op sequence",
		"the C15 open finding (a write from a view known to be unreliable after a failed ListAll) is kept out of this unit: no ListAll failure while a Table has not read the kernel yet, nor together with a killed-after-commit transaction",
		"kernel model as in C15's nftables unit (knftables.Fake + post-commit in-use check)")
	defer rec.Write()
	cfg := c10mConfig()
	rapid.Check(t, func(t *rapid.T) {
		h := &c10mH{t: t, classes: map[string]bool{}, eps: map[string]int{}, dispatchOn: true}
		h.rr = rules.NewRenderer(cfg, true)
		h.refresh = rapid.SampledFrom([]time.Duration{0, 10 * time.Second, 90 * time.Second}).Draw(t, "refreshInterval")
		h.k = c15nNewKernel(knftables.IPv4Family)
		k := h.k

		drawEps := func(t *rapid.T) {
			for _, n := range c10mIfacePool {
				switch rapid.IntRange(0, 3).Draw(t, "ep:"+n) {
				case 0:
					delete(h.eps, n)
				case 1:
					if _, ok := h.eps[n]; !ok {
						h.eps[n] = 0
					}
				case 2: // leave as is
				case 3:
					h.eps[n] = h.eps[n] + 1 // (re)create / re-render its chains
				}
			}
		}

		// Optionally an earlier Felix with another set of workloads programmed the table.
		if rapid.Bool().Draw(t, "previousFelix") {
			h.classes["start-previous-felix"] = true
			drawEps(t)
			h.newTable()
			h.sync()
			h.root.Apply()
			if rapid.Bool().Draw(t, "workloadsChangedWhileDown") {
				drawEps(t)
			}
		}
		k.log = nil
		k.extDirty = false
		h.newTable()
		h.sync()

		type edit struct {
			class string
			build func(tx *knftables.Transaction)
		}
		pickEdit := func(t *rapid.T) edit {
			ft := k.felixTable()
			wipe := edit{"ext-delete-table", func(tx *knftables.Transaction) { tx.Delete(&knftables.Table{}) }}
			if ft == nil {
				return edit{"ext-create-empty-table", func(tx *knftables.Transaction) { tx.Add(&knftables.Table{}) }}
			}
			ms := c15nSortedKeys(ft.Maps)
			kind := rapid.IntRange(0, 7).Draw(t, "editKind")
			if len(ms) == 0 || kind == 0 {
				return wipe
			}
			mn := rapid.SampledFrom(ms).Draw(t, "map")
			els := ft.Maps[mn].Elements
			switch {
			case kind == 1 && len(els) > 0:
				e := els[rapid.IntRange(0, len(els)-1).Draw(t, "elem")]
				return edit{"ext-delete-element", func(tx *knftables.Transaction) {
					tx.Delete(&knftables.Element{Map: mn, Key: e.Key, Value: e.Value})
				}}
			case kind == 2 && len(els) > 0:
				// an unknown interface mapped to some workload's chain
				tgt := els[rapid.IntRange(0, len(els)-1).Draw(t, "elem")].Value
				return edit{"ext-add-element", func(tx *knftables.Transaction) {
					tx.Add(&knftables.Element{Map: mn, Key: []string{"calizz"}, Value: tgt})
				}}
			case kind == 3 && len(els) > 1:
				// a known interface re-pointed at another workload's chain
				a := els[0]
				b := els[len(els)-1]
				return edit{"ext-repoint-element", func(tx *knftables.Transaction) {
					tx.Delete(&knftables.Element{Map: mn, Key: a.Key, Value: a.Value})
					tx.Add(&knftables.Element{Map: mn, Key: a.Key, Value: b.Value})
				}}
			case kind == 4:
				return edit{"ext-flush-map", func(tx *knftables.Transaction) { tx.Flush(&knftables.Map{Name: mn}) }}
			case kind == 5:
				// delete a map together with the rules that use it
				return edit{"ext-delete-map", func(tx *knftables.Transaction) {
					for _, cn := range c15nSortedKeys(ft.Chains) {
						for _, r := range ft.Chains[cn].Rules {
							if strings.Contains(r.Rule, "@"+mn) {
								tx.Flush(&knftables.Chain{Name: cn})
								break
							}
						}
					}
					tx.Delete(&knftables.Map{Name: mn})
				}}
			case kind == 6 && len(els) > 0:
				// delete a workload's chain together with the element that points to it
				e := els[rapid.IntRange(0, len(els)-1).Draw(t, "elem")]
				w := strings.Fields(e.Value[0])
				if len(w) == 2 {
					return edit{"ext-delete-endpoint-chain", func(tx *knftables.Transaction) {
						tx.Delete(&knftables.Element{Map: mn, Key: e.Key, Value: e.Value})
						tx.Flush(&knftables.Chain{Name: w[1]})
						tx.Delete(&knftables.Chain{Name: w[1]})
					}}
				}
			}
			return wipe
		}

		t.Repeat(map[string]func(*rapid.T){
			"changeEndpoints": func(t *rapid.T) {
				drawEps(t)
				h.sync()
				h.ops = append(h.ops, "E")
			},
			"apply": func(t *rapid.T) { h.apply("A") },
			"advanceTime": func(t *rapid.T) {
				k.now = k.now.Add(rapid.SampledFrom([]time.Duration{time.Second, 15 * time.Second, 2 * time.Minute, 3 * time.Hour}).Draw(t, "by"))
				h.ops = append(h.ops, "t")
			},
			"externalEdit": func(t *rapid.T) {
				e := pickEdit(t)
				if k.external(e.build) {
					h.sinceFault++
					h.classes[e.class] = true
					h.ops = append(h.ops, "e")
				}
			},
			"raceEdit": func(t *rapid.T) {
				e := pickEdit(t)
				k.beforeRun = append(k.beforeRun, func() {
					k.raceFired++
					if k.external(e.build) {
						h.classes["race-"+e.class] = true
					}
				})
				h.ops = append(h.ops, "r")
			},
			"injectRunFault": func(t *rapid.T) {
				n := rapid.SampledFrom([]int{1, 1, 2, 5, 6, 7, 12}).Draw(t, "times")
				kind := rapid.SampledFrom([]string{"fail", "fail", "fail", "fail-after-commit"}).Draw(t, "kind")
				for i := 0; i < n; i++ {
					k.runFaults = append(k.runFaults, kind)
				}
				h.classes["fault-run-"+kind] = true
				h.ops = append(h.ops, "f")
			},
			"removeDuringFlakyResync": func(t *rapid.T) {
				// Workloads go away while a resync is due and exactly one (uncorrelated) listing of
				// a map's elements fails during it; everything else works.
				var present []string
				for _, n := range c15nSortedKeys(h.eps) {
					present = append(present, n)
				}
				if len(present) == 0 || !h.dispatchOn {
					t.Skip("no workloads")
				}
				k.runFaults, k.beforeRun, k.brownout = nil, nil, false
				k.listAllFaults, k.listRulesFaults, k.listElemFaults = 0, 0, 0
				if !h.apply("A") || k.extDirty || k.mapViewStale {
					return
				}
				nrm := rapid.IntRange(1, len(present)).Draw(t, "removed")
				for _, n := range present[:nrm] {
					delete(h.eps, n)
				}
				if rapid.Bool().Draw(t, "alsoAdd") {
					for _, n := range c10mIfacePool {
						if _, ok := h.eps[n]; !ok && n != present[0] {
							h.eps[n] = 0
							break
						}
					}
				}
				h.sync()
				h.root.InvalidateDataplaneCache("verif")
				k.listElemFaults = rapid.IntRange(1, 2).Draw(t, "failedListings")
				h.sinceFault++
				h.ops = append(h.ops, "R")
				if h.apply("A") && !k.extDirty && !k.mapViewStale {
					h.classes["removal-applied-through-resync-with-failed-listing"] = true
					if k.natRunFailed > 0 {
						// Not a violation of the dispatch property (the retry healed it), but worth
						// seeing in the evidence: nothing but one listing failed, yet the kernel
						// refused a transaction of Felix's.
						h.classes["flaky-resync-removal-needed-kernel-refusal-and-retry"] = true
					}
				}
			},
			"injectBrownout": func(t *rapid.T) {
				// A period of nft trouble: the next n transactions fail and, while they do, so do
				// the per-map element listings of the resyncs in between.
				n := rapid.SampledFrom([]int{2, 5, 6, 6, 7, 8, 10}).Draw(t, "failingTransactions")
				for i := 0; i < n; i++ {
					k.runFaults = append(k.runFaults, "fail")
				}
				k.brownout = true
				h.classes["fault-brownout"] = true
				if len(k.runFaults) >= 6 {
					h.classes["fault-brownout-x6+"] = true
				}
				h.ops = append(h.ops, "b")
			},
			"injectListFault": func(t *rapid.T) {
				kind := rapid.SampledFrom([]string{"listall", "rules", "elements", "elements"}).Draw(t, "kind")
				n := rapid.SampledFrom([]int{1, 1, 2, 3}).Draw(t, "times")
				switch kind {
				case "listall":
					if h.fresh {
						return
					}
					k.listAllFaults += n
				case "rules":
					k.listRulesFaults += n
				case "elements":
					k.listElemFaults += n
				}
				h.classes["fault-list-"+kind] = true
				h.ops = append(h.ops, "l")
			},
			"invalidateCache": func(t *rapid.T) {
				h.root.InvalidateDataplaneCache("verif")
				h.ops = append(h.ops, "i")
			},
			"restart": func(t *rapid.T) {
				if rapid.Bool().Draw(t, "workloadsChangedWhileDown") {
					drawEps(t)
				}
				h.dispatchOn = true
				h.newTable()
				h.sync()
				h.classes["restart"] = true
				h.ops = append(h.ops, "Z")
			},
			"toggleDispatch": func(t *rapid.T) {
				if rapid.IntRange(0, 3).Draw(t, "really") > 0 {
					t.Skip("rare")
				}
				if h.dispatchOn {
					h.teardown()
					h.classes["dispatch-teardown"] = true
					h.ops = append(h.ops, "D")
				} else {
					h.setup()
					h.ops = append(h.ops, "S")
				}
			},
			"resyncApply": func(t *rapid.T) {
				// Forced resync, then Apply without interference: the dispatch must be exact.
				k.runFaults, k.beforeRun, k.brownout = nil, nil, false
				k.listAllFaults, k.listRulesFaults, k.listElemFaults = 0, 0, 0
				h.root.InvalidateDataplaneCache("verif")
				if h.apply("C") {
					if k.extDirty || k.mapViewStale {
						h.fail("Apply after InvalidateDataplaneCache returned without a complete read of the table")
					}
					h.classes["resync-apply"] = true
				}
			},
			"": func(t *rapid.T) {},
		})

		cls := c15nSortedKeys(h.classes)
		rec.SizedCase(h.nontrivial, strings.Join(h.ops, ""), len(h.ops), func() any {
			return map[string]any{"ops": strings.Join(h.ops, ""), "classes": cls, "workload_interfaces": c15nSortedKeys(h.eps),
				"final_felix_table": strings.Split(k.dump(), "\n")}
		}, cls...)
	})
}
