package nftables_test

// C15 (unit "nftables") — nftables sync converges and leaves other software's objects alone.
//
// The real felix/nftables.NftablesTable is driven, through the per-layer facade real Felix uses
// (nftables.NewTableLayer "filter"/"nat"/"raw"/"mangle" over one root table "calico"), through
// generated histories against a kernel built on the vendored knftables.Fake.  The fake is wrapped
// (c15nKernel) to add: a per-operation change log of every transaction, injected Run/List
// failures, edits by other programs (between operations, or racing between Felix's read and its
// write), a fake clock, and the kernel's "object is in use" check at commit (a transaction that
// would leave a jump/goto/vmap/set reference dangling is rejected as a whole).
//
// What Felix owns is derived from the code: it owns its whole table (CleanUp doc comment: "we don't
// share the Calico table with any other writers"; loadDataplaneState marks every chain it does not
// know for deletion), so "not owned by Felix" = every other nftables table, of either family.
//
// After every Apply() that returns:
//   (always)  every other table is unchanged;
//   (if Felix's view of its table was not made stale by another program after its last read)
//     1. every desired chain (reachable from a base chain's hook rules or from a verdict-map member)
//        holds exactly the desired rules in order, each with the hash CalculateRuleHashes gives;
//     2. all 14 base chains exist, hooked where their name says, and hold exactly the
//        InsertOrAppendRules rules followed by the AppendRules rules;
//     3. no other chain with a name Felix recognises as its own (cali-/filter-/nat-/mangle-/raw-)
//        exists in Felix's table (stale chains of an earlier Felix are gone);
//     5. a chain whose desired content and kernel content are both unchanged since the last such
//        verified Apply was not touched by any committed transaction operation (except when the
//        environment made >= 6 transactions of that Apply fail: the code's documented fallback
//        then rebuilds the table).
// An Apply that gives up (panics) is accepted only if the harness injected enough failures.

import (
	"context"
	"errors"
	"fmt"
	"os"
	"regexp"
	"sort"
	"strings"
	"sync"
	"testing"
	"time"

	"github.com/sirupsen/logrus"
	"pgregory.net/rapid"
	"sigs.k8s.io/knftables"

	"github.com/projectcalico/calico/felix/environment"
	"github.com/projectcalico/calico/felix/generictables"
	"github.com/projectcalico/calico/felix/ipsets"
	"github.com/projectcalico/calico/felix/nftables"
	"github.com/projectcalico/calico/verifkit/ev"
)

const c15nHashPrefix = "cali:" // rulesdefs.RuleHashPrefix, what felix/dataplane/linux passes
const c15nTableName = "calico"


type c15nNoopRecorder struct{}

func (c15nNoopRecorder) RecordOperation(string) {}

// ---------------------------------------------------------------------------------------------
// Kernel: knftables.Fake + change log + fault injection + in-use check.

type c15nEvent struct {
	Tx        int    // transaction number; 0 for edits by other programs
	Verb      string // add, flush, delete, insert, replace
	Kind      string // table, chain, rule, set, map, element, flowtable
	Name      string // chain name for chain/rule operations, object name otherwise
	Line      string
	Committed bool
	Cause     string // "", injected, natural, in-use
	Err       string
}

type c15nKernel struct {
	fake   *knftables.Fake
	family knftables.Family
	now    time.Time

	runFaults       []string // one entry consumed per Run: "fail" | "fail-after-commit"
	listAllFaults   int
	listRulesFaults int
	listElemFaults  int
	// brownout: for as long as injected transaction failures are pending, listings of map/set
	// elements fail too (each map is listed by its own nft invocation under a shared deadline, so
	// in a period of nft trouble these are the first calls to time out).
	brownout bool
	beforeRun       []func()

	log   []c15nEvent
	txSeq int
	gaps  []string

	// Tracking of what Felix has seen.
	editEpoch    int
	listAllEpoch int
	listAllOK    bool
	extDirty     bool // another program edited Felix's table after Felix last read it completely
	reads        int  // complete reads of Felix's table (ListAll + rules) so far
	// Complete reads by the Table object that currently holds the handle (reset when a new Table
	// asks for a dataplane handle), and ListAll failures of the current Apply that hit a Table which
	// had not completed any read yet or whose transaction had already failed earlier in the same
	// Apply (its view is then unreliable): such an attempt must not write and counts as a failed
	// attempt in Felix's retry loop.  A failed ListAll on a plain resync does not.
	instanceReads     int
	recreates         int // committed transactions of Felix that deleted and rebuilt the table
	freshListAllFails int
	lastReadAt   time.Time
	// mapViewStale: the current Table cannot know what the verdict maps hold: it has not listed
	// their elements successfully since it was created / since another program last edited the
	// table.  (A failed element listing by a Table that already knew the contents does not make
	// its knowledge wrong: its own writes keep it current.)
	elemFailedThisRead, mapViewStale bool

	// Counters for the Apply in progress.
	injRunFired, injAfterCommit, natRunFailed, injListRulesFired, injListFired, raceFired, runsOK int

	dpCalls []string

	elemMu sync.Mutex // ListElements is called from several goroutines (Maps.LoadDataplaneState)
}

var _ knftables.Interface = (*c15nKernel)(nil)

func c15nNewKernel(family knftables.Family) *c15nKernel {
	return &c15nKernel{
		fake:   knftables.NewFake(family, c15nTableName),
		family: family,
		now:    time.Unix(1_700_000_000, 0),
	}
}

func (k *c15nKernel) Now() time.Time        { return k.now }
func (k *c15nKernel) Sleep(d time.Duration) { k.now = k.now.Add(d) }

func (k *c15nKernel) newDataplane(fam knftables.Family, name string, _ ...knftables.Option) (knftables.Interface, error) {
	k.dpCalls = append(k.dpCalls, string(fam)+"/"+name)
	k.instanceReads = 0
	k.mapViewStale = true
	return k, nil
}

func (k *c15nKernel) felixTable() *knftables.FakeTable { return k.fake.Table }

func c15nParseTx(s string, tx int) []c15nEvent {
	var out []c15nEvent
	for _, line := range strings.Split(s, "\n") {
		if strings.TrimSpace(line) == "" {
			continue
		}
		f := strings.Fields(line)
		e := c15nEvent{Tx: tx, Line: line}
		if len(f) >= 2 {
			e.Verb, e.Kind = f[0], f[1]
		}
		switch {
		case e.Kind == "table" && len(f) >= 4:
			e.Name = f[3]
		case len(f) >= 5:
			e.Name = f[4]
		default:
			e.Kind = "unparsed"
		}
		out = append(out, e)
	}
	return out
}

// c15nDangling reports a reference (jump/goto target, @set/@map, verdict-map element target) to an
// object that does not exist in the table; the kernel refuses to delete an object that is in use.
func c15nDangling(t *knftables.FakeTable) string {
	if t == nil {
		return ""
	}
	for _, cn := range c15nSortedKeys(t.Chains) {
		for _, r := range t.Chains[cn].Rules {
			words := strings.Fields(r.Rule)
			for i, w := range words {
				if (w == "jump" || w == "goto") && i+1 < len(words) {
					if t.Chains[words[i+1]] == nil {
						return fmt.Sprintf("rule %q of chain %s refers to missing chain %s", r.Rule, cn, words[i+1])
					}
				}
				if strings.HasPrefix(w, "@") {
					n := w[1:]
					if t.Sets[n] == nil && t.Maps[n] == nil && t.Flowtables[n] == nil {
						return fmt.Sprintf("rule %q of chain %s refers to missing set/map %s", r.Rule, cn, n)
					}
				}
			}
		}
	}
	for _, mn := range c15nSortedKeys(t.Maps) {
		if os.Getenv("C15N_DEBUG_NO_ELEM_INUSE") != "" { // development aid: knftables.Fake semantics
			break
		}
		for _, e := range t.Maps[mn].Elements {
			if len(e.Value) == 1 {
				w := strings.Fields(e.Value[0])
				if len(w) == 2 && (w[0] == "goto" || w[0] == "jump") && t.Chains[w[1]] == nil {
					return fmt.Sprintf("element %v of map %s refers to missing chain %s", e.Key, mn, w[1])
				}
			}
		}
	}
	return ""
}

func c15nSortedKeys[V any](m map[string]V) []string {
	out := make([]string, 0, len(m))
	for k := range m {
		out = append(out, k)
	}
	sort.Strings(out)
	return out
}

// commit runs tx on the fake with the in-use check; all or nothing.
func (k *c15nKernel) commit(tx *knftables.Transaction) (cause string, err error) {
	oldTables, oldTable := k.fake.Tables, k.fake.Table
	if err := k.fake.Run(context.Background(), tx); err != nil {
		return "natural", err
	}
	if d := c15nDangling(k.fake.Table); d != "" {
		k.fake.Tables, k.fake.Table = oldTables, oldTable
		return "in-use", fmt.Errorf("Error: Could not process rule: Device or resource busy (%s)", d)
	}
	return "", nil
}

func (k *c15nKernel) record(evs []c15nEvent, committed bool, cause string, err error) {
	for _, e := range evs {
		e.Committed = committed
		e.Cause = cause
		if err != nil {
			e.Err = err.Error()
		}
		if e.Kind == "unparsed" {
			k.gaps = append(k.gaps, e.Line)
		}
		k.log = append(k.log, e)
	}
}

func (k *c15nKernel) NewTransaction() *knftables.Transaction { return k.fake.NewTransaction() }

func (k *c15nKernel) Run(_ context.Context, tx *knftables.Transaction) error {
	hooks := k.beforeRun
	k.beforeRun = nil
	for _, h := range hooks {
		h()
	}
	k.txSeq++
	evs := c15nParseTx(tx.String(), k.txSeq)
	fault := ""
	if len(k.runFaults) > 0 {
		fault, k.runFaults = k.runFaults[0], k.runFaults[1:]
	}
	if fault == "fail" {
		err := errors.New("injected: nft transaction failed")
		k.injRunFired++
		k.record(evs, false, "injected", err)
		return err
	}
	cause, err := k.commit(tx)
	if err != nil {
		k.natRunFailed++
		k.record(evs, false, cause, err)
		return err
	}
	for _, e := range evs {
		if e.Kind == "table" && e.Verb == "delete" {
			// Felix deleted and rebuilt its whole table in this transaction: whatever other
			// programs did before, and whatever Felix had failed to read, is gone; the table now
			// holds exactly what Felix wrote.
			k.extDirty = false
			k.mapViewStale = false
			k.recreates++
			break
		}
	}
	if len(k.runFaults) == 0 {
		k.brownout = false
	}
	if fault == "fail-after-commit" {
		// nft was killed (timeout) after the kernel had committed the batch.
		err := errors.New("injected: nft killed after commit")
		k.injRunFired++
		k.injAfterCommit++
		k.record(evs, true, "injected", err)
		return err
	}
	k.runsOK++
	k.record(evs, true, "", nil)
	return nil
}

func (k *c15nKernel) Check(ctx context.Context, tx *knftables.Transaction) error {
	return k.fake.Check(ctx, tx)
}

func (k *c15nKernel) readComplete() {
	if !k.listAllOK {
		return
	}
	k.reads++
	k.instanceReads++
	k.lastReadAt = k.now
	if k.listAllEpoch == k.editEpoch && !k.elemFailedThisRead {
		k.mapViewStale = false
	}
	if k.listAllEpoch == k.editEpoch {
		k.extDirty = false
	}
}

func (k *c15nKernel) ListAll(ctx context.Context) (map[string][]string, error) {
	k.listAllOK = false
	k.elemFailedThisRead = false
	if k.listAllFaults > 0 {
		k.listAllFaults--
		k.injListFired++
		if k.instanceReads == 0 || k.injRunFired+k.natRunFailed > 0 {
			k.freshListAllFails++
		}
		return nil, errors.New("injected: nft list failed")
	}
	res, err := k.fake.ListAll(ctx)
	if err == nil || knftables.IsNotFound(err) {
		k.listAllOK = true
		k.listAllEpoch = k.editEpoch
	}
	for _, v := range res {
		sort.Strings(v)
	}
	return res, err
}

func (k *c15nKernel) List(ctx context.Context, objectType string) ([]string, error) {
	res, err := k.fake.List(ctx, objectType)
	sort.Strings(res)
	if err != nil && knftables.IsNotFound(err) && strings.HasPrefix(objectType, "chain") {
		k.readComplete()
	}
	return res, err
}

func (k *c15nKernel) ListRules(ctx context.Context, chain string) ([]*knftables.Rule, error) {
	if chain != "" {
		return k.fake.ListRules(ctx, chain)
	}
	if k.listRulesFaults > 0 {
		k.listRulesFaults--
		k.injListRulesFired++
		k.injListFired++
		return nil, errors.New("injected: nft list rules failed")
	}
	t := k.felixTable()
	if t == nil {
		rules, err := k.fake.ListRules(ctx, "")
		if err != nil && knftables.IsNotFound(err) {
			k.readComplete()
		}
		return rules, err
	}
	rules := []*knftables.Rule{}
	for _, cn := range c15nSortedKeys(t.Chains) {
		rules = append(rules, t.Chains[cn].Rules...)
	}
	k.readComplete()
	return rules, nil
}

func (k *c15nKernel) ListElements(ctx context.Context, objectType, name string) ([]*knftables.Element, error) {
	k.elemMu.Lock()
	defer k.elemMu.Unlock()
	if k.listElemFaults == 0 && k.brownout && len(k.runFaults) > 0 {
		k.injListFired++
		k.elemFailedThisRead = true
		return nil, context.DeadlineExceeded
	}
	if k.listElemFaults > 0 {
		k.listElemFaults--
		k.injListFired++
		k.elemFailedThisRead = true
		return nil, errors.New("injected: nft list elements failed")
	}
	return k.fake.ListElements(ctx, objectType, name)
}

func (k *c15nKernel) ListCounters(ctx context.Context) ([]*knftables.Counter, error) {
	if k.felixTable() == nil {
		return nil, nil
	}
	return k.fake.ListCounters(ctx)
}

// external: another program edits Felix's table (atomic; refused if it would leave a dangling
// reference, as the kernel would).
func (k *c15nKernel) external(build func(tx *knftables.Transaction)) bool {
	tx := k.fake.NewTransaction()
	build(tx)
	if tx.NumOperations() == 0 {
		return false
	}
	evs := c15nParseTx(tx.String(), 0)
	if _, err := k.commit(tx); err != nil {
		return false
	}
	k.record(evs, true, "", nil)
	k.editEpoch++
	k.extDirty = true
	k.mapViewStale = true
	return true
}

// ---------------------------------------------------------------------------------------------
// Snapshots.

func c15nHashOf(comment *string) string {
	if comment == nil {
		return ""
	}
	first := strings.Split(*comment, ";")[0]
	if !strings.HasPrefix(first, c15nHashPrefix) {
		return "?" + first
	}
	return strings.TrimPrefix(first, c15nHashPrefix)
}

func c15nRuleLine(r *knftables.Rule) string {
	return r.Rule + "  ## " + c15nHashOf(r.Comment)
}

// c15nChainSnap: chain -> rule lines (body + hash) of a table.
func c15nChainSnap(t *knftables.FakeTable) map[string][]string {
	out := map[string][]string{}
	if t == nil {
		return out
	}
	for cn, ch := range t.Chains {
		rs := []string{}
		for _, r := range ch.Rules {
			rs = append(rs, c15nRuleLine(r))
		}
		out[cn] = rs
	}
	return out
}

func c15nStr[T ~string](p *T) string {
	if p == nil {
		return "-"
	}
	return string(*p)
}

// c15nFullSnap: complete canonical text of a table (everything observable, comments included).
func c15nFullSnap(t *knftables.FakeTable) string {
	var b strings.Builder
	for _, cn := range c15nSortedKeys(t.Chains) {
		ch := t.Chains[cn]
		fmt.Fprintf(&b, "chain %s type=%s hook=%s prio=%s\n", cn, c15nStr(ch.Type), c15nStr(ch.Hook), c15nStr(ch.Priority))
		for _, r := range ch.Rules {
			fmt.Fprintf(&b, "  rule %s comment=%s\n", r.Rule, c15nStr(r.Comment))
		}
	}
	for _, sn := range c15nSortedKeys(t.Sets) {
		s := t.Sets[sn]
		fmt.Fprintf(&b, "set %s type=%s\n", sn, s.Type)
		for _, e := range s.Elements {
			fmt.Fprintf(&b, "  elem %v\n", e.Key)
		}
	}
	for _, mn := range c15nSortedKeys(t.Maps) {
		m := t.Maps[mn]
		fmt.Fprintf(&b, "map %s type=%s\n", mn, m.Type)
		for _, e := range m.Elements {
			fmt.Fprintf(&b, "  elem %v : %v\n", e.Key, e.Value)
		}
	}
	for _, fn := range c15nSortedKeys(t.Flowtables) {
		fmt.Fprintf(&b, "flowtable %s %v\n", fn, t.Flowtables[fn].Devices)
	}
	return b.String()
}

// foreignSnap: every table other than Felix's, as text.
func (k *c15nKernel) foreignSnap() map[string]string {
	out := map[string]string{}
	for fam, tabs := range k.fake.Tables {
		for name, t := range tabs {
			if fam == k.family && name == c15nTableName {
				continue
			}
			out[string(fam)+"/"+name] = c15nFullSnap(t)
		}
	}
	return out
}

func (k *c15nKernel) dump() string {
	t := k.felixTable()
	if t == nil {
		return "  (table " + string(k.family) + " " + c15nTableName + " does not exist)"
	}
	return c15nFullSnap(t)
}

// ---------------------------------------------------------------------------------------------
// Desired-state model.

type c15nRuleSpec struct {
	Match   int
	Action  int    // 0 accept 1 drop 2 return 3 jump 4 goto 5 set-mark 6 none 7 verdict-map dispatch
	Target  string // kernel name of the target chain (jump/goto)
	Map     string // kernel name of the verdict map (Action 7)
	Comment string
}

func (r c15nRuleSpec) String() string {
	return fmt.Sprintf("m%d/a%d%s%s/%q", r.Match, r.Action, r.Target, r.Map, r.Comment)
}

// Felix chain universe (kernel name = layer + "-" + name); a chain may only jump to chains of its
// own layer that come later in this list (no loops; the layer facade prefixes every target with
// its own layer name, so cross-layer jumps cannot be expressed by real callers either).
var c15nChains = []struct{ Layer, Name string }{
	{"filter", "cali-FORWARD"},
	{"filter", "cali-fw-disp"},
	{"filter", "cali-fw-wl1"},
	{"filter", "cali-tw-wl1"},
	{"filter", "cali-pi-pol1"},
	{"filter", "cali-po-pol1"},
	{"nat", "cali-PREROUTING"},
	{"nat", "cali-fip-dnat"},
}

func c15nFull(i int) string { return c15nChains[i].Layer + "-" + c15nChains[i].Name }

func c15nChainIdx(full string) int {
	for i := range c15nChains {
		if c15nFull(i) == full {
			return i
		}
	}
	return -1
}

var c15nMaps = []string{"filter-cali-fw-map", "filter-cali-tw-map"}
var c15nIfaces = []string{"cali1", "cali2", "cali3"}

// Base chains that get hook rules in this harness (all 14 must exist regardless).
var c15nHookChains = []string{"filter-INPUT", "filter-FORWARD", "filter-OUTPUT", "nat-PREROUTING", "nat-POSTROUTING", "raw-PREROUTING", "mangle-POSTROUTING"}

// The base chains table.go documents (name -> hook).
var c15nBaseChains = map[string]string{
	"filter-INPUT": "input", "filter-FORWARD": "forward", "filter-OUTPUT": "output",
	"nat-PREROUTING": "prerouting", "nat-INPUT": "input", "nat-OUTPUT": "output", "nat-POSTROUTING": "postrouting",
	"mangle-PREROUTING": "prerouting", "mangle-INPUT": "input", "mangle-FORWARD": "forward", "mangle-OUTPUT": "output", "mangle-POSTROUTING": "postrouting",
	"raw-PREROUTING": "prerouting", "raw-OUTPUT": "output",
}

var c15nOwnNameRe = regexp.MustCompile(`^(cali|nat|filter|mangle|raw)-.*`)

func c15nLayerOf(full string) string { return full[:strings.Index(full, "-")] }
func c15nLocal(full string) string   { return full[strings.Index(full, "-")+1:] }

type c15nModel struct {
	chains  map[string][]c15nRuleSpec
	inserts map[string][]c15nRuleSpec
	appends map[string][]c15nRuleSpec
	maps    map[string]map[string]string // map kernel name -> iface -> target chain kernel name ("" = return)
}

func c15nNewModel() *c15nModel {
	return &c15nModel{chains: map[string][]c15nRuleSpec{}, inserts: map[string][]c15nRuleSpec{}, appends: map[string][]c15nRuleSpec{}, maps: map[string]map[string]string{}}
}

func (m *c15nModel) clone() *c15nModel {
	c := c15nNewModel()
	for k, v := range m.chains {
		c.chains[k] = append([]c15nRuleSpec{}, v...)
	}
	for k, v := range m.inserts {
		c.inserts[k] = append([]c15nRuleSpec{}, v...)
	}
	for k, v := range m.appends {
		c.appends[k] = append([]c15nRuleSpec{}, v...)
	}
	for k, v := range m.maps {
		mm := map[string]string{}
		for a, b := range v {
			mm[a] = b
		}
		c.maps[k] = mm
	}
	return c
}

func (m *c15nModel) roots() []string {
	var out []string
	for _, rs := range m.inserts {
		for _, r := range rs {
			if r.Target != "" {
				out = append(out, r.Target)
			}
		}
	}
	for _, rs := range m.appends {
		for _, r := range rs {
			if r.Target != "" {
				out = append(out, r.Target)
			}
		}
	}
	for _, mm := range m.maps {
		for _, tgt := range mm {
			if tgt != "" {
				out = append(out, tgt)
			}
		}
	}
	return out
}

// reachable: the chains Felix is documented to program (referenced, directly or not, from a base
// chain or a verdict map) — including referenced names that are not defined.
func (m *c15nModel) referencedSet() map[string]bool {
	seen := map[string]bool{}
	var visit func(c string)
	visit = func(c string) {
		if seen[c] {
			return
		}
		seen[c] = true
		for _, r := range m.chains[c] {
			if r.Target != "" {
				visit(r.Target)
			}
		}
	}
	for _, c := range m.roots() {
		visit(c)
	}
	return seen
}

func (m *c15nModel) reachable() map[string]bool {
	out := map[string]bool{}
	for c := range m.referencedSet() {
		if _, ok := m.chains[c]; ok {
			out[c] = true
		}
	}
	return out
}

// referenced: does any part of the desired state mention chain c?
func (m *c15nModel) referenced(c string) bool {
	for _, rs := range m.chains {
		for _, r := range rs {
			if r.Target == c {
				return true
			}
		}
	}
	for _, t := range m.roots() {
		if t == c {
			return true
		}
	}
	return false
}

func (m *c15nModel) mapUsed(name string) bool {
	for _, rs := range m.chains {
		for _, r := range rs {
			if r.Map == name {
				return true
			}
		}
	}
	return false
}

// ---------------------------------------------------------------------------------------------

type c15nT interface {
	Fatalf(format string, args ...any)
}

type c15nH struct {
	t        c15nT
	k        *c15nKernel
	ipv      uint8
	refresh  time.Duration
	features environment.Features
	root     *nftables.NftablesTable
	layers   map[string]generictables.Table
	model    *c15nModel
	render   nftables.NFTRenderer
	setName  string // the IP set's name as the rules layer passes it to the match builder

	foreign    map[string]string
	startDirty bool // Felix's table held something at the start

	// Chains that Felix has marked for (re)programming since its last successful Apply; used only
	// to show that histories reach "queued, no longer wanted, never programmed" (fixed finding
	// c15-nft-unprogrammed-dirty-chain-forces-table-recreate).
	pendingRef map[string]bool
	freshTable bool // the current Table object has not completed a read of the kernel yet

	logStart        int // index into k.log of the first event of the current (or last) Apply
	sinceGoodFaults int
	good            map[string][]string
	goodDesired     map[string]string
	haveGood        bool

	ops        []string
	classes    map[string]bool
	nontrivial bool
	rec        *ev.Recorder
}

func (h *c15nH) buildRule(r c15nRuleSpec, layer string, namespaced bool) generictables.Rule {
	var m generictables.MatchCriteria
	switch r.Match {
	case 0:
		m = nil
	case 1:
		m = nftables.Match()
	case 2:
		m = nftables.Match().Protocol("tcp")
	case 3:
		if h.ipv == 6 {
			m = nftables.Match().SourceNet("fd00:10::/64")
		} else {
			m = nftables.Match().SourceNet("10.0.0.0/24")
		}
	case 4:
		m = nftables.Match().InInterface("cali+")
	case 5:
		m = nftables.Match().MarkSingleBitSet(0x10)
	case 6:
		m = nftables.Match().Protocol("tcp").DestPorts(80, 443)
	case 7:
		m = nftables.Match().ConntrackState("RELATED,ESTABLISHED")
	case 8:
		m = nftables.Match().SourceIPSet(h.setName)
	case 9:
		m = nftables.Match().OutInterface("eth0").NotProtocol("udp")
	}
	name := func(full string) string {
		if namespaced {
			return full
		}
		return c15nLocal(full)
	}
	var a generictables.Action
	switch r.Action {
	case 0:
		a = nftables.AcceptAction{}
	case 1:
		a = nftables.DropAction{}
	case 2:
		a = nftables.ReturnAction{}
	case 3:
		a = nftables.JumpAction{Target: name(r.Target)}
	case 4:
		a = nftables.GotoAction{Target: name(r.Target)}
	case 5:
		a = nftables.SetMarkAction{Mark: 0x10}
	case 6:
		a = nil
	case 7:
		m = nftables.Match().InInterfaceVMAP(c15nLocal(r.Map))
		a = nil
	}
	if namespaced && m != nil {
		m = m.(nftables.NFTMatchCriteria).SetLayer(layer)
	}
	rule := generictables.Rule{Match: m, Action: a}
	if r.Comment != "" {
		rule.Comment = []string{r.Comment}
	}
	return rule
}

func (h *c15nH) buildRules(rs []c15nRuleSpec, layer string, namespaced bool) []generictables.Rule {
	out := make([]generictables.Rule, 0, len(rs))
	for _, r := range rs {
		out = append(out, h.buildRule(r, layer, namespaced))
	}
	return out
}

// expectedLines: rule lines (body + hash) the kernel chain `full` must hold for rules rs; hashName
// is the name the hashes are salted with ("" = hashes not compared).
func (h *c15nH) expectedLines(full string, rs []c15nRuleSpec, hashName string) []string {
	rules := h.buildRules(rs, c15nLayerOf(full), true)
	var hashes []string
	if _, isBase := c15nBaseChains[full]; isBase && hashName != "" {
		// what CheckRulesPresent/InsertRulesNow use for the rules inserted into a base chain
		hashes = nftables.CalculateRuleHashes(hashName, rules, &h.features)
	} else if hashName != "" {
		// the renderer's own hashes (CalculateRuleHashes always renders for IPv4)
		hashes = h.render.RuleHashes(&generictables.Chain{Name: hashName, Rules: rules}, &h.features)
	}
	out := []string{}
	for i, r := range rules {
		kr := h.render.Render(full, "", r, &h.features)
		hash := "*"
		if hashes != nil {
			hash = hashes[i]
		}
		out = append(out, kr.Rule+"  ## "+hash)
	}
	return out
}

func (h *c15nH) expectedChains() map[string][]string {
	out := map[string][]string{}
	for c := range h.model.reachable() {
		out[c] = h.expectedLines(c, h.model.chains[c], c)
	}
	return out
}

// expectedBase: inserted rules (hashes are the exported CalculateRuleHashes of the chain, which
// CheckRulesPresent relies on) followed by appended rules (hash only checked for form).
func (h *c15nH) expectedBase(bc string) []string {
	out := h.expectedLines(bc, h.model.inserts[bc], bc)
	return append(out, h.expectedLines(bc, h.model.appends[bc], "")...)
}

func (h *c15nH) desiredKeys() map[string]string {
	out := map[string]string{}
	for c, lines := range h.expectedChains() {
		out[c] = strings.Join(lines, "\n")
	}
	for bc := range c15nBaseChains {
		out[bc] = strings.Join(h.expectedBase(bc), "\n")
	}
	return out
}

func c15nLinesEqual(got, want []string) bool {
	if len(got) != len(want) {
		return false
	}
	for i := range got {
		if got[i] == want[i] {
			continue
		}
		// "*" = any well-formed hash
		wb, wh, _ := strings.Cut(want[i], "  ## ")
		gb, gh, _ := strings.Cut(got[i], "  ## ")
		if wh == "*" && wb == gb && len(gh) == generictables.HashLength && !strings.HasPrefix(gh, "?") {
			continue
		}
		return false
	}
	return true
}

func (h *c15nH) trace() string {
	// One header per transaction since the start of the current Apply (all lines for the last
	// three of them and for every one that failed on its own); edits by other programs in full.
	evs := h.k.log[h.logStart:]
	lastTx := map[int]bool{}
	seen := 0
	for i := len(evs) - 1; i >= 0 && seen < 3; i-- {
		if evs[i].Tx != 0 && !lastTx[evs[i].Tx] {
			lastTx[evs[i].Tx] = true
			seen++
		}
	}
	var b strings.Builder
	prev := -1
	for _, e := range evs {
		if e.Tx == 0 {
			fmt.Fprintf(&b, "\n    other-program: %q", e.Line)
			prev = 0
			continue
		}
		if e.Tx != prev {
			fmt.Fprintf(&b, "\n    tx#%d committed=%v", e.Tx, e.Committed)
			if e.Err != "" {
				fmt.Fprintf(&b, " ERR(%s) %s", e.Cause, e.Err)
			}
			prev = e.Tx
		}
		if lastTx[e.Tx] || e.Cause == "natural" || e.Cause == "in-use" {
			fmt.Fprintf(&b, "\n        %q", e.Line)
		}
	}
	return b.String()
}

func (h *c15nH) fail(format string, a ...any) {
	h.t.Fatalf("%s\nconfig: ipVersion=%d refresh=%v\nops=%v\nFelix's table now:\n%s\nlast kernel events:%s",
		fmt.Sprintf(format, a...), h.ipv, h.refresh, h.ops, h.k.dump(), h.trace())
}

func (h *c15nH) checkForeign(when string) {
	now := h.k.foreignSnap()
	for _, name := range c15nSortedKeys(h.foreign) {
		got, ok := now[name]
		if !ok {
			h.fail("%s: table %s, which Felix does not own, was deleted", when, name)
		}
		if got != h.foreign[name] {
			h.fail("%s: table %s, which Felix does not own, changed:\n now:\n%s\n was:\n%s", when, name, got, h.foreign[name])
		}
	}
	for _, name := range c15nSortedKeys(now) {
		if _, ok := h.foreign[name]; !ok {
			h.fail("%s: unexpected table %s appeared", when, name)
		}
	}
	for _, c := range h.k.dpCalls {
		want := "ip/" + c15nTableName
		if h.ipv == 6 {
			want = "ip6/" + c15nTableName
		}
		if c != want {
			h.fail("%s: Table asked for a dataplane handle on %s, want %s", when, c, want)
		}
	}
}

// checkExact: oracle parts 1-3.
func (h *c15nH) checkExact(when string) {
	t := h.k.felixTable()
	if t == nil {
		h.fail("%s: table %s does not exist", when, c15nTableName)
	}
	snap := c15nChainSnap(t)
	want := h.expectedChains()
	for _, c := range c15nSortedKeys(want) {
		got, ok := snap[c]
		if !ok {
			h.fail("%s: desired Felix chain %s is missing", when, c)
		}
		if !c15nLinesEqual(got, want[c]) {
			h.fail("%s: Felix chain %s differs from the desired rules:\n kernel:  %q\n desired: %q", when, c, got, want[c])
		}
	}
	for _, bc := range c15nSortedKeys(c15nBaseChains) {
		ch, ok := t.Chains[bc]
		if !ok {
			h.fail("%s: base chain %s is missing", when, bc)
		}
		if ch.Hook == nil || string(*ch.Hook) != c15nBaseChains[bc] || ch.Type == nil || ch.Priority == nil {
			h.fail("%s: base chain %s is not hooked at %s (type=%s hook=%s priority=%s)", when, bc, c15nBaseChains[bc], c15nStr(ch.Type), c15nStr(ch.Hook), c15nStr(ch.Priority))
		}
		if exp := h.expectedBase(bc); !c15nLinesEqual(snap[bc], exp) {
			h.fail("%s: base chain %s should hold the inserted rules followed by the appended rules:\n kernel:  %q\n desired: %q", when, bc, snap[bc], exp)
		}
	}
	for _, c := range c15nSortedKeys(snap) {
		if _, ok := want[c]; ok {
			continue
		}
		if _, ok := c15nBaseChains[c]; ok {
			continue
		}
		if !c15nOwnNameRe.MatchString(c) {
			// Felix owns the whole table and may remove this; the statement does not require it.
			h.classes["foreign-named-chain-left-in-felix-table"] = true
			continue
		}
		rs, defined := h.model.chains[c]
		if !defined {
			h.fail("%s: chain %s carries a Felix chain name but is not part of the desired state; it should have been removed", when, c)
		}
		// Defined but unreferenced: need not be programmed (documented optimisation); if it is
		// there it must at least be right.
		h.classes["unreferenced-chain-programmed"] = true
		if exp := h.expectedLines(c, rs, c); !c15nLinesEqual(snap[c], exp) {
			h.fail("%s: Felix chain %s (defined, not referenced) differs from its desired rules:\n kernel:  %q\n desired: %q", when, c, snap[c], exp)
		}
	}
}

func (h *c15nH) newTable() {
	opts := nftables.TableOptions{
		NewDataplane:           h.k.newDataplane,
		RefreshInterval:        h.refresh,
		SleepOverride:          h.k.Sleep,
		NowOverride:            h.k.Now,
		ListInterfacesOverride: func() ([]string, error) { return []string{"lo", "eth0"}, nil },
		OpRecorder:             c15nNoopRecorder{},
	}
	h.root = nftables.NewTable(c15nTableName, h.ipv, c15nHashPrefix, &environment.FakeFeatureDetector{Features: h.features}, opts, true)
	h.layers = map[string]generictables.Table{}
	for _, l := range []string{"filter", "nat", "raw", "mangle"} {
		h.layers[l] = nftables.NewTableLayer(l, h.root)
	}
	// The IP set the rules may refer to is known to the IP sets layer before any chain uses it.
	h.root.AddOrReplaceIPSet(ipsets.IPSetMetadata{SetID: "s:abc", Type: ipsets.IPSetTypeHashIP, MaxSize: 1024}, nil)
	h.pendingRef = map[string]bool{}
	h.freshTable = true
}

func (h *c15nH) mapMembers(name string) map[string][]string {
	out := map[string][]string{}
	for ifc, tgt := range h.model.maps[name] {
		if tgt == "" {
			out[ifc] = []string{"return"}
		} else {
			out[ifc] = []string{"goto " + c15nLocal(tgt)}
		}
	}
	return out
}

func (h *c15nH) sendMap(name string) {
	l := h.layers[c15nLayerOf(name)].(nftables.MapsDataplane)
	l.AddOrReplaceMap(nftables.MapMetadata{Name: c15nLocal(name), Type: nftables.MapTypeInterfaceMatch}, h.mapMembers(name))
}

func (h *c15nH) sendChain(full string, plural bool) {
	l := c15nLayerOf(full)
	ch := &generictables.Chain{Name: c15nLocal(full), Rules: h.buildRules(h.model.chains[full], l, false)}
	if plural {
		h.layers[l].UpdateChains([]*generictables.Chain{ch})
	} else {
		h.layers[l].UpdateChain(ch)
	}
}

// sendModel replays the model's desired state into the (new) Table.
func (h *c15nH) sendModel() {
	for _, mn := range c15nSortedKeys(h.model.maps) {
		h.sendMap(mn)
	}
	for _, c := range c15nSortedKeys(h.model.chains) {
		h.sendChain(c, false)
	}
	for _, bc := range c15nHookChains {
		l := c15nLayerOf(bc)
		if rs, ok := h.model.inserts[bc]; ok {
			h.layers[l].InsertOrAppendRules(c15nLocal(bc), h.buildRules(rs, l, false))
		}
		if rs, ok := h.model.appends[bc]; ok {
			h.layers[l].AppendRules(c15nLocal(bc), h.buildRules(rs, l, false))
		}
	}
	h.notePending()
}

// notePending records the chains that are referenced right now (Felix marks a chain for
// programming as soon as it becomes referenced or is updated while referenced).
func (h *c15nH) notePending() {
	for c := range h.model.referencedSet() {
		h.pendingRef[c] = true
	}
}

// phantoms: chains Felix has queued that are no longer wanted and do not exist in the kernel.
func (h *c15nH) phantoms() []string {
	var out []string
	reach := h.model.reachable()
	snap := c15nChainSnap(h.k.felixTable())
	for _, c := range c15nSortedKeys(h.pendingRef) {
		if _, inKernel := snap[c]; !reach[c] && !inKernel {
			out = append(out, c)
		}
	}
	return out
}

func c15nPanicMsg(pv any) string {
	if e, ok := pv.(*logrus.Entry); ok {
		return e.Message
	}
	return fmt.Sprint(pv)
}

// apply runs Apply(); returns false if Felix gave up (panicked) legitimately.
func (h *c15nH) apply(label string) bool {
	h.ops = append(h.ops, label)
	k := h.k
	pre := c15nChainSnap(k.felixTable())
	desired := h.desiredKeys()
	mustNotTouch := map[string]bool{}
	if h.haveGood {
		for c, key := range desired {
			gk, ok := h.goodDesired[c]
			if !ok || gk != key {
				continue
			}
			gr, ok1 := h.good[c]
			pr, ok2 := pre[c]
			if ok1 && ok2 && len(pr) > 0 && strings.Join(gr, "\n") == strings.Join(pr, "\n") {
				mustNotTouch[c] = true
			}
		}
	}
	extDirtyAtStart := k.extDirty || (k.mapViewStale && k.instanceReads > 0)
	freshAtStart := h.freshTable
	readsAtStart := k.reads
	refreshDue := h.refresh > 0 && k.now.Sub(k.lastReadAt) > h.refresh
	if len(h.phantoms()) > 0 {
		h.classes["apply-with-queued-chain-absent-from-kernel"] = true
	}
	k.injRunFired, k.injAfterCommit, k.natRunFailed, k.injListRulesFired, k.injListFired, k.raceFired, k.runsOK = 0, 0, 0, 0, 0, 0, 0
	k.freshListAllFails = 0
	logStart := len(k.log)
	h.logStart = logStart
	var pv any
	func() {
		defer func() { pv = recover() }()
		h.root.Apply()
	}()
	if len(k.gaps) > 0 {
		h.t.Fatalf("HARNESS-GAP: cannot interpret transaction lines: %q", k.gaps)
	}
	when := "after Apply (" + label + ")"
	h.checkForeign(when)

	// Failures of Felix's own transactions are attributed to the environment when another
	// program changed the table under Felix, a listing failed, or a transaction was committed
	// although nft reported failure (Felix's view of the table is then wrong through no fault of
	// its own).
	envTrouble := extDirtyAtStart || k.raceFired > 0 || k.injListFired > 0 || k.injAfterCommit > 0
	// A ListAll failure that hits a Table which has never read the kernel, or which has just seen a
	// transaction fail, makes that attempt of the retry loop fail (Felix must not write from an
	// unreliable view); one that hits a Table with a trusted view does not.
	envFailures := k.injRunFired + k.freshListAllFails
	if k.freshListAllFails > 0 {
		h.classes["failed-listing-counted-as-failed-attempt"] = true
	}
	if envTrouble {
		envFailures += k.natRunFailed
	}
	if k.natRunFailed > 0 {
		if envTrouble || k.injRunFired > 0 {
			h.classes["natural-tx-failure-after-env-trouble"] = true
		} else {
			h.classes["natural-tx-failure-unprovoked"] = true
			if os.Getenv("C15N_DEBUG_UNPROVOKED") != "" { // development aid: show such a history
				defer h.fail("debug: a transaction failed on its own without any interference")
			}
		}
	}
	// Part 5: unchanged chains not rewritten.
	for _, e := range k.log[logStart:] {
		if e.Tx == 0 && e.Committed {
			if e.Kind == "table" {
				mustNotTouch = map[string]bool{}
			}
			delete(mustNotTouch, e.Name) // edited by a racing program during this Apply
		}
	}
	checkNoRewrite := func() {
		if envFailures >= 6 {
			// Documented fallback: after repeated programming failures the table is rebuilt.
			h.classes["recreate-fallback-allowed"] = true
			return
		}
		for _, e := range k.log[logStart:] {
			if e.Tx == 0 || !e.Committed {
				continue
			}
			if e.Kind == "table" && e.Verb != "add" && len(mustNotTouch) > 0 {
				h.fail("Apply deleted and rebuilt the whole table (line %q) although only %d transactions failed for reasons outside Felix (%d failed in all); chains %v were unchanged in the desired state and in the kernel since the last verified Apply and must not be rewritten",
					e.Line, envFailures, k.injRunFired+k.natRunFailed, c15nSortedKeys(mustNotTouch))
			}
			touch := (e.Kind == "chain" && e.Verb != "add") || e.Kind == "rule"
			if touch && mustNotTouch[e.Name] {
				h.fail("Apply rewrote chain %s (line %q) although neither its desired content nor its kernel content changed since the last verified Apply", e.Name, e.Line)
			}
		}
	}
	if pv != nil {
		msg := c15nPanicMsg(pv)
		switch {
		case strings.Contains(msg, "giving up after retries"):
			// 11 failed transactions make Felix give up; up to 6 of them may be its own reaction to
			// a table that other programs changed under it (after the 6th it rebuilds the table).
			allowedNatural := 0
			if envTrouble {
				allowedNatural = 6
			}
			if k.injRunFired+k.freshListAllFails+allowedNatural < 11 {
				h.fail("Apply gave up (%s) although only %d transaction failures and %d listing failures that block writing were injected during the call (%d more failed on their own; another program interfered: %v)", msg, k.injRunFired, k.freshListAllFails, k.natRunFailed, envTrouble)
			}
		case strings.Contains(msg, "command failed after retries"):
			if k.injListRulesFired < 4 {
				h.fail("Apply gave up (%s) although only %d list failures were injected during the call", msg, k.injListRulesFired)
			}
		default:
			panic(pv)
		}
		checkNoRewrite()
		h.classes["gave-up-panic"] = true
		h.sinceGoodFaults += k.injRunFired + k.injListFired + k.raceFired
		h.haveGood = false
		h.newTable()
		h.sendModel()
		h.ops = append(h.ops, "PANIC")
		return false
	}
	if refreshDue && k.injListFired == 0 && k.reads == readsAtStart {
		h.fail("Apply did not re-read the table although the last read was %v ago and RefreshInterval is %v", k.now.Sub(k.lastReadAt), h.refresh)
	}
	if refreshDue {
		h.classes["refresh-timer-due"] = true
	}
	// applyUpdates succeeded: nothing is queued in Felix any more.
	h.pendingRef = map[string]bool{}
	if k.reads > readsAtStart {
		h.freshTable = false
	}
	h.sinceGoodFaults += k.injRunFired + k.injListFired + k.raceFired
	if k.extDirty {
		// Felix legitimately works from a cached view that another program made stale.
		h.classes["apply-with-stale-view"] = true
		checkNoRewrite()
		h.haveGood = false
		return true
	}
	if freshAtStart && h.freshTable {
		h.classes["fresh-table-applied-without-reading"] = true
	}
	h.checkExact(when)
	checkNoRewrite()
	if h.sinceGoodFaults > 0 && (len(h.foreign) > 0 || h.startDirty) {
		h.nontrivial = true
	}
	h.sinceGoodFaults = 0
	h.good = c15nChainSnap(k.felixTable())
	h.goodDesired = desired
	h.haveGood = true
	h.classes["verified-apply"] = true
	if len(mustNotTouch) > 0 && envFailures < 6 {
		h.classes["no-rewrite-checked"] = true
	}
	return true
}

func (h *c15nH) drawRule(t *rapid.T, layer string, selfIdx int, base, forHook bool) c15nRuleSpec {
	r := c15nRuleSpec{Match: rapid.IntRange(0, 9).Draw(t, "match")}
	var targets []string
	for i := range c15nChains {
		if i > selfIdx && c15nChains[i].Layer == layer {
			if _, ok := h.model.chains[c15nFull(i)]; ok {
				targets = append(targets, c15nFull(i))
			}
		}
	}
	var maps []string
	if !base && layer == "filter" {
		for _, mn := range c15nMaps {
			if _, ok := h.model.maps[mn]; ok {
				maps = append(maps, mn)
			}
		}
	}
	wantJump := rapid.IntRange(0, 2).Draw(t, "wantJump") > 0 || forHook
	switch {
	case len(maps) > 0 && rapid.IntRange(0, 4).Draw(t, "vmap") == 0:
		r.Action = 7
		r.Match = 0
		r.Map = rapid.SampledFrom(maps).Draw(t, "map")
	case wantJump && len(targets) > 0:
		r.Action = 3
		if !forHook && rapid.IntRange(0, 3).Draw(t, "goto") == 0 {
			r.Action = 4
		}
		r.Target = rapid.SampledFrom(targets).Draw(t, "target")
	default:
		r.Action = rapid.SampledFrom([]int{0, 1, 2, 5, 6}).Draw(t, "action")
	}
	if r.Match == 8 && base {
		r.Match = 2 // base-chain rules of real Felix do not match on IP sets
	}
	r.Comment = rapid.SampledFrom([]string{"", "", "Policy pol1 ingress", "weird \"quoted\" $comment; x"}).Draw(t, "comment")
	return r
}

func c15nForeignTable(fam knftables.Family, name string, chains map[string][][2]string, base map[string]knftables.BaseChainHook) *knftables.FakeTable {
	t := &knftables.FakeTable{
		Table:      knftables.Table{Family: fam, Name: name},
		Flowtables: map[string]*knftables.FakeFlowtable{},
		Chains:     map[string]*knftables.FakeChain{},
		Sets:       map[string]*knftables.FakeSet{},
		Maps:       map[string]*knftables.FakeMap{},
		Counters:   map[string]*knftables.FakeCounter{},
	}
	for cn, rules := range chains {
		ch := &knftables.FakeChain{Chain: knftables.Chain{Family: fam, Table: name, Name: cn}}
		if hk, ok := base[cn]; ok {
			ch.Hook = knftables.PtrTo(hk)
			ch.Type = knftables.PtrTo(knftables.FilterType)
			ch.Priority = knftables.PtrTo(knftables.FilterPriority)
		}
		for _, r := range rules {
			kr := &knftables.Rule{Family: fam, Table: name, Chain: cn, Rule: r[0]}
			if r[1] != "" {
				kr.Comment = knftables.PtrTo(r[1])
			}
			ch.Rules = append(ch.Rules, kr)
		}
		t.Chains[cn] = ch
	}
	return t
}

func TestVerifC15NftablesSync(t *testing.T) {
	ev.Quiet()
	// table.go's failure path shells out to the real `nft list table` for diagnostics; keep the
	// host's nft binary out of reach so that path fails fast and never looks at the host.
	oldPath := os.Getenv("PATH")
	_ = os.Setenv("PATH", "/nonexistent-c15n")
	defer func() { _ = os.Setenv("PATH", oldPath) }()

	rec := ev.New("C15", "nftables",
		"rapid state machine over felix/nftables.NftablesTable (driven through the filter/nat/raw/mangle TableLayer facades, IPv4 or IPv6) on knftables.Fake wrapped with a change log, fault injection and the kernel's in-use check: starting kernel with other tables of both families (kube-proxy, iptables-nft 'filter' with cali- chains, the other family's calico table, firewalld) and, in Felix's table, leftovers of an earlier Felix (stale chains jumping to each other, base chains with old hook rules or missing, same-named chains with other content, stale verdict maps pointing at stale chains, foreign-named chains), optionally the state a previous real Table programmed; ops UpdateChain(s)/RemoveChainByName/RemoveChains/InsertOrAppendRules/AppendRules/AddOrReplaceMap/RemoveMap, Apply, clock advance, busy periods (a tampered chain followed by unrelated update+Apply steps spaced below RefreshInterval whose total exceeds it), edits by another program (delete/insert/reorder/re-comment a rule, flush/delete/create a chain, map element edits, delete the table; between ops or racing between Felix's read and write), injected transaction failures (incl. fail n times, killed after commit) and list failures, InvalidateDataplaneCache, restart. Non-trivial = a verified Apply that follows >=1 injected failure or foreign edit, from a start with other tables or leftovers; distinct = op-kind sequence",
		"desired state is consistent whenever handed to the Table (every referenced chain and map is defined, no jump loops, a chain is removed only when nothing refers to it), as the Table API requires",
		"other programs do not forge Felix's rule-hash comments (that is how Felix recognises that a chain is unchanged)",
		"rule text is opaque to the kernel model except for jump/goto targets and @set/@map references; a transaction that would leave such a reference dangling is refused atomically",
		"Felix's renderer is trusted for the text of a single rule (C08's subject); user comments are not compared (they are not part of the rule hash)")
	defer rec.Write()
	rapid.Check(t, func(t *rapid.T) {
		h := &c15nH{t: t, classes: map[string]bool{}, model: c15nNewModel(), rec: rec}
		h.ipv = rapid.SampledFrom([]uint8{4, 4, 4, 6}).Draw(t, "ipVersion")
		family, otherFamily := knftables.IPv4Family, knftables.IPv6Family
		h.setName = "cali40s:abc"
		if h.ipv == 6 {
			family, otherFamily = knftables.IPv6Family, knftables.IPv4Family
			h.setName = "cali60s:abc"
		}
		h.refresh = rapid.SampledFrom([]time.Duration{0, 10 * time.Second, 90 * time.Second}).Draw(t, "refreshInterval")
		h.features = environment.Features{}
		h.render = nftables.NewNFTRenderer(c15nHashPrefix, h.ipv)
		h.k = c15nNewKernel(family)
		k := h.k
		h.classes[fmt.Sprintf("ipv%d", h.ipv)] = true

		// ---- other programs' tables ---------------------------------------------------------
		k.fake.Tables = map[knftables.Family]map[string]*knftables.FakeTable{}
		addForeign := func(ft *knftables.FakeTable) {
			if k.fake.Tables[ft.Family] == nil {
				k.fake.Tables[ft.Family] = map[string]*knftables.FakeTable{}
			}
			k.fake.Tables[ft.Family][ft.Name] = ft
		}
		if rapid.IntRange(0, 3).Draw(t, "kubeProxyTable") > 0 {
			ft := c15nForeignTable(family, "kube-proxy", map[string][][2]string{
				"filter-forward": {{"ct state new jump services", ""}},
				"services":       {{"ip daddr . meta l4proto . th dport vmap @service-ips", "kube"}, {"counter drop", ""}},
				"cali-lookalike": {{"counter accept", "cali:AAAAAAAAAAAAAAAA;"}},
			}, map[string]knftables.BaseChainHook{"filter-forward": knftables.ForwardHook})
			ft.Sets["cluster-ips"] = &knftables.FakeSet{Set: knftables.Set{Name: "cluster-ips", Type: "ipv4_addr"}, Elements: []*knftables.Element{{Set: "cluster-ips", Key: []string{"10.96.0.1"}}}}
			ft.Maps["service-ips"] = &knftables.FakeMap{Map: knftables.Map{Name: "service-ips", Type: "ipv4_addr . inet_proto . inet_service : verdict"}, Elements: []*knftables.Element{{Map: "service-ips", Key: []string{"10.96.0.1", "tcp", "443"}, Value: []string{"goto services"}}}}
			addForeign(ft)
			h.classes["start-foreign-kube-proxy"] = true
		}
		if rapid.Bool().Draw(t, "iptablesNftTable") {
			addForeign(c15nForeignTable(family, "filter", map[string][][2]string{
				"FORWARD":      {{"counter jump cali-FORWARD", "cali:wUHhoiAYhphO9Mso"}, {"counter jump KUBE-FORWARD", ""}},
				"cali-FORWARD": {{"counter accept", "cali:S93hcgKJrXEqnTfs"}},
				"KUBE-FORWARD": {{"ct state invalid drop", ""}},
			}, map[string]knftables.BaseChainHook{"FORWARD": knftables.ForwardHook}))
			h.classes["start-foreign-iptables-nft"] = true
		}
		if rapid.Bool().Draw(t, "otherFamilyCalico") {
			addForeign(c15nForeignTable(otherFamily, c15nTableName, map[string][][2]string{
				"filter-FORWARD":      {{"counter jump filter-cali-FORWARD", "cali:0123456789abcdef;"}},
				"filter-cali-FORWARD": {{"counter accept", "cali:fedcba9876543210;"}},
				"filter-cali-stale1":  {{"counter drop", "cali:STALEotherfamily;"}},
			}, map[string]knftables.BaseChainHook{"filter-FORWARD": knftables.ForwardHook}))
			h.classes["start-foreign-other-family-calico"] = true
		}
		if rapid.IntRange(0, 3).Draw(t, "firewalld") == 0 {
			addForeign(c15nForeignTable(knftables.InetFamily, "firewalld", map[string][][2]string{
				"filter_INPUT": {{"ct state established,related accept", ""}, {"reject with icmpx admin-prohibited", ""}},
			}, map[string]knftables.BaseChainHook{"filter_INPUT": knftables.InputHook}))
		}
		h.foreign = k.foreignSnap()

		// ---- leftovers in Felix's own table -------------------------------------------------
		startKind := rapid.SampledFrom([]string{"absent", "empty", "leftovers", "leftovers", "leftovers"}).Draw(t, "felixTableAtStart")
		h.classes["start-table-"+startKind] = true
		if startKind != "absent" {
			staleChains := []string{}
			tx := k.fake.NewTransaction()
			tx.Add(&knftables.Table{})
			if startKind == "leftovers" {
				h.startDirty = true
				for _, sc := range []string{"filter-cali-stale1", "filter-cali-tw-gone", "nat-cali-stale2", "raw-cali-old", "cali-unlayered", "OTHER-APP"} {
					if rapid.IntRange(0, 2).Draw(t, "stale:"+sc) == 0 {
						tx.Add(&knftables.Chain{Name: sc})
						staleChains = append(staleChains, sc)
						h.classes["start-stale-chain"] = true
					}
				}
				for i, sc := range staleChains {
					n := rapid.IntRange(0, 2).Draw(t, "staleRules")
					for j := 0; j < n; j++ {
						r := &knftables.Rule{Chain: sc, Rule: "counter accept", Comment: knftables.PtrTo(fmt.Sprintf("cali:STALEhash%02d%02dxxxx;", i, j))}
						if j == 1 && i+1 < len(staleChains) {
							r.Rule = "counter jump " + staleChains[i+1] // stale chains referencing each other
						}
						if rapid.IntRange(0, 5).Draw(t, "noComment") == 0 {
							r.Comment = nil
						}
						tx.Add(r)
					}
				}
				// Chains that carry the names of chains this Felix may want, with other content.
				for i := range c15nChains {
					if rapid.IntRange(0, 3).Draw(t, "sameName:"+c15nFull(i)) == 0 {
						tx.Add(&knftables.Chain{Name: c15nFull(i)})
						tx.Add(&knftables.Rule{Chain: c15nFull(i), Rule: "counter accept", Comment: knftables.PtrTo(fmt.Sprintf("cali:OLDcontent%05d;", i))})
						h.classes["start-same-name-other-content"] = true
					}
				}
				// Base chains of the earlier Felix: some missing, some with old hook rules.
				for _, bc := range c15nSortedKeys(c15nBaseChains) {
					switch rapid.IntRange(0, 3).Draw(t, "base:"+bc) {
					case 0: // missing
						h.classes["start-base-chain-missing"] = true
					case 1: // present, empty, properly hooked
						hk := knftables.BaseChainHook(c15nBaseChains[bc])
						tx.Add(&knftables.Chain{Name: bc, Hook: &hk, Type: knftables.PtrTo(knftables.FilterType), Priority: knftables.PtrTo(knftables.FilterPriority)})
					default: // present with old hook rules
						hk := knftables.BaseChainHook(c15nBaseChains[bc])
						tx.Add(&knftables.Chain{Name: bc, Hook: &hk, Type: knftables.PtrTo(knftables.FilterType), Priority: knftables.PtrTo(knftables.FilterPriority)})
						if len(staleChains) > 0 {
							tx.Add(&knftables.Rule{Chain: bc, Rule: "counter jump " + staleChains[0], Comment: knftables.PtrTo("cali:OLDHOOKxxxxxxxxx;")})
						}
						tx.Add(&knftables.Rule{Chain: bc, Rule: "meta mark & 0x10 == 0x10 counter accept", Comment: knftables.PtrTo("cali:MISCrulexxxxxxxx; old")})
						h.classes["start-stale-hook-rules"] = true
					}
				}
				if rapid.Bool().Draw(t, "staleMap") {
					tx.Add(&knftables.Map{Name: "filter-cali-oldmap", Type: "ifname : verdict"})
					if len(staleChains) > 0 {
						tx.Add(&knftables.Element{Map: "filter-cali-oldmap", Key: []string{"caliold"}, Value: []string{"goto " + staleChains[len(staleChains)-1]}})
					}
					h.classes["start-stale-map"] = true
				}
				if rapid.Bool().Draw(t, "currentMapStaleMembers") {
					tx.Add(&knftables.Map{Name: c15nMaps[0], Type: "ifname : verdict"})
					tx.Add(&knftables.Element{Map: c15nMaps[0], Key: []string{"cali9"}, Value: []string{"return"}})
					if len(staleChains) > 0 {
						tx.Add(&knftables.Element{Map: c15nMaps[0], Key: []string{"cali1"}, Value: []string{"goto " + staleChains[0]}})
					}
					h.classes["start-stale-map"] = true
				}
				if rapid.Bool().Draw(t, "staleSet") {
					tx.Add(&knftables.Set{Name: "cali40old", Type: "ipv4_addr"})
				}
			}
			if _, err := k.commit(tx); err != nil {
				t.Fatalf("HARNESS-GAP: cannot build the starting table: %v\n%s", err, tx.String())
			}
		}

		// Optionally a previous (real) Felix programmed some state, left as is or forgotten.
		if rapid.IntRange(0, 9).Draw(t, "previousFelix") < 5 {
			h.classes["start-previous-felix"] = true
			h.startDirty = true
			h.newTable()
			if rapid.Bool().Draw(t, "prevMap") {
				h.model.maps[c15nMaps[0]] = map[string]string{}
			}
			nch := rapid.IntRange(1, 5).Draw(t, "prevChains")
			for i := len(c15nChains) - 1; i >= 0 && nch > 0; i-- {
				if rapid.Bool().Draw(t, "prevChain") {
					continue
				}
				nch--
				n := rapid.IntRange(0, 3).Draw(t, "prevLen")
				rs := []c15nRuleSpec{}
				for j := 0; j < n; j++ {
					rs = append(rs, h.drawRule(t, c15nChains[i].Layer, i, false, false))
				}
				h.model.chains[c15nFull(i)] = rs
			}
			if mm, ok := h.model.maps[c15nMaps[0]]; ok {
				for _, c := range []string{"filter-cali-fw-wl1", "filter-cali-tw-wl1"} {
					if _, def := h.model.chains[c]; def {
						mm["cali1"] = c
					}
				}
			}
			for _, bc := range c15nHookChains {
				if rapid.Bool().Draw(t, "prevHook:"+bc) {
					h.model.inserts[bc] = []c15nRuleSpec{h.drawRule(t, c15nLayerOf(bc), -1, true, true)}
				}
			}
			h.sendModel()
			func() {
				defer func() {
					if pv := recover(); pv != nil {
						t.Fatalf("the previous Felix could not program its state from the starting table: %s\n%s\n%s", c15nPanicMsg(pv), k.dump(), h.trace())
					}
				}()
				h.root.Apply()
			}()
			if rapid.Bool().Draw(t, "forgetPrevious") {
				h.model = c15nNewModel()
			}
		}
		k.log = nil
		k.dpCalls = nil
		k.extDirty = false
		h.sinceGoodFaults = 0
		h.newTable()
		h.sendModel()

		chainsInKernel := func() []string {
			if k.felixTable() == nil {
				return nil
			}
			return c15nSortedKeys(k.felixTable().Chains)
		}
		type edit struct {
			class string
			build func(tx *knftables.Transaction)
		}
		// pickEdit builds one edit by another program against the current kernel.
		pickEdit := func(t *rapid.T) edit {
			ft := k.felixTable()
			kind := rapid.IntRange(0, 11).Draw(t, "editKind")
			cs := chainsInKernel()
			if ft == nil || len(cs) == 0 {
				return edit{"ext-create-table-and-chain", func(tx *knftables.Transaction) {
					tx.Add(&knftables.Table{})
					tx.Add(&knftables.Chain{Name: "filter-cali-intruder"})
				}}
			}
			var withRules []string
			for _, c := range cs {
				if len(ft.Chains[c].Rules) > 0 {
					withRules = append(withRules, c)
				}
			}
			if len(withRules) > 0 && rapid.IntRange(0, 3).Draw(t, "preferNonEmpty") > 0 {
				cs = withRules
			}
			c := rapid.SampledFrom(cs).Draw(t, "chain")
			rules := ft.Chains[c].Rules
			switch {
			case kind == 0 && len(rules) > 0:
				i := rapid.IntRange(0, len(rules)-1).Draw(t, "ruleIdx")
				hd := *rules[i].Handle
				return edit{"ext-delete-rule", func(tx *knftables.Transaction) { tx.Delete(&knftables.Rule{Chain: c, Handle: &hd}) }}
			case kind == 1:
				pos := rapid.IntRange(0, len(rules)).Draw(t, "pos")
				cm := rapid.SampledFrom([]*string{nil, nil, knftables.PtrTo("added by admin")}).Draw(t, "comment")
				return edit{"ext-insert-rule", func(tx *knftables.Transaction) {
					r := &knftables.Rule{Chain: c, Rule: "ip saddr 10.77.0.0/16 counter drop", Comment: cm}
					if pos < len(rules) {
						r.Index = knftables.PtrTo(pos)
						tx.Insert(r)
					} else {
						tx.Add(r)
					}
				}}
			case kind == 2 && len(rules) > 0:
				return edit{"ext-flush-chain", func(tx *knftables.Transaction) { tx.Flush(&knftables.Chain{Name: c}) }}
			case kind == 3 && len(rules) > 1:
				last := rules[len(rules)-1]
				hd := *last.Handle
				return edit{"ext-reorder-chain", func(tx *knftables.Transaction) {
					tx.Delete(&knftables.Rule{Chain: c, Handle: &hd})
					tx.Insert(&knftables.Rule{Chain: c, Rule: last.Rule, Comment: last.Comment})
				}}
			case kind == 4:
				return edit{"ext-delete-chain", func(tx *knftables.Transaction) {
					tx.Flush(&knftables.Chain{Name: c})
					tx.Delete(&knftables.Chain{Name: c})
				}}
			case kind == 5 && len(rules) > 0:
				i := rapid.IntRange(0, len(rules)-1).Draw(t, "ruleIdx")
				hd := *rules[i].Handle
				return edit{"ext-stale-hash", func(tx *knftables.Transaction) {
					tx.Replace(&knftables.Rule{Chain: c, Handle: &hd, Rule: rules[i].Rule, Comment: knftables.PtrTo("cali:TAMPEREDhash0000;")})
				}}
			case kind == 6:
				name := rapid.SampledFrom([]string{"filter-cali-intruder", "OTHER-APP", "nat-cali-intruder"}).Draw(t, "newChain")
				return edit{"ext-create-chain", func(tx *knftables.Transaction) {
					tx.Add(&knftables.Chain{Name: name})
					tx.Add(&knftables.Rule{Chain: name, Rule: "counter accept"})
				}}
			case kind == 7:
				ms := c15nSortedKeys(ft.Maps)
				if len(ms) > 0 {
					mn := rapid.SampledFrom(ms).Draw(t, "map")
					els := ft.Maps[mn].Elements
					if len(els) > 0 && rapid.Bool().Draw(t, "delElem") {
						e := els[rapid.IntRange(0, len(els)-1).Draw(t, "elemIdx")]
						return edit{"ext-delete-map-element", func(tx *knftables.Transaction) { tx.Delete(&knftables.Element{Map: mn, Key: e.Key, Value: e.Value}) }}
					}
					val := "goto " + c
					if c15nBaseChains[c] != "" {
						val = "return"
					}
					return edit{"ext-add-map-element", func(tx *knftables.Transaction) {
						tx.Add(&knftables.Element{Map: mn, Key: []string{"ethX"}, Value: []string{val}})
					}}
				}
			case kind == 8:
				return edit{"ext-delete-table", func(tx *knftables.Transaction) { tx.Delete(&knftables.Table{}) }}
			case kind == 9 && len(cs) > 1:
				// a rule in one Felix chain that jumps to another one (keeps it "in use")
				c2 := rapid.SampledFrom(cs).Draw(t, "jumpTo")
				if c2 != c && c15nBaseChains[c2] == "" {
					return edit{"ext-insert-jump-rule", func(tx *knftables.Transaction) {
						tx.Add(&knftables.Rule{Chain: c, Rule: "counter jump " + c2})
					}}
				}
			}
			return edit{"ext-append-rule", func(tx *knftables.Transaction) {
				tx.Add(&knftables.Rule{Chain: c, Rule: "ip saddr 10.88.0.0/16 counter accept"})
			}}
		}

		t.Repeat(map[string]func(*rapid.T){
			"updateChain": func(t *rapid.T) {
				i := rapid.IntRange(0, len(c15nChains)-1).Draw(t, "chainIdx")
				c := c15nFull(i)
				n := rapid.IntRange(0, 4).Draw(t, "len")
				rs := []c15nRuleSpec{}
				if old, ok := h.model.chains[c]; ok && len(old) > 0 && rapid.Bool().Draw(t, "tweakOld") {
					keep := rapid.IntRange(0, len(old)).Draw(t, "keep")
					rs = append(rs, old[:keep]...)
				}
				for j := 0; j < n; j++ {
					rs = append(rs, h.drawRule(t, c15nChains[i].Layer, i, false, false))
				}
				next := h.model.clone()
				next.chains[c] = rs
				h.model = next
				h.sendChain(c, rapid.Bool().Draw(t, "plural"))
				h.notePending()
				h.ops = append(h.ops, "U")
			},
			"updateChainSame": func(t *rapid.T) {
				names := c15nSortedKeys(h.model.chains)
				if len(names) == 0 {
					t.Skip("no chains")
				}
				h.sendChain(rapid.SampledFrom(names).Draw(t, "chain"), false)
				h.notePending()
				h.ops = append(h.ops, "u")
			},
			"removeChain": func(t *rapid.T) {
				var cands []string
				for _, c := range c15nSortedKeys(h.model.chains) {
					if !h.model.referenced(c) {
						cands = append(cands, c)
					}
				}
				if len(cands) == 0 {
					t.Skip("no unreferenced chain")
				}
				c := rapid.SampledFrom(cands).Draw(t, "chain")
				next := h.model.clone()
				delete(next.chains, c)
				h.model = next
				l := h.layers[c15nLayerOf(c)]
				if rapid.Bool().Draw(t, "plural") {
					l.RemoveChains([]*generictables.Chain{{Name: c15nLocal(c)}})
				} else {
					l.RemoveChainByName(c15nLocal(c))
				}
				h.ops = append(h.ops, "X")
			},
			"setHooks": func(t *rapid.T) {
				bc := rapid.SampledFrom(c15nHookChains).Draw(t, "baseChain")
				n := rapid.IntRange(0, 2).Draw(t, "n")
				var rs []c15nRuleSpec
				for j := 0; j < n; j++ {
					rs = append(rs, h.drawRule(t, c15nLayerOf(bc), -1, true, rapid.IntRange(0, 3).Draw(t, "jumpHook") > 0))
				}
				next := h.model.clone()
				next.inserts[bc] = rs
				h.model = next
				l := c15nLayerOf(bc)
				h.layers[l].InsertOrAppendRules(c15nLocal(bc), h.buildRules(rs, l, false))
				h.notePending()
				h.ops = append(h.ops, "H")
			},
			"setAppends": func(t *rapid.T) {
				bc := rapid.SampledFrom(c15nHookChains).Draw(t, "baseChain")
				n := rapid.IntRange(0, 1).Draw(t, "n")
				var rs []c15nRuleSpec
				for j := 0; j < n; j++ {
					rs = append(rs, h.drawRule(t, c15nLayerOf(bc), -1, true, rapid.Bool().Draw(t, "jumpHook")))
				}
				next := h.model.clone()
				next.appends[bc] = rs
				h.model = next
				l := c15nLayerOf(bc)
				h.layers[l].AppendRules(c15nLocal(bc), h.buildRules(rs, l, false))
				h.notePending()
				h.classes["append-rules"] = true
				h.ops = append(h.ops, "P")
			},
			"setMap": func(t *rapid.T) {
				mn := rapid.SampledFrom(c15nMaps).Draw(t, "map")
				mm := map[string]string{}
				for _, ifc := range c15nIfaces {
					switch rapid.IntRange(0, 3).Draw(t, "member:"+ifc) {
					case 0:
						mm[ifc] = ""
					case 1, 2:
						var targets []string
						for i := 2; i < len(c15nChains); i++ {
							if _, ok := h.model.chains[c15nFull(i)]; ok && c15nChains[i].Layer == "filter" {
								targets = append(targets, c15nFull(i))
							}
						}
						if len(targets) > 0 {
							mm[ifc] = rapid.SampledFrom(targets).Draw(t, "target")
						}
					}
				}
				next := h.model.clone()
				next.maps[mn] = mm
				h.model = next
				h.sendMap(mn)
				h.notePending()
				h.classes["verdict-map"] = true
				h.ops = append(h.ops, "M")
			},
			"removeMap": func(t *rapid.T) {
				var cands []string
				for _, mn := range c15nSortedKeys(h.model.maps) {
					if !h.model.mapUsed(mn) {
						cands = append(cands, mn)
					}
				}
				if len(cands) == 0 {
					t.Skip("no unused map")
				}
				mn := rapid.SampledFrom(cands).Draw(t, "map")
				next := h.model.clone()
				delete(next.maps, mn)
				h.model = next
				h.layers[c15nLayerOf(mn)].(nftables.MapsDataplane).RemoveMap(c15nLocal(mn))
				h.ops = append(h.ops, "m")
			},
			"apply": func(t *rapid.T) {
				h.apply("A")
			},
			"advanceTime": func(t *rapid.T) {
				d := rapid.SampledFrom([]time.Duration{10 * time.Millisecond, time.Second, 15 * time.Second, 2 * time.Minute, 3 * time.Hour, -3, -2}).Draw(t, "by")
				if d < 0 { // a fraction of the refresh interval
					d = h.refresh / -d
				}
				k.now = k.now.Add(d)
				h.ops = append(h.ops, "t")
			},
			"busyTable": func(t *rapid.T) {
				// Another program tampers with a chain Felix is not updating; Felix then keeps
				// writing unrelated updates at intervals shorter than RefreshInterval whose total
				// exceeds it.  The periodic refresh must still happen (counted from the last
				// complete READ of the table, however many writes lie in between) and repair the
				// tampered chain.
				if h.refresh == 0 {
					t.Skip("no refresh interval")
				}
				const busy = "mangle-POSTROUTING"
				k.runFaults, k.beforeRun = nil, nil
				k.listAllFaults, k.listRulesFaults, k.listElemFaults = 0, 0, 0
				if !h.apply("A") {
					return
				}
				var cands []string
				for _, c := range chainsInKernel() {
					if c != busy {
						cands = append(cands, c)
					}
				}
				if len(cands) == 0 {
					return
				}
				target := rapid.SampledFrom(cands).Draw(t, "tamperedChain")
				if !k.external(func(tx *knftables.Transaction) {
					tx.Add(&knftables.Rule{Chain: target, Rule: "ip saddr 10.99.0.0/16 counter accept"})
				}) {
					return
				}
				h.sinceGoodFaults++
				h.ops = append(h.ops, "B")
				steps := rapid.IntRange(4, 6).Draw(t, "busySteps")
				for i := 0; i < steps; i++ {
					k.now = k.now.Add(h.refresh / 3)
					next := h.model.clone()
					if len(next.appends[busy]) == 0 {
						next.appends[busy] = []c15nRuleSpec{{Match: 2 + i%2, Action: 0}}
					} else {
						next.appends[busy] = nil
					}
					h.model = next
					h.layers["mangle"].AppendRules(c15nLocal(busy), h.buildRules(next.appends[busy], "mangle", false))
					if !h.apply("A") {
						return
					}
				}
				if k.extDirty {
					h.fail("chain %s, tampered with %v ago, was never re-read although Felix applied %d updates spaced %v apart with RefreshInterval %v", target, time.Duration(steps)*(h.refresh/3), steps, h.refresh/3, h.refresh)
				}
				h.classes["busy-table-past-refresh-interval"] = true
			},
			"externalEdit": func(t *rapid.T) {
				e := pickEdit(t)
				if k.external(e.build) {
					h.sinceGoodFaults++
					h.classes[e.class] = true
					h.ops = append(h.ops, "e")
				}
			},
			"raceEdit": func(t *rapid.T) {
				// Another program edits the table between Felix's read and its write.
				e := pickEdit(t)
				k.beforeRun = append(k.beforeRun, func() {
					k.raceFired++
					if k.external(e.build) {
						h.classes["race-"+e.class] = true
					}
				})
				h.ops = append(h.ops, "r")
			},
			"injectRunFault": func(t *rapid.T) {
				n := rapid.SampledFrom([]int{1, 1, 2, 5, 6, 7, 12}).Draw(t, "times")
				kind := rapid.SampledFrom([]string{"fail", "fail", "fail", "fail-after-commit"}).Draw(t, "kind")
				for i := 0; i < n; i++ {
					k.runFaults = append(k.runFaults, kind)
				}
				h.classes["fault-run-"+kind] = true
				h.classes[fmt.Sprintf("fault-run-x%d", n)] = true
				h.ops = append(h.ops, "f")
			},
			"injectListFault": func(t *rapid.T) {
				kind := rapid.SampledFrom([]string{"listall", "listall", "rules", "rules", "elements"}).Draw(t, "kind")
				n := rapid.SampledFrom([]int{1, 1, 2, 3, 5}).Draw(t, "times")
				switch kind {
				case "listall":
					if rapid.IntRange(0, 5).Draw(t, "manyInARow") == 0 {
						n = rapid.SampledFrom([]int{11, 12, 25}).Draw(t, "manyTimes")
						h.classes["fault-list-listall-x11+"] = true
					}
					k.listAllFaults += n
				case "rules":
					k.listRulesFaults += n
				case "elements":
					k.listElemFaults += n
				}
				h.classes["fault-list-"+kind] = true
				h.ops = append(h.ops, "l")
			},
			"invalidateCache": func(t *rapid.T) {
				h.root.InvalidateDataplaneCache("verif")
				h.ops = append(h.ops, "i")
			},
			"restart": func(t *rapid.T) {
				same := rapid.Bool().Draw(t, "sameDesiredState")
				h.newTable()
				if same {
					h.classes["restart-same-desired"] = true
				} else {
					h.model = c15nNewModel()
					h.classes["restart-empty-desired"] = true
				}
				h.sendModel()
				h.ops = append(h.ops, "Z")
			},
			"refreshApply": func(t *rapid.T) {
				// Force Felix to look at the table, then apply: everything must be exact afterwards.
				k.runFaults, k.beforeRun = nil, nil
				k.listAllFaults, k.listRulesFaults, k.listElemFaults = 0, 0, 0
				h.root.InvalidateDataplaneCache("verif")
				if h.apply("C") {
					if k.extDirty {
						h.fail("Apply after InvalidateDataplaneCache returned without reading the table")
					}
					h.classes["refresh-apply"] = true
				}
			},
			"": func(t *rapid.T) {},
		})

		cls := c15nSortedKeys(h.classes)
		key := fmt.Sprintf("v%d", h.ipv) + strings.Join(h.ops, "")
		rec.SizedCase(h.nontrivial, key, len(h.ops), func() any {
			return map[string]any{"ip_version": h.ipv, "ops": strings.Join(h.ops, ""), "classes": cls,
				"other_tables": c15nSortedKeys(h.foreign), "final_felix_table": strings.Split(k.dump(), "\n")}
		}, cls...)
	})
}

// ---------------------------------------------------------------------------------------------
// Deterministic scripts: TestVerifC15NftRegression* are fixed findings kept as regression tests inside the
// unit's normal run.

func c15nScriptH(t *testing.T) *c15nH {
	ev.Quiet()
	oldPath := os.Getenv("PATH")
	_ = os.Setenv("PATH", "/nonexistent-c15n")
	t.Cleanup(func() { _ = os.Setenv("PATH", oldPath) })
	h := &c15nH{t: t, classes: map[string]bool{}, model: c15nNewModel(), rec: ev.New("C15", "nft-known", "scripted")}
	h.ipv = 4
	h.setName = "cali40s:abc"
	h.render = nftables.NewNFTRenderer(c15nHashPrefix, h.ipv)
	h.k = c15nNewKernel(knftables.IPv4Family)
	h.foreign = h.k.foreignSnap()
	h.newTable()
	return h
}

func (h *c15nH) setInserts(bc string, rs []c15nRuleSpec) {
	h.model.inserts[bc] = rs
	l := c15nLayerOf(bc)
	h.layers[l].InsertOrAppendRules(c15nLocal(bc), h.buildRules(rs, l, false))
	h.notePending()
}

func (h *c15nH) setChain(c string, rs []c15nRuleSpec) {
	h.model.chains[c] = rs
	h.sendChain(c, false)
	h.notePending()
}

// A new Felix whose first listing of its table fails transiently must not write on top of what
// an earlier Felix left (before 504cf00 the old "accept" stayed in front of the new "drop", the
// stale chain stayed, and the chain was recorded as in sync): the attempt is retried, and after
// the Apply the table is exact.
func TestVerifC15NftRegressionBlindFirstApply(t *testing.T) {
	h := c15nScriptH(t)
	h.setChain("filter-cali-FORWARD", []c15nRuleSpec{{Match: 3, Action: 0}}) // earlier Felix: accept 10.0.0.0/24
	h.setChain("filter-cali-tw-wl1", []c15nRuleSpec{{Match: 1, Action: 0}})
	h.setInserts("filter-FORWARD", []c15nRuleSpec{{Match: 1, Action: 3, Target: "filter-cali-FORWARD"}})
	h.setInserts("filter-INPUT", []c15nRuleSpec{{Match: 1, Action: 3, Target: "filter-cali-tw-wl1"}})
	h.apply("A")
	// Felix restarts; the policy is now "drop" and the workload is gone.
	h.newTable()
	h.model.chains["filter-cali-FORWARD"] = []c15nRuleSpec{{Match: 3, Action: 1}}
	delete(h.model.chains, "filter-cali-tw-wl1")
	h.model.inserts["filter-INPUT"] = nil
	h.sendModel()
	h.k.listAllFaults = 1
	if !h.apply("A") || !h.classes["verified-apply"] || h.k.extDirty {
		t.Fatalf("expected a verified Apply after one retried listing; classes=%v", h.classes)
	}
	if h.k.freshListAllFails != 1 || h.k.listAllFaults != 0 {
		t.Fatalf("HARNESS-GAP: the injected first-listing failure was not consumed as expected (%d fired, %d left)", h.k.freshListAllFails, h.k.listAllFaults)
	}
	if _, ok := c15nChainSnap(h.k.felixTable())["filter-cali-tw-wl1"]; ok {
		t.Fatalf("stale chain filter-cali-tw-wl1 of the earlier Felix survived")
	}
}

// The transaction that creates a chain is committed but nft reports failure (killed after commit)
// and the reload's ListAll fails: before e30b424 the retry wrote from the pre-transaction view and
// appended the rules a second time.  Now the attempt is retried after a successful re-read.
func TestVerifC15NftRegressionRetryAfterCommittedTx(t *testing.T) {
	h := c15nScriptH(t)
	h.apply("A") // Felix has read the table; the chain does not exist yet
	h.setChain("filter-cali-FORWARD", []c15nRuleSpec{{Match: 3, Action: 1}})
	h.setInserts("filter-FORWARD", []c15nRuleSpec{{Match: 1, Action: 3, Target: "filter-cali-FORWARD"}})
	h.k.runFaults = []string{"fail-after-commit"}
	h.k.listAllFaults = 1
	if !h.apply("A") || !h.classes["verified-apply"] {
		t.Fatalf("expected a verified Apply; classes=%v", h.classes)
	}
	if h.k.injAfterCommit != 1 || h.k.freshListAllFails != 1 {
		t.Fatalf("HARNESS-GAP: injected faults not consumed as scripted (after-commit %d, blocking list failures %d)", h.k.injAfterCommit, h.k.freshListAllFails)
	}
}

// A chain that becomes referenced and stops being referenced before the next Apply (a workload
// that comes and goes within one batch) must not disturb anything: before d0eec79 every
// transaction failed ("flush chain": no such chain) until, after the 6th failure, Felix deleted and
// rebuilt its whole table.
func TestVerifC15NftRegressionPhantomChain(t *testing.T) {
	h := c15nScriptH(t)
	h.setChain("filter-cali-FORWARD", []c15nRuleSpec{{Match: 1, Action: 0}})
	h.setInserts("filter-FORWARD", []c15nRuleSpec{{Match: 1, Action: 3, Target: "filter-cali-FORWARD"}})
	h.apply("A")
	h.setChain("filter-cali-tw-wl1", []c15nRuleSpec{{Match: 1, Action: 1}})
	h.setInserts("filter-INPUT", []c15nRuleSpec{{Match: 1, Action: 3, Target: "filter-cali-tw-wl1"}})
	h.setInserts("filter-INPUT", nil)
	if len(h.phantoms()) == 0 {
		t.Fatalf("HARNESS-GAP: script no longer produces a queued, unwanted, unprogrammed chain")
	}
	h.apply("A")
	if h.k.natRunFailed+h.k.injRunFired > 0 || !h.classes["no-rewrite-checked"] {
		t.Fatalf("expected a clean Apply with the no-rewrite check armed; failed transactions=%d classes=%v", h.k.natRunFailed, h.classes)
	}
}

// TestVerifC15NftRuleHashChaining: the rule hashes the nftables sync relies on for read-back are
// deterministic, HashLength long, depend on the chain name, and chain in the rules before them (a
// rule's hash changes when, and only when, the rule itself or a rule before it changes).
func TestVerifC15NftRuleHashChaining(t *testing.T) {
	ev.Quiet()
	rec := ev.New("C15", "nft-hashes", "rapid: random chains of 1-6 rules from the rule pool; one position is altered; hashes before it must stay, hashes from it on must change; same rules under another chain name must hash differently. Non-trivial = altered position is not the last; distinct = (length, position)",
		"rule texts in the pool are pairwise different")
	defer rec.Write()
	hashRe := regexp.MustCompile(`^[a-zA-Z0-9_-]+$`)
	features := &environment.Features{}
	h := &c15nH{ipv: 4, setName: "cali40s:abc"}
	rapid.Check(t, func(t *rapid.T) {
		n := rapid.IntRange(1, 6).Draw(t, "len")
		specs := make([]c15nRuleSpec, n)
		for i := range specs {
			specs[i] = c15nRuleSpec{Match: rapid.IntRange(1, 9).Draw(t, "match"), Action: rapid.IntRange(0, 2).Draw(t, "action")}
		}
		name := c15nFull(rapid.IntRange(0, len(c15nChains)-1).Draw(t, "chain"))
		h1 := nftables.CalculateRuleHashes(name, h.buildRules(specs, "filter", true), features)
		h1b := nftables.CalculateRuleHashes(name, h.buildRules(specs, "filter", true), features)
		if len(h1) != n {
			t.Fatalf("got %d hashes for %d rules", len(h1), n)
		}
		for i := range h1 {
			if h1[i] != h1b[i] {
				t.Fatalf("hash %d not deterministic: %s vs %s", i, h1[i], h1b[i])
			}
			if len(h1[i]) != generictables.HashLength || !hashRe.MatchString(h1[i]) {
				t.Fatalf("hash %q is not %d characters of [a-zA-Z0-9_-]", h1[i], generictables.HashLength)
			}
		}
		pos := rapid.IntRange(0, n-1).Draw(t, "alterPos")
		alt := append([]c15nRuleSpec{}, specs...)
		alt[pos].Match = 1 + (alt[pos].Match+rapid.IntRange(0, 7).Draw(t, "delta"))%9
		if alt[pos].Match == specs[pos].Match {
			alt[pos].Match = 1 + alt[pos].Match%9
		}
		h2 := nftables.CalculateRuleHashes(name, h.buildRules(alt, "filter", true), features)
		for i := 0; i < n; i++ {
			if i < pos && h1[i] != h2[i] {
				t.Fatalf("altering rule %d changed the hash of earlier rule %d (%s -> %s)", pos, i, h1[i], h2[i])
			}
			if i >= pos && h1[i] == h2[i] {
				t.Fatalf("altering rule %d left the hash of rule %d unchanged (%s): hashes are documented to chain in the rules before them; specs=%v alt=%v", pos, i, h1[i], specs, alt)
			}
		}
		h3 := nftables.CalculateRuleHashes("filter-cali-other-chain", h.buildRules(specs, "filter", true), features)
		for i := range h3 {
			if h3[i] == h1[i] {
				t.Fatalf("rule %d has the same hash %s in chains %s and filter-cali-other-chain", i, h1[i], name)
			}
		}
		rec.Case(pos < n-1, fmt.Sprintf("%d/%d", n, pos), func() any { return map[string]any{"len": n, "pos": pos, "hashes": h1} })
	})
}
