package markbits_test

// C45 — every node elects the same owner for a load-balancer address.
//
// Real code: lib/datastructures/hashring.Ring (used by felix/dataplane/linux/proxy_neigh_mgr.go as
// Ring[string] with hostname -> hostname).  This file lives in felix/markbits only because
// lib/datastructures is a separate Go module; the harness needs a root-module package directory.
//
// Oracle (differential + membership): after any Insert/Remove/re-Insert/Lookup history
//   - Lookup reports ok exactly when there is a live member, and the returned value is the
//     current value of a live member;
//   - the answer equals the answer of a fresh ring (same options) built from the final member
//     set in sorted order, and of one built in reverse order, for every probed address;
//   - Len equals the number of live members.
// Weak hashes (few distinct values, values at both ends of the uint64 range) force ties and
// wrap-around, where dependence on insertion order or on deferred-sweep state would show.

import (
	"fmt"
	"sort"
	"strings"
	"testing"

	"pgregory.net/rapid"

	"github.com/projectcalico/calico/lib/datastructures/hashring"
	"github.com/projectcalico/calico/verifkit/ev"
)

func c45FNV(b []byte) uint64 {
	h := uint64(14695981039346656037)
	for _, c := range b {
		h ^= uint64(c)
		h *= 1099511628211
	}
	return h
}

type c45HashSpec struct {
	Kind string
	K    uint64
}

// c45MakeHash returns the hash for the spec (nil = library default) — always a pure function of
// the bytes.  seen counts distinct inputs per output so that the harness can tell whether the
// case really had colliding ring positions.
func c45MakeHash(spec c45HashSpec, seen map[uint64]map[string]bool) hashring.Hash {
	var f func(b []byte) uint64
	switch spec.Kind {
	case "default":
		return nil
	case "fnv":
		f = c45FNV
	case "const":
		f = func(b []byte) uint64 { return spec.K }
	case "mod":
		f = func(b []byte) uint64 { return c45FNV(b) % spec.K }
	case "spread":
		// K evenly spread positions including 0 and values close to MaxUint64 (wrap-around).
		f = func(b []byte) uint64 { return (c45FNV(b) % spec.K) * (^uint64(0) / spec.K) }
	case "top":
		// few values, all at the very top of the range
		f = func(b []byte) uint64 { return ^uint64(0) - c45FNV(b)%spec.K }
	case "keyonly":
		// ignores the salt: all replicas / probes of a key coincide
		f = func(b []byte) uint64 {
			if len(b) >= 5 {
				b = b[:len(b)-5]
			}
			return c45FNV(b) % spec.K
		}
	default:
		panic("unknown hash kind " + spec.Kind)
	}
	return func(b []byte) uint64 {
		h := f(b)
		if seen != nil {
			if seen[h] == nil {
				seen[h] = map[string]bool{}
			}
			seen[h][string(b)] = true
		}
		return h
	}
}

func c45NewRing(spec c45HashSpec, replicas, probes int, seen map[uint64]map[string]bool) *hashring.Ring[string] {
	var opts []hashring.Option
	if h := c45MakeHash(spec, seen); h != nil {
		opts = append(opts, hashring.WithHash(h))
	}
	if replicas > 0 {
		opts = append(opts, hashring.WithReplicas(replicas))
	}
	if probes > 0 {
		opts = append(opts, hashring.WithProbes(probes))
	}
	return hashring.New[string](opts...)
}

func TestVerifC45HashRing(t *testing.T) {
	ev.Quiet()
	rec := ev.New("C45", "hashring",
		"rapid state machine over one hashring.Ring[string] per case: Insert (new / update / re-insert before and after the deferred sweep), Remove (live / absent / already queued), Lookup over <=12 node names (lower/upper/mixed case, dots, underscores, pairs differing only by case) and a pool of load-balancer addresses; hash = library default, FNV, or a weak hash (constant, mod k, k spread positions incl. near MaxUint64, top-of-range, salt-ignoring); replicas in {default,1,2,3,10,100}, probes in {default,1,2,3,5}. Every Lookup is compared with two fresh rings built from the live member set in sorted and in reverse order. Non-trivial = a live member was removed and a later Lookup ran with >=2 live members; distinct = (hash kind, replicas, probes, op-kind sequence)",
		"hash functions are pure functions of the bytes (documented requirement of WithHash)", "single goroutine (Ring is documented as not safe for concurrent use)")
	defer rec.Write()

	// Node names as Felix accepts them ([a-zA-Z0-9_.-]+): lower case, upper case, dots, underscores
	// and names that differ only by case (distinct keys: the ring is keyed by the exact string).
	names := []string{"node-0", "Node-0", "node-1", "Worker-B", "worker-b", "node.Example.com", "NODE-2", "rack_1.host-7", "node-8", "node.example.com", "node-10", "N"}
	addrs := []string{"10.0.0.1", "10.0.0.2", "10.0.0.3", "192.168.7.250", "172.16.0.1", "fd00::1", "fd00::2", "2001:db8::ffff", "10.0.0.10", "10.0.0.11", "", "node-0"}

	rapid.Check(t, func(t *rapid.T) {
		spec := c45HashSpec{Kind: rapid.SampledFrom([]string{"default", "fnv", "const", "mod", "mod", "spread", "spread", "top", "keyonly"}).Draw(t, "hashKind")}
		switch spec.Kind {
		case "const":
			spec.K = rapid.SampledFrom([]uint64{0, 1, 1 << 63, ^uint64(0)}).Draw(t, "constValue")
		case "mod", "spread", "top", "keyonly":
			spec.K = rapid.SampledFrom([]uint64{1, 2, 3, 5, 8, 17}).Draw(t, "distinctHashValues")
		}
		replicas := rapid.SampledFrom([]int{0, 1, 1, 2, 2, 3, 3, 10, 10, 100}).Draw(t, "replicas") // 0 = library default
		probes := rapid.SampledFrom([]int{0, 1, 1, 2, 3, 5}).Draw(t, "probes")                     // 0 = library default
		nNames := rapid.IntRange(2, len(names)).Draw(t, "nNames")

		seen := map[uint64]map[string]bool{}
		ring := c45NewRing(spec, replicas, probes, seen)
		live := map[string]string{} // member -> current value
		queued := map[string]bool{} // removed since the last Lookup that had live members (not yet swept)
		everRemoved := map[string]bool{}
		version := 0
		var ops []string
		removedLive := false
		nontrivial := false
		reBefore, reAfter := false, false
		upperRemoved, twinsLive := false, false
		lookups := 0

		liveSorted := func() []string {
			ks := make([]string, 0, len(live))
			for k := range live {
				ks = append(ks, k)
			}
			sort.Strings(ks)
			return ks
		}
		checkLen := func() {
			if ring.Len() != len(live) {
				t.Fatalf("Len()=%d but %d members are live (%v) after ops %s", ring.Len(), len(live), liveSorted(), strings.Join(ops, ""))
			}
		}
		lookup := func(t *rapid.T, queries ...string) {
			ks := liveSorted()
			// Same member set, fresh rings, two insertion orders.
			fa := c45NewRing(spec, replicas, probes, nil)
			for _, k := range ks {
				fa.Insert(k, live[k])
			}
			fb := c45NewRing(spec, replicas, probes, nil)
			for i := len(ks) - 1; i >= 0; i-- {
				fb.Insert(ks[i], live[ks[i]])
			}
			for _, addr := range queries {
				got, ok := ring.Lookup(addr)
				if ok != (len(ks) > 0) {
					t.Fatalf("Lookup(%q) ok=%v with live members %v", addr, ok, ks)
				}
				if !ok {
					if got != "" {
						t.Fatalf("Lookup(%q) on a ring without live members returned %q", addr, got)
					}
					continue
				}
				owner := ""
				for _, k := range ks {
					if live[k] == got {
						owner = k
					}
				}
				if owner == "" {
					t.Fatalf("Lookup(%q)=%q is not the current value of any live member; live: %v; history %s", addr, got, live, strings.Join(ops, ""))
				}
				ga, oka := fa.Lookup(addr)
				gb, okb := fb.Lookup(addr)
				if !oka || !okb || ga != got || gb != got {
					t.Fatalf("Lookup(%q): ring with history %s elects %q, fresh ring (sorted inserts) elects %q (ok=%v), fresh ring (reverse inserts) elects %q (ok=%v); live members %v; hash=%+v replicas=%d probes=%d",
						addr, strings.Join(ops, ""), got, ga, oka, gb, okb, ks, spec, replicas, probes)
				}
				// Asking again must give the same owner.
				if again, ok2 := ring.Lookup(addr); !ok2 || again != got {
					t.Fatalf("Lookup(%q) returned %q then %q without any change in between", addr, got, again)
				}
				lookups++
				if removedLive && len(ks) >= 2 {
					nontrivial = true
				}
				queued = map[string]bool{}
			}
		}

		t.Repeat(map[string]func(*rapid.T){
			"insert": func(t *rapid.T) {
				k := rapid.SampledFrom(names[:nNames]).Draw(t, "member")
				version++
				v := fmt.Sprintf("%s#%d", k, version)
				if rapid.Bool().Draw(t, "valueIsName") {
					v = k // what proxy_neigh_mgr stores
				}
				switch {
				case live[k] != "":
					ops = append(ops, "u")
				case queued[k]:
					ops = append(ops, "r") // re-insert while the removal is still queued
					reBefore = true
				case everRemoved[k]:
					ops = append(ops, "R") // re-insert after the sweep
					reAfter = true
				default:
					ops = append(ops, "i")
				}
				ring.Insert(k, v)
				live[k] = v
				for o := range live {
					if o != k && strings.EqualFold(o, k) {
						twinsLive = true
					}
				}
				delete(queued, k)
				checkLen()
			},
			"remove": func(t *rapid.T) {
				k := rapid.SampledFrom(names[:nNames]).Draw(t, "member")
				if rapid.Bool().Draw(t, "preferLive") {
					if ks := liveSorted(); len(ks) > 0 {
						k = rapid.SampledFrom(ks).Draw(t, "liveMember")
					}
				}
				if _, ok := live[k]; ok {
					if k != strings.ToLower(k) {
						upperRemoved = true
					}
					ops = append(ops, "d")
					removedLive = true
					queued[k] = true
					everRemoved[k] = true
				} else {
					ops = append(ops, "x")
				}
				ring.Remove(k)
				delete(live, k)
				checkLen()
			},
			"lookup": func(t *rapid.T) {
				addr := rapid.SampledFrom(addrs).Draw(t, "address")
				ops = append(ops, "L")
				lookup(t, addr)
				checkLen()
			},
			"lookupAll": func(t *rapid.T) {
				ops = append(ops, "A")
				lookup(t, addrs[:6]...)
				checkLen()
			},
		})
		// Final: every address.
		ops = append(ops, "F")
		lookup(t, addrs...)
		checkLen()

		collisions := false
		for _, ins := range seen {
			if len(ins) > 1 {
				collisions = true
				break
			}
		}
		classes := []string{"hash-" + spec.Kind}
		if upperRemoved {
			classes = append(classes, "member-with-upper-case-name-removed")
		}
		if twinsLive {
			classes = append(classes, "members-differing-only-by-case-live-together")
		}
		if collisions {
			classes = append(classes, "colliding-ring-positions")
		}
		if reBefore {
			classes = append(classes, "reinsert-before-sweep")
		}
		if reAfter {
			classes = append(classes, "reinsert-after-sweep")
		}
		if replicas > 1 {
			classes = append(classes, "replicas>1")
		}
		if probes > 1 {
			classes = append(classes, "probes>1")
		}
		if nontrivial && collisions {
			classes = append(classes, "nontrivial-with-collisions")
		}
		key := fmt.Sprintf("%s%d/r%d/p%d/%s", spec.Kind, spec.K, replicas, probes, strings.Join(ops, ""))
		rec.SizedCase(nontrivial, key, len(ops), func() any {
			return map[string]any{"hash": spec, "replicas": replicas, "probes": probes, "ops": strings.Join(ops, ""), "finalLive": liveSorted()}
		}, classes...)
	})
}
