package markbits_test

// C35 — mark-bit allocation is collision-free and reversible.
//
// Real code: felix/markbits.MarkBitsManager.  Oracle: math/bits arithmetic on the mask.
//   - allocation: every bit handed out (NextSingleBitMark, NextBlockBitsMark) is inside the mask
//     and was not handed out before; single marks have exactly one bit; exactly popcount(mask)
//     bits can be handed out, after that allocation fails (error / short block);
//   - numbers: every n in [0, 2^popcount) maps to a mark inside the mask and back to n; distinct
//     numbers get distinct marks; whenever a mapping succeeds (also for numbers that do not fit
//     and marks outside the mask) it must be reversible, so that no two numbers share a mark.
// Number domain: 0 <= n <= MaxUint32 (the only caller, rules.DefaultEPMarkManager, uses
// positions in [1, 2^popcount) <= 2^32).

import (
	"fmt"
	"math"
	"math/bits"
	"strings"
	"testing"

	"pgregory.net/rapid"

	"github.com/projectcalico/calico/felix/markbits"
	"github.com/projectcalico/calico/verifkit/ev"
)

// c35Mask draws a mask and reports its structural class.
func c35Mask(t *rapid.T) (uint32, string) {
	switch rapid.IntRange(0, 13).Draw(t, "maskKind") {
	case 0:
		return 0, "zero"
	case 1:
		return uint32(1) << uint(rapid.IntRange(0, 31).Draw(t, "bit")), "single-bit"
	case 2:
		return 0xffffffff, "all-ones"
	case 3, 10:
		// contiguous run (like the defaults 0xffff0000 / 0xff000000)
		lo := rapid.IntRange(0, 31).Draw(t, "runLo")
		n := rapid.IntRange(1, 32-lo).Draw(t, "runLen")
		return uint32((uint64(1)<<uint(n) - 1) << uint(lo)), "contiguous"
	case 4:
		return rapid.SampledFrom([]uint32{0xffff0000, 0xff000000, 0xfff00000, 0x80000000, 0x00000001, 0x80000001}).Draw(t, "wellKnown"), "well-known"
	case 5, 6, 11:
		// sparse: a few bits anywhere
		n := rapid.IntRange(2, 6).Draw(t, "nBits")
		m := uint32(0)
		for i := 0; i < n; i++ {
			m |= uint32(1) << uint(rapid.IntRange(0, 31).Draw(t, "bit"))
		}
		return m, "sparse"
	case 7, 12:
		// dense: all ones with a few holes
		n := rapid.IntRange(1, 5).Draw(t, "nHoles")
		m := uint32(0xffffffff)
		for i := 0; i < n; i++ {
			m &^= uint32(1) << uint(rapid.IntRange(0, 31).Draw(t, "hole"))
		}
		return m, "dense"
	default:
		return rapid.Uint32().Draw(t, "mask"), "random"
	}
}

func TestVerifC35Alloc(t *testing.T) {
	ev.Quiet()
	rec := ev.New("C35", "alloc",
		"a mask (zero, single bit, all ones, contiguous run, well-known defaults, sparse, dense with holes, random) and a sequence of NextSingleBitMark / NextBlockBitsMark(size) calls that continues past exhaustion; every returned bit is checked against the set handed out so far. Non-trivial = popcount>=2, the mask was exhausted, and at least one block allocation was cut short or one single allocation failed; distinct = (mask class, popcount, op sequence)",
		"math/bits popcount is the reference", "single-threaded use (as in dataplane/driver.go)")
	defer rec.Write()
	rapid.Check(t, func(t *rapid.T) {
		mask, class := c35Mask(t)
		pop := bits.OnesCount32(mask)
		m := markbits.NewMarkBitsManager(mask, "verif")
		if m.GetMask() != mask {
			t.Fatalf("GetMask()=%#x want %#x", m.GetMask(), mask)
		}
		handed := uint32(0)
		nHanded := 0
		failures, shortBlocks := 0, 0
		var ops []string
		nOps := rapid.IntRange(1, 12).Draw(t, "nOps")
		step := func(i int, final bool) {
			if avail := m.AvailableMarkBitCount(); avail != pop-nHanded {
				t.Fatalf("mask %#x: AvailableMarkBitCount()=%d after %d of %d bits were handed out", mask, avail, nHanded, pop)
			}
			kind := 0
			if !final {
				kind = rapid.IntRange(0, 3).Draw(t, "opKind")
			}
			switch kind {
			case 0, 1:
				mark, err := m.NextSingleBitMark()
				if nHanded == pop {
					if err == nil {
						t.Fatalf("mask %#x (popcount %d): allocation %d succeeded with %#x after the mask was exhausted (handed %#x)", mask, pop, nHanded+1, mark, handed)
					}
					failures++
					ops = append(ops, "f")
					return
				}
				if err != nil {
					t.Fatalf("mask %#x (popcount %d): NextSingleBitMark failed (%v) after only %d allocations", mask, pop, err, nHanded)
				}
				if bits.OnesCount32(mark) != 1 {
					t.Fatalf("mask %#x: NextSingleBitMark returned %#x which is not a single bit", mask, mark)
				}
				if mark&mask != mark {
					t.Fatalf("mask %#x: NextSingleBitMark returned %#x outside the mask", mask, mark)
				}
				if mark&handed != 0 {
					t.Fatalf("mask %#x: NextSingleBitMark returned %#x again (already handed out: %#x)", mask, mark, handed)
				}
				handed |= mark
				nHanded++
				ops = append(ops, "s")
			default:
				var size int
				switch rapid.IntRange(0, 3).Draw(t, "sizeKind") {
				case 0:
					size = rapid.IntRange(0, 3).Draw(t, "size")
				case 1:
					size = pop - nHanded // exactly the rest (the driver.go pattern)
				case 2:
					size = pop - nHanded + rapid.IntRange(1, 3).Draw(t, "over")
				default:
					size = rapid.IntRange(0, 34).Draw(t, "size")
				}
				mark, got := m.NextBlockBitsMark(size)
				want := size
				if want > pop-nHanded {
					want = pop - nHanded
					shortBlocks++
					ops = append(ops, "b")
				} else {
					ops = append(ops, "B")
				}
				if got != want {
					t.Fatalf("mask %#x (popcount %d, %d already handed out): NextBlockBitsMark(%d) reports %d bits, want %d", mask, pop, nHanded, size, got, want)
				}
				if bits.OnesCount32(mark) != got {
					t.Fatalf("mask %#x: NextBlockBitsMark(%d) returned %#x (%d bits) but reports %d", mask, size, mark, bits.OnesCount32(mark), got)
				}
				if mark&mask != mark {
					t.Fatalf("mask %#x: NextBlockBitsMark(%d) returned %#x outside the mask", mask, size, mark)
				}
				if mark&handed != 0 {
					t.Fatalf("mask %#x: NextBlockBitsMark(%d) returned %#x overlapping bits already handed out (%#x)", mask, size, mark, handed)
				}
				handed |= mark
				nHanded += got
			}
		}
		for i := 0; i < nOps; i++ {
			step(i, false)
		}
		// Drain with single allocations: exactly the remaining bits succeed, then failure.
		for nHanded < pop {
			step(-1, true)
		}
		step(-1, true)
		step(-1, true)
		if handed != mask {
			t.Fatalf("mask %#x: after exhaustion the bits handed out are %#x", mask, handed)
		}
		nt := pop >= 2 && (shortBlocks > 0 || failures > 2)
		classes := []string{"mask-" + class, fmt.Sprintf("popcount-%s", c35PopClass(pop))}
		if shortBlocks > 0 {
			classes = append(classes, "block-cut-short")
		}
		if strings.Contains(strings.Join(ops, ""), "B") {
			classes = append(classes, "block-full")
		}
		rec.Case(nt, fmt.Sprintf("%s/%d/%s", class, pop, strings.Join(ops, "")), func() any {
			return map[string]any{"mask": fmt.Sprintf("%#08x", mask), "ops": strings.Join(ops, "")}
		}, classes...)
	})
}

func c35PopClass(pop int) string {
	switch {
	case pop == 0:
		return "0"
	case pop == 1:
		return "1"
	case pop <= 8:
		return "2..8"
	case pop < 32:
		return "9..31"
	default:
		return "32"
	}
}

func TestVerifC35Numbers(t *testing.T) {
	ev.Quiet()
	rec := ev.New("C35", "numbers",
		"a mask (same classes) and numbers: all of [0,2^popcount) when popcount<=6, otherwise drawn numbers plus the boundaries 0,1,2^k,2^popcount-1; plus numbers that do not fit (2^popcount, 2^popcount+1, drawn, MaxUint32) and marks inside / outside the mask. Non-trivial = popcount>=2 and the mask is not a run starting at bit 0 (so mark != number); distinct = (mask, numbers)",
		"numbers are in [0, MaxUint32] (caller: rules.DefaultEPMarkManager positions)")
	defer rec.Write()
	rapid.Check(t, func(t *rapid.T) {
		mask, class := c35Mask(t)
		pop := bits.OnesCount32(mask)
		m := markbits.NewMarkBitsManager(mask, "verif")
		limit := uint64(1) << uint(pop) // numbers 0..limit-1 fit

		var fitting []uint64
		if pop <= 6 {
			for n := uint64(0); n < limit; n++ {
				fitting = append(fitting, n)
			}
		} else {
			fitting = append(fitting, 0, 1, limit-1, limit-2, limit/2, limit/2-1)
			for k := 0; k < pop; k += 3 {
				fitting = append(fitting, uint64(1)<<uint(k))
			}
			for i := 0; i < 8; i++ {
				fitting = append(fitting, rapid.Uint64Range(0, limit-1).Draw(t, "fittingNumber"))
			}
		}
		markOf := map[uint32]uint64{}
		for _, n := range fitting {
			mark, err := m.MapNumberToMark(int(n))
			if err != nil {
				t.Fatalf("mask %#x (popcount %d): MapNumberToMark(%d) failed: %v", mask, pop, n, err)
			}
			if mark&mask != mark {
				t.Fatalf("mask %#x: MapNumberToMark(%d)=%#x is outside the mask", mask, n, mark)
			}
			if prev, dup := markOf[mark]; dup && prev != n {
				t.Fatalf("mask %#x: numbers %d and %d both map to mark %#x", mask, prev, n, mark)
			}
			markOf[mark] = n
			back, err := m.MapMarkToNumber(mark)
			if err != nil || uint64(back) != n {
				t.Fatalf("mask %#x: MapNumberToMark(%d)=%#x but MapMarkToNumber(%#x)=(%d,%v)", mask, n, mark, mark, back, err)
			}
		}
		// Numbers that do not fit: a successful mapping would have to be reversible, which is
		// impossible inside the mask — so these must fail (or the round trip exposes the clash).
		nonFitting := 0
		if limit <= math.MaxUint32 {
			cands := []uint64{limit, limit + 1, math.MaxUint32, limit | 1<<31,
				rapid.Uint64Range(limit, math.MaxUint32).Draw(t, "nonFittingNumber")}
			for _, n := range cands {
				if n > math.MaxUint32 {
					continue
				}
				nonFitting++
				mark, err := m.MapNumberToMark(int(n))
				if err != nil {
					continue
				}
				back, err2 := m.MapMarkToNumber(mark)
				t.Fatalf("mask %#x (popcount %d): MapNumberToMark(%d) succeeded with %#x for a number that does not fit; MapMarkToNumber gives (%d,%v)", mask, pop, n, mark, back, err2)
			}
		}
		// Marks: inside the mask they map to a fitting number and back; outside the mask a
		// successful mapping would not be reversible.
		marks := []uint32{mask, 0, mask & -mask, rapid.Uint32().Draw(t, "markBits") & mask, rapid.Uint32().Draw(t, "markBits2") & mask}
		for _, mark := range marks {
			n, err := m.MapMarkToNumber(mark)
			if err != nil {
				t.Fatalf("mask %#x: MapMarkToNumber(%#x) failed for a mark inside the mask: %v", mask, mark, err)
			}
			if n < 0 || uint64(n) >= limit {
				t.Fatalf("mask %#x (popcount %d): MapMarkToNumber(%#x)=%d does not fit the mask", mask, pop, mark, n)
			}
			mk2, err := m.MapNumberToMark(n)
			if err != nil || mk2 != mark {
				t.Fatalf("mask %#x: MapMarkToNumber(%#x)=%d but MapNumberToMark(%d)=(%#x,%v)", mask, mark, n, n, mk2, err)
			}
		}
		outside := 0
		if mask != 0xffffffff {
			extra := rapid.Uint32().Draw(t, "outsideBits") &^ mask
			if extra == 0 {
				extra = ^mask & -(^mask) // lowest bit not in the mask
			}
			for _, mark := range []uint32{extra, extra | mask, extra | (rapid.Uint32().Draw(t, "markBits3") & mask)} {
				outside++
				n, err := m.MapMarkToNumber(mark)
				if err != nil {
					continue
				}
				mk2, err2 := m.MapNumberToMark(n)
				if err2 != nil || mk2 != mark {
					t.Fatalf("mask %#x: MapMarkToNumber(%#x) succeeded with %d for a mark outside the mask, but MapNumberToMark(%d)=(%#x,%v): not reversible", mask, mark, n, n, mk2, err2)
				}
			}
		}
		lowRun := mask&(mask+1) == 0 // bits 0..k-1: mark == number
		nt := pop >= 2 && !lowRun
		classes := []string{"mask-" + class, "popcount-" + c35PopClass(pop)}
		if pop <= 6 {
			classes = append(classes, "all-numbers-enumerated")
		}
		if nonFitting > 0 {
			classes = append(classes, "non-fitting-numbers")
		}
		if outside > 0 {
			classes = append(classes, "marks-outside-mask")
		}
		rec.Case(nt, fmt.Sprintf("%#x/%v", mask, fitting), func() any {
			return map[string]any{"mask": fmt.Sprintf("%#08x", mask), "fittingNumbersChecked": len(fitting), "nonFittingChecked": nonFitting}
		}, classes...)
	})
}
