package markbits_test

// C35 (concurrency supplement) — MarkBitsManager guards its state with a mutex, so callers in
// different goroutines are part of its contract.  "Mark bits handed out are distinct single bits
// inside the configured mask until it is exhausted, after which allocation fails" must therefore
// hold for the union of everything handed out to all goroutines that share one manager.
//
// Per case: a generated mask and one request list per goroutine (single bits and blocks).  In
// every round a fresh manager is shared by all goroutines, which are released together by a spin
// barrier.  After the round (all goroutines have finished), whatever the interleaving was:
//   - every single mark is one bit of the mask; a block is inside the mask and has as many bits as
//     it reports; a short block / failed single allocation is only possible when the mask ran out;
//   - no bit was handed out twice (across all goroutines, singles and blocks);
//   - the number of bits handed out is min(bits requested, bits in the mask): every request for a
//     bit either succeeds or meets an exhausted mask, and exhaustion is permanent;
//   - AvailableMarkBitCount agrees, and one more allocation fails iff the mask is exhausted.
// All of these are schedule-independent, so correct code can never fail them; a lost update needs
// the right interleaving, hence the many rounds per case (real goroutines: a failure may not
// replay from the fail file, the message carries everything).

import (
	"fmt"
	"math/bits"
	"runtime"
	"strings"
	"sync"
	"sync/atomic"
	"testing"

	"pgregory.net/rapid"

	"github.com/projectcalico/calico/felix/markbits"
	"github.com/projectcalico/calico/verifkit/ev"
)

type c35ConcResult struct {
	Size   int // 0 = NextSingleBitMark, otherwise NextBlockBitsMark(Size)
	Mark   uint32
	Got    int // bits reported (single: 1 or 0)
	Failed bool
}

// c35ConcShared is what the coordinator and the goroutines of one case share.  Round start and
// round end block (channels / WaitGroup) so that idle parties do not burn CPU on a loaded
// machine; only the short barrier right before the allocator calls spins.
type c35ConcShared struct {
	mgr   *markbits.MarkBitsManager // written by the coordinator before the start signal
	ready atomic.Int64              // workers waiting at the barrier
	done  sync.WaitGroup
}

func TestVerifC35Concurrent(t *testing.T) {
	ev.Quiet()
	rec := ev.New("C35", "concurrent",
		"a mask (zero, single bit, all ones, contiguous, well-known, sparse, dense, random; popcount>=2 preferred) and 2..8 goroutines with a request list each (1..4 requests: NextSingleBitMark or NextBlockBitsMark(1..4)), total demand drawn below, at or above the mask's capacity; every case runs many rounds, each with a fresh manager shared by all goroutines released together by a spin barrier; after each round the union of all answers is checked (distinct bits inside the mask, count = min(demand, capacity), failures only at exhaustion). Non-trivial = >=3 goroutines, popcount>=2 and demand>=2 bits; distinct = (popcount class, goroutines, request shapes)",
		"real goroutines: the interleaving is not owned by the harness; all assertions are schedule-independent, so a failure is always a real duplicate/lost bit, but a defect that needs a rare interleaving is only found with some probability per round")
	defer rec.Write()
	prev := runtime.GOMAXPROCS(0)
	if prev < 4 {
		runtime.GOMAXPROCS(4)
		defer runtime.GOMAXPROCS(prev)
	}
	rounds := ev.Scale(400, 2000)

	rapid.Check(t, func(t *rapid.T) {
		mask, class := c35Mask(t)
		if bits.OnesCount32(mask) < 2 && rapid.IntRange(0, 3).Draw(t, "keepTinyMask") != 0 {
			mask, class = rapid.SampledFrom([]uint32{0xffff0000, 0xffff0ff0, 0x00ff00ff, 0xffffffff, 0x0000f000}).Draw(t, "biggerMask"), "well-known"
		}
		pop := bits.OnesCount32(mask)
		workers := rapid.SampledFrom([]int{2, 3, 4, 5, 6, 7, 8, 8, 8}).Draw(t, "goroutines")
		reqs := make([][]int, workers)
		demand := 0
		var shape []string
		for w := range reqs {
			n := rapid.IntRange(1, 4).Draw(t, "nRequests")
			for i := 0; i < n; i++ {
				size := 0
				if rapid.IntRange(0, 9).Draw(t, "blockRequest") < 3 {
					size = rapid.IntRange(1, 4).Draw(t, "blockSize")
				}
				reqs[w] = append(reqs[w], size)
				if size == 0 {
					demand++
				} else {
					demand += size
				}
			}
			shape = append(shape, fmt.Sprint(reqs[w]))
		}

		var sh c35ConcShared
		results := make([][]c35ConcResult, workers)
		start := make([]chan struct{}, workers)
		var wg sync.WaitGroup
		for w := 0; w < workers; w++ {
			start[w] = make(chan struct{}, 1)
			wg.Add(1)
			go func(w int) {
				defer wg.Done()
				for range start[w] {
					m := sh.mgr
					out := results[w][:0]
					// barrier: all goroutines hit the allocator at the same moment
					sh.ready.Add(1)
					for sh.ready.Load() < int64(workers) {
						runtime.Gosched()
					}
					for _, size := range reqs[w] {
						if size == 0 {
							mark, err := m.NextSingleBitMark()
							r := c35ConcResult{Mark: mark, Failed: err != nil}
							if err == nil {
								r.Got = 1
							}
							out = append(out, r)
						} else {
							mark, got := m.NextBlockBitsMark(size)
							out = append(out, c35ConcResult{Size: size, Mark: mark, Got: got, Failed: got < size})
						}
					}
					results[w] = out
					sh.done.Done()
				}
			}(w)
		}
		stopWorkers := func() {
			for w := range start {
				close(start[w])
			}
			wg.Wait()
		}
		defer stopWorkers()

		for round := 1; round <= rounds; round++ {
			m := markbits.NewMarkBitsManager(mask, "verif-conc")
			sh.mgr = m
			sh.ready.Store(0)
			sh.done.Add(workers)
			for w := range start {
				start[w] <- struct{}{}
			}
			sh.done.Wait()

			describe := func() string {
				var sb strings.Builder
				for w := range results {
					fmt.Fprintf(&sb, "\n  goroutine %d:", w)
					for _, r := range results[w] {
						if r.Size == 0 {
							fmt.Fprintf(&sb, " single->%#x(failed=%v)", r.Mark, r.Failed)
						} else {
							fmt.Fprintf(&sb, " block(%d)->%#x,%d", r.Size, r.Mark, r.Got)
						}
					}
				}
				return sb.String()
			}
			handed := uint32(0)
			nHanded, failures := 0, 0
			for w := range results {
				for _, r := range results[w] {
					if r.Size == 0 {
						if r.Failed {
							failures++
							continue
						}
						if bits.OnesCount32(r.Mark) != 1 {
							t.Fatalf("round %d, mask %#x: NextSingleBitMark returned %#x which is not a single bit%s", round, mask, r.Mark, describe())
						}
					} else {
						if bits.OnesCount32(r.Mark) != r.Got || r.Got > r.Size || r.Got < 0 {
							t.Fatalf("round %d, mask %#x: NextBlockBitsMark(%d) returned %#x but reports %d bits%s", round, mask, r.Size, r.Mark, r.Got, describe())
						}
						if r.Failed {
							failures++
						}
					}
					if r.Mark&mask != r.Mark {
						t.Fatalf("round %d, mask %#x: mark %#x is outside the mask%s", round, mask, r.Mark, describe())
					}
					if r.Mark&handed != 0 {
						t.Fatalf("round %d, mask %#x (%d bits), %d goroutines sharing one manager: bit(s) %#x handed out twice%s", round, mask, pop, workers, r.Mark&handed, describe())
					}
					handed |= r.Mark
					nHanded += bits.OnesCount32(r.Mark)
				}
			}
			want := demand
			if want > pop {
				want = pop
			}
			if nHanded != want {
				t.Fatalf("round %d, mask %#x (%d bits), %d goroutines requesting %d bits in total: %d bits were handed out, want %d (%d requests failed or were cut short; allocation may only fail once the mask is exhausted)%s",
					round, mask, pop, workers, demand, nHanded, want, failures, describe())
			}
			if avail := m.AvailableMarkBitCount(); avail != pop-nHanded {
				t.Fatalf("round %d, mask %#x: AvailableMarkBitCount()=%d after %d of %d bits were handed out%s", round, mask, avail, nHanded, pop, describe())
			}
			extra, err := m.NextSingleBitMark()
			if nHanded == pop {
				if err == nil {
					t.Fatalf("round %d, mask %#x: allocation from the exhausted mask succeeded with %#x%s", round, mask, extra, describe())
				}
			} else if err != nil || extra&handed != 0 || extra&mask != extra || bits.OnesCount32(extra) != 1 {
				t.Fatalf("round %d, mask %#x: with %d of %d bits handed out (%#x) the next allocation gave (%#x, %v)%s", round, mask, nHanded, pop, handed, extra, err, describe())
			}
		}

		classes := []string{"mask-" + class, "popcount-" + c35PopClass(pop), fmt.Sprintf("goroutines-%d", workers)}
		switch {
		case demand < pop:
			classes = append(classes, "demand<capacity")
		case demand == pop:
			classes = append(classes, "demand==capacity")
		default:
			classes = append(classes, "demand>capacity")
		}
		if strings.ContainsAny(strings.Join(shape, ""), "1234") {
			classes = append(classes, "block-requests")
		}
		rec.SizedCase(workers >= 3 && pop >= 2 && demand >= 2, fmt.Sprintf("%s/%d/%s", c35PopClass(pop), workers, strings.Join(shape, "")), demand, func() any {
			return map[string]any{"mask": fmt.Sprintf("%#08x", mask), "requestsPerGoroutine": reqs, "roundsPerCase": rounds}
		}, classes...)
	})
}
