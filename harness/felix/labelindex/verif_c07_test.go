package labelindex_test

// C07 — indexed selector matching equals direct selector evaluation.
//
// Statement: after any sequence of endpoint label, profile label and selector changes, the
// label indexes report a selector as matching an endpoint exactly when evaluating the
// selector against the endpoint's effective labels would say so, and match start/stop
// notifications alternate (never two starts or a stop without a start).  The
// label-restriction summaries used to prune candidates never exclude an item the selector
// actually matches.
//
// Effective labels (package documentation of labelindex): an endpoint's own labels take
// priority over inherited ones; labels of the explicitly named profiles are inherited (the
// first named profile that has the label supplies it).

import (
	"fmt"
	"iter"
	"sort"
	"strings"
	"testing"

	"pgregory.net/rapid"

	"github.com/projectcalico/calico/felix/ip"
	"github.com/projectcalico/calico/felix/labelindex"
	"github.com/projectcalico/calico/felix/labelindex/ipsetmember"
	"github.com/projectcalico/calico/felix/labelindex/labelnamevalueindex"
	"github.com/projectcalico/calico/felix/labelindex/labelrestrictionindex"
	"github.com/projectcalico/calico/lib/std/uniquelabels"
	"github.com/projectcalico/calico/lib/std/uniquestr"
	"github.com/projectcalico/calico/libcalico-go/lib/selector"
	"github.com/projectcalico/calico/verifkit/ev"
)

var (
	c07LabelNames = []string{"a", "b", "c", "w"}
	c07Values     = []string{"x", "y", "z", ""}
	c07WideValues = []string{"v1", "v2", "v3", "v4", "v5", "v6"}
	c07ItemIDs    = []string{"i0", "i1", "i2", "i3", "i4"}
	c07ParentIDs  = []string{"p0", "p1", "p2"}
	c07SelIDs     = []string{"s0", "s1", "s2", "s3"}
)

func c07Value(t *rapid.T, name string) string {
	if name == "w" {
		return rapid.SampledFrom(c07WideValues).Draw(t, "wideValue")
	}
	return rapid.SampledFrom(c07Values).Draw(t, "value")
}

func c07ValueSet(t *rapid.T, name string) string {
	n := rapid.IntRange(0, 3).Draw(t, "setLen")
	var parts []string
	for i := 0; i < n; i++ {
		parts = append(parts, fmt.Sprintf("%q", c07Value(t, name)))
	}
	return "{" + strings.Join(parts, ", ") + "}"
}

// c07SelInfo records which shapes a generated selector contains.
type c07SelInfo struct {
	sameLabelAnd bool // AND whose operands all restrict one label
	unsortedOr   bool // ... and a later operand is an OR whose literals are not in ascending order
}

// c07SameLabelAnd generates an AND whose operands all restrict the same label (via ==, in
// {...} and ORs of equalities / ins on that label, literals in arbitrary order) and share
// at least one value, so the selector is satisfiable and its restriction is an intersection
// of value lists that were built in different orders.
func c07SameLabelAnd(t *rapid.T, info *c07SelInfo) string {
	name := rapid.SampledFrom(c07LabelNames).Draw(t, "slLabel")
	pool := c07Values
	if name == "w" {
		pool = c07WideValues
	}
	common := rapid.SampledFrom(pool).Draw(t, "slCommon")
	// valuesWithCommon returns 1..3 values containing common at a drawn position.
	valuesWithCommon := func(min int) []string {
		n := rapid.IntRange(min, 3).Draw(t, "slNumValues")
		vals := make([]string, n)
		pos := rapid.IntRange(0, n-1).Draw(t, "slCommonPos")
		for i := range vals {
			if i == pos {
				vals[i] = common
			} else {
				vals[i] = rapid.SampledFrom(pool).Draw(t, "slExtra")
			}
		}
		return vals
	}
	inSet := func(vals []string) string {
		var parts []string
		for _, v := range vals {
			parts = append(parts, fmt.Sprintf("%q", v))
		}
		return fmt.Sprintf("%s in {%s}", name, strings.Join(parts, ", "))
	}
	nOps := rapid.IntRange(2, 3).Draw(t, "slOperands")
	kinds := make([]string, nOps)
	laterOr := false
	for i := range kinds {
		kinds[i] = rapid.SampledFrom([]string{"in", "in", "eq", "or", "or"}).Draw(t, "slKind")
		if i > 0 && kinds[i] == "or" {
			laterOr = true
		}
	}
	if !laterOr {
		kinds[nOps-1] = "or"
	}
	var ops []string
	for i, k := range kinds {
		switch k {
		case "eq":
			ops = append(ops, fmt.Sprintf("%s == %q", name, common))
		case "in":
			ops = append(ops, inSet(valuesWithCommon(1)))
		default:
			vals := valuesWithCommon(2)
			var parts []string
			for j := 0; j < len(vals); j++ {
				if rapid.IntRange(0, 3).Draw(t, "slDisjunctIsIn") == 0 && j+1 < len(vals) {
					parts = append(parts, inSet(vals[j:j+2]))
					j++
				} else {
					parts = append(parts, fmt.Sprintf("%s == %q", name, vals[j]))
				}
			}
			if i > 0 && !sort.StringsAreSorted(vals) {
				info.unsortedOr = true
			}
			ops = append(ops, "("+strings.Join(parts, " || ")+")")
		}
	}
	info.sameLabelAnd = true
	return "(" + strings.Join(ops, " && ") + ")"
}

// c07SelText generates selector text over the small vocabulary, biased towards forms that
// produce label restrictions and towards their negations / disjunctions.
func c07SelText(t *rapid.T, depth int, info *c07SelInfo) string {
	k := 0
	if depth > 0 {
		if rapid.IntRange(0, 7).Draw(t, "selSameLabelAnd") == 0 {
			return c07SameLabelAnd(t, info)
		}
		k = rapid.IntRange(0, 9).Draw(t, "selNode")
	}
	switch {
	case k <= 4:
		name := rapid.SampledFrom(c07LabelNames).Draw(t, "selLabel")
		switch rapid.SampledFrom([]string{"eq", "eq", "in", "in", "has", "has", "nothas", "ne", "notin", "contains", "starts", "ends", "all"}).Draw(t, "selLeaf") {
		case "eq":
			return fmt.Sprintf("%s == %q", name, c07Value(t, name))
		case "ne":
			return fmt.Sprintf("%s != %q", name, c07Value(t, name))
		case "in":
			return fmt.Sprintf("%s in %s", name, c07ValueSet(t, name))
		case "notin":
			return fmt.Sprintf("%s not in %s", name, c07ValueSet(t, name))
		case "has":
			return fmt.Sprintf("has(%s)", name)
		case "nothas":
			return fmt.Sprintf("!has(%s)", name)
		case "contains":
			return fmt.Sprintf("%s contains %q", name, c07Value(t, name))
		case "starts":
			return fmt.Sprintf("%s starts with %q", name, c07Value(t, name))
		case "ends":
			return fmt.Sprintf("%s ends with %q", name, c07Value(t, name))
		default:
			return "all()"
		}
	case k == 5:
		return "!(" + c07SelText(t, depth-1, info) + ")"
	default:
		op := " && "
		if k >= 8 {
			op = " || "
		}
		n := rapid.IntRange(2, 3).Draw(t, "selArity")
		var parts []string
		for i := 0; i < n; i++ {
			parts = append(parts, c07SelText(t, depth-1, info))
		}
		return "(" + strings.Join(parts, op) + ")"
	}
}

func c07Labels(t *rapid.T, what string) map[string]string {
	m := map[string]string{}
	for _, name := range c07LabelNames {
		if rapid.IntRange(0, 9).Draw(t, what+"Has_"+name) < 4 {
			m[name] = c07Value(t, name)
		}
	}
	return m
}

// c07MutateParents returns a changed copy of a parent list: permuted, with one entry
// replaced / added / dropped, or with a duplicate introduced or resolved.
func c07MutateParents(t *rapid.T, old []string) ([]string, string) {
	ps := append([]string{}, old...)
	kind := rapid.SampledFrom([]string{"permute", "permute", "permute", "replace", "replace", "add", "drop"}).Draw(t, "parentsChange")
	switch {
	case kind == "permute" && len(ps) >= 2:
		i := rapid.IntRange(0, len(ps)-1).Draw(t, "swapA")
		j := rapid.IntRange(0, len(ps)-2).Draw(t, "swapB")
		if j >= i {
			j++
		}
		ps[i], ps[j] = ps[j], ps[i]
	case kind == "replace" && len(ps) >= 1:
		i := rapid.IntRange(0, len(ps)-1).Draw(t, "replaceAt")
		ps[i] = rapid.SampledFrom(c07ParentIDs).Draw(t, "replaceWith")
	case kind == "drop" && len(ps) >= 1:
		i := rapid.IntRange(0, len(ps)-1).Draw(t, "dropAt")
		ps = append(ps[:i:i], ps[i+1:]...)
	default:
		kind = "add"
		i := rapid.IntRange(0, len(ps)).Draw(t, "addAt")
		np := rapid.SampledFrom(c07ParentIDs).Draw(t, "addParent")
		ps = append(ps[:i:i], append([]string{np}, ps[i:]...)...)
	}
	return ps, kind
}

// c07MultiParentItems lists the items that name at least two different parents.
func c07MultiParentItems(m *c07Model) []string {
	var out []string
	for _, id := range c07SortedKeys(m.items) {
		ps := m.items[id].parents
		for _, p := range ps {
			if p != ps[0] {
				out = append(out, id)
				break
			}
		}
	}
	return out
}

func c07SameMultiset(a, b []string) bool {
	if len(a) != len(b) {
		return false
	}
	x, y := append([]string{}, a...), append([]string{}, b...)
	sort.Strings(x)
	sort.Strings(y)
	for i := range x {
		if x[i] != y[i] {
			return false
		}
	}
	return true
}

func c07SameSet(a, b []string) bool {
	in := func(s []string, v string) bool {
		for _, x := range s {
			if x == v {
				return true
			}
		}
		return false
	}
	for _, v := range a {
		if !in(b, v) {
			return false
		}
	}
	for _, v := range b {
		if !in(a, v) {
			return false
		}
	}
	return true
}

func c07MapsEqual(a, b map[string]string) bool {
	if len(a) != len(b) {
		return false
	}
	for k, v := range a {
		if w, ok := b[k]; !ok || w != v {
			return false
		}
	}
	return true
}

type c07ItemModel struct {
	labels  map[string]string
	parents []string
}

type c07Model struct {
	items   map[string]*c07ItemModel
	parents map[string]map[string]string // absent = no labels known
	sels    map[string]*selector.Selector
}

func (m *c07Model) effective(id string) map[string]string {
	it := m.items[id]
	eff := map[string]string{}
	for i := len(it.parents) - 1; i >= 0; i-- { // earlier parents win
		for k, v := range m.parents[it.parents[i]] {
			eff[k] = v
		}
	}
	for k, v := range it.labels {
		eff[k] = v
	}
	return eff
}

func c07SortedKeys[V any](m map[string]V) []string {
	out := make([]string, 0, len(m))
	for k := range m {
		out = append(out, k)
	}
	sort.Strings(out)
	return out
}

// c07Labeled presents a plain effective-label map through the Labeled interface used by
// LabelRestrictionIndex.AllPotentialMatches (each applicable KV exactly once).
type c07Labeled map[string]string

func (l c07Labeled) AllOwnAndParentLabelHandles() iter.Seq2[uniquestr.Handle, uniquestr.Handle] {
	return func(yield func(k, v uniquestr.Handle) bool) {
		for _, k := range c07SortedKeys(l) {
			if !yield(uniquestr.Make(k), uniquestr.Make(l[k])) {
				return
			}
		}
	}
}

// c07Own is the item type stored in the LabelNameValueIndex (own labels only).
type c07Own struct{ labels uniquelabels.Map }

func (o c07Own) OwnLabelHandles() iter.Seq2[uniquestr.Handle, uniquestr.Handle] {
	return o.labels.AllHandles()
}

type c07Pair struct{ sel, item string }

func c07RestrictionKinds(sel *selector.Selector) []string {
	lrs := sel.LabelRestrictions()
	if lrs.Len() == 0 {
		return []string{"sel-unrestricted"}
	}
	seen := map[string]bool{}
	for _, r := range lrs.All() {
		switch {
		case !r.PossibleToSatisfy():
			seen["sel-unsatisfiable"] = true
		case r.MustHaveOneOfValues != nil:
			seen["sel-must-have-values"] = true
		case r.MustBePresent:
			seen["sel-must-be-present"] = true
		case r.MustBeAbsent:
			seen["sel-must-be-absent"] = true
		}
	}
	return c07SortedKeys(seen)
}

func TestVerifC07LabelIndexes(t *testing.T) {
	ev.Quiet()
	rec := ev.New("C07", "labelindex",
		"rapid state machine over InheritIndex (UpdateLabels/DeleteLabels with parent lists, UpdateParentLabels/DeleteParentLabels, UpdateSelector/DeleteSelector incl. same-id replacement and re-add), mirrored into LabelRestrictionIndex (selectors) and LabelNameValueIndex (items' own labels); 5 items, 3 parents, 4 selector ids, labels a/b/c x {x,y,z,''} and w x 6 values; selectors from the grammar biased to ==, in, has, !has and their negations/ORs. Non-trivial = a parent-label change flipped >=1 match, or candidate pruning excluded >=1 (selector,item) pair; distinct = distinct sequence of action kinds with their flip/prune outcome",
		"effective labels: own labels override parents; among parents the first listed one that has the label wins (labelindex package doc + GetHandle order)",
		"direct evaluation = Selector.Evaluate on the effective label map")
	defer rec.Write()
	rapid.Check(t, func(t *rapid.T) {
		m := &c07Model{items: map[string]*c07ItemModel{}, parents: map[string]map[string]string{}, sels: map[string]*selector.Selector{}}
		active := map[c07Pair]bool{}
		var cbErr string
		idx := labelindex.NewInheritIndex(
			func(selID, itemID any) {
				p := c07Pair{selID.(string), itemID.(string)}
				if active[p] && cbErr == "" {
					cbErr = fmt.Sprintf("OnMatchStarted(%s,%s) while the match is already started (two starts)", p.sel, p.item)
				}
				active[p] = true
			},
			func(selID, itemID any) {
				p := c07Pair{selID.(string), itemID.(string)}
				if !active[p] && cbErr == "" {
					cbErr = fmt.Sprintf("OnMatchStopped(%s,%s) without a preceding start", p.sel, p.item)
				}
				delete(active, p)
			},
		)
		lri := labelrestrictionindex.New[string]()
		nvi := labelnamevalueindex.New[string, c07Own]("items")

		var ops []string
		nSelectors, nSameLabelAnd, nUnsortedOr := 0, 0, 0
		classes := map[string]bool{}
		nontrivial := false
		parentFlip := false
		pruned := false

		snapshot := func() map[c07Pair]bool {
			s := make(map[c07Pair]bool, len(active))
			for k := range active {
				s[k] = true
			}
			return s
		}
		diff := func(before map[c07Pair]bool) int {
			n := 0
			for k := range before {
				if !active[k] {
					n++
				}
			}
			for k := range active {
				if !before[k] {
					n++
				}
			}
			return n
		}

		check := func(t *rapid.T) {
			if cbErr != "" {
				t.Fatalf("callback stream malformed: %s", cbErr)
			}
			// 1. InheritIndex match relation == direct evaluation on effective labels.
			want := map[c07Pair]bool{}
			for _, sid := range c07SortedKeys(m.sels) {
				for _, iid := range c07SortedKeys(m.items) {
					if m.sels[sid].Evaluate(m.effective(iid)) {
						want[c07Pair{sid, iid}] = true
					}
				}
			}
			for p := range want {
				if !active[p] {
					t.Fatalf("InheritIndex does not report %s (%s) as matching %s although direct evaluation on effective labels %v matches (own=%v parents=%v)",
						p.sel, m.sels[p.sel], p.item, m.effective(p.item), m.items[p.item].labels, m.items[p.item].parents)
				}
			}
			for p := range active {
				if !want[p] {
					eff := "deleted item"
					if _, ok := m.items[p.item]; ok {
						eff = fmt.Sprint(m.effective(p.item))
					}
					selTxt := "deleted selector"
					if s, ok := m.sels[p.sel]; ok {
						selTxt = s.String()
					}
					t.Fatalf("InheritIndex reports %s (%s) as matching %s (effective labels %s) but direct evaluation says no", p.sel, selTxt, p.item, eff)
				}
			}
			// 2/3. Pruning soundness.
			for _, iid := range c07SortedKeys(m.items) {
				eff := m.effective(iid)
				own := m.items[iid].labels
				cands := map[string]bool{}
				for sid, sel := range lri.AllPotentialMatches(c07Labeled(eff)) {
					cands[sid] = true
					_ = sel
				}
				for _, sid := range c07SortedKeys(m.sels) {
					sel := m.sels[sid]
					matches := sel.Evaluate(eff)
					if matches && !cands[sid] {
						t.Fatalf("LabelRestrictionIndex.AllPotentialMatches excludes selector %s (%s) for item %s with effective labels %v although the selector matches; restrictions=%v",
							sid, sel, iid, eff, sel.LabelRestrictions())
					}
					if !matches && !cands[sid] {
						pruned = true
					}
					if matches {
						// The restriction summary itself must be satisfied by a matching label set.
						for ln, r := range sel.LabelRestrictions().All() {
							v, present := eff[ln.Value()]
							bad := ""
							if r.MustBePresent && !present {
								bad = "MustBePresent but label absent"
							}
							if r.MustBeAbsent && present {
								bad = "MustBeAbsent but label present"
							}
							if r.MustHaveOneOfValues != nil {
								ok := false
								for _, h := range r.MustHaveOneOfValues {
									if present && h.Value() == v {
										ok = true
									}
								}
								if !ok {
									bad = fmt.Sprintf("MustHaveOneOfValues=%v but value is %q (present=%v)", uniquestr.HandleSliceStringer(r.MustHaveOneOfValues), v, present)
								}
							}
							if bad != "" {
								t.Fatalf("LabelRestrictions of %s (%s) state a restriction on label %q that matching labels %v violate: %s", sid, sel, ln.Value(), eff, bad)
							}
						}
					}
					// LabelNameValueIndex indexes own labels only: judge it on the item's own labels.
					if sel.Evaluate(own) {
						for ln, r := range sel.LabelRestrictions().All() {
							strat := nvi.StrategyFor(ln, r)
							found := false
							strat.Scan(func(id string) bool {
								if id == iid {
									found = true
								}
								return true
							})
							if !found {
								t.Fatalf("LabelNameValueIndex.StrategyFor(%q, %v) = %s does not scan item %s whose own labels %v match selector %s (%s)",
									ln.Value(), r, strat, iid, own, sid, sel)
							}
							classes["strategy-"+strat.Name()] = true
						}
					}
				}
			}
		}

		genItem := func(t *rapid.T) (string, map[string]string, []string) {
			id := rapid.SampledFrom(c07ItemIDs).Draw(t, "item")
			labels := c07Labels(t, "item")
			n := rapid.SampledFrom([]int{0, 1, 1, 1, 2, 2, 3}).Draw(t, "numParents")
			var parents []string
			for i := 0; i < n; i++ {
				parents = append(parents, rapid.SampledFrom(c07ParentIDs).Draw(t, "parent"))
			}
			return id, labels, parents
		}

		t.Repeat(map[string]func(*rapid.T){
			"updateItem": func(t *rapid.T) {
				id, labels, parents := genItem(t)
				seen := map[string]bool{}
				for _, p := range parents {
					if seen[p] {
						classes["duplicate-parent-id"] = true
					}
					seen[p] = true
				}
				if len(parents) >= 2 {
					classes["multi-parent"] = true
				}
				_, existed := m.items[id]
				m.items[id] = &c07ItemModel{labels: labels, parents: parents}
				idx.UpdateLabels(id, uniquelabels.Make(labels), parents)
				if existed {
					nvi.Remove(id)
				}
				nvi.Add(id, c07Own{labels: uniquelabels.Make(labels)})
				ops = append(ops, "I")
			},
			"deleteItem": func(t *rapid.T) {
				id := rapid.SampledFrom(c07ItemIDs).Draw(t, "item")
				if _, ok := m.items[id]; ok {
					nvi.Remove(id)
				}
				delete(m.items, id)
				idx.DeleteLabels(id)
				ops = append(ops, "i")
			},
			"touchItem": func(t *rapid.T) {
				// Update an existing item's own labels (sometimes to the same value), keeping its
				// parent list - whatever state those parents are in (missing, label-less, ...).
				ids := c07SortedKeys(m.items)
				if len(ids) == 0 {
					ops = append(ops, "-")
					return
				}
				id := rapid.SampledFrom(ids).Draw(t, "item")
				it := m.items[id]
				labels := it.labels
				if rapid.IntRange(0, 3).Draw(t, "sameLabels") != 0 {
					labels = c07Labels(t, "item")
				}
				for _, p := range it.parents {
					if len(m.parents[p]) == 0 {
						classes["item-updated-while-parent-has-no-labels"] = true
					}
				}
				m.items[id] = &c07ItemModel{labels: labels, parents: it.parents}
				idx.UpdateLabels(id, uniquelabels.Make(labels), append([]string{}, it.parents...))
				nvi.Remove(id)
				nvi.Add(id, c07Own{labels: uniquelabels.Make(labels)})
				ops = append(ops, "T")
			},
			"reparentItem": func(t *rapid.T) {
				// Change only the parent list of an existing item (labels unchanged).
				ids := c07SortedKeys(m.items)
				if len(ids) == 0 {
					ops = append(ops, "-")
					return
				}
				if multi := c07MultiParentItems(m); len(multi) > 0 && rapid.IntRange(0, 3).Draw(t, "preferMultiParent") != 0 {
					ids = multi
				}
				id := rapid.SampledFrom(ids).Draw(t, "item")
				it := m.items[id]
				effBefore := m.effective(id)
				parents, kind := c07MutateParents(t, it.parents)
				m.items[id] = &c07ItemModel{labels: it.labels, parents: parents}
				effAfter := m.effective(id)
				switch {
				case c07SameMultiset(it.parents, parents):
					classes["parents-only-permuted"] = true
					if !c07MapsEqual(effBefore, effAfter) {
						classes["parents-only-permuted-changes-effective-labels"] = true
					}
				case c07SameSet(it.parents, parents) || len(it.parents) == len(parents):
					classes["parents-same-length-change"] = true
				}
				idx.UpdateLabels(id, uniquelabels.Make(it.labels), append([]string{}, parents...))
				ops = append(ops, "R"+kind[:1])
			},
			"updateParent": func(t *rapid.T) {
				id := rapid.SampledFrom(c07ParentIDs).Draw(t, "parentID")
				labels := c07Labels(t, "parent")
				before := snapshot()
				if len(m.parents[id]) == 0 && len(labels) > 0 {
					for _, it := range m.items {
						for _, p := range it.parents {
							if p == id {
								classes["parent-labels-appear-while-referenced"] = true
							}
						}
					}
				}
				m.parents[id] = labels
				idx.UpdateParentLabels(id, labels)
				if n := diff(before); n > 0 {
					parentFlip = true
					ops = append(ops, "P+")
				} else {
					ops = append(ops, "P")
				}
			},
			"deleteParent": func(t *rapid.T) {
				id := rapid.SampledFrom(c07ParentIDs).Draw(t, "parentID")
				before := snapshot()
				delete(m.parents, id)
				idx.DeleteParentLabels(id)
				if n := diff(before); n > 0 {
					parentFlip = true
					ops = append(ops, "p+")
				} else {
					ops = append(ops, "p")
				}
			},
			"updateSelector": func(t *rapid.T) {
				id := rapid.SampledFrom(c07SelIDs).Draw(t, "selID")
				var info c07SelInfo
				var txt string
				if rapid.IntRange(0, 4).Draw(t, "selTopSameLabelAnd") == 0 {
					txt = c07SameLabelAnd(t, &info)
				} else {
					txt = c07SelText(t, rapid.IntRange(0, 3).Draw(t, "selDepth"), &info)
				}
				nSelectors++
				if info.sameLabelAnd {
					nSameLabelAnd++
					classes["and-same-label"] = true
				}
				if info.unsortedOr {
					nUnsortedOr++
					classes["and-same-label-or-unsorted"] = true
				}
				sel, err := selector.Parse(txt)
				if err != nil {
					t.Fatalf("HARNESS-GAP: generated selector %q does not parse: %v", txt, err)
				}
				for _, c := range c07RestrictionKinds(sel) {
					classes[c] = true
				}
				if _, ok := m.sels[id]; ok {
					classes["selector-replaced-in-place"] = true
				}
				m.sels[id] = sel
				idx.UpdateSelector(id, sel)
				lri.AddSelector(id, sel)
				ops = append(ops, "S")
			},
			"deleteSelector": func(t *rapid.T) {
				id := rapid.SampledFrom(c07SelIDs).Draw(t, "selID")
				delete(m.sels, id)
				idx.DeleteSelector(id)
				lri.DeleteSelector(id)
				ops = append(ops, "s")
			},
			"": check,
		})
		nontrivial = parentFlip || pruned
		if parentFlip {
			classes["parent-change-flipped-match"] = true
		}
		if pruned {
			classes["pruning-excluded-nonmatching"] = true
		}
		cls := c07SortedKeys(classes)
		rec.Class("selectors-generated", int64(nSelectors))
		rec.Class("selectors-and-same-label", int64(nSameLabelAnd))
		rec.Class("selectors-and-same-label-or-unsorted", int64(nUnsortedOr))
		key := strings.Join(ops, "")
		if pruned {
			key += "|pruned"
		}
		rec.SizedCase(nontrivial, key, len(ops), func() any {
			sels := map[string]string{}
			for k, s := range m.sels {
				sels[k] = s.String()
			}
			items := map[string]any{}
			for k, it := range m.items {
				items[k] = map[string]any{"labels": it.labels, "parents": it.parents, "effective": m.effective(k)}
			}
			return map[string]any{"ops": key, "final_selectors": sels, "final_items": items, "final_parents": m.parents}
		}, cls...)
	})
}

// ---- the second label index: SelectorAndNamedPortIndex ----
//
// Every endpoint gets one fixed, unique address and every IP set is a plain selector set, so
// "member <addr of e> is in IP set s" is exactly "the index reports s as matching e", and
// member added/removed callbacks are the match start/stop notifications.  This exercises the
// inheritance-aware candidate pruning (endpoint-label index vs profile-label index) that is
// not reachable through the three exported index types above.

func c07EndpointAddr(i int) string { return fmt.Sprintf("10.7.0.%d/32", i+1) }

// c07PositiveLabels returns the label names on which sel places a "must be present"
// restriction.
func c07PositiveLabels(sel *selector.Selector) []string {
	var out []string
	for ln, r := range sel.LabelRestrictions().All() {
		if r.MustBePresent {
			out = append(out, ln.Value())
		}
	}
	sort.Strings(out)
	return out
}

func TestVerifC07SelectorIndexMatching(t *testing.T) {
	ev.Quiet()
	rec := ev.New("C07", "selectorindex",
		"rapid state machine over SelectorAndNamedPortIndex used as a selector->endpoint matcher: 5 endpoints with one fixed unique address each (UpdateEndpointOrSet/DeleteEndpoint; updates that keep the profile list, that only permute/replace/add/drop profile ids, duplicates), 3 profiles (UpdateParentLabels/DeleteParentLabels; referenced before they exist, label-less, deleted and re-created), 4 plain selector IP sets with a fixed definition per id, activated/deleted/re-activated before and after the endpoints exist; the SAME label names are used on endpoints and on profiles. Non-trivial = an IP set was activated while >=1 endpoint existed and a label it positively restricts was present both directly on an endpoint and on a profile, or a profile change flipped >=1 match; distinct = distinct action-kind sequence",
		"effective labels: own labels override profile labels; first listed profile wins",
		"direct evaluation = Selector.Evaluate on the effective label map",
		"an IP set id always stands for the same selector (Felix derives the id from the definition)")
	defer rec.Write()
	rapid.Check(t, func(t *rapid.T) {
		m := &c07Model{items: map[string]*c07ItemModel{}, parents: map[string]map[string]string{}, sels: map[string]*selector.Selector{}}
		addrToItem := map[string]string{}
		itemAddr := map[string][]ip.CIDR{}
		for i, id := range c07ItemIDs {
			c := ip.MustParseCIDROrIP(c07EndpointAddr(i))
			itemAddr[id] = []ip.CIDR{c}
			addrToItem[c.String()] = id
		}
		active := map[c07Pair]bool{}
		var cbErr string
		idx := labelindex.NewSelectorAndNamedPortIndex(false)
		pairOf := func(setID string, member ipsetmember.IPSetMember) (c07Pair, bool) {
			cm, ok := member.(ipsetmember.CIDROrIPOnlyIPSetMember)
			if !ok {
				cbErr = fmt.Sprintf("HARNESS-GAP: unexpected member type %T", member)
				return c07Pair{}, false
			}
			item, ok := addrToItem[cm.CIDR().String()]
			if !ok {
				cbErr = fmt.Sprintf("member %s of IP set %s is not the address of any endpoint", cm.CIDR(), setID)
				return c07Pair{}, false
			}
			return c07Pair{setID, item}, true
		}
		idx.OnMemberAdded = func(setID string, member ipsetmember.IPSetMember) {
			p, ok := pairOf(setID, member)
			if !ok || cbErr != "" {
				return
			}
			if _, known := m.sels[setID]; !known {
				cbErr = fmt.Sprintf("match start (%s,%s) for a selector that is not active", p.sel, p.item)
				return
			}
			if active[p] {
				cbErr = fmt.Sprintf("match start (%s,%s) while the match is already started (two starts)", p.sel, p.item)
				return
			}
			active[p] = true
		}
		idx.OnMemberRemoved = func(setID string, member ipsetmember.IPSetMember) {
			p, ok := pairOf(setID, member)
			if !ok || cbErr != "" {
				return
			}
			if _, known := m.sels[setID]; !known {
				return
			}
			if !active[p] {
				cbErr = fmt.Sprintf("match stop (%s,%s) without a preceding start", p.sel, p.item)
				return
			}
			delete(active, p)
		}

		// Fixed selector per IP set id for this case.
		defs := map[string]*selector.Selector{}
		classes := map[string]bool{}
		for _, id := range c07SelIDs {
			var info c07SelInfo
			var txt string
			switch rapid.IntRange(0, 5).Draw(t, "defKind") {
			case 0:
				txt = c07SameLabelAnd(t, &info)
			default:
				txt = c07SelText(t, rapid.IntRange(0, 2).Draw(t, "selDepth"), &info)
			}
			sel, err := selector.Parse(txt)
			if err != nil {
				t.Fatalf("HARNESS-GAP: generated selector %q does not parse: %v", txt, err)
			}
			defs[id] = sel
		}

		var ops []string
		sharedLabelScan, flip := false, false

		snapshot := func() map[c07Pair]bool {
			s := make(map[c07Pair]bool, len(active))
			for k := range active {
				s[k] = true
			}
			return s
		}
		changed := func(before map[c07Pair]bool) bool {
			if len(before) != len(active) {
				return true
			}
			for k := range before {
				if !active[k] {
					return true
				}
			}
			return false
		}
		push := func(id string) {
			it := m.items[id]
			idx.UpdateEndpointOrSet(id, uniquelabels.Make(it.labels), itemAddr[id], nil, append([]string{}, it.parents...))
		}

		check := func(t *rapid.T) {
			if cbErr != "" {
				t.Fatalf("match notifications malformed: %s", cbErr)
			}
			for _, sid := range c07SortedKeys(m.sels) {
				for _, iid := range c07SortedKeys(m.items) {
					p := c07Pair{sid, iid}
					want := m.sels[sid].Evaluate(m.effective(iid))
					if want != active[p] {
						t.Fatalf("SelectorAndNamedPortIndex reports match=%v for selector %s (%s) and endpoint %s, direct evaluation on effective labels %v says %v (own=%v parents=%v profiles=%v)",
							active[p], sid, m.sels[sid], iid, m.effective(iid), want, m.items[iid].labels, m.items[iid].parents, m.parents)
					}
				}
			}
			for p := range active {
				_, okS := m.sels[p.sel]
				_, okI := m.items[p.item]
				if !okS || !okI {
					t.Fatalf("SelectorAndNamedPortIndex still reports selector %s as matching endpoint %s although one of them was deleted", p.sel, p.item)
				}
			}
		}

		t.Repeat(map[string]func(*rapid.T){
			"updateEndpoint": func(t *rapid.T) {
				id := rapid.SampledFrom(c07ItemIDs).Draw(t, "item")
				labels := c07Labels(t, "item")
				n := rapid.SampledFrom([]int{0, 1, 1, 1, 2, 2, 3}).Draw(t, "numParents")
				var parents []string
				for i := 0; i < n; i++ {
					parents = append(parents, rapid.SampledFrom(c07ParentIDs).Draw(t, "parent"))
				}
				m.items[id] = &c07ItemModel{labels: labels, parents: parents}
				push(id)
				ops = append(ops, "I")
			},
			"touchEndpoint": func(t *rapid.T) {
				ids := c07SortedKeys(m.items)
				if len(ids) == 0 {
					ops = append(ops, "-")
					return
				}
				id := rapid.SampledFrom(ids).Draw(t, "item")
				it := m.items[id]
				for _, p := range it.parents {
					if len(m.parents[p]) == 0 {
						classes["item-updated-while-parent-has-no-labels"] = true
					}
				}
				m.items[id] = &c07ItemModel{labels: c07Labels(t, "item"), parents: it.parents}
				push(id)
				ops = append(ops, "T")
			},
			"reparentEndpoint": func(t *rapid.T) {
				ids := c07SortedKeys(m.items)
				if len(ids) == 0 {
					ops = append(ops, "-")
					return
				}
				if multi := c07MultiParentItems(m); len(multi) > 0 && rapid.IntRange(0, 3).Draw(t, "preferMultiParent") != 0 {
					ids = multi
				}
				id := rapid.SampledFrom(ids).Draw(t, "item")
				it := m.items[id]
				effBefore := m.effective(id)
				parents, kind := c07MutateParents(t, it.parents)
				m.items[id] = &c07ItemModel{labels: it.labels, parents: parents}
				if c07SameMultiset(it.parents, parents) {
					classes["parents-only-permuted"] = true
					if !c07MapsEqual(effBefore, m.effective(id)) {
						classes["parents-only-permuted-changes-effective-labels"] = true
					}
				}
				push(id)
				ops = append(ops, "R"+kind[:1])
			},
			"deleteEndpoint": func(t *rapid.T) {
				id := rapid.SampledFrom(c07ItemIDs).Draw(t, "item")
				delete(m.items, id)
				idx.DeleteEndpoint(id)
				ops = append(ops, "i")
			},
			"updateProfile": func(t *rapid.T) {
				id := rapid.SampledFrom(c07ParentIDs).Draw(t, "parentID")
				labels := c07Labels(t, "parent")
				before := snapshot()
				if len(m.parents[id]) == 0 && len(labels) > 0 {
					for _, it := range m.items {
						for _, p := range it.parents {
							if p == id {
								classes["parent-labels-appear-while-referenced"] = true
							}
						}
					}
				}
				m.parents[id] = labels
				idx.UpdateParentLabels(id, labels)
				if changed(before) {
					flip = true
					ops = append(ops, "P+")
				} else {
					ops = append(ops, "P")
				}
			},
			"deleteProfile": func(t *rapid.T) {
				id := rapid.SampledFrom(c07ParentIDs).Draw(t, "parentID")
				before := snapshot()
				delete(m.parents, id)
				idx.DeleteParentLabels(id)
				if changed(before) {
					flip = true
					ops = append(ops, "p+")
				} else {
					ops = append(ops, "p")
				}
			},
			"activateSelector": func(t *rapid.T) {
				id := rapid.SampledFrom(c07SelIDs).Draw(t, "selID")
				sel := defs[id]
				if _, ok := m.sels[id]; !ok {
					if len(m.items) > 0 {
						classes["selector-activated-after-endpoints"] = true
						// Is a positively restricted label present both directly on an endpoint and on a profile?
						for _, ln := range c07PositiveLabels(sel) {
							onItem, onParent := false, false
							for _, it := range m.items {
								if _, ok := it.labels[ln]; ok {
									onItem = true
								}
							}
							for _, pl := range m.parents {
								if _, ok := pl[ln]; ok {
									onParent = true
								}
							}
							if onItem && onParent {
								sharedLabelScan = true
							}
						}
					} else {
						classes["selector-activated-before-endpoints"] = true
					}
					for _, c := range c07RestrictionKinds(sel) {
						classes[c] = true
					}
				}
				m.sels[id] = sel
				idx.UpdateIPSet(id, sel, ipsetmember.ProtocolNone, "")
				ops = append(ops, "S")
			},
			"deleteSelector": func(t *rapid.T) {
				id := rapid.SampledFrom(c07SelIDs).Draw(t, "selID")
				if _, ok := m.sels[id]; !ok {
					ops = append(ops, "-")
					return
				}
				idx.DeleteIPSet(id)
				delete(m.sels, id)
				// The whole IP set goes away; no per-member notifications are sent for it.
				for p := range active {
					if p.sel == id {
						delete(active, p)
					}
				}
				ops = append(ops, "s")
			},
			"": check,
		})
		if sharedLabelScan {
			classes["scan-with-label-on-both-endpoint-and-profile"] = true
		}
		if flip {
			classes["parent-change-flipped-match"] = true
		}
		key := strings.Join(ops, "")
		rec.SizedCase(sharedLabelScan || flip, key, len(ops), func() any {
			sels := map[string]string{}
			for k, s := range m.sels {
				sels[k] = s.String()
			}
			items := map[string]any{}
			for k, it := range m.items {
				items[k] = map[string]any{"labels": it.labels, "parents": it.parents, "effective": m.effective(k)}
			}
			return map[string]any{"ops": key, "final_selectors": sels, "final_items": items, "final_parents": m.parents}
		}, c07SortedKeys(classes)...)
	})
}
