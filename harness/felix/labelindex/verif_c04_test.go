package labelindex_test

// C04 — IP set contents equal the addresses selected by the rule.
//
// Statement: every IP set Felix emits for a rule selector contains exactly the addresses of
// the endpoints and network sets whose effective labels match that selector (for named-port
// sets, exactly the address, protocol and port combinations of matching endpoints' named
// ports), each member once however many endpoints contribute it.  Where overlapping CIDRs
// are suppressed, the emitted members cover exactly the same addresses and no emitted member
// lies inside another.
//
// The harness drives labelindex.SelectorAndNamedPortIndex the way the calculation graph
// does: endpoints, network sets and profiles arrive through OnUpdate (api.Update with the
// backend model types), IP sets through UpdateIPSet/DeleteIPSet; members are observed on
// OnMemberAdded/OnMemberRemoved.  Reference = direct Selector.Evaluate on the effective
// labels of every resource in a plain model.

import (
	"fmt"
	"net/netip"
	"sort"
	"strconv"
	"strings"
	"testing"

	v3 "github.com/projectcalico/api/pkg/apis/projectcalico/v3"
	"github.com/projectcalico/api/pkg/lib/numorstring"
	"pgregory.net/rapid"

	"github.com/projectcalico/calico/felix/labelindex"
	"github.com/projectcalico/calico/felix/labelindex/ipsetmember"
	"github.com/projectcalico/calico/lib/std/uniquelabels"
	"github.com/projectcalico/calico/libcalico-go/lib/backend/api"
	"github.com/projectcalico/calico/libcalico-go/lib/backend/model"
	calinet "github.com/projectcalico/calico/libcalico-go/lib/net"
	"github.com/projectcalico/calico/libcalico-go/lib/selector"
	"github.com/projectcalico/calico/verifkit/ev"
)

var (
	c04LabelNames = []string{"a", "b", "c"}
	c04Values     = []string{"x", "x", "y", "z"}
	c04ParentIDs  = []string{"p0", "p1", "p2"}
	c04ResIDs     = []string{"wep0", "wep1", "wep2", "hep0", "ns0", "ns1", "ns2"}
	c04SetIDs     = []string{"set0", "set1", "set2", "set3", "set4"}
	c04PortNames  = []string{"http", "dns"}

	// Endpoint addresses (shared between endpoints on purpose).
	c04EndpointIPs = []string{"10.0.0.1", "10.0.0.2", "10.0.0.5", "10.0.1.1", "10.0.1.2", "fd00::1", "fd00::2"}

	// Network-set CIDRs: nested, equal (10.0.0.5/30 == 10.0.0.4/30 once masked), adjacent, /0 and /1, single addresses
	// equal to endpoint addresses.
	c04NetsetCIDRs = []string{
		"0.0.0.0/0", "0.0.0.0/1", "128.0.0.0/1", "10.0.0.0/8", "10.0.0.0/24", "10.0.0.0/25",
		"10.0.0.0/27", "10.0.0.0/28", "10.0.0.16/28", "10.0.0.0/30", "10.0.0.4/30", "10.0.0.5/30",
		"10.0.0.0/31", "10.0.0.0/32", "10.0.0.1/32", "10.0.0.2/32", "10.0.0.5/32",
		"10.0.1.0/30", "10.0.1.0/31", "10.0.1.1/32", "10.0.1.2/32",
		"::/0", "::/1", "8000::/1", "fd00::/8", "fd00::/64", "fd00::/123", "fd00::/124", "fd00::10/124",
		"fd00::/127", "fd00::/128", "fd00::1/128", "fd00::2/128",
	}

	c04PortProtocols = []numorstring.Protocol{
		numorstring.ProtocolFromString("TCP"), numorstring.ProtocolFromString("UDP"), numorstring.ProtocolFromString("SCTP"),
		numorstring.ProtocolFromStringV1("tcp"), numorstring.ProtocolFromStringV1("udp"), numorstring.ProtocolFromStringV1("sctp"),
		numorstring.ProtocolFromInt(6), numorstring.ProtocolFromInt(17), numorstring.ProtocolFromInt(132),
		numorstring.ProtocolFromString("TCP"), numorstring.ProtocolFromStringV1("tcp"), numorstring.ProtocolFromInt(6),
	}

	c04Probes = c04MakeProbes()
)

// c04MakeProbes returns every address at which coverage by pool CIDRs can change: for each
// CIDR its first and last address and their outer neighbours.
func c04MakeProbes() []netip.Addr {
	seen := map[netip.Addr]bool{}
	add := func(a netip.Addr) {
		if a.IsValid() {
			seen[a] = true
		}
	}
	all := append([]string{}, c04NetsetCIDRs...)
	for _, s := range c04EndpointIPs {
		all = append(all, s+"/"+map[bool]string{true: "128", false: "32"}[strings.Contains(s, ":")])
	}
	for _, s := range all {
		p := netip.MustParsePrefix(s).Masked()
		first := p.Addr()
		last := c04LastAddr(p)
		add(first)
		add(first.Prev())
		add(last)
		add(last.Next())
	}
	out := make([]netip.Addr, 0, len(seen))
	for a := range seen {
		out = append(out, a)
	}
	sort.Slice(out, func(i, j int) bool { return out[i].Less(out[j]) })
	return out
}

func c04LastAddr(p netip.Prefix) netip.Addr {
	b := p.Masked().Addr().AsSlice()
	for i := p.Bits(); i < len(b)*8; i++ {
		b[i/8] |= 1 << (7 - uint(i%8))
	}
	a, _ := netip.AddrFromSlice(b)
	return a
}

type c04Port struct {
	name  string
	proto int // 6, 17, 132
	port  uint16
}

type c04Res struct {
	kind    string // wep, hep, ns
	labels  map[string]string
	nets    []netip.Prefix // normalised contribution (what the resource's addresses are)
	ports   []c04Port
	parents []string
}

type c04Set struct {
	selText string
	sel     *selector.Selector
	port    string
	proto   ipsetmember.Protocol
}

type c04Model struct {
	res     map[string]*c04Res
	parents map[string]map[string]string
	sets    map[string]*c04Set // active sets
}

func (m *c04Model) effective(r *c04Res) map[string]string {
	eff := map[string]string{}
	for i := len(r.parents) - 1; i >= 0; i-- {
		for k, v := range m.parents[r.parents[i]] {
			eff[k] = v
		}
	}
	for k, v := range r.labels {
		eff[k] = v
	}
	return eff
}

// reference returns, for one IP set, how many resources contribute each member.
func (m *c04Model) reference(s *c04Set) map[string]int {
	out := map[string]int{}
	for _, id := range c04SortedKeys(m.res) {
		r := m.res[id]
		if !s.sel.Evaluate(m.effective(r)) {
			continue
		}
		if s.proto == ipsetmember.ProtocolNone {
			for _, n := range r.nets {
				out[n.String()]++
			}
			continue
		}
		for _, p := range r.ports {
			if p.name != s.port || p.proto != int(s.proto) {
				continue
			}
			for _, n := range r.nets {
				out[c04PortMember(n.Addr(), p.proto, p.port)]++
			}
		}
	}
	return out
}

func c04PortMember(a netip.Addr, proto int, port uint16) string {
	return fmt.Sprintf("%s,%d:%d", a, proto, port)
}

func c04SortedKeys[V any](m map[string]V) []string {
	out := make([]string, 0, len(m))
	for k := range m {
		out = append(out, k)
	}
	sort.Strings(out)
	return out
}

// c04MemberKey converts an emitted member into the harness's canonical key.
func c04MemberKey(member ipsetmember.IPSetMember) (string, error) {
	if cm, ok := member.(ipsetmember.CIDROrIPOnlyIPSetMember); ok {
		p, err := netip.ParsePrefix(cm.CIDR().String())
		if err != nil {
			return "", fmt.Errorf("cannot parse CIDR member %v: %v", member, err)
		}
		if p != p.Masked() {
			return "", fmt.Errorf("CIDR member %v has host bits set", member)
		}
		return p.String(), nil
	}
	s := member.ToProtobufFormat() // "<addr>,<proto>:<port>"
	i := strings.LastIndex(s, ",")
	j := strings.LastIndex(s, ":")
	if i < 0 || j < i {
		return "", fmt.Errorf("cannot parse member %q", s)
	}
	a, err := netip.ParseAddr(s[:i])
	if err != nil {
		return "", fmt.Errorf("cannot parse member %q: %v", s, err)
	}
	proto, ok := map[string]int{"tcp": 6, "udp": 17, "sctp": 132}[s[i+1:j]]
	if !ok {
		return "", fmt.Errorf("unknown protocol in member %q", s)
	}
	port, err := strconv.ParseUint(s[j+1:], 10, 16)
	if err != nil {
		return "", fmt.Errorf("cannot parse member %q: %v", s, err)
	}
	return c04PortMember(a, proto, uint16(port)), nil
}

func c04Covers(members []netip.Prefix, a netip.Addr) bool {
	for _, p := range members {
		if p.Contains(a) {
			return true
		}
	}
	return false
}

func c04Prefixes(keys []string) []netip.Prefix {
	out := make([]netip.Prefix, 0, len(keys))
	for _, k := range keys {
		out = append(out, netip.MustParsePrefix(k))
	}
	return out
}

func c04StrictlyInside(inner, outer netip.Prefix) bool {
	return inner != outer && inner.Addr().Is4() == outer.Addr().Is4() &&
		outer.Bits() < inner.Bits() && outer.Contains(inner.Addr())
}

func c04Labels(t *rapid.T, what string) map[string]string {
	m := map[string]string{}
	for _, name := range c04LabelNames {
		if rapid.IntRange(0, 9).Draw(t, what+"Has_"+name) < 5 {
			m[name] = rapid.SampledFrom(c04Values).Draw(t, what+"Val_"+name)
		}
	}
	return m
}

func c04SelText(t *rapid.T, depth int) string {
	k := 0
	if depth > 0 {
		k = rapid.IntRange(0, 9).Draw(t, "selNode")
	}
	switch {
	case k <= 4:
		name := rapid.SampledFrom(c04LabelNames).Draw(t, "selLabel")
		val := func() string { return rapid.SampledFrom(c04Values).Draw(t, "selValue") }
		set := func() string {
			n := rapid.IntRange(0, 3).Draw(t, "selSetLen")
			var parts []string
			for i := 0; i < n; i++ {
				parts = append(parts, fmt.Sprintf("%q", val()))
			}
			return "{" + strings.Join(parts, ", ") + "}"
		}
		switch rapid.SampledFrom([]string{"eq", "eq", "eq", "in", "in", "has", "has", "nothas", "ne", "notin", "starts", "all", "all"}).Draw(t, "selLeaf") {
		case "eq":
			return fmt.Sprintf("%s == %q", name, val())
		case "ne":
			return fmt.Sprintf("%s != %q", name, val())
		case "in":
			return fmt.Sprintf("%s in %s", name, set())
		case "notin":
			return fmt.Sprintf("%s not in %s", name, set())
		case "has":
			return fmt.Sprintf("has(%s)", name)
		case "nothas":
			return fmt.Sprintf("!has(%s)", name)
		case "starts":
			return fmt.Sprintf("%s starts with %q", name, val())
		default:
			return "all()"
		}
	case k == 5:
		return "!(" + c04SelText(t, depth-1) + ")"
	default:
		op := " && "
		if k >= 8 {
			op = " || "
		}
		return "(" + c04SelText(t, depth-1) + op + c04SelText(t, depth-1) + ")"
	}
}

func c04ProtoNum(p numorstring.Protocol) int {
	if n, err := p.NumValue(); err == nil {
		return int(n)
	}
	switch strings.ToLower(p.StrVal) {
	case "tcp":
		return 6
	case "udp":
		return 17
	case "sctp":
		return 132
	}
	panic("HARNESS-GAP: unexpected protocol " + p.String())
}

func c04Run(t *rapid.T, rec *ev.Recorder, suppress bool) {
	m := &c04Model{res: map[string]*c04Res{}, parents: map[string]map[string]string{}, sets: map[string]*c04Set{}}
	emitted := map[string]map[string]bool{}
	var cbErr string
	idx := labelindex.NewSelectorAndNamedPortIndex(suppress)
	idx.OnMemberAdded = func(setID string, member ipsetmember.IPSetMember) {
		if cbErr != "" {
			return
		}
		key, err := c04MemberKey(member)
		if err != nil {
			cbErr = "HARNESS-GAP: " + err.Error()
			return
		}
		set, ok := emitted[setID]
		if !ok {
			cbErr = fmt.Sprintf("OnMemberAdded(%s, %s) for an IP set that is not active", setID, key)
			return
		}
		if set[key] {
			cbErr = fmt.Sprintf("OnMemberAdded(%s, %s) but the member is already in the set (member emitted twice)", setID, key)
			return
		}
		set[key] = true
	}
	idx.OnMemberRemoved = func(setID string, member ipsetmember.IPSetMember) {
		if cbErr != "" {
			return
		}
		key, err := c04MemberKey(member)
		if err != nil {
			cbErr = "HARNESS-GAP: " + err.Error()
			return
		}
		set, ok := emitted[setID]
		if !ok {
			return // removals for a deleted set carry no information
		}
		if !set[key] {
			cbErr = fmt.Sprintf("OnMemberRemoved(%s, %s) but the member is not in the set", setID, key)
			return
		}
		delete(set, key)
	}

	// The IP sets of this case: id -> fixed definition (Felix derives the id from the
	// definition, so one id never changes meaning).
	defs := map[string]*c04Set{}
	for _, id := range c04SetIDs {
		txt := c04SelText(t, rapid.IntRange(0, 2).Draw(t, "selDepth"))
		sel, err := selector.Parse(txt)
		if err != nil {
			t.Fatalf("HARNESS-GAP: generated selector %q does not parse: %v", txt, err)
		}
		d := &c04Set{selText: txt, sel: sel, proto: ipsetmember.ProtocolNone}
		if rapid.IntRange(0, 9).Draw(t, "namedPortSet") < 3 {
			d.port = rapid.SampledFrom(c04PortNames).Draw(t, "setPortName")
			d.proto = rapid.SampledFrom([]ipsetmember.Protocol{ipsetmember.ProtocolTCP, ipsetmember.ProtocolTCP, ipsetmember.ProtocolUDP, ipsetmember.ProtocolSCTP}).Draw(t, "setProto")
		}
		defs[id] = d
	}

	var ops []string
	classes := map[string]bool{}
	ntRefDrop, ntUncover := false, false
	prevRef := map[string]map[string]int{}

	genParents := func(t *rapid.T, max int) []string {
		n := rapid.SampledFrom([]int{0, 0, 1, 1, 1, 2, 2}).Draw(t, "numParents")
		if n > max {
			n = max
		}
		var ps []string
		for i := 0; i < n; i++ {
			p := rapid.SampledFrom(c04ParentIDs).Draw(t, "parent")
			dup := false
			for _, q := range ps {
				dup = dup || q == p
			}
			if dup {
				classes["duplicate-parent-id"] = true // spec.profiles is not validated for uniqueness
			}
			ps = append(ps, p)
		}
		return ps
	}

	check := func(t *rapid.T) {
		if cbErr != "" {
			t.Fatalf("member callback stream malformed (suppressOverlaps=%v): %s", suppress, cbErr)
		}
		for _, sid := range c04SortedKeys(m.sets) {
			s := m.sets[sid]
			ref := m.reference(s)
			got := emitted[sid]
			gotKeys := c04SortedKeys(got)
			refKeys := c04SortedKeys(ref)
			describe := func() string {
				var sb strings.Builder
				fmt.Fprintf(&sb, "IP set %s selector %q namedPort=%q proto=%v suppressOverlaps=%v\n  emitted:   %v\n  reference: %v (member -> contributing resources)\n", sid, s.selText, s.port, s.proto, suppress, gotKeys, ref)
				for _, id := range c04SortedKeys(m.res) {
					r := m.res[id]
					fmt.Fprintf(&sb, "  %s: matches=%v effective=%v own=%v parents=%v nets=%v ports=%v\n", id, s.sel.Evaluate(m.effective(r)), m.effective(r), r.labels, r.parents, r.nets, r.ports)
				}
				return sb.String()
			}
			for _, k := range gotKeys {
				if ref[k] == 0 {
					t.Fatalf("IP set contains member %s that no matching endpoint or network set has\n%s", k, describe())
				}
			}
			if s.proto != ipsetmember.ProtocolNone || !suppress {
				for _, k := range refKeys {
					if !got[k] {
						t.Fatalf("IP set lacks member %s of a matching endpoint or network set\n%s", k, describe())
					}
				}
			}
			if s.proto == ipsetmember.ProtocolNone {
				gp, rp := c04Prefixes(gotKeys), c04Prefixes(refKeys)
				for _, a := range c04Probes {
					if c04Covers(gp, a) != c04Covers(rp, a) {
						t.Fatalf("address %s: covered by emitted members=%v, by matching resources=%v\n%s", a, c04Covers(gp, a), c04Covers(rp, a), describe())
					}
				}
				if suppress {
					for _, x := range gp {
						for _, y := range gp {
							if c04StrictlyInside(x, y) {
								t.Fatalf("emitted member %s lies inside emitted member %s although overlaps are suppressed\n%s", x, y, describe())
							}
						}
					}
					if len(gp) < len(rp) {
						classes["overlap-suppressed"] = true
					}
				}
				// Non-trivial: a covering CIDR went away while a covered one stayed.
				if old := prevRef[sid]; old != nil {
					for ok := range old {
						if ref[ok] > 0 {
							continue
						}
						for _, y := range rp {
							if c04StrictlyInside(y, netip.MustParsePrefix(ok)) && old[y.String()] > 0 {
								ntUncover = true
							}
						}
					}
				}
			}
			if old := prevRef[sid]; old != nil {
				for k, n := range old {
					if n >= 2 && ref[k] < n {
						ntRefDrop = true
					}
				}
			}
			for _, n := range ref {
				if n >= 2 {
					classes["member-shared"] = true
				}
			}
			if s.proto != ipsetmember.ProtocolNone && len(ref) > 0 {
				classes["named-port-members"] = true
			}
			prevRef[sid] = ref
		}
		for sid := range prevRef {
			if _, ok := m.sets[sid]; !ok {
				delete(prevRef, sid)
			}
		}
	}

	updateRes := func(t *rapid.T) {
		id := rapid.SampledFrom(c04ResIDs).Draw(t, "resource")
		kind := strings.TrimRight(id, "0123456789")
		maxParents := 2
		if kind == "ns" {
			maxParents = 1 // network sets carry at most their namespace profile
		}
		r := &c04Res{kind: kind, labels: c04Labels(t, "res"), parents: genParents(t, maxParents)}
		lbls := uniquelabels.Make(r.labels)
		switch r.kind {
		case "wep", "hep":
			n := rapid.SampledFrom([]int{0, 1, 1, 1, 2, 2, 3}).Draw(t, "numIPs")
			var v4, v6 []string
			for i := 0; i < n; i++ {
				s := rapid.SampledFrom(c04EndpointIPs).Draw(t, "ip")
				a := netip.MustParseAddr(s)
				r.nets = append(r.nets, netip.PrefixFrom(a, a.BitLen()))
				if a.Is4() {
					v4 = append(v4, s)
				} else {
					v6 = append(v6, s)
				}
			}
			np := rapid.SampledFrom([]int{0, 1, 2, 2, 3}).Draw(t, "numPorts")
			var ports []model.EndpointPort
			for i := 0; i < np; i++ {
				name := rapid.SampledFrom(c04PortNames).Draw(t, "portName")
				proto := rapid.SampledFrom(c04PortProtocols).Draw(t, "portProto")
				num := rapid.SampledFrom([]uint16{80, 8080, 53}).Draw(t, "portNum")
				ports = append(ports, model.EndpointPort{Name: name, Protocol: proto, Port: num})
				r.ports = append(r.ports, c04Port{name: name, proto: c04ProtoNum(proto), port: num})
			}
			// Reference order of nets follows the model types: v4 first, then v6.
			var nets []netip.Prefix
			for _, p := range r.nets {
				if p.Addr().Is4() {
					nets = append(nets, p)
				}
			}
			for _, p := range r.nets {
				if !p.Addr().Is4() {
					nets = append(nets, p)
				}
			}
			r.nets = nets
			if r.kind == "wep" {
				wep := &model.WorkloadEndpoint{State: "active", Name: "cali" + id, Labels: lbls, ProfileIDs: r.parents, Ports: ports}
				for _, s := range v4 {
					wep.IPv4Nets = append(wep.IPv4Nets, calinet.MustParseNetwork(s+"/32"))
				}
				for _, s := range v6 {
					wep.IPv6Nets = append(wep.IPv6Nets, calinet.MustParseNetwork(s+"/128"))
				}
				idx.OnUpdate(api.Update{KVPair: model.KVPair{
					Key:   model.WorkloadEndpointKey{Hostname: "host", OrchestratorID: "k8s", WorkloadID: "ns/" + id, EndpointID: "eth0"},
					Value: wep}, UpdateType: api.UpdateTypeKVUpdated})
			} else {
				hep := &model.HostEndpoint{Name: "eth0", Labels: lbls, ProfileIDs: r.parents, Ports: ports}
				for _, s := range v4 {
					hep.ExpectedIPv4Addrs = append(hep.ExpectedIPv4Addrs, calinet.MustParseIP(s))
				}
				for _, s := range v6 {
					hep.ExpectedIPv6Addrs = append(hep.ExpectedIPv6Addrs, calinet.MustParseIP(s))
				}
				idx.OnUpdate(api.Update{KVPair: model.KVPair{
					Key: model.HostEndpointKey{Hostname: "host", EndpointID: id}, Value: hep}, UpdateType: api.UpdateTypeKVUpdated})
			}
		case "ns":
			n := rapid.SampledFrom([]int{0, 1, 1, 2, 2, 3, 4}).Draw(t, "numCIDRs")
			ns := &model.NetworkSet{Labels: lbls, ProfileIDs: r.parents}
			for i := 0; i < n; i++ {
				s := rapid.SampledFrom(c04NetsetCIDRs).Draw(t, "cidr")
				ns.Nets = append(ns.Nets, calinet.MustParseNetwork(s)) // masked, as the network set update processor produces
				p := netip.MustParsePrefix(s).Masked()
				if p.Bits() == 0 {
					// A zero-length prefix stands for the whole family; Felix programs it as the two halves.
					classes["netset-slash-0"] = true
					lo := netip.PrefixFrom(p.Addr(), 1)
					hiB := p.Addr().AsSlice()
					hiB[0] = 0x80
					hiA, _ := netip.AddrFromSlice(hiB)
					r.nets = append(r.nets, lo, netip.PrefixFrom(hiA, 1))
				} else {
					r.nets = append(r.nets, p)
				}
			}
			idx.OnUpdate(api.Update{KVPair: model.KVPair{Key: model.NetworkSetKey{Name: id}, Value: ns}, UpdateType: api.UpdateTypeKVUpdated})
		}
		seen := map[string]bool{}
		for _, p := range r.nets {
			if seen[p.String()] {
				classes["duplicate-address-in-one-resource"] = true
			}
			seen[p.String()] = true
		}
		m.res[id] = r
		ops = append(ops, "R"+r.kind[:1])
	}

	addIPSet := func(t *rapid.T) {
		id := rapid.SampledFrom(c04SetIDs).Draw(t, "ipset")
		d := defs[id]
		if _, ok := m.sets[id]; !ok {
			m.sets[id] = d
			emitted[id] = map[string]bool{}
			if lr := d.sel.LabelRestrictions(); lr.Len() == 0 {
				classes["set-unrestricted-selector"] = true
			} else {
				classes["set-restricted-selector"] = true
			}
		} else {
			classes["ipset-refreshed"] = true
		}
		idx.UpdateIPSet(id, d.sel, d.proto, d.port)
		ops = append(ops, "S")
	}

	t.Repeat(map[string]func(*rapid.T){
		"updateResource":  updateRes,
		"updateResource2": updateRes, // weight
		"updateResource3": updateRes, // weight
		"addIPSet2":       addIPSet,  // weight
		"deleteResource": func(t *rapid.T) {
			id := rapid.SampledFrom(c04ResIDs).Draw(t, "resource")
			delete(m.res, id)
			var key model.Key
			switch strings.TrimRight(id, "0123456789") {
			case "wep":
				key = model.WorkloadEndpointKey{Hostname: "host", OrchestratorID: "k8s", WorkloadID: "ns/" + id, EndpointID: "eth0"}
			case "hep":
				key = model.HostEndpointKey{Hostname: "host", EndpointID: id}
			default:
				key = model.NetworkSetKey{Name: id}
			}
			idx.OnUpdate(api.Update{KVPair: model.KVPair{Key: key}, UpdateType: api.UpdateTypeKVDeleted})
			ops = append(ops, "r")
		},
		"updateProfile": func(t *rapid.T) {
			id := rapid.SampledFrom(c04ParentIDs).Draw(t, "profile")
			labels := c04Labels(t, "profile")
			m.parents[id] = labels
			prof := v3.NewProfile()
			prof.Name = id
			prof.Spec.LabelsToApply = labels
			idx.OnUpdate(api.Update{KVPair: model.KVPair{Key: model.ResourceKey{Kind: v3.KindProfile, Name: id}, Value: prof}, UpdateType: api.UpdateTypeKVUpdated})
			ops = append(ops, "P")
		},
		"deleteProfile": func(t *rapid.T) {
			id := rapid.SampledFrom(c04ParentIDs).Draw(t, "profile")
			delete(m.parents, id)
			idx.OnUpdate(api.Update{KVPair: model.KVPair{Key: model.ResourceKey{Kind: v3.KindProfile, Name: id}}, UpdateType: api.UpdateTypeKVDeleted})
			ops = append(ops, "p")
		},
		"addIPSet": addIPSet,
		"deleteIPSet": func(t *rapid.T) {
			id := rapid.SampledFrom(c04SetIDs).Draw(t, "ipset")
			if _, ok := m.sets[id]; !ok {
				// Felix only deletes IP sets it has added.
				ops = append(ops, "-")
				return
			}
			idx.DeleteIPSet(id)
			delete(m.sets, id)
			delete(emitted, id) // the whole set goes away; no per-member removals are expected
			ops = append(ops, "s")
		},
		"": check,
	})
	if ntRefDrop {
		classes["shared-member-lost-a-contributor"] = true
	}
	if ntUncover {
		classes["covering-cidr-removed"] = true
	}
	key := strings.Join(ops, "")
	if ntRefDrop {
		key += "|refdrop"
	}
	if ntUncover {
		key += "|uncover"
	}
	rec.SizedCase(ntRefDrop || ntUncover, key, len(ops), func() any {
		sets := map[string]any{}
		for id, s := range m.sets {
			sets[id] = map[string]any{"selector": s.selText, "namedPort": s.port, "proto": s.proto.String(), "members": c04SortedKeys(emitted[id])}
		}
		res := map[string]any{}
		for id, r := range m.res {
			var nets []string
			for _, n := range r.nets {
				nets = append(nets, n.String())
			}
			res[id] = map[string]any{"labels": r.labels, "parents": r.parents, "nets": nets, "ports": fmt.Sprint(r.ports)}
		}
		return map[string]any{"suppressOverlaps": suppress, "ops": key, "final_sets": sets, "final_resources": res, "final_profiles": m.parents}
	}, c04SortedKeys(classes)...)
}

func c04Rule(mode string) string {
	return "rapid state machine over SelectorAndNamedPortIndex (" + mode + "): workload/host endpoints, network sets and profiles delivered through OnUpdate with the backend model types, IP sets through UpdateIPSet/DeleteIPSet (5 fixed definitions per case, added/removed/re-added/refreshed in any order relative to the resources); addresses from a clustered pool (shared endpoint IPs, duplicates inside one resource, nested /8../32 CIDRs, /0 and /1, v4+v6), named ports http/dns x tcp/udp/sctp in string and numeric spelling, 0-2 profiles per resource. Non-trivial = a member contributed by >=2 resources lost a contributor, or a covering CIDR left the reference while a CIDR inside it stayed; distinct = distinct action-kind sequence"
}

func TestVerifC04MembersPlain(t *testing.T) {
	ev.Quiet()
	rec := ev.New("C04", "plain", c04Rule("no overlap suppression"),
		"effective labels: own labels override profile labels; first listed profile wins",
		"a /0 network-set CIDR is represented by its two /1 halves (documented in extractCIDRsFromNetworkSet)",
		"IP set ids stand for fixed (selector, named port, protocol) definitions, as in Felix where the id is a hash of the definition; named-port sets use tcp/udp/sctp (rules with ports must carry one of these protocols)")
	defer rec.Write()
	rapid.Check(t, func(t *rapid.T) { c04Run(t, rec, false) })
}

func TestVerifC04MembersSuppressOverlaps(t *testing.T) {
	ev.Quiet()
	rec := ev.New("C04", "suppress", c04Rule("overlap suppression on"),
		"effective labels: own labels override profile labels; first listed profile wins",
		"a /0 network-set CIDR is represented by its two /1 halves (documented in extractCIDRsFromNetworkSet)",
		"coverage is compared at every boundary address (first-1, first, last, last+1) of every CIDR in the generator's pool, which decides equality of the covered address sets")
	defer rec.Write()
	rapid.Check(t, func(t *rapid.T) { c04Run(t, rec, true) })
}

// TestVerifC04RegressionDuplicateProfileID pins the input of a past finding: an endpoint whose
// profile list names the same profile twice used to panic ("discard of unknown ID") when it
// was deleted or its profile list changed.  The members it contributes must come and go
// like any other endpoint's.
func TestVerifC04RegressionDuplicateProfileID(t *testing.T) {
	ev.Quiet()
	for _, suppress := range []bool{false, true} {
		func() {
			defer func() {
				if r := recover(); r != nil {
					t.Errorf("suppressOverlaps=%v: host endpoint whose profile list names the same profile twice: panic: %v", suppress, r)
				}
			}()
			members := map[string]bool{}
			idx := labelindex.NewSelectorAndNamedPortIndex(suppress)
			idx.OnMemberAdded = func(_ string, m ipsetmember.IPSetMember) { members[m.ToProtobufFormat()] = true }
			idx.OnMemberRemoved = func(_ string, m ipsetmember.IPSetMember) { delete(members, m.ToProtobufFormat()) }
			sel, err := selector.Parse("a == 'x' && b == 'y'")
			if err != nil {
				t.Fatal(err)
			}
			idx.UpdateIPSet("set0", sel, ipsetmember.ProtocolNone, "")
			prof := v3.NewProfile()
			prof.Name = "p0"
			prof.Spec.LabelsToApply = map[string]string{"b": "y"}
			idx.OnUpdate(api.Update{KVPair: model.KVPair{Key: model.ResourceKey{Kind: v3.KindProfile, Name: "p0"}, Value: prof}, UpdateType: api.UpdateTypeKVNew})
			key := model.HostEndpointKey{Hostname: "host", EndpointID: "hep0"}
			hep := &model.HostEndpoint{Name: "eth0", ProfileIDs: []string{"p0", "p0"}, Labels: uniquelabels.Make(map[string]string{"a": "x"}),
				ExpectedIPv4Addrs: []calinet.IP{calinet.MustParseIP("10.0.0.1")}}
			idx.OnUpdate(api.Update{KVPair: model.KVPair{Key: key, Value: hep}, UpdateType: api.UpdateTypeKVNew})
			if len(members) != 1 || !members["10.0.0.1/32"] {
				t.Errorf("suppressOverlaps=%v: after adding the endpoint the set holds %v, want [10.0.0.1/32]", suppress, members)
			}
			idx.OnUpdate(api.Update{KVPair: model.KVPair{Key: key}, UpdateType: api.UpdateTypeKVDeleted})
			if len(members) != 0 {
				t.Errorf("suppressOverlaps=%v: after deleting the endpoint the set still holds %v", suppress, members)
			}
		}()
	}
}
