package watchersyncer_test

// C26 — datastore watchers converge across watch failures and resyncs.
//
// External harness: the real watchersyncer.New(...) runs (real goroutines) over a small fake
// api.Client written here.  The fake is a revisioned key/value store per resource type with an
// event history, so List/Watch behave like a real datastore (List = current contents at the current
// revision; Watch(rev) = every event after rev, then live events), and every List/Watch call and
// every running watcher consults a generated fault plan: List may fail (generic error, not-installed,
// revision expired, empty list without revision), Watch may fail (generic, expired/gone, connection
// refused, too many requests, not supported), a running watcher may end after n events with an error
// event, an expired error event or a closed channel, and may interleave bookmarks.
//
// Real goroutines => outcome oracle only, evaluated when the plan is exhausted and the system is
// provably quiescent.  Quiescence is established without sleeping on a guess: once no fault is
// pending, the harness writes a sentinel object into every resource type and waits until the
// callbacks have seen everything that write must produce; this is repeated until a round is "clean"
// (no List/Watch call happened during it and every type has a caught-up watcher).  In a clean round
// the sentinel travelled through the established watch, and each cache -> syncer -> callback path is
// FIFO, so when it has arrived everything the last resync produced (including its synthesized
// deletes) has been delivered.  A wait that exceeds the deadline ends the process with
// VERIF-INCONCLUSIVE (never a violation).
//
// Oracle (from the statement):
//  1. at that point the folded callback view == the store contents passed through the update
//     processor (this includes: keys that vanished during an outage/resync are gone);
//  2. no OnUpdates between an OnStatusUpdated(WaitForDatastore) and the next OnStatusUpdated
//     (checked on the whole callback sequence, including shutdown);
//  3. at every OnStatusUpdated(InSync), every resource type has had at least one List call complete
//     (a NotFound answer, "API not installed", counts as a completed empty list: that is the
//     code's documented reading and the statement does not distinguish it).

import (
	"context"
	"errors"
	"fmt"
	"os"
	"sort"
	"strconv"
	"strings"
	"sync"
	"syscall"
	"testing"
	"time"

	apiv3 "github.com/projectcalico/api/pkg/apis/projectcalico/v3"
	kerrors "k8s.io/apimachinery/pkg/api/errors"
	metav1 "k8s.io/apimachinery/pkg/apis/meta/v1"
	"pgregory.net/rapid"

	"github.com/projectcalico/calico/libcalico-go/lib/backend/api"
	"github.com/projectcalico/calico/libcalico-go/lib/backend/model"
	"github.com/projectcalico/calico/libcalico-go/lib/backend/syncersv1/updateprocessors"
	"github.com/projectcalico/calico/libcalico-go/lib/backend/watchersyncer"
	cerrors "github.com/projectcalico/calico/libcalico-go/lib/errors"
	"github.com/projectcalico/calico/verifkit/ev"
)

const c26Deadline = 120 * time.Second

func c26Inconclusive(msg string) {
	if d := os.Getenv("VERIF_C26_DUMP"); d != "" {
		// Debugging aid: the driver's log keeps only the tail of the output.
		_ = os.MkdirAll(d, 0o755)
		_ = os.WriteFile(fmt.Sprintf("%s/inconclusive-%d.txt", d, os.Getpid()), []byte(msg), 0o644)
	}
	fmt.Fprintln(os.Stderr, "VERIF-INCONCLUSIVE: "+msg)
	fmt.Println("VERIF-INCONCLUSIVE: " + msg)
	os.Exit(3)
}

var c26Kinds = []string{apiv3.KindNetworkPolicy, apiv3.KindIPPool, apiv3.KindBGPPeer}
var c26KindShort = []string{"np", "pool", "peer"}

// c26MarkerKind is an extra, never-faulted resource type.  All caches feed one FIFO results channel,
// so a marker written to this type after the fake has seen type A start its next List is delivered
// to the callbacks after everything A produced while processing its previous List.
const c26MarkerKind = apiv3.KindFelixConfiguration

// ---- fault plan vocabulary ---------------------------------------------------------------------

const (
	c26ListOK          = "ok"
	c26ListErr         = "err"
	c26ListNotFound    = "notInstalled"
	c26ListExpired     = "expired"
	c26ListTooLarge    = "tooLarge" // one-shot "resource version too large" (lagging API server cache)
	c26ListEmptyNoRev  = "emptyNoRev" // only honoured when the type's store is empty, else served as ok
	c26WatchOK         = "ok"
	c26WatchErr        = "err"
	c26WatchExpired    = "expired"
	c26WatchGone       = "gone"
	c26WatchRefused    = "refused"
	c26WatchTooMany    = "tooMany"
	c26WatchNotSupp    = "notSupported"
	c26WatchNotExist   = "notExist"
	c26EndNever        = "never"
	c26EndErrEvent     = "errEvent"
	c26EndExpiredEvent = "expiredEvent"
	c26EndClose        = "close"
)

type c26WatchPlan struct {
	Outcome   string
	MaxEvents int    // for ok: end the watcher after this many data events (if End != never)
	End       string // how the watcher ends
	Bookmarks bool   // send a bookmark whenever the watcher has caught up
}

func (p c26WatchPlan) String() string {
	if p.Outcome != c26WatchOK {
		return p.Outcome
	}
	s := "ok"
	if p.End != c26EndNever {
		s += fmt.Sprintf("(%s after %d)", p.End, p.MaxEvents)
	}
	if p.Bookmarks {
		s += "+bm"
	}
	return s
}

// ---- the fake datastore ------------------------------------------------------------------------

type c26Obj struct {
	val string
	rev int
}

type c26Event struct {
	rev  int
	name string
	del  bool
	val  string // new value (old value for deletes)
	old  string
	mod  bool
}

type c26JournalEntry struct {
	rev  int
	kind string
	name string
	val  string
	del  bool
}

type c26TypeState struct {
	kind      string
	objs      map[string]c26Obj
	history   []c26Event
	listPlan  []string
	watchPlan []c26WatchPlan
	watcher   *c26Watcher // most recent successfully created watcher that is still running
	// listAlwaysErr: the datastore has gone away for good (early-stop ending).
	listAlwaysErr     bool
	listErrsSinceGone int
	// Sticky backend behaviours (set by composite steps, cleared before the final barrier):
	// watchUnsupported: every Watch answers "operation not supported" => the cache polls.
	// emptyNoRevBackend: while the type has no objects, List answers an empty list without a
	// revision (the backend quirk the polling fallback exists for).
	watchUnsupported  bool
	emptyNoRevBackend bool
	// livelock detector state
	tooLargeRev   string
	tooLargeCount int
	// bookkeeping for the oracle / evidence
	listsCompleted   int
	listCalls        int
	watchCalls       int
	cacheKnows       map[string]bool // keys the watcher cache has been told about (list or watch)
	resyncDeleteNeed int             // #times a served List lacked a key the cache knew
	faultsMidWatch   int
}

// c26LivelockAfter: this many consecutive Lists of one type at the same revision, each answered
// "resource version too large" by a datastore whose revision is (and stays) lower, with nothing else
// happening for that type, is reported as non-convergence.  Count-based, not time-based.
const c26LivelockAfter = 40

type c26Store struct {
	mu      sync.Mutex
	rev     int
	// compactedBefore: Watch from a revision older than this is "too old" (history was lost when
	// the datastore was restored from a backup).
	compactedBefore int
	restores        int
	tooLargeLists   int    // Lists at a non-zero revision ahead of the datastore
	journal         []c26JournalEntry // every write of the current lineage, for faithful backups
	firstRev        int               // revision at which the case started (nothing was written before)
	livelock        string // set by the livelock detector
	types   map[string]*c26TypeState // by kind
	changed chan struct{}            // closed and replaced on every change (broadcast)
	wg      sync.WaitGroup           // watcher goroutines
	log     []string
}

func (s *c26Store) bumpLocked() {
	close(s.changed)
	s.changed = make(chan struct{})
}

func (s *c26Store) logf(f string, a ...any) { s.log = append(s.log, fmt.Sprintf(f, a...)) }

func c26Key(kind, name string) model.ResourceKey {
	k := model.ResourceKey{Kind: kind, Name: name}
	if kind == apiv3.KindNetworkPolicy {
		k.Namespace = "ns"
	}
	return k
}

func (s *c26Store) set(kind, name string) {
	s.mu.Lock()
	defer s.mu.Unlock()
	ts := s.types[kind]
	s.rev++
	old, existed := ts.objs[name]
	val := "v" + strconv.Itoa(s.rev)
	if s.restores > 0 {
		// Revisions are re-used after a restore; values never are (the harness waits for values).
		val += "." + strconv.Itoa(s.restores)
	}
	ts.objs[name] = c26Obj{val: val, rev: s.rev}
	ts.history = append(ts.history, c26Event{rev: s.rev, name: name, val: val, old: old.val, mod: existed})
	s.journal = append(s.journal, c26JournalEntry{rev: s.rev, kind: kind, name: name, val: val})
	s.logf("store: %s/%s=%s @%d", kind, name, val, s.rev)
	s.bumpLocked()
}

func (s *c26Store) del(kind, name string) bool {
	s.mu.Lock()
	defer s.mu.Unlock()
	return s.delLocked(kind, name)
}

func (s *c26Store) delLocked(kind, name string) bool {
	ts := s.types[kind]
	old, existed := ts.objs[name]
	if !existed {
		return false
	}
	s.rev++
	delete(ts.objs, name)
	ts.history = append(ts.history, c26Event{rev: s.rev, name: name, del: true, val: old.val})
	s.journal = append(s.journal, c26JournalEntry{rev: s.rev, kind: kind, name: name, del: true})
	s.logf("store: delete %s/%s @%d", kind, name, s.rev)
	s.bumpLocked()
	return true
}

// restore models "the datastore was restored from a backup taken at revision backupRev": every
// running watch breaks, the contents are exactly what they were at that revision (objects keep the
// revisions they had then), the revision counter is back at backupRev and the event history is gone.
//
// Returns, per type, the number of Lists completed so far (taken in the same critical section), so
// that the caller can wait until every type has completed a List against the restored datastore;
// until then a cache may still hold a revision of the abandoned future, which nobody can honour.
func (s *c26Store) restore(backupRev int, kinds []string) map[string]int {
	s.mu.Lock()
	defer s.mu.Unlock()
	old := s.rev
	before := map[string]int{}
	for _, k := range kinds {
		ts := s.types[k]
		before[k] = ts.listsCompleted
		if w := ts.watcher; w != nil && !w.ended {
			w.killNow = c26EndClose
		}
		ts.objs = map[string]c26Obj{}
		ts.history = nil
	}
	keep := 0
	for _, j := range s.journal {
		if j.rev > backupRev {
			break
		}
		keep++
		if j.del {
			delete(s.types[j.kind].objs, j.name)
		} else {
			s.types[j.kind].objs[j.name] = c26Obj{val: j.val, rev: j.rev}
		}
	}
	s.journal = s.journal[:keep]
	s.rev = backupRev
	s.compactedBefore = backupRev
	s.restores++
	var desc []string
	for _, k := range kinds {
		for n, o := range s.types[k].objs {
			desc = append(desc, fmt.Sprintf("%s/%s=%s@%d", k, n, o.val, o.rev))
		}
	}
	sort.Strings(desc)
	s.logf("store: RESTORED from the backup taken at revision %d (was at %d); contents now %v", backupRev, old, desc)
	s.bumpLocked()
	return before
}

func c26KindOf(list model.ListInterface) string {
	return list.(model.ResourceListOptions).Kind
}

var c26ConnRefused = cerrors.ErrorDatastoreError{Err: syscall.ECONNREFUSED}

// c26TooLargeErr is what the Kubernetes API server answers when asked for a resource version it
// has not reached (storage.NewTooLargeResourceVersionError), wrapped the way the KDD backend wraps
// unclassified Kubernetes errors.
func c26TooLargeErr(want string, cur int) error {
	ke := kerrors.NewTimeoutError(fmt.Sprintf("Too large resource version: %s, current: %d", want, cur), 1)
	ke.ErrStatus.Details.Causes = []metav1.StatusCause{{Type: metav1.CauseTypeResourceVersionTooLarge, Message: "Too large resource version"}}
	return cerrors.ErrorDatastoreError{Err: ke}
}

// revAhead reports whether a client-supplied revision is ahead of the datastore.
func (s *c26Store) revAhead(revision string) bool {
	if revision == "" || revision == "0" {
		return false
	}
	n, err := strconv.Atoi(revision)
	if err != nil {
		panic(fmt.Sprintf("HARNESS-GAP: revision %q was never issued by the fake store", revision))
	}
	return n > s.rev
}

func (s *c26Store) List(ctx context.Context, list model.ListInterface, revision string) (*model.KVPairList, error) {
	s.mu.Lock()
	defer s.mu.Unlock()
	kind := c26KindOf(list)
	ts := s.types[kind]
	ts.listCalls++
	outcome := c26ListOK
	if len(ts.listPlan) > 0 {
		outcome = ts.listPlan[0]
		ts.listPlan = ts.listPlan[1:]
	}
	if outcome == c26ListEmptyNoRev && len(ts.objs) > 0 {
		outcome = c26ListOK
	}
	if outcome == c26ListOK && ts.emptyNoRevBackend && len(ts.objs) == 0 {
		outcome = c26ListEmptyNoRev
	}
	stateTooLarge := false
	if (outcome == c26ListOK || outcome == c26ListEmptyNoRev) && s.revAhead(revision) {
		// The datastore's revision is behind what the client asks for (it went backwards).
		outcome, stateTooLarge = c26ListTooLarge, true
		s.tooLargeLists++
	}
	if ts.listAlwaysErr {
		outcome, stateTooLarge = c26ListErr, false
		ts.listErrsSinceGone++
	}
	if stateTooLarge && ts.tooLargeRev == revision {
		ts.tooLargeCount++
		if ts.tooLargeCount >= c26LivelockAfter && s.livelock == "" {
			s.livelock = fmt.Sprintf("%s: %d consecutive Lists at revision %s were each answered \"resource version too large\" (the datastore is at revision %d and would serve a List without a revision); the cache keeps retrying the same revision, so its stream never converges to the datastore's contents",
				kind, ts.tooLargeCount, revision, s.rev)
		}
	} else if stateTooLarge {
		ts.tooLargeRev, ts.tooLargeCount = revision, 1
	} else {
		ts.tooLargeRev, ts.tooLargeCount = "", 0
	}
	s.logf("List(%s, rev=%s) -> %s", kind, revision, outcome)
	defer s.bumpLocked()
	switch outcome {
	case c26ListTooLarge:
		return nil, c26TooLargeErr(revision, s.rev)
	case c26ListErr:
		return nil, cerrors.ErrorDatastoreError{Err: errors.New("injected list failure")}
	case c26ListNotFound:
		ts.listsCompleted++
		return nil, kerrors.NewNotFound(apiv3.Resource(strings.ToLower(kind)), "")
	case c26ListExpired:
		return nil, kerrors.NewResourceExpired("injected: resource version too old")
	case c26ListEmptyNoRev:
		ts.listsCompleted++
		if len(ts.cacheKnows) > 0 {
			ts.resyncDeleteNeed++
		}
		ts.cacheKnows = map[string]bool{}
		return &model.KVPairList{Revision: ""}, nil
	}
	names := make([]string, 0, len(ts.objs))
	for n := range ts.objs {
		names = append(names, n)
	}
	sort.Strings(names)
	out := &model.KVPairList{Revision: strconv.Itoa(s.rev)}
	now := map[string]bool{}
	for _, n := range names {
		o := ts.objs[n]
		out.KVPairs = append(out.KVPairs, &model.KVPair{Key: c26Key(kind, n), Value: o.val, Revision: strconv.Itoa(o.rev)})
		now[n] = true
	}
	for n := range ts.cacheKnows {
		if !now[n] {
			ts.resyncDeleteNeed++
			break
		}
	}
	ts.cacheKnows = now
	ts.listsCompleted++
	return out, nil
}

func (s *c26Store) Watch(ctx context.Context, list model.ListInterface, options api.WatchOptions) (api.WatchInterface, error) {
	s.mu.Lock()
	defer s.mu.Unlock()
	kind := c26KindOf(list)
	ts := s.types[kind]
	ts.watchCalls++
	plan := c26WatchPlan{Outcome: c26WatchOK, End: c26EndNever}
	if len(ts.watchPlan) > 0 {
		plan = ts.watchPlan[0]
		ts.watchPlan = ts.watchPlan[1:]
	} else if ts.watchUnsupported {
		plan = c26WatchPlan{Outcome: c26WatchNotSupp}
	}
	s.logf("Watch(%s, rev=%s) -> %v", kind, options.Revision, plan)
	defer s.bumpLocked()
	switch plan.Outcome {
	case c26WatchErr:
		return nil, cerrors.ErrorDatastoreError{Err: errors.New("injected watch failure")}
	case c26WatchExpired:
		return nil, kerrors.NewResourceExpired("injected: too old resource version")
	case c26WatchGone:
		return nil, kerrors.NewGone("injected: gone")
	case c26WatchRefused:
		return nil, c26ConnRefused
	case c26WatchTooMany:
		return nil, kerrors.NewTooManyRequests("injected", 0)
	case c26WatchNotSupp:
		return nil, cerrors.ErrorOperationNotSupported{Operation: "watch", Identifier: kind}
	case c26WatchNotExist:
		return nil, cerrors.ErrorResourceDoesNotExist{Identifier: kind, Err: errors.New("injected")}
	}
	from, err := strconv.Atoi(options.Revision)
	if err != nil {
		// The syncer only ever holds revisions this store handed out.
		panic(fmt.Sprintf("HARNESS-GAP: Watch called with revision %q that the fake store never issued", options.Revision))
	}
	if from > s.rev {
		s.logf("  -> resource version too large (datastore at %d)", s.rev)
		return nil, c26TooLargeErr(options.Revision, s.rev)
	}
	if from < s.compactedBefore {
		s.logf("  -> too old (history starts at %d)", s.compactedBefore)
		return nil, kerrors.NewResourceExpired("too old resource version")
	}
	w := &c26Watcher{store: s, ts: ts, plan: plan, ch: make(chan api.WatchEvent), stop: make(chan struct{}), lastRev: from}
	ts.watcher = w
	s.wg.Add(1)
	go w.run()
	return w, nil
}

// Unused parts of api.Client.
func (s *c26Store) Create(context.Context, *model.KVPair) (*model.KVPair, error) { panic("unused") }
func (s *c26Store) Update(context.Context, *model.KVPair) (*model.KVPair, error) { panic("unused") }
func (s *c26Store) Apply(context.Context, *model.KVPair) (*model.KVPair, error)  { panic("unused") }
func (s *c26Store) DeleteKVP(context.Context, *model.KVPair) (*model.KVPair, error) {
	panic("unused")
}
func (s *c26Store) Delete(context.Context, model.Key, string) (*model.KVPair, error) {
	panic("unused")
}
func (s *c26Store) Get(context.Context, model.Key, string) (*model.KVPair, error) { panic("unused") }
func (s *c26Store) Syncer(api.SyncerCallbacks) api.Syncer                          { panic("unused") }
func (s *c26Store) EnsureInitialized() error                                       { return nil }
func (s *c26Store) Clean() error                                                   { return nil }
func (s *c26Store) Close() error                                                   { return nil }

type c26Watcher struct {
	store    *c26Store
	ts       *c26TypeState
	plan     c26WatchPlan
	ch       chan api.WatchEvent
	stop     chan struct{}
	stopOnce sync.Once
	// guarded by store.mu
	lastRev   int
	sent      int
	killNow   string // set by the harness to end the watcher at the next opportunity
	ended     bool
	caughtUp  bool
	bookmarkd int // revision for which a bookmark has been sent
}

func (w *c26Watcher) Stop()                             { w.stopOnce.Do(func() { close(w.stop) }) }
func (w *c26Watcher) ResultChan() <-chan api.WatchEvent { return w.ch }
func (w *c26Watcher) HasTerminated() bool {
	w.store.mu.Lock()
	defer w.store.mu.Unlock()
	return w.ended
}

func (w *c26Watcher) finishLocked() {
	w.ended = true
	w.caughtUp = false
	if w.ts.watcher == w {
		w.ts.watcher = nil
	}
	w.store.bumpLocked()
}

func (w *c26Watcher) run() {
	defer w.store.wg.Done()
	defer close(w.ch)
	s := w.store
	for {
		s.mu.Lock()
		var evt *api.WatchEvent
		end := ""
		switch {
		case w.killNow != "":
			end = w.killNow
		case w.plan.End != c26EndNever && w.sent >= w.plan.MaxEvents:
			end = w.plan.End
		}
		if end == "" {
			// Next history event after lastRev?
			for i := range w.ts.history {
				e := w.ts.history[i]
				if e.rev <= w.lastRev {
					continue
				}
				key := c26Key(w.ts.kind, e.name)
				rev := strconv.Itoa(e.rev)
				switch {
				case e.del:
					evt = &api.WatchEvent{Type: api.WatchDeleted, Old: &model.KVPair{Key: key, Value: e.val, Revision: rev}}
				case e.mod:
					evt = &api.WatchEvent{Type: api.WatchModified, New: &model.KVPair{Key: key, Value: e.val, Revision: rev},
						Old: &model.KVPair{Key: key, Value: e.old, Revision: rev}}
				default:
					evt = &api.WatchEvent{Type: api.WatchAdded, New: &model.KVPair{Key: key, Value: e.val, Revision: rev}}
				}
				break
			}
			if evt == nil && w.plan.Bookmarks && w.bookmarkd < s.rev && s.rev > w.lastRev {
				evt = &api.WatchEvent{Type: api.WatchBookmark, New: &model.KVPair{Revision: strconv.Itoa(s.rev)}}
			}
		}
		if end != "" {
			w.ts.faultsMidWatch++
			s.logf("watcher(%s) ends: %s after %d events", w.ts.kind, end, w.sent)
			w.finishLocked()
			s.mu.Unlock()
			switch end {
			case c26EndErrEvent:
				w.send(api.WatchEvent{Type: api.WatchError, Error: cerrors.ErrorDatastoreError{Err: errors.New("injected watch error event")}})
			case c26EndExpiredEvent:
				w.send(api.WatchEvent{Type: api.WatchError, Error: kerrors.NewResourceExpired("injected: watch expired")})
			}
			return
		}
		if evt == nil {
			if !w.caughtUp {
				w.caughtUp = true
				s.bumpLocked()
			}
			changed := s.changed
			s.mu.Unlock()
			select {
			case <-changed:
				continue
			case <-w.stop:
				s.mu.Lock()
				w.finishLocked()
				s.mu.Unlock()
				return
			}
		}
		w.caughtUp = false
		s.mu.Unlock()
		if !w.send(*evt) {
			s.mu.Lock()
			w.finishLocked()
			s.mu.Unlock()
			return
		}
		s.mu.Lock()
		switch evt.Type {
		case api.WatchBookmark:
			w.bookmarkd, _ = strconv.Atoi(evt.New.Revision)
		case api.WatchDeleted:
			w.lastRev, _ = strconv.Atoi(evt.Old.Revision)
			w.sent++
			delete(w.ts.cacheKnows, evt.Old.Key.(model.ResourceKey).Name)
		default:
			w.lastRev, _ = strconv.Atoi(evt.New.Revision)
			w.sent++
			w.ts.cacheKnows[evt.New.Key.(model.ResourceKey).Name] = true
		}
		s.mu.Unlock()
	}
}

// send delivers one event unless the watcher is stopped first.
func (w *c26Watcher) send(e api.WatchEvent) bool {
	select {
	case w.ch <- e:
		return true
	case <-w.stop:
		return false
	}
}

// ---- update processor for the second resource type ---------------------------------------------

// c26Proc is a stateless SyncerUpdateProcessor: pool X -> HostConfig(X,"a")="a:"+v and, when the
// object's revision is even, HostConfig(X,"b")="b:"+v (otherwise "b" is deleted).
type c26Proc struct{}

func (c26Proc) OnSyncerStarting() {}

func (c26Proc) Process(kvp *model.KVPair) ([]*model.KVPair, error) {
	rk := kvp.Key.(model.ResourceKey)
	name := rk.Kind + "-" + rk.Name
	ka := model.HostConfigKey{Hostname: name, Name: "a"}
	kb := model.HostConfigKey{Hostname: name, Name: "b"}
	if kvp.Value == nil {
		return []*model.KVPair{{Key: ka}, {Key: kb}}, nil
	}
	v := kvp.Value.(string)
	rev, _ := strconv.Atoi(kvp.Revision)
	out := []*model.KVPair{{Key: ka, Value: "a:" + v, Revision: kvp.Revision}}
	if rev%2 == 0 {
		out = append(out, &model.KVPair{Key: kb, Value: "b:" + v, Revision: kvp.Revision})
	} else {
		out = append(out, &model.KVPair{Key: kb})
	}
	var err error
	if rev%5 == 0 {
		// A conversion problem reported alongside usable output.
		err = cerrors.ErrorParsingDatastoreEntry{RawKey: name, RawValue: v, Err: errors.New("injected parse warning")}
	}
	return out, err
}

// c26CachingConvert is the converter handed to the real conflict-resolving caching processor
// (updateprocessors.NewConflictResolvingCacheUpdateProcessor, the one behind IPPools, HostEndpoints,
// ...): objects "x" and "y" of a type map to the same output key (lowest name wins), every other
// object to a key of its own.
func c26CachingConvert(kvp *model.KVPair) (*model.KVPair, error) {
	rk := kvp.Key.(model.ResourceKey)
	group := rk.Name
	if rk.Name == "x" || rk.Name == "y" {
		group = "xy"
	}
	return &model.KVPair{
		Key:      model.HostConfigKey{Hostname: rk.Kind + "-grp", Name: group},
		Value:    rk.Name + ":" + kvp.Value.(string),
		Revision: kvp.Revision,
	}, nil
}

const (
	c26ProcNone      = ""
	c26ProcStateless = "stateless"
	c26ProcCaching   = "caching"
)

func c26NewProc(mode, kind string) watchersyncer.SyncerUpdateProcessor {
	switch mode {
	case c26ProcStateless:
		return c26Proc{}
	case c26ProcCaching:
		return updateprocessors.NewConflictResolvingCacheUpdateProcessor(kind, c26CachingConvert)
	}
	return nil
}

// c26Through folds the given objects of one type through a FRESH processor of the given mode.
func c26Through(mode, kind string, objs map[string]c26Obj, into map[string]string) {
	names := make([]string, 0, len(objs))
	for n := range objs {
		names = append(names, n)
	}
	sort.Strings(names)
	proc := c26NewProc(mode, kind)
	if proc != nil {
		proc.OnSyncerStarting()
	}
	for _, n := range names {
		o := objs[n]
		kvp := &model.KVPair{Key: c26Key(kind, n), Value: o.val, Revision: strconv.Itoa(o.rev)}
		if proc == nil {
			into[kvp.Key.String()] = o.val
			continue
		}
		kvps, _ := proc.Process(kvp)
		for _, kv := range kvps {
			if kv.Value != nil {
				into[kv.Key.String()] = fmt.Sprint(kv.Value)
			} else {
				delete(into, kv.Key.String())
			}
		}
	}
}

// c26KeyOfKind tells whether a callback key (its String()) stems from the given resource type.
func c26KeyOfKind(kind, key string) bool {
	return strings.HasPrefix(key, kind+"(") || strings.Contains(key, "node="+kind+"-")
}

// ---- callback recorder ---------------------------------------------------------------------------

type c26Recorder struct {
	mu          sync.Mutex
	store       *c26Store
	nTypes      int
	kinds       []string
	view        map[string]string
	seq         []string
	status      api.SyncStatus
	haveStatus  bool
	violations  []string
	inSyncCount int
	waitCount   int
	deletes     int
	changed     chan struct{}
	syncFailed  int
	parseFailed int
	delay       time.Duration // slow consumer: lets results pile up so the syncer consolidates them
}

func (r *c26Recorder) bumpLocked() {
	close(r.changed)
	r.changed = make(chan struct{})
}

func (r *c26Recorder) OnStatusUpdated(st api.SyncStatus) {
	if r.delay > 0 {
		time.Sleep(r.delay)
	}
	// Which lists had completed is read before taking our own lock; the fake records completion
	// before List returns, i.e. before the cache can report anything based on it.
	r.store.mu.Lock()
	var missing []string
	for _, k := range r.kinds {
		if r.store.types[k].listsCompleted == 0 {
			missing = append(missing, k)
		}
	}
	r.store.mu.Unlock()
	r.mu.Lock()
	defer r.mu.Unlock()
	r.seq = append(r.seq, "status:"+st.String())
	r.status = st
	r.haveStatus = true
	switch st {
	case api.InSync:
		r.inSyncCount++
		if len(missing) > 0 {
			r.violations = append(r.violations, fmt.Sprintf("InSync reported although no List has completed yet for %v", missing))
		}
	case api.WaitForDatastore:
		r.waitCount++
	}
	r.bumpLocked()
}

func (r *c26Recorder) OnUpdates(us []api.Update) {
	if r.delay > 0 {
		time.Sleep(r.delay)
	}
	r.mu.Lock()
	defer r.mu.Unlock()
	var parts []string
	for _, u := range us {
		k := u.Key.String()
		if u.Value == nil {
			delete(r.view, k)
			r.deletes++
			parts = append(parts, k+"=<nil>")
		} else {
			r.view[k] = fmt.Sprint(u.Value)
			parts = append(parts, k+"="+fmt.Sprint(u.Value))
		}
	}
	r.seq = append(r.seq, "updates["+strings.Join(parts, " ")+"]")
	if r.haveStatus && r.status == api.WaitForDatastore {
		r.violations = append(r.violations, fmt.Sprintf("OnUpdates[%s] delivered while the last reported status is WaitForDatastore", strings.Join(parts, " ")))
	}
	r.bumpLocked()
}

func (r *c26Recorder) SyncFailed(err error) {
	r.mu.Lock()
	defer r.mu.Unlock()
	r.syncFailed++
	r.seq = append(r.seq, "syncFailed")
}

func (r *c26Recorder) ParseFailed(rawKey string, rawValue string) {
	r.mu.Lock()
	defer r.mu.Unlock()
	r.parseFailed++
}

// ---- expected view -------------------------------------------------------------------------------

func c26Expected(s *c26Store, kinds []string, procMode map[string]string) map[string]string {
	s.mu.Lock()
	defer s.mu.Unlock()
	exp := map[string]string{}
	for _, kind := range kinds {
		c26Through(procMode[kind], kind, s.types[kind].objs, exp)
	}
	return exp
}

func c26FmtMap(m map[string]string) string {
	ks := make([]string, 0, len(m))
	for k := range m {
		ks = append(ks, k)
	}
	sort.Strings(ks)
	var parts []string
	for _, k := range ks {
		parts = append(parts, k+"="+m[k])
	}
	return "{" + strings.Join(parts, ", ") + "}"
}

// ---- the case --------------------------------------------------------------------------------------

type c26Case struct {
	t     *rapid.T
	store *c26Store
	rec   *c26Recorder
	kinds []string
	steps []string
}

func (c *c26Case) dump() string {
	c.store.mu.Lock()
	sl := append([]string{}, c.store.log...)
	c.store.mu.Unlock()
	c.rec.mu.Lock()
	cb := append([]string{}, c.rec.seq...)
	c.rec.mu.Unlock()
	return "steps:\n  " + strings.Join(c26Tail(c.steps), "\n  ") + "\nfake datastore log:\n  " + strings.Join(c26Tail(sl), "\n  ") + "\ncallbacks:\n  " + strings.Join(c26Tail(cb), "\n  ")
}

// waitStore blocks until cond (evaluated under the store lock) holds.
func (c *c26Case) waitStore(what string, cond func() bool) {
	deadline := time.After(c26Deadline)
	for {
		c.store.mu.Lock()
		ok := cond()
		ch := c.store.changed
		ll := c.store.livelock
		c.store.mu.Unlock()
		if ll != "" {
			c.t.Fatalf("C26 violated: %s\n%s", ll, c.dump())
		}
		if ok {
			return
		}
		select {
		case <-ch:
		case <-deadline:
			c26Inconclusive(fmt.Sprintf("C26: %s not reached within %v\n%s", what, c26Deadline, c.dump()))
		}
	}
}

func (c *c26Case) waitRec(what string, cond func() bool) {
	deadline := time.After(c26Deadline)
	for {
		c.rec.mu.Lock()
		ok := cond()
		ch := c.rec.changed
		c.rec.mu.Unlock()
		c.store.mu.Lock()
		sch := c.store.changed
		ll := c.store.livelock
		c.store.mu.Unlock()
		if ll != "" {
			c.t.Fatalf("C26 violated: %s\n%s", ll, c.dump())
		}
		if ok {
			return
		}
		select {
		case <-ch:
		case <-sch:
		case <-deadline:
			c26Inconclusive(fmt.Sprintf("C26: %s not reached within %v\n%s", what, c26Deadline, c.dump()))
		}
	}
}

// settle waits until the type has a running watcher that has delivered its whole history or, when
// the type is in a polling regime (Watch unsupported / empty list without revision), until two more
// Lists have completed (so at least one full List taken after this call has been processed).
func (c *c26Case) settle(kind string) {
	base := -1
	c.waitStore("watcher for "+kind+" established and caught up (or two polls completed)", func() bool {
		ts := c.store.types[kind]
		if w := ts.watcher; w != nil && !w.ended && w.caughtUp && w.killNow == "" &&
			(len(ts.history) == 0 || ts.history[len(ts.history)-1].rev <= w.lastRev) {
			return true
		}
		if ts.watchUnsupported || (ts.emptyNoRevBackend && len(ts.objs) == 0) {
			if base < 0 {
				base = ts.listsCompleted
			}
			return ts.listsCompleted >= base+2
		}
		return false
	})
}

// pollCheckpoint checks clause 1 for ONE type while it is polling (no sentinel can be written into
// the type without changing what the next List returns).  Preconditions: the type's fault plans are
// empty and the harness is not mutating it.  Wait for two more completed Lists of the type (when
// the second is served, the cache has finished processing the first, which was taken after the last
// mutation), then send a marker through the marker type: the results channel is FIFO across caches,
// so once the marker is visible everything that first List produced has reached the callbacks.
func (c *c26Case) pollCheckpoint(kind string, procMode map[string]string, what string) {
	c.store.mu.Lock()
	base := c.store.types[kind].listsCompleted
	c.store.mu.Unlock()
	c.waitStore("two more polls of "+kind, func() bool { return c.store.types[kind].listsCompleted >= base+2 })
	c.store.set(c26MarkerKind, "marker")
	c.store.mu.Lock()
	mv := c.store.types[c26MarkerKind].objs["marker"].val
	objs := map[string]c26Obj{}
	for n, o := range c.store.types[kind].objs {
		objs[n] = o
	}
	c.store.mu.Unlock()
	mk := c26Key(c26MarkerKind, "marker").String()
	c.waitRec("marker "+mv+" visible in callbacks", func() bool { return c.rec.view[mk] == mv })
	want := map[string]string{}
	c26Through(procMode[kind], kind, objs, want)
	got := map[string]string{}
	c.rec.mu.Lock()
	for k, v := range c.rec.view {
		if c26KeyOfKind(kind, k) {
			got[k] = v
		}
	}
	c.rec.mu.Unlock()
	c.checkViolations()
	if c26FmtMap(got) != c26FmtMap(want) {
		c.t.Fatalf("C26 violated: %s: %s is polling, at least one full List taken after the last change has been processed and delivered, but the folded callback view for that type differs from the datastore contents (through a fresh update processor)\n got: %s\nwant: %s\n%s",
			what, kind, c26FmtMap(got), c26FmtMap(want), c.dump())
	}
}

func (c *c26Case) checkViolations() {
	c.rec.mu.Lock()
	v := append([]string{}, c.rec.violations...)
	c.rec.mu.Unlock()
	if len(v) > 0 {
		c.t.Fatalf("C26 violated: %s\n%s", strings.Join(v, "; "), c.dump())
	}
}

func TestVerifC26WatcherSyncer(t *testing.T) {
	ev.Quiet()
	rec := ev.New("C26", "watchersyncer",
		"real watchersyncer (goroutines) over a fake revisioned datastore with 1..3 resource types (each randomly with a stateless update processor and/or SendDeletesOnConnFail), retry intervals 1ms, watchRetryTimeout 1ns or 1h; generated steps: create/update/delete objects, queue List outcomes (error / not-installed / expired / empty-without-revision) and Watch outcomes (error / expired / gone / refused / too-many-requests / not-supported / not-exist / ok with end-after-n-events by error event, expired event or close, bookmarks), kill the running watcher, wait-for-watch-established barriers; then a sentinel-based quiescence barrier and the outcome oracle (or, in 1/8 of cases, the datastore goes away for good and the syncer is stopped while reporting WaitForDatastore: ordering clauses only); in 1/3 of cases the consumer is slow (1ms per callback) so that results get consolidated. Non-trivial = >=1 watcher ended by an injected fault after being established AND >=1 List was served that lacked a key the cache had been told about (a resync delete was required); distinct = step-kind sequence",
		"a List answered NotFound (API not installed) counts as a completed, empty list",
		"revisions are integers issued by the fake; every write bumps the object's revision (as etcd/k8s do)",
		"deadline (120s per wait) => VERIF-INCONCLUSIVE, never a violation")
	defer rec.Write()

	// Package-level retry intervals: shrink for the test, restore afterwards.
	oMin, oList, oPoll, oMissing := watchersyncer.MinResyncInterval, watchersyncer.ListRetryInterval, watchersyncer.WatchPollInterval, watchersyncer.MissingAPIRetryTime
	watchersyncer.MinResyncInterval = time.Millisecond
	watchersyncer.ListRetryInterval = time.Millisecond
	watchersyncer.WatchPollInterval = 2 * time.Millisecond
	watchersyncer.MissingAPIRetryTime = 3 * time.Millisecond
	defer func() {
		watchersyncer.MinResyncInterval, watchersyncer.ListRetryInterval, watchersyncer.WatchPollInterval, watchersyncer.MissingAPIRetryTime = oMin, oList, oPoll, oMissing
	}()

	rapid.Check(t, func(t *rapid.T) {
		nTypes := rapid.IntRange(1, 3).Draw(t, "numTypes")
		stepKinds := c26Kinds[:nTypes] // the types the generated steps act on
		store := &c26Store{types: map[string]*c26TypeState{}, changed: make(chan struct{}), rev: rapid.IntRange(20, 70).Draw(t, "initialRevision")}
		store.compactedBefore = store.rev
		store.firstRev = store.rev
		procMode := map[string]string{}
		var rts []watchersyncer.ResourceType
		var cachingKinds []string
		for _, k := range stepKinds {
			store.types[k] = &c26TypeState{kind: k, objs: map[string]c26Obj{}, cacheKnows: map[string]bool{}}
			rt := watchersyncer.ResourceType{ListInterface: model.ResourceListOptions{Kind: k}}
			procMode[k] = rapid.SampledFrom([]string{c26ProcNone, c26ProcStateless, c26ProcCaching, c26ProcCaching}).Draw(t, "updateProcessor-"+k)
			if p := c26NewProc(procMode[k], k); p != nil {
				rt.UpdateProcessor = p
			}
			if procMode[k] == c26ProcCaching {
				cachingKinds = append(cachingKinds, k)
			}
			rt.SendDeletesOnConnFail = rapid.Bool().Draw(t, "sendDeletesOnConnFail-"+k)
			rts = append(rts, rt)
		}
		// The marker type: never faulted, never touched by generated steps.  It is needed by the
		// polling checkpoints; without it (1/3 of cases) those composites are not generated, but the
		// aggregated status can regress to WaitForDatastore mid-run (it needs *every* cache waiting).
		useMarker := rapid.IntRange(0, 2).Draw(t, "markerType") != 0
		kinds := append([]string{}, stepKinds...) // all types
		if useMarker {
			store.types[c26MarkerKind] = &c26TypeState{kind: c26MarkerKind, objs: map[string]c26Obj{}, cacheKnows: map[string]bool{}}
			rts = append(rts, watchersyncer.ResourceType{ListInterface: model.ResourceListOptions{Kind: c26MarkerKind}})
			kinds = append(kinds, c26MarkerKind)
		}
		cbs := &c26Recorder{store: store, kinds: kinds, view: map[string]string{}, changed: make(chan struct{})}
		c := &c26Case{t: t, store: store, rec: cbs, kinds: kinds}

		kindGen := rapid.SampledFrom(stepKinds)
		nameGen := rapid.SampledFrom([]string{"x", "y", "z"})
		listOutcomeGen := rapid.SampledFrom([]string{c26ListErr, c26ListErr, c26ListNotFound, c26ListExpired, c26ListTooLarge, c26ListEmptyNoRev, c26ListOK})
		watchErrGen := rapid.SampledFrom([]string{c26WatchErr, c26WatchExpired, c26WatchExpired, c26WatchGone, c26WatchRefused, c26WatchTooMany, c26WatchNotSupp, c26WatchNotExist})
		endGen := rapid.SampledFrom([]string{c26EndErrEvent, c26EndExpiredEvent, c26EndExpiredEvent, c26EndClose})
		genWatchPlan := func(t *rapid.T) c26WatchPlan {
			if rapid.Bool().Draw(t, "watchFails") {
				return c26WatchPlan{Outcome: watchErrGen.Draw(t, "watchErr")}
			}
			p := c26WatchPlan{Outcome: c26WatchOK, End: c26EndNever, Bookmarks: rapid.Bool().Draw(t, "bookmarks")}
			if rapid.Bool().Draw(t, "watchEnds") {
				p.End = endGen.Draw(t, "end")
				p.MaxEvents = rapid.IntRange(0, 3).Draw(t, "afterEvents")
			}
			return p
		}

		// Initial contents and initial fault plans (so that start-of-day failures are covered).
		nInit := rapid.IntRange(0, 6).Draw(t, "initialObjects")
		for i := 0; i < nInit; i++ {
			k, n := kindGen.Draw(t, "kind"), nameGen.Draw(t, "name")
			store.set(k, n)
			c.steps = append(c.steps, "init set "+k+"/"+n)
		}
		for _, k := range stepKinds {
			nl := rapid.IntRange(0, 2).Draw(t, "initListFaults")
			for i := 0; i < nl; i++ {
				o := listOutcomeGen.Draw(t, "listOutcome")
				store.types[k].listPlan = append(store.types[k].listPlan, o)
				c.steps = append(c.steps, "init listPlan "+k+" "+o)
			}
		}
		retry := time.Nanosecond
		if rapid.Bool().Draw(t, "longWatchRetryTimeout") {
			retry = time.Hour
		}
		if rapid.IntRange(0, 2).Draw(t, "slowConsumer") == 0 {
			cbs.delay = time.Millisecond
		}
		earlyStop := retry == time.Nanosecond && rapid.IntRange(0, 3).Draw(t, "stopWhileDisconnected") == 0
		c.steps = append(c.steps, fmt.Sprintf("watchRetryTimeout=%v consumerDelay=%v", retry, cbs.delay))

		syncer := watchersyncer.New(store, rts, cbs, watchersyncer.WithWatchRetryTimeout(retry))
		syncer.Start()
		stopped := false
		stop := func() {
			if stopped {
				return
			}
			stopped = true
			done := make(chan struct{})
			go func() { syncer.Stop(); store.wg.Wait(); close(done) }()
			select {
			case <-done:
			case <-time.After(c26Deadline):
				c26Inconclusive("C26: syncer.Stop() / fake watchers did not finish within the deadline\n" + c.dump())
			}
		}
		defer stop()

		var ops []string
		outageDeletes := 0
		wipeouts, pollPrimaries, restoresPolling, restoresWatchErrs := 0, 0, 0, 0
		nSteps := rapid.IntRange(1, 14).Draw(t, "steps")
		for i := 0; i < nSteps; i++ {
			kind := kindGen.Draw(t, "kind")
			short := c26KindShort[c26IndexOf(c26Kinds, kind)]
			step := rapid.SampledFrom([]string{"set", "set", "del", "settle", "listFault", "watchPlan", "kill", "outage", "outage", "outage", "wipeout", "wipeout", "pollPrimary", "pollPrimary", "heal", "restore", "restore"}).Draw(t, "step")
			if !useMarker && (step == "pollPrimary" || step == "wipeout") {
				step = "outage"
			}
			if step == "pollPrimary" {
				if len(cachingKinds) == 0 {
					step = "outage"
				} else {
					kind = rapid.SampledFrom(cachingKinds).Draw(t, "cachingKind")
					short = c26KindShort[c26IndexOf(c26Kinds, kind)]
				}
			}
			switch step {
			case "restore":
				// The datastore's revision goes backwards (restore from an older backup) while one
				// type is in a state in which the cache re-Lists from its stored, non-zero revision:
				// it is polling (Watch unsupported), or its Watch fails repeatedly with generic errors.
				mode := rapid.SampledFrom([]string{"polling", "polling", "watchErrors"}).Draw(t, "restoreWhile")
				c.steps = append(c.steps, fmt.Sprintf("restore (%s is %s) {", kind, mode))
				store.mu.Lock()
				ts := store.types[kind]
				ts.listPlan, ts.watchPlan = nil, nil
				if mode == "polling" {
					ts.watchUnsupported = true
					if w := ts.watcher; w != nil && !w.ended {
						w.killNow = c26EndClose
					}
				} else {
					ts.watchUnsupported = false
				}
				store.bumpLocked()
				store.mu.Unlock()
				// Every cache gets to hold a current revision: all types settle, each step type receives
				// one more write, all settle again.  From here on every revision a cache can present is
				// newer than `horizon`, so any backup older than that is unambiguously "behind" them.
				for _, k := range kinds {
					c.settle(k)
				}
				store.mu.Lock()
				horizon := store.rev
				store.mu.Unlock()
				if horizon < 2 {
					c.steps = append(c.steps, "  (no older backup possible: skipped)", "}")
					ops = append(ops, "b"+short)
					break
				}
				for _, k := range stepKinds {
					store.set(k, "bump")
				}
				for _, k := range kinds {
					c.settle(k)
				}
				back := rapid.IntRange(1, horizon-1).Draw(t, "backupAgeInRevisions")
				backupRev := horizon - back
				nErrs := 0
				if mode == "watchErrors" {
					nErrs = rapid.IntRange(watchersyncer.MaxErrorsPerRevision, watchersyncer.MaxErrorsPerRevision+2).Draw(t, "watchErrors")
					store.mu.Lock()
					for j := 0; j < nErrs; j++ {
						ts.watchPlan = append(ts.watchPlan, c26WatchPlan{Outcome: c26WatchErr})
					}
					store.mu.Unlock()
				}
				before := store.restore(backupRev, kinds)
				c.steps = append(c.steps, fmt.Sprintf("  all watches break, datastore restored from the backup taken at revision %d (was past %d), %d generic Watch errors queued for %s", backupRev, horizon, nErrs, kind))
				// Every type must get over it: a List completes against the restored datastore.
				// (A cache whose revision is not newer than the backup is still consistent with the
				// restored datastore - same lineage - and may simply re-establish its watch.)
				c.waitStore("every type has completed a List, or re-established its watch, after the datastore was restored", func() bool {
					for _, k := range kinds {
						ts := store.types[k]
						if ts.listsCompleted > before[k] {
							continue
						}
						if w := ts.watcher; w != nil && !w.ended && w.caughtUp && w.killNow == "" {
							continue // every watcher was broken by the restore, so this one is new
						}
						return false
					}
					return true
				})
				if mode == "polling" {
					restoresPolling++
					if useMarker {
						c.steps = append(c.steps, "  poll checkpoint")
						c.pollCheckpoint(kind, procMode, "after the datastore was restored to an older revision")
					}
				} else {
					restoresWatchErrs++
				}
				c.steps = append(c.steps, "}")
				ops = append(ops, "B"+short)
			case "heal":
				// The backend quirks of this type go away (Watch supported again, empty Lists carry a revision).
				store.mu.Lock()
				store.types[kind].watchUnsupported = false
				store.types[kind].emptyNoRevBackend = false
				store.bumpLocked()
				store.mu.Unlock()
				c.steps = append(c.steps, "heal "+kind)
				ops = append(ops, "H"+short)
			case "wipeout":
				// Objects exist and are synced; then, during an outage whose revision expires, every
				// object of the type is deleted, and the backend answers the re-List with an empty
				// list that carries no revision (so the cache falls back to polling).
				c.steps = append(c.steps, "wipeout "+kind+" {")
				store.mu.Lock()
				ts := store.types[kind]
				ts.listPlan, ts.watchPlan = nil, nil
				ts.watchUnsupported = false
				n0 := len(ts.objs)
				store.bumpLocked()
				store.mu.Unlock()
				if n0 == 0 {
					n := nameGen.Draw(t, "name")
					store.set(kind, n)
					c.steps = append(c.steps, "  set "+kind+"/"+n)
				}
				if rapid.Bool().Draw(t, "wipeoutSecondObject") {
					n := nameGen.Draw(t, "name")
					store.set(kind, n)
					c.steps = append(c.steps, "  set "+kind+"/"+n)
				}
				c.settle(kind)
				how := endGen.Draw(t, "killHow")
				expiry := rapid.SampledFrom([]string{c26WatchExpired, c26WatchGone}).Draw(t, "outageExpiry")
				store.mu.Lock() // (never draw while holding the lock: a draw may abort the case)
				ts.emptyNoRevBackend = true
				ts.watchPlan = []c26WatchPlan{{Outcome: expiry}}
				var names []string
				for n := range ts.objs {
					names = append(names, n)
				}
				sort.Strings(names)
				if w := ts.watcher; w != nil && !w.ended {
					w.killNow = how
				}
				// Same critical section: the watcher must not get to deliver these deletions, and the
				// cache must not re-List before they have happened.
				for _, n := range names {
					store.delLocked(kind, n)
				}
				store.bumpLocked()
				store.mu.Unlock()
				c.steps = append(c.steps, fmt.Sprintf("  watcher killed (%s), revision expires, all %d objects deleted, empty Lists carry no revision", how, len(names)), "  poll checkpoint", "}")
				c.pollCheckpoint(kind, procMode, "after all objects of the type vanished during an outage")
				wipeouts++
				ops = append(ops, "X"+short)
			case "pollPrimary":
				// A type with the caching, conflict-resolving processor whose backend cannot Watch
				// (polling): x and y map to one output key; the primary (x) is deleted between polls.
				c.steps = append(c.steps, "pollPrimary "+kind+" {")
				store.mu.Lock()
				ts := store.types[kind]
				ts.listPlan, ts.watchPlan = nil, nil
				ts.watchUnsupported = true
				if w := ts.watcher; w != nil && !w.ended {
					w.killNow = c26EndClose
				}
				store.bumpLocked()
				store.mu.Unlock()
				store.set(kind, "x")
				store.set(kind, "y")
				c.steps = append(c.steps, "  Watch unsupported from now on; set "+kind+"/x, "+kind+"/y; poll checkpoint")
				c.pollCheckpoint(kind, procMode, "polling with both conflicting objects present")
				switch rapid.SampledFrom([]string{"delPrimary", "delPrimary", "delPrimary", "delSecondary", "updPrimary"}).Draw(t, "betweenPolls") {
				case "delPrimary":
					store.del(kind, "x")
					c.steps = append(c.steps, "  del "+kind+"/x (the primary); poll checkpoint")
					pollPrimaries++
				case "delSecondary":
					store.del(kind, "y")
					c.steps = append(c.steps, "  del "+kind+"/y (the shadowed one); poll checkpoint")
				case "updPrimary":
					store.set(kind, "x")
					c.steps = append(c.steps, "  set "+kind+"/x; poll checkpoint")
				}
				c.pollCheckpoint(kind, procMode, "polling after a change between polls")
				c.steps = append(c.steps, "}")
				ops = append(ops, "Q"+short)
			case "set":
				n := nameGen.Draw(t, "name")
				store.set(kind, n)
				c.steps = append(c.steps, "set "+kind+"/"+n)
				ops = append(ops, "S"+short)
			case "del":
				n := nameGen.Draw(t, "name")
				if store.del(kind, n) {
					c.steps = append(c.steps, "del "+kind+"/"+n)
					ops = append(ops, "D"+short)
				} else {
					store.set(kind, n)
					c.steps = append(c.steps, "set "+kind+"/"+n)
					ops = append(ops, "S"+short)
				}
			case "settle":
				c.steps = append(c.steps, "settle "+kind)
				c.settle(kind)
				ops = append(ops, "W"+short)
			case "listFault":
				o := listOutcomeGen.Draw(t, "listOutcome")
				store.mu.Lock()
				store.types[kind].listPlan = append(store.types[kind].listPlan, o)
				store.mu.Unlock()
				c.steps = append(c.steps, "listPlan "+kind+" "+o)
				ops = append(ops, "L"+short+o[:2])
			case "watchPlan":
				p := genWatchPlan(t)
				store.mu.Lock()
				store.types[kind].watchPlan = append(store.types[kind].watchPlan, p)
				store.mu.Unlock()
				c.steps = append(c.steps, "watchPlan "+kind+" "+p.String())
				ops = append(ops, "P"+short)
			case "kill":
				how := endGen.Draw(t, "killHow")
				store.mu.Lock()
				if w := store.types[kind].watcher; w != nil && !w.ended {
					w.killNow = how
					store.bumpLocked()
				}
				store.mu.Unlock()
				c.steps = append(c.steps, "kill watcher "+kind+" "+how)
				ops = append(ops, "K"+short)
			case "outage":
				// The composite that the property is about: an established watch dies, the revision
				// it would resume from is no longer served, and objects change/vanish meanwhile.
				c.steps = append(c.steps, "outage "+kind+" {")
				c.settle(kind)
				nf := rapid.IntRange(0, 2).Draw(t, "outageWatchErrors")
				var wp []c26WatchPlan
				for j := 0; j < nf; j++ {
					wp = append(wp, c26WatchPlan{Outcome: rapid.SampledFrom([]string{c26WatchErr, c26WatchRefused, c26WatchTooMany}).Draw(t, "outageWatchErr")})
				}
				wp = append(wp, c26WatchPlan{Outcome: rapid.SampledFrom([]string{c26WatchExpired, c26WatchGone}).Draw(t, "outageExpiry")})
				nlf := rapid.IntRange(0, 2).Draw(t, "outageListErrors")
				var lp []string
				for j := 0; j < nlf; j++ {
					lp = append(lp, rapid.SampledFrom([]string{c26ListErr, c26ListExpired}).Draw(t, "outageListErr"))
				}
				how := endGen.Draw(t, "killHow")
				store.mu.Lock() // (never draw while holding the lock: a draw may abort the case)
				ts := store.types[kind]
				ts.watchPlan = append(ts.watchPlan, wp...)
				ts.listPlan = append(ts.listPlan, lp...)
				var names []string
				for n := range ts.objs {
					names = append(names, n)
				}
				sort.Strings(names)
				if w := ts.watcher; w != nil && !w.ended {
					w.killNow = how
					store.bumpLocked()
				}
				store.mu.Unlock()
				c.steps = append(c.steps, fmt.Sprintf("  kill %s, %d watch errors then expiry, %d list errors", how, nf, nlf))
				for _, n := range names {
					switch rapid.SampledFrom([]string{"delete", "delete", "delete", "update", "keep"}).Draw(t, "during-"+n) {
					case "delete":
						store.del(kind, n)
						outageDeletes++
						c.steps = append(c.steps, "  del "+kind+"/"+n)
					case "update":
						store.set(kind, n)
						c.steps = append(c.steps, "  set "+kind+"/"+n)
					}
				}
				c.steps = append(c.steps, "}")
				ops = append(ops, "O"+short)
			}
			c.checkViolations()
		}

		if earlyStop {
			// Alternative ending: the datastore goes away for good and the syncer is stopped while it
			// is reporting WaitForDatastore.  Only the ordering clauses (2, 3) apply.
			store.mu.Lock()
			for _, k := range kinds {
				ts := store.types[k]
				ts.listPlan = nil
				ts.listAlwaysErr = true
				ts.watchPlan = []c26WatchPlan{{Outcome: c26WatchExpired}}
				if w := ts.watcher; w != nil && !w.ended {
					w.killNow = c26EndExpiredEvent
				}
			}
			store.bumpLocked()
			store.mu.Unlock()
			c.steps = append(c.steps, "datastore gone: every List fails from now on; wait for WaitForDatastore, then Stop")
			// (The syncer may already be in WaitForDatastore from an earlier outage, so wait for the
			// state, not for a new report.)
			c.waitStore("every type has hit the dead datastore", func() bool {
				for _, k := range kinds {
					if store.types[k].listErrsSinceGone < 2 {
						return false
					}
				}
				return true
			})
			c.waitRec("WaitForDatastore is the reported status after the datastore went away", func() bool {
				return cbs.status == api.WaitForDatastore
			})
			stop()
			c.checkViolations()
			rec.SizedCase(false, "early-stop", len(ops), nil, "stopped-while-waiting-for-datastore")
			return
		}

		// ---- quiescence barrier --------------------------------------------------------------------
		// No further faults are injected; whatever is still queued in the plans is consumed by the
		// syncer's own retries.  Sentinel rounds are repeated until one is "clean": every plan is
		// empty, every type has a caught-up watcher, and no List/Watch call was made during the
		// round, so the sentinel travelled through the established watch and (FIFO) everything the
		// caches produced earlier, including resync deletes, has reached the callbacks.
		counters := func() (int, bool) {
			store.mu.Lock()
			defer store.mu.Unlock()
			n, plansEmpty := 0, true
			for _, k := range kinds {
				ts := store.types[k]
				n += ts.listCalls + ts.watchCalls
				if len(ts.listPlan) > 0 || len(ts.watchPlan) > 0 {
					plansEmpty = false
				}
			}
			return n, plansEmpty
		}
		// Faults that were queued but never reached (e.g. a List fault while the watch stayed
		// healthy) are not part of the executed sequence: drop them.
		store.mu.Lock()
		for _, k := range kinds {
			store.types[k].listPlan = nil
			store.types[k].watchPlan = nil
			store.types[k].watchUnsupported = false
			store.types[k].emptyNoRevBackend = false
		}
		store.bumpLocked()
		store.mu.Unlock()
		clean := false
		rounds := 0
		for start := time.Now(); !clean; {
			if time.Since(start) > c26Deadline {
				c26Inconclusive("C26: no clean sentinel round within the deadline\n" + c.dump())
			}
			rounds++
			for _, k := range kinds {
				c.settle(k)
			}
			before, _ := counters()
			// Everything the sentinel write must produce in the callbacks (through the processor):
			// present keys with their values, and keys that must be absent.  Waiting for all of it
			// matters because one watch event can fan out into several results.
			want := map[string]string{}
			var absent []string
			for _, k := range kinds {
				store.set(k, "sentinel")
				store.mu.Lock()
				o := store.types[k].objs["sentinel"]
				store.mu.Unlock()
				// What this write must produce downstream: through a fresh processor of the type's
				// kind, on the sentinel alone (its output keys are its own in every processor here).
				one := map[string]string{}
				c26Through(procMode[k], k, map[string]c26Obj{"sentinel": o}, one)
				for key, v := range one {
					want[key] = v
				}
				if procMode[k] == c26ProcStateless {
					kvps, _ := c26Proc{}.Process(&model.KVPair{Key: c26Key(k, "sentinel"), Value: o.val, Revision: strconv.Itoa(o.rev)})
					for _, kv := range kvps {
						if kv.Value == nil {
							absent = append(absent, kv.Key.String())
						}
					}
				}
			}
			c.steps = append(c.steps, fmt.Sprintf("sentinel round %d", rounds))
			c.waitRec(fmt.Sprintf("sentinel round %d visible in callbacks (%v, absent %v)", rounds, want, absent), func() bool {
				for k, v := range want {
					if cbs.view[k] != v {
						return false
					}
				}
				for _, k := range absent {
					if _, ok := cbs.view[k]; ok {
						return false
					}
				}
				return true
			})
			for _, k := range kinds {
				c.settle(k)
			}
			after, plansEmpty := counters()
			clean = plansEmpty && after == before
		}
		c.checkViolations()
		exp := c26Expected(store, kinds, procMode)
		cbs.mu.Lock()
		got := c26FmtMap(cbs.view)
		cbs.mu.Unlock()
		if got != c26FmtMap(exp) {
			t.Fatalf("C26 violated: after the plan was exhausted and the syncer caught up (clean sentinel round), the folded callback view differs from the datastore contents\n got: %s\nwant: %s\n%s", got, c26FmtMap(exp), c.dump())
		}

		// Shutdown (still subject to clause 2).
		stop()
		c.checkViolations()

		store.mu.Lock()
		faults, needDel, lists, watches := 0, 0, 0, 0
		for _, k := range kinds {
			ts := store.types[k]
			faults += ts.faultsMidWatch
			needDel += ts.resyncDeleteNeed
			lists += ts.listCalls
			watches += ts.watchCalls
		}
		store.mu.Unlock()
		cbs.mu.Lock()
		inSyncs, waits, syncFailed := cbs.inSyncCount, cbs.waitCount, cbs.syncFailed
		cbs.mu.Unlock()
		var classes []string
		if faults > 0 {
			classes = append(classes, "watch-ended-by-fault")
		}
		if needDel > 0 {
			classes = append(classes, "resync-delete-required")
		}
		if outageDeletes > 0 {
			classes = append(classes, "deleted-during-outage")
		}
		if inSyncs > 1 {
			classes = append(classes, "in-sync-more-than-once")
		}
		if waits > 1 {
			classes = append(classes, "wait-for-datastore-regression")
		}
		if syncFailed > 0 {
			classes = append(classes, "sync-failed-reported")
		}
		if lists > 2*nTypes {
			classes = append(classes, "relists")
		}
		if nTypes > 1 {
			classes = append(classes, "multi-type")
		}
		if wipeouts > 0 {
			classes = append(classes, "relist-empty-norev-after-having-resources")
		}
		if pollPrimaries > 0 {
			classes = append(classes, "polling-with-caching-processor-primary-deleted")
		}
		if restoresPolling > 0 {
			classes = append(classes, "datastore-revision-went-backwards-while-polling")
		}
		if restoresWatchErrs > 0 {
			classes = append(classes, "datastore-revision-went-backwards-while-watch-failing")
		}
		store.mu.Lock()
		tooLarge := store.tooLargeLists
		store.mu.Unlock()
		if tooLarge > 0 {
			classes = append(classes, "list-at-nonzero-revision-answered-too-large")
		}
		key := strings.Join(ops, "")
		rec.SizedCase((faults > 0 && needDel > 0) || wipeouts > 0 || pollPrimaries > 0 || tooLarge > 0, key, len(ops), func() any {
			return map[string]any{"ops": key, "steps": c.steps, "lists": lists, "watches": watches}
		}, classes...)
	})
}

// c26Tail keeps failure dumps readable.
func c26Tail(in []string) []string {
	const n = 150
	// Collapse runs of identical lines (polling produces thousands).
	var ss []string
	for i := 0; i < len(in); {
		j := i
		for j < len(in) && in[j] == in[i] {
			j++
		}
		if j-i > 1 {
			ss = append(ss, fmt.Sprintf("%s   (x%d)", in[i], j-i))
		} else {
			ss = append(ss, in[i])
		}
		i = j
	}
	if len(ss) <= n {
		return ss
	}
	return append([]string{fmt.Sprintf("... (%d earlier lines omitted)", len(ss)-n)}, ss[len(ss)-n:]...)
}

func c26IndexOf(ss []string, s string) int {
	for i, x := range ss {
		if x == s {
			return i
		}
	}
	return -1
}
