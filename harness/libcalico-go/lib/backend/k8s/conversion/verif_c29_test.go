package conversion_test

// C29 — a Kubernetes NetworkPolicy keeps its Kubernetes meaning after conversion.
//
// Real code: conversion.NewConverter().K8sNetworkPolicyToCalico -> updateprocessors.
// NewNetworkPolicyUpdateProcessor(KindKubernetesNetworkPolicy).Process -> model.Policy (what Felix gets).
// The cluster is converted with the real PodToWorkloadEndpoints / NamespaceToProfile, so the endpoints carry
// the labels, IPs and named ports Calico really gives them.
//
// Oracle: c29K8sVerdict is an evaluator of NetworkPolicy semantics written from the Kubernetes API
// documentation (networking/v1 types + the NetworkPolicy concept page); c29CalicoVerdict is a direct
// reading of model.Policy / model.Rule (a rule is the conjunction of its match fields, selectors are
// evaluated with libcalico-go/lib/selector on endpoint labels, a selector never matches a non-endpoint,
// named ports resolve on the destination endpoint for the rule's protocol, first matching rule decides,
// no match in an applicable policy = deny, no applicable policy = allow (namespace profile)).
// For 1-2 local pods per case every connection of a small universe (every pod and 5 external IPs as
// the remote side x tcp/udp/sctp x ~12 ports) is evaluated on both sides, per direction.

import (
	"fmt"
	"net"
	"sort"
	"strings"
	"testing"

	"pgregory.net/rapid"

	apiv3 "github.com/projectcalico/api/pkg/apis/projectcalico/v3"
	kapiv1 "k8s.io/api/core/v1"
	networkingv1 "k8s.io/api/networking/v1"
	metav1 "k8s.io/apimachinery/pkg/apis/meta/v1"
	k8slabels "k8s.io/apimachinery/pkg/labels"
	"k8s.io/apimachinery/pkg/types"
	"k8s.io/apimachinery/pkg/util/intstr"

	internalapi "github.com/projectcalico/calico/libcalico-go/lib/apis/internalapi"
	"github.com/projectcalico/calico/libcalico-go/lib/backend/k8s/conversion"
	"github.com/projectcalico/calico/libcalico-go/lib/backend/model"
	"github.com/projectcalico/calico/libcalico-go/lib/backend/syncersv1/updateprocessors"
	cnet "github.com/projectcalico/calico/libcalico-go/lib/net"
	"github.com/projectcalico/calico/libcalico-go/lib/selector"
	"github.com/projectcalico/calico/verifkit/ev"
)

// ---------------------------------------------------------------- cluster

type c29Port struct {
	Name  string
	Proto string // tcp | udp | sctp
	Num   int
}

type c29Pod struct {
	NS     string
	Name   string
	Labels map[string]string
	IP     string
	Ports  []c29Port
}

type c29Cluster struct {
	NSNames  []string
	NSLabels map[string]map[string]string
	Pods     []*c29Pod
}

// c29Party is one end of a connection: a pod, or a bare IP that is not a pod.
type c29Party struct {
	Pod *c29Pod
	IP  net.IP
}

func (p c29Party) String() string {
	if p.Pod != nil {
		return fmt.Sprintf("pod %s/%s(%s)", p.Pod.NS, p.Pod.Name, p.IP)
	}
	return "ip " + p.IP.String()
}

var (
	c29PodKeys   = []string{"app", "tier", "env", "example.com/role"}
	c29NSKeys    = []string{"team", "env", "kubernetes.io/metadata.name"}
	c29Values    = []string{"a", "b", "", "c-1"}
	c29Protos    = []string{"tcp", "udp", "sctp"}
	c29PortNames = []string{"http", "dns", "metrics", "sctp-p"}
	c29Externals = []string{"192.168.1.5", "192.168.2.9", "10.0.1.77", "10.0.0.200", "8.8.8.8"}
	c29ConnPorts = []int{53, 80, 81, 82, 83, 1080, 5353, 7000, 8080, 9090}
)

func c29K8sProto(p string) kapiv1.Protocol { return kapiv1.Protocol(strings.ToUpper(p)) }

func c29DrawLabels(t *rapid.T, keys []string, label string) map[string]string {
	m := map[string]string{}
	for _, k := range keys {
		if rapid.IntRange(0, 2).Draw(t, label+":has:"+k) != 0 {
			m[k] = rapid.SampledFrom(c29Values).Draw(t, label+":val:"+k)
		}
	}
	return m
}

func c29DrawCluster(t *rapid.T) *c29Cluster {
	cl := &c29Cluster{NSLabels: map[string]map[string]string{}}
	nns := rapid.IntRange(2, 4).Draw(t, "namespaces")
	for i := 0; i < nns; i++ {
		ns := fmt.Sprintf("ns%d", i)
		cl.NSNames = append(cl.NSNames, ns)
		l := c29DrawLabels(t, c29NSKeys[:2], ns)
		l["kubernetes.io/metadata.name"] = ns // set by the API server on every namespace
		cl.NSLabels[ns] = l
		npods := rapid.IntRange(1, 3).Draw(t, ns+":pods")
		for j := 0; j < npods; j++ {
			p := &c29Pod{NS: ns, Name: fmt.Sprintf("p%d", j), IP: fmt.Sprintf("10.0.%d.%d", i, j+1)}
			p.Labels = c29DrawLabels(t, c29PodKeys, ns+"/"+p.Name)
			for _, pn := range c29PortNames {
				if rapid.IntRange(0, 2).Draw(t, ns+"/"+p.Name+":port:"+pn) == 0 {
					p.Ports = append(p.Ports, c29Port{
						Name:  pn,
						Proto: rapid.SampledFrom(c29Protos).Draw(t, "containerPortProto"),
						Num:   rapid.SampledFrom([]int{53, 80, 81, 8080, 9090, 7000}).Draw(t, "containerPortNum"),
					})
				}
			}
			cl.Pods = append(cl.Pods, p)
		}
	}
	return cl
}

// ---------------------------------------------------------------- policy generator

// c29DrawKV draws a label key/value, half of the time taken from an existing object's labels (hints) so that
// selectors match something often enough.
func c29DrawKV(t *rapid.T, keys []string, hints []map[string]string, label string) (string, string) {
	if len(hints) > 0 && rapid.Bool().Draw(t, label+":fromExisting") {
		h := hints[rapid.IntRange(0, len(hints)-1).Draw(t, label+":hintObj")]
		var hk []string
		for k := range h {
			hk = append(hk, k)
		}
		sort.Strings(hk)
		if len(hk) > 0 {
			k := rapid.SampledFrom(hk).Draw(t, label+":hintKey")
			return k, h[k]
		}
	}
	return rapid.SampledFrom(keys).Draw(t, label+":key"), rapid.SampledFrom(c29Values).Draw(t, label+":val")
}

func c29DrawSelector(t *rapid.T, keys []string, hints []map[string]string, label string) *metav1.LabelSelector {
	s := &metav1.LabelSelector{}
	switch rapid.IntRange(0, 5).Draw(t, label+":selShape") {
	case 0:
		return s // empty: selects everything
	case 1, 2:
		s.MatchLabels = map[string]string{}
		n := rapid.IntRange(1, 2).Draw(t, label+":nMatchLabels")
		for i := 0; i < n; i++ {
			k, v := c29DrawKV(t, keys, hints, label+":ml")
			s.MatchLabels[k] = v
		}
	}
	if len(s.MatchLabels) == 0 || rapid.IntRange(0, 2).Draw(t, label+":alsoExpr") == 0 {
		n := rapid.SampledFrom([]int{1, 1, 2}).Draw(t, label+":nExpr")
		for i := 0; i < n; i++ {
			k, v := c29DrawKV(t, keys, hints, label+":expr")
			e := metav1.LabelSelectorRequirement{
				Key: k,
				Operator: rapid.SampledFrom([]metav1.LabelSelectorOperator{
					metav1.LabelSelectorOpIn, metav1.LabelSelectorOpNotIn, metav1.LabelSelectorOpExists, metav1.LabelSelectorOpDoesNotExist,
				}).Draw(t, label+":op"),
			}
			if e.Operator == metav1.LabelSelectorOpIn || e.Operator == metav1.LabelSelectorOpNotIn {
				e.Values = []string{v}
				if rapid.Bool().Draw(t, label+":secondValue") {
					v2 := rapid.SampledFrom(c29Values).Draw(t, label+":exprVal2")
					if v2 != v {
						e.Values = append(e.Values, v2)
					}
				}
			}
			s.MatchExpressions = append(s.MatchExpressions, e)
		}
	}
	return s
}

func (cl *c29Cluster) podHints(ns string) []map[string]string {
	var out []map[string]string
	for _, p := range cl.Pods {
		if ns == "" || p.NS == ns {
			out = append(out, p.Labels)
		}
	}
	return out
}

func (cl *c29Cluster) nsHints() []map[string]string {
	var out []map[string]string
	for _, ns := range cl.NSNames {
		out = append(out, cl.NSLabels[ns])
	}
	return out
}

func c29DrawNSSelector(t *rapid.T, cl *c29Cluster, label string) *metav1.LabelSelector {
	return c29DrawSelector(t, c29NSKeys, cl.nsHints(), label)
}

type c29Block struct {
	cidr    string
	excepts []string
}

var c29Blocks = []c29Block{
	{"10.0.0.0/16", []string{"10.0.1.0/24", "10.0.0.1/32", "10.0.0.0/30", "10.0.2.0/23"}},
	{"10.0.1.0/24", []string{"10.0.1.1/32", "10.0.1.64/26"}},
	{"0.0.0.0/0", []string{"10.0.0.0/8", "192.168.1.0/24", "10.0.0.2/32"}},
	{"192.168.0.0/16", []string{"192.168.1.0/24", "192.168.2.9/32"}},
	{"10.0.0.2/32", nil},
	{"10.0.0.129/16", []string{"10.0.0.0/24"}}, // host bits set in the CIDR (accepted by the API server)
}

func c29DrawPeer(t *rapid.T, cl *c29Cluster, label string) (networkingv1.NetworkPolicyPeer, string) {
	switch rapid.SampledFrom([]string{"pod", "pod", "ns", "both", "both", "ipBlock", "ipBlock"}).Draw(t, label+":peerKind") {
	case "pod":
		return networkingv1.NetworkPolicyPeer{PodSelector: c29DrawSelector(t, c29PodKeys, cl.podHints(""), label+":pod")}, "P"
	case "ns":
		return networkingv1.NetworkPolicyPeer{NamespaceSelector: c29DrawNSSelector(t, cl, label+":ns")}, "N"
	case "both":
		return networkingv1.NetworkPolicyPeer{
			PodSelector:       c29DrawSelector(t, c29PodKeys, cl.podHints(""), label+":pod"),
			NamespaceSelector: c29DrawNSSelector(t, cl, label+":ns"),
		}, "B"
	default:
		b := rapid.SampledFrom(c29Blocks).Draw(t, label+":block")
		blk := &networkingv1.IPBlock{CIDR: b.cidr}
		kind := "I"
		for _, e := range b.excepts {
			if rapid.Bool().Draw(t, label+":except:"+e) {
				blk.Except = append(blk.Except, e)
				kind = "X"
			}
		}
		return networkingv1.NetworkPolicyPeer{IPBlock: blk}, kind
	}
}

func c29DrawPort(t *rapid.T, label string) (networkingv1.NetworkPolicyPort, string) {
	var p networkingv1.NetworkPolicyPort
	kind := ""
	switch rapid.IntRange(0, 3).Draw(t, label+":proto") {
	case 0:
		kind = "d" // protocol left to default
	case 1:
		x := kapiv1.ProtocolTCP
		p.Protocol = &x
	case 2:
		x := kapiv1.ProtocolUDP
		p.Protocol = &x
	case 3:
		x := kapiv1.ProtocolSCTP
		p.Protocol = &x
	}
	switch rapid.SampledFrom([]string{"none", "num", "num", "named", "named", "range", "range"}).Draw(t, label+":portKind") {
	case "none":
		kind += "a"
	case "num":
		v := intstr.FromInt32(int32(rapid.SampledFrom([]int{53, 80, 81, 82, 8080, 9090, 7000}).Draw(t, label+":num")))
		p.Port = &v
		kind += "n"
	case "named":
		v := intstr.FromString(rapid.SampledFrom(append([]string{"nope"}, c29PortNames...)).Draw(t, label+":name"))
		p.Port = &v
		kind += "s"
	case "range":
		lo := rapid.SampledFrom([]int{53, 80, 81, 1000, 7000, 8080}).Draw(t, label+":lo")
		v := intstr.FromInt32(int32(lo))
		p.Port = &v
		e := int32(lo + rapid.SampledFrom([]int{0, 1, 2, 80, 1000}).Draw(t, label+":span"))
		p.EndPort = &e
		kind += "r"
	}
	return p, kind
}

func c29DrawRule(t *rapid.T, cl *c29Cluster, label string) ([]networkingv1.NetworkPolicyPeer, []networkingv1.NetworkPolicyPort, string) {
	var peers []networkingv1.NetworkPolicyPeer
	var ports []networkingv1.NetworkPolicyPort
	shape := ""
	np := rapid.SampledFrom([]int{0, 1, 1, 1, 2, 3}).Draw(t, label+":nPeers")
	for i := 0; i < np; i++ {
		p, k := c29DrawPeer(t, cl, fmt.Sprintf("%s:peer%d", label, i))
		peers = append(peers, p)
		shape += k
	}
	if np == 0 && rapid.Bool().Draw(t, label+":emptyNotNilPeers") {
		peers = []networkingv1.NetworkPolicyPeer{}
	}
	shape += "/"
	nq := rapid.SampledFrom([]int{0, 1, 1, 2, 3}).Draw(t, label+":nPorts")
	for i := 0; i < nq; i++ {
		p, k := c29DrawPort(t, fmt.Sprintf("%s:port%d", label, i))
		// neighbouring numeric ports of the same protocol (adjacent, one apart, overlapping) exercise the
		// port-list simplification
		if i > 0 && ports[i-1].Port != nil && ports[i-1].Port.Type == intstr.Int && rapid.Bool().Draw(t, fmt.Sprintf("%s:port%d:nearPrevious", label, i)) {
			prev := ports[i-1]
			base := int(prev.Port.IntVal)
			if prev.EndPort != nil && rapid.Bool().Draw(t, fmt.Sprintf("%s:port%d:afterRangeEnd", label, i)) {
				base = int(*prev.EndPort)
			}
			v := intstr.FromInt32(int32(base + rapid.SampledFrom([]int{0, 1, 2, 3}).Draw(t, fmt.Sprintf("%s:port%d:gap", label, i))))
			p = networkingv1.NetworkPolicyPort{Protocol: prev.Protocol, Port: &v}
			k = "c"
		}
		ports = append(ports, p)
		shape += k
	}
	if nq == 0 && rapid.Bool().Draw(t, label+":emptyNotNilPorts") {
		ports = []networkingv1.NetworkPolicyPort{}
	}
	return peers, ports, shape
}

func c29DrawPolicy(t *rapid.T, cl *c29Cluster) (*networkingv1.NetworkPolicy, string) {
	np := &networkingv1.NetworkPolicy{
		ObjectMeta: metav1.ObjectMeta{Name: "np", Namespace: rapid.SampledFrom(cl.NSNames[:2]).Draw(t, "policyNamespace"),
			UID: types.UID("30316465-6365-4463-ad63-3564622d3638")},
	}
	if rapid.IntRange(0, 3).Draw(t, "podSelectorEmpty") != 0 {
		np.Spec.PodSelector = *c29DrawSelector(t, c29PodKeys, cl.podHints(np.Namespace), "podSelector")
	}
	shape := ""
	kind := rapid.SampledFrom([]string{"I", "E", "IE", "IE", "implicit"}).Draw(t, "policyTypes")
	switch kind {
	case "I":
		np.Spec.PolicyTypes = []networkingv1.PolicyType{networkingv1.PolicyTypeIngress}
	case "E":
		np.Spec.PolicyTypes = []networkingv1.PolicyType{networkingv1.PolicyTypeEgress}
	case "IE":
		np.Spec.PolicyTypes = []networkingv1.PolicyType{networkingv1.PolicyTypeIngress, networkingv1.PolicyTypeEgress}
		if rapid.Bool().Draw(t, "typesReversed") {
			np.Spec.PolicyTypes = []networkingv1.PolicyType{networkingv1.PolicyTypeEgress, networkingv1.PolicyTypeIngress}
		}
	}
	shape += kind + ";"
	ni := rapid.SampledFrom([]int{0, 1, 1, 2, 2, 3}).Draw(t, "nIngress")
	for i := 0; i < ni; i++ {
		peers, ports, s := c29DrawRule(t, cl, fmt.Sprintf("in%d", i))
		np.Spec.Ingress = append(np.Spec.Ingress, networkingv1.NetworkPolicyIngressRule{From: peers, Ports: ports})
		shape += "i:" + s + ";"
	}
	// The API server defaults policyTypes on every object it stores (Egress is added when egress rules are
	// present), so an object with egress rules but no policyTypes cannot reach the converter: "implicit"
	// is only generated without egress rules.
	if kind != "implicit" {
		ne := rapid.SampledFrom([]int{0, 1, 1, 2, 2, 3}).Draw(t, "nEgress")
		for i := 0; i < ne; i++ {
			peers, ports, s := c29DrawRule(t, cl, fmt.Sprintf("eg%d", i))
			np.Spec.Egress = append(np.Spec.Egress, networkingv1.NetworkPolicyEgressRule{To: peers, Ports: ports})
			shape += "e:" + s + ";"
		}
	}
	return np, shape
}

// ---------------------------------------------------------------- Kubernetes semantics (from the API docs)

// c29K8sSelects: "A label selector is a label query over a set of resources. The result of matchLabels and
// matchExpressions are ANDed. An empty label selector matches all objects."
func c29K8sSelects(s *metav1.LabelSelector, labels map[string]string) bool {
	for k, v := range s.MatchLabels {
		if got, ok := labels[k]; !ok || got != v {
			return false
		}
	}
	for _, e := range s.MatchExpressions {
		got, ok := labels[e.Key]
		in := false
		for _, v := range e.Values {
			if ok && v == got {
				in = true
			}
		}
		switch e.Operator {
		case metav1.LabelSelectorOpIn:
			if !in {
				return false
			}
		case metav1.LabelSelectorOpNotIn:
			if in {
				return false
			}
		case metav1.LabelSelectorOpExists:
			if !ok {
				return false
			}
		case metav1.LabelSelectorOpDoesNotExist:
			if ok {
				return false
			}
		}
	}
	return true
}

func c29CIDRContains(cidr string, ip net.IP) bool {
	_, n, err := net.ParseCIDR(cidr)
	if err != nil {
		panic("HARNESS-GAP: generated CIDR does not parse: " + cidr)
	}
	return n.Contains(ip)
}

func c29K8sPeerMatches(np *networkingv1.NetworkPolicy, cl *c29Cluster, peer *networkingv1.NetworkPolicyPeer, remote c29Party) bool {
	if peer.IPBlock != nil {
		// "cidr is a string representing the IPBlock ... except is a slice of CIDRs that should not be
		// included within an IPBlock"
		if !c29CIDRContains(peer.IPBlock.CIDR, remote.IP) {
			return false
		}
		for _, e := range peer.IPBlock.Except {
			if c29CIDRContains(e, remote.IP) {
				return false
			}
		}
		return true
	}
	if remote.Pod == nil {
		return false // pod/namespace selectors select pods
	}
	if peer.NamespaceSelector == nil {
		// "podSelector ... Otherwise it selects the pods matching podSelector in the policy's own namespace."
		if remote.Pod.NS != np.Namespace {
			return false
		}
	} else if !c29K8sSelects(peer.NamespaceSelector, cl.NSLabels[remote.Pod.NS]) {
		return false
	}
	if peer.PodSelector == nil {
		// "namespaceSelector ... Otherwise it selects all pods in the namespaces selected by namespaceSelector."
		return true
	}
	return c29K8sSelects(peer.PodSelector, remote.Pod.Labels)
}

func c29K8sPortMatches(p *networkingv1.NetworkPolicyPort, proto string, port int, dst c29Party) bool {
	want := "tcp" // "protocol ... If not specified, this field defaults to TCP."
	if p.Protocol != nil {
		want = strings.ToLower(string(*p.Protocol))
	}
	if want != proto {
		return false
	}
	if p.Port == nil {
		return true // "If this field is not provided, this matches all port names and numbers."
	}
	if p.Port.Type == intstr.String {
		// "a named port on a pod"
		if dst.Pod == nil {
			return false
		}
		for _, cp := range dst.Pod.Ports {
			if cp.Name == p.Port.StrVal && cp.Proto == proto && cp.Num == port {
				return true
			}
		}
		return false
	}
	lo := int(p.Port.IntVal)
	hi := lo
	if p.EndPort != nil {
		hi = int(*p.EndPort) // "the range of ports from port to endPort if set, inclusive"
	}
	return port >= lo && port <= hi
}

// c29K8sVerdict returns (isolated, allowed) for one direction at the local pod.
func c29K8sVerdict(np *networkingv1.NetworkPolicy, cl *c29Cluster, ingress bool, local *c29Pod, remote c29Party, proto string, port int) (bool, bool) {
	hasI, hasE := false, false
	if len(np.Spec.PolicyTypes) == 0 {
		// "policies that contain an egress section are assumed to affect egress, and all policies (whether or
		// not they contain an ingress section) are assumed to affect ingress"
		hasI, hasE = true, len(np.Spec.Egress) > 0
	}
	for _, pt := range np.Spec.PolicyTypes {
		if pt == networkingv1.PolicyTypeIngress {
			hasI = true
		}
		if pt == networkingv1.PolicyTypeEgress {
			hasE = true
		}
	}
	selects := local.NS == np.Namespace && c29K8sSelects(&np.Spec.PodSelector, local.Labels)
	if !selects || (ingress && !hasI) || (!ingress && !hasE) {
		return false, true // not isolated in this direction: all traffic allowed
	}
	dst := remote
	if ingress {
		dst = c29Party{Pod: local, IP: net.ParseIP(local.IP)}
	}
	type rule struct {
		peers []networkingv1.NetworkPolicyPeer
		ports []networkingv1.NetworkPolicyPort
	}
	var rules []rule
	if ingress {
		for _, r := range np.Spec.Ingress {
			rules = append(rules, rule{r.From, r.Ports})
		}
	} else {
		for _, r := range np.Spec.Egress {
			rules = append(rules, rule{r.To, r.Ports})
		}
	}
	for _, r := range rules {
		peerOK := len(r.peers) == 0 // "If this field is empty or missing, this rule matches all sources"
		for i := range r.peers {
			if c29K8sPeerMatches(np, cl, &r.peers[i], remote) {
				peerOK = true
			}
		}
		portOK := len(r.ports) == 0 // "If this field is empty or missing, this rule matches all ports"
		for i := range r.ports {
			if c29K8sPortMatches(&r.ports[i], proto, port, dst) {
				portOK = true
			}
		}
		if peerOK && portOK {
			return true, true
		}
	}
	return true, false
}

// ---------------------------------------------------------------- Calico semantics (model.Policy / model.Rule)

type c29EP struct {
	isEndpoint bool
	labels     map[string]string // endpoint labels incl. inherited profile labels
	ip         net.IP
	ports      []c29Port
}

type c29CompiledRule struct {
	r              *model.Rule
	srcSel, dstSel *selector.Selector
}

type c29CompiledPolicy struct {
	p        *model.Policy
	sel      *selector.Selector
	in, out  []c29CompiledRule
	hasI     bool
	hasE     bool
	rendered string
}

func c29Gap(format string, a ...any) { panic("HARNESS-GAP: " + fmt.Sprintf(format, a...)) }

func c29CompileRules(rs []model.Rule) []c29CompiledRule {
	var out []c29CompiledRule
	for i := range rs {
		r := &rs[i]
		if r.NotProtocol != nil || r.ICMPType != nil || r.ICMPCode != nil || r.NotICMPType != nil || r.NotICMPCode != nil ||
			r.SrcTag != "" || r.DstTag != "" || r.NotSrcTag != "" || r.NotDstTag != "" || r.SrcNet != nil || r.DstNet != nil ||
			r.NotSrcNet != nil || r.NotDstNet != nil || len(r.SrcPorts) != 0 || len(r.NotSrcPorts) != 0 || len(r.NotDstPorts) != 0 ||
			r.SrcService != "" || r.DstService != "" || r.NotSrcSelector != "" || r.NotDstSelector != "" || r.HTTPMatch != nil ||
			(r.IPVersion != nil && *r.IPVersion != 4) {
			c29Gap("converted rule uses a match field this evaluator does not model: %+v", *r)
		}
		cr := c29CompiledRule{r: r}
		var err error
		if r.SrcSelector != "" {
			if cr.srcSel, err = selector.Parse(r.SrcSelector); err != nil {
				panic(fmt.Sprintf("C29-VIOLATION: converted rule has an unparsable source selector %q: %v", r.SrcSelector, err))
			}
		}
		if r.DstSelector != "" {
			if cr.dstSel, err = selector.Parse(r.DstSelector); err != nil {
				panic(fmt.Sprintf("C29-VIOLATION: converted rule has an unparsable destination selector %q: %v", r.DstSelector, err))
			}
		}
		out = append(out, cr)
	}
	return out
}

func c29Compile(p *model.Policy) *c29CompiledPolicy {
	cp := &c29CompiledPolicy{p: p}
	var err error
	if cp.sel, err = selector.Parse(p.Selector); err != nil {
		panic(fmt.Sprintf("C29-VIOLATION: converted policy has an unparsable selector %q: %v", p.Selector, err))
	}
	if p.DoNotTrack || p.PreDNAT || p.StagedAction != nil {
		c29Gap("converted policy is untracked/preDNAT/staged: %+v", *p)
	}
	if len(p.Types) == 0 {
		c29Gap("converted policy has no types")
	}
	for _, ty := range p.Types {
		switch ty {
		case "ingress":
			cp.hasI = true
		case "egress":
			cp.hasE = true
		default:
			c29Gap("unknown policy type %q", ty)
		}
	}
	cp.in = c29CompileRules(p.InboundRules)
	cp.out = c29CompileRules(p.OutboundRules)
	cp.rendered = fmt.Sprintf("selector=%q types=%v\n", p.Selector, p.Types)
	for _, r := range p.InboundRules {
		cp.rendered += "    in:  " + r.String() + "\n"
	}
	for _, r := range p.OutboundRules {
		cp.rendered += "    out: " + r.String() + "\n"
	}
	return cp
}

func c29InNets(nets []*cnet.IPNet, ip net.IP) bool {
	for _, n := range nets {
		if n != nil && n.IPNet.Contains(ip) {
			return true
		}
	}
	return false
}

func c29RuleMatches(cr *c29CompiledRule, src, dst c29EP, proto string, port int) bool {
	r := cr.r
	if r.Protocol != nil && strings.ToLower(r.Protocol.String()) != proto {
		return false
	}
	if len(r.SrcNets) > 0 && !c29InNets(r.SrcNets, src.ip) {
		return false
	}
	if c29InNets(r.NotSrcNets, src.ip) {
		return false
	}
	if len(r.DstNets) > 0 && !c29InNets(r.DstNets, dst.ip) {
		return false
	}
	if c29InNets(r.NotDstNets, dst.ip) {
		return false
	}
	if cr.srcSel != nil && !(src.isEndpoint && cr.srcSel.Evaluate(src.labels)) {
		return false
	}
	if cr.dstSel != nil && !(dst.isEndpoint && cr.dstSel.Evaluate(dst.labels)) {
		return false
	}
	if len(r.DstPorts) > 0 {
		ok := false
		for _, p := range r.DstPorts {
			if p.PortName != "" {
				// a named port resolves on the destination endpoint, for the rule's protocol
				if r.Protocol == nil {
					c29Gap("named port without protocol in %v", r)
				}
				if dst.isEndpoint {
					for _, ep := range dst.ports {
						if ep.Name == p.PortName && ep.Proto == proto && ep.Num == port {
							ok = true
						}
					}
				}
			} else if port >= int(p.MinPort) && port <= int(p.MaxPort) {
				ok = true
			}
		}
		if !ok {
			return false
		}
	}
	return true
}

// c29CalicoVerdict returns (applies, allowed) for one direction at the local endpoint.
func c29CalicoVerdict(cp *c29CompiledPolicy, ingress bool, local, src, dst c29EP, proto string, port int) (bool, bool) {
	if !cp.sel.Evaluate(local.labels) || (ingress && !cp.hasI) || (!ingress && !cp.hasE) {
		return false, true // no policy applies in this direction: the namespace profile allows
	}
	rules := cp.out
	if ingress {
		rules = cp.in
	}
	for i := range rules {
		if c29RuleMatches(&rules[i], src, dst, proto, port) {
			switch rules[i].r.Action {
			case "allow":
				return true, true
			case "deny":
				return true, false
			default:
				c29Gap("rule action %q", rules[i].r.Action)
			}
		}
	}
	return true, false // end of tier: default deny for endpoints the tier's policies apply to
}

// ---------------------------------------------------------------- cluster -> Calico endpoints (real converters)

func c29Endpoints(t *rapid.T, c conversion.Converter, cl *c29Cluster) map[*c29Pod]c29EP {
	out := map[*c29Pod]c29EP{}
	profLabels := map[string]map[string]string{}
	for i, ns := range cl.NSNames {
		kvp, err := c.NamespaceToProfile(&kapiv1.Namespace{ObjectMeta: metav1.ObjectMeta{
			Name: ns, Labels: cl.NSLabels[ns], UID: types.UID(fmt.Sprintf("30316465-6365-4463-ad63-3564622d36%02d", i))}})
		if err != nil {
			t.Fatalf("HARNESS-GAP: NamespaceToProfile failed: %v", err)
		}
		profLabels[ns] = kvp.Value.(*apiv3.Profile).Spec.LabelsToApply
	}
	for _, p := range cl.Pods {
		pod := &kapiv1.Pod{
			ObjectMeta: metav1.ObjectMeta{Name: p.Name, Namespace: p.NS, Labels: p.Labels},
			Spec:       kapiv1.PodSpec{NodeName: "node1", Containers: []kapiv1.Container{{Name: "c"}}},
			Status:     kapiv1.PodStatus{PodIP: p.IP, PodIPs: []kapiv1.PodIP{{IP: p.IP}}},
		}
		for _, cp := range p.Ports {
			pod.Spec.Containers[0].Ports = append(pod.Spec.Containers[0].Ports,
				kapiv1.ContainerPort{Name: cp.Name, ContainerPort: int32(cp.Num), Protocol: c29K8sProto(cp.Proto)})
		}
		kvps, err := c.PodToWorkloadEndpoints(pod)
		if err != nil || len(kvps) != 1 {
			t.Fatalf("HARNESS-GAP: PodToWorkloadEndpoints failed: %v", err)
		}
		wep := kvps[0].Value.(*internalapi.WorkloadEndpoint)
		ep := c29EP{isEndpoint: true, labels: map[string]string{}}
		// profile labels are inherited; the endpoint's own labels win
		for k, v := range profLabels[p.NS] {
			ep.labels[k] = v
		}
		for k, v := range wep.Labels {
			ep.labels[k] = v
		}
		if len(wep.Spec.IPNetworks) != 1 {
			t.Fatalf("HARNESS-GAP: workload endpoint has IPNetworks %v", wep.Spec.IPNetworks)
		}
		ip, _, err := net.ParseCIDR(wep.Spec.IPNetworks[0])
		if err != nil {
			t.Fatalf("HARNESS-GAP: workload endpoint IPNetwork %q: %v", wep.Spec.IPNetworks[0], err)
		}
		ep.ip = ip
		for _, wp := range wep.Spec.Ports {
			ep.ports = append(ep.ports, c29Port{Name: wp.Name, Proto: strings.ToLower(wp.Protocol.String()), Num: int(wp.Port)})
		}
		out[p] = ep
	}
	return out
}

// ---------------------------------------------------------------- the property

func c29Describe(np *networkingv1.NetworkPolicy, cl *c29Cluster) string {
	var sb strings.Builder
	fmt.Fprintf(&sb, "NetworkPolicy %s/%s podSelector=%s policyTypes=%v\n", np.Namespace, np.Name, metav1.FormatLabelSelector(&np.Spec.PodSelector), np.Spec.PolicyTypes)
	peer := func(p networkingv1.NetworkPolicyPeer) string {
		if p.IPBlock != nil {
			return fmt.Sprintf("ipBlock{%s except %v}", p.IPBlock.CIDR, p.IPBlock.Except)
		}
		s := "{"
		if p.NamespaceSelector != nil {
			s += "ns:(" + metav1.FormatLabelSelector(p.NamespaceSelector) + ") "
		}
		if p.PodSelector != nil {
			s += "pod:(" + metav1.FormatLabelSelector(p.PodSelector) + ")"
		}
		return s + "}"
	}
	port := func(p networkingv1.NetworkPolicyPort) string {
		s := "{"
		if p.Protocol != nil {
			s += string(*p.Protocol) + " "
		}
		if p.Port != nil {
			s += p.Port.String()
		}
		if p.EndPort != nil {
			s += fmt.Sprintf("-%d", *p.EndPort)
		}
		return s + "}"
	}
	for _, r := range np.Spec.Ingress {
		sb.WriteString("  ingress from")
		if r.From == nil {
			sb.WriteString(" <nil>")
		}
		for _, p := range r.From {
			sb.WriteString(" " + peer(p))
		}
		sb.WriteString(" ports")
		if r.Ports == nil {
			sb.WriteString(" <nil>")
		}
		for _, p := range r.Ports {
			sb.WriteString(" " + port(p))
		}
		sb.WriteString("\n")
	}
	for _, r := range np.Spec.Egress {
		sb.WriteString("  egress to")
		if r.To == nil {
			sb.WriteString(" <nil>")
		}
		for _, p := range r.To {
			sb.WriteString(" " + peer(p))
		}
		sb.WriteString(" ports")
		if r.Ports == nil {
			sb.WriteString(" <nil>")
		}
		for _, p := range r.Ports {
			sb.WriteString(" " + port(p))
		}
		sb.WriteString("\n")
	}
	for _, ns := range cl.NSNames {
		fmt.Fprintf(&sb, "  namespace %s labels=%v\n", ns, cl.NSLabels[ns])
	}
	for _, p := range cl.Pods {
		fmt.Fprintf(&sb, "  pod %s/%s ip=%s labels=%v ports=%v\n", p.NS, p.Name, p.IP, p.Labels, p.Ports)
	}
	return sb.String()
}

func TestVerifC29Conversion(t *testing.T) {
	ev.Quiet()
	rec := ev.New("C29", "conversion",
		"rapid: cluster of 2-4 namespaces x 1-3 pods (labels over 4 keys x 4 values incl. empty value, named container ports with per-pod numbers/protocols), one NetworkPolicy (podSelector and peers with matchLabels + In/NotIn/Exists/DoesNotExist, policyTypes I/E/IE/implicit, <=3 ingress and egress rules, <=3 peers of kind pod/namespace/both/ipBlock(+except), <=3 ports numeric/named/endPort range/none with protocol default/TCP/UDP/SCTP, nil vs empty lists); for 1-2 local pods every connection of the universe (all pods + 5 external IPs) x 3 protocols x ~12 ports is evaluated on both sides in both directions. Non-trivial = the policy isolates the local pod in the direction and the universe contains >=1 allowed and >=1 denied connection; distinct = policy shape string",
		"Kubernetes semantics evaluator written from the networking/v1 API documentation; its label selector matching is cross-checked against k8s.io/apimachinery labels",
		"Calico semantics: single policy in the default tier, namespace profile allows when no policy applies; selectors never match non-endpoints; named ports resolve on the destination endpoint",
		"objects as stored by the API server: policyTypes defaulted when egress rules exist; label keys do not use Calico's reserved prefixes (pcns., projectcalico.org/)")
	defer rec.Write()
	conv := conversion.NewConverter()
	proc := updateprocessors.NewNetworkPolicyUpdateProcessor(model.KindKubernetesNetworkPolicy)

	rapid.Check(t, func(t *rapid.T) {
		defer func() {
			if r := recover(); r != nil {
				if s, ok := r.(string); ok && (strings.HasPrefix(s, "HARNESS-GAP:") || strings.HasPrefix(s, "C29-VIOLATION:")) {
					t.Fatalf("%s", s)
				}
				panic(r)
			}
		}()
		cl := c29DrawCluster(t)
		np, shape := c29DrawPolicy(t, cl)

		// cross-check the documentation-based selector matcher against apimachinery on this case's inputs
		c29CrossCheckSelectors(t, np, cl)

		kvp, err := conv.K8sNetworkPolicyToCalico(np)
		if kvp == nil {
			t.Fatalf("K8sNetworkPolicyToCalico returned no policy (err=%v) for\n%s", err, c29Describe(np, cl))
		}
		convErr := err != nil
		outs, perr := proc.Process(kvp)
		if perr != nil || len(outs) != 1 || outs[0].Value == nil {
			t.Fatalf("update processor did not produce a policy: %v %v\n%s", outs, perr, c29Describe(np, cl))
		}
		pol, ok := outs[0].Value.(*model.Policy)
		if !ok {
			t.Fatalf("HARNESS-GAP: update processor produced %T", outs[0].Value)
		}
		cp := c29Compile(pol)
		eps := c29Endpoints(t, conv, cl)

		// local pods: prefer one that the policy selects
		var selected, others []*c29Pod
		for _, p := range cl.Pods {
			if p.NS == np.Namespace && c29K8sSelects(&np.Spec.PodSelector, p.Labels) {
				selected = append(selected, p)
			} else {
				others = append(others, p)
			}
		}
		var locals []*c29Pod
		if len(selected) > 0 {
			locals = append(locals, rapid.SampledFrom(selected).Draw(t, "localSelected"))
		}
		if len(others) > 0 && (len(locals) == 0 || rapid.IntRange(0, 3).Draw(t, "alsoUnselected") == 0) {
			locals = append(locals, rapid.SampledFrom(others).Draw(t, "localOther"))
		}

		var remotes []c29Party
		for _, p := range cl.Pods {
			remotes = append(remotes, c29Party{Pod: p, IP: net.ParseIP(p.IP)})
		}
		for _, x := range c29Externals {
			remotes = append(remotes, c29Party{IP: net.ParseIP(x)})
		}
		toEP := func(p c29Party) c29EP {
			if p.Pod != nil {
				return eps[p.Pod]
			}
			return c29EP{ip: p.IP}
		}

		// connection ports: the fixed universe plus every numeric port / endPort of the policy and its neighbours
		connPorts := append([]int{}, c29ConnPorts...)
		addPorts := func(ps []networkingv1.NetworkPolicyPort) {
			for _, p := range ps {
				if p.Port != nil && p.Port.Type == intstr.Int {
					connPorts = append(connPorts, int(p.Port.IntVal)-1, int(p.Port.IntVal), int(p.Port.IntVal)+1)
				}
				if p.EndPort != nil {
					connPorts = append(connPorts, int(*p.EndPort)-1, int(*p.EndPort), int(*p.EndPort)+1)
				}
			}
		}
		for _, r := range np.Spec.Ingress {
			addPorts(r.Ports)
		}
		for _, r := range np.Spec.Egress {
			addPorts(r.Ports)
		}

		nontrivial := false
		classes := map[string]bool{}
		if convErr {
			classes["conversion-reported-error"] = true
		}
		for _, local := range locals {
			lp := c29Party{Pod: local, IP: net.ParseIP(local.IP)}
			for _, ingress := range []bool{true, false} {
				nAllow, nDeny, isolated := 0, 0, false
				for _, remote := range remotes {
					if remote.Pod == local {
						continue
					}
					// ports: the fixed universe plus the named-port numbers of the destination
					ports := append([]int{}, connPorts...)
					dstParty := remote
					if ingress {
						dstParty = lp
					}
					if dstParty.Pod != nil {
						for _, cp := range dstParty.Pod.Ports {
							ports = append(ports, cp.Num)
						}
					}
					sort.Ints(ports)
					for _, proto := range c29Protos {
						prev := -1
						for _, port := range ports {
							if port == prev {
								continue
							}
							prev = port
							kIso, kAllow := c29K8sVerdict(np, cl, ingress, local, remote, proto, port)
							src, dst := toEP(remote), toEP(lp)
							if !ingress {
								src, dst = dst, src
							}
							cApplies, cAllow := c29CalicoVerdict(cp, ingress, eps[local], src, dst, proto, port)
							if kAllow != cAllow {
								dir := "egress from"
								if ingress {
									dir = "ingress to"
								}
								t.Fatalf("verdicts differ for %s local %s, remote %s, %s port %d:\n  Kubernetes semantics: isolated=%v allowed=%v\n  converted Calico policy: applies=%v allowed=%v (conversion error: %v)\n%sconverted policy: %s",
									dir, lp, remote, proto, port, kIso, kAllow, cApplies, cAllow, err, c29Describe(np, cl), cp.rendered)
							}
							isolated = kIso
							if kAllow {
								nAllow++
							} else {
								nDeny++
							}
						}
					}
				}
				if isolated {
					classes["isolated"] = true
					if nAllow > 0 && nDeny > 0 {
						nontrivial = true
						if ingress {
							classes["nontrivial-ingress"] = true
						} else {
							classes["nontrivial-egress"] = true
						}
					} else if nAllow == 0 {
						classes["isolated-deny-all"] = true
					} else {
						classes["isolated-allow-all"] = true
					}
				}
			}
		}
		for _, tag := range []string{"X", "I", "B", "N", "s", "r", "d", "c", "implicit"} {
			if strings.Contains(shape, tag) {
				classes["shape-"+tag] = true
			}
		}
		var cl2 []string
		for c := range classes {
			cl2 = append(cl2, c)
		}
		sort.Strings(cl2)
		rec.SizedCase(nontrivial, shape, len(shape), func() any {
			return map[string]any{"policy_and_cluster": strings.Split(c29Describe(np, cl), "\n"), "converted": strings.Split(cp.rendered, "\n")}
		}, cl2...)
	})
}

// c29CrossCheckSelectors compares the documentation-based matcher with apimachinery's implementation for
// every selector of the policy against every pod / namespace label set of the cluster.
func c29CrossCheckSelectors(t *rapid.T, np *networkingv1.NetworkPolicy, cl *c29Cluster) {
	var podSels, nsSels []*metav1.LabelSelector
	podSels = append(podSels, &np.Spec.PodSelector)
	add := func(peers []networkingv1.NetworkPolicyPeer) {
		for i := range peers {
			if peers[i].PodSelector != nil {
				podSels = append(podSels, peers[i].PodSelector)
			}
			if peers[i].NamespaceSelector != nil {
				nsSels = append(nsSels, peers[i].NamespaceSelector)
			}
		}
	}
	for _, r := range np.Spec.Ingress {
		add(r.From)
	}
	for _, r := range np.Spec.Egress {
		add(r.To)
	}
	check := func(s *metav1.LabelSelector, l map[string]string) {
		ks, err := metav1.LabelSelectorAsSelector(s)
		if err != nil {
			t.Fatalf("HARNESS-GAP: generated selector %v is not a valid Kubernetes selector: %v", s, err)
		}
		if ks.Matches(k8slabels.Set(l)) != c29K8sSelects(s, l) {
			t.Fatalf("HARNESS-GAP: documentation-based selector matcher disagrees with apimachinery for %s on %v", metav1.FormatLabelSelector(s), l)
		}
	}
	for _, s := range podSels {
		for _, p := range cl.Pods {
			check(s, p.Labels)
		}
	}
	for _, s := range nsSels {
		for _, ns := range cl.NSNames {
			check(s, cl.NSLabels[ns])
		}
	}
}
