package dedupebuffer

// C25 — reconnecting to Typha converges without stale or lost resources.
//
// In-package because the synchronous pull step (pullNextBatch / dropLockAndSendBatch /
// sendNextBatchToSinkNoBlock) is unexported.  The harness plays the Typha client (the only
// real upstream that calls OnTyphaConnectionRestarted, see typha/pkg/syncclient Start/loop)
// and the single downstream consumer goroutine (SendToSinkForever), and owns the schedule.
//
// Reference model: "conn" = fold of every OnUpdates call made since the last
// OnTyphaConnectionRestarted (the latest connection's view).  Oracle (from the statement):
//   1. whenever the latest connection has reported InSync and the buffer is drained (queue empty,
//      no batch in flight) the sink's folded view == conn;
//   2. "unchanged resources are not lost": the sink never receives a deletion for a key that is
//      present in conn at the moment the batch is taken off the queue;
//   3. "new versus updated notifications match what downstream already holds": a non-nil update
//      typed KVNew arrives only for a key the sink does not hold, KVUpdated only for one it holds.
// Deletions for keys the sink does not hold are NOT flagged (Typha passes deletions for unknown
// keys through, snapcache.publishBreadcrumb, so the buffer legitimately forwards them).

import (
	"errors"
	"fmt"
	"sort"
	"strings"
	"testing"

	"pgregory.net/rapid"

	"github.com/projectcalico/calico/libcalico-go/lib/backend/api"
	"github.com/projectcalico/calico/libcalico-go/lib/backend/model"
	"github.com/projectcalico/calico/verifkit/ev"
)

const c25NumKeys = 5

func c25Key(name string) model.Key {
	return model.HostConfigKey{Hostname: "h", Name: name}
}

func c25KeyName(k model.Key) string {
	return k.(model.HostConfigKey).Name
}

// c25Sink is the downstream consumer; it folds what it receives and checks clause 3 on arrival.
type c25Sink struct {
	view     map[string]string
	statuses []api.SyncStatus
	log      []string
	errs     []string
	nNew     int
	nUpd     int
	nDel     int
	nDelUnk  int
}

func (s *c25Sink) OnStatusUpdated(st api.SyncStatus) {
	s.statuses = append(s.statuses, st)
	s.log = append(s.log, "status:"+st.String())
}

func (s *c25Sink) OnUpdates(us []api.Update) {
	for _, u := range us {
		k := c25KeyName(u.Key)
		_, held := s.view[k]
		if u.Value == nil {
			s.log = append(s.log, fmt.Sprintf("%s=<nil>(%v)", k, u.UpdateType))
			if held {
				s.nDel++
			} else {
				s.nDelUnk++
			}
			delete(s.view, k)
			continue
		}
		v := u.Value.(string)
		s.log = append(s.log, fmt.Sprintf("%s=%s(%v)", k, v, u.UpdateType))
		switch u.UpdateType {
		case api.UpdateTypeKVNew:
			s.nNew++
			if held {
				s.errs = append(s.errs, fmt.Sprintf("sink got %s=%s typed KVNew but it already holds %s=%s", k, v, k, s.view[k]))
			}
		case api.UpdateTypeKVUpdated:
			s.nUpd++
			if !held {
				s.errs = append(s.errs, fmt.Sprintf("sink got %s=%s typed KVUpdated but it does not hold %s", k, v, k))
			}
		default:
			s.errs = append(s.errs, fmt.Sprintf("sink got %s=%s with update type %v", k, v, u.UpdateType))
		}
		s.view[k] = v
	}
}

func c25Fmt(m map[string]string) string {
	ks := make([]string, 0, len(m))
	for k := range m {
		ks = append(ks, k)
	}
	sort.Strings(ks)
	var b strings.Builder
	b.WriteString("{")
	for i, k := range ks {
		if i > 0 {
			b.WriteString(" ")
		}
		b.WriteString(k + "=" + m[k])
	}
	b.WriteString("}")
	return b.String()
}

type c25Harness struct {
	d    *DedupeBuffer
	sink *c25Sink

	conn         map[string]string // latest connection's view
	connInSync   bool              // latest connection has reported InSync since it started
	connStarted  bool              // ResyncInProgress sent for the current connection (syncclient loop start)
	snapshot     []string          // keys of the new connection's snapshot still to be sent (sorted)
	snapVals     map[string]string // values for the pending snapshot
	inflight     []any             // batch pulled off the queue but not yet delivered
	inflightConn map[string]string // copy of conn when the batch was pulled
	valCtr       int

	ops      []string
	history  []string
	restarts int
	// classes
	restartWithQueued bool // a restart happened while the queue was non-empty
	snapLacksLive     bool // a new connection's snapshot lacked >=1 key the sink held
	bothAtOnce        bool // both at the same restart
	restartInflight   bool // restart while a batch was in flight
	converged         int  // number of times clause 1 was evaluated
	convergedAfterNT  bool
}

func (h *c25Harness) hist(f string, a ...any) {
	h.history = append(h.history, fmt.Sprintf(f, a...))
}

func (h *c25Harness) queueLen() int {
	h.d.lock.Lock()
	defer h.d.lock.Unlock()
	return h.d.pendingUpdates.Len()
}

func (h *c25Harness) newVal() string {
	h.valCtr++
	return fmt.Sprintf("v%d", h.valCtr)
}

// sendUpdates delivers one upstream OnUpdates call and folds it into conn.
func (h *c25Harness) sendUpdates(us []api.Update) {
	var desc []string
	for _, u := range us {
		k := c25KeyName(u.Key)
		if u.Value == nil {
			delete(h.conn, k)
			desc = append(desc, fmt.Sprintf("%s=<nil>(%v)", k, u.UpdateType))
		} else {
			h.conn[k] = u.Value.(string)
			desc = append(desc, fmt.Sprintf("%s=%s(%v)", k, u.Value, u.UpdateType))
		}
	}
	h.hist("up.OnUpdates[%s]", strings.Join(desc, " "))
	h.d.OnUpdates(us)
}

func (h *c25Harness) sendStatus(st api.SyncStatus) {
	h.hist("up.OnStatusUpdated(%v)", st)
	h.d.OnStatusUpdated(st)
	if st == api.InSync {
		h.connInSync = true
	}
}

// typedSet builds the update as Typha would send it: snapshot entries are always KVNew
// (snapcache stores them that way); deltas carry the type the server-side syncer computed.
func (h *c25Harness) typedSet(k, v string, snapshot bool) api.Update {
	ut := api.UpdateTypeKVNew
	if !snapshot {
		if _, ok := h.conn[k]; ok {
			ut = api.UpdateTypeKVUpdated
		}
	}
	return api.Update{KVPair: model.KVPair{Key: c25Key(k), Value: v, Revision: "r"}, UpdateType: ut}
}

func (h *c25Harness) startConnIfNeeded() {
	if !h.connStarted {
		// syncclient.loop: first thing a (re)started connection does.
		h.sendStatus(api.ResyncInProgress)
		h.connStarted = true
	}
}

func (h *c25Harness) sendSnapshotChunk(n int) {
	h.startConnIfNeeded()
	if n > len(h.snapshot) {
		n = len(h.snapshot)
	}
	var us []api.Update
	for _, k := range h.snapshot[:n] {
		us = append(us, h.typedSet(k, h.snapVals[k], true))
	}
	h.snapshot = h.snapshot[n:]
	h.sendUpdates(us)
}

func (h *c25Harness) pull(n int) {
	if h.inflight != nil {
		h.deliver()
	}
	h.d.lock.Lock()
	buf := h.d.pullNextBatch(nil, n)
	h.d.lock.Unlock()
	if len(buf) == 0 {
		return
	}
	h.inflight = buf
	h.inflightConn = map[string]string{}
	for k, v := range h.conn {
		h.inflightConn[k] = v
	}
	h.hist("pull(%d) -> %d items", n, len(buf))
}

func (h *c25Harness) deliver() {
	if h.inflight == nil {
		return
	}
	buf := h.inflight
	h.inflight = nil
	from := len(h.sink.log)
	h.d.lock.Lock()
	h.d.dropLockAndSendBatch(h.sink, buf)
	h.d.lock.Unlock()
	h.hist("deliver -> sink %v", h.sink.log[from:])
	h.checkDelivered(buf, h.inflightConn)
}

// checkDelivered is clause 2.
func (h *c25Harness) checkDelivered(buf []any, connAtPull map[string]string) {
	for _, m := range buf {
		u, ok := m.(updateWithKey)
		if !ok {
			continue
		}
		if u.update.Value != nil {
			continue
		}
		k := c25KeyName(u.key)
		if v, ok := connAtPull[k]; ok {
			h.sink.errs = append(h.sink.errs, fmt.Sprintf(
				"sink was sent a deletion for %s although the latest connection's view held %s=%s when the batch left the queue", k, k, v))
		}
	}
}

// drainReal uses the package's own synchronous step (batch size 100, delivers immediately).
func (h *c25Harness) drainReal() {
	h.deliver()
	connCopy := map[string]string{}
	for k, v := range h.conn {
		connCopy[k] = v
	}
	// Record what leaves the queue for clause 2 by wrapping the sink.
	w := &c25DelWatch{inner: h.sink}
	from := len(h.sink.log)
	err := h.d.sendNextBatchToSinkNoBlock(w)
	if err != nil && !errors.Is(err, ErrEmptyQueue) {
		h.sink.errs = append(h.sink.errs, fmt.Sprintf("sendNextBatchToSinkNoBlock: %v", err))
	}
	h.hist("drain -> sink %v", h.sink.log[from:])
	for _, k := range w.deleted {
		if v, ok := connCopy[k]; ok {
			h.sink.errs = append(h.sink.errs, fmt.Sprintf(
				"sink was sent a deletion for %s although the latest connection's view held %s=%s when the batch left the queue", k, k, v))
		}
	}
}

type c25DelWatch struct {
	inner   *c25Sink
	deleted []string
}

func (w *c25DelWatch) OnStatusUpdated(st api.SyncStatus) { w.inner.OnStatusUpdated(st) }
func (w *c25DelWatch) OnUpdates(us []api.Update) {
	for _, u := range us {
		if u.Value == nil {
			w.deleted = append(w.deleted, c25KeyName(u.Key))
		}
	}
	w.inner.OnUpdates(us)
}

func (h *c25Harness) check(t *rapid.T) {
	if len(h.sink.errs) > 0 {
		t.Fatalf("C25 violated: %s\nhistory:\n  %s", strings.Join(h.sink.errs, "; "), strings.Join(h.history, "\n  "))
	}
	if h.connInSync && h.inflight == nil && len(h.snapshot) == 0 && h.queueLen() == 0 {
		h.converged++
		if h.bothAtOnce {
			h.convergedAfterNT = true
		}
		if c25Fmt(h.sink.view) != c25Fmt(h.conn) {
			t.Fatalf("C25 violated: latest connection reported InSync and the buffer is drained, but sink view %s != latest connection's view %s\nhistory:\n  %s",
				c25Fmt(h.sink.view), c25Fmt(h.conn), strings.Join(h.history, "\n  "))
		}
	}
}

func TestVerifC25DedupeBuffer(t *testing.T) {
	ev.Quiet()
	rec := ev.New("C25", "dedupebuffer",
		"rapid state machine over the real DedupeBuffer: upstream = simulated Typha client (snapshot chunks typed KVNew, deltas set/no-op repeat/delete/delete-unknown/nil-valued validation failures, status changes, OnTyphaConnectionRestarted + WaitForDatastore + ResyncInProgress followed by a new generated snapshot map, restarts at any point incl. mid-snapshot and with a batch in flight, occasional 150-key bulk); downstream = pulls of batch size 1..4 or the package's own 100-batch drain, with upstream steps allowed between taking a batch off the queue and delivering it; every case ends with a converge suffix (finish snapshot, InSync, drain). Non-trivial = some restart happened while un-pulled updates were queued AND its new snapshot lacked >=1 key the sink held, and the converged check ran afterwards; distinct = distinct op-kind sequence",
		"upstream statuses follow syncclient: restart => WaitForDatastore, then ResyncInProgress when the new connection starts",
		"one downstream consumer (SendToSinkForever is the only consumer in real use), modelled by pull/deliver pairs",
		"batch sizes < 100 stand for the fixed 100-batch on a proportionally larger queue")
	defer rec.Write()
	rapid.Check(t, func(t *rapid.T) {
		h := &c25Harness{
			d:        New(),
			sink:     &c25Sink{view: map[string]string{}},
			conn:     map[string]string{},
			snapVals: map[string]string{},
		}
		keyGen := rapid.Map(rapid.IntRange(0, c25NumKeys-1), func(i int) string { return fmt.Sprintf("k%d", i) })

		// Start of day, as syncclient does for the first connection.
		h.startConnIfNeeded()

		t.Repeat(map[string]func(*rapid.T){
			"upstream": func(t *rapid.T) {
				if len(h.snapshot) > 0 {
					n := rapid.IntRange(1, 3).Draw(t, "snapChunk")
					h.sendSnapshotChunk(n)
					h.ops = append(h.ops, "S")
					return
				}
				h.startConnIfNeeded()
				n := rapid.IntRange(1, 3).Draw(t, "numUpdates")
				var us []api.Update
				local := map[string]string{}
				for k, v := range h.conn {
					local[k] = v
				}
				for i := 0; i < n; i++ {
					k := keyGen.Draw(t, "key")
					kind := rapid.SampledFrom([]string{"set", "set", "set", "repeat", "del", "del", "nilNew", "nilUpd"}).Draw(t, "kind")
					cur, present := local[k]
					switch kind {
					case "repeat":
						if !present {
							kind = "set"
						}
					}
					switch kind {
					case "set":
						v := h.newVal()
						ut := api.UpdateTypeKVNew
						if present {
							ut = api.UpdateTypeKVUpdated
						}
						us = append(us, api.Update{KVPair: model.KVPair{Key: c25Key(k), Value: v, Revision: "r"}, UpdateType: ut})
						local[k] = v
					case "repeat":
						us = append(us, api.Update{KVPair: model.KVPair{Key: c25Key(k), Value: cur, Revision: "r"}, UpdateType: api.UpdateTypeKVUpdated})
					case "del":
						us = append(us, api.Update{KVPair: model.KVPair{Key: c25Key(k)}, UpdateType: api.UpdateTypeKVDeleted})
						delete(local, k)
					case "nilNew":
						us = append(us, api.Update{KVPair: model.KVPair{Key: c25Key(k)}, UpdateType: api.UpdateTypeKVNew})
						delete(local, k)
					case "nilUpd":
						us = append(us, api.Update{KVPair: model.KVPair{Key: c25Key(k)}, UpdateType: api.UpdateTypeKVUpdated})
						delete(local, k)
					}
				}
				h.sendUpdates(us)
				h.ops = append(h.ops, "U")
			},
			"status": func(t *rapid.T) {
				h.startConnIfNeeded()
				var st api.SyncStatus
				if len(h.snapshot) > 0 {
					// The server sends the crumb's status only after the snapshot.
					st = api.ResyncInProgress
				} else {
					st = rapid.SampledFrom([]api.SyncStatus{api.InSync, api.InSync, api.InSync, api.ResyncInProgress, api.WaitForDatastore}).Draw(t, "status")
				}
				h.sendStatus(st)
				h.ops = append(h.ops, "T"+st.String()[:1])
			},
			"restart": func(t *rapid.T) {
				queued := h.queueLen() > 0
				inflight := h.inflight != nil
				h.hist("up.OnTyphaConnectionRestarted (queue=%d inflight=%v sink=%s)", h.queueLen(), inflight, c25Fmt(h.sink.view))
				h.d.OnTyphaConnectionRestarted()
				h.restarts++
				h.conn = map[string]string{}
				h.connInSync = false
				h.connStarted = false
				h.sendStatus(api.WaitForDatastore)
				// The new connection's view: derived from what the sink holds / the old view so that
				// same, changed, dropped and added keys all occur.
				h.snapshot = nil
				h.snapVals = map[string]string{}
				lacks := false
				for i := 0; i < c25NumKeys; i++ {
					k := fmt.Sprintf("k%d", i)
					cur, inView := h.sink.view[k]
					// "live" = sent or committed to be sent to the sink (includes a batch in flight).
					held := h.d.liveResourceKeys.Contains(c25Key(k))
					choice := rapid.SampledFrom([]string{"same", "changed", "absent", "absent"}).Draw(t, "snap-"+k)
					switch choice {
					case "same":
						if inView {
							h.snapVals[k] = cur
						} else {
							h.snapVals[k] = h.newVal()
						}
						h.snapshot = append(h.snapshot, k)
					case "changed":
						h.snapVals[k] = h.newVal()
						h.snapshot = append(h.snapshot, k)
					case "absent":
						if held {
							lacks = true
						}
					}
				}
				if queued {
					h.restartWithQueued = true
				}
				if lacks {
					h.snapLacksLive = true
				}
				if queued && lacks {
					h.bothAtOnce = true
				}
				if inflight {
					h.restartInflight = true
				}
				op := "R"
				if queued {
					op += "q"
				}
				if lacks {
					op += "l"
				}
				h.ops = append(h.ops, op)
			},
			"pull": func(t *rapid.T) {
				n := rapid.IntRange(1, 4).Draw(t, "batch")
				hold := rapid.Bool().Draw(t, "holdInFlight")
				h.pull(n)
				if !hold {
					h.deliver()
					h.ops = append(h.ops, "P")
				} else {
					h.ops = append(h.ops, "p")
				}
			},
			"deliver": func(t *rapid.T) {
				if h.inflight == nil {
					t.Skip("nothing in flight")
				}
				h.deliver()
				h.ops = append(h.ops, "d")
			},
			"drain": func(t *rapid.T) {
				h.drainReal()
				h.ops = append(h.ops, "D")
			},
			"bulk": func(t *rapid.T) {
				// >100 keys in the queue: exercises the fixed batch size of the real drain and the
				// map re-allocation path.  Only on an established connection, rarely.
				if len(h.snapshot) > 0 || rapid.IntRange(0, 3).Draw(t, "bulkGate") != 0 {
					t.Skip("bulk gated")
				}
				h.startConnIfNeeded()
				del := rapid.Bool().Draw(t, "bulkDelete")
				var us []api.Update
				for i := 0; i < 150; i++ {
					k := fmt.Sprintf("b%03d", i)
					if del {
						us = append(us, api.Update{KVPair: model.KVPair{Key: c25Key(k)}, UpdateType: api.UpdateTypeKVDeleted})
					} else {
						us = append(us, h.typedSet(k, h.newVal(), false))
					}
				}
				// keep the history readable
				for _, u := range us {
					k := c25KeyName(u.Key)
					if u.Value == nil {
						delete(h.conn, k)
					} else {
						h.conn[k] = u.Value.(string)
					}
				}
				h.hist("up.OnUpdates[bulk 150 keys delete=%v]", del)
				h.d.OnUpdates(us)
				h.ops = append(h.ops, "B")
			},
			"": func(t *rapid.T) {
				h.check(t)
			},
		})

		// Converge suffix: the latest connection finishes its snapshot, reports InSync, and the
		// consumer drains.  Then clause 1 must hold.
		h.hist("-- converge suffix --")
		for len(h.snapshot) > 0 {
			h.sendSnapshotChunk(2)
		}
		h.startConnIfNeeded()
		h.sendStatus(api.InSync)
		h.deliver()
		for i := 0; h.queueLen() > 0; i++ {
			if i > 1000 {
				t.Fatalf("C25 violated: buffer does not drain\nhistory:\n  %s", strings.Join(h.history, "\n  "))
			}
			if i%2 == 0 {
				h.pull(3)
				h.deliver()
			} else {
				h.drainReal()
			}
		}
		before := h.converged
		h.check(t)
		if h.converged == before {
			t.Fatalf("HARNESS-GAP: converge suffix did not reach the converged state")
		}

		classes := []string{}
		if h.restarts > 0 {
			classes = append(classes, "restart")
		}
		if h.restarts > 1 {
			classes = append(classes, "multi-restart")
		}
		if h.restartWithQueued {
			classes = append(classes, "restart-with-queued")
		}
		if h.snapLacksLive {
			classes = append(classes, "snapshot-lacks-live-key")
		}
		if h.bothAtOnce {
			classes = append(classes, "restart-queued-and-lacks-live")
		}
		if h.restartInflight {
			classes = append(classes, "restart-with-batch-in-flight")
		}
		if h.sink.nDel > 0 {
			classes = append(classes, "sink-saw-delete")
		}
		if h.sink.nDelUnk > 0 {
			classes = append(classes, "sink-saw-delete-for-unheld-key")
		}
		if h.sink.nUpd > 0 {
			classes = append(classes, "sink-saw-updated")
		}
		if h.converged > 1 {
			classes = append(classes, "converged-midway")
		}
		key := strings.Join(h.ops, "")
		rec.SizedCase(h.bothAtOnce && h.convergedAfterNT, key, len(h.ops), func() any {
			return map[string]any{"ops": key, "history": h.history, "final_view": c25Fmt(h.conn)}
		}, classes...)
	})
}
