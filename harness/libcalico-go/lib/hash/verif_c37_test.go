package hash_test

// C37 (unit 1) — GetLengthLimitedID never maps two different identities to one name.
//
// Function-level structural check of the shortening marker: for a fixed (prefix, maxLength), any
// set of distinct non-empty suffixes must give distinct IDs, each ID is at most maxLength long,
// keeps the fixed prefix and is the same on every call.  The sets are built around the places
// where shortening can clash with a literal name:
//   - combined lengths maxLength-2 … maxLength+2,
//   - suffixes that begin with the shortening marker "_",
//   - suffixes that agree on everything that would survive a plain truncation,
//   - the adversarial twin: for a long suffix L with shortened ID N, the short suffix whose
//     literal text is N without the prefix (so that prefix+twin == N), and the twin of the twin.
// Empty suffixes are not generated: no caller passes one (policy IDs, profile names and interface
// names are never empty); the function maps "" to "_" and so to the same ID as the literal "_".
// maxLength leaves at least 14 characters (84 bits) of digest so that a digest-prefix collision
// is out of reach of random search (real limits leave 17+).

import (
	"fmt"
	"sort"
	"strings"
	"testing"

	"pgregory.net/rapid"

	"github.com/projectcalico/calico/libcalico-go/lib/hash"
	"github.com/projectcalico/calico/verifkit/ev"
)

// TestVerifC37RegressLongNameNoPanic: regression test for the (fixed) finding
// c37-shorten-needs-more-than-43-digest-chars-panics — GetLengthLimitedID used to panic with
// "slice bounds out of range" when it had to shorten and maxLength-1-len(prefix) exceeded 43, the
// length of a base64 SHA-256 (reached by PolicyChainName/ProfileChainName in nftables mode).
func TestVerifC37RegressLongNameNoPanic(t *testing.T) {
	ev.Quiet()
	defer func() {
		if r := recover(); r != nil {
			t.Fatalf("GetLengthLimitedID(\"cali-pi-\", <300 characters>, 256) panicked: %v", r)
		}
	}()
	long := strings.Repeat("a", 300)
	id := hash.GetLengthLimitedID("cali-pi-", long, 256)
	if len(id) > 256 || !strings.HasPrefix(id, "cali-pi-") {
		t.Fatalf("unexpected ID %q", id)
	}
	// The literal twin of that shortened ID must not get the same name.
	if twin := id[len("cali-pi-"):]; hash.GetLengthLimitedID("cali-pi-", twin, 256) == id {
		t.Fatalf("GetLengthLimitedID(\"cali-pi-\", %q, 256) equals the shortened ID of the 300 character identity: %q", twin, id)
	}
}

const c37HashAlphabet = "abcdefghijklmnopqrstuvwxyzABCDEFGHIJKLMNOPQRSTUVWXYZ0123456789_.:/-"

func c37HashFill(t *rapid.T, n int, label string) string {
	if n <= 0 {
		return ""
	}
	// A few drawn characters, then a deterministic pad: cheap, and the tail is what differs.
	head := rapid.StringOfN(rapid.RuneFrom([]rune(c37HashAlphabet)), 1, 4, -1).Draw(t, label)
	var sb strings.Builder
	for sb.Len() < n {
		sb.WriteString(head)
		sb.WriteString("0123456789abcdefghijklmnopqrstuvwxyz-")
	}
	return sb.String()[:n]
}

func TestVerifC37LengthLimitedID(t *testing.T) {
	ev.Quiet()
	rec := ev.New("C37", "lengthlimited",
		"a fixed prefix (real chain prefixes, empty, drawn) and maxLength (28, 31, 256 or prefix+15..46) and a set of 2..14 distinct non-empty suffixes: lengths maxLength-2..+2, marker-leading, equal up to the truncation point, the adversarial twin of a shortened ID and its twin (also where maxLength leaves room for more than the 43 digest characters: twin = marker + full digest). Non-trivial = the set holds a shortened ID together with its literal twin, or two suffixes equal on their first maxLength-len(prefix) characters; distinct = (prefix, maxLength, suffix kinds)",
		"suffixes are non-empty (no caller passes an empty identity)", "maxLength leaves >=14 digest characters; digest-prefix collisions are not searched")
	defer rec.Write()
	rapid.Check(t, func(t *rapid.T) {
		prefix := rapid.SampledFrom([]string{"", "cali-pi-", "cali-po-", "cali-pri-", "cali-pro-", "cali-tw-", "cali-fhfw-", "cali-arp-", "x"}).Draw(t, "prefix")
		if rapid.IntRange(0, 5).Draw(t, "drawnPrefix") == 0 {
			prefix = rapid.StringOfN(rapid.RuneFrom([]rune("abcdefghijklmnopqrstuvwxyz-_")), 0, 12, -1).Draw(t, "prefixText")
		}
		maxLen := rapid.SampledFrom([]int{28, 28, 31, 256, 0}).Draw(t, "maxLength")
		if maxLen == 0 || maxLen-len(prefix)-1 < 14 {
			maxLen = len(prefix) + rapid.IntRange(15, 46).Draw(t, "roomForSuffix")
		}
		room := maxLen - len(prefix) // suffixes up to this length fit
		type item struct {
			suffix string
			kind   string
		}
		var items []item
		have := map[string]bool{}
		add := func(s, kind string) {
			if s == "" || have[s] {
				return
			}
			have[s] = true
			items = append(items, item{s, kind})
		}
		twinPair, truncPair, fullDigestTwin := false, false, false
		n := rapid.IntRange(2, 8).Draw(t, "nSuffixes")
		for i := 0; i < n; i++ {
			switch rapid.IntRange(0, 8).Draw(t, "suffixKind") {
			case 0: // around the limit
				l := room + rapid.IntRange(-2, 2).Draw(t, "lenDelta")
				add(c37HashFill(t, l, "text"), "near-limit")
			case 1: // marker-leading, around the limit
				l := room + rapid.IntRange(-2, 2).Draw(t, "lenDelta")
				add("_"+c37HashFill(t, l-1, "text"), "marker-near-limit")
			case 7: // marker-leading, around the length of a shortened ID that holds the full digest (1+43)
				l := 44 + rapid.IntRange(-1, 1).Draw(t, "lenDelta")
				add("_"+c37HashFill(t, l-1, "text"), "marker-near-full-digest-length")
			case 2: // short / marker only
				add(rapid.SampledFrom([]string{"_", "__", "a", "_a", "eth0", "_eth0"}).Draw(t, "short"), "short")
			case 3: // long, and a sibling that only differs after the truncation point
				l := room + rapid.IntRange(1, 60).Draw(t, "extra")
				s := c37HashFill(t, l, "text")
				add(s, "long")
				sib := s[:l-1] + "#"
				if rapid.Bool().Draw(t, "siblingLonger") {
					sib = s + "x"
				}
				add(sib, "long-sibling")
				truncPair = true
			case 4: // a literal that equals what plain truncation of a long one would give
				l := room + rapid.IntRange(1, 30).Draw(t, "extra")
				s := c37HashFill(t, l, "text")
				add(s, "long")
				add(s[:room], "truncation-of-long")
				add(s[:room-1], "truncation-of-long")
				truncPair = true
			default: // adversarial twin of a shortened ID (and the twin's twin)
				var src string
				if len(items) > 0 && rapid.Bool().Draw(t, "twinOfExisting") {
					src = items[rapid.IntRange(0, len(items)-1).Draw(t, "twinOf")].suffix
				} else {
					src = c37HashFill(t, room+rapid.IntRange(1, 40).Draw(t, "extra"), "text")
					add(src, "long")
				}
				id := hash.GetLengthLimitedID(prefix, src, maxLen)
				if !strings.HasPrefix(id, prefix) {
					t.Fatalf("GetLengthLimitedID(%q,%q,%d)=%q lost the prefix", prefix, src, maxLen, id)
				}
				twin := id[len(prefix):]
				if twin != src {
					add(twin, "twin")
					twinPair = true
					id2 := hash.GetLengthLimitedID(prefix, twin, maxLen)
					if strings.HasPrefix(id2, prefix) && id2[len(prefix):] != twin {
						add(id2[len(prefix):], "twin-of-twin")
					}
					if maxLen-1-len(prefix) > 43 {
						fullDigestTwin = true
					}
				}
			}
		}
		if len(items) < 2 {
			add("fallback-a", "short")
			add("fallback-b", "short")
		}

		owner := map[string]string{}
		kinds := map[string]bool{}
		shortened := 0
		for _, it := range items {
			kinds[it.kind] = true
			id := hash.GetLengthLimitedID(prefix, it.suffix, maxLen)
			if again := hash.GetLengthLimitedID(prefix, it.suffix, maxLen); again != id {
				t.Fatalf("GetLengthLimitedID(%q,%q,%d) gave %q and then %q", prefix, it.suffix, maxLen, id, again)
			}
			if len(id) > maxLen {
				t.Fatalf("GetLengthLimitedID(%q,%q,%d)=%q is %d characters long", prefix, it.suffix, maxLen, id, len(id))
			}
			if !strings.HasPrefix(id, prefix) {
				t.Fatalf("GetLengthLimitedID(%q,%q,%d)=%q lost the prefix", prefix, it.suffix, maxLen, id)
			}
			if id != prefix+it.suffix {
				shortened++
			}
			if other, clash := owner[id]; clash {
				t.Fatalf("GetLengthLimitedID(prefix=%q, maxLength=%d): distinct suffixes %q and %q (%s) both get %q", prefix, maxLen, other, it.suffix, it.kind, id)
			}
			owner[id] = it.suffix
		}
		ks := make([]string, 0, len(kinds))
		for k := range kinds {
			ks = append(ks, k)
		}
		sort.Strings(ks)
		classes := append([]string{}, ks...)
		if shortened > 0 {
			classes = append(classes, "some-shortened")
		}
		if shortened < len(items) {
			classes = append(classes, "some-literal")
		}
		if fullDigestTwin {
			classes = append(classes, "twin-in-full-digest-regime(room>44)")
		}
		rec.Case(twinPair || truncPair, fmt.Sprintf("%q/%d/%s", prefix, maxLen, strings.Join(ks, ",")), func() any {
			var ss []string
			for _, it := range items {
				ss = append(ss, it.kind+":"+it.suffix)
			}
			return map[string]any{"prefix": prefix, "maxLength": maxLen, "suffixes": ss}
		}, classes...)
	})
}
