package hash_test

// C37 (concurrency supplement, hash package) — "the same identity always gets the same name" and
// "distinct identities get distinct names" must also hold for the concurrent callers Felix has:
// MakeUniqueID is called from the syncer's update processors and from the calculation graph
// (selector parsing, IP set IDs) at the same time, GetLengthLimitedID from every renderer.
//
// Per case: a generated pool of identities (contents for MakeUniqueID under the prefixes real
// callers use; suffixes for GetLengthLimitedID around the limits) and one work list per goroutine
// (overlapping and disjoint slices of the pool, in different orders).  Expected IDs are computed
// single-threaded beforehand; MakeUniqueID is additionally compared with an independent
// reference (prefix + ":" + base64url(SHA-224(prefix:content))).  Then the goroutines, released
// together by a barrier, compute their lists for many rounds; every result must equal the
// expected ID.  The assertions are schedule-independent (no false alarm on correct code); a
// defect that needs two calls to overlap is found with some probability per round.

import (
	"crypto/sha256"
	"encoding/base64"
	"fmt"
	"os"
	"runtime"
	"sort"
	"sync"
	"sync/atomic"
	"testing"

	"pgregory.net/rapid"

	"github.com/projectcalico/calico/libcalico-go/lib/hash"
	"github.com/projectcalico/calico/verifkit/ev"
)

type c37ConcItem struct {
	Unique bool   // MakeUniqueID(Prefix, Text) or GetLengthLimitedID(Prefix, Text, Max)
	Prefix string // "s","n","svc","svcnoport" / chain prefix
	Text   string
	Max    int
	Want   string
}

func (it c37ConcItem) compute() string {
	if it.Unique {
		return hash.MakeUniqueID(it.Prefix, it.Text)
	}
	return hash.GetLengthLimitedID(it.Prefix, it.Text, it.Max)
}

func (it c37ConcItem) String() string {
	if it.Unique {
		return fmt.Sprintf("MakeUniqueID(%q,%q)", it.Prefix, it.Text)
	}
	return fmt.Sprintf("GetLengthLimitedID(%q,%q,%d)", it.Prefix, it.Text, it.Max)
}

func c37RefUniqueID(prefix, content string) string {
	sum := sha256.Sum224([]byte(prefix + ":" + content))
	return prefix + ":" + base64.RawURLEncoding.EncodeToString(sum[:])
}

// c37ConcRun runs the work lists concurrently for the given number of rounds and returns a
// description of the first deviation ("" if none).
func c37ConcRun(lists [][]c37ConcItem, rounds int) string {
	workers := len(lists)
	var ready atomic.Int64
	var done sync.WaitGroup
	var wg sync.WaitGroup
	start := make([]chan struct{}, workers)
	var mu sync.Mutex
	problem := ""
	report := func(s string) {
		mu.Lock()
		if problem == "" {
			problem = s
		}
		mu.Unlock()
	}
	for w := 0; w < workers; w++ {
		start[w] = make(chan struct{}, 1)
		wg.Add(1)
		go func(w int) {
			defer wg.Done()
			for range start[w] {
				func() {
					defer done.Done()
					defer func() {
						if r := recover(); r != nil {
							report(fmt.Sprintf("goroutine %d: a naming function panicked while other goroutines were computing names: %v", w, r))
							ready.Add(1 << 20) // release anybody still waiting at the barrier
						}
					}()
					ready.Add(1)
					for ready.Load() < int64(workers) {
						runtime.Gosched()
					}
					for _, it := range lists[w] {
						if got := it.compute(); got != it.Want {
							report(fmt.Sprintf("goroutine %d: %v = %q while other goroutines were computing names; single-threaded it is %q", w, it, got, it.Want))
							return
						}
					}
				}()
			}
		}(w)
	}
	failed := func() bool {
		mu.Lock()
		defer mu.Unlock()
		return problem != ""
	}
	for r := 0; r < rounds && !failed(); r++ {
		ready.Store(0)
		done.Add(workers)
		for w := range start {
			start[w] <- struct{}{}
		}
		done.Wait()
	}
	for w := range start {
		close(start[w])
	}
	wg.Wait()
	mu.Lock()
	defer mu.Unlock()
	return problem
}

func TestVerifC37Concurrent(t *testing.T) {
	ev.Quiet()
	label := "concurrent"
	if l := os.Getenv("VERIF_C37_UNIT_LABEL"); l != "" {
		label = l // the same test also runs in a unit built with the race detector
	}
	rec := ev.New("C37", label,
		"a pool of 6..24 identities (MakeUniqueID contents under the prefixes s / n / svc / svcnoport: selector texts, selector-ID,proto,port triples, namespace/name pairs, near-duplicates; GetLengthLimitedID suffixes around the 28 / 256 limits) and 2..8 goroutines with a work list each (overlapping or disjoint parts of the pool, rotated); expected IDs computed single-threaded first (MakeUniqueID also against an independent SHA-224 reference; the pool's IDs must be pairwise distinct); then many rounds with all goroutines released together. Non-trivial = >=3 goroutines and >=2 distinct MakeUniqueID identities in flight; distinct = (goroutines, list lengths, overlap)",
		"real goroutines: the interleaving is not owned by the harness; assertions are schedule-independent")
	defer rec.Write()
	prev := runtime.GOMAXPROCS(0)
	if prev < 4 {
		runtime.GOMAXPROCS(4)
		defer runtime.GOMAXPROCS(prev)
	}
	rounds := ev.Scale(300, 1500)

	selectors := []string{"all()", "a == 'b'", "has(x)", "a == 'b' && has(x)", "projectcalico.org/namespace == 'default'", "role in {'db','web'}", "!has(y)", "global()"}
	services := []string{"default/svc-a", "default/svc-b", "kube-system/kube-dns", "prod/api"}

	rapid.Check(t, func(t *rapid.T) {
		n := rapid.IntRange(6, 24).Draw(t, "poolSize")
		var pool []c37ConcItem
		seen := map[string]bool{}
		nUnique := 0
		for len(pool) < n {
			var it c37ConcItem
			switch rapid.IntRange(0, 5).Draw(t, "identityKind") {
			case 0, 1:
				it = c37ConcItem{Unique: true, Prefix: "s", Text: rapid.SampledFrom(selectors).Draw(t, "selector")}
				if rapid.Bool().Draw(t, "varySelector") {
					it.Text += " && k" + rapid.StringOfN(rapid.RuneFrom([]rune("abc012")), 1, 3, -1).Draw(t, "selectorTail") + " == 'v'"
				}
			case 2:
				sel := hash.MakeUniqueID("s", rapid.SampledFrom(selectors).Draw(t, "selector"))
				it = c37ConcItem{Unique: true, Prefix: "n", Text: sel + "," + rapid.SampledFrom([]string{"tcp", "udp", "sctp"}).Draw(t, "proto") + "," + rapid.SampledFrom([]string{"http", "https", "dns"}).Draw(t, "port")}
			case 3:
				it = c37ConcItem{Unique: true, Prefix: rapid.SampledFrom([]string{"svc", "svcnoport"}).Draw(t, "svcPrefix"), Text: rapid.SampledFrom(services).Draw(t, "service")}
			default:
				max := rapid.SampledFrom([]int{28, 28, 256}).Draw(t, "maxLength")
				pfx := rapid.SampledFrom([]string{"cali-pi-", "cali-po-", "cali-pri-", "cali-tw-"}).Draw(t, "chainPrefix")
				l := max - len(pfx) + rapid.IntRange(-2, 40).Draw(t, "lenDelta")
				it = c37ConcItem{Prefix: pfx, Text: c37HashFill(t, l, "suffix"), Max: max}
			}
			key := it.String()
			if seen[key] || it.Text == "" {
				// duplicates add nothing to the pool; keep drawing (the kinds above have plenty of room)
				if rapid.IntRange(0, 50).Draw(t, "giveUp") == 0 {
					break
				}
				continue
			}
			seen[key] = true
			it.Want = it.compute()
			if again := it.compute(); again != it.Want {
				t.Fatalf("%v gave %q and then %q (single-threaded)", it, it.Want, again)
			}
			if it.Unique {
				nUnique++
				if ref := c37RefUniqueID(it.Prefix, it.Text); ref != it.Want {
					t.Fatalf("%v = %q; prefix + base64url(SHA-224(prefix:content)) is %q", it, it.Want, ref)
				}
			}
			pool = append(pool, it)
		}
		if len(pool) == 0 {
			t.Skip("empty pool")
		}
		owner := map[string]string{}
		for _, it := range pool {
			if other, clash := owner[it.Want]; clash {
				t.Fatalf("distinct identities %s and %v both get %q", other, it, it.Want)
			}
			owner[it.Want] = it.String()
		}

		workers := rapid.SampledFrom([]int{2, 3, 4, 6, 8, 8}).Draw(t, "goroutines")
		overlap := rapid.Bool().Draw(t, "overlappingLists")
		lists := make([][]c37ConcItem, workers)
		for w := range lists {
			if overlap {
				// the whole pool, rotated
				rot := (w * 3) % len(pool)
				lists[w] = append(append([]c37ConcItem{}, pool[rot:]...), pool[:rot]...)
			} else {
				for i := w; i < len(pool); i += workers {
					lists[w] = append(lists[w], pool[i])
				}
				if len(lists[w]) == 0 {
					lists[w] = []c37ConcItem{pool[w%len(pool)]}
				}
			}
		}
		if msg := c37ConcRun(lists, rounds); msg != "" {
			t.Fatalf("%s\n%d goroutines, overlapping lists: %v, pool: %v", msg, workers, overlap, pool)
		}

		var lens []int
		for _, l := range lists {
			lens = append(lens, len(l))
		}
		sort.Ints(lens)
		classes := []string{fmt.Sprintf("goroutines-%d", workers)}
		if overlap {
			classes = append(classes, "overlapping-lists")
		} else {
			classes = append(classes, "disjoint-lists")
		}
		if nUnique >= 2 {
			classes = append(classes, ">=2-MakeUniqueID-identities")
		}
		if nUnique < len(pool) {
			classes = append(classes, "GetLengthLimitedID-identities")
		}
		rec.SizedCase(workers >= 3 && nUnique >= 2, fmt.Sprintf("%d/%v/%v/%d", workers, lens, overlap, nUnique), len(pool), func() any {
			return map[string]any{"goroutines": workers, "overlap": overlap, "pool": pool, "roundsPerCase": rounds}
		}, classes...)
	})
}
