package ipam_test

// C19 - IPAM never gives one address to two live allocations.
//
// 3 clients on 2-3 hosts run generated operation scripts against the real IPAM client on the
// in-memory compare-and-swap datastore.  The interleaving of their datastore calls and a fault
// per call (spurious conflict, transient error, crash before/after the write) are generated.
//
// Oracle (statement C19):
//  1. no address is returned to a caller while another caller still owns it (ownership model
//     kept by the harness: an owner is live from the completion of its assign until a release
//     that can hit it starts; uncertain owners are not asserted on);
//  2. every address returned by a completed assign is, at that moment and for as long as the
//     owner is definitely live, recorded in its block as allocated to that caller's handle;
//  3. handle records agree with block records: never an under-count; exact agreement for every
//     handle none of whose operations crashed or received an injected error; for the others
//     only the tolerated residue (handle record over-counts: the library increments the handle
//     before it writes the block and decrements it after, and says so: "a handle is
//     overestimating the number of assigned addresses");
//  4. finally all remaining free addresses are drained through AutoAssign: none of them may
//     belong to a live owner.

import (
	"context"
	"fmt"
	"net/netip"
		"sort"
	"strings"
	"testing"
	"time"

	v3 "github.com/projectcalico/api/pkg/apis/projectcalico/v3"
	metav1 "k8s.io/apimachinery/pkg/apis/meta/v1"
	"pgregory.net/rapid"

	"github.com/projectcalico/calico/libcalico-go/lib/backend/model"
	"github.com/projectcalico/calico/libcalico-go/lib/ipam"
	cnet "github.com/projectcalico/calico/libcalico-go/lib/net"
	"github.com/projectcalico/calico/verifkit/ev"
	"github.com/projectcalico/calico/verifkit/memds"
)

const (
	c19PoolV4 = "10.0.0.0/28"
	c19PoolV6 = "fd00::/124"
)

func c19PoolAddrs(cidr string) []string {
	p := netip.MustParsePrefix(cidr)
	var out []string
	for a := p.Addr(); p.Contains(a); a = a.Next() {
		out = append(out, a.String())
	}
	return out
}

func c19BlockCIDRs(cidr string, blockBits int) []string {
	p := netip.MustParsePrefix(cidr)
	var out []string
	for a := p.Addr(); p.Contains(a); {
		b := netip.PrefixFrom(a, blockBits)
		out = append(out, b.String())
		for i := 0; i < 1<<(a.BitLen()-blockBits); i++ {
			a = a.Next()
		}
	}
	return out
}

type c19Owner struct {
	handle    string // "" = allocation without handle
	hasHandle bool
	opID      string
	sinceStep int
}

// c19Model is the harness-side ownership model.
type c19Model struct {
	live map[string]c19Owner // address -> definite-or-uncertain owner (see uncertain())
}

type c19Scenario struct {
	t        *rapid.T
	r        *c19Runner
	w        *c19World
	hosts    []string
	clHost   []string
	strict   bool
	model    c19Model
	v4, v6   []string
	blocks4  []string
	blocks6  []string
	uniq     int
	mix      [c19NumKinds]int
	classes  map[string]bool
	kindsRun []string
	knownHits map[string]int
	wholePool int // out of 10: ClaimAffinity / ReleaseAffinity target the whole v4 pool
	bareAttrs bool // assigns may carry nil / empty attributes (C19 only: C22 reads the node attribute)
	cooldown  int  // IPAMConfig.IPCooldownSeconds
	pool4     string
}

// Finding c19-assignip-cas-retry-handle-overcount (fixed in the tree, a25b809): AssignIP retried
// after a block CAS conflict without taking its handle increment back.
// TestVerifC19RegressAssignIPConflict keeps the reproducer.

// Finding c19-releaseips-shared-handle-cache-double-decrement (fixed in the tree, a2ad409):
// ReleaseIPs with more than two addresses handed the same cached handle KVPair to every per-block
// goroutine; a handle with addresses in two released blocks was decremented twice after a CAS
// retry.  TestVerifC19RegressSharedHandleCache keeps the reproducer.

// Finding c19-releaseips-stale-handle-cache-decrement-not-retried (fixed in the tree, 9daa333):
// decrementHandle gave up when decrementBlock failed on the stale handle copy listed up front by
// ReleaseIPs.  TestVerifC19RegressStaleHandleCache keeps the reproducer.

func c19BlockOf(addr string) string {
	a := netip.MustParseAddr(addr)
	bits := 30
	if a.Is6() {
		bits = 126
	}
	return netip.PrefixFrom(a, bits).Masked().String()
}

// Finding c19-autoassign-partial-block-handle-overcount (fixed in the tree, commit 7da766a):
// AutoAssign(num>1, handle) incremented the handle record by the number of addresses still
// *requested* from a block, not by the number the block yielded.  TestVerifC19RegressPartialBlock
// keeps the reproducer as a regression test.

func (s *c19Scenario) drawHandle(t *rapid.T, allowNil, allowFresh bool) *string {
	opts := []string{"h1", "h2", "h3"}
	n := len(opts)
	hi := n - 1
	if allowFresh {
		hi++
	}
	if allowNil {
		hi++
	}
	i := rapid.IntRange(0, hi).Draw(t, "handle")
	switch {
	case i < n:
		return &opts[i]
	case allowFresh && i == n:
		s.uniq++
		h := fmt.Sprintf("u%d", s.uniq)
		return &h
	}
	return nil
}

func (s *c19Scenario) drawAttrMode(t *rapid.T) int {
	if !s.bareAttrs {
		return 0
	}
	return []int{0, 0, 0, 1, 2}[rapid.IntRange(0, 4).Draw(t, "attrs")]
}

// maybeBare turns a quarter of the assignments into fully anonymous ones (no handle and no
// attributes - both optional in the API), so that the combination is common rather than the
// product of two independent rare draws.
func (s *c19Scenario) maybeBare(t *rapid.T, o *c19Op) {
	if s.bareAttrs && rapid.IntRange(0, 3).Draw(t, "anonymous") == 1 {
		o.Handle = nil
		o.AttrMode = 1 + rapid.IntRange(0, 1).Draw(t, "emptyAttrs")
	}
}

// advanceTime moves every persisted ReleasedAt stamp d into the past.  The library only ever
// compares ReleasedAt with now - IPCooldownSeconds, so this is "time passes" for the cooldown.
func (s *c19Scenario) advanceTime(d time.Duration) {
	bl, err := s.w.store.ReadList(model.BlockListOptions{})
	if err != nil {
		s.t.Fatalf("HARNESS-GAP: %v", err)
	}
	for _, kv := range bl.KVPairs {
		_ = s.w.store.Mutate(kv.Key, func(v any) any {
			b := v.(*model.AllocationBlock)
			for i := range b.Attributes {
				if b.Attributes[i].ReleasedAt != nil {
					nt := metav1.NewTime(b.Attributes[i].ReleasedAt.Add(-d))
					b.Attributes[i].ReleasedAt = &nt
				}
			}
			return b
		})
	}
}

func (s *c19Scenario) liveAddrs() []string {
	var out []string
	for a := range s.model.live {
		out = append(out, a)
	}
	sort.Strings(out)
	return out
}

func (s *c19Scenario) liveHandles() []string {
	m := map[string]bool{}
	for _, o := range s.model.live {
		if o.hasHandle {
			m[o.handle] = true
		}
	}
	var out []string
	for h := range m {
		out = append(out, h)
	}
	sort.Strings(out)
	return out
}

// drawOp draws the next operation of a client from the current model state.
func (s *c19Scenario) drawOp(t *rapid.T, client int, id string) *c19Op {
	o := &c19Op{ID: id, Client: client, Host: s.clHost[client], Use: v3.IPPoolAllowedUseWorkload}
	total := 0
	for _, w := range s.mix {
		total += w
	}
	x := rapid.IntRange(0, total-1).Draw(t, "kind")
	for k, w := range s.mix {
		if x < w {
			o.Kind = c19Kind(k)
			break
		}
		x -= w
	}
	snap := s.w.snapshot()
	switch o.Kind {
	case c19AutoAssign:
		o.Num4 = rapid.IntRange(0, 3).Draw(t, "num4")
		o.Num6 = rapid.IntRange(0, 2).Draw(t, "num6")
		if o.Num4+o.Num6 == 0 {
			o.Num4 = 1
		}
		o.Handle = s.drawHandle(t, true, true)
		o.AttrMode = s.drawAttrMode(t)
		s.maybeBare(t, o)
	case c19AssignIP:
		all := append(append([]string{}, s.v4...), s.v6...)
		o.IP = rapid.SampledFrom(all).Draw(t, "ip")
		o.Handle = s.drawHandle(t, true, true)
		o.AttrMode = s.drawAttrMode(t)
		s.maybeBare(t, o)
	case c19ReleaseIPs:
		n := rapid.IntRange(1, 4).Draw(t, "nrel")
		liveA := s.liveAddrs()
		seen := map[string]bool{}
		for i := 0; i < n; i++ {
			var a string
			if len(liveA) > 0 && rapid.IntRange(0, 9).Draw(t, "fromLive") < 8 {
				a = rapid.SampledFrom(liveA).Draw(t, "addr")
			} else {
				a = rapid.SampledFrom(append(append([]string{}, s.v4...), s.v6...)).Draw(t, "addr")
			}
			if seen[a] {
				continue
			}
			seen[a] = true
			rel := c19Rel{Address: a}
			// Like the GC / CNI: release options carry what the caller last saw in the datastore.
			mode := rapid.IntRange(0, 3).Draw(t, "relmode") // 0 bare, 1 handle, 2 handle+seq (as seen now), 3 wrong handle
			_, _, av := snap.lookup(a)
			switch mode {
			case 1, 2:
				if av != nil && av.HasHandle && !av.InCooldown {
					rel.Handle = av.Handle
					if mode == 2 {
						sq := av.Seq
						rel.Seq = &sq
					}
				}
			case 3:
				rel.Handle = "h-wrong"
			}
			o.Rel = append(o.Rel, rel)
		}
	case c19ReleaseByHandle:
		hs := append([]string{"h1", "h2", "h3"}, s.liveHandles()...)
		h := rapid.SampledFrom(hs).Draw(t, "handle")
		o.Handle = &h
	case c19ClaimAffinity:
		o.TargetHost = o.Host
		if rapid.IntRange(0, 9).Draw(t, "wholePool") < s.wholePool {
			o.CIDR = s.pool4
		} else {
			o.CIDR = rapid.SampledFrom(append(append([]string{}, s.blocks4...), s.blocks6...)).Draw(t, "block")
		}
	case c19ReleaseAffinity:
		o.TargetHost = rapid.SampledFrom(s.hosts).Draw(t, "targetHost")
		o.MustBeEmpty = rapid.Bool().Draw(t, "mustBeEmpty")
		if rapid.IntRange(0, 9).Draw(t, "wholePool") < s.wholePool {
			o.CIDR = s.pool4
		} else {
			o.CIDR = rapid.SampledFrom(append(append([]string{}, s.blocks4...), s.blocks6...)).Draw(t, "block")
		}
	case c19ReleaseHostAffinities:
		o.TargetHost = rapid.SampledFrom(s.hosts).Draw(t, "targetHost")
		o.MustBeEmpty = rapid.Bool().Draw(t, "mustBeEmpty")
	case c19RemoveIPAMHost:
		o.TargetHost = rapid.SampledFrom(s.hosts).Draw(t, "targetHost")
	}
	return o
}

// canHit reports whether an in-flight (or just finished) release operation rel can end the
// ownership of address a held by owner ow.
func c19CanHit(rel *c19Op, a string, ow c19Owner) bool {
	switch rel.Kind {
	case c19ReleaseByHandle:
		return ow.hasHandle && ow.handle == *rel.Handle
	case c19ReleaseIPs:
		for _, r := range rel.Rel {
			if r.Address == a && (r.Handle == "" || (ow.hasHandle && r.Handle == ow.handle)) {
				return true
			}
		}
	}
	return false
}

// uncertain: some unfinished release operation could still free the address.
func (s *c19Scenario) uncertain(a string, ow c19Owner) bool {
	for _, o := range s.r.inFlight() {
		if c19CanHit(o, a, ow) {
			return true
		}
	}
	return false
}

func (s *c19Scenario) fail(format string, args ...any) {
	s.t.Fatalf("C19 VIOLATION: %s\n%s", fmt.Sprintf(format, args...), s.r.explain())
}

// checkLive asserts oracle part 2 on every definitely-live owner.
func (s *c19Scenario) checkLive(when string) {
	if len(s.model.live) == 0 {
		return
	}
	snap := s.w.snapshotBlocks()
	for _, a := range s.liveAddrs() {
		ow := s.model.live[a]
		if s.uncertain(a, ow) {
			continue
		}
		b, ord, av := snap.lookup(a)
		if b == nil || av == nil {
			s.fail("%s: address %s is owned by %s (handle %q, since step %d) but is not allocated in the datastore (block %v ordinal %d)",
				when, a, ow.opID, ow.handle, ow.sinceStep, b != nil, ord)
		}
		if av.InCooldown {
			s.fail("%s: address %s is owned by %s (handle %q) but the block records it as released (cooldown)", when, a, ow.opID, ow.handle)
		}
		if av.HasHandle != ow.hasHandle || av.Handle != ow.handle {
			s.fail("%s: address %s was returned to %s with handle %q but the block attributes it to handle %q (hasHandle=%v)",
				when, a, ow.opID, ow.handle, av.Handle, av.HasHandle)
		}
	}
}

// onFinish updates the ownership model when an operation completes (or crashes).
func (s *c19Scenario) onFinish(o *c19Op) {
	if o.crashed {
		s.classes["op-crashed"] = true
		// A crashed release may or may not have freed its targets: drop them from the model.
		// A crashed assign returned nothing to anybody.
		for a, ow := range s.model.live {
			if c19CanHit(o, a, ow) {
				delete(s.model.live, a)
			}
		}
		return
	}
	switch o.Kind {
	case c19AutoAssign, c19AssignIP:
		for _, a := range o.IPs {
			nw := c19Owner{opID: o.ID, sinceStep: s.r.step}
			if o.Handle != nil {
				nw.handle, nw.hasHandle = *o.Handle, true
			}
			// The block write that allocated the address happened somewhere inside the
			// operation's interval; a release that could hit it and was running during that
			// interval (finished meanwhile or still in flight) may legitimately have freed it
			// again already - and somebody else may legitimately own it by now.
			overlapped := false
			for _, r := range s.r.ops {
				if r != o && (!r.finished || r.endStep >= o.startStep) && c19CanHit(r, a, nw) {
					overlapped = true
				}
			}
			if overlapped {
				s.classes["assign-overlapped-by-release"] = true
				continue
			}
			if ow, ok := s.model.live[a]; ok && !s.uncertain(a, ow) {
				s.fail("address %s returned by %s while it is still owned by %s (handle %q, since step %d)", a, o, ow.opID, ow.handle, ow.sinceStep)
			}
			s.model.live[a] = nw
		}
		if len(o.IPs) > 0 {
			s.classes["assigned"] = true
			if o.Handle == nil && o.AttrMode != 0 {
				s.classes["assign-no-handle-no-attrs"] = true
				snap := s.w.snapshot()
				for _, a := range o.IPs {
					if b, _, _ := snap.lookup(a); b != nil {
						for _, av := range b.Allocs {
							if av.InCooldown {
								s.classes["bare-assign-into-block-with-cooling-address"] = true
							}
						}
					}
				}
			}
		}
		if o.Kind == c19AutoAssign && len(o.IPs) < o.Num4+o.Num6 {
			s.classes["exhausted-or-partial"] = true
		}
	case c19ReleaseIPs:
		rel := map[string]bool{}
		for _, a := range o.Released {
			rel[a] = true
		}
		for a, ow := range s.model.live {
			if !c19CanHit(o, a, ow) {
				continue
			}
			if rel[a] {
				delete(s.model.live, a) // released (or found unallocated) without error
				s.classes["released"] = true
			} else if ow.sinceStep > o.startStep {
				delete(s.model.live, a) // assigned while the release was running: unknowable
			}
			// otherwise the block's release failed as a whole: ownership unchanged
		}
	case c19ReleaseByHandle:
		for a, ow := range s.model.live {
			if !c19CanHit(o, a, ow) {
				continue
			}
			// err == nil: everything the handle had when the call started is gone; what was
			// assigned to the handle meanwhile may or may not be.  Any error: unknown.
			delete(s.model.live, a)
			if o.Err == nil {
				s.classes["released"] = true
			}
		}
	}
	s.checkLive("after " + o.ID)
	if len(s.r.inFlight()) == 0 {
		s.checkHandles("idle after "+o.ID, false)
	}
}

// checkHandles asserts oracle part 3.  final=false is used at moments when no operation is
// in flight.
func (s *c19Scenario) checkHandles(when string, final bool) {
	snap := s.w.snapshot()
	counts := snap.handleCounts()
	tainted := map[string]bool{}
	for _, o := range s.r.ops {
		if o.crashed || o.hadError {
			for h := range o.involved {
				tainted[h] = true
			}
		}
	}
	ids := map[string]bool{}
	for h := range counts {
		ids[h] = true
	}
	for h := range snap.Handles {
		ids[h] = true
	}
	var sorted []string
	for h := range ids {
		sorted = append(sorted, h)
	}
	sort.Strings(sorted)
	for _, h := range sorted {
		blocks := map[string]bool{}
		for b := range counts[h] {
			blocks[b] = true
		}
		for b := range snap.Handles[h] {
			blocks[b] = true
		}
		for b := range blocks {
			inBlock, inHandle := counts[h][b], snap.Handles[h][b]
			if inHandle < inBlock {
				s.fail("%s: handle %q records %d addresses in block %s but the block holds %d for it (under-count: release-by-handle would miss them)",
					when, h, inHandle, b, inBlock)
			}
			if inHandle > inBlock {
				if !tainted[h] {
					s.fail("%s: handle %q records %d addresses in block %s but the block holds %d, and no operation on this handle crashed or saw an injected error",
						when, h, inHandle, b, inBlock)
				}
				s.classes["tolerated-handle-overcount"] = true
			}
		}
	}
}

// drain assigns every remaining address and checks none of them has a live owner.
func (s *c19Scenario) drain() {
	if s.cooldown > 0 {
		s.advanceTime(time.Hour) // every cooldown has expired: whatever is not live is free again
	}
	for _, host := range s.hosts {
		h := "drain-" + host
		v4, v6, err := s.w.ic.AutoAssign(context.Background(), ipam.AutoAssignArgs{Num4: len(s.v4), Num6: len(s.v6), HandleID: &h,
			Hostname: host, IntendedUse: v3.IPPoolAllowedUseWorkload, Attrs: map[string]string{model.IPAMBlockAttributeNode: host}})
		_ = err // exhaustion is expected
		for _, ia := range []*ipam.IPAMAssignments{v4, v6} {
			if ia == nil {
				continue
			}
			for _, n := range ia.IPs {
				a := n.IP.String()
				if ow, ok := s.model.live[a]; ok {
					s.fail("final drain: address %s handed out again although %s still owns it (handle %q, since step %d)", a, ow.opID, ow.handle, ow.sinceStep)
				}
			}
		}
	}
}

func c19Run(t *rapid.T, rec *ev.Recorder, mix [c19NumKinds]int, fw c19FaultWeights, opsPerClient int, unit string) {
	nHosts := rapid.IntRange(2, 3).Draw(t, "hosts")
	hosts := []string{"n1", "n2", "n3"}[:nHosts]
	clHost := make([]string, 3)
	for i := range clHost {
		clHost[i] = hosts[rapid.IntRange(0, nHosts-1).Draw(t, fmt.Sprintf("client%dHost", i))]
	}
	strict := rapid.IntRange(0, 3).Draw(t, "strict") == 0
	pool4 := c19PoolV4
	if rapid.IntRange(0, 2).Draw(t, "smallPool") == 0 {
		pool4 = "10.0.0.0/29" // two blocks: exhaustion and borrowing within a few operations
	}
	// IPReservations inside the pool: single addresses and /31s, often at the head of a block
	// (the head of a fresh block's free queue), so that auto-assignment has to step over them.
	var rsvd []v3.IPReservation
	var rsvdCIDRs []string
	for i, n := 0, rapid.IntRange(0, 2).Draw(t, "reservations"); i < n; i++ {
		all := c19PoolAddrs(pool4)
		a := all[rapid.IntRange(0, len(all)-1).Draw(t, "reservedAddr")]
		if rapid.Bool().Draw(t, "blockHead") {
			bl := c19BlockCIDRs(pool4, 30)
			a = netip.MustParsePrefix(bl[rapid.IntRange(0, len(bl)-1).Draw(t, "reservedBlock")]).Addr().String()
		}
		bits := 32 - rapid.IntRange(0, 1).Draw(t, "reservedWider")
		c := netip.PrefixFrom(netip.MustParseAddr(a), bits).Masked().String()
		rsvdCIDRs = append(rsvdCIDRs, c)
		rsvd = append(rsvd, v3.IPReservation{ObjectMeta: metav1.ObjectMeta{Name: fmt.Sprintf("r%d", i)}, Spec: v3.IPReservationSpec{ReservedCIDRs: []string{c}}})
	}
	w := c19NewWorld([]v3.IPPool{c19Pool("pool4", pool4, 30), c19Pool("pool6", c19PoolV6, 126)}, rsvd)
	for _, h := range hosts {
		w.addNode(h, nil)
	}
	cfg := model.IPAMConfig{StrictAffinity: strict, AutoAllocateBlocks: true}
	if strict {
		cfg.MaxBlocksPerHost = rapid.IntRange(0, 2).Draw(t, "maxBlocksPerHost")
	}
	// Half of the cases run with an IP cooldown: released addresses stay "allocated" to a
	// ReleasedAt-only attribute entry until generated time advances let them expire.
	cooldown := []int{0, 0, 10, 60}[rapid.IntRange(0, 3).Draw(t, "cooldown")]
	cfg.IPCooldownSeconds = cooldown
	w.setConfig(cfg)

	s := &c19Scenario{t: t, w: w, hosts: hosts, clHost: clHost, strict: strict, mix: mix, classes: map[string]bool{}, knownHits: map[string]int{}, wholePool: 1,
		bareAttrs: true, cooldown: cooldown,
		model: c19Model{live: map[string]c19Owner{}}, v4: c19PoolAddrs(pool4), v6: c19PoolAddrs(c19PoolV6), pool4: pool4,
		blocks4: c19BlockCIDRs(pool4, 30), blocks6: c19BlockCIDRs(c19PoolV6, 126)}
	s.r = c19NewRunner(t, w, fw)
	s.r.onFinish = s.onFinish
	// Oracle part 2 after every step that wrote something, not only when an operation ends.
	s.r.onStep = func(evs []memds.WriteEvent) {
		for _, e := range evs {
			if _, ok := e.Key.(model.BlockKey); ok { // only block writes can change an allocation
				s.checkLive(fmt.Sprintf("step %d", s.r.step))
				break
			}
		}
	}
	defer s.r.shutdown()

	nOps := make([]int, 3)
	for i := range nOps {
		nOps[i] = rapid.IntRange(1, opsPerClient).Draw(t, fmt.Sprintf("client%dOps", i))
	}
	started := make([]int, 3)
	cur := make([]*c19Op, 3)
	const maxSteps = 4000
	for {
		for c := 0; c < 3; c++ {
			if (cur[c] == nil || cur[c].finished) && started[c] < nOps[c] {
				if cooldown > 0 && rapid.IntRange(0, 5).Draw(t, "advanceTime") == 1 {
					s.advanceTime(time.Duration(rapid.SampledFrom([]int{5, 45, 200}).Draw(t, "seconds")) * time.Second)
					s.classes["time-advanced"] = true
				}
				o := s.drawOp(t, c, fmt.Sprintf("c%d.%02d", c, started[c]))
				started[c]++
				cur[c] = o
				s.kindsRun = append(s.kindsRun, c19KindLetters[o.Kind])
				s.r.start(o)
			}
		}
		calls := s.r.settle()
		// settle may have finished operations: start their successors before choosing.
		again := false
		for c := 0; c < 3; c++ {
			if (cur[c] == nil || cur[c].finished) && started[c] < nOps[c] {
				again = true
			}
		}
		if again {
			continue
		}
		if len(calls) == 0 {
			if n := len(s.r.inFlight()); n > 0 {
				t.Fatalf("HARNESS-GAP: %d operations neither finished nor parked (deadlock)\n%s", n, s.r.explain())
			}
			break
		}
		if s.r.step > maxSteps {
			t.Fatalf("HARNESS-GAP: more than %d scheduling steps\n%s", maxSteps, s.r.explain())
		}
		s.r.stepOnce(calls)
	}

	// All operations are finished.
	s.checkLive("final")
	s.checkHandles("final", true)
	s.drain()

	// Evidence.
	tr := s.r.sched.Trace()
	conflicts := 0
	blockClients := map[string]map[int]bool{}
	for _, c := range tr {
		if c.Result == "conflict" || c.Result == "injected-conflict" {
			conflicts++
		}
		if c.Result == "conflict" {
			s.classes["real-cas-conflict"] = true
		}
		parts := strings.Split(c.ID, "|")
		if len(parts) == 5 && strings.Contains(parts[4], "/assignment/") && parts[3] != "List" {
			var cl int
			fmt.Sscanf(parts[0], "c%d.", &cl)
			if blockClients[parts[4]] == nil {
				blockClients[parts[4]] = map[int]bool{}
			}
			blockClients[parts[4]][cl] = true
		}
	}
	shared := false
	for _, m := range blockClients {
		if len(m) >= 2 {
			shared = true
		}
	}
	nontrivial := conflicts > 0 && shared
	for k, n := range s.r.injected {
		if n > 0 {
			s.classes["fault-"+k] = true
		}
	}
	if strict {
		s.classes["strict-affinity"] = true
	}
	if cooldown > 0 {
		s.classes["cooldown"] = true
	}
	if len(rsvdCIDRs) > 0 {
		s.classes["ip-reservations"] = true
	}
	if pool4 != c19PoolV4 {
		s.classes["small-pool"] = true
	}
	if shared {
		s.classes["block-shared-by-clients"] = true
	}
	if conflicts > 0 {
		s.classes["cas-conflict"] = true
	}
	var cls []string
	for c := range s.classes {
		cls = append(cls, c)
	}
	sort.Strings(cls)
	for _, k := range s.kindsRun {
		cls = append(cls, "op-"+k)
	}
	shape := strings.Join(s.kindsRun, "") + "/" + strings.Join(cls[:len(cls)-len(s.kindsRun)], ",")
	rec.SizedCase(nontrivial, shape, len(tr), func() any {
		var ops []string
		for _, o := range s.r.ops {
			ops = append(ops, o.String())
		}
		return map[string]any{"hosts": hosts, "clientHosts": clHost, "strict": strict, "reservations": rsvdCIDRs, "ops": ops, "datastore_calls": len(tr),
			"conflicts": conflicts, "injected": s.r.injected}
	}, dedup(cls)...)
}

func cnetMustCIDR(s string) cnet.IPNet { return cnet.MustParseCIDR(s) }
func cnetIP(s string) *cnet.IP          { return cnet.ParseIP(s) }

func dedup(in []string) []string {
	seen := map[string]bool{}
	var out []string
	for _, x := range in {
		if !seen[x] {
			seen[x] = true
			out = append(out, x)
		}
	}
	return out
}

var c19Mix = [c19NumKinds]int{
	c19AutoAssign: 40, c19AssignIP: 12, c19ReleaseIPs: 16, c19ReleaseByHandle: 12,
	c19ClaimAffinity: 6, c19ReleaseAffinity: 6, c19ReleaseHostAffinities: 4, c19RemoveIPAMHost: 4,
}

func TestVerifC19Scheduled(t *testing.T) {
	ev.Quiet()
	rec := ev.New("C19", "scheduled",
		"3 clients on 2-3 hosts, pool 10.0.0.0/28 (/30 blocks) + fd00::/124 (/126 blocks); each client runs 1-N generated operations (AutoAssign v4/v6 and AssignIP with / without handle and with node / nil / empty attributes, ReleaseIPs with/without handle+sequence number, ReleaseByHandle, ClaimAffinity, ReleaseAffinity, ReleaseHostAffinities, RemoveIPAMHost) whose datastore calls are interleaved one at a time by a generated schedule, with a generated fault per call (spurious CAS conflict, transient error, crash before / after the write); IPCooldownSeconds is 0, 10 or 60 and generated time advances age the persisted ReleasedAt stamps; the live-owner oracle runs after every step that wrote, and all cooldowns are expired before the final drain. Non-trivial = at least one CAS conflict (real or injected) was hit and at least two clients touched the same block; distinct = distinct (operation-kind sequence, class set)",
		"trusts verifkit/memds as a faithful compare-and-swap datastore (mirrors the etcdv3 backend: JSON round trip, per-key mod revision)",
		"a crashed operation is modelled as: none of its later datastore calls has any effect",
		"the library's own map-iteration order (ReleaseByHandle over blocks, handle decrement order) is not controlled; it only affects replay fidelity, not the oracle")
	defer rec.Write()
	fw := c19FaultWeights{Conflict: 40, Error: 6, CrashBefore: 3, CrashAfter: 3, MaxCrashes: 2}
	rapid.Check(t, func(t *rapid.T) {
		c19Run(t, rec, c19Mix, fw, ev.Scale(5, 7), "scheduled")
	})
}

// TestVerifC19RegressPartialBlock is the deterministic reproducer of the (fixed) finding
// c19-autoassign-partial-block-handle-overcount, kept as a regression test.
func TestVerifC19RegressPartialBlock(t *testing.T) {
	ev.Quiet()
	w := c19NewWorld([]v3.IPPool{c19Pool("pool4", c19PoolV4, 30)}, nil)
	w.addNode("n1", nil)
	w.setConfig(model.IPAMConfig{AutoAllocateBlocks: true})
	ctx := context.Background()
	assign := func(n int, h string) []string {
		v4, _, err := w.ic.AutoAssign(ctx, ipam.AutoAssignArgs{Num4: n, HandleID: &h, Hostname: "n1", IntendedUse: v3.IPPoolAllowedUseWorkload})
		if err != nil || v4 == nil || len(v4.IPs) != n {
			t.Fatalf("HARNESS-GAP: AutoAssign(%d,%s) = %v, %v", n, h, v4, err)
		}
		var out []string
		for _, ip := range v4.IPs {
			out = append(out, ip.IP.String())
		}
		return out
	}
	a := assign(2, "hA") // half of the first /30 block
	b := assign(3, "hB") // two from the first block, one from a second block
	snap := w.snapshot()
	counts := snap.handleCounts()
	for blk, n := range snap.Handles["hB"] {
		if counts["hB"][blk] != n {
			t.Errorf("no faults, one client: AutoAssign(2,hA)=%v then AutoAssign(3,hB)=%v: handle hB records %d addresses in block %s, the block holds %d\n%s",
				a, b, n, blk, counts["hB"][blk], snap)
		}
	}
	if err := w.ic.ReleaseByHandle(ctx, "hB"); err != nil {
		t.Fatalf("HARNESS-GAP: ReleaseByHandle: %v", err)
	}
	if left := w.snapshot().Handles["hB"]; len(left) != 0 {
		t.Errorf("after ReleaseByHandle(hB) released every address of hB, its handle record still exists with %v", left)
	}
}

// TestVerifC19RegressSharedHandleCache is the deterministic reproducer of the (fixed) finding
// c19-releaseips-shared-handle-cache-double-decrement, kept as a regression test.  No faults; one
// ReleaseIPs call; the only freedom used is the order of the two per-block goroutines.
func TestVerifC19RegressSharedHandleCache(t *testing.T) {
	ev.Quiet()
	w := c19NewWorld([]v3.IPPool{c19Pool("pool4", c19PoolV4, 30), c19Pool("pool6", c19PoolV6, 126)}, nil)
	w.addNode("n1", nil)
	w.setConfig(model.IPAMConfig{AutoAllocateBlocks: true})
	ctx := context.Background()
	h := "hX"
	var got []string
	for _, n := range [][2]int{{1, 1}, {1, 0}} { // handle hX: two v4 addresses in one block, one v6 address
		v4, v6, err := w.ic.AutoAssign(ctx, ipam.AutoAssignArgs{Num4: n[0], Num6: n[1], HandleID: &h, Hostname: "n1", IntendedUse: v3.IPPoolAllowedUseWorkload})
		if err != nil {
			t.Fatalf("HARNESS-GAP: AutoAssign: %v", err)
		}
		for _, ia := range []*ipam.IPAMAssignments{v4, v6} {
			if ia != nil {
				for _, ip := range ia.IPs {
					got = append(got, ip.IP.String())
				}
			}
		}
	}
	if len(got) != 3 || c19BlockOf(got[0]) != c19BlockOf(got[2]) {
		t.Fatalf("HARNESS-GAP: unexpected set-up %v", got)
	}
	before := w.snapshot()
	// Release the first v4 address and the v6 address of hX, plus an unallocated third address
	// (more than two addresses => the handle cache is used).
	sched := memds.NewScheduler(w.store)
	var relErr error
	op := sched.Go("rel", func(ctx context.Context) {
		_, _, relErr = w.ic.ReleaseIPs(ctx, ipam.ReleaseOptions{Address: got[0]}, ipam.ReleaseOptions{Address: got[1]}, ipam.ReleaseOptions{Address: "10.0.0.3"})
	})
	for {
		calls, err := sched.Quiesce()
		if err != nil {
			t.Fatalf("HARNESS-GAP: %v", err)
		}
		if len(calls) == 0 {
			break
		}
		// Everything except handle writes first; among handle writes the v6 block's goroutine first.
		pick := -1
		for i, c := range calls {
			if !(c.Write && strings.Contains(c.Path, "/handle/")) {
				pick = i
				break
			}
		}
		if pick < 0 {
			for i, c := range calls {
				if strings.Contains(c.ID, "ipv6") {
					pick = i
				}
			}
			if pick < 0 {
				pick = 0
			}
		}
		sched.Release(calls[pick], memds.FaultNone)
	}
	if err := sched.Shutdown(); err != nil || !op.Done() {
		t.Fatalf("HARNESS-GAP: shutdown: %v", err)
	}
	if relErr != nil {
		t.Fatalf("HARNESS-GAP: ReleaseIPs: %v", relErr)
	}
	snap := w.snapshot()
	counts := snap.handleCounts()
	for blk, n := range counts[h] {
		if snap.Handles[h][blk] != n {
			t.Errorf("no faults: handle %s had %v; ReleaseIPs(%s, %s, 10.0.0.3) left the handle record at %v but block %s still holds %d address(es) for it\nbefore:\n%safter:\n%s",
				h, before.Handles[h], got[0], got[1], snap.Handles[h], blk, n, before, snap)
		}
	}
}

// c19DriveUntil releases parked calls of the scheduler one at a time, choosing with pick
// (index into the identity-sorted parked calls, or -1 to stop).
func c19Drive(t *testing.T, sched *memds.Scheduler, pick func(calls []*memds.Call) int) {
	for {
		calls, err := sched.Quiesce()
		if err != nil {
			t.Fatalf("HARNESS-GAP: %v", err)
		}
		if len(calls) == 0 {
			return
		}
		i := pick(calls)
		if i < 0 {
			return
		}
		sched.Release(calls[i], memds.FaultNone)
	}
}

// TestVerifC19RegressAssignIPConflict is the deterministic reproducer of the (fixed) finding
// c19-assignip-cas-retry-handle-overcount, kept as a regression test.  No faults: two AssignIP
// calls for different addresses of one block overlap.
func TestVerifC19RegressAssignIPConflict(t *testing.T) {
	ev.Quiet()
	w := c19NewWorld([]v3.IPPool{c19Pool("pool4", c19PoolV4, 30)}, nil)
	w.addNode("n1", nil)
	w.setConfig(model.IPAMConfig{AutoAllocateBlocks: true})
	// The block exists already (claimed by n1).
	if _, _, err := w.ic.ClaimAffinity(context.Background(), cnetMustCIDR("10.0.0.0/30"), ipam.AffinityConfig{AffinityType: ipam.AffinityTypeHost, Host: "n1"}); err != nil {
		t.Fatalf("HARNESS-GAP: ClaimAffinity: %v", err)
	}
	sched := memds.NewScheduler(w.store)
	h := "hY"
	var errA, errB error
	sched.Go("a", func(ctx context.Context) {
		errA = w.ic.AssignIP(ctx, ipam.AssignIPArgs{IP: *cnetIP("10.0.0.1"), HandleID: &h, Hostname: "n1"})
	})
	// a: run until it is about to write the block (the handle has been incremented by then).
	c19Drive(t, sched, func(calls []*memds.Call) int {
		if calls[0].Method == "Update" && strings.Contains(calls[0].Path, "/assignment/") {
			return -1
		}
		return 0
	})
	sched.Go("b", func(ctx context.Context) {
		errB = w.ic.AssignIP(ctx, ipam.AssignIPArgs{IP: *cnetIP("10.0.0.2"), Hostname: "n1"})
	})
	// b runs to completion, then a continues (CAS conflict, retry, success).
	c19Drive(t, sched, func(calls []*memds.Call) int {
		for i, c := range calls {
			if strings.HasPrefix(c.ID, "b|") {
				return i
			}
		}
		return 0
	})
	if err := sched.Shutdown(); err != nil {
		t.Fatalf("HARNESS-GAP: %v", err)
	}
	if errA != nil || errB != nil {
		t.Fatalf("HARNESS-GAP: AssignIP errors: %v / %v", errA, errB)
	}
	snap := w.snapshot()
	if got, want := snap.Handles[h]["10.0.0.0/30"], snap.handleCounts()[h]["10.0.0.0/30"]; got != want {
		t.Errorf("no faults: AssignIP(10.0.0.1, handle hY) overlapped by AssignIP(10.0.0.2) in the same block: handle hY records %d addresses in 10.0.0.0/30, the block holds %d\n%s\ntrace: %v",
			got, want, snap, sched.Trace())
	}
}

// TestVerifC19RegressStaleHandleCache is the deterministic reproducer of the (fixed) finding
// c19-releaseips-stale-handle-cache-decrement-not-retried, kept as a regression test.  No faults.
func TestVerifC19RegressStaleHandleCache(t *testing.T) {
	ev.Quiet()
	w := c19NewWorld([]v3.IPPool{c19Pool("pool4", c19PoolV4, 30), c19Pool("pool6", c19PoolV6, 126)}, nil)
	w.addNode("n1", nil)
	w.setConfig(model.IPAMConfig{AutoAllocateBlocks: true})
	h := "hZ"
	if err := w.ic.AssignIP(context.Background(), ipam.AssignIPArgs{IP: *cnetIP("10.0.0.1"), HandleID: &h, Hostname: "n1"}); err != nil {
		t.Fatalf("HARNESS-GAP: %v", err)
	}
	sched := memds.NewScheduler(w.store)
	var errR, errA error
	// R: release three addresses (handle cache in use); it has listed the handles ...
	sched.Go("r", func(ctx context.Context) {
		_, _, errR = w.ic.ReleaseIPs(ctx, ipam.ReleaseOptions{Address: "fd00::f"}, ipam.ReleaseOptions{Address: "10.0.0.2"}, ipam.ReleaseOptions{Address: "10.0.0.3"})
	})
	n := 0
	c19Drive(t, sched, func(calls []*memds.Call) int {
		if n++; n > 1 {
			return -1
		}
		if calls[0].Method != "List" {
			t.Fatalf("HARNESS-GAP: expected ReleaseIPs to list the handles first, got %s", calls[0].ID)
		}
		return 0
	})
	// ... when A assigns fd00::f to the same handle (start to finish) ...
	sched.Go("a", func(ctx context.Context) {
		errA = w.ic.AssignIP(ctx, ipam.AssignIPArgs{IP: *cnetIP("fd00::f"), HandleID: &h, Hostname: "n1"})
	})
	c19Drive(t, sched, func(calls []*memds.Call) int {
		for i, c := range calls {
			if strings.HasPrefix(c.ID, "a|") {
				return i
			}
		}
		return -1
	})
	// ... and R carries on and releases it.
	c19Drive(t, sched, func(calls []*memds.Call) int { return 0 })
	if err := sched.Shutdown(); err != nil {
		t.Fatalf("HARNESS-GAP: %v", err)
	}
	if errR != nil || errA != nil {
		t.Fatalf("HARNESS-GAP: ReleaseIPs err=%v AssignIP err=%v", errR, errA)
	}
	snap := w.snapshot()
	counts := snap.handleCounts()
	for blk, n := range snap.Handles[h] {
		if counts[h][blk] != n {
			t.Errorf("no faults: ReleaseIPs(fd00::f,10.0.0.2,10.0.0.3) listed the handles, then AssignIP(fd00::f,hZ) ran, then the release freed fd00::f: handle hZ still records %d address(es) in %s, the block holds %d\n%s", n, blk, counts[h][blk], snap)
		}
	}
}

var _ = memds.FaultNone
