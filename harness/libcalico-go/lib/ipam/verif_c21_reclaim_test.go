package ipam_test

// C21, multi-node half - "a released address is not handed out again until its cooldown has
// passed", judged per ADDRESS across everything that can happen to its block in between: the
// affinity is released, the block is reclaimed by another node, deleted and created again.
//
// Real IPAM client on verifkit/memds (plain mode, sequential), two nodes, a pool of one or two
// /30 blocks, IPCooldownSeconds 10 / 60 / 600, StrictAffinity on or off.  Generated histories of
// AutoAssign / AssignIP (with and without handle), ReleaseIPs, ReleaseByHandle, ClaimAffinity,
// ReleaseAffinity, ReleaseHostAffinities (mustBeEmpty or not), RemoveIPAMHost and time advances.
// Time is one clock: an advance moves every persisted ReleasedAt and AffinityClaimTime into the
// past (the library only compares them with now - cooldown / now - EmptyBlockMinReclaimAge).
//
// The model keeps, per address, the current holder and the time since its last release.  Oracle:
// whenever AutoAssign or AssignIP hands out an address, either it was never released, or its age
// since release is at least cooldown - 3 s (persisted stamps have second granularity and the
// machine may stall; inside that band nothing is asserted).  And an address that is held is never
// handed out to somebody else.

import (
	"context"
	"fmt"
	"sort"
	"strings"
	"testing"
	"time"

	v3 "github.com/projectcalico/api/pkg/apis/projectcalico/v3"
	metav1 "k8s.io/apimachinery/pkg/apis/meta/v1"
	"pgregory.net/rapid"

	"github.com/projectcalico/calico/libcalico-go/lib/backend/model"
	"github.com/projectcalico/calico/libcalico-go/lib/ipam"
	cnet "github.com/projectcalico/calico/libcalico-go/lib/net"
	"github.com/projectcalico/calico/verifkit/ev"
	"github.com/projectcalico/calico/verifkit/memds"
)

type c21rAddr struct {
	held     bool
	handle   string // "" = held without handle
	released bool   // has been released at least once since it was last handed out
	age      int    // seconds since that release
}

func c21rAdvance(w *c19World, seconds int) {
	bl, err := w.store.ReadList(model.BlockListOptions{})
	if err != nil {
		panic("HARNESS-GAP: " + err.Error())
	}
	d := time.Duration(seconds) * time.Second
	for _, kv := range bl.KVPairs {
		_ = w.store.Mutate(kv.Key, func(v any) any {
			b := v.(*model.AllocationBlock)
			if b.AffinityClaimTime != nil {
				nt := metav1.NewTime(b.AffinityClaimTime.Add(-d))
				b.AffinityClaimTime = &nt
			}
			for i := range b.Attributes {
				if b.Attributes[i].ReleasedAt != nil {
					nt := metav1.NewTime(b.Attributes[i].ReleasedAt.Add(-d))
					b.Attributes[i].ReleasedAt = &nt
				}
			}
			return b
		})
	}
}

func c21rCase(t *rapid.T, rec *ev.Recorder) {
	pool := []string{"10.0.0.0/30", "10.0.0.0/29"}[rapid.IntRange(0, 1).Draw(t, "pool")]
	cooldown := rapid.SampledFrom([]int{10, 60, 600}).Draw(t, "cooldown")
	strict := rapid.Bool().Draw(t, "strict")
	w := c19NewWorld([]v3.IPPool{c19Pool("pool4", pool, 30)}, nil)
	hosts := []string{"n1", "n2"}
	for _, h := range hosts {
		w.addNode(h, nil)
	}
	w.setConfig(model.IPAMConfig{StrictAffinity: strict, AutoAllocateBlocks: true, IPCooldownSeconds: cooldown})
	ctx := context.Background()
	addrs := c19PoolAddrs(pool)
	blocks := c19BlockCIDRs(pool, 30)
	st := map[string]*c21rAddr{}
	for _, a := range addrs {
		st[a] = &c21rAddr{}
	}
	classes := map[string]bool{}
	var log []string
	var shape []string
	blockDeleted := map[string]bool{}
	w.store.OnWrite(func(e memds.WriteEvent) {
		if k, ok := e.Key.(model.BlockKey); ok {
			cidr := k.CIDR.String()
			if e.Method == "Delete" {
				blockDeleted[cidr] = true
				classes["block-deleted"] = true
			}
			if e.Method == "Create" && blockDeleted[cidr] {
				classes["block-recreated"] = true
			}
			ob, _ := e.Old.(*model.AllocationBlock)
			nb, _ := e.New.(*model.AllocationBlock)
			if ob != nil && nb != nil && ob.Affinity != nil && nb.Affinity == nil {
				classes["block-affinity-stripped"] = true
			}
		}
	})
	fail := func(format string, args ...any) {
		t.Fatalf("C21 VIOLATION: %s\npool %s cooldown %ds strict=%v\nhistory:\n  %s\ndatastore:\n%s", fmt.Sprintf(format, args...), pool, cooldown, strict, strings.Join(log, "\n  "), w.snapshot())
	}
	handedOut := func(op, a, handle string) {
		x := st[a]
		if x == nil {
			fail("%s handed out %s which is outside the pool", op, a)
		}
		if x.held {
			fail("%s handed out %s which is still held (handle %q)", op, a, x.handle)
		}
		if x.released {
			classes["rehandout-of-released-address"] = true
			if x.age < cooldown-3 {
				fail("%s handed out %s only %d s after it was released; IPCooldownSeconds is %d", op, a, x.age, cooldown)
			}
			if blockDeleted[c19BlockOf(a)] {
				classes["rehandout-after-block-recreation"] = true
			}
		}
		*x = c21rAddr{held: true, handle: handle}
	}
	pending := func() bool { // some address is released and still well inside its cooldown
		for _, x := range st {
			if !x.held && x.released && x.age < cooldown-3 {
				return true
			}
		}
		return false
	}
	uniq := 0
	nOps := rapid.IntRange(6, ev.Scale(18, 30)).Draw(t, "nOps")
	for i := 0; i < nOps; i++ {
		host := rapid.SampledFrom(hosts).Draw(t, "host")
		k := rapid.IntRange(0, 19).Draw(t, "op")
		wasPending := pending()
		switch {
		case k <= 5: // AutoAssign
			n := rapid.IntRange(1, 3).Draw(t, "n")
			var hp *string
			hs := ""
			if rapid.IntRange(0, 3).Draw(t, "withHandle") > 0 {
				uniq++
				hs = fmt.Sprintf("h%d", uniq)
				hp = &hs
			}
			v4, _, err := w.ic.AutoAssign(ctx, ipam.AutoAssignArgs{Num4: n, HandleID: hp, Hostname: host, IntendedUse: v3.IPPoolAllowedUseWorkload})
			var got []string
			if v4 != nil {
				for _, ipn := range v4.IPs {
					got = append(got, ipn.IP.String())
				}
			}
			log = append(log, fmt.Sprintf("#%d AutoAssign(%s, %d, handle=%q) -> %v err=%v", i, host, n, hs, got, err))
			for _, a := range got {
				handedOut(fmt.Sprintf("#%d AutoAssign(%s)", i, host), a, hs)
			}
			if wasPending && len(got) > 0 {
				classes["assign-while-cooldown-pending"] = true
			}
			shape = append(shape, fmt.Sprintf("A%d", len(got)))
		case k == 6: // AssignIP
			a := rapid.SampledFrom(addrs).Draw(t, "addr")
			err := w.ic.AssignIP(ctx, ipam.AssignIPArgs{IP: *cnet.ParseIP(a), Hostname: host})
			log = append(log, fmt.Sprintf("#%d AssignIP(%s, %s) err=%v", i, host, a, err))
			if err == nil {
				handedOut(fmt.Sprintf("#%d AssignIP(%s)", i, host), a, "")
			}
			shape = append(shape, "I")
		case k <= 10: // ReleaseIPs of held addresses (and sometimes others)
			var held []string
			for _, a := range addrs {
				if st[a].held {
					held = append(held, a)
				}
			}
			n := rapid.IntRange(1, 3).Draw(t, "nrel")
			seen := map[string]bool{}
			var opts []ipam.ReleaseOptions
			for j := 0; j < n; j++ {
				a := rapid.SampledFrom(addrs).Draw(t, "addr")
				if len(held) > 0 && rapid.IntRange(0, 4).Draw(t, "fromHeld") > 0 {
					a = rapid.SampledFrom(held).Draw(t, "heldAddr")
				}
				if !seen[a] {
					seen[a] = true
					opts = append(opts, ipam.ReleaseOptions{Address: a})
				}
			}
			un, _, err := w.ic.ReleaseIPs(ctx, opts...)
			log = append(log, fmt.Sprintf("#%d ReleaseIPs(%v) -> unallocated %v err=%v", i, opts, un, err))
			if err == nil {
				unset := map[string]bool{}
				for _, u := range un {
					unset[u.String()] = true
				}
				for _, o := range opts {
					if x := st[o.Address]; x.held {
						if unset[o.Address] {
							fail("#%d ReleaseIPs reported held address %s as unallocated", i, o.Address)
						}
						*x = c21rAddr{released: true}
						classes["released"] = true
					}
				}
			}
			shape = append(shape, "R")
		case k == 11: // ReleaseByHandle
			hs := map[string]bool{}
			for _, x := range st {
				if x.held && x.handle != "" {
					hs[x.handle] = true
				}
			}
			var hl []string
			for h := range hs {
				hl = append(hl, h)
			}
			sort.Strings(hl)
			if len(hl) == 0 {
				shape = append(shape, "h")
				continue
			}
			h := rapid.SampledFrom(hl).Draw(t, "handle")
			err := w.ic.ReleaseByHandle(ctx, h)
			log = append(log, fmt.Sprintf("#%d ReleaseByHandle(%s) err=%v", i, h, err))
			if err == nil {
				for _, x := range st {
					if x.held && x.handle == h {
						*x = c21rAddr{released: true}
						classes["released"] = true
					}
				}
			}
			shape = append(shape, "H")
		case k == 12: // ClaimAffinity
			b := rapid.SampledFrom(blocks).Draw(t, "block")
			_, _, err := w.ic.ClaimAffinity(ctx, cnet.MustParseCIDR(b), ipam.AffinityConfig{AffinityType: ipam.AffinityTypeHost, Host: host})
			log = append(log, fmt.Sprintf("#%d ClaimAffinity(%s, %s) err=%v", i, b, host, err))
			shape = append(shape, "C")
		case k == 13: // ReleaseAffinity
			b := rapid.SampledFrom(blocks).Draw(t, "block")
			mbe := rapid.Bool().Draw(t, "mustBeEmpty")
			err := w.ic.ReleaseAffinity(ctx, cnet.MustParseCIDR(b), host, mbe)
			log = append(log, fmt.Sprintf("#%d ReleaseAffinity(%s, %s, mustBeEmpty=%v) err=%v", i, b, host, mbe, err))
			if wasPending {
				classes["affinity-release-while-cooldown-pending"] = true
			}
			shape = append(shape, "F")
		case k <= 15: // ReleaseHostAffinities
			mbe := rapid.IntRange(0, 2).Draw(t, "mustBeEmpty") > 0
			err := w.ic.ReleaseHostAffinities(ctx, ipam.AffinityConfig{AffinityType: ipam.AffinityTypeHost, Host: host}, mbe)
			log = append(log, fmt.Sprintf("#%d ReleaseHostAffinities(%s, mustBeEmpty=%v) err=%v", i, host, mbe, err))
			if wasPending {
				classes["affinity-release-while-cooldown-pending"] = true
			}
			shape = append(shape, "G")
		case k == 16: // RemoveIPAMHost
			err := w.ic.RemoveIPAMHost(ctx, ipam.AffinityConfig{AffinityType: ipam.AffinityTypeHost, Host: host})
			log = append(log, fmt.Sprintf("#%d RemoveIPAMHost(%s) err=%v", i, host, err))
			if wasPending {
				classes["affinity-release-while-cooldown-pending"] = true
			}
			shape = append(shape, "X")
		default: // time passes
			dt := rapid.SampledFrom([]int{5, 30, 90, 700}).Draw(t, "seconds")
			c21rAdvance(w, dt)
			for _, x := range st {
				if x.released {
					x.age += dt
				}
			}
			log = append(log, fmt.Sprintf("#%d advance %ds", i, dt))
			shape = append(shape, "t")
		}
	}
	var cls []string
	for c := range classes {
		cls = append(cls, c)
	}
	sort.Strings(cls)
	nontrivial := classes["affinity-release-while-cooldown-pending"] && classes["assign-while-cooldown-pending"]
	rec.SizedCase(nontrivial, fmt.Sprintf("%s/c%d/%v/", pool, cooldown, strict)+strings.Join(shape, ""), len(log), func() any {
		return map[string]any{"pool": pool, "cooldown": cooldown, "strict": strict, "history": log}
	}, cls...)
}

func TestVerifC21Reclaim(t *testing.T) {
	ev.Quiet()
	rec := ev.New("C21", "reclaim",
		"two nodes, pool of one or two /30 blocks, IPCooldownSeconds 10/60/600, strict affinity on/off; sequential histories of 6-18 operations (AutoAssign / AssignIP with and without handle, ReleaseIPs, ReleaseByHandle, ClaimAffinity, ReleaseAffinity, ReleaseHostAffinities, RemoveIPAMHost, time advances that age ReleasedAt and AffinityClaimTime) through the full IPAM client on verifkit/memds; per-address model of holder and time since release, kept across block release / reclaim / deletion / re-creation. Non-trivial = an affinity release (ReleaseAffinity / ReleaseHostAffinities / RemoveIPAMHost) ran and an assignment succeeded while some released address was still inside its cooldown; distinct = distinct (pool, cooldown, strict, operation sequence)",
		"ages within 3 s of the cooldown are not asserted (second granularity of persisted stamps, machine stalls)")
	defer rec.Write()
	rapid.Check(t, func(t *rapid.T) { c21rCase(t, rec) })
}
