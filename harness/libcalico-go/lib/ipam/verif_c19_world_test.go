package ipam_test

// Shared world for the IPAM checks C19/C20/C22 (and the full-client half of C21): the real
// IPAM client (ipam.NewIPAMClient) on top of the in-memory compare-and-swap datastore
// verifkit/memds, driven by the memds step scheduler.  Pools and reservations are the two
// accessor interfaces NewIPAMClient takes; nodes and the IPAM config live in the datastore.

import (
	"context"
	"fmt"
	"net/netip"
	"sort"
	"strings"

	v3 "github.com/projectcalico/api/pkg/apis/projectcalico/v3"
	corev1 "k8s.io/api/core/v1"
	metav1 "k8s.io/apimachinery/pkg/apis/meta/v1"
	"pgregory.net/rapid"

	"github.com/projectcalico/calico/libcalico-go/lib/apis/internalapi"
	"github.com/projectcalico/calico/libcalico-go/lib/backend/model"
	"github.com/projectcalico/calico/libcalico-go/lib/ipam"
	cnet "github.com/projectcalico/calico/libcalico-go/lib/net"
	"github.com/projectcalico/calico/libcalico-go/lib/options"
	"github.com/projectcalico/calico/verifkit/memds"
)

// ---------------------------------------------------------------------------------------
// pool / reservation accessors

type c19Pools struct{ pools []v3.IPPool }

func (p *c19Pools) sorted(filter func(*v3.IPPool) bool) []v3.IPPool {
	var out []v3.IPPool
	for i := range p.pools {
		if filter(&p.pools[i]) {
			out = append(out, *p.pools[i].DeepCopy())
		}
	}
	sort.Slice(out, func(i, j int) bool { return out[i].Name < out[j].Name })
	return out
}

func (p *c19Pools) GetEnabledPools(ctx context.Context, ipVersion int) ([]v3.IPPool, error) {
	return p.sorted(func(pl *v3.IPPool) bool {
		if pl.Spec.Disabled {
			return false
		}
		c, err := netip.ParsePrefix(pl.Spec.CIDR)
		if err != nil {
			return false
		}
		return (ipVersion == 4) == c.Addr().Is4()
	}), nil
}

func (p *c19Pools) GetAllPools(ctx context.Context) ([]v3.IPPool, error) {
	return p.sorted(func(*v3.IPPool) bool { return true }), nil
}

type c19Reservations struct{ items []v3.IPReservation }

func (r *c19Reservations) List(ctx context.Context, opts options.ListOptions) (*v3.IPReservationList, error) {
	out := &v3.IPReservationList{}
	for i := range r.items {
		out.Items = append(out.Items, *r.items[i].DeepCopy())
	}
	return out, nil
}

func c19Pool(name, cidr string, blockSize int, uses ...v3.IPPoolAllowedUse) v3.IPPool {
	auto := v3.Automatic
	if len(uses) == 0 {
		uses = []v3.IPPoolAllowedUse{v3.IPPoolAllowedUseWorkload, v3.IPPoolAllowedUseTunnel}
	}
	return v3.IPPool{
		ObjectMeta: metav1.ObjectMeta{Name: name},
		Spec:       v3.IPPoolSpec{CIDR: cidr, BlockSize: blockSize, AllowedUses: uses, AssignmentMode: &auto},
	}
}

// ---------------------------------------------------------------------------------------
// world

type c19World struct {
	store *memds.Store
	cl    *memds.Client
	pools *c19Pools
	rsvd  *c19Reservations
	ic    ipam.Interface
}

func c19NewWorld(pools []v3.IPPool, rsvd []v3.IPReservation) *c19World {
	w := &c19World{store: memds.NewStore(), pools: &c19Pools{pools: pools}, rsvd: &c19Reservations{items: rsvd}}
	w.cl = w.store.Client()
	w.ic = ipam.NewIPAMClient(w.cl, w.pools, w.rsvd)
	return w
}

func (w *c19World) addNode(name string, labels map[string]string) {
	_, err := w.cl.Apply(context.Background(), &model.KVPair{
		Key: model.ResourceKey{Name: name, Kind: internalapi.KindNode},
		Value: &internalapi.Node{
			TypeMeta:   metav1.TypeMeta{Kind: internalapi.KindNode, APIVersion: "projectcalico.org/v3"},
			ObjectMeta: metav1.ObjectMeta{Name: name, Labels: labels},
			Spec:       internalapi.NodeSpec{OrchRefs: []internalapi.OrchRef{{NodeName: name, Orchestrator: "k8s"}}},
		},
	})
	if err != nil {
		panic(fmt.Sprintf("HARNESS-GAP: cannot store node: %v", err))
	}
}

func (w *c19World) setConfig(cfg model.IPAMConfig) {
	_, err := w.cl.Apply(context.Background(), &model.KVPair{Key: model.IPAMConfigKey{}, Value: &cfg})
	if err != nil {
		panic(fmt.Sprintf("HARNESS-GAP: cannot store IPAM config: %v", err))
	}
}

// ---------------------------------------------------------------------------------------
// datastore snapshot for the oracles (reads bypass gates and faults)

type c19AllocView struct {
	Handle     string // "" when the allocation has no handle
	HasHandle  bool
	Node       string // attrs["node"]
	InCooldown bool   // ReleasedAt set: released, not yet back on the free list
	Seq        uint64
}

type c19BlockView struct {
	CIDR     string
	Affinity string // "" when nil
	Rev      string
	Allocs   map[int]c19AllocView // ordinal -> allocation (live or cooling down)
	Free     []int                // Unallocated, in order
	Raw      *model.AllocationBlock
}

type c19AffView struct {
	Host, CIDR, State string
}

type c19Snapshot struct {
	Blocks  map[string]*c19BlockView   // by CIDR
	Affs    []c19AffView               // sorted
	Handles map[string]map[string]int // handle id -> block cidr -> count
}

func c19BlockViewOf(kv *model.KVPair) *c19BlockView {
	b := kv.Value.(*model.AllocationBlock)
	bv := &c19BlockView{CIDR: b.CIDR.String(), Rev: kv.Revision, Allocs: map[int]c19AllocView{}, Raw: b}
	if b.Affinity != nil {
		bv.Affinity = *b.Affinity
	}
	for o, idx := range b.Allocations {
		if idx == nil {
			continue
		}
		av := c19AllocView{Seq: b.GetSequenceNumberForOrdinal(o)}
		if *idx >= 0 && *idx < len(b.Attributes) {
			a := b.Attributes[*idx]
			if a.HandleID != nil {
				av.Handle, av.HasHandle = *a.HandleID, true
			}
			av.Node = a.ActiveOwnerAttrs[model.IPAMBlockAttributeNode]
			av.InCooldown = a.ReleasedAt != nil
		}
		bv.Allocs[o] = av
	}
	bv.Free = append(bv.Free, b.Unallocated...)
	return bv
}

// snapshotBlocks is the cheap variant for oracles that only look at blocks.
func (w *c19World) snapshotBlocks() *c19Snapshot {
	s := &c19Snapshot{Blocks: map[string]*c19BlockView{}, Handles: map[string]map[string]int{}}
	bl, err := w.store.ReadList(model.BlockListOptions{})
	if err != nil {
		panic("HARNESS-GAP: list blocks: " + err.Error())
	}
	for _, kv := range bl.KVPairs {
		bv := c19BlockViewOf(kv)
		s.Blocks[bv.CIDR] = bv
	}
	return s
}

func (w *c19World) snapshot() *c19Snapshot {
	s := &c19Snapshot{Blocks: map[string]*c19BlockView{}, Handles: map[string]map[string]int{}}
	bl, err := w.store.ReadList(model.BlockListOptions{})
	if err != nil {
		panic("HARNESS-GAP: list blocks: " + err.Error())
	}
	for _, kv := range bl.KVPairs {
		bv := c19BlockViewOf(kv)
		s.Blocks[bv.CIDR] = bv
	}
	for _, at := range []string{"host", "virtual"} {
		al, err := w.store.ReadList(model.BlockAffinityListOptions{AffinityType: at})
		if err != nil {
			panic("HARNESS-GAP: list affinities: " + err.Error())
		}
		for _, kv := range al.KVPairs {
			k := kv.Key.(model.BlockAffinityKey)
			if k.AffinityType != at {
				continue
			}
			s.Affs = append(s.Affs, c19AffView{Host: k.Host, CIDR: k.CIDR.String(), State: string(kv.Value.(*model.BlockAffinity).State)})
		}
	}
	sort.Slice(s.Affs, func(i, j int) bool {
		if s.Affs[i].CIDR != s.Affs[j].CIDR {
			return s.Affs[i].CIDR < s.Affs[j].CIDR
		}
		return s.Affs[i].Host < s.Affs[j].Host
	})
	hl, err := w.store.ReadList(model.IPAMHandleListOptions{})
	if err != nil {
		panic("HARNESS-GAP: list handles: " + err.Error())
	}
	for _, kv := range hl.KVPairs {
		id := kv.Key.(model.IPAMHandleKey).HandleID
		m := map[string]int{}
		for b, n := range kv.Value.(*model.IPAMHandle).Block {
			m[b] = n
		}
		s.Handles[id] = m
	}
	return s
}

func (s *c19Snapshot) String() string {
	var sb strings.Builder
	var cidrs []string
	for c := range s.Blocks {
		cidrs = append(cidrs, c)
	}
	sort.Strings(cidrs)
	for _, c := range cidrs {
		b := s.Blocks[c]
		fmt.Fprintf(&sb, "  block %s aff=%q rev=%s free=%v allocs:", c, b.Affinity, b.Rev, b.Free)
		var ords []int
		for o := range b.Allocs {
			ords = append(ords, o)
		}
		sort.Ints(ords)
		for _, o := range ords {
			a := b.Allocs[o]
			h := "<nil>"
			if a.HasHandle {
				h = a.Handle
			}
			cd := ""
			if a.InCooldown {
				cd = "(cooldown)"
			}
			fmt.Fprintf(&sb, " %d->%s@%s%s", o, h, a.Node, cd)
		}
		sb.WriteString("\n")
	}
	for _, a := range s.Affs {
		fmt.Fprintf(&sb, "  affinity %s %s %s\n", a.CIDR, a.Host, a.State)
	}
	var hs []string
	for h := range s.Handles {
		hs = append(hs, h)
	}
	sort.Strings(hs)
	for _, h := range hs {
		var bs []string
		for b, n := range s.Handles[h] {
			bs = append(bs, fmt.Sprintf("%s=%d", b, n))
		}
		sort.Strings(bs)
		fmt.Fprintf(&sb, "  handle %s %v\n", h, bs)
	}
	return sb.String()
}

// lookup finds the allocation for an IP (block whose CIDR contains it).
func (s *c19Snapshot) lookup(ip string) (*c19BlockView, int, *c19AllocView) {
	addr, err := netip.ParseAddr(ip)
	if err != nil {
		return nil, 0, nil
	}
	for _, b := range s.Blocks {
		p, err := netip.ParsePrefix(b.CIDR)
		if err != nil || !p.Contains(addr) {
			continue
		}
		ord := c19Ordinal(p, addr)
		if a, ok := b.Allocs[ord]; ok {
			return b, ord, &a
		}
		return b, ord, nil
	}
	return nil, 0, nil
}

func c19Ordinal(p netip.Prefix, a netip.Addr) int {
	base := p.Masked().Addr().AsSlice()
	x := a.AsSlice()
	n := 0
	// blocks are tiny: the difference fits the last two bytes
	n = (int(x[len(x)-2])<<8 | int(x[len(x)-1])) - (int(base[len(base)-2])<<8 | int(base[len(base)-1]))
	return n
}

// handleCounts recomputes per-handle per-block counts of live (not cooling-down) allocations.
func (s *c19Snapshot) handleCounts() map[string]map[string]int {
	out := map[string]map[string]int{}
	for _, b := range s.Blocks {
		for _, a := range b.Allocs {
			if a.InCooldown || !a.HasHandle {
				continue
			}
			if out[a.Handle] == nil {
				out[a.Handle] = map[string]int{}
			}
			out[a.Handle][b.CIDR]++
		}
	}
	return out
}

// ---------------------------------------------------------------------------------------
// operations

type c19Kind int

const (
	c19AutoAssign c19Kind = iota
	c19AssignIP
	c19ReleaseIPs
	c19ReleaseByHandle
	c19ClaimAffinity
	c19ReleaseAffinity
	c19ReleaseHostAffinities
	c19RemoveIPAMHost
	c19NumKinds
)

var c19KindNames = [...]string{"AutoAssign", "AssignIP", "ReleaseIPs", "ReleaseByHandle", "ClaimAffinity",
	"ReleaseAffinity", "ReleaseHostAffinities", "RemoveIPAMHost"}
var c19KindLetters = [...]string{"A", "I", "R", "H", "C", "F", "G", "X"}

func (k c19Kind) String() string { return c19KindNames[k] }

type c19Rel struct {
	Address string
	Handle  string
	Seq     *uint64
}

type c19Op struct {
	ID     string
	Client int
	Host   string // host the calling client runs on
	Kind   c19Kind

	// parameters
	Num4, Num6  int
	Handle      *string
	IP          string
	Rel         []c19Rel
	CIDR        string
	TargetHost  string
	MustBeEmpty bool
	Use         v3.IPPoolAllowedUse
	Namespace   *corev1.Namespace
	Pools4      []string
	MaxBlocks   int
	AttrMode    int // 0: {"node": host}; 1: nil attributes; 2: empty attributes

	// execution
	op         *memds.Op
	startStep  int
	endStep    int
	finished   bool // result processed by the controller
	crashed    bool
	hadFault   bool // an injected error / conflict / crash hit one of its calls
	hadError   bool // an injected transient error or crash (handle residue tolerated)
	involved   map[string]bool // handle ids whose records this operation may have left over-counted

	// results (written by the operation goroutine before it returns)
	IPs      []string // addresses returned by an assign (AssignIP: the IP on success)
	Nets     []string // returned IPNets (AutoAssign) in CIDR form
	Err      error
	Unalloc  []string
	Released []string
	Claimed  []string
	Failed   []string
}

func (o *c19Op) String() string {
	h := "<nil>"
	if o.Handle != nil {
		h = *o.Handle
	}
	var p string
	switch o.Kind {
	case c19AutoAssign:
		p = fmt.Sprintf("num4=%d num6=%d handle=%s attrs=%s use=%s pools=%v maxBlocks=%d", o.Num4, o.Num6, h, [...]string{"node", "nil", "empty"}[o.AttrMode], o.Use, o.Pools4, o.MaxBlocks)
		if o.Namespace != nil {
			p += fmt.Sprintf(" ns=%s%v", o.Namespace.Name, o.Namespace.Labels)
		}
	case c19AssignIP:
		p = fmt.Sprintf("ip=%s handle=%s attrs=%s", o.IP, h, [...]string{"node", "nil", "empty"}[o.AttrMode])
	case c19ReleaseIPs:
		for _, r := range o.Rel {
			s := "-"
			if r.Seq != nil {
				s = fmt.Sprint(*r.Seq)
			}
			p += fmt.Sprintf("{%s h=%q seq=%s}", r.Address, r.Handle, s)
		}
	case c19ReleaseByHandle:
		p = "handle=" + h
	case c19ClaimAffinity:
		p = fmt.Sprintf("cidr=%s host=%s", o.CIDR, o.TargetHost)
	case c19ReleaseAffinity:
		p = fmt.Sprintf("cidr=%s host=%s mustBeEmpty=%v", o.CIDR, o.TargetHost, o.MustBeEmpty)
	case c19ReleaseHostAffinities, c19RemoveIPAMHost:
		p = fmt.Sprintf("host=%s mustBeEmpty=%v", o.TargetHost, o.MustBeEmpty)
	}
	st := "running"
	if o.crashed {
		st = "CRASHED"
	} else if o.finished {
		st = fmt.Sprintf("done ips=%v err=%v", o.IPs, o.Err)
		if o.Kind == c19ReleaseIPs {
			st += fmt.Sprintf(" unalloc=%v released=%v", o.Unalloc, o.Released)
		}
		if o.Kind == c19ClaimAffinity {
			st += fmt.Sprintf(" claimed=%v failed=%v", o.Claimed, o.Failed)
		}
	}
	return fmt.Sprintf("%s@%s %s(%s) steps[%d..%d] -> %s", o.ID, o.Host, o.Kind, p, o.startStep, o.endStep, st)
}

// run executes the operation against the real IPAM client.
func (o *c19Op) run(ctx context.Context, ic ipam.Interface) {
	attrs := map[string]string{model.IPAMBlockAttributeNode: o.Host}
	switch o.AttrMode {
	case 1:
		attrs = nil // attributes are optional in AutoAssignArgs / AssignIPArgs
	case 2:
		attrs = map[string]string{}
	}
	switch o.Kind {
	case c19AutoAssign:
		args := ipam.AutoAssignArgs{Num4: o.Num4, Num6: o.Num6, HandleID: o.Handle, Attrs: attrs, Hostname: o.Host,
			IntendedUse: o.Use, Namespace: o.Namespace, MaxBlocksPerHost: o.MaxBlocks}
		for _, p := range o.Pools4 {
			args.IPv4Pools = append(args.IPv4Pools, cnet.MustParseCIDR(p))
		}
		v4, v6, err := ic.AutoAssign(ctx, args)
		o.Err = err
		for _, ia := range []*ipam.IPAMAssignments{v4, v6} {
			if ia == nil {
				continue
			}
			for _, n := range ia.IPs {
				o.IPs = append(o.IPs, n.IP.String())
				o.Nets = append(o.Nets, n.String())
			}
		}
	case c19AssignIP:
		ip := cnet.ParseIP(o.IP)
		o.Err = ic.AssignIP(ctx, ipam.AssignIPArgs{IP: *ip, HandleID: o.Handle, Attrs: attrs, Hostname: o.Host, IntendedUse: o.Use})
		if o.Err == nil {
			o.IPs = []string{o.IP}
		}
	case c19ReleaseIPs:
		var opts []ipam.ReleaseOptions
		for _, r := range o.Rel {
			opts = append(opts, ipam.ReleaseOptions{Address: r.Address, Handle: r.Handle, SequenceNumber: r.Seq})
		}
		un, rel, err := ic.ReleaseIPs(ctx, opts...)
		o.Err = err
		for _, u := range un {
			o.Unalloc = append(o.Unalloc, u.String())
		}
		for _, r := range rel {
			o.Released = append(o.Released, r.Address)
		}
		sort.Strings(o.Unalloc)
		sort.Strings(o.Released)
	case c19ReleaseByHandle:
		o.Err = ic.ReleaseByHandle(ctx, *o.Handle)
	case c19ClaimAffinity:
		cl, fl, err := ic.ClaimAffinity(ctx, cnet.MustParseCIDR(o.CIDR), ipam.AffinityConfig{AffinityType: ipam.AffinityTypeHost, Host: o.TargetHost})
		o.Err = err
		for _, c := range cl {
			o.Claimed = append(o.Claimed, c.String())
		}
		for _, c := range fl {
			o.Failed = append(o.Failed, c.String())
		}
	case c19ReleaseAffinity:
		o.Err = ic.ReleaseAffinity(ctx, cnet.MustParseCIDR(o.CIDR), o.TargetHost, o.MustBeEmpty)
	case c19ReleaseHostAffinities:
		o.Err = ic.ReleaseHostAffinities(ctx, ipam.AffinityConfig{AffinityType: ipam.AffinityTypeHost, Host: o.TargetHost}, o.MustBeEmpty)
	case c19RemoveIPAMHost:
		o.Err = ic.RemoveIPAMHost(ctx, ipam.AffinityConfig{AffinityType: ipam.AffinityTypeHost, Host: o.TargetHost})
	}
}

// ---------------------------------------------------------------------------------------
// scheduled runner

type c19FaultWeights struct {
	// out of 1000 per released call
	Conflict, Error, CrashBefore, CrashAfter int
	MaxCrashes                               int
}

type c19Runner struct {
	t      *rapid.T
	w      *c19World
	sched  *memds.Scheduler
	faults c19FaultWeights

	step     int
	ops      []*c19Op          // in start order
	byOp     map[*memds.Op]*c19Op
	crashes  int
	injected map[string]int // fault kind -> count
	writes   []memds.WriteEvent
	onFinish func(o *c19Op)            // called by the controller when an operation completes or crashes
	onStep   func(newWrites []memds.WriteEvent) // called after every scheduling step with the writes it produced
	// pickHook may choose the call to release itself (scheduling strategies); -1 leaves the choice
	// to the uniform draw.
	pickHook func(calls []*memds.Call) int
	// faultHook may decide the fault for a call itself (targeted fault scenarios); ok=false leaves
	// the decision to the weighted draw.
	faultHook func(c *memds.Call, o *c19Op) (f memds.Fault, ok bool)
}

func c19NewRunner(t *rapid.T, w *c19World, f c19FaultWeights) *c19Runner {
	r := &c19Runner{t: t, w: w, sched: memds.NewScheduler(w.store), faults: f, byOp: map[*memds.Op]*c19Op{}, injected: map[string]int{}}
	w.store.OnWrite(func(ev memds.WriteEvent) { r.writes = append(r.writes, ev) })
	return r
}

func (r *c19Runner) start(o *c19Op) {
	o.startStep = r.step
	o.involved = map[string]bool{}
	if o.Handle != nil {
		o.involved[*o.Handle] = true
	}
	for _, rel := range o.Rel {
		if rel.Handle != "" {
			o.involved[rel.Handle] = true
		}
	}
	r.ops = append(r.ops, o)
	o.op = r.sched.Go(o.ID, func(ctx context.Context) { o.run(ctx, r.w.ic) })
	o.op.Tag = o
	r.byOp[o.op] = o
}

func (r *c19Runner) inFlight() []*c19Op {
	var out []*c19Op
	for _, o := range r.ops {
		if !o.finished {
			out = append(out, o)
		}
	}
	return out
}

// settle waits for quiescence, processes the writes of the last step and the operations that
// have finished, and returns the parked calls.
func (r *c19Runner) settle() []*memds.Call {
	calls, err := r.sched.Quiesce()
	if err != nil {
		r.t.Fatalf("HARNESS-GAP: %v", err)
	}
	// Attribute block writes to handles (for the residue rule) before anything else.
	newWrites := r.writes
	r.writes = nil
	for _, ev := range newWrites {
		o := r.byOp[ev.Op]
		if o == nil {
			continue
		}
		if _, ok := ev.Key.(model.BlockKey); ok {
			for h := range c19HandleDelta(ev.Old, ev.New) {
				o.involved[h] = true
			}
		}
		if k, ok := ev.Key.(model.IPAMHandleKey); ok {
			o.involved[k.HandleID] = true
		}
	}
	if r.onStep != nil {
		r.onStep(newWrites)
	}
	for _, o := range r.ops {
		if o.finished || !o.op.Done() {
			continue
		}
		if v, stk := o.op.Panic(); v != nil {
			r.t.Fatalf("operation %s panicked: %v\n%s\n%s", o, v, stk, r.explain())
		}
		o.finished = true
		o.endStep = r.step
		o.crashed = o.op.Crashed()
		if r.onFinish != nil {
			r.onFinish(o)
		}
	}
	return calls
}

// c19HandleDelta returns the handles whose live-allocation count differs between two
// versions of a block.
func c19HandleDelta(old, new any) map[string]bool {
	count := func(v any) map[string]int {
		m := map[string]int{}
		b, ok := v.(*model.AllocationBlock)
		if !ok || b == nil {
			return m
		}
		for _, idx := range b.Allocations {
			if idx == nil || *idx >= len(b.Attributes) {
				continue
			}
			a := b.Attributes[*idx]
			if a.HandleID != nil && a.ReleasedAt == nil {
				m[*a.HandleID]++
			}
		}
		return m
	}
	a, b := count(old), count(new)
	out := map[string]bool{}
	for h, n := range a {
		if b[h] != n {
			out[h] = true
		}
	}
	for h, n := range b {
		if a[h] != n {
			out[h] = true
		}
	}
	return out
}

// stepOnce picks one parked call and a fault for it, and releases it.
func (r *c19Runner) stepOnce(calls []*memds.Call) {
	r.step++
	idx := -1
	if r.pickHook != nil {
		idx = r.pickHook(calls)
	}
	if idx < 0 {
		idx = 0
		if len(calls) > 1 {
			idx = rapid.IntRange(0, len(calls)-1).Draw(r.t, "pick")
		}
	}
	c := calls[idx]
	o := r.byOp[c.Op]
	f := memds.FaultNone
	fw := r.faults
	hooked := false
	if r.faultHook != nil {
		f, hooked = r.faultHook(c, o)
	}
	if !hooked && fw.Conflict+fw.Error+fw.CrashBefore+fw.CrashAfter > 0 {
		// rapid's integer generators favour the bounds of the range, so the fault bands sit in
		// the middle of a wider range (0 = no fault is what cases shrink to).
		x := rapid.IntRange(0, 9999).Draw(r.t, "fault") - 5000
		switch {
		case x < 0:
		case x < 10*fw.Conflict:
			if c.CAS {
				f = memds.FaultConflict
			}
		case x < 10*(fw.Conflict+fw.Error):
			f = memds.FaultError
		case x < 10*(fw.Conflict+fw.Error+fw.CrashBefore):
			if r.crashes < fw.MaxCrashes {
				f = memds.FaultCrashBefore
			}
		case x < 10*(fw.Conflict+fw.Error+fw.CrashBefore+fw.CrashAfter):
			if r.crashes < fw.MaxCrashes {
				if c.Write {
					f = memds.FaultCrashAfter
				} else {
					f = memds.FaultCrashBefore
				}
			}
		}
	}
	if f != memds.FaultNone {
		r.injected[f.String()]++
		o.hadFault = true
		if f != memds.FaultConflict {
			o.hadError = true
		}
		if f == memds.FaultCrashBefore || f == memds.FaultCrashAfter {
			r.crashes++
		}
	}
	r.sched.Release(c, f)
}

func (r *c19Runner) shutdown() {
	if err := r.sched.Shutdown(); err != nil {
		r.t.Fatalf("HARNESS-GAP: %v", err)
	}
}

func (r *c19Runner) explain() string {
	var sb strings.Builder
	sb.WriteString("operations:\n")
	for _, o := range r.ops {
		fmt.Fprintf(&sb, "  %s\n", o)
	}
	sb.WriteString("datastore:\n")
	sb.WriteString(r.w.snapshot().String())
	sb.WriteString("call trace (release order):\n")
	tr := r.sched.Trace()
	from := 0
	if len(tr) > 400 {
		from = len(tr) - 400
		fmt.Fprintf(&sb, "  ... %d earlier calls omitted\n", from)
	}
	for i := from; i < len(tr); i++ {
		c := tr[i]
		f := ""
		if c.Fault != memds.FaultNone {
			f = " FAULT=" + c.Fault.String()
		}
		fmt.Fprintf(&sb, "  %4d %s -> %s%s\n", i, c.ID, c.Result, f)
	}
	return sb.String()
}
