package ipam

// C21 - IPAM release is safe against stale requests and honours cooldown.
//
// In-package because the block mechanics (allocationBlock.autoAssign / assign / release /
// releaseByHandle / garbageCollect) are unexported.  Two drivers share one reference model of a
// block (per-ordinal state free / allocated(handle, seq) / cooling-down(age), and the FIFO of
// free ordinals kept as batches - one batch per garbage-collection pass):
//
//   - block level: the operations are applied to an allocationBlock exactly the way the client
//     does it (load = garbageCollect, mutate a private copy, persist = SequenceNumber++ as
//     updateBlock does, discard the copy on error);
//   - full client: NewIPAMClient on verifkit/memds, one host, one block.
//
// Time: the library reads the wall clock in garbageCollect and only ever compares a persisted
// ReleasedAt with now - cooldown, so "advance time by d" moves every persisted ReleasedAt d into
// the past.  Where the outcome depends on sub-second timing (age == cooldown; with the JSON
// round trip also cooldown-1) the model follows what the block did and asserts nothing.
//
// Oracle (statement C21):
//   - a release naming a stale sequence number or a different handle frees nothing (the block
//     is unchanged);
//   - releasing an address that is already released / free changes nothing, and without a
//     sequence number it is not an error;
//   - a released address is not handed out (stays out of the free list) until its age exceeds
//     the cooldown;
//   - auto-assign takes the head of the free FIFO: addresses freed in an earlier
//     garbage-collection pass before addresses freed in a later one;
//   - release by handle frees exactly that handle's addresses.

import (
	"context"
	"fmt"
	"sort"
	"strings"
	"testing"
	"time"

	v3 "github.com/projectcalico/api/pkg/apis/projectcalico/v3"
	metav1 "k8s.io/apimachinery/pkg/apis/meta/v1"
	"pgregory.net/rapid"

	"github.com/projectcalico/calico/libcalico-go/lib/apis/internalapi"
	"github.com/projectcalico/calico/libcalico-go/lib/backend/model"
	cnet "github.com/projectcalico/calico/libcalico-go/lib/net"
	"github.com/projectcalico/calico/libcalico-go/lib/options"
	"github.com/projectcalico/calico/verifkit/ev"
	"github.com/projectcalico/calico/verifkit/memds"
)

const (
	c21Free = iota
	c21Alloc
	c21Cooling
)

const c21N = 8 // addresses per block (10.0.0.0/29)

type c21Ord struct {
	state  int
	handle string
	seq    uint64 // sequence number of the current allocation (as observed after the assign)
	age    int    // seconds since release (sum of time advances)
}

// c21Stale remembers a past allocation of an ordinal (for generating stale requests).
type c21Stale struct {
	ord    int
	handle string
	seq    uint64
}

type c21Model struct {
	ords     [c21N]c21Ord
	queue    [][]int // batches of free ordinals, head first
	cooldown int
	slack    int // ages in [cooldown-slack, cooldown] are timing dependent
	start    time.Time
	past     []c21Stale
	// loose[o]: the ordinal has been in the timing-dependent band since it was released, so the
	// pass that freed it - and with it its place in the free list - is not known to the model.
	loose [c21N]bool
}

func c21NewModel(cooldown, slack int) *c21Model {
	m := &c21Model{cooldown: cooldown, slack: slack, start: time.Now()}
	first := make([]int, c21N)
	for i := range first {
		first[i] = i
	}
	m.queue = [][]int{first}
	return m
}

// gc mirrors one garbage-collection pass.  Ordinals in the timing-dependent band are left
// cooling (the comparison accepts either state for them).
func (m *c21Model) gc(_ func(ord int) bool) {
	var batch []int
	for o := 0; o < c21N; o++ {
		x := &m.ords[o]
		if x.state != c21Cooling {
			continue
		}
		if m.cooldown == 0 || x.age > m.cooldown {
			x.state = c21Free
			batch = append(batch, o)
		} else if m.timingDependent(o) {
			m.loose[o] = true
		}
	}
	if len(batch) > 0 {
		m.queue = append(m.queue, batch)
	}
}

// timingDependent: the ordinal is cooling down and so close to the end of its cooldown that the
// wall clock decides whether a garbage-collection pass frees it.
func (m *c21Model) timingDependent(o int) bool {
	x := m.ords[o]
	slack := m.slack
	if slack > 0 {
		// The library compares ReleasedAt with the wall clock, so the real time that this case
		// has been running for (large on a heavily loaded machine) widens the band in which
		// the outcome depends on timing.
		slack += int(time.Since(m.start)/time.Second) + 1
	}
	return x.state == c21Cooling && m.cooldown > 0 && x.age <= m.cooldown && x.age >= m.cooldown-slack
}

func (m *c21Model) clone() *c21Model {
	c := *m
	c.queue = nil
	for _, b := range m.queue {
		c.queue = append(c.queue, append([]int(nil), b...))
	}
	c.past = append([]c21Stale(nil), m.past...)
	return &c
}

// take removes ordinal o from the head batch; false if it is not there.
func (m *c21Model) take(o int) bool {
	// batches that only hold loose ordinals do not constrain the order
	for len(m.queue) > 0 {
		definite := 0
		for _, x := range m.queue[0] {
			if !m.loose[x] {
				definite++
			}
		}
		if definite > 0 {
			break
		}
		if len(m.queue) == 1 {
			break
		}
		// move its loose members to the next batch so that they stay in the model's free set
		m.queue[1] = append(m.queue[1], m.queue[0]...)
		m.queue = m.queue[1:]
	}
	if len(m.queue) == 0 {
		return false
	}
	for i, x := range m.queue[0] {
		if x == o {
			m.queue[0] = append(m.queue[0][:i], m.queue[0][i+1:]...)
			return true
		}
	}
	return false
}

// remove takes o out of whatever batch holds it (assign of a specific address).
func (m *c21Model) remove(o int) {
	for b := range m.queue {
		for i, x := range m.queue[b] {
			if x == o {
				m.queue[b] = append(m.queue[b][:i], m.queue[b][i+1:]...)
				return
			}
		}
	}
}

func (m *c21Model) numFree() int {
	n := 0
	for _, b := range m.queue {
		n += len(b)
	}
	return n
}

func (m *c21Model) String() string {
	var sb strings.Builder
	for o, x := range m.ords {
		switch x.state {
		case c21Free:
			fmt.Fprintf(&sb, " %d:free", o)
		case c21Alloc:
			fmt.Fprintf(&sb, " %d:%s#%d", o, x.handle, x.seq)
		case c21Cooling:
			fmt.Fprintf(&sb, " %d:cooling(%ds)", o, x.age)
		}
	}
	fmt.Fprintf(&sb, " queue=%v cooldown=%d", m.queue, m.cooldown)
	return sb.String()
}

func c21BlockString(b *model.AllocationBlock) string {
	var sb strings.Builder
	for o, idx := range b.Allocations {
		if idx == nil {
			continue
		}
		a := b.Attributes[*idx]
		if a.ReleasedAt != nil {
			fmt.Fprintf(&sb, " %d:cooling", o)
		} else {
			h := "<nil>"
			if a.HandleID != nil {
				h = *a.HandleID
			}
			fmt.Fprintf(&sb, " %d:%s#%d", o, h, b.GetSequenceNumberForOrdinal(o))
		}
	}
	fmt.Fprintf(&sb, " unallocated=%v seq=%d", b.Unallocated, b.SequenceNumber)
	return sb.String()
}

// c21AllocString lists only the live (not released) allocations of the block.
func c21AllocString(b *model.AllocationBlock) string {
	var sb strings.Builder
	for o, idx := range b.Allocations {
		if idx == nil {
			continue
		}
		a := b.Attributes[*idx]
		if a.ReleasedAt != nil {
			continue
		}
		h := "<nil>"
		if a.HandleID != nil {
			h = *a.HandleID
		}
		fmt.Fprintf(&sb, " %d:%s#%d", o, h, b.GetSequenceNumberForOrdinal(o))
	}
	return sb.String()
}

// compare checks the real block against the model; returns "" when they agree.
func (m *c21Model) compare(b *model.AllocationBlock) string {
	for o := 0; o < c21N; o++ {
		idx := b.Allocations[o]
		x := m.ords[o]
		switch x.state {
		case c21Free:
			if idx != nil {
				return fmt.Sprintf("ordinal %d: model free, block has it allocated/cooling", o)
			}
		case c21Alloc:
			if idx == nil {
				return fmt.Sprintf("ordinal %d: model allocated to %s, block has it free", o, x.handle)
			}
			a := b.Attributes[*idx]
			if a.ReleasedAt != nil {
				return fmt.Sprintf("ordinal %d: model allocated to %s, block has it released (cooling)", o, x.handle)
			}
			if (a.HandleID == nil) != (x.handle == "") || (a.HandleID != nil && c21Canon(*a.HandleID) != x.handle) {
				return fmt.Sprintf("ordinal %d: model allocated to %s, block attributes it to %v", o, x.handle, a.HandleID)
			}
		case c21Cooling:
			if idx == nil {
				if m.timingDependent(o) {
					continue // the wall clock decided
				}
				return fmt.Sprintf("ordinal %d: released %ds ago with cooldown %ds, but the block already has it on the free list", o, x.age, m.cooldown)
			}
			if b.Attributes[*idx].ReleasedAt == nil {
				return fmt.Sprintf("ordinal %d: model cooling, block has it allocated", o)
			}
		}
	}
	// free list = concatenation of the batches, each in any order; ordinals whose freeing pass is
	// unknown (loose) are left out of the order comparison
	var free []int
	for _, o := range b.Unallocated {
		if !m.loose[o] {
			free = append(free, o)
		}
	}
	i := 0
	for _, batch := range m.queue {
		want := map[int]bool{}
		n := 0
		for _, o := range batch {
			if !m.loose[o] {
				want[o] = true
				n++
			}
		}
		for k := 0; k < n; k++ {
			if i >= len(free) {
				return fmt.Sprintf("free list %v shorter than model queue %v (loose %v)", b.Unallocated, m.queue, m.loose)
			}
			if !want[free[i]] {
				return fmt.Sprintf("free list %v does not follow the FIFO batches %v (position %d, loose %v)", b.Unallocated, m.queue, i, m.loose)
			}
			delete(want, free[i])
			i++
		}
	}
	if i != len(free) {
		return fmt.Sprintf("free list %v longer than model queue %v (loose %v)", b.Unallocated, m.queue, m.loose)
	}
	return ""
}

// ---------------------------------------------------------------------------------------
// generated requests (shared by both drivers)

type c21Req struct {
	kind   string // assign | assignIP | release | releaseByHandle | advance
	n      int    // assign: how many
	handle string // canonical handle ("" = none)
	stored string // assign: the handle string as stored (may be a malformed form of handle)
	ord    int
	rel    []c21RelOpt
	seq    *uint64 // releaseByHandle
	dt     int
}

type c21RelOpt struct {
	ord    int
	handle string
	seq    *uint64
	class  string // right | bare | stale-seq | wrong-handle | stale-alloc | not-allocated
}

// Handle vocabulary: h1 is a proper prefix of h10 (like vxlan-tunnel-addr-node1 / ...node10), so
// that handles with a prefix relation share the block.
var c21Handles = []string{"h1", "h10", "h2"}

// c21Canon is the identity of a stored handle: malformed handles written by an old migration
// carry "\r<junk>" after the real handle (what the library's sanitizeHandle strips).
func c21Canon(stored string) string { return strings.Split(stored, "\r")[0] }

// c21AssignHandles: a quarter of the assignments carry no handle ("" = nil HandleID; optional in
// the API, used for old tunnel / host addresses and by tools).
// The last entry is such a malformed stored form of h1 (used by the block-level driver only; the
// client driver stores the canonical handle).
var c21AssignHandles = []string{"h1", "h10", "h2", "", "h1\rjunk"}

func c21HandlePtr(h string) *string {
	if h == "" {
		return nil
	}
	return &h
}

func c21DrawReq(t *rapid.T, m *c21Model) c21Req {
	k := rapid.IntRange(0, 11).Draw(t, "op")
	switch {
	case k <= 3:
		st := rapid.SampledFrom(c21AssignHandles).Draw(t, "handle")
		return c21Req{kind: "assign", n: rapid.IntRange(1, 2).Draw(t, "n"), handle: c21Canon(st), stored: st}
	case k == 4:
		st := rapid.SampledFrom(c21AssignHandles).Draw(t, "handle")
		return c21Req{kind: "assignIP", ord: rapid.IntRange(0, c21N-1).Draw(t, "ord"), handle: c21Canon(st), stored: st}
	case k <= 8:
		r := c21Req{kind: "release"}
		n := rapid.IntRange(1, 3).Draw(t, "nrel")
		used := map[int]bool{}
		for i := 0; i < n; i++ {
			var o c21RelOpt
			// prefer a replay of a past allocation of an ordinal that has since been re-allocated (ABA)
			var aba []c21Stale
			for _, p := range m.past {
				x := m.ords[p.ord]
				if x.state == c21Alloc && x.seq != p.seq {
					aba = append(aba, p)
				}
			}
			mode := rapid.IntRange(0, 9).Draw(t, "relmode")
			if mode <= 5 && len(aba) > 0 {
				p := rapid.SampledFrom(aba).Draw(t, "aba")
				o = c21RelOpt{ord: p.ord, class: "stale-alloc"}
				sq := p.seq
				switch rapid.IntRange(0, 2).Draw(t, "abaHow") {
				case 0:
					o.seq = &sq
				case 1:
					o.seq, o.handle = &sq, p.handle
				case 2:
					o.handle = p.handle
					if m.ords[p.ord].handle == p.handle {
						o.seq = &sq // same handle re-used: only the sequence number tells them apart
					}
				}
			} else {
				o.ord = rapid.IntRange(0, c21N-1).Draw(t, "ord")
				x := m.ords[o.ord]
				if x.state != c21Alloc {
					o.class = "not-allocated"
					if rapid.Bool().Draw(t, "withHandle") {
						o.handle = rapid.SampledFrom(c21Handles).Draw(t, "handle")
					}
				} else {
					switch rapid.IntRange(0, 5).Draw(t, "how") {
					case 0:
						o.class = "bare"
					case 1, 2:
						o.class, o.handle = "right", x.handle
						sq := x.seq
						o.seq = &sq
					case 3:
						o.class, o.handle = "right", x.handle
					case 4:
						o.class = "wrong-handle"
						for _, h := range c21Handles {
							if h != x.handle {
								o.handle = h
							}
						}
					case 5:
						o.class = "stale-seq"
						sq := x.seq + uint64(rapid.IntRange(1, 3).Draw(t, "seqOff"))
						if rapid.Bool().Draw(t, "older") && x.seq > 3 {
							sq = x.seq - uint64(rapid.IntRange(1, 3).Draw(t, "seqOff"))
						}
						o.seq = &sq
					}
				}
			}
			if used[o.ord] {
				continue
			}
			used[o.ord] = true
			r.rel = append(r.rel, o)
		}
		return r
	case k == 9:
		return c21Req{kind: "releaseByHandle", handle: rapid.SampledFrom(c21Handles).Draw(t, "handle")}
	default:
		return c21Req{kind: "advance", dt: rapid.SampledFrom([]int{1, 4, 9, 35, 70}).Draw(t, "dt")}
	}
}

func (r c21Req) String() string {
	switch r.kind {
	case "assign":
		return fmt.Sprintf("autoAssign(%d,%s)", r.n, r.handle)
	case "assignIP":
		return fmt.Sprintf("assign(ord %d,%s)", r.ord, r.handle)
	case "release":
		var s []string
		for _, o := range r.rel {
			q := "-"
			if o.seq != nil {
				q = fmt.Sprint(*o.seq)
			}
			s = append(s, fmt.Sprintf("{ord %d h=%q seq=%s %s}", o.ord, o.handle, q, o.class))
		}
		return "release(" + strings.Join(s, " ") + ")"
	case "releaseByHandle":
		return "releaseByHandle(" + r.handle + ")"
	}
	return fmt.Sprintf("advance(%ds)", r.dt)
}

// c21Exec abstracts the two drivers.
type c21Exec interface {
	// load returns the current persisted block after the garbage collection a load performs
	// (nil if it does not exist yet).
	block() *model.AllocationBlock
	// rawHandles: the driver stores handle strings as given (including malformed forms).
	rawHandles() bool
	// raw returns the persisted block as it is (no garbage collection).
	raw() *model.AllocationBlock
	assign(n int, handle string) (ords []int, err error)
	assignIP(ord int, handle string) error
	release(opts []c21RelOpt) (unallocated []int, err error)
	releaseByHandle(handle string) (n int, err error) // n<0: count unknown
	advance(seconds int)
}

func c21RunHistory(t *rapid.T, rec *ev.Recorder, ex c21Exec, m *c21Model, nOps int) {
	var log []string
	classes := map[string]bool{}
	aba := false
	fail := func(format string, args ...any) {
		blk := "<none>"
		if b := ex.block(); b != nil {
			blk = c21BlockString(b)
		}
		t.Fatalf("C21 VIOLATION: %s\nhistory:\n  %s\nmodel:%s\nblock:%s", fmt.Sprintf(format, args...), strings.Join(log, "\n  "), m, blk)
	}
	isFreeIn := func(b *model.AllocationBlock) func(int) bool {
		return func(o int) bool { return b != nil && b.Allocations[o] == nil }
	}
	isFree := func(o int) bool { return isFreeIn(ex.block())(o) }
	// The block as a reader sees it is the persisted block after a garbage-collection pass, so
	// compare it with the model after a (tentative) pass.
	check := func(when string) {
		b := ex.block()
		if b == nil {
			return
		}
		v := m.clone()
		v.gc(isFreeIn(b))
		if d := v.compare(b); d != "" {
			fail("%s: %s", when, d)
		}
	}
	var shape []string
	for i := 0; i < nOps; i++ {
		r := c21DrawReq(t, m)
		// Every operation loads the block, which garbage-collects; the pass only becomes part of
		// the persisted block (and of the FIFO order) if the operation writes the block.
		saved := m.clone()
		persisted := false
		if r.kind != "advance" {
			m.gc(isFree)
		}
		switch r.kind {
		case "assign":
			sh := r.handle
			if ex.rawHandles() {
				sh = r.stored
				if sh != r.handle {
					classes["malformed-stored-handle"] = true
				}
			}
			ords, err := ex.assign(r.n, sh)
			log = append(log, fmt.Sprintf("#%d %s -> ordinals %v err=%v", i, r, ords, err))
			amb := 0
			for o := 0; o < c21N; o++ {
				if m.timingDependent(o) {
					amb++
				}
			}
			if len(ords) < min(r.n, m.numFree()) || len(ords) > min(r.n, m.numFree()+amb) {
				fail("autoAssign(%d): %d addresses free in the model (+%d timing dependent), got %d", r.n, m.numFree(), amb, len(ords))
			}
			b := ex.block()
			for _, o := range ords {
				if m.timingDependent(o) || (m.loose[o] && m.ords[o].state == c21Free) {
					// the wall clock decided when it was freed; its place in the FIFO is unknown
					m.remove(o)
					m.loose[o] = false
					m.ords[o] = c21Ord{state: c21Alloc, handle: r.handle, seq: b.GetSequenceNumberForOrdinal(o)}
					classes["timing-dependent-handout"] = true
					continue
				}
				if m.ords[o].state == c21Cooling {
					fail("autoAssign handed out ordinal %d which was released %ds ago (cooldown %ds)", o, m.ords[o].age, m.cooldown)
				}
				if m.ords[o].state == c21Alloc {
					fail("autoAssign handed out ordinal %d which is allocated to %s", o, m.ords[o].handle)
				}
				if !m.take(o) {
					fail("autoAssign handed out ordinal %d which is not at the head of the free FIFO %v (longest-free first)", o, m.queue)
				}
				m.ords[o] = c21Ord{state: c21Alloc, handle: r.handle, seq: b.GetSequenceNumberForOrdinal(o)}
				m.loose[o] = false
			}
			if len(ords) > 0 && len(m.queue) > 1 {
				classes["fifo-multi-batch"] = true
			}
			persisted = len(ords) > 0
			shape = append(shape, fmt.Sprintf("a%d", len(ords)))
		case "assignIP":
			sh := r.handle
			if ex.rawHandles() {
				sh = r.stored
			}
			err := ex.assignIP(r.ord, sh)
			log = append(log, fmt.Sprintf("#%d %s err=%v", i, r, err))
			x := m.ords[r.ord]
			if x.state == c21Free {
				if err != nil {
					fail("assign of free ordinal %d failed: %v", r.ord, err)
				}
				m.remove(r.ord)
				m.loose[r.ord] = false
				m.ords[r.ord] = c21Ord{state: c21Alloc, handle: r.handle, seq: ex.block().GetSequenceNumberForOrdinal(r.ord)}
				persisted = true
			} else if err == nil && m.timingDependent(r.ord) {
				m.loose[r.ord] = false
				m.ords[r.ord] = c21Ord{state: c21Alloc, handle: r.handle, seq: ex.block().GetSequenceNumberForOrdinal(r.ord)}
				persisted = true
			} else if err == nil {
				if x.state == c21Cooling {
					fail("assign of ordinal %d succeeded although it was released %ds ago (cooldown %ds)", r.ord, x.age, m.cooldown)
				}
				fail("assign of ordinal %d succeeded although it is allocated to %s", r.ord, x.handle)
			}
			shape = append(shape, "i")
		case "release":
			// reference: the whole request is refused if any option is stale / names another handle
			refuse := false
			for _, o := range r.rel {
				x := m.ords[o.ord]
				storedSeq := uint64(0)
				if b := ex.block(); b != nil {
					storedSeq = b.GetSequenceNumberForOrdinal(o.ord)
				}
				if o.seq != nil && x.state == c21Alloc && *o.seq != x.seq {
					refuse = true
				}
				if o.seq != nil && x.state != c21Alloc && *o.seq != storedSeq {
					refuse = true // nothing to free anyway; the library reports the mismatch
				}
				if o.handle != "" && x.state == c21Alloc && o.handle != x.handle {
					refuse = true
				}
				classes["rel-"+o.class] = true
				if o.class == "stale-alloc" {
					aba = true
				}
				if x.state == c21Alloc && x.handle == "" && o.handle != "" {
					classes["rel-names-handle-for-handleless-address"] = true
				}
			}
			if len(r.rel) > 1 {
				withH, withoutH := false, false
				for _, o := range r.rel {
					if x := m.ords[o.ord]; x.state == c21Alloc {
						if x.handle == "" {
							withoutH = true
						} else {
							withH = true
						}
					}
				}
				if withH && withoutH {
					classes["multi-release-mixing-handled-and-handleless"] = true
				}
			}
			// Only the live allocations are compared around a refused release: whether a
			// cooling address is freed by the garbage collection that every load performs
			// depends on the wall clock (and the statement only says that the refused release
			// frees nothing that is allocated).
			before := ""
			if b := ex.block(); b != nil {
				before = c21AllocString(b)
			}
			unalloc, err := ex.release(r.rel)
			log = append(log, fmt.Sprintf("#%d %s -> unallocated %v err=%v", i, r, unalloc, err))
			if refuse {
				if err == nil {
					// which options were stale?
					fail("release with a stale sequence number / different handle was accepted")
				}
				if b := ex.block(); b != nil && c21AllocString(b) != before {
					fail("refused release changed the block's live allocations:\n before:%s\n after: %s", before, c21AllocString(b))
				}
			} else {
				if err != nil {
					fail("release of valid / bare options failed: %v", err)
				}
				un := map[int]bool{}
				for _, o := range unalloc {
					un[o] = true
				}
				for _, o := range r.rel {
					x := &m.ords[o.ord]
					if x.state == c21Alloc {
						if un[o.ord] {
							fail("release reported allocated ordinal %d (handle %s) as unallocated", o.ord, x.handle)
						}
						m.past = append(m.past, c21Stale{ord: o.ord, handle: x.handle, seq: x.seq})
						*x = c21Ord{state: c21Cooling}
						persisted = true
					} else {
						if !un[o.ord] {
							fail("release of ordinal %d, which is not allocated, was not reported as unallocated", o.ord)
						}
						classes["double-or-idle-release"] = true
					}
				}
				if persisted {
					m.gc(isFree) // release garbage-collects again before it persists
				}
			}
			shape = append(shape, "r")
		case "releaseByHandle":
			var mine []int
			for o, x := range m.ords {
				if x.state == c21Alloc && x.handle == r.handle {
					mine = append(mine, o)
				}
			}
			held := map[string]bool{}
			for _, x := range m.ords {
				if x.state == c21Alloc {
					held[x.handle] = true
				}
			}
			if held["h1"] && held["h10"] {
				classes["release-by-handle-with-prefix-related-handles-in-block"] = true
			}
			n, err := ex.releaseByHandle(r.handle)
			log = append(log, fmt.Sprintf("#%d %s -> %d err=%v (model: ordinals %v)", i, r, n, err, mine))
			if n >= 0 && n != len(mine) {
				fail("releaseByHandle(%s) released %d addresses, the handle has %d", r.handle, n, len(mine))
			}
			for _, o := range mine {
				m.past = append(m.past, c21Stale{ord: o, handle: r.handle, seq: m.ords[o].seq})
				m.ords[o] = c21Ord{state: c21Cooling}
			}
			if len(mine) > 0 {
				m.gc(isFree)
				classes["release-by-handle"] = true
				persisted = true
			}
			shape = append(shape, fmt.Sprintf("h%d", len(mine)))
		case "advance":
			ex.advance(r.dt)
			for o := range m.ords {
				if m.ords[o].state == c21Cooling {
					m.ords[o].age += r.dt
					classes["time-advanced-while-cooling"] = true
					if m.timingDependent(o) {
						m.loose[o] = true
						classes["timing-dependent"] = true
					}
				}
			}
			log = append(log, fmt.Sprintf("#%d %s", i, r))
			shape = append(shape, "t")
			continue // nothing loaded the block: no garbage collection to mirror
		}
		if !persisted {
			// nothing was written: the load's garbage collection was discarded with the copy
			past := m.past
			m = saved
			m.past = past
		}
		check(fmt.Sprintf("after #%d %s", i, r))
	}
	if m.cooldown > 0 {
		classes["cooldown"] = true
	}
	var cls []string
	for c := range classes {
		cls = append(cls, c)
	}
	sort.Strings(cls)
	rec.SizedCase(aba, fmt.Sprintf("c%d/", m.cooldown)+strings.Join(shape, ""), len(log), func() any {
		return map[string]any{"cooldown": m.cooldown, "history": log}
	}, cls...)
}

// ---------------------------------------------------------------------------------------
// block-level driver

type c21BlockExec struct {
	b   allocationBlock
	cfg *IPAMConfig
	aff AffinityConfig
}

func (e *c21BlockExec) load() allocationBlock {
	// blockFromBackend garbage-collects a freshly parsed copy on every read.
	return blockFromBackend(e.cfg, e.b.AllocationBlock.Clone())
}

func (e *c21BlockExec) persist(nb allocationBlock) {
	nb.SequenceNumber++ // updateBlock
	e.b = nb
}

func (e *c21BlockExec) block() *model.AllocationBlock { return e.load().AllocationBlock }
func (e *c21BlockExec) raw() *model.AllocationBlock   { return e.b.AllocationBlock }
func (e *c21BlockExec) rawHandles() bool              { return true }

func (e *c21BlockExec) assign(n int, handle string) ([]int, error) {
	nb := e.load()
	ips, err := nb.autoAssign(n, c21HandlePtr(handle), e.aff, nil, false, nilAddrFilter{})
	if err != nil || len(ips) == 0 {
		return nil, err
	}
	var ords []int
	for _, ip := range ips {
		o, _ := nb.IPToOrdinal(cnet.IP{IP: ip.IP})
		ords = append(ords, o)
	}
	e.persist(nb)
	return ords, nil
}

func (e *c21BlockExec) assignIP(ord int, handle string) error {
	nb := e.load()
	if err := nb.assign(false, nb.OrdinalToIP(ord), c21HandlePtr(handle), nil, e.aff); err != nil {
		return err
	}
	e.persist(nb)
	return nil
}

func (e *c21BlockExec) release(opts []c21RelOpt) ([]int, error) {
	nb := e.load()
	var ro []ReleaseOptions
	for _, o := range opts {
		ro = append(ro, ReleaseOptions{Address: nb.OrdinalToIP(o.ord).String(), Handle: o.handle, SequenceNumber: o.seq})
	}
	un, _, err := nb.release(e.cfg, ro)
	if err != nil {
		return nil, err
	}
	var out []int
	for _, ip := range un {
		o, _ := nb.IPToOrdinal(ip)
		out = append(out, o)
	}
	if len(un) != len(ro) {
		e.persist(nb) // the client writes only when something was released
	}
	return out, nil
}

func (e *c21BlockExec) releaseByHandle(handle string) (int, error) {
	nb := e.load()
	n := nb.releaseByHandle(e.cfg, ReleaseOptions{Handle: handle})
	if n > 0 {
		e.persist(nb)
	}
	return n, nil
}

func (e *c21BlockExec) advance(seconds int) {
	c21ShiftReleasedAt(e.b.AllocationBlock, seconds)
}

func c21ShiftReleasedAt(b *model.AllocationBlock, seconds int) {
	for i := range b.Attributes {
		if b.Attributes[i].ReleasedAt != nil {
			nt := metav1.NewTime(b.Attributes[i].ReleasedAt.Add(-time.Duration(seconds) * time.Second))
			b.Attributes[i].ReleasedAt = &nt
		}
	}
}

func TestVerifC21Block(t *testing.T) {
	ev.Quiet()
	rec := ev.New("C21", "block",
		"histories of 8-30 operations on one allocationBlock (10.0.0.0/29): autoAssign 1-2, assign of a specific ordinal, release with right / bare / stale-sequence / wrong-handle / stale-allocation (ABA) / not-allocated options, releaseByHandle, time advances; cooldown 0, 10 or 60 s; applied load-mutate-persist like the client. Non-trivial = a release replayed the handle and/or sequence number of an earlier allocation of an ordinal that has since been re-allocated (ABA); distinct = distinct (cooldown, operation-kind sequence)",
		"reference block model in the harness; persist is emulated as SequenceNumber++ (what updateBlock does)",
		"time is advanced by moving persisted ReleasedAt values into the past; age == cooldown is treated as timing dependent")
	defer rec.Write()
	rapid.Check(t, func(t *rapid.T) {
		cooldown := rapid.SampledFrom([]int{0, 0, 10, 60}).Draw(t, "cooldown")
		host := "n1"
		e := &c21BlockExec{cfg: &IPAMConfig{AutoAllocateBlocks: true, IPCooldownSeconds: cooldown},
			aff: AffinityConfig{AffinityType: AffinityTypeHost, Host: host}}
		e.b = newBlock(cnet.MustParseCIDR("10.0.0.0/29"), nil)
		e.b.SequenceNumber = 1000 // deterministic instead of the wall clock
		aff := "host:" + host
		e.b.Affinity = &aff
		m := c21NewModel(cooldown, 0)
		c21RunHistory(t, rec, e, m, rapid.IntRange(8, ev.Scale(30, 60)).Draw(t, "nOps"))
	})
}

// ---------------------------------------------------------------------------------------
// full-client driver

type c21Pools struct{ pool v3.IPPool }

func (p c21Pools) GetEnabledPools(ctx context.Context, v int) ([]v3.IPPool, error) {
	if v != 4 {
		return nil, nil
	}
	return []v3.IPPool{p.pool}, nil
}
func (p c21Pools) GetAllPools(ctx context.Context) ([]v3.IPPool, error) { return []v3.IPPool{p.pool}, nil }

type c21NoReservations struct{}

func (c21NoReservations) List(ctx context.Context, opts options.ListOptions) (*v3.IPReservationList, error) {
	return &v3.IPReservationList{}, nil
}

type c21ClientExec struct {
	t     *rapid.T
	store *memds.Store
	ic    Interface
	cidr  cnet.IPNet
	key   model.BlockKey
	cfg   *IPAMConfig
}

func (e *c21ClientExec) block() *model.AllocationBlock {
	kv, err := e.store.Read(e.key)
	if err != nil {
		return nil
	}
	return blockFromBackend(e.cfg, kv.Value.(*model.AllocationBlock)).AllocationBlock
}

func (e *c21ClientExec) rawHandles() bool { return false }

func (e *c21ClientExec) raw() *model.AllocationBlock {
	kv, err := e.store.Read(e.key)
	if err != nil {
		return nil
	}
	return kv.Value.(*model.AllocationBlock)
}

func (e *c21ClientExec) ord(ip cnet.IP) int {
	b := model.AllocationBlock{CIDR: e.cidr}
	o, err := b.IPToOrdinal(ip)
	if err != nil {
		e.t.Fatalf("C21 VIOLATION: address %s outside the only block %s", ip, e.cidr)
	}
	return o
}

func (e *c21ClientExec) ip(ord int) cnet.IP { return e.cidr.NthIP(ord) }

func (e *c21ClientExec) assign(n int, handle string) ([]int, error) {
	v4, _, err := e.ic.AutoAssign(context.Background(), AutoAssignArgs{Num4: n, HandleID: c21HandlePtr(handle), Hostname: "n1", IntendedUse: v3.IPPoolAllowedUseWorkload})
	var ords []int
	if v4 != nil {
		for _, ipn := range v4.IPs {
			ords = append(ords, e.ord(cnet.IP{IP: ipn.IP}))
		}
	}
	return ords, err
}

func (e *c21ClientExec) assignIP(ord int, handle string) error {
	return e.ic.AssignIP(context.Background(), AssignIPArgs{IP: e.ip(ord), HandleID: c21HandlePtr(handle), Hostname: "n1"})
}

func (e *c21ClientExec) release(opts []c21RelOpt) ([]int, error) {
	var ro []ReleaseOptions
	for _, o := range opts {
		ro = append(ro, ReleaseOptions{Address: e.ip(o.ord).String(), Handle: o.handle, SequenceNumber: o.seq})
	}
	un, _, err := e.ic.ReleaseIPs(context.Background(), ro...)
	var out []int
	for _, ip := range un {
		out = append(out, e.ord(ip))
	}
	return out, err
}

func (e *c21ClientExec) releaseByHandle(handle string) (int, error) {
	err := e.ic.ReleaseByHandle(context.Background(), handle)
	return -1, err
}

func (e *c21ClientExec) advance(seconds int) {
	_ = e.store.Mutate(e.key, func(v any) any {
		b := v.(*model.AllocationBlock)
		c21ShiftReleasedAt(b, seconds)
		return b
	})
}

func TestVerifC21Client(t *testing.T) {
	ev.Quiet()
	rec := ev.New("C21", "client",
		"the same generated histories through the full IPAM client (AutoAssign, AssignIP, ReleaseIPs with handle / sequence number, ReleaseByHandle) on verifkit/memds: one host, pool 10.0.0.0/29 = one block, IPCooldownSeconds 0, 10 or 60; time advances shift the persisted ReleasedAt. Non-trivial = ABA release (as in the block unit); distinct = distinct (cooldown, operation-kind sequence)",
		"persisted ReleasedAt has second granularity (JSON) and the machine may stall, so ages in [cooldown-3, cooldown] are treated as timing dependent (state and FIFO position of such ordinals are not asserted)")
	defer rec.Write()
	rapid.Check(t, func(t *rapid.T) {
		cooldown := rapid.SampledFrom([]int{0, 0, 10, 60}).Draw(t, "cooldown")
		store := memds.NewStore()
		cl := store.Client()
		auto := v3.Automatic
		pool := v3.IPPool{ObjectMeta: metav1.ObjectMeta{Name: "p"}, Spec: v3.IPPoolSpec{CIDR: "10.0.0.0/29", BlockSize: 29,
			AllowedUses: []v3.IPPoolAllowedUse{v3.IPPoolAllowedUseWorkload}, AssignmentMode: &auto}}
		ctx := context.Background()
		if _, err := cl.Apply(ctx, &model.KVPair{Key: model.ResourceKey{Name: "n1", Kind: internalapi.KindNode},
			Value: &internalapi.Node{ObjectMeta: metav1.ObjectMeta{Name: "n1"}}}); err != nil {
			t.Fatalf("HARNESS-GAP: %v", err)
		}
		if _, err := cl.Apply(ctx, &model.KVPair{Key: model.IPAMConfigKey{}, Value: &model.IPAMConfig{AutoAllocateBlocks: true, IPCooldownSeconds: cooldown}}); err != nil {
			t.Fatalf("HARNESS-GAP: %v", err)
		}
		cidr := cnet.MustParseCIDR("10.0.0.0/29")
		e := &c21ClientExec{t: t, store: store, ic: NewIPAMClient(cl, c21Pools{pool}, c21NoReservations{}), cidr: cidr,
			key: model.BlockKey{CIDR: model.PrefixFromIPNet(cidr)}, cfg: &IPAMConfig{AutoAllocateBlocks: true, IPCooldownSeconds: cooldown}}
		// Claim the block up front so that it exists (and stays: it keeps its affinity) for the whole history.
		if _, _, err := e.ic.ClaimAffinity(ctx, cidr, AffinityConfig{AffinityType: AffinityTypeHost, Host: "n1"}); err != nil {
			t.Fatalf("HARNESS-GAP: %v", err)
		}
		m := c21NewModel(cooldown, 3)
		c21RunHistory(t, rec, e, m, rapid.IntRange(8, ev.Scale(24, 50)).Draw(t, "nOps"))
	})
}
