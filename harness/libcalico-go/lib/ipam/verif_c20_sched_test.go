package ipam_test

// C20, concurrent half - "with strict affinity no address comes from a block affine to another
// host ... and requests fail rather than violate these limits" under concurrency.
//
// Same stack as C19/C22 (real IPAM client, verifkit/memds, owned step schedule, per-call faults):
// three hosts with StrictAffinity on share small pools, so blocks are emptied, released, reclaimed
// (generated time advances make empty blocks reclaimable) and re-claimed by another host while a
// host is between reading one of "its" blocks and writing the assignment.  The schedule is drawn
// in bursts (one operation runs several calls in a row) so that a whole release + re-claim fits
// into another operation's read-to-write window.
//
// Oracle, per committed block write: every ordinal that becomes allocated in that write belongs to
// a block whose Affinity, in the very version being written, is the allocating host - the host
// the AutoAssign / AssignIP was issued for, which is also what the allocation's node attribute
// says.  And every address a completed AutoAssign returns was recorded by such a write.

import (
	"fmt"
	"sort"
	"strings"
	"testing"
	"time"

	v3 "github.com/projectcalico/api/pkg/apis/projectcalico/v3"
	metav1 "k8s.io/apimachinery/pkg/apis/meta/v1"
	"pgregory.net/rapid"

	"github.com/projectcalico/calico/libcalico-go/lib/backend/model"
	"github.com/projectcalico/calico/verifkit/ev"
	"github.com/projectcalico/calico/verifkit/memds"
)

var c20SchedMix = [c19NumKinds]int{
	c19AutoAssign: 38, c19AssignIP: 3, c19ReleaseIPs: 9, c19ReleaseByHandle: 9,
	c19ClaimAffinity: 16, c19ReleaseAffinity: 13, c19ReleaseHostAffinities: 10, c19RemoveIPAMHost: 2,
}

func c20LiveOrdinals(b *model.AllocationBlock) map[int]bool {
	out := map[int]bool{}
	if b == nil {
		return out
	}
	for o, idx := range b.Allocations {
		if idx != nil && *idx < len(b.Attributes) && b.Attributes[*idx].ReleasedAt == nil {
			out[o] = true
		}
	}
	return out
}

func c20SchedCase(t *rapid.T, rec *ev.Recorder, opsPerClient int) {
	hosts := []string{"n1", "n2", "n3"}
	clHost := []string{"n1", "n2", "n3"}
	if rapid.IntRange(0, 5).Draw(t, "sharedHost") == 0 {
		clHost[2] = clHost[rapid.IntRange(0, 1).Draw(t, "which")]
	}
	pool4 := []string{"10.0.0.0/29", "10.0.0.0/29", c19PoolV4}[rapid.IntRange(0, 2).Draw(t, "pool4")]
	w := c19NewWorld([]v3.IPPool{c19Pool("pool4", pool4, 30), c19Pool("pool6", c19PoolV6, 126)}, nil)
	for _, h := range hosts {
		w.addNode(h, nil)
	}
	cfg := model.IPAMConfig{StrictAffinity: true, AutoAllocateBlocks: true, MaxBlocksPerHost: rapid.IntRange(0, 2).Draw(t, "maxBlocksPerHost")}
	w.setConfig(cfg)

	gen := &c19Scenario{t: t, w: w, hosts: hosts, clHost: clHost, strict: true, mix: c20SchedMix, classes: map[string]bool{}, knownHits: map[string]int{}, wholePool: 3, pool4: pool4,
		model: c19Model{live: map[string]c19Owner{}}, v4: c19PoolAddrs(pool4), v6: c19PoolAddrs(c19PoolV6),
		blocks4: c19BlockCIDRs(pool4, 30), blocks6: c19BlockCIDRs(c19PoolV6, 126)[:2]}
	r := c19NewRunner(t, w, c19FaultWeights{Conflict: 15, Error: 3, CrashBefore: 2, CrashAfter: 2, MaxCrashes: 2})
	gen.r = r
	classes := map[string]bool{}
	fail := func(format string, args ...any) {
		t.Fatalf("C20 VIOLATION: %s\n%s", fmt.Sprintf(format, args...), r.explain())
	}

	// burst scheduling: stay with one operation for a drawn number of calls
	var burstOp *memds.Op
	burstLeft := 0
	r.pickHook = func(calls []*memds.Call) int {
		if burstLeft > 0 {
			for i, c := range calls {
				if c.Op == burstOp {
					burstLeft--
					return i
				}
			}
		}
		i := 0
		if len(calls) > 1 {
			i = rapid.IntRange(0, len(calls)-1).Draw(t, "pick")
		}
		burstOp = calls[i].Op
		burstLeft = []int{0, 0, 1, 2, 4, 8, 14, 20}[rapid.IntRange(0, 7).Draw(t, "burst")]
		return i
	}

	// per block CIDR: affinities seen over time; per address: the write that recorded it
	owners := map[string][]string{}
	recordedOK := map[string]bool{} // "opID|addr"
	r.onStep = func(evs []memds.WriteEvent) {
		for _, e := range evs {
			if _, ok := e.Key.(model.BlockKey); !ok {
				continue
			}
			newB, _ := e.New.(*model.AllocationBlock)
			oldB, _ := e.Old.(*model.AllocationBlock)
			if newB == nil {
				continue
			}
			aff := ""
			if newB.Affinity != nil {
				aff = *newB.Affinity
			}
			cidr := newB.CIDR.String()
			if n := len(owners[cidr]); aff != "" && (n == 0 || owners[cidr][n-1] != aff) {
				owners[cidr] = append(owners[cidr], aff)
				if len(owners[cidr]) > 1 {
					classes["block-changed-hands"] = true
				}
			}
			o := r.byOp[e.Op]
			if o == nil || (o.Kind != c19AutoAssign && o.Kind != c19AssignIP) {
				continue
			}
			was := c20LiveOrdinals(oldB)
			for ord := range c20LiveOrdinals(newB) {
				if was[ord] {
					continue
				}
				addr := newB.OrdinalToIP(ord).String()
				if aff != "host:"+o.Host {
					fail("strict affinity: step %d: %s recorded address %s (ordinal %d) in block %s whose affinity in that very write is %q, not host:%s; affinities this block has had: %v",
						r.step, o, addr, ord, cidr, aff, o.Host, owners[cidr])
				}
				recordedOK[o.ID+"|"+addr] = true
				classes["strict-allocation-checked"] = true
				if len(owners[cidr]) > 1 {
					classes["allocation-into-block-that-changed-hands"] = true
				}
				// did this operation lose a compare-and-swap on this block before?
				for _, c := range r.sched.Trace() {
					if strings.HasPrefix(c.ID, o.ID+"|") && strings.Contains(c.ID, "|Update|") && strings.HasSuffix(c.ID, strings.Replace(cidr, "/", "-", 1)) &&
						(c.Result == "conflict" || c.Result == "injected-conflict") {
						classes["allocation-after-cas-conflict-on-block"] = true
					}
				}
			}
		}
	}
	r.onFinish = func(o *c19Op) {
		if o.crashed {
			return
		}
		switch o.Kind {
		case c19AutoAssign, c19AssignIP:
			for _, a := range o.IPs {
				if !recordedOK[o.ID+"|"+a] {
					fail("%s returned %s but no block write of this operation recorded it in a block affine to host:%s", o, a, o.Host)
				}
				ow := c19Owner{opID: o.ID, sinceStep: r.step}
				if o.Handle != nil {
					ow.handle, ow.hasHandle = *o.Handle, true
				}
				gen.model.live[a] = ow
			}
			if o.Kind == c19AutoAssign && len(o.IPs) < o.Num4+o.Num6 {
				classes["request-failed-or-partial"] = true
			}
		case c19ReleaseIPs:
			for _, a := range o.Released {
				delete(gen.model.live, a)
			}
		case c19ReleaseByHandle:
			for a, ow := range gen.model.live {
				if ow.hasHandle && ow.handle == *o.Handle {
					delete(gen.model.live, a)
				}
			}
		}
	}
	defer r.shutdown()

	advance := func() {
		bl, err := w.store.ReadList(model.BlockListOptions{})
		if err != nil {
			t.Fatalf("HARNESS-GAP: %v", err)
		}
		for _, kv := range bl.KVPairs {
			_ = w.store.Mutate(kv.Key, func(v any) any {
				b := v.(*model.AllocationBlock)
				if b.AffinityClaimTime != nil {
					nt := metav1.NewTime(b.AffinityClaimTime.Add(-2 * time.Minute))
					b.AffinityClaimTime = &nt
				}
				return b
			})
		}
	}

	nOps := make([]int, 3)
	for i := range nOps {
		nOps[i] = rapid.IntRange(3, opsPerClient).Draw(t, fmt.Sprintf("client%dOps", i))
	}
	started := make([]int, 3)
	cur := make([]*c19Op, 3)
	var kinds []string
	startIdle := func() bool {
		any := false
		for c := 0; c < 3; c++ {
			if (cur[c] == nil || cur[c].finished) && started[c] < nOps[c] {
				if rapid.IntRange(0, 2).Draw(t, "advanceTime") == 0 {
					advance() // empty blocks older than EmptyBlockMinReclaimAge may be reclaimed
					classes["time-advanced"] = true
				}
				o := gen.drawOp(t, c, fmt.Sprintf("c%d.%02d", c, started[c]))
				started[c]++
				cur[c] = o
				kinds = append(kinds, c19KindLetters[o.Kind])
				r.start(o)
				any = true
			}
		}
		return any
	}
	for {
		startIdle()
		calls := r.settle()
		if startIdle() {
			continue
		}
		if len(calls) == 0 {
			if n := len(r.inFlight()); n > 0 {
				t.Fatalf("HARNESS-GAP: %d operations neither finished nor parked (deadlock)\n%s\n%s", n, r.sched.DebugState(), r.explain())
			}
			break
		}
		if r.step > 4000 {
			t.Fatalf("HARNESS-GAP: more than 4000 scheduling steps\n%s", r.explain())
		}
		r.stepOnce(calls)
	}

	if pool4 != c19PoolV4 {
		classes["two-block-pool"] = true
	}
	for k, n := range r.injected {
		if n > 0 {
			classes["fault-"+k] = true
		}
	}
	var cls []string
	for c := range classes {
		cls = append(cls, c)
	}
	sort.Strings(cls)
	nontrivial := classes["block-changed-hands"] && classes["strict-allocation-checked"]
	tr := r.sched.Trace()
	rec.SizedCase(nontrivial, strings.Join(kinds, "")+"/"+strings.Join(cls, ","), len(tr), func() any {
		var ops []string
		for _, o := range r.ops {
			ops = append(ops, o.String())
		}
		return map[string]any{"clientHosts": clHost, "pool4": pool4, "ops": ops, "datastore_calls": len(tr), "block_owners": owners}
	}, cls...)
}

func TestVerifC20Scheduled(t *testing.T) {
	ev.Quiet()
	rec := ev.New("C20", "scheduled",
		"StrictAffinity on; 3 clients on hosts n1..n3 (sometimes two on one host); pool 10.0.0.0/29 or /28 with /30 blocks + fd00::/124 with /126 blocks; MaxBlocksPerHost 0-2; generated operation scripts (AutoAssign-heavy, ReleaseIPs / ReleaseByHandle so blocks get empty, ClaimAffinity / ReleaseAffinity / ReleaseHostAffinities / RemoveIPAMHost), time advances that make empty blocks reclaimable, one-call-at-a-time schedule drawn in bursts, per-call faults. Oracle on every committed block write. Non-trivial = some block was affine to two different hosts during the case and at least one allocation write was checked; distinct = distinct (operation-kind sequence, class set)",
		"trusts verifkit/memds as a faithful compare-and-swap datastore",
		"the allocating host is the host the request was issued for (equal to the node attribute the harness sets)")
	defer rec.Write()
	rapid.Check(t, func(t *rapid.T) { c20SchedCase(t, rec, ev.Scale(6, 8)) })
}
