package ipam_test

// C20 - IPAM allocations respect pools, uses, reservations and affinity limits.
//
// Real IPAM client on memds (plain, unscheduled mode), generated worlds: 2-4 IPv4 pools with
// block sizes, node / namespace selectors, allowed uses, disabled flag; IPReservations cutting
// through blocks; IPAMConfig (StrictAffinity, MaxBlocksPerHost, AutoAllocateBlocks); two
// labelled nodes plus the virtual load-balancer node; histories of AutoAssign (use, namespace,
// per-request pool list, per-request block cap), ReleaseIPs, ReleaseByHandle,
// ReleaseHostAffinities.
//
// Oracle (statement C20), per AutoAssign against a reference written in the harness:
//   - every returned address lies in an enabled pool permitted for the request: allowed use, and
//     - unless the request names pools explicitly, in which case the library documents that
//     selectors are ignored - node selector and namespace selector match, assignment mode
//     automatic; a request naming a disabled / unknown pool fails;
//   - no returned address is inside an IPReservation;
//   - the returned IPNet carries its block's prefix length and the address is recorded in that
//     block;
//   - with StrictAffinity the block is affine to the requester;
//   - after every step no host holds more affine blocks (per IP version) than the configured cap
//     (IPAMConfig.MaxBlocksPerHost) - AutoAssign is the only claiming call generated;
//   - never more addresses than are permissible and free; in the regimes where the reference can
//     predict it exactly (see c20Expect) exactly min(requested, permissible free) addresses, i.e.
//     the call fails when and only when nothing is permissible.

import (
	"context"
	"fmt"
	"net/netip"
	"sort"
	"strings"
	"testing"

	v3 "github.com/projectcalico/api/pkg/apis/projectcalico/v3"
	corev1 "k8s.io/api/core/v1"
	metav1 "k8s.io/apimachinery/pkg/apis/meta/v1"
	"pgregory.net/rapid"

	"github.com/projectcalico/calico/libcalico-go/lib/backend/model"
	"github.com/projectcalico/calico/libcalico-go/lib/ipam"
	cnet "github.com/projectcalico/calico/libcalico-go/lib/net"
	"github.com/projectcalico/calico/verifkit/ev"
)

// Selector vocabulary with hard-coded semantics (the reference does not use the selector library).
var c20NodeSelectors = []string{"", "", "", "all()", "rack == 'a'", "rack == 'b'", "has(rack)", "!has(rack)"}
var c20NsSelectors = []string{"", "", "", "team == 'x'", "team == 'y'", "has(team)"}

func c20SelMatches(sel string, labels map[string]string) bool {
	switch sel {
	case "", "all()":
		return true
	case "rack == 'a'":
		return labels["rack"] == "a"
	case "rack == 'b'":
		return labels["rack"] == "b"
	case "has(rack)":
		_, ok := labels["rack"]
		return ok
	case "!has(rack)":
		_, ok := labels["rack"]
		return !ok
	case "team == 'x'":
		return labels["team"] == "x"
	case "team == 'y'":
		return labels["team"] == "y"
	case "has(team)":
		_, ok := labels["team"]
		return ok
	}
	panic("HARNESS-GAP: unknown selector " + sel)
}

type c20PoolSpec struct {
	Name      string
	CIDR      string
	BlockSize int
	NodeSel   string
	NsSel     string
	Uses      []v3.IPPoolAllowedUse
	Disabled  bool
	Manual    bool
}

func (p c20PoolSpec) allows(u v3.IPPoolAllowedUse) bool {
	for _, x := range p.Uses {
		if x == u {
			return true
		}
	}
	return false
}

type c20Req struct {
	Host      string // node name, or the virtual load-balancer node
	Num       int
	Use       v3.IPPoolAllowedUse
	NsLabels  map[string]string // nil = no namespace object
	Pools     []string          // explicit pool CIDRs (may name disabled / unknown pools)
	MaxBlocks int
	Handle    string
}

type c20World struct {
	w          *c19World
	pools      []c20PoolSpec
	rsvd       []netip.Prefix
	nodeLabels map[string]map[string]string
	cfg        model.IPAMConfig
}

func (cw *c20World) reserved(a netip.Addr) bool {
	for _, r := range cw.rsvd {
		if r.Contains(a) {
			return true
		}
	}
	return false
}

// reservedBlockmate: some other address of a's block is reserved.
func (cw *c20World) reservedBlockmate(a netip.Addr, st c20AddrState) bool {
	blk := netip.MustParsePrefix(st.block)
	for x := blk.Addr(); blk.Contains(x); x = x.Next() {
		if x != a && cw.reserved(x) {
			return true
		}
	}
	return false
}

// permitted returns the pools the reference allows for the request, and ok=false when the
// request must fail outright (it names a pool that is not an enabled pool).
func (cw *c20World) permitted(r c20Req) (out []c20PoolSpec, ok bool) {
	if len(r.Pools) > 0 {
		for _, c := range r.Pools {
			found := false
			for _, p := range cw.pools {
				if p.CIDR == c && !p.Disabled {
					found = true
					if p.allows(r.Use) {
						out = append(out, p)
					}
				}
			}
			if !found {
				return nil, false
			}
		}
		return out, true
	}
	var nodeLabels map[string]string
	if r.Use != v3.IPPoolAllowedUseLoadBalancer {
		nodeLabels = cw.nodeLabels[r.Host]
	}
	for _, p := range cw.pools {
		if p.Disabled || p.Manual || !p.allows(r.Use) {
			continue
		}
		if !c20SelMatches(p.NodeSel, nodeLabels) || !c20SelMatches(p.NsSel, r.NsLabels) {
			continue
		}
		out = append(out, p)
	}
	return out, true
}

func c20Affinity(r c20Req) string {
	if r.Use == v3.IPPoolAllowedUseLoadBalancer {
		return "virtual:" + r.Host
	}
	return "host:" + r.Host
}

type c20AddrState struct {
	pool     c20PoolSpec
	block    string // block CIDR
	exists   bool   // block exists in the datastore
	blockAff string
	free     bool // not allocated and not cooling down
}

// addrStates classifies every address of the given pools against the datastore snapshot.
func (cw *c20World) addrStates(pools []c20PoolSpec, snap *c19Snapshot) map[netip.Addr]c20AddrState {
	out := map[netip.Addr]c20AddrState{}
	for _, p := range pools {
		pp := netip.MustParsePrefix(p.CIDR)
		for a := pp.Addr(); pp.Contains(a); a = a.Next() {
			blk := netip.PrefixFrom(a, p.BlockSize).Masked()
			st := c20AddrState{pool: p, block: blk.String(), free: true}
			if b, ok := snap.Blocks[st.block]; ok {
				st.exists = true
				st.blockAff = b.Affinity
				if _, used := b.Allocs[c19Ordinal(blk, a)]; used {
					st.free = false
				}
			}
			out[a] = st
		}
	}
	return out
}

func c20BlockCount(snap *c19Snapshot, host string) int {
	n := 0
	for _, a := range snap.Affs {
		if a.Host == host {
			n++
		}
	}
	return n
}

// Finding c20-block-cap-counts-only-request-pools (fixed in the tree, 23b993f): autoAssign compared
// the block cap with the number of the host's affine blocks inside the pools usable for the current
// request only.  TestVerifC20RegressCapPerPoolSubset keeps the reproducer as a regression test.
func TestVerifC20RegressCapPerPoolSubset(t *testing.T) {
	ev.Quiet()
	w := c19NewWorld([]v3.IPPool{c19Pool("a", "10.0.0.0/28", 30), c19Pool("b", "10.0.1.0/28", 30)}, nil)
	w.addNode("n1", nil)
	w.setConfig(model.IPAMConfig{StrictAffinity: true, AutoAllocateBlocks: true, MaxBlocksPerHost: 1})
	for i, pool := range []string{"10.0.0.0/28", "10.0.1.0/28"} {
		h := fmt.Sprintf("h%d", i)
		v4, _, err := w.ic.AutoAssign(context.Background(), ipam.AutoAssignArgs{Num4: 1, HandleID: &h, Hostname: "n1",
			IntendedUse: v3.IPPoolAllowedUseWorkload, IPv4Pools: []cnet.IPNet{cnet.MustParseCIDR(pool)}})
		t.Logf("AutoAssign(n1, pools=[%s]) -> %v err=%v", pool, v4, err)
	}
	snap := w.snapshot()
	if n := c20BlockCount(snap, "n1"); n > 1 {
		t.Errorf("StrictAffinity, MaxBlocksPerHost=1: after one AutoAssign from each of two pools host n1 holds %d affine blocks\n%s", n, snap)
	}
}

// TestVerifC20RegressCapNonEmptyForeign: regression test for an intermediate version of the cap fix
// that discounted blocks of pools not selecting the node whose release had been refused because
// they were not empty (never in the original tree).
func TestVerifC20RegressCapNonEmptyForeign(t *testing.T) {
	ev.Quiet()
	b := c19Pool("b", "10.0.2.0/28", 29)
	b.Spec.NodeSelector = "rack == 'a'"
	w := c19NewWorld([]v3.IPPool{c19Pool("a", "10.0.0.0/28", 30), b}, nil)
	w.addNode("n2", map[string]string{"rack": "b"})
	w.setConfig(model.IPAMConfig{StrictAffinity: true, AutoAllocateBlocks: true, MaxBlocksPerHost: 2})
	for i, rq := range []struct {
		n     int
		pools []string
	}{{1, nil}, {1, []string{"10.0.2.0/28"}}, {4, nil}} {
		h := fmt.Sprintf("h%d", i)
		args := ipam.AutoAssignArgs{Num4: rq.n, HandleID: &h, Hostname: "n2", IntendedUse: v3.IPPoolAllowedUseWorkload}
		for _, p := range rq.pools {
			args.IPv4Pools = append(args.IPv4Pools, cnet.MustParseCIDR(p))
		}
		v4, _, err := w.ic.AutoAssign(context.Background(), args)
		t.Logf("AutoAssign(n2, num=%d, pools=%v) -> %v err=%v", rq.n, rq.pools, v4, err)
	}
	snap := w.snapshot()
	if n := c20BlockCount(snap, "n2"); n > 2 {
		t.Errorf("StrictAffinity, MaxBlocksPerHost=2: host n2 holds %d affine blocks (one of them a non-empty block of a pool that does not select n2)\n%s", n, snap)
	}
}

func TestVerifC20Pools(t *testing.T) {
	ev.Quiet()
	rec := ev.New("C20", "pools",
		"generated worlds (2-4 IPv4 pools out of 5 disjoint /28../30 ranges with block sizes 29-31, node/namespace selectors, allowed uses, disabled, manual; 0-3 IPReservations cutting through blocks; IPAMConfig strict/maxBlocks/autoAllocate; nodes n1,n2 with rack labels + virtual load-balancer) and histories of 6-14 operations (AutoAssign with use/namespace/explicit pool list/per-request cap; ReleaseIPs; ReleaseByHandle; ReleaseHostAffinities) run sequentially on the real IPAM client over memds. Non-trivial = for at least one request a reservation or a selector excluded an address that was otherwise free in an enabled pool allowing the use; distinct = distinct (world shape, operation sequence) key",
		"reference permitted-pool / reservation / cap semantics are re-implemented in the harness with a fixed selector vocabulary",
		"requests that name pools explicitly are checked against those pools only (the library documents that selectors are ignored then)",
		"the per-host cap is checked per IP version against IPAMConfig.MaxBlocksPerHost; AssignIP and ClaimAffinity (not gated by the cap) are not generated")
	defer rec.Write()
	rapid.Check(t, func(t *rapid.T) { c20Case(t, rec) })
}

var c20Ranges = []struct {
	cidr   string
	blocks []int
}{
	{"10.0.0.0/28", []int{29, 30, 31}},
	{"10.0.1.0/29", []int{30, 31}},
	{"10.0.2.0/28", []int{29, 30}},
	{"10.0.3.0/30", []int{30, 31}},
	{"10.0.4.0/29", []int{29, 30, 31}},
}

func c20Case(t *rapid.T, rec *ev.Recorder) {
	cw := &c20World{nodeLabels: map[string]map[string]string{}}
	allUses := []v3.IPPoolAllowedUse{v3.IPPoolAllowedUseWorkload, v3.IPPoolAllowedUseTunnel, v3.IPPoolAllowedUseLoadBalancer}
	// ---- world
	nPools := rapid.IntRange(2, 4).Draw(t, "nPools")
	idx := rapid.Permutation([]int{0, 1, 2, 3, 4}).Draw(t, "poolRanges")[:nPools]
	var v3pools []v3.IPPool
	for i, ri := range idx {
		rg := c20Ranges[ri]
		p := c20PoolSpec{Name: fmt.Sprintf("pool%d", i), CIDR: rg.cidr}
		p.BlockSize = rapid.SampledFrom(rg.blocks).Draw(t, "blockSize")
		p.NodeSel = rapid.SampledFrom(c20NodeSelectors).Draw(t, "nodeSelector")
		p.NsSel = rapid.SampledFrom(c20NsSelectors).Draw(t, "nsSelector")
		um := rapid.IntRange(1, 7).Draw(t, "usesMask")
		if rapid.IntRange(0, 2).Draw(t, "defaultUses") > 0 {
			um = 3
		}
		for b, u := range allUses {
			if um&(1<<b) != 0 {
				p.Uses = append(p.Uses, u)
			}
		}
		p.Disabled = rapid.IntRange(0, 8).Draw(t, "disabled") == 0
		p.Manual = rapid.IntRange(0, 10).Draw(t, "manual") == 0
		cw.pools = append(cw.pools, p)
		vp := c19Pool(p.Name, p.CIDR, p.BlockSize, p.Uses...)
		vp.Spec.NodeSelector, vp.Spec.NamespaceSelector, vp.Spec.Disabled = p.NodeSel, p.NsSel, p.Disabled
		if p.Manual {
			m := v3.Manual
			vp.Spec.AssignmentMode = &m
		}
		v3pools = append(v3pools, vp)
	}
	var v3rsvd []v3.IPReservation
	nR := rapid.IntRange(0, 3).Draw(t, "nReservations")
	for i := 0; i < nR; i++ {
		p := cw.pools[rapid.IntRange(0, len(cw.pools)-1).Draw(t, "rsvdPool")]
		pp := netip.MustParsePrefix(p.CIDR)
		size := 1 << (32 - pp.Bits())
		off := rapid.IntRange(0, size-1).Draw(t, "rsvdOffset")
		bits := rapid.IntRange(29, 32).Draw(t, "rsvdBits")
		a := pp.Addr()
		for j := 0; j < off; j++ {
			a = a.Next()
		}
		r := netip.PrefixFrom(a, bits).Masked()
		cw.rsvd = append(cw.rsvd, r)
		v3rsvd = append(v3rsvd, v3.IPReservation{ObjectMeta: metav1.ObjectMeta{Name: fmt.Sprintf("r%d", i)},
			Spec: v3.IPReservationSpec{ReservedCIDRs: []string{r.String()}}})
	}
	cw.w = c19NewWorld(v3pools, v3rsvd)
	for _, n := range []string{"n1", "n2"} {
		var l map[string]string
		switch rapid.IntRange(0, 2).Draw(t, n+"Rack") {
		case 0:
			l = map[string]string{"rack": "a"}
		case 1:
			l = map[string]string{"rack": "b"}
		}
		cw.nodeLabels[n] = l
		cw.w.addNode(n, l)
	}
	switch rapid.IntRange(0, 3).Draw(t, "cfgKind") {
	case 0, 1:
		cw.cfg = model.IPAMConfig{AutoAllocateBlocks: true}
	case 2:
		cw.cfg = model.IPAMConfig{StrictAffinity: true, AutoAllocateBlocks: true, MaxBlocksPerHost: rapid.IntRange(0, 3).Draw(t, "maxBlocksPerHost")}
	case 3:
		cw.cfg = model.IPAMConfig{StrictAffinity: true, AutoAllocateBlocks: rapid.Bool().Draw(t, "autoAllocate"), MaxBlocksPerHost: rapid.IntRange(0, 2).Draw(t, "maxBlocksPerHost")}
	}
	cw.w.setConfig(cw.cfg)
	ic := cw.w.ic
	ctx := context.Background()

	// ---- history
	owned := map[string]string{} // address -> handle
	classes := map[string]bool{}
	var shape []string
	nontrivial := false
	nOps := rapid.IntRange(6, ev.Scale(16, 28)).Draw(t, "nOps")
	var log []string
	fail := func(format string, args ...any) {
		t.Fatalf("C20 VIOLATION: %s\npools: %+v\nreservations: %v\nnode labels: %v\nconfig: %+v\nhistory:\n  %s\ndatastore:\n%s",
			fmt.Sprintf(format, args...), cw.pools, cw.rsvd, cw.nodeLabels, cw.cfg, strings.Join(log, "\n  "), cw.w.snapshot())
	}
	checkCap := func(when string) {
		if cw.cfg.MaxBlocksPerHost <= 0 {
			return
		}
		snap := cw.w.snapshot()
		for _, h := range []string{"n1", "n2", v3.VirtualLoadBalancer} {
			n := c20BlockCount(snap, h)
			if n <= cw.cfg.MaxBlocksPerHost {
				continue
			}
			fail("%s: host %s holds %d affine IPv4 blocks, configured MaxBlocksPerHost is %d", when, h, n, cw.cfg.MaxBlocksPerHost)
		}
	}
	for i := 0; i < nOps; i++ {
		k := rapid.IntRange(0, 9).Draw(t, "opKind")
		switch {
		case k <= 6: // AutoAssign
			r := c20Req{Num: rapid.IntRange(1, 4).Draw(t, "num"), Handle: fmt.Sprintf("h%d", i)}
			switch rapid.IntRange(0, 5).Draw(t, "use") {
			case 0, 1, 2, 3:
				r.Use, r.Host = v3.IPPoolAllowedUseWorkload, rapid.SampledFrom([]string{"n1", "n2"}).Draw(t, "host")
				switch rapid.IntRange(0, 3).Draw(t, "namespace") {
				case 1:
					r.NsLabels = map[string]string{"team": "x"}
				case 2:
					r.NsLabels = map[string]string{"team": "y"}
				case 3:
					r.NsLabels = map[string]string{}
				}
			case 4:
				r.Use, r.Host = v3.IPPoolAllowedUseTunnel, rapid.SampledFrom([]string{"n1", "n2"}).Draw(t, "host")
			case 5:
				r.Use, r.Host = v3.IPPoolAllowedUseLoadBalancer, v3.VirtualLoadBalancer
			}
			if rapid.IntRange(0, 3).Draw(t, "explicitPools") == 0 {
				n := rapid.IntRange(1, 2).Draw(t, "nExplicit")
				for j := 0; j < n; j++ {
					if rapid.IntRange(0, 9).Draw(t, "unknownPool") == 0 {
						r.Pools = append(r.Pools, "10.9.9.0/28")
					} else {
						r.Pools = append(r.Pools, cw.pools[rapid.IntRange(0, len(cw.pools)-1).Draw(t, "explicitPool")].CIDR)
					}
				}
				r.Pools = dedup(r.Pools)
			}
			if rapid.IntRange(0, 4).Draw(t, "requestCap") == 0 {
				r.MaxBlocks = rapid.IntRange(1, 2).Draw(t, "requestMaxBlocks")
			}
			before := cw.w.snapshot()
			perm, okReq := cw.permitted(r)
			// reference: permissible free addresses, and what a selector / reservation excluded
			permFree := map[netip.Addr]c20AddrState{}
			for a, st := range cw.addrStates(perm, before) {
				if st.free && !cw.reserved(a) {
					permFree[a] = st
				}
			}
			if okReq {
				var useOK []c20PoolSpec
				for _, p := range cw.pools {
					if !p.Disabled && p.allows(r.Use) {
						useOK = append(useOK, p)
					}
				}
				for a, st := range cw.addrStates(useOK, before) {
					if _, in := permFree[a]; st.free && !in {
						if cw.reserved(a) {
							classes["excluded-by-reservation"] = true
						} else {
							classes["excluded-by-selector-or-mode"] = true
						}
						nontrivial = true
					}
				}
			}
			args := ipam.AutoAssignArgs{Num4: r.Num, HandleID: &r.Handle, Hostname: r.Host, IntendedUse: r.Use, MaxBlocksPerHost: r.MaxBlocks,
				Attrs: map[string]string{model.IPAMBlockAttributeNode: r.Host}}
			if r.NsLabels != nil {
				args.Namespace = &corev1.Namespace{ObjectMeta: metav1.ObjectMeta{Name: "ns", Labels: r.NsLabels}}
			}
			for _, p := range r.Pools {
				args.IPv4Pools = append(args.IPv4Pools, cnet.MustParseCIDR(p))
			}
			v4, _, err := ic.AutoAssign(ctx, args)
			var got []cnet.IPNet
			if v4 != nil {
				got = v4.IPs
			}
			log = append(log, fmt.Sprintf("#%d AutoAssign(host=%s num=%d use=%s ns=%v pools=%v maxBlocks=%d handle=%s) -> %v err=%v", i, r.Host, r.Num, r.Use, r.NsLabels, r.Pools, r.MaxBlocks, r.Handle, got, err))
			shape = append(shape, fmt.Sprintf("A%d%s", len(got), string(r.Use)[:1]))
			after := cw.w.snapshot()
			if !okReq && len(got) > 0 {
				fail("request names a pool that is not an enabled pool but got addresses %v", got)
			}
			if len(got) > r.Num {
				fail("asked for %d addresses, got %d", r.Num, len(got))
			}
			seen := map[string]bool{}
			for _, n := range got {
				a, _ := netip.AddrFromSlice(n.IP.To4())
				if seen[a.String()] {
					fail("address %s returned twice in one call", a)
				}
				seen[a.String()] = true
				st, in := permFree[a]
				if !in {
					why := "is not in a pool permitted for this request (enabled, allowed use, selectors / explicit list), or was not free"
					if cw.reserved(a) {
						why = "is inside an IPReservation"
						classes["S-reserved-hit"] = true
					}
					fail("AutoAssign returned %s which %s; permitted pools: %+v", a, why, perm)
				}
				if ones, _ := n.Mask.Size(); ones != st.pool.BlockSize {
					fail("AutoAssign returned %s: prefix length %d is not the block size %d of its pool %s", n.String(), ones, st.pool.BlockSize, st.pool.CIDR)
				}
				b := after.Blocks[st.block]
				if b == nil {
					fail("AutoAssign returned %s but its block %s does not exist", a, st.block)
				}
				av, ok := b.Allocs[c19Ordinal(netip.MustParsePrefix(st.block), a)]
				if !ok || av.InCooldown || !av.HasHandle || av.Handle != r.Handle {
					fail("AutoAssign returned %s but block %s does not record it for handle %s (%+v)", a, st.block, r.Handle, av)
				}
				if cw.cfg.StrictAffinity && b.Affinity != c20Affinity(r) {
					fail("strict affinity: AutoAssign for %s returned %s from block %s whose affinity is %q", c20Affinity(r), a, st.block, b.Affinity)
				}
				if st.exists && st.blockAff != c20Affinity(r) {
					classes["borrowed"] = true
				}
				owned[a.String()] = r.Handle
				classes["assigned"] = true
				if cw.reservedBlockmate(a, st) {
					classes["assigned-next-to-reservation"] = true
				}
			}
			if len(got) > len(permFree) {
				fail("got %d addresses but only %d are permissible and free", len(got), len(permFree))
			}
			if want, exact := cw.expect(r, perm, okReq, permFree, before); exact {
				classes["count-predicted"] = true
				if len(got) != want {
					fail("reference predicts exactly %d addresses (permissible free: %d), AutoAssign returned %d (err=%v)", want, len(permFree), len(got), err)
				}
				if want == 0 {
					classes["must-fail"] = true
				}
			}
			if len(got) < r.Num {
				classes["partial-or-failed"] = true
			}
			checkCap(fmt.Sprintf("after #%d", i))
		case k == 7: // ReleaseIPs
			var addrs []string
			for a := range owned {
				addrs = append(addrs, a)
			}
			sort.Strings(addrs)
			if len(addrs) == 0 {
				shape = append(shape, "r")
				continue
			}
			a := rapid.SampledFrom(addrs).Draw(t, "release")
			_, _, err := ic.ReleaseIPs(ctx, ipam.ReleaseOptions{Address: a})
			log = append(log, fmt.Sprintf("#%d ReleaseIPs(%s) err=%v", i, a, err))
			delete(owned, a)
			shape = append(shape, "R")
		case k == 8: // ReleaseByHandle
			hs := map[string]bool{}
			for _, h := range owned {
				hs[h] = true
			}
			var hl []string
			for h := range hs {
				hl = append(hl, h)
			}
			sort.Strings(hl)
			if len(hl) == 0 {
				shape = append(shape, "h")
				continue
			}
			h := rapid.SampledFrom(hl).Draw(t, "handle")
			err := ic.ReleaseByHandle(ctx, h)
			log = append(log, fmt.Sprintf("#%d ReleaseByHandle(%s) err=%v", i, h, err))
			for a, oh := range owned {
				if oh == h {
					delete(owned, a)
				}
			}
			shape = append(shape, "H")
		default: // ReleaseHostAffinities
			h := rapid.SampledFrom([]string{"n1", "n2"}).Draw(t, "host")
			mbe := rapid.Bool().Draw(t, "mustBeEmpty")
			err := ic.ReleaseHostAffinities(ctx, ipam.AffinityConfig{AffinityType: ipam.AffinityTypeHost, Host: h}, mbe)
			log = append(log, fmt.Sprintf("#%d ReleaseHostAffinities(%s, mustBeEmpty=%v) err=%v", i, h, mbe, err))
			shape = append(shape, "G")
		}
	}
	if cw.cfg.StrictAffinity {
		classes["strict"] = true
	}
	if cw.cfg.MaxBlocksPerHost > 0 {
		classes["global-cap"] = true
	}
	if !cw.cfg.AutoAllocateBlocks {
		classes["no-auto-allocate"] = true
	}
	var cls []string
	for c := range classes {
		cls = append(cls, c)
	}
	sort.Strings(cls)
	var ws []string
	for _, p := range cw.pools {
		ws = append(ws, fmt.Sprintf("%s/%d%s%s%v%v", p.CIDR[5:], p.BlockSize, p.NodeSel, p.NsSel, p.Disabled, len(p.Uses)))
	}
	key := strings.Join(ws, ";") + fmt.Sprint(cw.rsvd) + strings.Join(shape, "")


	rec.SizedCase(nontrivial, key, len(log), func() any {
		return map[string]any{"pools": cw.pools, "reservations": fmt.Sprint(cw.rsvd), "nodeLabels": cw.nodeLabels, "config": cw.cfg, "history": log}
	}, cls...)
}

// expect predicts the exact number of addresses an AutoAssign must return, in the regimes where
// the documented algorithm makes that a function of the datastore state:
//   - request invalid or nothing permissible: 0;
//   - non-strict, auto-allocating, no per-request cap: every permissible free address is
//     reachable (own blocks, new blocks, then any existing block): min(num, permissible free);
//   - strict, auto-allocating, no cap anywhere: own affine blocks plus blocks that do not exist
//     yet: min(num, free there).
func (cw *c20World) expect(r c20Req, perm []c20PoolSpec, okReq bool, permFree map[netip.Addr]c20AddrState, before *c19Snapshot) (int, bool) {
	if !okReq || len(permFree) == 0 {
		return 0, true
	}
	if r.MaxBlocks != 0 || !cw.cfg.AutoAllocateBlocks || cw.cfg.MaxBlocksPerHost != 0 {
		return 0, false
	}
	// The library's default cap of 20 blocks per host cannot be reached with these pools.
	if !cw.cfg.StrictAffinity {
		return min(r.Num, len(permFree)), true
	}
	// strict: an address is reachable if its block does not exist or is affine to the requester -
	// provided no affinity row of the requester points at a block it does not own (such rows are
	// deleted lazily and change the walk) and no row of another host blocks a claim.
	rows := map[string][]string{}
	for _, a := range before.Affs {
		rows[a.CIDR] = append(rows[a.CIDR], a.Host)
	}
	n := 0
	for _, st := range permFree {
		switch {
		case !st.exists:
			if len(rows[st.block]) > 0 {
				return 0, false
			}
			n++
		case st.blockAff == c20Affinity(r):
			n++
		}
	}
	return min(r.Num, n), true
}
