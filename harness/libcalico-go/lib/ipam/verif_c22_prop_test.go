package ipam_test

// C22 - each block has at most one confirmed owner.
//
// Same stack as C19 (real IPAM client, memds, owned schedule, per-call faults) with an operation
// mix biased to claim / confirm / release of the same few blocks by 3 hosts, crashes between the
// phases of the two-phase claim, and "time advances" that make empty blocks reclaimable.
//
// Oracle (statement C22), evaluated after EVERY datastore call that is released:
//  1. a block CIDR has at most one confirmed affinity;
//  2. for every confirmed affinity (host, block) whose block exists, the block's Affinity field
//     is "host:<host>" (a block's recorded affinity matches its confirmed claim);
//  3. with StrictAffinity, every newly allocated ordinal lands in a block whose Affinity is the
//     allocating host (pending claims / other hosts' blocks are never used as ownership) -
//     observed through the allocation's "node" attribute on the block write;
//  5. when an AutoAssign of host H writes an allocation into a block whose Affinity is host:H,
//     the affinity record (H, block) exists in state confirmed (or the legacy empty state) right
//     after that write - unless another operation wrote that record since the AutoAssign started
//     (a claim that is pending or being withdrawn must be re-confirmed before it is used as
//     ownership, and a block's recorded affinity must be backed by a confirmed claim);
//  4. whenever an operation that must find the block empty (ReleaseAffinity / ReleaseHostAffinities
//     with mustBeEmpty, and every release the library does on its own initiative: reclaim of
//     empty blocks, blocks of pools that no longer select the node) deletes a block or strips
//     its affinity, the block version it replaces holds no allocations.

import (
	"context"
	"fmt"
	"sort"
	"strings"
	"testing"
	"time"

	v3 "github.com/projectcalico/api/pkg/apis/projectcalico/v3"
	metav1 "k8s.io/apimachinery/pkg/apis/meta/v1"
	"pgregory.net/rapid"

	"github.com/projectcalico/calico/libcalico-go/lib/backend/model"
	"github.com/projectcalico/calico/libcalico-go/lib/ipam"
	"github.com/projectcalico/calico/verifkit/ev"
	"github.com/projectcalico/calico/verifkit/memds"
)

type c22AffWrite struct {
	step int
	op   *c19Op
}

type c22Forced struct {
	host string
	v6   bool
}

// c22AffPath parses "/calico/ipam/v2/host/<host>/ipv4/block/<a.b.c.d-len>".
func c22AffPath(p string) (host, cidr string, ok bool) {
	const pre = "/calico/ipam/v2/host/"
	if !strings.HasPrefix(p, pre) {
		return "", "", false
	}
	parts := strings.Split(p[len(pre):], "/")
	if len(parts) != 4 || parts[2] != "block" {
		return "", "", false
	}
	i := strings.LastIndex(parts[3], "-")
	if i < 0 {
		return "", "", false
	}
	return parts[0], parts[3][:i] + "/" + parts[3][i+1:], true
}

func c22LiveAllocs(b *model.AllocationBlock) []int {
	var out []int
	if b == nil {
		return nil
	}
	for o, idx := range b.Allocations {
		if idx == nil {
			continue
		}
		if *idx < len(b.Attributes) && b.Attributes[*idx].ReleasedAt != nil {
			continue // released, cooling down: nobody's allocation
		}
		out = append(out, o)
	}
	return out
}

// c22SigClaimDuringRelease: host H re-claims a block it owns while another actor is releasing
// H's affinity to that (non-empty) block.  The releaser marks the affinity pendingDeletion and
// then strips the block's Affinity with a CAS on the block; the claimer (getPendingAffinity)
// overwrites pendingDeletion with pending, finds the block "already claimed by this host"
// (claimAffineBlock) and confirms with a CAS on the affinity only - it never writes the block,
// so the releaser's block CAS still succeeds.  Result, without any fault: a confirmed affinity
// for H on a block whose Affinity is nil (durable if the releaser dies before its retry).  When
// the block is empty the releaser (also: another host reclaiming H's empty block inside
// AutoAssign) deletes it instead; a third host can then claim the CIDR and the block ends up
// with two confirmed affinities.
const c22SigClaimDuringRelease = "c22-claim-confirms-while-release-strips-block-affinity"

// knownClaimDuringRelease: the affinity "host|cidr" was rewritten pendingDeletion -> pending by an
// operation that then took claimAffineBlock's "block already exists and is ours" branch (its
// Create of the block failed with "exists"), i.e. confirmed without writing the block - the
// mechanism of the open finding.  A re-confirmation through getBlockFromAffinity (which bumps the
// block between the two affinity writes) is NOT covered.
func (s *c22Scenario) knownClaimDuringRelease(key string) bool {
	ops := s.overwrote[key]
	if len(ops) == 0 {
		return false
	}
	cidr := key[strings.Index(key, "|")+1:]
	suffix := "/block/" + strings.Replace(cidr, "/", "-", 1)
	for _, c := range s.r.sched.Trace() {
		if c.Result != "exists" {
			continue
		}
		p := strings.Split(c.ID, "|")
		if len(p) != 5 || p[3] != "Create" || !strings.Contains(p[4], "/assignment/") || !strings.HasSuffix(p[4], suffix) {
			continue
		}
		for _, id := range ops {
			if id == p[0] {
				return true
			}
		}
	}
	return false
}

type c22Scenario struct {
	knownHit  bool
	// "host|cidr" -> operations that rewrote this affinity from pendingDeletion to pending
	overwrote map[string][]string
	stalled   map[*memds.Op]int // scheduling: operations held back for some steps
	affWrites map[string][]c22AffWrite // "host|cidr": writes to the affinity record, in step order
	// targeted scenario: a release of host H's affinity dies right after marking it pendingDeletion
	pdCrashed   map[string]bool // "host|cidr"
	pdCrashes   int
	forceAssign []c22Forced // AutoAssigns to start next on the given hosts
	t       *rapid.T
	r       *c19Runner
	w       *c19World
	strict  bool
	hosts   []string
	classes map[string]bool
}

func (s *c22Scenario) fail(format string, args ...any) {
	s.t.Fatalf("C22 VIOLATION: %s\n%s", fmt.Sprintf(format, args...), s.r.explain())
}

// checkState: oracle parts 1 and 2 on the current datastore contents.
func (s *c22Scenario) checkState() {
	snap := s.w.snapshot()
	confirmed := map[string][]string{}
	for _, a := range snap.Affs {
		if a.State == string(model.StateConfirmed) {
			confirmed[a.CIDR] = append(confirmed[a.CIDR], a.Host)
		}
	}
	var cidrs []string
	for c := range confirmed {
		cidrs = append(cidrs, c)
	}
	sort.Strings(cidrs)
	for _, c := range cidrs {
		hs := confirmed[c]
		// Known finding: a claim that overwrote the releaser's pendingDeletion mark (see
		// c22SigClaimDuringRelease) - tolerate exactly the affinities that went through that.
		known := false
		if ev.Known(c22SigClaimDuringRelease) {
			for _, h := range hs {
				if s.knownClaimDuringRelease(h + "|" + c) {
					known = true
				}
			}
		}
		if len(hs) > 1 {
			if known {
				s.knownHit = true
				continue
			}
			s.fail("step %d: block %s has %d confirmed affinities: %v", s.r.step, c, len(hs), hs)
		}
		if b, ok := snap.Blocks[c]; ok && b.Affinity != "host:"+hs[0] {
			if known {
				s.knownHit = true
				continue
			}
			s.fail("step %d: block %s is confirmed for host %s but the block records affinity %q", s.r.step, c, hs[0], b.Affinity)
		}
	}
}

// checkWrites: oracle parts 3 and 4 on the writes of the last step.
func (s *c22Scenario) checkWrites(evs []memds.WriteEvent) {
	for _, e := range evs {
		if k, ok := e.Key.(model.BlockAffinityKey); ok {
			key := k.Host + "|" + k.CIDR.String()
			s.affWrites[key] = append(s.affWrites[key], c22AffWrite{step: s.r.step, op: s.r.byOp[e.Op]})
			oa, _ := e.Old.(*model.BlockAffinity)
			na, _ := e.New.(*model.BlockAffinity)
			if oa != nil && na != nil && oa.State == model.StatePendingDeletion && na.State == model.StatePending {
				if o := s.r.byOp[e.Op]; o != nil {
					s.overwrote[k.Host+"|"+k.CIDR.String()] = append(s.overwrote[k.Host+"|"+k.CIDR.String()], o.ID)
				}
				s.classes["claim-overwrote-pending-deletion"] = true
			}
		}
		if _, ok := e.Key.(model.BlockKey); !ok {
			continue
		}
		o := s.r.byOp[e.Op]
		if o == nil {
			continue
		}
		oldB, _ := e.Old.(*model.AllocationBlock)
		newB, _ := e.New.(*model.AllocationBlock)
		// part 4: affinity release of the block
		if oldB != nil && oldB.Affinity != nil && (newB == nil || newB.Affinity == nil) {
			mayBeNonEmpty := o.Kind == c19RemoveIPAMHost ||
				((o.Kind == c19ReleaseAffinity || o.Kind == c19ReleaseHostAffinities) && !o.MustBeEmpty)
			live := c22LiveAllocs(oldB)
			if !mayBeNonEmpty && len(live) > 0 {
				s.fail("step %d: %s released the affinity of block %s (%s -> %v) although the block held allocations at ordinals %v",
					s.r.step, o, oldB.CIDR.String(), *oldB.Affinity, e.Method, live)
			}
			if !mayBeNonEmpty {
				s.classes["release-requiring-empty"] = true
				if o.Kind == c19AutoAssign || o.Kind == c19AssignIP {
					s.classes["reclaim-of-empty-block"] = true
				}
			} else if len(live) > 0 {
				s.classes["release-of-nonempty-block"] = true
			}
		}
		// part 5: an AutoAssign that uses a block as its host's own needs a confirmed claim on it
		if newB != nil && o.Kind == c19AutoAssign && newB.Affinity != nil && *newB.Affinity == "host:"+o.Host {
			wasLive := map[int]bool{}
			for _, x := range c22LiveAllocs(oldB) {
				wasLive[x] = true
			}
			added := false
			for _, ord := range c22LiveAllocs(newB) {
				if !wasLive[ord] {
					added = true
				}
			}
			if added {
				s.checkClaimBacksAllocation(o, newB.CIDR.String())
			}
		}
		// part 3: new allocations under strict affinity
		if s.strict && newB != nil {
			wasLive := map[int]bool{}
			for _, x := range c22LiveAllocs(oldB) {
				wasLive[x] = true
			}
			for _, ord := range c22LiveAllocs(newB) {
				if wasLive[ord] {
					continue
				}
				node := ""
				if idx := newB.Allocations[ord]; idx != nil && *idx < len(newB.Attributes) {
					node = newB.Attributes[*idx].ActiveOwnerAttrs[model.IPAMBlockAttributeNode]
				}
				if node == "" {
					continue
				}
				if newB.Affinity == nil || *newB.Affinity != "host:"+node {
					aff := "<nil>"
					if newB.Affinity != nil {
						aff = *newB.Affinity
					}
					s.fail("step %d: strict affinity: %s allocated ordinal %d of block %s for host %s but the block's affinity is %s",
						s.r.step, o, ord, newB.CIDR.String(), node, aff)
				}
				s.classes["strict-allocation-checked"] = true
			}
		}
	}
}

// checkClaimBacksAllocation: oracle part 5, evaluated right after the block write of o.
func (s *c22Scenario) checkClaimBacksAllocation(o *c19Op, cidr string) {
	key := o.Host + "|" + cidr
	for _, w := range s.affWrites[key] {
		if w.op != o && w.step >= o.startStep {
			s.classes["claim-check-skipped-concurrent-writer"] = true
			return // somebody else wrote the record while this AutoAssign was running
		}
	}
	if s.pdCrashed[key] {
		s.classes["assign-after-release-crashed-at-pendingDeletion"] = true
	}
	if ev.Known(c22SigClaimDuringRelease) && s.knownClaimDuringRelease(key) {
		s.knownHit = true
		return
	}
	state := "<absent>"
	for _, a := range s.w.snapshot().Affs {
		if a.Host == o.Host && a.CIDR == cidr {
			state = a.State
		}
	}
	s.classes["claim-backs-allocation-checked"] = true
	if state != string(model.StateConfirmed) && state != "" {
		s.fail("step %d: %s allocated from block %s as its host's own block (block.Affinity=host:%s) but the affinity record (%s, %s) is %s, not confirmed, and nobody else wrote that record since the operation started",
			s.r.step, o, cidr, o.Host, o.Host, cidr, state)
	}
}

// advanceTime moves every block's AffinityClaimTime into the past (the library only ever
// compares it with now - EmptyBlockMinReclaimAge), which makes empty blocks reclaimable.
func (s *c22Scenario) advanceTime(d time.Duration) {
	bl, err := s.w.store.ReadList(model.BlockListOptions{})
	if err != nil {
		s.t.Fatalf("HARNESS-GAP: %v", err)
	}
	for _, kv := range bl.KVPairs {
		_ = s.w.store.Mutate(kv.Key, func(v any) any {
			b := v.(*model.AllocationBlock)
			if b.AffinityClaimTime != nil {
				t := metav1.NewTime(b.AffinityClaimTime.Add(-d))
				b.AffinityClaimTime = &t
			}
			return b
		})
	}
}

var c22Mix = [c19NumKinds]int{
	c19AutoAssign: 26, c19AssignIP: 6, c19ReleaseIPs: 6, c19ReleaseByHandle: 3,
	c19ClaimAffinity: 28, c19ReleaseAffinity: 18, c19ReleaseHostAffinities: 8, c19RemoveIPAMHost: 5,
}

func c22Run(t *rapid.T, rec *ev.Recorder, opsPerClient int) {
	hosts := []string{"n1", "n2", "n3"}
	clHost := make([]string, 3)
	for i := range clHost {
		// mostly one client per host; sometimes two processes on one host
		clHost[i] = hosts[i]
		if rapid.IntRange(0, 5).Draw(t, fmt.Sprintf("client%dMoved", i)) == 0 {
			clHost[i] = hosts[rapid.IntRange(0, 2).Draw(t, "host")]
		}
	}
	strict := rapid.IntRange(0, 1).Draw(t, "strict") == 0
	w := c19NewWorld([]v3.IPPool{c19Pool("pool4", c19PoolV4, 30), c19Pool("pool6", c19PoolV6, 126)}, nil)
	for _, h := range hosts {
		w.addNode(h, nil)
	}
	cfg := model.IPAMConfig{StrictAffinity: strict, AutoAllocateBlocks: true}
	if strict {
		cfg.MaxBlocksPerHost = rapid.IntRange(0, 2).Draw(t, "maxBlocksPerHost")
	}
	w.setConfig(cfg)

	// C19's scenario object supplies operation drawing and the ownership bookkeeping used for
	// drawing release targets; its oracle is not asserted here.
	gen := &c19Scenario{t: t, w: w, hosts: hosts, clHost: clHost, strict: strict, mix: c22Mix, classes: map[string]bool{}, knownHits: map[string]int{}, wholePool: 3, pool4: c19PoolV4,
		model: c19Model{live: map[string]c19Owner{}}, v4: c19PoolAddrs(c19PoolV4), v6: c19PoolAddrs(c19PoolV6)}
	// hot blocks: two v4 blocks and one v6 block
	gen.blocks4 = c19BlockCIDRs(c19PoolV4, 30)[:2]
	gen.blocks6 = c19BlockCIDRs(c19PoolV6, 126)[:1]
	s := &c22Scenario{t: t, w: w, strict: strict, hosts: hosts, classes: map[string]bool{}, overwrote: map[string][]string{}, stalled: map[*memds.Op]int{}, affWrites: map[string][]c22AffWrite{}, pdCrashed: map[string]bool{}}
	fw := c19FaultWeights{Conflict: 30, Error: 5, CrashBefore: 5, CrashAfter: 5, MaxCrashes: 3}
	s.r = c19NewRunner(t, w, fw)
	gen.r = s.r
	// Targeted scenario (at most twice per case): a release of host H's affinity is killed right
	// after it marked the affinity pendingDeletion, i.e. before it touched the block; the next
	// operation started on H is an AutoAssign in that block's address family.
	s.r.faultHook = func(c *memds.Call, o *c19Op) (memds.Fault, bool) {
		if o.Kind != c19ReleaseAffinity && o.Kind != c19ReleaseHostAffinities && o.Kind != c19RemoveIPAMHost {
			return memds.FaultNone, false
		}
		host, cidr, ok := c22AffPath(c.Path)
		if !ok || c.Method != "Update" || s.pdCrashes >= 2 {
			return memds.FaultNone, false
		}
		switch rapid.IntRange(0, 3).Draw(t, "atPendingDeletion") {
		case 0: // crash right after the mark (below)
		case 1:
			// the releaser is slow: hold it back for a while after its pendingDeletion mark and let
			// the owner host AutoAssign meanwhile (re-confirmation racing with the rest of the release)
			s.stalled[c.Op] = rapid.IntRange(4, 24).Draw(t, "stallSteps")
			s.forceAssign = append(s.forceAssign, c22Forced{host: host, v6: strings.Contains(cidr, ":")})
			s.classes["release-stalled-at-pendingDeletion"] = true
			return memds.FaultNone, true
		default:
			return memds.FaultNone, false
		}
		s.pdCrashes++
		s.pdCrashed[host+"|"+cidr] = true
		s.forceAssign = append(s.forceAssign, c22Forced{host: host, v6: strings.Contains(cidr, ":")})
		s.classes["release-crashed-at-pendingDeletion"] = true
		return memds.FaultCrashAfter, true
	}
	s.r.pickHook = func(calls []*memds.Call) int {
		if len(s.stalled) == 0 {
			return -1
		}
		var free []int
		for i, c := range calls {
			if s.stalled[c.Op] == 0 {
				free = append(free, i)
			}
		}
		for op, n := range s.stalled {
			if n <= 1 {
				delete(s.stalled, op)
			} else {
				s.stalled[op] = n - 1
			}
		}
		if len(free) == 0 || len(free) == len(calls) {
			return -1
		}
		return free[rapid.IntRange(0, len(free)-1).Draw(t, "pickUnstalled")]
	}
	s.r.onStep = func(evs []memds.WriteEvent) {
		s.checkWrites(evs)
		s.checkState()
	}
	s.r.onFinish = func(o *c19Op) {
		if o.crashed {
			s.classes["op-crashed"] = true
			return
		}
		// keep the generator's idea of live addresses roughly right (no assertions)
		switch o.Kind {
		case c19AutoAssign, c19AssignIP:
			for _, a := range o.IPs {
				ow := c19Owner{opID: o.ID, sinceStep: s.r.step}
				if o.Handle != nil {
					ow.handle, ow.hasHandle = *o.Handle, true
				}
				gen.model.live[a] = ow
			}
		case c19ReleaseIPs:
			for _, a := range o.Released {
				delete(gen.model.live, a)
			}
		case c19ReleaseByHandle:
			for a, ow := range gen.model.live {
				if ow.hasHandle && ow.handle == *o.Handle {
					delete(gen.model.live, a)
				}
			}
		}
	}
	defer s.r.shutdown()

	nOps := make([]int, 3)
	for i := range nOps {
		nOps[i] = rapid.IntRange(2, opsPerClient).Draw(t, fmt.Sprintf("client%dOps", i))
	}
	started := make([]int, 3)
	cur := make([]*c19Op, 3)
	var kinds []string
	startIdle := func() bool {
		any := false
		for c := 0; c < 3; c++ {
			forced := false
			for _, f := range s.forceAssign {
				if f.host == clHost[c] {
					forced = true // runs even when the client's script is used up
				}
			}
			if (cur[c] == nil || cur[c].finished) && (started[c] < nOps[c] || forced) {
				if rapid.IntRange(0, 5).Draw(t, "advanceTime") == 0 {
					s.advanceTime(2 * time.Minute)
					s.classes["time-advanced"] = true
				}
				id := fmt.Sprintf("c%d.%02d", c, started[c])
				var o *c19Op
				for i, f := range s.forceAssign {
					if f.host == clHost[c] {
						gen.uniq++
						h := fmt.Sprintf("u%d", gen.uniq)
						// enough addresses to walk through all of the host's affine blocks
						o = &c19Op{ID: id, Client: c, Host: clHost[c], Kind: c19AutoAssign, Use: v3.IPPoolAllowedUseWorkload, Handle: &h, Num4: 6}
						if f.v6 {
							o.Num4, o.Num6 = 0, 6
						}
						s.forceAssign = append(s.forceAssign[:i], s.forceAssign[i+1:]...)
						break
					}
				}
				if o == nil {
					o = gen.drawOp(t, c, id)
				}
				started[c]++
				cur[c] = o
				kinds = append(kinds, c19KindLetters[o.Kind])
				s.r.start(o)
				any = true
			}
		}
		return any
	}
	for {
		startIdle()
		calls := s.r.settle()
		if startIdle() {
			continue
		}
		if len(calls) == 0 {
			if n := len(s.r.inFlight()); n > 0 {
				t.Fatalf("HARNESS-GAP: %d operations neither finished nor parked (deadlock)\n%s", n, s.r.explain())
			}
			break
		}
		if s.r.step > 4000 {
			t.Fatalf("HARNESS-GAP: more than 4000 scheduling steps\n%s", s.r.explain())
		}
		s.r.stepOnce(calls)
	}
	s.checkState()

	// Non-trivial: claim phases of two different hosts for the same block overlap in the schedule.
	type span struct {
		host        string
		first, last int
	}
	spans := map[string]map[string]*span{} // block -> op id -> span
	opHost := map[string]string{}
	for _, o := range s.r.ops {
		h := o.Host
		if o.Kind == c19ClaimAffinity {
			h = o.TargetHost
		}
		opHost[o.ID] = h
	}
	for i, c := range s.r.sched.Trace() {
		p := strings.Split(c.ID, "|")
		if len(p) != 5 {
			continue
		}
		isAff := strings.Contains(p[4], "/ipam/v2/host/") && strings.Contains(p[4], "/block/")
		isBlk := strings.Contains(p[4], "/assignment/")
		if !((isAff && (p[3] == "Create" || p[3] == "Update")) || (isBlk && p[3] == "Create")) {
			continue
		}
		blk := p[4][strings.LastIndex(p[4], "/")+1:]
		if spans[blk] == nil {
			spans[blk] = map[string]*span{}
		}
		sp := spans[blk][p[0]]
		if sp == nil {
			sp = &span{host: opHost[p[0]], first: i}
			spans[blk][p[0]] = sp
		}
		sp.last = i
	}
	overlap := false
	for _, m := range spans {
		var ss []*span
		for _, sp := range m {
			ss = append(ss, sp)
		}
		for i := range ss {
			for j := i + 1; j < len(ss); j++ {
				if ss[i].host != ss[j].host && ss[i].first <= ss[j].last && ss[j].first <= ss[i].last {
					overlap = true
				}
			}
		}
	}
	if overlap {
		s.classes["claims-overlap"] = true
	}
	if strict {
		s.classes["strict-affinity"] = true
	}
	for k, n := range s.r.injected {
		if n > 0 {
			s.classes["fault-"+k] = true
		}
	}
	var cls []string
	for c := range s.classes {
		cls = append(cls, c)
	}
	sort.Strings(cls)
	shape := strings.Join(kinds, "") + "/" + strings.Join(cls, ",")
	for _, k := range dedup(kinds) {
		cls = append(cls, "op-"+k)
	}
	tr := s.r.sched.Trace()
	if s.knownHit {
		rec.Excluded(c22SigClaimDuringRelease)
	}
	rec.SizedCase(overlap, shape, len(tr), func() any {
		var ops []string
		for _, o := range s.r.ops {
			ops = append(ops, o.String())
		}
		return map[string]any{"clientHosts": clHost, "strict": strict, "ops": ops, "datastore_calls": len(tr), "injected": s.r.injected}
	}, cls...)
}

func TestVerifC22Scheduled(t *testing.T) {
	ev.Quiet()
	rec := ev.New("C22", "scheduled",
		"3 clients on hosts n1..n3 (sometimes two on one host), pools 10.0.0.0/28 (/30 blocks) + fd00::/124 (/126 blocks), StrictAffinity on in half of the cases; operation mix biased to ClaimAffinity / ReleaseAffinity / ReleaseHostAffinities / RemoveIPAMHost on 3 hot blocks plus AutoAssign/AssignIP/releases; generated one-call-at-a-time schedule, per-call faults (conflict, error, crash before/after the write: crashes between the phases of the two-phase claim), time advances that make empty blocks reclaimable. Oracle after every released datastore call. Non-trivial = claim calls (affinity create/update, block create) of two different hosts for the same block overlap in the schedule; distinct = distinct (operation-kind sequence, class set)",
		"trusts verifkit/memds as a faithful compare-and-swap datastore",
		"allocating host is observed through the allocation's node attribute, which the harness always sets to the requesting host",
		"time is advanced by shifting the persisted AffinityClaimTime into the past")
	defer rec.Write()
	rapid.Check(t, func(t *rapid.T) {
		c22Run(t, rec, ev.Scale(5, 7))
	})
}

// TestVerifC22ConfirmClaimDuringRelease is the deterministic reproducer of the known finding
// c22SigClaimDuringRelease.  It FAILS while the defect is present.  No faults.
func TestVerifC22ConfirmClaimDuringRelease(t *testing.T) {
	ev.Quiet()
	w := c19NewWorld([]v3.IPPool{c19Pool("pool4", c19PoolV4, 30)}, nil)
	w.addNode("n3", nil)
	w.setConfig(model.IPAMConfig{AutoAllocateBlocks: true})
	ctx := context.Background()
	// n3 owns block 10.0.0.0/30 and has one address in it.
	if _, _, err := w.ic.ClaimAffinity(ctx, cnetMustCIDR("10.0.0.0/30"), ipam.AffinityConfig{AffinityType: ipam.AffinityTypeHost, Host: "n3"}); err != nil {
		t.Fatalf("HARNESS-GAP: %v", err)
	}
	if err := w.ic.AssignIP(ctx, ipam.AssignIPArgs{IP: *cnetIP("10.0.0.1"), Hostname: "n3"}); err != nil {
		t.Fatalf("HARNESS-GAP: %v", err)
	}
	sched := memds.NewScheduler(w.store)
	var errR, errC error
	var claimed []string
	// R: somebody releases n3's affinities (blocks need not be empty) ...
	sched.Go("r", func(ctx context.Context) {
		errR = w.ic.ReleaseHostAffinities(ctx, ipam.AffinityConfig{AffinityType: ipam.AffinityTypeHost, Host: "n3"}, false)
	})
	// ... and has marked the affinity pendingDeletion; its next call strips the block's affinity.
	c19Drive(t, sched, func(calls []*memds.Call) int {
		if calls[0].Method == "Update" && strings.Contains(calls[0].Path, "/assignment/") {
			return -1
		}
		return 0
	})
	// C: n3 claims the block again, start to finish.
	sched.Go("c", func(ctx context.Context) {
		cl, _, err := w.ic.ClaimAffinity(ctx, cnetMustCIDR("10.0.0.0/30"), ipam.AffinityConfig{AffinityType: ipam.AffinityTypeHost, Host: "n3"})
		errC = err
		for _, c := range cl {
			claimed = append(claimed, c.String())
		}
	})
	c19Drive(t, sched, func(calls []*memds.Call) int {
		for i, c := range calls {
			if strings.HasPrefix(c.ID, "c|") {
				return i
			}
		}
		return -1
	})
	// R's block write (compare-and-swap on the block revision it read before C ran).
	calls, err := sched.Quiesce()
	if err != nil || len(calls) != 1 {
		t.Fatalf("HARNESS-GAP: expected R parked at its block write: %v %v", calls, err)
	}
	sched.Release(calls[0], memds.FaultNone)
	if _, err := sched.Quiesce(); err != nil {
		t.Fatalf("HARNESS-GAP: %v", err)
	}
	snap := w.snapshot()
	for _, a := range snap.Affs {
		if b := snap.Blocks[a.CIDR]; a.State == string(model.StateConfirmed) && b != nil && b.Affinity != "host:"+a.Host {
			t.Errorf("no faults: ClaimAffinity(10.0.0.0/30, n3) returned claimed=%v err=%v while ReleaseHostAffinities(n3) was between its two writes: affinity of %s for %s is confirmed but the block records affinity %q\n%s\ntrace: %v",
				claimed, errC, a.CIDR, a.Host, b.Affinity, snap, sched.Trace())
		}
	}
	if err := sched.Shutdown(); err != nil {
		t.Fatalf("HARNESS-GAP: %v", err)
	}
	_ = errR
}
